import FparserModel.Proofs.One2Generated

/-!
# One2 — sufficient syntactic conditions for `restep` on END lines

`endOk_printed`: in a block that is not a DO, whose END regex accepts the printed END line, whose
blocktype is lower case without blanks, and whose END name (`construct_name or name`) is lower case
without blanks, the printed END line read again closes the block.  The regex hypothesis is proved for
all word names for the END regexes of the `end\s*KW\s*\w*\Z` family (`endRe_*`).
-/
namespace Fp.One2
open Fp

theorem manyK_of_k (p : Char → Bool) (k : Str → Bool) (s : Str) (h : k s = true) :
    manyK p k s = true := by
  cases s with
  | nil => simpa [manyK] using h
  | cons c t => simp [manyK, h]

theorem manyK_all (p : Char → Bool) (k : Str → Bool) (s : Str) (h : s.all p = true)
    (hk : k [] = true) : manyK p k s = true := by
  induction s with
  | nil => simpa [manyK] using hk
  | cons c t ih =>
    simp only [List.all_cons, Bool.and_eq_true] at h
    simp [manyK, h.1, ih h.2]

/-- a name the reader hands back unchanged: lower case, no blanks -/
def PlainName (nm : Str) : Prop := lower nm = nm ∧ noBlanks nm = nm

theorem endNameOk_printed (bt nm : Str) (hb : lower bt = bt) (hb2 : noBlanks bt = bt)
    (hb3 : lower (upper bt) = bt) (hn : PlainName nm) :
    endNameOk bt nm (lower (if nm != [] then "END ".toList ++ upper bt ++ ' ' :: nm
      else "END ".toList ++ upper bt)) = true := by
  obtain ⟨hl, hnb⟩ := hn
  have e1 : lower ("END ".toList) = "end ".toList := by decide
  have e2 : noBlanks ("end ".toList) = "end".toList := by decide
  have hnb' : List.filter (fun x => x != ' ') nm = nm := hnb
  have hb2' : List.filter (fun x => x != ' ') bt = bt := hb2
  have hb' : List.map lowerC bt = bt := hb
  have hl' : List.map lowerC nm = nm := hl
  have hb3' : List.map lowerC (List.map upperC bt) = bt := hb3
  split
  · have : lower ("END ".toList ++ upper bt ++ ' ' :: nm) = "end ".toList ++ bt ++ ' ' :: nm := by
      simp only [lower, upper, List.map_append, List.map_cons] at *
      rw [hb3', hl']; rfl
    rw [this]
    have h2 : noBlanks ("end ".toList ++ bt ++ ' ' :: nm) = "end".toList ++ (bt ++ nm) := by
      simp only [noBlanks, List.filter_append, List.filter_cons] at *
      rw [hb2', hnb']; simp
    simp only [endNameOk, h2]
    have h3 : ("end".toList ++ (bt ++ nm)).drop 3 = bt ++ nm := rfl
    rw [h3]
    have h4 : lower (bt ++ nm) = bt ++ nm := by simp [lower, hb', hl']
    simp [h4, startsWith]
  · have : lower ("END ".toList ++ upper bt) = "end ".toList ++ bt := by
      simp only [lower, upper, List.map_append] at *
      rw [hb3']; rfl
    rw [this]
    have h2 : noBlanks ("end ".toList ++ bt) = "end".toList ++ bt := by
      simp only [noBlanks, List.filter_append] at *
      rw [hb2']; rfl
    simp only [endNameOk, h2]
    have h3 : ("end".toList ++ bt).drop 3 = bt := rfl
    rw [h3]
    simp [hb, startsWith]

variable (T : Tables)

/-- the printed END line of a non-DO block closes the block when it is read again -/
theorem endOk_printed (c : Ctx) (id : Nat) (label : Option Nat)
    (hcls : ((rowAt T c.row).endCls != "") = true) (hdo : ((rowAt T c.row).cls != "Do") = false → False)
    (hreg : (rowAt T c.row).endRe.matches (lower (endText T c)) = true)
    (hb : lower (rowAt T c.row).endBt.toList = (rowAt T c.row).endBt.toList)
    (hb2 : noBlanks (rowAt T c.row).endBt.toList = (rowAt T c.row).endBt.toList)
    (hb3 : lower (upper (rowAt T c.row).endBt.toList) = (rowAt T c.row).endBt.toList)
    (hn : PlainName (endName c)) :
    endOk T c (reEnd id label (endText T c)) = true := by
  have hd : ((rowAt T c.row).cls != "Do") = true := by
    cases h : ((rowAt T c.row).cls != "Do") with
    | true => rfl
    | false => exact absurd h (by intro h'; exact hdo h')
  have hnm := endNameOk_printed _ _ hb hb2 hb3 hn
  simp only [endOk, reEnd, hcls, hreg, hd, Bool.true_or, Bool.and_true, Bool.true_and]
  simpa [endText] using hnm

theorem step_close_of_endOk (c : Ctx) (it : Item) (hc : it.isComment = false)
    (hs : shared T c it = false) (he : endOk T c it = true) : step T c it = .close := by
  simp [step, hc, hs, he]

/-! ### the END regexes of the live tables accept the printed END line, for every word name -/

theorem endRe_if (name : Str) (hw : name.all isWord = true) :
    Gen.row8.endRe.matches ("end if ".toList ++ name) = true := by
  simp only [Gen.row8, Re.matches, Re.m]
  simp [strK, manyK, CC.test, isSp]
  left
  apply manyK_of_k
  exact manyK_all _ _ _ (by simpa [CC.test] using hw) (by simp)

theorem endRe_select (name : Str) (hw : name.all isWord = true) :
    Gen.row9.endRe.matches ("end select ".toList ++ name) = true := by
  simp only [Gen.row9, Re.matches, Re.m]
  simp [strK, manyK, CC.test, isSp]
  left
  apply manyK_of_k
  exact manyK_all _ _ _ (by simpa [CC.test] using hw) (by simp)

theorem endRe_associate (name : Str) (hw : name.all isWord = true) :
    Gen.row5.endRe.matches ("end associate ".toList ++ name) = true := by
  simp only [Gen.row5, Re.matches, Re.m]
  simp [strK, manyK, CC.test, isSp]
  left
  apply manyK_of_k
  exact manyK_all _ _ _ (by simpa [CC.test] using hw) (by simp)

theorem endRe_type (name : Str) (hw : name.all isWord = true) :
    Gen.row2.endRe.matches ("end type ".toList ++ name) = true := by
  simp only [Gen.row2, Re.matches, Re.m]
  simp [strK, manyK, CC.test, isSp]
  left
  apply manyK_of_k
  exact manyK_all _ _ _ (by simpa [CC.test] using hw) (by simp)

/-- … and the END regex of ENUM accepts no printed END line with a name (the name fparser1 invents,
    `__ENUM__`, included) -/
theorem endRe_enum_named (name : Str) (c : Char) :
    Gen.row3.endRe.matches ("end enum ".toList ++ c :: name) = false := by
  simp only [Gen.row3, Re.matches, Re.m]
  simp [strK, manyK, CC.test, isSp]

/-- an IF-THEN block named or unnamed by a plain name: its printed END line closes it again -/
theorem if_end_restep (c : Ctx) (it : Item) (hrow : c.row = 8) (hn : PlainName (endName c))
    (hw : (endName c).all isWord = true) :
    step Gen.tables c (reEnd it.id it.label (endText Gen.tables c)) = .close := by
  have hr : rowAt Gen.tables c.row = Gen.row8 := by rw [hrow]; rfl
  apply step_close_of_endOk
  · rfl
  · simp [shared, hit, isDo, hr, Gen.row8]
  · apply endOk_printed
    · rw [hr]; decide
    · rw [hr]; decide
    · rw [hr]
      by_cases he : endName c = []
      · simp only [endText, hr, he]
        decide +kernel
      · have : lower (endText Gen.tables c) = "end if ".toList ++ endName c := by
          simp only [endText, hr, bne_iff_ne, ne_eq, he, not_false_eq_true, if_true]
          have := hn.1
          simp only [lower, List.map_append, List.map_cons] at *
          rw [this]; rfl
        rw [this]; exact endRe_if _ hw
    · rw [hr]; decide
    · rw [hr]; decide
    · rw [hr]; decide
    · exact hn

/-- an ENUM definition (no name since the repair): its printed END line `END ENUM` closes it again -/
theorem enum_end_restep (c : Ctx) (it : Item) (hrow : c.row = 3) (hn : endName c = []) :
    step Gen.tables c (reEnd it.id it.label (endText Gen.tables c)) = .close := by
  have hr : rowAt Gen.tables c.row = Gen.row3 := by rw [hrow]; rfl
  apply step_close_of_endOk
  · rfl
  · simp [shared, hit, isDo, hr, Gen.row3]
  · apply endOk_printed
    · rw [hr]; decide
    · rw [hr]; decide
    · rw [hr]
      simp only [endText, hr, hn]
      decide +kernel
    · rw [hr]; decide
    · rw [hr]; decide
    · rw [hr]; decide
    · rw [hn]; exact ⟨by decide, by decide⟩

example : PlainName "foo".toList ∧ ("foo".toList).all isWord = true :=
  ⟨⟨by decide, by decide⟩, by decide⟩

end Fp.One2
