import FparserModel.Print
/-!
# PrintPins - what FparserModel/Print.lean was validated against

Hand-maintained (the `expected` block is rewritten by `python -m fv.extract_print --write-pins <lean dir>`
AFTER the mirror of an edited printer has been re-validated with fv/cosim_print.py; never as part of a
normal build).  Generated/PrintTables.lean proves that the live code equals these.
-/
namespace Fp.Print

/-- `live = expected`; the message is part of the statement so that it shows in the error -/
def Pinned (_msg : String) (live expected : Option (String × String)) : Prop := live = expected
instance (m : String) (a b : Option (String × String)) : Decidable (Pinned m a b) :=
  inferInstanceAs (Decidable (a = b))
/-- the same for any type with decidable equality (tables, counts) -/
def PinnedEq {α : Type} (_msg : String) (live expected : α) : Prop := live = expected
instance {α : Type} [DecidableEq α] (m : String) (a b : α) : Decidable (PinnedEq m a b) :=
  inferInstanceAs (Decidable (a = b))

namespace Pins

def expected : List (String × String) := [
  ("Fortran2003.Action_Term_Do_Construct.label_do_stmt_cls", "f83d1d7536a0c4e3"),
  ("Fortran2003.Action_Term_Do_Construct.tofortran", "fc57846727f8db79"),
  ("Fortran2003.Block_Label_Do_Construct.label_do_stmt_cls", "f83d1d7536a0c4e3"),
  ("Fortran2003.Block_Label_Do_Construct.tofortran", "a0ff80b8a98a8151"),
  ("Fortran2003.Case_Construct.tofortran", "7be553ab002f37d4"),
  ("Fortran2003.Comment.tostr", "bcf9419403db7235"),
  ("Fortran2003.Component_Part.tofortran", "bee054ee3c741582"),
  ("Fortran2003.Directive.tostr", "02a2464e559b1749"),
  ("Fortran2003.If_Construct.tofortran", "42f2cd667fdd34fc"),
  ("Fortran2003.Include_Stmt.tostr", "259eb924f5941a05"),
  ("Fortran2003.Where_Construct.tofortran", "7fa6bad0c6cf9833"),
  ("Fortran2008.Action_Term_Do_Construct.label_do_stmt_cls", "f83d1d7536a0c4e3"),
  ("Fortran2008.Block_Label_Do_Construct.label_do_stmt_cls", "f83d1d7536a0c4e3"),
  ("utils.Base.__str__", "aa1dcd6de5191e43"),
  ("utils.Base.init", "66d1e2f29d6560f9"),
  ("utils.Base.tofortran", "1b06684ed5ed140f"),
  ("utils.BlockBase.init", "33207e29fdf1d9c1"),
  ("utils.BlockBase.tofortran", "fc10bb390fbfe35b"),
  ("utils.BlockBase.tostr", "ecde8c8290d855d4"),
  ("utils.StmtBase.tofortran", "6292c5f20cf3b5dd")
]

/-- the class whose `tofortran` a block class resolves to ↦ the branch of the model -/
def printerOfOwner : String → Option Printer
  | "utils.BlockBase" => some .blockBase
  | "Fortran2003.Component_Part" => some .componentPart
  | "Fortran2003.Where_Construct" => some .whereC
  | "Fortran2003.If_Construct" => some .ifC
  | "Fortran2003.Case_Construct" => some .caseC
  | "Fortran2003.Block_Label_Do_Construct" => some .labelDo
  | "Fortran2003.Action_Term_Do_Construct" => some .actionTerm
  | _ => none

/-- the own printers of block classes the model special-cases (sorted) -/
def specialPrinters : List String := [
  "Fortran2003.Action_Term_Do_Construct.tofortran", "Fortran2003.Block_Label_Do_Construct.tofortran",
  "Fortran2003.Case_Construct.tofortran", "Fortran2003.Component_Part.tofortran",
  "Fortran2003.If_Construct.tofortran", "Fortran2003.Where_Construct.tofortran"]

/-- the six block printers Rest's inventory listed as mirrored by nobody -/
def mirroredSix : List String := specialPrinters

/-- the own `tofortran` / `__str__` of non-block rule classes -/
def leafPrinters : List String := ["utils.Base.__str__", "utils.Base.tofortran", "utils.StmtBase.tofortran"]

/-- `label_do_stmt_cls()` of the classes printing through `Action_Term_Do_Construct.tofortran` (cid order) -/
def labelDoTargets : List String := ["Fortran2003.Label_Do_Stmt", "Fortran2008.Label_Do_Stmt"]

end Pins
end Fp.Print
