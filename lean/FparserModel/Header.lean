import FparserModel.Py
import FparserModel.Splitline
import FparserModel.Combi
import FparserModel.IoStmt
/-!
# Header — executable mirror of the HAND-WRITTEN opening / END statements of program units,
# derived types, interfaces and constructs (`fparser/two/Fortran2003.py`, the overrides in
# `fparser/two/Fortran2008/`, and their base classes `EndStmtBase`, `StmtBase` in `utils.py`),
# and of the start/end NAME and LABEL comparison inside `BlockBase.match`.

Same organisation as `IoStmt.lean` (whose outcome type `Res`, `Slot`, `Item`, `Oracle`, `runSlots`
are re-used): `planX : Str → Res (List Slot)` (pure string processing, child calls in CALL order,
a trailing `.fail` / `.raise` = `return None` / an exception after the preceding calls) +
`runSlots` + `tostrX`.  Names, name lists, expressions, type specs are OPAQUE children (oracle).
Three decisions of the Python depend on the STRUCTURE of a child; they are extra oracle fields
(`HOracle`): C1242 (`ELEMENTAL` in a `Prefix`, a `Language_Binding_Spec` inside a `Suffix`), and
`Proc_Component_Attr_Spec('POINTER') in attr_spec_list.items`.

Part 2 (`namesAgree`, `midAgree`) mirrors what `BlockBase.match` decides about the names and
labels of the opening statement, the intermediate statements (ELSE / CASE / ELSEWHERE / TYPE IS
with a construct name) and the END statement, for the per-kind flags with which each block class
calls it (`KindCfg`; the live flags are in `Generated/HeaderTables.lean`).

Part 3 (`tofortran`) mirrors `StmtBase.tofortran` (label and construct-name printing).
ASCII domain as in `Py.lean`.
-/
namespace Fp.Header
open Fp Fp.Splitline Fp.IoStmt

variable {Node : Type}

/-! ## class ids of this slice (index into `clsNames`; checked against the live modules) -/

def clsNames : List String := [
  -- children (opaque)
  "Program_Name", "Module_Name", "Subroutine_Name", "Function_Name", "Block_Data_Name", "Type_Name",
  "Do_Construct_Name", "If_Construct_Name", "Case_Construct_Name", "Select_Construct_Name",
  "Where_Construct_Name", "Forall_Construct_Name", "Associate_Construct_Name",
  "Block_Construct_Name", "Critical_Construct_Name", "Submodule_Name",
  "Declaration_Type_Spec", "Proc_Language_Binding_Spec", "Result_Name",
  "Scalar_Char_Initialization_Expr", "Entry_Name", "Ancestor_Module_Name", "Parent_SubModule_Name",
  "Defined_Operator", "Procedure_Name_List", "Type_Param_Name_List", "Parent_Type_Name",
  "Interface_Name", "Binding_Attr_List", "Binding_Name", "Procedure_Name", "Access_Spec",
  "Binding_Name_List", "Final_Subroutine_Name_List", "Proc_Interface",
  "Proc_Component_Attr_Spec_List", "Proc_Component_Attr_Spec", "Proc_Decl_List",
  "Proc_Attr_Spec_List", "Procedure_Entity_Name", "Null_Init", "Name", "Intent_Spec",
  "Import_Name_List", "Enumerator_List", "Association_List", "Associate_Name", "Selector",
  "Type_Spec", "Mask_Expr", "Dummy_Arg_Name", "Arg_Name",
  -- modelled classes
  "End_Program_Stmt", "End_Module_Stmt", "End_Subroutine_Stmt", "End_Function_Stmt",
  "End_Block_Data_Stmt", "End_Type_Stmt", "End_Interface_Stmt", "End_Do_Stmt", "End_If_Stmt",
  "End_Select_Stmt", "End_Select_Type_Stmt", "End_Where_Stmt", "End_Forall_Stmt",
  "End_Associate_Stmt", "End_Enum_Stmt", "End_Block_Stmt", "End_Critical_Stmt",
  "End_Submodule_Stmt",
  "Program_Stmt", "Module_Stmt", "Submodule_Stmt", "Parent_Identifier", "Block_Data_Stmt",
  "Subroutine_Stmt", "Function_Stmt", "Prefix", "Prefix_Spec", "Suffix", "Language_Binding_Spec",
  "Dummy_Arg_List", "Dummy_Arg_Name_List", "Dummy_Arg", "Entry_Stmt", "Interface_Stmt",
  "Generic_Spec", "Dtio_Generic_Spec", "Extended_Intrinsic_Op", "Procedure_Stmt",
  "Derived_Type_Stmt", "Type_Attr_Spec", "Type_Attr_Spec_List", "Private_Components_Stmt",
  "Sequence_Stmt", "Contains_Stmt", "Binding_Private_Stmt", "Specific_Binding", "Generic_Binding",
  "Final_Binding", "Binding_Attr", "Proc_Component_Def_Stmt", "Procedure_Declaration_Stmt",
  "Proc_Decl", "Proc_Attr_Spec", "Import_Stmt", "Enum_Def_Stmt", "Enumerator_Def_Stmt",
  "Associate_Stmt", "Association", "Select_Type_Stmt", "Type_Guard_Stmt", "Block_Stmt",
  "Critical_Stmt", "Else_Stmt", "Elsewhere_Stmt", "Masked_Elsewhere_Stmt",
  "Binding_PASS_Arg_Name", "Proc_Component_PASS_Arg_Name"]

namespace C
def Program_Name : ClassId := 0
def Module_Name : ClassId := 1
def Subroutine_Name : ClassId := 2
def Function_Name : ClassId := 3
def Block_Data_Name : ClassId := 4
def Type_Name : ClassId := 5
def Do_Construct_Name : ClassId := 6
def If_Construct_Name : ClassId := 7
def Case_Construct_Name : ClassId := 8
def Select_Construct_Name : ClassId := 9
def Where_Construct_Name : ClassId := 10
def Forall_Construct_Name : ClassId := 11
def Associate_Construct_Name : ClassId := 12
def Block_Construct_Name : ClassId := 13
def Critical_Construct_Name : ClassId := 14
def Submodule_Name : ClassId := 15
def Declaration_Type_Spec : ClassId := 16
def Proc_Language_Binding_Spec : ClassId := 17
def Result_Name : ClassId := 18
def Scalar_Char_Initialization_Expr : ClassId := 19
def Entry_Name : ClassId := 20
def Ancestor_Module_Name : ClassId := 21
def Parent_SubModule_Name : ClassId := 22
def Defined_Operator : ClassId := 23
def Procedure_Name_List : ClassId := 24
def Type_Param_Name_List : ClassId := 25
def Parent_Type_Name : ClassId := 26
def Interface_Name : ClassId := 27
def Binding_Attr_List : ClassId := 28
def Binding_Name : ClassId := 29
def Procedure_Name : ClassId := 30
def Access_Spec : ClassId := 31
def Binding_Name_List : ClassId := 32
def Final_Subroutine_Name_List : ClassId := 33
def Proc_Interface : ClassId := 34
def Proc_Component_Attr_Spec_List : ClassId := 35
def Proc_Component_Attr_Spec : ClassId := 36
def Proc_Decl_List : ClassId := 37
def Proc_Attr_Spec_List : ClassId := 38
def Procedure_Entity_Name : ClassId := 39
def Null_Init : ClassId := 40
def Name : ClassId := 41
def Intent_Spec : ClassId := 42
def Import_Name_List : ClassId := 43
def Enumerator_List : ClassId := 44
def Association_List : ClassId := 45
def Associate_Name : ClassId := 46
def Selector : ClassId := 47
def Type_Spec : ClassId := 48
def Mask_Expr : ClassId := 49
def Dummy_Arg_Name : ClassId := 50
def Arg_Name : ClassId := 51
def End_Program_Stmt : ClassId := 52
def End_Module_Stmt : ClassId := 53
def End_Subroutine_Stmt : ClassId := 54
def End_Function_Stmt : ClassId := 55
def End_Block_Data_Stmt : ClassId := 56
def End_Type_Stmt : ClassId := 57
def End_Interface_Stmt : ClassId := 58
def End_Do_Stmt : ClassId := 59
def End_If_Stmt : ClassId := 60
def End_Select_Stmt : ClassId := 61
def End_Select_Type_Stmt : ClassId := 62
def End_Where_Stmt : ClassId := 63
def End_Forall_Stmt : ClassId := 64
def End_Associate_Stmt : ClassId := 65
def End_Enum_Stmt : ClassId := 66
def End_Block_Stmt : ClassId := 67
def End_Critical_Stmt : ClassId := 68
def End_Submodule_Stmt : ClassId := 69
def Program_Stmt : ClassId := 70
def Module_Stmt : ClassId := 71
def Submodule_Stmt : ClassId := 72
def Parent_Identifier : ClassId := 73
def Block_Data_Stmt : ClassId := 74
def Subroutine_Stmt : ClassId := 75
def Function_Stmt : ClassId := 76
def Prefix : ClassId := 77
def Prefix_Spec : ClassId := 78
def Suffix : ClassId := 79
def Language_Binding_Spec : ClassId := 80
def Dummy_Arg_List : ClassId := 81
def Dummy_Arg_Name_List : ClassId := 82
def Dummy_Arg : ClassId := 83
def Entry_Stmt : ClassId := 84
def Interface_Stmt : ClassId := 85
def Generic_Spec : ClassId := 86
def Dtio_Generic_Spec : ClassId := 87
def Extended_Intrinsic_Op : ClassId := 88
def Procedure_Stmt : ClassId := 89
def Derived_Type_Stmt : ClassId := 90
def Type_Attr_Spec : ClassId := 91
def Type_Attr_Spec_List : ClassId := 92
def Private_Components_Stmt : ClassId := 93
def Sequence_Stmt : ClassId := 94
def Contains_Stmt : ClassId := 95
def Binding_Private_Stmt : ClassId := 96
def Specific_Binding : ClassId := 97
def Generic_Binding : ClassId := 98
def Final_Binding : ClassId := 99
def Binding_Attr : ClassId := 100
def Proc_Component_Def_Stmt : ClassId := 101
def Procedure_Declaration_Stmt : ClassId := 102
def Proc_Decl : ClassId := 103
def Proc_Attr_Spec : ClassId := 104
def Import_Stmt : ClassId := 105
def Enum_Def_Stmt : ClassId := 106
def Enumerator_Def_Stmt : ClassId := 107
def Associate_Stmt : ClassId := 108
def Association : ClassId := 109
def Select_Type_Stmt : ClassId := 110
def Type_Guard_Stmt : ClassId := 111
def Block_Stmt : ClassId := 112
def Critical_Stmt : ClassId := 113
def Else_Stmt : ClassId := 114
def Elsewhere_Stmt : ClassId := 115
def Masked_Elsewhere_Stmt : ClassId := 116
def Binding_PASS_Arg_Name : ClassId := 117
def Proc_Component_PASS_Arg_Name : ClassId := 118
end C

/-- the first modelled class id (everything below is an opaque child) -/
def firstModelled : ClassId := 52

/-! ## the oracle: `IoStmt.Oracle` + the three structural questions the Python asks -/

structure HOracle (Node : Type) where
  base : Oracle Node
  /-- `any("ELEMENTAL" in str(child) for child in walk(prefix.items, Prefix_Spec))` -/
  elemental : Node → Bool
  /-- `bool(walk(node, Language_Binding_Spec))` (a `Suffix`, or the binding spec itself) -/
  binding : Node → Bool
  /-- `Proc_Component_Attr_Spec('POINTER') in node.items` -/
  pointer : Node → Bool

/-! ## Python `str` / `re` helpers -/

/-- `[\w$]` -/
def isNameChar (c : Char) : Bool := isWord c || c == '$'

/-- `m = pattern.name.match(s)` (`[A-Z][\w$]*`, IGNORECASE): `(m.group(), s[m.end():])` -/
def nameMatch (s : Str) : Option (Str × Str) :=
  match s with
  | [] => none
  | c :: cs =>
    if isAlpha c then some (c :: cs.takeWhile isNameChar, cs.dropWhile isNameChar) else none

/-- `pattern.abs_name.match(s)` -/
def isAbsName (s : Str) : Bool :=
  match nameMatch s with
  | some (_, []) => true
  | _ => false

/-- `m = KW.search(line)` for a literal, case-insensitive keyword pattern (`KW` upper case):
    `(line[:m.start()], line[m.end():])` of the FIRST occurrence -/
def searchCI (kw : Str) : Str → Option (Str × Str)
  | [] => if kw.isEmpty then some ([], []) else none
  | c :: cs =>
    if upper ((c :: cs).take kw.length) == kw then some ([], (c :: cs).drop kw.length)
    else match searchCI kw cs with
      | some p => some (c :: p.1, p.2)
      | none => none

/-- `s.split()` (no argument: runs of white space separate, no empty pieces) -/
def splitWsAux : Str → Str → List Str
  | [], cur => if cur.isEmpty then [] else [cur.reverse]
  | c :: cs, cur =>
    if isSpace c then (if cur.isEmpty then splitWsAux cs [] else cur.reverse :: splitWsAux cs [])
    else splitWsAux cs (c :: cur)

def splitWs (s : Str) : List Str := splitWsAux s []

/-- `line[0] + line[-1] == "()"` for a non-empty `line` (`"("` alone gives `"(("`) -/
def parenEnds (line : Str) : Bool :=
  match line.head?, line.getLast? with
  | some h, some l => h == '(' && l == ')'
  | _, _ => false

/-- `line[0] != "(" or line[-1] != ")"` negated, same as `parenEnds` -/
abbrev parenShape := parenEnds

/-- `s[-n:]` -/
def lastN (n : Nat) (s : Str) : Str := s.drop (s.length - n)
/-- `s[:-n]` (`n ≥ 1`) -/
def dropLastN (n : Nat) (s : Str) : Str := s.take (s.length - n)

/-! ## the END family — `EndStmtBase.match(stmt_type, stmt_name, string, require_stmt_type)` -/

/-- one END class: its `stmt_type`, the class of the name (`none` = `None`), `require_stmt_type`,
    and whether the class exists only in the Fortran2008 package.  The live values (read by
    calling each class's `match` with `EndStmtBase.match` intercepted) are compared with this
    table in `Generated/HeaderTables.lean`. -/
structure EndRow where
  cls : String
  ty : String
  nameCls : Option String
  req : Bool
  only2008 : Bool
deriving Repr, DecidableEq

def endTable : List EndRow := [
  ⟨"End_Program_Stmt", "PROGRAM", some "Program_Name", false, false⟩,
  ⟨"End_Module_Stmt", "MODULE", some "Module_Name", false, false⟩,
  ⟨"End_Subroutine_Stmt", "SUBROUTINE", some "Subroutine_Name", false, false⟩,
  ⟨"End_Function_Stmt", "FUNCTION", some "Function_Name", false, false⟩,
  ⟨"End_Block_Data_Stmt", "BLOCK DATA", some "Block_Data_Name", false, false⟩,
  ⟨"End_Type_Stmt", "TYPE", some "Type_Name", true, false⟩,
  ⟨"End_Interface_Stmt", "INTERFACE", some "Generic_Spec", true, false⟩,
  ⟨"End_Do_Stmt", "DO", some "Do_Construct_Name", true, false⟩,
  ⟨"End_If_Stmt", "IF", some "If_Construct_Name", true, false⟩,
  ⟨"End_Select_Stmt", "SELECT", some "Case_Construct_Name", true, false⟩,
  ⟨"End_Select_Type_Stmt", "SELECT", some "Select_Construct_Name", true, false⟩,
  ⟨"End_Where_Stmt", "WHERE", some "Where_Construct_Name", true, false⟩,
  ⟨"End_Forall_Stmt", "FORALL", some "Forall_Construct_Name", true, false⟩,
  ⟨"End_Associate_Stmt", "ASSOCIATE", some "Associate_Construct_Name", true, false⟩,
  ⟨"End_Enum_Stmt", "ENUM", none, true, false⟩,
  ⟨"End_Block_Stmt", "BLOCK", some "Block_Construct_Name", true, true⟩,
  ⟨"End_Critical_Stmt", "CRITICAL", some "Critical_Construct_Name", true, true⟩,
  ⟨"End_Submodule_Stmt", "SUBMODULE", some "Submodule_Name", false, true⟩]

def clsId (name : String) : Option ClassId :=
  let i := clsNames.idxOf name
  if i < clsNames.length then some i else none

/-- the `Combi` spec of an END class -/
def endSpec (r : EndRow) : Combi.Spec :=
  .endStmt r.ty.toList (r.nameCls.bind clsId) r.req

def endRowOf (c : ClassId) : Option EndRow :=
  endTable.find? fun r => clsId r.cls == some c

/-- `End_X_Stmt.match(string)` -/
def planEnd (r : EndRow) (s : Str) : Res (List Slot) := combiPlan (endSpec r) s
/-- `EndStmtBase.tostr` -/
def tostrEnd (o : Oracle Node) (r : EndRow) (items : List (Item Node)) : Res Str :=
  combiStr o (endSpec r) items

/-! ## generic-combinator instances among the opening statements -/

def specProgram : Combi.Spec := .word ["PROGRAM".toList] false (some C.Program_Name) false true false
def specModule : Combi.Spec := .word ["MODULE".toList] false (some C.Module_Name) false true false
def specFinalBinding : Combi.Spec :=
  .word ["FINAL".toList] false (some C.Final_Subroutine_Name_List) true true true
def specImport : Combi.Spec := .word ["IMPORT".toList] false (some C.Import_Name_List) true false true
def specEnumerator : Combi.Spec :=
  .word ["ENUMERATOR".toList] false (some C.Enumerator_List) true true true
def specAssociate : Combi.Spec := .call (.kw "ASSOCIATE".toList) (.cls C.Association_List) true false
def specBlockWord : Combi.Spec := .word ["BLOCK".toList] false none false false false
def specCriticalWord : Combi.Spec := .word ["CRITICAL".toList] false none false false false
def specBindingPass : Combi.Spec := .call (.kw "PASS".toList) (.cls C.Arg_Name) true false

/-! ## Block_Data_Stmt -/

def planBlockData (s : Str) : Res (List Slot) :=
  if !kwIs "BLOCK".toList s then .noMatch else
  let line := lstrip (s.drop 5)
  if !kwIs "DATA".toList line then .noMatch else
  let line := lstrip (line.drop 4)
  if line.isEmpty then .ok [.none] else .ok [.child C.Block_Data_Name line]

def tostrBlockData (o : Oracle Node) : List (Item Node) → Res Str
  | [.none] => .ok "BLOCK DATA".toList
  | [a] => .ok ("BLOCK DATA ".toList ++ a.text o)
  | _ => .raises .typeError

/-! ## Prefix / Prefix_Spec -/

def prefixKeywordsS : List String := ["ELEMENTAL", "IMPURE", "MODULE", "PURE", "RECURSIVE"]
def prefixKeywords : List Str := prefixKeywordsS.map String.toList

def isPrefixKw (w : Str) : Bool := prefixKeywords.contains (upper w)

/-- `Prefix_Spec.match` = `STRINGBase.match(keywords, string)` -/
def planPrefixSpec (s : Str) : Res (List Slot) :=
  if prefixKeywords.contains (upper s) then .ok [.str (upper s)] else .noMatch

/-- `StringBase.tostr` -/
def tostrString (o : Oracle Node) : List (Item Node) → Res Str
  | [a] => .ok (a.text o)
  | _ => .raises .typeError

/-- the three runs of `Prefix.match`: leading keywords, the rest, trailing keywords -/
def prefixParts (s : Str) : List Str × List Str × List Str :=
  let ws := splitWs s
  let st := ws.takeWhile isPrefixKw
  let rest := ws.dropWhile isPrefixKw
  let en := (rest.reverse.takeWhile isPrefixKw).reverse
  let mid := (rest.reverse.dropWhile isPrefixKw).reverse
  (st, mid, en)

def hasDup : List Str → Bool
  | [] => false
  | x :: xs => xs.contains x || hasDup xs

/-- `Prefix.match`: the calls in CALL order (leading keywords left to right, trailing keywords
    right to left, then `Declaration_Type_Spec(" ".join(rest))`), then the two checks -/
def planPrefix (s : Str) : Res (List Slot) :=
  let (st, mid, en) := prefixParts s
  let kws := (st ++ en.reverse).map upper
  let remaining := Combi.joinStr [' '] mid
  let calls := st.map (Slot.child C.Prefix_Spec) ++ en.reverse.map (Slot.child C.Prefix_Spec) ++
    (if remaining.isEmpty then [] else [Slot.child C.Declaration_Type_Spec remaining])
  if hasDup kws then .ok (calls ++ [.fail])
  else if kws.contains "ELEMENTAL".toList && kws.contains "RECURSIVE".toList then .ok (calls ++ [.fail])
  else if calls.isEmpty then .noMatch
  else .ok calls

/-- call order → `start_match_list + decl_spec_list + end_match_list` -/
def arrangePrefix (s : Str) (items : List (Item Node)) : List (Item Node) :=
  let (st, _, en) := prefixParts s
  items.take st.length ++ items.drop (st.length + en.length) ++
    ((items.drop st.length).take en.length).reverse

/-- `SequenceBase.tostr` with separator `" "` -/
def tostrPrefix (o : Oracle Node) (items : List (Item Node)) : Res Str :=
  .ok (Combi.joinStr [' '] (items.map (Item.text o)))

/-! ## Language_Binding_Spec -/

def planLanguageBinding (s : Str) : Res (List Slot) :=
  if !kwIs "BIND".toList s then .noMatch else
  let line := lstrip (s.drop 4)
  if line.isEmpty || !parenEnds line then .noMatch else
  let line := strip (inner line)
  match line with
  | [] => .noMatch
  | c :: rest =>
    if upperC c != 'C' then .noMatch else
    let line := lstrip rest
    if line.isEmpty then .ok [.none] else
    if !startsC ',' line then .noMatch else
    let line := lstrip (line.drop 1)
    if !kwIs "NAME".toList line then .noMatch else
    let line := lstrip (line.drop 4)
    if !startsC '=' line then .noMatch else
    .ok [.child C.Scalar_Char_Initialization_Expr (lstrip (line.drop 1))]

def tostrLanguageBinding (o : Oracle Node) : List (Item Node) → Res Str
  | [.none] => .ok "BIND(C)".toList
  | [a] => .ok ("BIND(C, NAME = ".toList ++ a.text o ++ ")".toList)
  | _ => .raises .typeError

/-! ## Suffix -/

def planSuffix (s : Str) : Res (List Slot) :=
  if kwIs "RESULT".toList s then
    let line := lstrip (s.drop 6)
    if !startsC '(' line then .noMatch else
    match Combi.cutFirst ')' line with
    | none => .noMatch
    | some (pre, post) =>
      let name := strip (pre.drop 1)
      if name.isEmpty then .noMatch else
      let line := lstrip post
      if !line.isEmpty then
        .ok [.child C.Result_Name name, .child C.Proc_Language_Binding_Spec line]
      else .ok [.child C.Result_Name name, .none]
  else
    if !endsC ')' s then .noMatch else
    match Combi.cutLast '(' s with
    | none => .noMatch
    | some (pre, post) =>
      let name := strip post.dropLast
      if name.isEmpty then .noMatch else
      let line := rstrip pre
      if upper (lastN 6 line) != "RESULT".toList then .noMatch else
      let line := rstrip (dropLastN 6 line)
      if line.isEmpty then .noMatch else
      .ok [.child C.Result_Name name, .child C.Proc_Language_Binding_Spec line]

def tostrSuffix (o : Oracle Node) : List (Item Node) → Res Str
  | [a, .none] => .ok ("RESULT(".toList ++ a.text o ++ ")".toList)
  | [a, b] => .ok ("RESULT(".toList ++ a.text o ++ ") ".toList ++ b.text o)
  | _ => .raises .typeError

/-! ## Subroutine_Stmt / Function_Stmt / Entry_Stmt -/

/-- `prefix = line[:m.start()].rstrip() or None; if prefix is not None: prefix = Prefix(repmap(prefix))` -/
def prefixSlot (m : Map) (pre : Str) : Slot :=
  let p := rstrip pre
  if p.isEmpty then .none else .child C.Prefix (applyMap m p)

def planSubroutine (s : Str) : Res (List Slot) :=
  (tok s).bind fun r =>
  match searchCI "SUBROUTINE".toList r.text with
  | none => .noMatch
  | some (pre, post) =>
    let ps := prefixSlot r.map pre
    let line := lstrip post
    match nameMatch line with
    | none => .ok [ps, .fail]
    | some (nm, rest) =>
      let ns := Slot.child C.Subroutine_Name nm
      let line := lstrip rest
      if startsC '(' line then
        match Combi.cutFirst ')' line with
        | none => .ok [ps, ns, .fail]
        | some (pre2, post2) =>
          let da := strip (pre2.drop 1)
          let ds := if da.isEmpty then Slot.none else .child C.Dummy_Arg_List (applyMap r.map da)
          let line := lstrip post2
          let bs := if line.isEmpty then Slot.none
                    else .child C.Proc_Language_Binding_Spec (applyMap r.map line)
          .ok [ps, ns, ds, bs]
      else
        let bs := if line.isEmpty then Slot.none
                  else .child C.Proc_Language_Binding_Spec (applyMap r.map line)
        .ok [ps, ns, .none, bs]

/-- `c1242_valid(prefix, binding_spec)` for a `Subroutine_Stmt` (the binding spec is a node:
    always truthy) -/
def c1242Sub (o : HOracle Node) : List (Item Node) → Bool
  | [.node p, _, _, .node _] => !o.elemental p
  | _ => true

def matchSubroutine (o : HOracle Node) (s : Str) : Res (List (Item Node)) :=
  ((planSubroutine s).bind (runSlots o.base)).bind fun items =>
    if c1242Sub o items then .ok items else .noMatch

def tostrSubroutine (o : Oracle Node) : List (Item Node) → Res Str
  | [p, n, d, b] =>
    let s0 := match p with
      | .none => "SUBROUTINE ".toList ++ n.text o
      | p => p.text o ++ " SUBROUTINE ".toList ++ n.text o
    let s1 := match d with
      | .none => s0
      | d => s0 ++ "(".toList ++ d.text o ++ ")".toList
    let s2 := match b with
      | .none => s1
      | b => s1 ++ " ".toList ++ b.text o
    .ok s2
  | _ => .raises .indexError

def planFunction (s : Str) : Res (List Slot) :=
  (tok s).bind fun r =>
  match searchCI "FUNCTION".toList r.text with
  | none => .noMatch
  | some (pre, post) =>
    let ps := prefixSlot r.map pre
    let line := lstrip post
    match nameMatch line with
    | none => .ok [ps, .fail]
    | some (nm, rest) =>
      let ns := Slot.child C.Function_Name nm
      let line := lstrip rest
      if !startsC '(' line then .ok [ps, ns, .fail] else
      match Combi.cutFirst ')' line with
      | none => .ok [ps, ns, .fail]
      | some (pre2, post2) =>
        let da := strip (pre2.drop 1)
        let ds := if da.isEmpty then Slot.none else .child C.Dummy_Arg_List (applyMap r.map da)
        let line := lstrip post2
        let ss := if line.isEmpty then Slot.none else .child C.Suffix (applyMap r.map line)
        .ok [ps, ns, ds, ss]

/-- `if suffix: binding_spec = walk(suffix, Language_Binding_Spec); c1242_valid(prefix, binding_spec)` -/
def c1242Fun (o : HOracle Node) : List (Item Node) → Bool
  | [.node p, _, _, .node sf] => !(o.binding sf && o.elemental p)
  | _ => true

def matchFunction (o : HOracle Node) (s : Str) : Res (List (Item Node)) :=
  ((planFunction s).bind (runSlots o.base)).bind fun items =>
    if c1242Fun o items then .ok items else .noMatch

def tostrFunction (o : Oracle Node) : List (Item Node) → Res Str
  | [p, n, d, sf] =>
    let s0 := match p with
      | .none => "FUNCTION ".toList ++ n.text o
      | p => p.text o ++ " FUNCTION ".toList ++ n.text o
    let s1 := match d with
      | .none => s0 ++ "()".toList
      | d => s0 ++ "(".toList ++ d.text o ++ ")".toList
    let s2 := match sf with
      | .none => s1
      | b => s1 ++ " ".toList ++ b.text o
    .ok s2
  | _ => .raises .valueError

def planEntry (s : Str) : Res (List Slot) :=
  if !kwIs "ENTRY".toList s then .noMatch else
  let line := lstrip (s.drop 5)
  match Combi.cutFirst '(' line with
  | none => .ok [.child C.Entry_Name line, .none, .none]
  | some (pre, post) =>
    let ns := Slot.child C.Entry_Name (rstrip pre)
    match tok ('(' :: post) with
    | .raises e => .ok [ns, .raise e]
    | .noMatch => .ok [ns, .fail]
    | .ok r =>
      match Combi.cutFirst ')' r.text with
      | none => .ok [ns, .fail]
      | some (pre2, post2) =>
        let args := strip (pre2.drop 1)
        let as := if args.isEmpty then Slot.none else .child C.Dummy_Arg_List (applyMap r.map args)
        let line := lstrip post2
        if !line.isEmpty then .ok [ns, as, .child C.Suffix (applyMap r.map line)]
        else .ok [ns, as, .none]

def tostrEntry (o : Oracle Node) : List (Item Node) → Res Str
  | [n, a, sf] =>
    let args := match a with
      | .none => "()".toList
      | a => "(".toList ++ a.text o ++ ")".toList
    match sf with
    | .none => .ok ("ENTRY ".toList ++ n.text o ++ args)
    | sf => .ok ("ENTRY ".toList ++ n.text o ++ args ++ " ".toList ++ sf.text o)
  | _ => .raises .valueError

/-! ## Submodule_Stmt / Parent_Identifier (Fortran2008) -/

/-- `splitparen(s)` (fparser.common.splitline) restricted to what `Submodule_Stmt.match` needs:
    the model of the general function is `Splitline.splitparen`; the result is the list of pieces -/
def splitparenPieces (s : Str) : List Str := (Splitline.splitparen s).map PItem.str

def planSubmodule (s : Str) : Res (List Slot) :=
  if !kwIs "SUBMODULE".toList s then .noMatch else
  match splitparenPieces (lstrip (s.drop 9)) with
  | [spurious, par, nm] =>
    if !spurious.isEmpty then .noMatch else
    match par.head?, par.getLast? with
    | some h, some l =>
      if h != '(' then .noMatch else
      if l != ')' then .noMatch else
      .ok [.child C.Parent_Identifier (lrstrip (inner par)), .child C.Submodule_Name nm]
    | _, _ => .raises .indexError
  | _ => .noMatch

def tostrSubmodule (o : Oracle Node) : List (Item Node) → Res Str
  | a :: b :: _ => .ok ("SUBMODULE (".toList ++ a.text o ++ ") ".toList ++ b.text o)
  | _ => .raises .indexError

def planParentIdentifier (s : Str) : Res (List Slot) :=
  match splitC ':' s with
  | [a] => .ok [.child C.Ancestor_Module_Name (lrstrip a), .none]
  | [a, b] => .ok [.child C.Ancestor_Module_Name (lrstrip a), .child C.Parent_SubModule_Name (lrstrip b)]
  | _ => .noMatch

def tostrParentIdentifier (o : Oracle Node) : List (Item Node) → Res Str
  | [a, .none] => .ok (a.text o)
  | [a, b] => .ok (a.text o ++ ":".toList ++ b.text o)
  | _ => .raises .indexError

/-! ## Interface_Stmt / Generic_Spec / Dtio_Generic_Spec / Extended_Intrinsic_Op / Procedure_Stmt -/

def planInterface (s : Str) : Res (List Slot) :=
  if kwIs "INTERFACE".toList s then
    let line := strip (s.drop 9)
    if line.isEmpty then .ok [.none] else .ok [.child C.Generic_Spec line]
  else if kwIs "ABSTRACT".toList s then
    let line := strip (s.drop 8)
    if upper line == "INTERFACE".toList then .ok [.str "ABSTRACT".toList] else .noMatch
  else .noMatch

/-- `self.items[0] == "ABSTRACT"` is decided by `Base._compare`: a node never equals a `str` -/
def tostrInterface (o : Oracle Node) : List (Item Node) → Res Str
  | [.str a] => if a == "ABSTRACT".toList then .ok "ABSTRACT INTERFACE".toList
                else .ok ("INTERFACE ".toList ++ a)
  | [.none] => .ok "INTERFACE".toList
  | [a] => .ok ("INTERFACE ".toList ++ a.text o)
  | _ => .raises .indexError

def planGenericSpec (s : Str) : Res (List Slot) :=
  if kwIs "OPERATOR".toList s then
    let line := lstrip (s.drop 8)
    if line.isEmpty || !parenEnds line then .noMatch else
    .ok [.str "OPERATOR".toList, .child C.Defined_Operator (strip (inner line))]
  else if kwIs "ASSIGNMENT".toList s then
    let line := lstrip (s.drop 10)
    if line.isEmpty || !parenEnds line then .noMatch else
    if strip (inner line) == "=".toList then .ok [.str "ASSIGNMENT".toList, .str "=".toList]
    else .noMatch
  else .noMatch

/-- `"%s(%s)" % self.items` -/
def tostrCallLike (o : Oracle Node) : List (Item Node) → Res Str
  | [a, b] => .ok (a.text o ++ "(".toList ++ b.text o ++ ")".toList)
  | _ => .raises .typeError

def dtioOne (rw : Str) (s : Str) : Option (Res (List Slot)) :=
  if kwIs rw s then
    let line := lstrip (s.drop rw.length)
    if line.isEmpty then some .noMatch else
    if !parenEnds line then some .noMatch else
    let line := upper (strip (inner line))
    if line == "FORMATTED".toList || line == "UNFORMATTED".toList then
      some (.ok [.str (rw ++ "(".toList ++ line ++ ")".toList)])
    else none
  else none

/-- the `for rw in ["READ", "WRITE"]` loop (`none` of `dtioOne` = go on with the next keyword) -/
def planDtio (s : Str) : Res (List Slot) :=
  match dtioOne "READ".toList s with
  | some r => r
  | none =>
    match dtioOne "WRITE".toList s with
    | some r => r
    | none => .noMatch

/-- does a match of `pattern.intrinsic_operator` START at the beginning of `s`
    (`re.match`, NOT anchored at the end: F-C08-3).  The alternatives, in the order of the pattern:
    `**` (no third `*`), `*` (no second), `/` (no second), `+`, `-`, `/ \s* /` (no third `/`),
    the dotted relational / logical operators with optional blanks inside, `==`, `/=`, `<=`, `<`,
    `>=`, `>`. -/
def dottedOp (names : List String) (s : Str) : Bool :=
  match s with
  | '.' :: rest =>
    let r1 := lstrip rest
    let w := r1.takeWhile isAlpha
    names.any (fun n => n.toList == upper w) &&
      (match lstrip (r1.drop w.length) with | '.' :: _ => true | _ => false)
  | _ => false

def startsIntrinsicOp (s : Str) : Bool :=
  match s with
  | '*' :: '*' :: '*' :: _ => false
  | '*' :: '*' :: _ => true
  | '*' :: _ => true
  | '+' :: _ => true
  | '-' :: _ => true
  | '/' :: '=' :: _ => true
  | '/' :: rest =>
    (match rest with
     | '/' :: _ => false
     | _ => true) ||
    (match lstrip rest with
     | '/' :: '/' :: _ => false
     | '/' :: _ => true
     | _ => false)
  | '=' :: '=' :: _ => true
  | '<' :: _ => true
  | '>' :: _ => true
  | '.' :: _ => dottedOp ["EQ", "NE", "LT", "LE", "GT", "GE", "NOT", "AND", "OR", "EQV", "NEQV"] s
  | _ => false

/-- `Extended_Intrinsic_Op.match` = `StringBase.match(pattern.extended_intrinsic_operator, string)` -/
def planExtendedIntrinsicOp (s : Str) : Res (List Slot) :=
  if startsIntrinsicOp s then .ok [.str s] else .noMatch

def planProcedureStmt (std : Std) (s : Str) : Res (List Slot) :=
  match std with
  | .f2003 =>
    let line := if kwIs "MODULE".toList s then lstrip (s.drop 6) else s
    if !kwIs "PROCEDURE".toList line then .noMatch else
    .ok [.child C.Procedure_Name_List (lstrip (line.drop 9))]
  | .f2008 =>
    let line := lstrip s
    let (line, om) := if kwIs "MODULE".toList line then (lstrip (line.drop 6), Slot.str "MODULE".toList)
                      else (line, Slot.none)
    if !kwIs "PROCEDURE".toList line then .noMatch else
    let line := lstrip (line.drop 9)
    let (line, oc) := if line.take 2 == "::".toList then (lstrip (line.drop 2), Slot.str "::".toList)
                      else (line, Slot.none)
    .ok [.child C.Procedure_Name_List line, om, oc]

def tostrProcedureStmt (std : Std) (o : Oracle Node) : List (Item Node) → Res Str
  | items =>
    match std, items with
    | .f2003, a :: _ => .ok ("MODULE PROCEDURE ".toList ++ a.text o)
    | .f2003, _ => .raises .indexError
    | .f2008, [a, m, c] =>
      let r := "PROCEDURE".toList
      let r := match m with | .none => r | _ => "MODULE ".toList ++ r
      let r := match c with | .none => r | _ => r ++ " ::".toList
      .ok (r ++ " ".toList ++ a.text o)
    | .f2008, _ => .raises .indexError

/-! ## Derived_Type_Stmt / Type_Attr_Spec and the one-keyword statements -/

def planDerivedType (s : Str) : Res (List Slot) :=
  let ss := strip s
  if !kwIs "TYPE".toList ss then .noMatch else
  let line := lstrip (ss.drop 4)
  let step2 (attr : List Slot) (line : Str) : Res (List Slot) :=
    match nameMatch line with
    | none => .ok (attr ++ [.fail])
    | some (nm, rest) =>
      let ns := Slot.child C.Type_Name nm
      let line := lstrip rest
      if line.isEmpty then .ok (attr ++ [ns, .none]) else
      if !parenEnds line then .ok (attr ++ [ns, .fail]) else
      .ok (attr ++ [ns, .child C.Type_Param_Name_List (strip (inner line))])
  match cutSub2 ':' ':' line with
  | none => step2 [.none] line
  | some (pre, post) =>
    if startsC ',' line then
      let l := strip (pre.drop 1)
      if l.isEmpty then .noMatch else step2 [.child C.Type_Attr_Spec_List l] (lstrip post)
    else if !(strip pre).isEmpty then .noMatch
    else step2 [.none] (lstrip post)

def tostrDerivedType (o : Oracle Node) : List (Item Node) → Res Str
  | [_, .none, _] => .raises .internalError     -- `if not self.items[1]: raise InternalError`
  | [a, n, p] =>
    let s0 := match a with
      | .none => "TYPE :: ".toList ++ n.text o
      | a => "TYPE, ".toList ++ a.text o ++ " :: ".toList ++ n.text o
    match p with
    | .none => .ok s0
    | p => .ok (s0 ++ "(".toList ++ p.text o ++ ")".toList)
  | _ => .raises .internalError

def planTypeAttrSpec (s : Str) : Res (List Slot) :=
  if s.length == 8 && upper s == "ABSTRACT".toList then .ok [.str "ABSTRACT".toList, .none]
  else if kwIs "BIND".toList s then
    let line := lstrip (s.drop 4)
    if line.isEmpty || !parenEnds line then .noMatch else
    if upper (strip (inner line)) == "C".toList then .ok [.str "BIND".toList, .str "C".toList]
    else .noMatch
  else if kwIs "EXTENDS".toList s then
    let line := lstrip (s.drop 7)
    if line.isEmpty || !parenEnds line then .noMatch else
    .ok [.str "EXTENDS".toList, .child C.Parent_Type_Name (strip (inner line))]
  else .noMatch

/-- `Type_Attr_Spec.tostr` / `Proc_Attr_Spec.tostr` -/
def tostrAttrSpec (o : Oracle Node) : List (Item Node) → Res Str
  | [a, .none] => .ok (a.text o)
  | [a, b] => .ok (a.text o ++ "(".toList ++ b.text o ++ ")".toList)
  | _ => .raises .typeError

/-- `StringBase.match(KW, string.upper())` / `STRINGBase.match(KW, string)` for one keyword -/
def planKeyword (kw : Str) (s : Str) : Res (List Slot) :=
  if upper s == kw then .ok [.str kw] else .noMatch

/-- `STRINGBase.match([kw…], string)` -/
def planKeywords (kws : List String) (s : Str) : Res (List Slot) :=
  if kws.any (fun k => k.toList == upper s) then .ok [.str (upper s)] else .noMatch

def bindingAttrKeywords : List String := ["PASS", "NOPASS", "NON_OVERRIDABLE", "DEFERRED"]
def procComponentAttrKeywords : List String := ["POINTER", "PASS", "NOPASS"]

def planEnumDef (s : Str) : Res (List Slot) :=
  if Combi.noSpaces (upper s) != "ENUM,BIND(C)".toList then .noMatch
  else .ok [.str "ENUM, BIND(C)".toList]

/-! ## type-bound procedure part -/

def planSpecificBinding (s : Str) : Res (List Slot) :=
  let ss := strip s
  if !kwIs "PROCEDURE".toList ss then .noMatch else
  if ss.length < 11 then .noMatch else
  let spaceAfter := (ss.drop 9).head? == some ' '
  let line := lstrip (ss.drop 9)
  -- optional `(interface-name)`
  let step3 (inameS : Slot) (line : Str) : Res (List Slot) :=
    let hasI := inameS != Slot.none
    -- `::` part
    let cont (pre : List Slot) (dcolon : Bool) (line : Str) : Res (List Slot) :=
      if !hasI && !dcolon && !spaceAfter then .ok (pre ++ [.fail]) else
      match cutSub2 '=' '>' line with
      | some (l, r) =>
        let ps := Slot.child C.Procedure_Name (lstrip r)
        if !dcolon then .ok (pre ++ [ps, .fail]) else
        if hasI then .ok (pre ++ [ps, .fail]) else
        .ok (pre ++ [ps, .child C.Binding_Name (rstrip l)])
      | none => .ok (pre ++ [.none, .child C.Binding_Name line])
    match cutSub2 ':' ':' line with
    | some (pre, post) =>
      if startsC ',' line then
        cont [inameS, .child C.Binding_Attr_List (strip (pre.drop 1)), .str "::".toList] true (lstrip post)
      else if !(strip pre).isEmpty then .ok [inameS, .fail]
      else cont [inameS, .none, .str "::".toList] true (lstrip post)
    | none => cont [inameS, .none, .none] false line
  if startsC '(' line then
    match Combi.cutFirst ')' line with
    | none => .noMatch
    | some (pre, post) => step3 (.child C.Interface_Name (strip (pre.drop 1))) (lstrip post)
  else step3 .none line

/-- call order `(iname, mylist, dcolon, pname, bname)` → tuple `(iname, mylist, dcolon, bname, pname)` -/
def arrangeSpecificBinding : List (Item Node) → List (Item Node)
  | [a, b, c, p, n] => [a, b, c, n, p]
  | xs => xs

def tostrSpecificBinding (o : Oracle Node) : List (Item Node) → Res Str
  | [i, l, d, n, p] =>
    let s0 := "PROCEDURE".toList
    let s1 := match i with | .none => s0 | i => s0 ++ "(".toList ++ i.text o ++ ")".toList
    let s2 := match l, d with
      | .none, .none => s1
      | .none, d => s1 ++ " ".toList ++ d.text o
      | _, .none => s1
      | l, d => s1 ++ ", ".toList ++ l.text o ++ " ".toList ++ d.text o
    let s3 := s2 ++ " ".toList ++ n.text o
    match p with
    | .none => .ok s3
    | p => .ok (s3 ++ " => ".toList ++ p.text o)
  | _ => .raises .internalError

/-- `Generic_Binding.match` (since /repo 98a89ee: `Binding_Name_List(line[i + 2:].lstrip())`; before it was
    `line[i + 3:]`, one character too many).  The text before `::` is looked at only when the line
    starts with a comma: anything else there is ignored. -/
def planGenericBinding (s : Str) : Res (List Slot) :=
  if !kwIs "GENERIC".toList s then .noMatch else
  let line := lstrip (s.drop 7)
  match cutSub2 ':' ':' line with
  | none => .noMatch
  | some (pre, post) =>
    let asl := if startsC ',' line then [Slot.child C.Access_Spec (strip (pre.drop 1))] else [Slot.none]
    let line := lstrip post
    match cutSub2 '=' '>' line with
    | none => .ok (asl ++ [.fail])
    | some (l, r) =>
      .ok (asl ++ [.child C.Generic_Spec (rstrip l), .child C.Binding_Name_List (lstrip r)])

def tostrGenericBinding (o : Oracle Node) : List (Item Node) → Res Str
  | [.none, g, l] => .ok ("GENERIC :: ".toList ++ g.text o ++ " => ".toList ++ l.text o)
  | [a, g, l] =>
    .ok ("GENERIC, ".toList ++ a.text o ++ " :: ".toList ++ g.text o ++ " => ".toList ++ l.text o)
  | _ => .raises .typeError

/-! ## procedure components / declarations -/

def planProcComponentDef (s : Str) : Res (List Slot) :=
  if !kwIs "PROCEDURE".toList s then .noMatch else
  (tok (lstrip (s.drop 9))).bind fun r =>
  let line := r.text
  if !startsC '(' line then .noMatch else
  match Combi.cutFirst ')' line with
  | none => .noMatch
  | some (pre, post) =>
    let pi := strip (inner (applyMap r.map (pre ++ [')'])))
    let pis := if pi.isEmpty then Slot.none else .child C.Proc_Interface pi
    let line := lstrip post
    if !startsC ',' line then .ok [pis, .fail] else
    let line := strip (line.drop 1)
    match cutSub2 ':' ':' line with
    | none => .ok [pis, .fail]
    | some (a, b) =>
      .ok [pis, .child C.Proc_Component_Attr_Spec_List (applyMap r.map (rstrip a)),
           .child C.Proc_Component_Attr_Spec "POINTER".toList,
           .child C.Proc_Decl_List (applyMap r.map (lstrip b))]

/-- `if Proc_Component_Attr_Spec("POINTER") not in attr_spec_list.items: return None` sits BEFORE
    the `Proc_Decl_List(...)` call -/
def matchProcComponentDef (o : HOracle Node) (s : Str) : Res (List (Item Node)) :=
  match planProcComponentDef s with
  | .ok [pis, al, pt, dl] =>
    (runSlots o.base [pis, al, pt]).bind fun items =>
      match items with
      | [pi, .node a, _] =>
        if !o.pointer a then .noMatch else
        (runSlot o.base dl).map fun d => [pi, .node a, d]
      | _ => .raises .typeError
  | .ok slots => (runSlots o.base slots).bind fun _ => .noMatch
  | .noMatch => .noMatch
  | .raises e => .raises e

def tostrProcComponentDef (o : Oracle Node) : List (Item Node) → Res Str
  | [.none, a, d] => .ok ("PROCEDURE(), ".toList ++ a.text o ++ " :: ".toList ++ d.text o)
  | [p, a, d] =>
    .ok ("PROCEDURE(".toList ++ p.text o ++ "), ".toList ++ a.text o ++ " :: ".toList ++ d.text o)
  | _ => .raises .typeError

def planProcedureDeclaration (s : Str) : Res (List Slot) :=
  if !kwIs "PROCEDURE".toList s then .noMatch else
  let line := lstrip (s.drop 9)
  if !startsC '(' line then .noMatch else
  (tok line).bind fun r =>
  match Combi.cutFirst ')' r.text with
  | none => .noMatch
  | some (pre, post) =>
    let tmp := strip (pre.drop 1)
    let pis := if tmp.isEmpty then Slot.none else .child C.Proc_Interface (applyMap r.map tmp)
    let line := lstrip post
    match cutSub2 ':' ':' line with
    | some (a, b) =>
      let tmp := rstrip a
      if startsC ',' tmp then
        .ok [pis, .child C.Proc_Attr_Spec_List (applyMap r.map (lstrip (tmp.drop 1))),
             .child C.Proc_Decl_List (applyMap r.map (lstrip b))]
      else if !tmp.isEmpty then .ok [pis, .fail]
      else .ok [pis, .none, .child C.Proc_Decl_List (applyMap r.map (lstrip b))]
    | none => .ok [pis, .none, .child C.Proc_Decl_List (applyMap r.map line)]

def tostrProcedureDeclaration (o : Oracle Node) : List (Item Node) → Res Str
  | [p, a, d] =>
    let r := match p with
      | .none => "PROCEDURE()".toList
      | p => "PROCEDURE(".toList ++ p.text o ++ ")".toList
    let r := match a with
      | .none => r
      | a => r ++ ", ".toList ++ a.text o ++ " ::".toList
    .ok (r ++ " ".toList ++ d.text o)
  | _ => .raises .indexError

def planProcAttrSpec (s : Str) : Res (List Slot) :=
  if kwIs "INTENT".toList s then
    let line := lstrip (s.drop 6)
    if line.isEmpty then .noMatch else
    if !parenEnds line then .noMatch else
    .ok [.str "INTENT".toList, .child C.Intent_Spec (strip (inner line))]
  else if s.length == 8 && upper s == "OPTIONAL".toList then .ok [.str "OPTIONAL".toList, .none]
  else if s.length == 7 && upper s == "POINTER".toList then .ok [.str "POINTER".toList, .none]
  else if s.length == 9 && upper s == "PROTECTED".toList then .ok [.str "PROTECTED".toList, .none]
  else if s.length == 4 && upper s == "SAVE".toList then .ok [.str "SAVE".toList, .none]
  else .noMatch

/-! ## Proc_Decl / Association — `BinaryOpBase.match(lhs, "=>", rhs, string)` -/

/-- `BinaryOpBase.match(lhs_cls, op, rhs_cls, string)` for a `str` operator and `right=True`:
    `line.rsplit(op, 1)` on the tokenised line, both sides stripped and required non-empty, the
    RIGHT side is matched FIRST; items = `(lhs, op, rhs)` -/
def rcut2 (a b : Char) (s : Str) : Option (Str × Str) :=
  -- right-most occurrence of the two-character needle
  let rec go : Str → Option (Str × Str)
    | [] => none
    | x :: rest =>
      match go rest with
      | some p => some (x :: p.1, p.2)
      | none =>
        match rest with
        | y :: r2 => if x == a && y == b then some ([], r2) else none
        | [] => none
  go s

def planBinaryArrow (lhsC rhsC : ClassId) (s : Str) : Res (List Slot) :=
  (tok s).bind fun r =>
  match rcut2 '=' '>' r.text with
  | none => .noMatch
  | some (l, rr) =>
    let lhs := rstrip l
    let rhs := lstrip rr
    if lhs.isEmpty then .noMatch else
    if rhs.isEmpty then .noMatch else
    .ok [.child rhsC (applyMap r.map rhs), .str "=>".toList, .child lhsC (applyMap r.map lhs)]

/-- `BinaryOpBase.tostr`: `"%s %s %s"` -/
def tostrBinary (o : Oracle Node) : List (Item Node) → Res Str
  | [a, op, b] => .ok (a.text o ++ " ".toList ++ op.text o ++ " ".toList ++ b.text o)
  | _ => .raises .typeError

/-- F2008 `Proc_Decl.match`: empty → None; the 2003 matcher under `try/except NoMatchError`;
    then `=> Name` under `try/except` -/
def matchProcDecl (std : Std) (o : Oracle Node) (s : Str) : Res (List (Item Node)) :=
  match std with
  | .f2003 => ((planBinaryArrow C.Procedure_Entity_Name C.Null_Init s).bind (runSlots o)).map List.reverse
  | .f2008 =>
    if s.isEmpty then .noMatch else
    match (planBinaryArrow C.Procedure_Entity_Name C.Null_Init s).bind (runSlots o) with
    | .ok items => .ok items.reverse
    | .raises e => .raises e
    | .noMatch => ((planBinaryArrow C.Procedure_Entity_Name C.Name s).bind (runSlots o)).map List.reverse

/-! ## ENUM / ASSOCIATE / SELECT TYPE / BLOCK / CRITICAL -/

def planSelectType (s : Str) : Res (List Slot) :=
  if !kwIs "SELECT".toList s then .noMatch else
  let line := lstrip (s.drop 6)
  if !kwIs "TYPE".toList line then .noMatch else
  let line := lstrip (line.drop 4)
  if line.isEmpty || !parenEnds line then .noMatch else
  let line := strip (inner line)
  match cutSub2 '=' '>' line with
  | some (l, r) => .ok [.child C.Associate_Name (rstrip l), .child C.Selector (lstrip r)]
  | none => .ok [.none, .child C.Selector line]

def tostrSelectType (o : Oracle Node) : List (Item Node) → Res Str
  | [.none, b] => .ok ("SELECT TYPE(".toList ++ b.text o ++ ")".toList)
  | [a, b] => .ok ("SELECT TYPE(".toList ++ a.text o ++ "=>".toList ++ b.text o ++ ")".toList)
  | _ => .raises .typeError

def planTypeGuard (s0 : Str) : Res (List Slot) :=
  let s := lstrip s0
  let withSpec (kind : String) (line : Str) : Res (List Slot) :=
    if !startsC '(' line then .noMatch else
    match Combi.cutLast ')' line with
    | none => .noMatch
    | some (pre, post) =>
      let tmp := strip (pre.drop 1)
      if tmp.isEmpty then .noMatch else
      let line := lstrip post
      if !line.isEmpty then
        .ok [.str kind.toList, .child C.Type_Spec tmp, .child C.Select_Construct_Name line]
      else .ok [.str kind.toList, .child C.Type_Spec tmp, .none]
  if kwIs "TYPE".toList s then
    let line := lstrip (s.drop 4)
    if !kwIs "IS".toList line then .noMatch else
    withSpec "TYPE IS" (lstrip (line.drop 2))
  else if kwIs "CLASS".toList s then
    let line := lstrip (s.drop 5)
    if kwIs "IS".toList line then withSpec "CLASS IS" (lstrip (line.drop 2))
    else if kwIs "DEFAULT".toList line then
      let line := lstrip (line.drop 7)
      if !line.isEmpty then .ok [.str "CLASS DEFAULT".toList, .none, .child C.Select_Construct_Name line]
      else .ok [.str "CLASS DEFAULT".toList, .none, .none]
    else .noMatch
  else .noMatch

def tostrTypeGuard (o : Oracle Node) : List (Item Node) → Res Str
  | [k, t, n] =>
    let s0 := k.text o
    let s1 := match t with | .none => s0 | t => s0 ++ " (".toList ++ t.text o ++ ")".toList
    match n with
    | .none => .ok s1
    | n => .ok (s1 ++ " ".toList ++ n.text o)
  | _ => .raises .indexError

/-- `Block_Stmt.match`: `WORDClsBase.match("BLOCK", None, string)` then the synthetic scope name
    `block:<counter>` (the counter is process-wide state: the model writes `block:`) -/
def planBlockStmt (s : Str) : Res (List Slot) :=
  match combiPlan specBlockWord s with
  | .ok (b :: _) => .ok [b, .str "block:".toList]
  | .ok [] => .raises .valueError
  | .noMatch => .noMatch
  | .raises e => .raises e

/-! ## ELSE / ELSEWHERE with an optional construct name -/

def planElse (s : Str) : Res (List Slot) :=
  if !kwIs "ELSE".toList s then .noMatch else
  let line := lstrip (s.drop 4)
  if !line.isEmpty then .ok [.child C.If_Construct_Name line] else .ok [.none]

def tostrElse (o : Oracle Node) : List (Item Node) → Res Str
  | [.none] => .ok "ELSE".toList
  | [a] => .ok ("ELSE ".toList ++ a.text o)
  | _ => .raises .typeError

/-- `Elsewhere_Stmt._regex.match(string)` (`ELSE\s*WHERE`, IGNORECASE) and
    `string[string.upper().index("WHERE") + 5:]`: the text after the keyword -/
def elsewhereRest (s : Str) : Option Str :=
  if !kwIs "ELSE".toList s then none else
  let r := lstrip (s.drop 4)
  if !kwIs "WHERE".toList r then none else some (r.drop 5)

def planElsewhere (s : Str) : Res (List Slot) :=
  match elsewhereRest s with
  | none => .noMatch
  | some rest =>
    let line := lstrip rest
    if !line.isEmpty then .ok [.str "ELSEWHERE".toList, .child C.Where_Construct_Name line]
    else .ok [.str "ELSEWHERE".toList, .none]

def planMaskedElsewhere (s : Str) : Res (List Slot) :=
  match elsewhereRest s with
  | none => .noMatch
  | some rest =>
    let line := lstrip rest
    if !startsC '(' line then .noMatch else
    match Combi.cutLast ')' line with
    | none => .noMatch
    | some (pre, post) =>
      let expr := strip (pre.drop 1)
      if expr.isEmpty then .noMatch else
      let line := rstrip post
      if !line.isEmpty then .ok [.child C.Mask_Expr expr, .child C.Where_Construct_Name line]
      else .ok [.child C.Mask_Expr expr, .none]

def tostrMaskedElsewhere (o : Oracle Node) : List (Item Node) → Res Str
  | [a, .none] => .ok ("ELSEWHERE(".toList ++ a.text o ++ ")".toList)
  | [a, b] => .ok ("ELSEWHERE(".toList ++ a.text o ++ ") ".toList ++ b.text o)
  | _ => .raises .typeError

/-! ## dispatch -/

def specOf (c : ClassId) : Option Combi.Spec :=
  match endRowOf c with
  | some r => some (endSpec r)
  | none =>
    if c == C.Program_Stmt then some specProgram
    else if c == C.Module_Stmt then some specModule
    else if c == C.Final_Binding then some specFinalBinding
    else if c == C.Import_Stmt then some specImport
    else if c == C.Enumerator_Def_Stmt then some specEnumerator
    else if c == C.Associate_Stmt then some specAssociate
    else if c == C.Critical_Stmt then some specCriticalWord
    else if c == C.Binding_PASS_Arg_Name then some specBindingPass
    else if c == C.Proc_Component_PASS_Arg_Name then some specBindingPass
    else if c == C.Dummy_Arg_List then some (specList C.Dummy_Arg)
    else if c == C.Dummy_Arg_Name_List then some (specList C.Dummy_Arg_Name)
    else if c == C.Type_Attr_Spec_List then some (specList C.Type_Attr_Spec)
    else none

/-- classes that exist only in the Fortran2008 package -/
def only2008 (c : ClassId) : Bool :=
  [C.End_Block_Stmt, C.End_Critical_Stmt, C.End_Submodule_Stmt, C.Submodule_Stmt,
   C.Parent_Identifier, C.Block_Stmt, C.Critical_Stmt].contains c

/-- the plan of a class whose control flow does not depend on its children -/
def planOf (std : Std) (c : ClassId) : Option (Str → Res (List Slot)) :=
  if std == .f2003 && only2008 c then none else
  match specOf c with
  | some sp => some (combiPlan sp)
  | none =>
    if c == C.Block_Data_Stmt then some planBlockData
    else if c == C.Prefix then some planPrefix
    else if c == C.Prefix_Spec then some planPrefixSpec
    else if c == C.Suffix then some planSuffix
    else if c == C.Language_Binding_Spec then some planLanguageBinding
    else if c == C.Dummy_Arg then some (fun s => if s == ['*'] then .ok [.str s] else .noMatch)
    else if c == C.Entry_Stmt then some planEntry
    else if c == C.Submodule_Stmt then some planSubmodule
    else if c == C.Parent_Identifier then some planParentIdentifier
    else if c == C.Interface_Stmt then some planInterface
    else if c == C.Generic_Spec then some planGenericSpec
    else if c == C.Dtio_Generic_Spec then some planDtio
    else if c == C.Extended_Intrinsic_Op then some planExtendedIntrinsicOp
    else if c == C.Procedure_Stmt then some (planProcedureStmt std)
    else if c == C.Derived_Type_Stmt then some planDerivedType
    else if c == C.Type_Attr_Spec then some planTypeAttrSpec
    else if c == C.Private_Components_Stmt then some (planKeyword "PRIVATE".toList)
    else if c == C.Binding_Private_Stmt then some (planKeyword "PRIVATE".toList)
    else if c == C.Sequence_Stmt then some (planKeyword "SEQUENCE".toList)
    else if c == C.Contains_Stmt then some (planKeyword "CONTAINS".toList)
    else if c == C.Binding_Attr then some (planKeywords bindingAttrKeywords)
    else if c == C.Proc_Component_Attr_Spec then some (planKeywords procComponentAttrKeywords)
    else if c == C.Specific_Binding then some planSpecificBinding
    else if c == C.Generic_Binding then some planGenericBinding
    else if c == C.Procedure_Declaration_Stmt then some planProcedureDeclaration
    else if c == C.Proc_Attr_Spec then some planProcAttrSpec
    else if c == C.Enum_Def_Stmt then some planEnumDef
    else if c == C.Association then some (planBinaryArrow C.Associate_Name C.Selector)
    else if c == C.Select_Type_Stmt then some planSelectType
    else if c == C.Type_Guard_Stmt then some planTypeGuard
    else if c == C.Block_Stmt then some planBlockStmt
    else if c == C.Else_Stmt then some planElse
    else if c == C.Elsewhere_Stmt then some planElsewhere
    else if c == C.Masked_Elsewhere_Stmt then some planMaskedElsewhere
    else none

/-- call order → tuple order (depends on the input text for `Prefix`) -/
def arrangeOf (c : ClassId) (s : Str) : List (Item Node) → List (Item Node) :=
  if c == C.Prefix then arrangePrefix s
  else if c == C.Specific_Binding then arrangeSpecificBinding
  else if c == C.Association then List.reverse
  else id

/-- `cls.match(string)` for a modelled class; `none` = not modelled (under this standard) -/
def matchOf (std : Std) (o : HOracle Node) (c : ClassId) (s : Str) :
    Option (Res (List (Item Node))) :=
  if std == .f2003 && only2008 c then none else
  match planOf std c with
  | some plan => some (((plan s).bind (runSlots o.base)).map (arrangeOf c s))
  | none =>
    if c == C.Subroutine_Stmt then some (matchSubroutine o s)
    else if c == C.Function_Stmt then some (matchFunction o s)
    else if c == C.Proc_Component_Def_Stmt then some (matchProcComponentDef o s)
    else if c == C.Proc_Decl then some (matchProcDecl std o.base s)
    else none

/-- `str(obj)` for a modelled class over its items; `none` = not modelled -/
def tostrOf (std : Std) (o : Oracle Node) (c : ClassId) (items : List (Item Node)) :
    Option (Res Str) :=
  if std == .f2003 && only2008 c then none else
  if c == C.Critical_Stmt then some (.ok "CRITICAL".toList)
  else if c == C.Block_Stmt then some (.ok "BLOCK".toList)
  else match specOf c with
  | some sp => some (combiStr o sp items)
  | none =>
    if c == C.Block_Data_Stmt then some (tostrBlockData o items)
    else if c == C.Prefix then some (tostrPrefix o items)
    else if c == C.Suffix then some (tostrSuffix o items)
    else if c == C.Language_Binding_Spec then some (tostrLanguageBinding o items)
    else if c == C.Subroutine_Stmt then some (tostrSubroutine o items)
    else if c == C.Function_Stmt then some (tostrFunction o items)
    else if c == C.Entry_Stmt then some (tostrEntry o items)
    else if c == C.Submodule_Stmt then some (tostrSubmodule o items)
    else if c == C.Parent_Identifier then some (tostrParentIdentifier o items)
    else if c == C.Interface_Stmt then some (tostrInterface o items)
    else if c == C.Generic_Spec then some (tostrCallLike o items)
    else if c == C.Procedure_Stmt then some (tostrProcedureStmt std o items)
    else if c == C.Derived_Type_Stmt then some (tostrDerivedType o items)
    else if c == C.Type_Attr_Spec then some (tostrAttrSpec o items)
    else if c == C.Proc_Attr_Spec then some (tostrAttrSpec o items)
    else if [C.Prefix_Spec, C.Dummy_Arg, C.Dtio_Generic_Spec, C.Extended_Intrinsic_Op,
             C.Private_Components_Stmt, C.Binding_Private_Stmt, C.Sequence_Stmt, C.Contains_Stmt,
             C.Binding_Attr, C.Proc_Component_Attr_Spec, C.Enum_Def_Stmt].contains c
      then some (tostrString o items)
    else if c == C.Specific_Binding then some (tostrSpecificBinding o items)
    else if c == C.Generic_Binding then some (tostrGenericBinding o items)
    else if c == C.Proc_Component_Def_Stmt then some (tostrProcComponentDef o items)
    else if c == C.Procedure_Declaration_Stmt then some (tostrProcedureDeclaration o items)
    else if c == C.Proc_Decl then some (tostrBinary o items)
    else if c == C.Association then some (tostrBinary o items)
    else if c == C.Select_Type_Stmt then some (tostrSelectType o items)
    else if c == C.Type_Guard_Stmt then some (tostrTypeGuard o items)
    else if c == C.Else_Stmt then some (tostrElse o items)
    else if c == C.Elsewhere_Stmt then some (combiStr o (.word ["ELSEWHERE".toList] false none false false false) items)
    else if c == C.Masked_Elsewhere_Stmt then some (tostrMaskedElsewhere o items)
    else none

/-! # Part 2 — the name / label discipline of `BlockBase.match` -/

/-- the kinds of block whose opening and END statement this slice mirrors -/
inductive BKind where
  | mainProgram | module | submodule | subroutine | subroutineBody | function | functionBody
  | blockData | derivedType | interface | enumDef
  | ifC | caseC | selectType | whereC | forallC | associate | blockC | critical
  | doNonlabel | doLabel
deriving Repr, DecidableEq

def BKind.all : List BKind :=
  [.mainProgram, .module, .submodule, .subroutine, .subroutineBody, .function, .functionBody,
   .blockData, .derivedType, .interface, .enumDef, .ifC, .caseC, .selectType, .whereC, .forallC,
   .associate, .blockC, .critical, .doNonlabel, .doLabel]

/-- what `BlockBase.match` is told / can find out about one kind of block: the arguments of the
    call made by the block class and the `hasattr` facts of the start / end classes.
    Strings, so that the kernel comparison with the generated table is cheap. -/
structure KindCfg where
  /-- the block class (`X.match` calls `BlockBase.match`) -/
  block : String
  startCls : String
  endCls : String
  matchNames : Bool
  strictNames : Bool
  matchLabels : Bool
  /-- `match_name_classes` -/
  nameClasses : List String
  /-- `hasattr(startcls, "get_name")` -/
  startGetName : Bool
  /-- `hasattr(startcls, "get_start_name")` -/
  startStartName : Bool
  /-- `hasattr(endcls, "get_name")` (for `End_Do`: of `End_Do_Stmt`) -/
  endGetName : Bool
  only2008 : Bool
deriving Repr, DecidableEq

def construct (block start end_ : String) (mids : List String) (o8 : Bool := false) : KindCfg :=
  { block := block, startCls := start, endCls := end_, matchNames := true, strictNames := true,
    matchLabels := false, nameClasses := mids, startGetName := false, startStartName := true,
    endGetName := true, only2008 := o8 }

def unit (block start end_ : String) (o8 : Bool := false) : KindCfg :=
  { block := block, startCls := start, endCls := end_, matchNames := false, strictNames := false,
    matchLabels := false, nameClasses := [], startGetName := true, startStartName := false,
    endGetName := true, only2008 := o8 }

/-- the flags this model was validated against (compared with the live ones by
    `Generated.Header.kinds_as_modelled`) -/
def cfgOf : BKind → KindCfg
  | .mainProgram => { unit "Main_Program" "Program_Stmt" "End_Program_Stmt" with
                        matchNames := true, startStartName := true }
  | .module => unit "Module" "Module_Stmt" "End_Module_Stmt"
  | .submodule => unit "Submodule" "Submodule_Stmt" "End_Submodule_Stmt" true
  | .subroutine => unit "Subroutine_Subprogram" "Subroutine_Stmt" "End_Subroutine_Stmt"
  | .subroutineBody => unit "Subroutine_Body" "Subroutine_Stmt" "End_Subroutine_Stmt"
  | .function => unit "Function_Subprogram" "Function_Stmt" "End_Function_Stmt"
  | .functionBody => unit "Function_Body" "Function_Stmt" "End_Function_Stmt"
  | .blockData => unit "Block_Data" "Block_Data_Stmt" "End_Block_Data_Stmt"
  | .derivedType => { construct "Derived_Type_Def" "Derived_Type_Stmt" "End_Type_Stmt" [] with
                        strictNames := false }
  | .interface => { unit "Interface_Block" "Interface_Stmt" "End_Interface_Stmt" with
                      startGetName := false }
  | .enumDef => { unit "Enum_Def" "Enum_Def_Stmt" "End_Enum_Stmt" with startGetName := false }
  | .ifC => construct "If_Construct" "If_Then_Stmt" "End_If_Stmt"
              ["Else_If_Stmt", "Else_Stmt", "End_If_Stmt"]
  | .caseC => construct "Case_Construct" "Select_Case_Stmt" "End_Select_Stmt" ["Case_Stmt"]
  | .selectType => construct "Select_Type_Construct" "Select_Type_Stmt" "End_Select_Type_Stmt"
              ["Type_Guard_Stmt"]
  | .whereC => construct "Where_Construct" "Where_Construct_Stmt" "End_Where_Stmt"
              ["Masked_Elsewhere_Stmt", "Elsewhere_Stmt", "End_Where_Stmt"]
  | .forallC => construct "Forall_Construct" "Forall_Construct_Stmt" "End_Forall_Stmt" []
  | .associate => construct "Associate_Construct" "Associate_Stmt" "End_Associate_Stmt" []
  | .blockC => construct "Block_Construct" "Block_Stmt" "End_Block_Stmt" [] true
  | .critical => construct "Critical_Construct" "Critical_Stmt" "End_Critical_Stmt" [] true
  | .doNonlabel => construct "Block_Nonlabel_Do_Construct" "Nonlabel_Do_Stmt" "End_Do_Stmt" []
  | .doLabel => { construct "Block_Label_Do_Construct" "Label_Do_Stmt" "End_Do" [] with
                    matchNames := false, strictNames := false, matchLabels := true }

/-- what `BlockBase.match` reads off the opening statement -/
structure Opener where
  /-- `get_name().string` (`none`: `get_name()` is None — an unnamed BLOCK DATA) -/
  name : Option Str := none
  /-- `get_start_name()`: `item.name` of a construct, the type / program name -/
  startName : Option Str := none
  /-- `get_start_label()` of a labelled DO -/
  label : Option Nat := none
deriving Repr, DecidableEq

/-- … and off a statement that may close the block -/
structure Ender where
  /-- the class of the statement (for `match_name_classes`) -/
  cls : String := ""
  /-- `get_name()` / `get_end_name()`: the name after `END <type>` -/
  name : Option Str := none
  /-- `item.label` -/
  label : Option Nat := none
  /-- `isinstance(obj, End_Do_Stmt)` (the other terminator of a labelled DO is CONTINUE) -/
  isEndDoStmt : Bool := true
  /-- `hasattr(obj, "get_end_name")` / `hasattr(obj, "get_name")`: false for CONTINUE -/
  named : Bool := true
deriving Repr, DecidableEq

inductive Verdict where
  | accepted
  /-- `FortranSyntaxError` -/
  | syntaxError
  /-- `reader.error(...)` → `sys.exit(1)` (finding F-C06-1) -/
  | systemExit
  /-- labelled DO, `END DO` with another (or no) label: everything is given back, `return None` -/
  | noMatch
  /-- labelled DO, a CONTINUE with another label: the statement stays in the body, the loop goes on -/
  | goesOn
deriving Repr, DecidableEq

/-- Python truthiness of an optional `str` -/
def truthy : Option Str → Bool
  | some (_ :: _) => true
  | _ => false

def lowerO : Option Str → Str
  | some s => lower s
  | none => []

/-- the test applied to every matched statement whose class is in `match_name_classes`
    (ELSE / ELSE IF / CASE / ELSEWHERE / TYPE IS with a construct name; also the END statement of
    IF and WHERE): a name needs a start name and must equal it up to case; NO name is fine -/
def midAgree (cfg : KindCfg) (o : Opener) (cls : String) (name : Option Str) : Verdict :=
  if cfg.matchNames && cfg.nameClasses.contains cls then
    if truthy name && !truthy o.startName then .syntaxError
    else if truthy name && truthy o.startName && lowerO name != lowerO o.startName then .syntaxError
    else .accepted
  else .accepted

/-- the trailing `get_name` comparison of `BlockBase.match` (program units) -/
def tailAgree (cfg : KindCfg) (o : Opener) (e : Ender) : Verdict :=
  if e.named && cfg.endGetName && cfg.startGetName then
    match e.name with
    | none => .accepted
    | some en =>
      match o.name with
      | none => .syntaxError
      | some sn => if lower sn != lower en then .systemExit else .accepted
  else .accepted

/-- `BlockBase.match` on reaching a statement of the end class(es) -/
def namesAgree (cfg : KindCfg) (o : Opener) (e : Ender) : Verdict :=
  match midAgree cfg o e.cls e.name with
  | .accepted =>
    if cfg.matchLabels && o.label != e.label then
      (if e.isEndDoStmt then .noMatch else .goesOn)
    else
      let endDoNames := cfg.matchLabels && !cfg.matchNames && e.named && cfg.startStartName
      if cfg.matchNames || endDoNames then
        if truthy e.name && !truthy o.startName then .syntaxError
        else if (cfg.strictNames || endDoNames) && truthy o.startName && !truthy e.name then .syntaxError
        else if truthy o.startName && truthy e.name && lowerO o.startName != lowerO e.name then
          .syntaxError
        else tailAgree cfg o e
      else tailAgree cfg o e
  | v => v

/-! ### from matched statements to `Opener` / `Ender` -/

def itemStr (o : Oracle Node) : Item Node → Option Str
  | .node n => some (o.str n)
  | .str s => some s
  | _ => none

/-- the opening statement as `BlockBase.match` sees it: `items` = the matched tuple of the start
    class, `itemName` = `item.name` (the construct name found by the reader), `label` = the DO label -/
def openerOf (o : Oracle Node) (k : BKind) (items : List (Item Node)) (itemName : Option Str)
    (label : Option Nat) : Opener :=
  match k with
  | .mainProgram => { name := (items[1]?).bind (itemStr o), startName := (items[1]?).bind (itemStr o) }
  | .module | .submodule | .subroutine | .subroutineBody | .function | .functionBody =>
    { name := (items[1]?).bind (itemStr o) }
  | .blockData => { name := (items[0]?).bind (itemStr o) }
  | .derivedType => { startName := (items[1]?).bind (itemStr o) }
  | .interface | .enumDef => {}
  | .doLabel => { startName := itemName, label := label }
  | _ => { startName := itemName }

/-- an `EndStmtBase` statement -/
def enderOf (o : Oracle Node) (cls : String) (items : List (Item Node)) (label : Option Nat) : Ender :=
  { cls := cls, name := (items[1]?).bind (itemStr o), label := label }

/-! # Part 3 — `StmtBase.tofortran`: label and construct-name printing -/

/-- `while len(t) < 6: t += " "` -/
def padTo6 (t : Str) : Str := t ++ List.replicate (6 - t.length) ' '

/-- `StmtBase.tofortran(tab, isfix)` for a statement whose `item` has the given label / name and
    whose `str(self)` is `text` (`item is None`: both `none`).  `if label:` — label 0 is falsy. -/
def tofortran (label : Option Nat) (name : Option Str) (text : Str) (tab : Str := [])
    (isfix : Bool := false) : Str :=
  let c : Str := if isfix then [' '] else []
  let lt : Str × Str :=
    match label with
    | some (l + 1) =>
      let t := c ++ natToStr (l + 1)
      if isfix then (padTo6 t, tab)
      else (t, if (tab.drop t.length).isEmpty then [' '] else tab.drop t.length)
    | _ => ([], tab)
  if truthy name then lt.1 ++ lt.2 ++ getS name ++ [':'] ++ text
  else lt.1 ++ lt.2 ++ text
where
  getS : Option Str → Str
    | some s => s
    | none => []

end Fp.Header
