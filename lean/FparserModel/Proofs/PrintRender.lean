import FparserModel.Proofs.PrintDepth
/-!
# PrintRender — the nested `"\n".join`s of the code are one join over the lines; splitting again
-/
namespace Fp.Print

/-! ## `"\n".join` -/

theorem joinNl_cons_cons (a b : Str) (r : List Str) : joinNl (a :: b :: r) = a ++ '\n' :: joinNl (b :: r) := rfl

theorem joinNl_append (a b : List Str) (ha : a ≠ []) (hb : b ≠ []) :
    joinNl (a ++ b) = joinNl a ++ '\n' :: joinNl b := by
  induction a with
  | nil => exact absurd rfl ha
  | cons x xs ih =>
    cases xs with
    | nil =>
      cases b with
      | nil => exact absurd rfl hb
      | cons y ys => simp [joinNl]
    | cons x' xs' =>
      have := ih (by simp)
      simp only [List.cons_append] at this ⊢
      rw [joinNl_cons_cons, this, joinNl_cons_cons]
      simp

/-- a join of joins of non-empty groups is the join of the concatenation -/
theorem joinNl_flatten {α : Type} (f : α → Str) :
    ∀ (LL : List (List α)), (∀ l ∈ LL, l ≠ []) →
      joinNl (LL.map fun l => joinNl (l.map f)) = joinNl (LL.flatten.map f)
  | [], _ => rfl
  | [l], _ => by simp [joinNl]
  | l :: l' :: r, h => by
    have ih := joinNl_flatten f (l' :: r) (fun x hx => h x (List.mem_cons_of_mem _ hx))
    have hl : l ≠ [] := h l (by simp)
    have hl' : l' ≠ [] := h l' (by simp)
    simp only [List.map_cons, List.flatten_cons, List.map_append] at ih ⊢
    rw [joinNl_cons_cons, ih]
    rw [joinNl_append (l.map f) _ (by simpa using hl) (by simp [hl'])]

/-! ## the string-level mirror is the join of the lines -/

/-- the groups of lines of the content elements -/
def linesItems (T : Tbl) : List Str → List Tree → List (List Line)
  | tab :: tabs, t :: ts => printTree T tab t :: linesItems T tabs ts
  | _, _ => []

theorem printItems_flatten (T : Tbl) :
    ∀ (tabs : List Str) (ts : List Tree), printItems T tabs ts = (linesItems T tabs ts).flatten
  | [], ts => by cases ts <;> simp [printItems, linesItems]
  | _ :: _, [] => by simp [printItems, linesItems]
  | tab :: tabs, t :: ts => by simp [printItems_cons, linesItems, printItems_flatten T tabs ts]

theorem linesItems_ne_nil (T : Tbl) :
    ∀ (tabs : List Str) (ts : List Tree), ∀ l ∈ linesItems T tabs ts, l ≠ []
  | [], ts => by cases ts <;> simp [linesItems]
  | _ :: _, [] => by simp [linesItems]
  | tab :: tabs, t :: ts => by
    intro l hl
    simp only [linesItems, List.mem_cons] at hl
    rcases hl with rfl | hl
    · exact printTree_ne_nil T t tab
    · exact linesItems_ne_nil T tabs ts l hl

mutual
theorem tofortran_eq_render (T : Tbl) (isfix : Bool) (t : Tree) (tab : Str) :
    tofortran T isfix tab t = render isfix (printTree T tab t) := by
  cases t with
  | leaf l => simp [tofortran, printTree, render, joinNl, Line.str]
  | block c content =>
    cases content with
    | nil => simp [tofortran, printTree, render, joinNl, Line.str]
    | cons x rest =>
      cases rest with
      | nil =>
        simp only [tofortran, printTree]
        split
        · rw [tofortran_eq_render T isfix x tab]
          unfold render
          rw [List.map_append, joinNl_append _ _ (by simpa using printTree_ne_nil T x tab)
            (by simpa using printTree_ne_nil T x tab)]
          rfl
        · rw [tofortran_eq_render T isfix x tab]; rfl
      | cons y r =>
        rw [printTree_block_cons2, printItems_flatten]
        simp only [tofortran]
        rw [strItems_eq T isfix (x :: y :: r)]
        unfold render
        exact joinNl_flatten (Line.str isfix) _ (linesItems_ne_nil T _ _)
theorem strItems_eq (T : Tbl) (isfix : Bool) (ts : List Tree) (tabs : List Str) :
    strItems T isfix tabs ts = (linesItems T tabs ts).map fun l => joinNl (l.map (Line.str isfix)) := by
  cases ts with
  | nil => cases tabs <;> simp [strItems, linesItems]
  | cons t ts =>
    cases tabs with
    | nil => simp [strItems, linesItems]
    | cons tab tabs =>
      simp only [strItems, linesItems, List.map_cons]
      rw [tofortran_eq_render T isfix t tab, strItems_eq T isfix ts tabs]
      rfl
end

/-! ## `split("\n")` undoes the join -/

theorem splitNl_ne_nil (s : Str) : splitNl s ≠ [] := by
  cases s with
  | nil => simp [splitNl]
  | cons c cs =>
    simp only [splitNl]
    split
    · simp
    · split <;> simp

theorem splitNl_line (s : Str) (h : '\n' ∉ s) : splitNl s = [s] := by
  induction s with
  | nil => rfl
  | cons c cs ih =>
    have hc : c ≠ '\n' := fun e => h (by simp [e])
    have hcs : '\n' ∉ cs := fun e => h (List.mem_cons_of_mem _ e)
    simp [splitNl, hc, ih hcs]

theorem splitNl_append_nl (s rest : Str) (h : '\n' ∉ s) :
    splitNl (s ++ '\n' :: rest) = s :: splitNl rest := by
  induction s with
  | nil => simp [splitNl]
  | cons c cs ih =>
    have hc : c ≠ '\n' := fun e => h (by simp [e])
    have hcs : '\n' ∉ cs := fun e => h (List.mem_cons_of_mem _ e)
    simp [splitNl, hc, ih hcs]

theorem splitNl_joinNl : ∀ (ls : List Str), ls ≠ [] → (∀ l ∈ ls, '\n' ∉ l) → splitNl (joinNl ls) = ls
  | [], h, _ => absurd rfl h
  | [l], _, h => by simpa [joinNl] using splitNl_line l (h l (by simp))
  | l :: l' :: r, _, h => by
    rw [joinNl_cons_cons, splitNl_append_nl l _ (h l (by simp)),
      splitNl_joinNl (l' :: r) (by simp) (fun x hx => h x (List.mem_cons_of_mem _ hx))]

/-- re-reading the printed text line by line gives the printed lines back — unless the LAST line is
    empty (a blank `Comment('')` as last leaf): then the text ends with `\n`, which only terminates
    the line before -/
theorem fileLines_render (isfix : Bool) (ls : List Line) (hne : ls ≠ [])
    (hnl : ∀ ln ∈ ls, '\n' ∉ ln.str isfix) :
    fileLines (render isfix ls) =
      if (ls.getLast hne).str isfix = [] then (ls.map (Line.str isfix)).dropLast else ls.map (Line.str isfix) := by
  unfold fileLines render
  rw [splitNl_joinNl (ls.map (Line.str isfix)) (by simpa using hne)
    (by intro l hl; obtain ⟨ln, h1, rfl⟩ := List.mem_map.mp hl; exact hnl ln h1)]
  have hlast : (ls.map (Line.str isfix)).getLast? = some ((ls.getLast hne).str isfix) := by
    rw [List.getLast?_map, List.getLast?_eq_some_getLast hne]; rfl
  simp only [hlast, Option.some.injEq]

/-- tokens of the printed text = tokens of the printed lines, in order -/
theorem tokText_render {τ : Type} (tokLine : Str → List τ) (isfix : Bool) (ls : List Line) (hne : ls ≠ [])
    (hnl : ∀ ln ∈ ls, '\n' ∉ ln.str isfix) :
    tokText tokLine (render isfix ls) = ls.flatMap fun ln => tokLine (ln.str isfix) := by
  unfold tokText render
  rw [splitNl_joinNl (ls.map (Line.str isfix)) (by simpa using hne)
    (by intro l hl; obtain ⟨ln, h1, rfl⟩ := List.mem_map.mp hl; exact hnl ln h1)]
  simp [List.flatMap_map]

end Fp.Print
