import FparserModel.Proofs.PrintSaneTree
import FparserModel.Proofs.Block3Generated
import FparserModel.Generated.PrintTables

/-!
# PrintSane, part 3: the correspondence on the GENERATED tables (kernel-checked on every build)

The block matcher's tables (`Generated/Blocks2003.lean`, `Blocks2008.lean`, written by
`fv/extract_block.py`) number the classes of ONE standard `0 … n-1` in the order of their names; the
printer's table (`Generated/PrintTables.lean`, written by `fv/extract_print.py`) uses the class ids
of `Generated/Classes2008.lean` (both standards in one numbering; `cids_agree` there).  They are
related through the class NAMES: `cid2003` / `cid2008` send a block class to the class id of the
class of that name (`Label_Do_Stmt@…` names carry their package), F2008 names to the
`Fortran2008` class when there is one.  `T2003` / `T2008` are the printer table read through that map:
the `T` of `ofBlock L t` for trees of the block matcher.
-/
namespace Fp.Print
open Fp

/-- a class id that no table mentions (`tbl` answers `blockBase` / `false` there) -/
def noCid : Nat := 1000000

/-- first (`last = false`) / last class id of that short name in `Generated.cidNames` -/
def lookupName (last : Bool) (n : List Char) : Nat :=
  (((if last then Generated.cidNames.reverse else Generated.cidNames).find?
      (fun e => e.2.toList == n)).map (·.1)).getD noCid

/-- class id of the class a block-table name denotes (`std08`: the table of the F2008 parser) -/
def cidOfName (std08 : Bool) (nm : String) : Nat :=
  let cs := nm.toList
  let base := cs.takeWhile (· != '@')
  match cs.dropWhile (· != '@') with
  | [] => lookupName std08 base
  | _ :: q => lookupName (q != "Fortran2003".toList) base

def cid2003 (c : Block.Cls) : Cls := cidOfName false (Block.Generated.F2003.names.getD c "")
def cid2008 (c : Block.Cls) : Cls := cidOfName true (Block.Generated.F2008.names.getD c "")

/-- the printer table of the live code over the class numbers of the block tables -/
def T2003 : Tbl := Generated.tbl.comap cid2003
def T2008 : Tbl := Generated.tbl.comap cid2008

/-- every node class of the block table is sent to the row of `blockRows` of that name -/
def nodeCidsOK (tbl : Block.Table) (names : Array String) (cid : Block.Cls → Cls) (pkgs : List String) : Bool :=
  (List.range names.size).all fun c =>
    match Block.nodeMin tbl c with
    | some _ =>
      match Generated.lookup Generated.blockRows (cid c) with
      | some r => pkgs.any fun p => r.1.toList == (p ++ "." ++ names.getD c "").toList
      | none => false
    | none => true

theorem node_cids_2003 :
    nodeCidsOK Block.Generated.F2003.table Block.Generated.F2003.names cid2003 ["Fortran2003"] = true := by
  decide +kernel
theorem node_cids_2008 :
    nodeCidsOK Block.Generated.F2008.table Block.Generated.F2008.names cid2008
      ["Fortran2008", "Fortran2003"] = true := by
  decide +kernel

/-- the F2008 table prefers the `Fortran2008` class of a name -/
theorem cid2008_prefers_2008 :
    ((List.range Block.Generated.F2008.names.size).filterMap fun c =>
      if cid2008 c ≠ cidOfName false (Block.Generated.F2008.names.getD c "") ∧ (Block.nodeMin Block.Generated.F2008.table c).isSome
      then some (Block.Generated.F2008.names.getD c "", cid2008 c) else none)
    = [("Action_Term_Do_Construct", 597), ("Block_Label_Do_Construct", 608),
       ("Block_Nonlabel_Do_Construct", 609)] := by
  decide +kernel

/-- the block classes with a printer of their own: name, printer, guaranteed content length -/
def specialRows (tbl : Block.Table) (names : Array String) (T : Tbl) : List (String × Printer × Option Nat) :=
  (List.range names.size).filterMap fun c =>
    if T.printer c ≠ .blockBase then some (names.getD c "", T.printer c, Block.nodeMin tbl c) else none

/-- TABLE FACT: the WHERE / IF / CASE constructs, the label-DO and the action-term DO are
    `BlockBase.match` classes with a start class AND an end class (content ≥ 2: opener and END /
    terminating statement); `Component_Part` has at least one component -/
theorem special_rows_2003 :
    specialRows Block.Generated.F2003.table Block.Generated.F2003.names T2003 =
      [("Action_Term_Do_Construct", .actionTerm, some 2), ("Block_Label_Do_Construct", .labelDo, some 2),
       ("Case_Construct", .caseC, some 2), ("Component_Part", .componentPart, some 1),
       ("If_Construct", .ifC, some 2), ("Where_Construct", .whereC, some 2)] := by
  decide +kernel
theorem special_rows_2008 :
    specialRows Block.Generated.F2008.table Block.Generated.F2008.names T2008 =
      [("Action_Term_Do_Construct", .actionTerm, some 2), ("Block_Label_Do_Construct", .labelDo, some 2),
       ("Case_Construct", .caseC, some 2), ("Component_Part", .componentPart, some 1),
       ("If_Construct", .ifC, some 2), ("Where_Construct", .whereC, some 2)] := by
  decide +kernel

/-- all node classes: name and guaranteed content length (0 only for `Program`) -/
def nodeRows (tbl : Block.Table) (names : Array String) : List (String × Nat) :=
  (List.range names.size).filterMap fun c => (Block.nodeMin tbl c).map fun k => (names.getD c "", k)

theorem zero_min_only_program_2003 :
    (nodeRows Block.Generated.F2003.table Block.Generated.F2003.names).filter (·.2 == 0) = [("Program", 0)] := by
  decide +kernel
theorem zero_min_only_program_2008 :
    (nodeRows Block.Generated.F2008.table Block.Generated.F2008.names).filter (·.2 == 0) = [("Program", 0)] := by
  decide +kernel

theorem no_program_callee_2003 :
    Block.noProgramCallee Block.Generated.F2003.table Block.Generated.F2003.names.size = true := by
  decide +kernel
theorem no_program_callee_2008 :
    Block.noProgramCallee Block.Generated.F2008.table Block.Generated.F2008.names.size = true := by
  decide +kernel

theorem sane_corr_check_2003 :
    saneCorrOK Block.Generated.F2003.table T2003 Block.Generated.F2003.names.size = true := by
  decide +kernel
theorem sane_corr_check_2008 :
    saneCorrOK Block.Generated.F2008.table T2008 Block.Generated.F2008.names.size = true := by
  decide +kernel

theorem program_lt_2003 : Block.Generated.F2003.program < Block.Generated.F2003.names.size := by
  decide +kernel
theorem program_lt_2008 : Block.Generated.F2008.program < Block.Generated.F2008.names.size := by
  decide +kernel

end Fp.Print
