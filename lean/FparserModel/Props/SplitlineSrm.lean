import FparserModel.Proofs.SplitlineSrm
import FparserModel.Props.Splitline
/-!
# Properties of `string_replace_map` / `StringReplaceDict.__call__`  — serves C02, C08

`stringReplaceMap` mirrors /repo HEAD (`Discipline.repaired`); `Discipline.legacy` is the code
before the fixes 979b666 / c764ae8, kept so that the defects stay on record as theorems.

STATUS.  Proved for all inputs: case folding never touches a character literal
(`splitquote_lower`, `srm_lower_preserves_literals`), an unmatched opener survives tokenisation
verbatim (`srm_unmatched_opener_visible`).  The full round trip

    srm_roundtrip : NoMagic l → stringReplaceMap l = some r →
                    squeeze (applyMap r.map r.text) = squeeze l

is NOT proved (three phases with a global `str.replace` in the middle; open obligation, checked
by co-simulation only: 0 failures on ≈10^5 generated NoMagic lines); what is proved about it
are its instances and its counter-examples below, by kernel evaluation of the model.
-/
namespace Fp.Splitline
open Fp

/-! ## case folding (`lower=True`) -/

/-- **splitquote_lower**: `lower=True` returns the segments of `lower=False` with the PLAIN ones
    folded; `String` segments (character literals, open or closed) and the state are identical. -/
theorem splitquote_lower (l : Str) (stop : Option Char) :
    splitquote l stop true
      = ((splitquote l stop false).1.map Seg.fold, (splitquote l stop false).2) := by
  unfold splitquote
  cases stop with
  | none => exact splitLoop_lower _ _
  | some q =>
    simp only
    cases spanLit q l with
    | none => simp [Seg.fold]
    | some lr => simp [splitLoop_lower, Seg.fold]

/-- the tail of `string_replace_map` after its `splitquote` call (the only use of `lower`) -/
def srmFromSegs (d : Discipline) (segs : List Seg) : Option SrmResult :=
  let r1 := phase1 d {} segs
  let r2 := phase2 r1.1 r1.2
  let r3 := phase3 d r2.1 (splitparen r2.2)
  match unnest d r3.1.map (r3.1.exprKeys ++ r3.1.constKeys) with
  | none => none
  | some m => some { text := r3.2, map := m }

/-- **srm_lower_preserves_literals**: `string_replace_map(l, lower=True)` is
    `string_replace_map` run on the segments of `l` in which only the text OUTSIDE character
    literals has been folded; the literals reach the map (or, when `\w*`, the text) exactly as
    written, and they are the same literals as with `lower=False`. -/
theorem srm_lower_preserves_literals (d : Discipline) (l : Str) :
    stringReplaceMapWith d l true = srmFromSegs d ((splitquote l none false).1.map Seg.fold) ∧
    stringReplaceMapWith d l false = srmFromSegs d (splitquote l none false).1 ∧
    ((splitquote l none false).1.map Seg.fold).filter Seg.isQuoted
      = (splitquote l none false).1.filter Seg.isQuoted := by
  refine ⟨?_, rfl, ?_⟩
  · unfold stringReplaceMapWith srmFromSegs
    rw [splitquote_lower]
    rfl
  · induction (splitquote l none false).1 with
    | nil => rfl
    | cons s ss ih => cases s <;> simp [Seg.fold, Seg.isQuoted, List.filter_cons, ih]

-- non-vacuity: the literal keeps its case in the map, the name loses it
example : (stringReplaceMap "Print *, 'Hello World', X".toList true).map (fun r => (r.text, r.map))
    = some ("print *, '_F2PY_STRING_CONSTANT_1_', x".toList,
            [("_F2PY_STRING_CONSTANT_1_".toList, "Hello World".toList)]) := by decide +kernel
-- a `\w*` literal stays in the text, un-folded
example : (stringReplaceMap "PRINT *, 'ABC'".toList true).map (fun r => r.text)
    = some "print *, 'ABC'".toList := by decide +kernel

/-! ## unbalanced parentheses stay visible (C08) -/

/-- the text handed to `splitparen` inside `string_replace_map` (after phases 1 and 2) -/
def phase2Text (d : Discipline) (l : Str) (lower : Bool) : Str :=
  let r1 := phase1 d {} (splitquote l none lower).1
  (phase2 r1.1 r1.2).2

/-- **srm_unmatched_opener_visible**: if the text reaching `splitparen` has an unmatched opener,
    the tokenised text ends with the verbatim tail starting at the outermost unmatched opener:
    it still contains a bare `(` or `[`, nothing is replaced from there on. -/
theorem phase3_open_tail (d : Discipline) (st : SrmState) (t : Str)
    (h : UnmatchedOpener defaultPairs t) :
    ∃ pre o tail cl, (phase3 d st (splitparen t)).2 = pre ++ o :: tail ∧
      closerOf defaultPairs o = some cl ∧ ∃ pre', t = pre' ++ o :: tail := by
  obtain ⟨body, u, hsp, _, hne, hst, hop⟩ := splitparen_open t defaultPairs h
  have hj := splitparen_join' t defaultPairs
  cases u with
  | nil => exact absurd rfl hne
  | cons o tail =>
    simp [openB] at hop
    obtain ⟨cl, hcl, _⟩ := sstep_push defaultPairs _ o hst (by simpa using hop.1)
    refine ⟨(phase3 d st body).2, o, tail, cl, ?_, hcl, pjoin body, ?_⟩
    · rw [hsp, (phase3_append d st body [.plain (o :: tail)]).1, phase3_plain]
    · rw [← hj, hsp]; simp [PItem.str]

theorem srm_unmatched_opener_visible (d : Discipline) (l : Str) (lower : Bool) (r : SrmResult)
    (hr : stringReplaceMapWith d l lower = some r)
    (h : UnmatchedOpener defaultPairs (phase2Text d l lower)) :
    ∃ pre o tail cl, r.text = pre ++ o :: tail ∧ closerOf defaultPairs o = some cl ∧
      ∃ pre', phase2Text d l lower = pre' ++ o :: tail := by
  obtain ⟨pre, o, tail, cl, h1, h2, h3⟩ := phase3_open_tail d
    (phase2 (phase1 d {} (splitquote l none lower).1).1 (phase1 d {} (splitquote l none lower).1).2).1
    (phase2Text d l lower) h
  unfold stringReplaceMapWith at hr
  simp only at hr
  split at hr
  · exact absurd hr (by simp)
  · have hr' := (Option.some.inj hr).symm
    exact ⟨pre, o, tail, cl, by rw [hr']; exact h1, h2, h3⟩

-- non-vacuity
example : UnmatchedOpener defaultPairs (phase2Text discipline "x = f(a+b, (c)".toList false) := by
  decide +kernel
example : (stringReplaceMap "x = f(a+b, (c)".toList).map (fun r => r.text)
    = some "x = f(a+b, (c)".toList := by decide +kernel
/-- a stray CLOSER is an ordinary character of a plain item and is copied verbatim too -/
example : (stringReplaceMap "x = a+b) * (c+d)".toList).map (fun r => r.text)
    = some "x = a+b) * (F2PY_EXPR_TUPLE_1)".toList := by decide +kernel

/-! ## round trip: instances and counter-examples (kernel-evaluated) -/

/-- `applyMap map text` for a line, `none` on `KeyError` -/
def roundTrip (d : Discipline) (l : Str) : Option Str :=
  (stringReplaceMapWith d l false).map fun r => applyMap r.map r.text

/-- instance: strings, exponent literal, nested groups, repeated group -/
theorem srm_roundtrip_instance :
    roundTrip discipline "x = ((a+b))*(a+b) + 1.0e-3*f('it''s', [1,2]) // \"a b\"".toList
      = some "x = ((a+b))*(a+b) + 1.0e-3*f('it''s', [1,2]) // \"a b\"".toList := by decide +kernel

/-- blanks just inside a replaced top-level group are lost (`strip()`): the documented caveat -/
theorem srm_roundtrip_loses_inner_blanks :
    roundTrip discipline "a( i+1 )".toList = some "a(i+1)".toList := by decide +kernel

/-- **NoMagic is necessary**: an identifier spelled like a placeholder is rewritten -/
theorem srm_roundtrip_fails_on_placeholder_name :
    roundTrip discipline "x = F2PY_EXPR_TUPLE_1(i+1)".toList = some "x = i+1(i+1)".toList := by
  decide +kernel

/-- the defect fixed by 979b666 (legacy code): `rev_string_map` was looked up with the full
    item, so a group equal to an earlier TRIMMED group reused its key and gained parentheses … -/
theorem legacy_collision_paren :
    roundTrip .legacy "x = ((a+b))*(a+b)".toList = some "x = ((a+b))*((a+b))".toList ∧
    roundTrip .repaired "x = ((a+b))*(a+b)".toList = some "x = ((a+b))*(a+b)".toList := by
  decide +kernel
/-- … and a literal equal to an earlier trimmed literal gained quotes … -/
theorem legacy_collision_string :
    roundTrip .legacy "\"'a b'\"//'a b'".toList = some "\"'a b'\"//''a b''".toList ∧
    roundTrip .repaired "\"'a b'\"//'a b'".toList = some "\"'a b'\"//'a b'".toList := by
  decide +kernel
/-- … also across kinds (string literal vs group) -/
theorem legacy_collision_cross :
    roundTrip .legacy "x = '(a+b)' // f(a+b)".toList = some "x = '(a+b)' // f((a+b))".toList ∧
    roundTrip .repaired "x = '(a+b)' // f(a+b)".toList = some "x = '(a+b)' // f(a+b)".toList := by
  decide +kernel
/-- the defect fixed by c764ae8: a foreign placeholder inside a group raised `KeyError` -/
theorem legacy_keyerror :
    roundTrip .legacy "f(F2PY_EXPR_TUPLE_7 + 1)".toList = none ∧
    roundTrip .repaired "f(F2PY_EXPR_TUPLE_7 + 1)".toList = some "f(F2PY_EXPR_TUPLE_7 + 1)".toList := by
  decide +kernel
/-- an unterminated literal: the map entry is `item[1:-1]`, i.e. WITHOUT the last character,
    which is re-attached as the "closing delimiter" — the round trip still holds -/
theorem srm_open_literal :
    (stringReplaceMap "'abc def".toList).map (fun r => (r.text, r.map))
      = some ("'_F2PY_STRING_CONSTANT_1_f".toList, [("_F2PY_STRING_CONSTANT_1_".toList, "abc de".toList)]) := by
  decide +kernel
/-- the global `str.replace` of phase 2 also rewrites the same digits inside a NAME -/
theorem srm_real_constant_inside_name :
    (stringReplaceMap "a1e5 + 1e5".toList).map (fun r => r.text)
      = some "aF2PY_REAL_CONSTANT_1_ + F2PY_REAL_CONSTANT_1_".toList := by decide +kernel

end Fp.Splitline
