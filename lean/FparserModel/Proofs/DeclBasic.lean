import FparserModel.Decl
import FparserModel.Proofs.DeclSrm
import FparserModel.Proofs.CombiTok
/-!
# Decl — shared definitions and lemmas for the theorems of `Props/Decl.lean`

* `toks` : the blank-insensitive tokenisation used by every `*_tokens` theorem: the text with all
  white space deleted (equality of `toks` = same non-blank characters in the same order, so
  nothing dropped, nothing invented, order kept; it is finer than equality of token lists).
* `Faithful o` : every child prints what it was given, up to blanks (the children are opaque; the
  theorems are about the statement SHAPE, which must not lose or invent anything itself).
* `Stable o`  : every child re-matches from its own printed text and prints the same again.
* `nb m p`    : `toks (repmap(p))`.
-/
namespace Fp.Decl
open Fp Fp.Splitline Fp.Combi

variable {A : Type}

/-- blank-insensitive tokenisation: all white space deleted -/
def toks (s : Str) : Str := noBlank s

theorem toks_append (a b : Str) : toks (a ++ b) = toks a ++ toks b := noBlank_append a b
theorem toks_strip (s : Str) : toks (strip s) = toks s := noBlank_strip s
theorem toks_lstrip (s : Str) : toks (lstrip s) = toks s := noBlank_lstrip s
theorem toks_rstrip (s : Str) : toks (rstrip s) = toks s := noBlank_rstrip s
theorem toks_cons_nonspace {c : Char} (s : Str) (h : isSpace c = false) : toks (c :: s) = c :: toks s := by
  simp [toks, noBlank, List.filter_cons, h]
theorem toks_cons_space {c : Char} (s : Str) (h : isSpace c = true) : toks (c :: s) = toks s := by
  simp [toks, noBlank, List.filter_cons, h]
@[simp] theorem toks_nil : toks [] = [] := rfl

/-- literal pieces of the `tostr` formats -/
theorem toks_str (x : String) (y : String) (h : toks x.toList = y.toList := by decide) :
    toks x.toList = y.toList := h
@[simp] theorem toks_l1 : toks [',', ' '] = [','] := by decide
@[simp] theorem toks_l2 : toks [' ', '=', ' '] = ['='] := by decide
@[simp] theorem toks_l3 : toks [')'] = [')'] := by decide
@[simp] theorem toks_l4 : toks [' ', '/', ' '] = ['/'] := by decide
@[simp] theorem toks_l5 : toks [' ', '/'] = ['/'] := by decide
@[simp] theorem toks_l6 : toks [' ', '*', ' '] = ['*'] := by decide
@[simp] theorem toks_l7 : toks [' ', ':', ':', ' '] = [':', ':'] := by decide
@[simp] theorem toks_l8 : toks ['(' ] = ['('] := by decide
@[simp] theorem toks_l9 : toks [' ', '-', ' '] = ['-'] := by decide
@[simp] theorem toks_l10 : toks ['/', ' '] = ['/'] := by decide
@[simp] theorem toks_l11 : toks [')', ' ', ':', ':', ' '] = [')', ':', ':'] := by decide
@[simp] theorem toks_l12 : toks ['=', '>', ' '] = ['=', '>'] := by decide
@[simp] theorem toks_l13 : toks ['=', ' '] = ['='] := by decide
@[simp] theorem toks_l14 : toks [' '] = [] := by decide

/-- every child prints what it was given, up to blanks -/
def Faithful (o : Leaves A) : Prop := ∀ c s a, o.leaf c s = some a → toks (o.render a) = toks s

/-- every child re-matches from its own printed text, and prints the same again -/
def Stable (o : Leaves A) : Prop :=
  ∀ c s a, o.leaf c s = some a → ∃ a', o.leaf c (o.render a) = some a' ∧ o.render a' = o.render a

theorem echo_faithful : Faithful echo := by intro c s a h; cases h; rfl
theorem echo_stable : Stable echo := by intro c s a h; exact ⟨a, rfl, rfl⟩

/-- `toks (repmap(p))` -/
def nb (m : Map) (p : Str) : Str := toks (applyMap m p)

theorem nb_sep {m : Map} {a b : Str} {c : Char} (h : Piece m (a ++ c :: b)) (hw : isWord c = false)
    (hs : isSpace c = false) :
    Piece m a ∧ Piece m b ∧ nb m (a ++ c :: b) = nb m a ++ c :: nb m b := by
  obtain ⟨pa, pb, e⟩ := h.sep hw
  refine ⟨pa, pb, ?_⟩
  unfold nb
  rw [e, toks_append, toks_cons_nonspace _ hs]

theorem nb_cons {m : Map} {b : Str} {c : Char} (h : Piece m (c :: b)) (hw : isWord c = false)
    (hs : isSpace c = false) : Piece m b ∧ nb m (c :: b) = c :: nb m b := by
  obtain ⟨pb, e⟩ := h.cons hw
  exact ⟨pb, by unfold nb; rw [e, toks_cons_nonspace _ hs]⟩

theorem nb_snoc {m : Map} {a : Str} {c : Char} (h : Piece m (a ++ [c])) (hw : isWord c = false)
    (hs : isSpace c = false) : Piece m a ∧ nb m (a ++ [c]) = nb m a ++ [c] := by
  obtain ⟨pa, e⟩ := h.snoc hw
  exact ⟨pa, by unfold nb; rw [e, toks_append]; simp [toks, noBlank, hs]⟩

theorem nb_strip {m : Map} {p : Str} (h : Piece m p) : Piece m (strip p) ∧ nb m (strip p) = nb m p :=
  h.strip
theorem nb_lstrip {m : Map} {p : Str} (h : Piece m p) : Piece m (lstrip p) ∧ nb m (lstrip p) = nb m p :=
  h.lstrip
theorem nb_rstrip {m : Map} {p : Str} (h : Piece m p) : Piece m (rstrip p) ∧ nb m (rstrip p) = nb m p :=
  h.rstrip

theorem nb_nil (m : Map) : nb m [] = [] := by simp [nb, applyMap, keyFindAll, keyFindAllAux]

/-- splitting a piece at its commas -/
theorem nb_split_comma {m : Map} : ∀ (xs : List Str) (p : Str), Piece m p → joinStr [','] xs = p → xs ≠ [] →
    (∀ x ∈ xs, Piece m x) ∧ nb m p = joinStr [','] (xs.map (nb m))
  | [], _, _, _, h => absurd rfl h
  | [x], p, hp, hj, _ => by
    simp only [joinStr] at hj
    subst hj
    exact ⟨by intro y hy; simp at hy; subst hy; exact hp, by simp [joinStr]⟩
  | x :: y :: rest, p, hp, hj, _ => by
    simp only [joinStr] at hj
    have hp' : Piece m (x ++ ',' :: joinStr [','] (y :: rest)) := by
      rw [← hj] at hp; simpa using hp
    obtain ⟨px, pr, e⟩ := nb_sep hp' (by decide) (by decide)
    obtain ⟨ih1, ih2⟩ := nb_split_comma (y :: rest) _ pr rfl (by simp)
    refine ⟨?_, ?_⟩
    · intro z hz
      simp only [List.mem_cons] at hz
      rcases hz with rfl | hz
      · exact px
      · exact ih1 z (by simpa using hz)
    · have : p = x ++ ',' :: joinStr [','] (y :: rest) := by rw [← hj]; simp
      rw [this, e, ih2]
      simp [joinStr]

/-! ## string shapes -/

theorem sw_spec {s : Str} {p : String} (h : sw s p = true) : s = p.toList ++ s.drop p.toList.length :=
  isPrefix_spec _ _ h

theorem dropLast_snoc : ∀ (s : Str) (c : Char), s.getLast? = some c → s.dropLast ++ [c] = s
  | [], c, h => by simp at h
  | [x], c, h => by simp at h; simp [h]
  | x :: y :: t, c, h => by
    have := dropLast_snoc (y :: t) c (by simpa [List.getLast?_cons_cons] using h)
    simp only [List.dropLast_cons_cons, List.cons_append, this]

theorem ew_spec {s : Str} {c : Char} (h : ew s c = true) : s = s.dropLast ++ [c] := by
  unfold ew at h
  have : s.getLast? = some c := by simpa using h
  exact (dropLast_snoc s c this).symm

theorem wrapped_spec {s : Str} (h : wrapped s = true) : s = '(' :: (interior s ++ [')']) := by
  unfold wrapped at h
  simp only [Bool.and_eq_true, beq_iff_eq] at h
  obtain ⟨h1, h2⟩ := h
  cases s with
  | nil => simp at h1
  | cons c t =>
    simp at h1; subst h1
    cases t with
    | nil => simp at h2
    | cons d t' =>
      have : (d :: t').getLast? = some ')' := by simpa [List.getLast?_cons_cons] using h2
      have e := dropLast_snoc _ _ this
      simp only [interior, List.drop_succ_cons, List.drop_zero]
      rw [e]

theorem paren_spec {s : Str} (h1 : sw s "(" = true) (h2 : ew s ')' = true) : wrapped s = true := by
  have e := sw_spec h1
  unfold wrapped
  unfold ew at h2
  cases s with
  | nil => simp at e
  | cons c t =>
    simp at e
    subst e
    simpa using h2

theorem cutColons_spec : ∀ (s a b : Str), cutColons s = some (a, b) → s = a ++ ':' :: ':' :: b
  | [], _, _, h => by simp [cutColons] at h
  | [_], _, _, h => by simp [cutColons] at h
  | c :: d :: cs, a, b, h => by
    unfold cutColons at h
    by_cases hc : (c == ':' && d == ':') = true
    · simp only [hc, if_true, Option.some.injEq, Prod.mk.injEq] at h
      obtain ⟨rfl, rfl⟩ := h
      simp only [Bool.and_eq_true, beq_iff_eq] at hc
      simp [hc.1, hc.2]
    · simp only [hc] at h
      cases hr : cutColons (d :: cs) with
      | none => simp [hr] at h
      | some p =>
        simp only [hr, Option.some.injEq, Prod.mk.injEq] at h
        obtain ⟨rfl, rfl⟩ := h
        have := cutColons_spec (d :: cs) p.1 p.2 (by rw [hr])
        rw [this]; simp

end Fp.Decl
