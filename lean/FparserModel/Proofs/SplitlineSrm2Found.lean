import FparserModel.Proofs.SplitlineSrm2Main
/-!
Every exponent constant found in the phase-1 text is a substring of the original line
(as handed over by `splitquote`), hence `Free` when the line is: the `Free f` conjunct of
`FoundsOK` in `srm_roundtrip'` is redundant.
-/
namespace Fp.Splitline
open Fp

/-! ## (1) the characters of a match of `expMatch` -/

/-- the characters an exponent constant can consist of -/
def okCh (c : Char) : Prop := isWord c = true ∨ c = '.' ∨ c = '+' ∨ c = '-'

theorem isQuote_cases {c : Char} (h : isQuote c = true) : c = '\'' ∨ c = '"' := by
  simpa [isQuote] using h

theorem isQuote_props {c : Char} (h : isQuote c = true) :
    isWord c = false ∧ c ≠ '.' ∧ c ≠ '+' ∧ c ≠ '-' ∧ isDigit c = false := by
  rcases isQuote_cases h with rfl | rfl <;> decide

theorem okCh_not_quote {c : Char} (h : okCh c) : isQuote c = false := by
  cases hq : isQuote c with
  | false => rfl
  | true =>
    obtain ⟨h1, h2, h3, h4, _⟩ := isQuote_props hq
    rcases h with h | h | h | h
    · rw [h1] at h; cases h
    · exact absurd h h2
    · exact absurd h h3
    · exact absurd h h4

theorem okCh_digit {c : Char} (h : isDigit c = true) : okCh c := .inl (isDigit_props c h).2.2.1

theorem okCh_exp {c : Char} (h : isExpChar c = true) : okCh c := by
  unfold isExpChar at h
  simp only [Bool.or_eq_true, beq_iff_eq] at h
  rcases h with ((rfl | rfl) | rfl) | rfl <;> exact .inl (by decide)

/-- the sign part `[+-]?` -/
def sgn (r : Str) : Str × Str :=
  match r with
  | '+' :: t => (['+'], t)
  | '-' :: t => (['-'], t)
  | _ => ([], r)

/-- the kind part `(_\w+)?` -/
def knd (r4 : Str) : Str × Str :=
  match r4 with
  | '_' :: t =>
    let w := t.takeWhile isWord
    if w.isEmpty then ([], r4) else ('_' :: w, t.dropWhile isWord)
  | _ => ([], r4)

/-- the mantissa `\d+[.]\d*|\d*[.]\d+|\d+` -/
def mant (s : Str) : Option (Str × Str) :=
  let d1 := s.takeWhile isDigit
  let r1 := s.dropWhile isDigit
  match r1 with
  | '.' :: r2 =>
    let d2 := r2.takeWhile isDigit
    if d1.isEmpty && d2.isEmpty then none else some (d1 ++ '.' :: d2, r2.dropWhile isDigit)
  | _ => if d1.isEmpty then none else some (d1, r1)

theorem expMatch_eq (s : Str) : expMatch s =
    match mant s with
    | none => none
    | some (_, []) => none
    | some (m, e :: r) =>
      if isExpChar e then
        if ((sgn r).2.takeWhile isDigit).isEmpty then none else
        some (m ++ e :: (sgn r).1 ++ (sgn r).2.takeWhile isDigit ++
                (knd ((sgn r).2.dropWhile isDigit)).1,
              (knd ((sgn r).2.dropWhile isDigit)).2)
      else none := rfl

theorem sgn_spec (r : Str) : (sgn r).1 ++ (sgn r).2 = r ∧ ∀ c ∈ (sgn r).1, okCh c := by
  unfold sgn
  split
  · exact ⟨rfl, by intro c hc; simp at hc; subst hc; exact .inr (.inr (.inl rfl))⟩
  · exact ⟨rfl, by intro c hc; simp at hc; subst hc; exact .inr (.inr (.inr rfl))⟩
  · exact ⟨rfl, by intro c hc; simp at hc⟩

theorem knd_spec (r : Str) : (knd r).1 ++ (knd r).2 = r ∧ ∀ c ∈ (knd r).1, okCh c := by
  unfold knd
  split
  · rename_i t
    simp only
    split
    · exact ⟨rfl, by intro c hc; simp at hc⟩
    · refine ⟨by simp [List.takeWhile_append_dropWhile], ?_⟩
      intro c hc
      rcases List.mem_cons.mp hc with rfl | hc
      · exact .inl (by decide)
      · exact .inl (mem_takeWhile_p isWord t c hc)
  · exact ⟨rfl, by intro c hc; simp at hc⟩

theorem mant_spec {s m r : Str} (h : mant s = some (m, r)) :
    m ++ r = s ∧ ∀ c ∈ m, okCh c := by
  have hd1 : ∀ c ∈ s.takeWhile isDigit, okCh c := fun c hc => okCh_digit (mem_takeWhile_digit s c hc)
  have hs : s.takeWhile isDigit ++ s.dropWhile isDigit = s := List.takeWhile_append_dropWhile
  unfold mant at h
  simp only at h
  split at h
  · rename_i r2 hr1
    split at h
    · cases h
    · simp only [Option.some.injEq, Prod.mk.injEq] at h
      obtain ⟨rfl, rfl⟩ := h
      refine ⟨?_, ?_⟩
      · rw [hr1] at hs
        conv => rhs; rw [← hs]
        simp [List.takeWhile_append_dropWhile]
      · intro c hc
        rcases List.mem_append.mp hc with hc | hc
        · exact hd1 c hc
        · rcases List.mem_cons.mp hc with rfl | hc
          · exact .inr (.inl rfl)
          · exact okCh_digit (mem_takeWhile_digit r2 c hc)
  · split at h
    · cases h
    · simp only [Option.some.injEq, Prod.mk.injEq] at h
      obtain ⟨rfl, rfl⟩ := h
      exact ⟨hs, hd1⟩

/-- a match of `expMatch` is a prefix of the text, made of word characters and `. + -` -/
theorem expMatch_spec {s m r : Str} (h : expMatch s = some (m, r)) :
    s = m ++ r ∧ ∀ c ∈ m, okCh c := by
  rw [expMatch_eq] at h
  split at h
  · cases h
  · cases h
  · rename_i m0 e r' hm
    obtain ⟨hm1, hm2⟩ := mant_spec hm
    split at h
    · rename_i he
      rw [Option.ite_none_left_eq_some] at h
      obtain ⟨_, h⟩ := h
      simp only [Option.some.injEq, Prod.mk.injEq] at h
      obtain ⟨rfl, rfl⟩ := h
      obtain ⟨s1, s2⟩ := sgn_spec r'
      obtain ⟨k1, k2⟩ := knd_spec ((sgn r').2.dropWhile isDigit)
      refine ⟨?_, ?_⟩
      · rw [← hm1]
        conv => lhs; rw [← s1, ← List.takeWhile_append_dropWhile (p := isDigit) (l := (sgn r').2), ← k1]
        simp only [List.append_assoc, List.cons_append]
      · intro c hc
        simp only [List.append_assoc, List.cons_append, List.mem_append, List.mem_cons] at hc
        rcases hc with hc | rfl | hc | hc | hc
        · exact hm2 c hc
        · exact okCh_exp he
        · exact s2 c hc
        · exact okCh_digit (mem_takeWhile_digit _ c hc)
        · exact k2 c hc
    · cases h

theorem expMatch_split {s m r : Str} (h : expMatch s = some (m, r)) : s = m ++ r :=
  (expMatch_spec h).1

theorem expMatch_chars {s m r : Str} (h : expMatch s = some (m, r)) :
    ∀ c ∈ m, isWord c = true ∨ c = '.' ∨ c = '+' ∨ c = '-' :=
  (expMatch_spec h).2

/-! ## (2) where a found constant occurs -/

theorem snoc_cases (l : Str) : l = [] ∨ ∃ p x, l = p ++ [x] := by
  rcases List.eq_nil_or_concat l with h | ⟨p, x, h⟩
  · exact .inl h
  · exact .inr ⟨p, x, by rw [h, List.concat_eq_append]⟩

theorem snoc_last_eq {a b : Str} {x y : Char} (h : a ++ [x] = b ++ [y]) : x = y := by
  have := congrArg List.getLast? h
  simpa using this

theorem snoc_last_eq' {a0 a b : Str} {x y : Char} (h : a0 ++ (a ++ [x]) = b ++ [y]) : x = y := by
  rw [← List.append_assoc] at h
  exact snoc_last_eq h

/-- an occurrence of `f` in `s` as the regex finds it: at the start of the text or after a
    character that is neither a word character nor `.` -/
def OccAt (f s : Str) : Prop :=
  ∃ pre post, s = pre ++ (f ++ post) ∧
    ∀ p0 c, pre = p0 ++ [c] → isWord c = false ∧ c ≠ '.'

/-- every constant found by `expFindAll fuel b s` occurs in `s`, at the start (only if `b`) or
    after a character that is neither a word character nor `.`, and consists of `okCh` characters -/
theorem expFindAll_occ : ∀ (fuel : Nat) (b : Bool) (s : Str), ∀ f ∈ expFindAll fuel b s,
    ∃ pre post, s = pre ++ (f ++ post) ∧ (pre = [] → b = true) ∧
      (∀ p0 c, pre = p0 ++ [c] → isWord c = false ∧ c ≠ '.') ∧ (∀ c ∈ f, okCh c) := by
  intro fuel
  induction fuel with
  | zero => intro b s f hf; simp [expFindAll] at hf
  | succ n ih =>
    intro b s f hf
    -- shifting an occurrence found in a later remainder
    have shift : ∀ (a rest : Str), a ≠ [] → f ∈ expFindAll n false rest →
        ∃ pre post, a ++ rest = pre ++ (f ++ post) ∧ (pre = [] → b = true) ∧
          (∀ p0 c, pre = p0 ++ [c] → isWord c = false ∧ c ≠ '.') ∧ (∀ c ∈ f, okCh c) := by
      intro a rest ha hmem
      obtain ⟨pre, post, hs, h0, hp, hc⟩ := ih false rest f hmem
      refine ⟨a ++ pre, post, by rw [hs]; simp, ?_, ?_, hc⟩
      · intro h; simp at h; exact absurd h.1 ha
      · intro p0 c hpc
        rcases snoc_cases pre with rfl | ⟨p1, x, rfl⟩
        · have := h0 rfl; cases this
        · have : x = c := snoc_last_eq' hpc
          subst this
          exact hp p1 x rfl
    cases s with
    | nil => simp [expFindAll] at hf
    | cons c cs =>
      -- the two ways a match is produced
      have after : (!isWord c && c != '.') = true → ∀ m rest, expMatch cs = some (m, rest) →
          f ∈ m :: expFindAll n false rest →
          ∃ pre post, c :: cs = pre ++ (f ++ post) ∧ (pre = [] → b = true) ∧
            (∀ p0 c, pre = p0 ++ [c] → isWord c = false ∧ c ≠ '.') ∧ (∀ c ∈ f, okCh c) := by
        intro hc m rest hm hmem
        obtain ⟨hsplit, hch⟩ := expMatch_spec hm
        rcases List.mem_cons.mp hmem with h | h
        · subst h
          refine ⟨[c], rest, by rw [hsplit]; rfl, by simp, ?_, hch⟩
          intro p0 c' hp
          have : c' = c := by
            have := congrArg List.getLast? hp
            simp at this; exact this.symm
          subst this
          simpa using hc
        · have := shift (c :: m) rest (by simp) h
          rw [hsplit]; simpa using this
      have here : b = true → ∀ m rest, expMatch (c :: cs) = some (m, rest) →
          f ∈ m :: expFindAll n false rest →
          ∃ pre post, c :: cs = pre ++ (f ++ post) ∧ (pre = [] → b = true) ∧
            (∀ p0 c, pre = p0 ++ [c] → isWord c = false ∧ c ≠ '.') ∧ (∀ c ∈ f, okCh c) := by
        intro hb m rest hm hmem
        obtain ⟨hsplit, hch⟩ := expMatch_spec hm
        rcases List.mem_cons.mp hmem with h | h
        · subst h
          exact ⟨[], rest, by rw [hsplit]; rfl, fun _ => hb, by intro p0 c' hp; simp at hp, hch⟩
        · have hne : m ≠ [] := (expMatch_shape hm).ne_nil
          have := shift m rest hne h
          rw [hsplit]; exact this
      have skip : f ∈ expFindAll n false cs →
          ∃ pre post, c :: cs = pre ++ (f ++ post) ∧ (pre = [] → b = true) ∧
            (∀ p0 c, pre = p0 ++ [c] → isWord c = false ∧ c ≠ '.') ∧ (∀ c ∈ f, okCh c) := by
        intro h
        exact shift [c] cs (by simp) h
      unfold expFindAll at hf
      split at hf
      · rename_i hc
        split at hf
        · rename_i m rest hm
          exact after hc m rest hm hf
        · split at hf
          · rename_i hb
            split at hf
            · rename_i m rest hm
              exact here hb m rest hm hf
            · exact skip hf
          · exact skip hf
      · split at hf
        · rename_i hb
          split at hf
          · rename_i m rest hm
            exact here hb m rest hm hf
          · exact skip hf
        · exact skip hf

/-- the head of an `ExpShape` text is a digit or `.` -/
theorem ExpShape.head {f : Str} (h : ExpShape f) :
    ∃ x t, f = x :: t ∧ (isDigit x = true ∨ x = '.') := by
  obtain ⟨fd, x, ft, rfl, hd, _, hx⟩ := h
  cases fd with
  | nil =>
    rcases hx with rfl | ⟨_, hne⟩
    · exact ⟨'.', ft, rfl, .inr rfl⟩
    · exact absurd rfl hne
  | cons a fd => exact ⟨a, fd ++ x :: ft, rfl, .inl (hd a (by simp))⟩

/-- what is known about a constant found in `s` -/
theorem expConsts_occ (s : Str) : ∀ f ∈ expConsts s,
    OccAt f s ∧ (∀ c ∈ f, okCh c) ∧ ∃ x t, f = x :: t ∧ (isDigit x = true ∨ x = '.') := by
  intro f hf
  obtain ⟨pre, post, hs, _, hp, hc⟩ := expFindAll_occ _ _ _ f hf
  exact ⟨⟨pre, post, hs, hp⟩, hc, (expConsts_shape s f hf).head⟩

/-! ## (3) the phase-1 text against the original line -/

/-- `P1Rel a b` : `b` is `a` in which some character literals `q v x` (opening quote, interior,
    last character) have been replaced by `q k x`, `k` a non-empty run of word characters
    starting with `_` -/
inductive P1Rel : Str → Str → Prop
  | nil : P1Rel [] []
  | cons (c : Char) {a b : Str} : P1Rel a b → P1Rel (c :: a) (c :: b)
  | lit (q x : Char) (v k : Str) {a b : Str} (hq : isQuote q = true)
      (hk : ∀ c ∈ k, isWord c = true) (hk0 : k.head? = some '_') :
      P1Rel a b → P1Rel (q :: (v ++ x :: a)) (q :: (k ++ x :: b))

theorem P1Rel.plain : ∀ (p : Str) {a b : Str}, P1Rel a b → P1Rel (p ++ a) (p ++ b)
  | [], _, _, h => h
  | c :: p, _, _, h => P1Rel.cons c (P1Rel.plain p h)

/-- every `String` item of `splitquote` starts with a quotation character -/
theorem splitLoop_quoted (lower : Bool) : ∀ (fuel : Nat) (l : Str) (s : Str),
    Seg.quoted s ∈ (splitLoop lower fuel l).1 → ∃ q t, s = q :: t ∧ isQuote q = true := by
  intro fuel
  induction fuel with
  | zero => intro l s h; simp [splitLoop] at h
  | succ n ih =>
    intro l s h
    rw [splitLoop_succ] at h
    by_cases hl : l.isEmpty
    · simp [hl] at h
    · simp only [hl] at h
      rcases hsp : spanPlain l with ⟨p, r⟩
      rw [hsp] at h
      cases r with
      | nil => simp at h
      | cons q body =>
        have hq := spanPlain_head l p body q hsp
        have hpre : Seg.quoted s ∉ (if p.isEmpty then [] else [Seg.plain (lw lower p)]) := by
          split <;> simp
        simp only [Bool.false_eq_true, ↓reduceIte] at h
        cases hlit : spanLit q body with
        | none =>
          rw [hlit] at h
          simp only at h
          rcases List.mem_append.mp h with h | h
          · exact absurd h hpre
          · simp at h; exact ⟨q, body, h, hq⟩
        | some lr =>
          rcases lr with ⟨lit, rest⟩
          rw [hlit] at h
          simp only at h
          rcases List.mem_append.mp h with h | h
          · exact absurd h hpre
          · rcases List.mem_cons.mp h with h | h
            · simp at h; exact ⟨q, lit, h, hq⟩
            · exact ih rest s h

theorem splitquote_quoted (l : Str) (lower : Bool) (s : Str)
    (h : Seg.quoted s ∈ (splitquote l none lower).1) : ∃ q t, s = q :: t ∧ isQuote q = true :=
  splitLoop_quoted lower _ l s h

theorem lastOf_cons (q : Char) (t : Str) : ∃ x, lastOf (q :: t) = [x] := by
  unfold lastOf
  rw [List.getLast?_eq_some_getLast (by simp)]
  exact ⟨_, rfl⟩

/-- **the phase-1 text is the line with some literal interiors replaced by string keys** -/
theorem phase1_P1Rel (d : Discipline) (hd : d.lookupTrimmed = true) :
    ∀ (segs : List Seg) (st : SrmState), P1Inv st →
      (∀ s, Seg.quoted s ∈ segs → ∃ q t, s = q :: t ∧ isQuote q = true) →
      P1Rel (segsJoin segs) (phase1 d st segs).2
  | [], _, _, _ => P1Rel.nil
  | seg :: segs, st, inv, hq => by
    obtain ⟨inv1, _, _, hstep⟩ := phase1Step_spec d hd st seg inv
    have ih := phase1_P1Rel d hd segs _ inv1 (fun s hs => hq s (by simp [hs]))
    rw [phase1_cons, segsJoin_cons]
    simp only
    rcases hstep with ⟨htxt, _⟩ | ⟨s, j, hseg, hns, htxt, _⟩
    · rw [htxt]; exact P1Rel.plain _ ih
    · subst hseg
      obtain ⟨q, t, rfl, hqq⟩ := hq s (by simp)
      obtain ⟨x, hx⟩ := lastOf_cons q t
      have hs := rewrap_interior (q :: t) (not_simple_ne_nil _ hns)
      rw [hx] at hs
      rw [htxt, hx]
      simp only [Seg.str]
      generalize interior (q :: t) = v at hs
      have ht : t = v ++ [x] := by simpa using hs.symm
      subst ht
      simpa using P1Rel.lit q x v (strKey j) hqq (strKey_isWord j) (strKey_head j) ih

/-! ## (4) an occurrence in the phase-1 text is an occurrence in the line -/

/-- a quote-free prefix of the tokenised text is a prefix of the original -/
theorem P1Rel.prefix {a b : Str} (h : P1Rel a b) : ∀ (g post : Str), b = g ++ post →
    (∀ c ∈ g, isQuote c = false) → ∃ post', a = g ++ post' := by
  induction h with
  | nil => intro g post hb _; simp at hb; exact ⟨[], by simp [hb.1]⟩
  | cons c _ ih =>
    intro g post hb hg
    cases g with
    | nil => exact ⟨_, rfl⟩
    | cons x g =>
      simp only [List.cons_append, List.cons.injEq] at hb
      obtain ⟨rfl, hb⟩ := hb
      obtain ⟨post', rfl⟩ := ih g post hb (fun y hy => hg y (by simp [hy]))
      exact ⟨post', rfl⟩
  | lit q x v k hq _ _ _ _ =>
    intro g post hb hg
    cases g with
    | nil => exact ⟨_, rfl⟩
    | cons y g =>
      simp only [List.cons_append, List.cons.injEq] at hb
      obtain ⟨rfl, _⟩ := hb
      have := hg q (by simp)
      rw [hq] at this; cases this

/-- **an occurrence of a constant in the tokenised text is an occurrence in the original** -/
theorem P1Rel.occ {a b : Str} (h : P1Rel a b) (f : Str) (hf : ∀ c ∈ f, isQuote c = false)
    (hh : ∃ x t, f = x :: t ∧ (isDigit x = true ∨ x = '.')) :
    ∀ (pre post : Str), b = pre ++ (f ++ post) →
      (∀ p0 c, pre = p0 ++ [c] → isWord c = false ∧ c ≠ '.') →
      ∃ pre' post', a = pre' ++ (f ++ post') := by
  obtain ⟨x0, t0, rfl, hx0⟩ := hh
  induction h with
  | nil => intro pre post hb _; simp at hb
  | cons c hab ih =>
    intro pre post hb hp
    cases pre with
    | nil =>
      obtain ⟨post', h'⟩ := (P1Rel.cons c hab).prefix (x0 :: t0) post hb hf
      exact ⟨[], post', h'⟩
    | cons y pre1 =>
      simp only [List.cons_append, List.cons.injEq] at hb
      obtain ⟨rfl, hb⟩ := hb
      obtain ⟨pre', post', rfl⟩ := ih pre1 post hb
        (fun p0 z hz => hp (c :: p0) z (by rw [hz]; rfl))
      exact ⟨c :: pre', post', rfl⟩
  | lit q x v k hq hk hk0 hab ih =>
    rename_i a' b'
    intro pre post hb hp
    -- the constant does not start at `x` (which follows the last key character)
    have noX : pre = q :: k → False := by
      intro hpre
      rcases snoc_cases k with rfl | ⟨k1, z, rfl⟩
      · simp at hk0
      · have := (hp (q :: k1) z (by rw [hpre]; rfl)).1
        rw [hk z (by simp)] at this; cases this
    cases pre with
    | nil =>
      simp only [List.nil_append, List.cons_append, List.cons.injEq] at hb
      have := hf x0 (by simp)
      rw [← hb.1, hq] at this; cases this
    | cons y pre1 =>
      simp only [List.cons_append, List.cons.injEq] at hb
      obtain ⟨rfl, hb⟩ := hb
      rcases List.append_eq_append_iff.mp hb with ⟨a1, h1, h2⟩ | ⟨c1, h1, h2⟩
      · -- the occurrence starts at `x` or later
        cases a1 with
        | nil =>
          simp only [List.append_nil] at h1
          exact (noX (by rw [h1])).elim
        | cons y a2 =>
          simp only [List.cons_append, List.cons.injEq] at h2
          obtain ⟨rfl, h2⟩ := h2
          obtain ⟨pre', post', rfl⟩ := ih a2 post h2
            (fun p0 z hz => hp (q :: (k ++ x :: p0)) z (by rw [h1, hz]; simp))
          exact ⟨q :: (v ++ x :: pre'), post', by simp⟩
      · -- the occurrence starts inside the key
        cases c1 with
        | nil =>
          simp only [List.append_nil] at h1
          exact (noX (by rw [h1])).elim
        | cons y c2 =>
          exfalso
          simp only [List.cons_append, List.cons.injEq] at h2
          obtain ⟨rfl, _⟩ := h2
          rcases snoc_cases pre1 with rfl | ⟨p1, z, rfl⟩
          · -- at the first key character `_`
            simp only [List.nil_append] at h1
            rw [h1] at hk0
            simp at hk0
            subst hk0
            rcases hx0 with h | h
            · exact absurd h (by decide)
            · exact absurd h (by decide)
          · have := (hp (q :: p1) z rfl).1
            rw [hk z (by rw [h1]; simp)] at this; cases this

/-! ## (5) the found constants are `Free` -/

/-- every exponent constant found in the phase-1 text is a substring of the line -/
theorem founds_infix (d : Discipline) (hd : d.lookupTrimmed = true) (l : Str) (lower : Bool) :
    ∀ f ∈ expConsts (phase1Text d l lower),
      ∃ pre post, foldOutsideLiterals lower l = pre ++ (f ++ post) := by
  intro f hf
  obtain ⟨⟨pre, post, hs, hp⟩, hc, hh⟩ := expConsts_occ _ f hf
  have hrel : P1Rel (foldOutsideLiterals lower l) (phase1Text d l lower) :=
    phase1_P1Rel d hd _ {} P1Inv_init (splitquote_quoted l lower)
  exact hrel.occ f (fun c hcf => okCh_not_quote (hc c hcf)) hh pre post hs hp

theorem founds_free (d : Discipline) (hd : d.lookupTrimmed = true) (l : Str) (lower : Bool)
    (hF : Free (foldOutsideLiterals lower l)) :
    ∀ f ∈ expConsts (phase1Text d l lower), Free f := by
  intro f hf
  obtain ⟨pre, post, h⟩ := founds_infix d hd l lower f hf
  rw [h] at hF
  exact Free_infix hF

/-- the remaining side condition on the found constants: none ends in a non-empty proper prefix
    of a placeholder (`_`, `F`, `F2`, `F2P`) -/
def FoundsEndOK (fs : List Str) : Prop := ∀ f ∈ fs, badEnd f = false

instance (fs : List Str) : Decidable (FoundsEndOK fs) :=
  inferInstanceAs (Decidable (∀ f ∈ fs, badEnd f = false))

/-- **the full round trip**, without the `Free` hypothesis on the found constants -/
theorem srm_roundtrip'' (d : Discipline) (hd : d.lookupTrimmed = true)
    (hs : d.separateParenMap = true) (hf : d.foreignKeyRaises = false) (l : Str) (lower : Bool)
    (hF : Free (foldOutsideLiterals lower l))
    (hE : FoundsEndOK (expConsts (phase1Text d l lower))) :
    ∃ r, stringReplaceMapWith d l lower = some r ∧
      squeeze (applyMap r.map r.text) = squeeze (foldOutsideLiterals lower l) :=
  srm_roundtrip' d hd hs hf l lower hF
    (fun f hfm => ⟨founds_free d hd l lower hF f hfm, hE f hfm⟩)

/-! ## non-vacuity -/

example : discipline.lookupTrimmed = true ∧ discipline.separateParenMap = true ∧
    discipline.foreignKeyRaises = false := by decide

example : Free (foldOutsideLiterals false "x = 1.0E-3_dp + F('a b')".toList) := by decide +kernel

example : FoundsEndOK (expConsts (phase1Text discipline "x = 1.0E-3_dp + F('a b')".toList false)) := by
  decide +kernel

/-- the hypotheses are met by a line with a constant AND a replaced literal -/
example : expConsts (phase1Text discipline "x = 1.0E-3_dp + F('a b')".toList false)
    = ["1.0E-3_dp".toList] ∧
    phase1Text discipline "x = 1.0E-3_dp + F('a b')".toList false
      = "x = 1.0E-3_dp + F('_F2PY_STRING_CONSTANT_1_')".toList := by decide +kernel

/-- the hypothesis `FoundsEndOK` can fail -/
example : ¬ FoundsEndOK (expConsts (phase1Text discipline "x = 1e5_F".toList false)) := by
  decide +kernel

#print axioms expMatch_split
#print axioms expMatch_chars
#print axioms expConsts_occ
#print axioms phase1_P1Rel
#print axioms P1Rel.occ
#print axioms founds_infix
#print axioms founds_free
#print axioms srm_roundtrip''

end Fp.Splitline
