import FparserModel.Proofs.ExprBasic
import FparserModel.Proofs.ExprSpec

/-! lemmas on depth-0 splitting of rendered trees; the fuel-free recursion equation -/
namespace Fp.Expr

/-! ### the fuel-free recursion equation of `parse` -/

theorem parse_eq (k : Lv) (ts : List T) :
    parse k ts =
      match matchStep parse (rowOf k) ts with
      | some e => some e
      | none => match (rowOf k).next with
        | some k' => parse k' ts
        | none => none := by
  have hneed : need k ts = (k.rank + 13 * ts.length) + 1 := rfl
  unfold parse
  rw [hneed, parseF_succ]
  have hc : matchStep (parseF (k.rank + 13 * ts.length)) (rowOf k) ts
      = matchStep (fun k ts => parseF (need k ts) k ts) (rowOf k) ts := by
    apply matchStep_congr
    intro k' ts' hlt
    have := rank_le k'
    apply parseF_stable <;> simp only [need] <;> omega
  rw [hc]
  cases hm : matchStep (fun k ts => parseF (need k ts) k ts) (rowOf k) ts with
  | some e => rfl
  | none =>
    simp only
    cases hk : (rowOf k).next with
    | none => rfl
    | some k' =>
      simp only
      have := next_rank hk
      apply parseF_stable <;> simp only [need] <;> omega

/-! ### operator tokens of trees -/

/-- every operator stored in the tree is an operator token (true of derivations and of
everything `parse` returns except the loose `Level_1_Expr` operators) -/
def opsOK : Ex → Prop
  | .atom _ _ _ => True
  | .paren e => opsOK e
  | .un o e => o.isParen = false ∧ opsOK e
  | .bin o l r => o.isParen = false ∧ opsOK l ∧ opsOK r

theorem render_ne_nil (e : Ex) : render e ≠ [] := by
  cases e <;> simp [render]

theorem step_of_not_paren {t : T} (h : t.isParen = false) (d : Nat) : step d t = d := by
  cases t <;> simp [T.isParen] at h <;> simp [step]

theorem depthAfter_append (d : Nat) (xs ys : List T) :
    depthAfter d (xs ++ ys) = depthAfter (depthAfter d xs) ys := by
  simp [depthAfter, List.foldl_append]

theorem depthAfter_cons (d : Nat) (t : T) (xs : List T) :
    depthAfter d (t :: xs) = depthAfter (step d t) xs := rfl

theorem depthAfter_render : ∀ (e : Ex), opsOK e → ∀ d, depthAfter d (render e) = d := by
  intro e
  induction e with
  | atom i dd g => intro _ d; simp [render, depthAfter, step]
  | paren e ih =>
    intro h d
    simp only [render, depthAfter_cons, depthAfter_append, step]
    rw [ih h]
    simp [depthAfter]
  | un o e ih =>
    intro h d
    simp only [render, depthAfter_cons, step_of_not_paren h.1]
    exact ih h.2 d
  | bin o l r ihl ihr =>
    intro h d
    simp only [render, depthAfter_append, depthAfter_cons, ihl h.2.1, step_of_not_paren h.1]
    exact ihr h.2.2 d

/-! ### compositional behaviour of the splitters -/

theorem splitLast_append (p : T → Bool) : ∀ (xs ys : List T) (d : Nat),
    splitLast p (xs ++ ys) d =
      match splitLast p ys (depthAfter d xs) with
      | some (l, o, r) => some (xs ++ l, o, r)
      | none => match splitLast p xs d with
        | some (l, o, r) => some (l, o, r ++ ys)
        | none => none := by
  intro xs
  induction xs with
  | nil =>
    intro ys d
    simp only [List.nil_append, depthAfter, List.foldl_nil, splitLast]
    cases splitLast p ys d with
    | none => rfl
    | some x => obtain ⟨l, o, r⟩ := x; rfl
  | cons t rest ih =>
    intro ys d
    simp only [List.cons_append, depthAfter_cons]
    rw [splitLast, ih ys (step d t)]
    cases h1 : splitLast p ys (depthAfter (step d t) rest) with
    | some x => obtain ⟨l, o, r⟩ := x; simp
    | none =>
      simp only
      rw [splitLast]
      cases h2 : splitLast p rest (step d t) with
      | some x => obtain ⟨l, o, r⟩ := x; simp
      | none =>
        simp only
        split <;> simp

theorem splitFirst_append (p : T → Bool) : ∀ (xs ys : List T) (d : Nat),
    splitFirst p (xs ++ ys) d =
      match splitFirst p xs d with
      | some (l, o, r) => some (l, o, r ++ ys)
      | none => match splitFirst p ys (depthAfter d xs) with
        | some (l, o, r) => some (xs ++ l, o, r)
        | none => none := by
  intro xs
  induction xs with
  | nil =>
    intro ys d
    simp only [List.nil_append, depthAfter, List.foldl_nil, splitFirst]
    cases splitFirst p ys d with
    | none => rfl
    | some x => obtain ⟨l, o, r⟩ := x; rfl
  | cons t rest ih =>
    intro ys d
    simp only [List.cons_append, depthAfter_cons]
    rw [splitFirst, splitFirst]
    split
    · simp
    · rw [ih ys (step d t)]
      cases h2 : splitFirst p rest (step d t) with
      | some x => obtain ⟨l, o, r⟩ := x; simp
      | none =>
        simp only
        cases h1 : splitFirst p ys (depthAfter (step d t) rest) with
        | some x => obtain ⟨l, o, r⟩ := x; simp
        | none => simp

theorem splitLast_single (p : T → Bool) (t : T) (d : Nat) :
    splitLast p [t] d = if d = 0 ∧ !t.isParen ∧ p t then some ([], t, []) else none := by
  simp [splitLast]

/-- inside a parenthesis nothing is visible -/
theorem splitLast_deep (p : T → Bool) : ∀ (e : Ex), opsOK e → ∀ d, splitLast p (render e) (d+1) = none := by
  intro e
  induction e with
  | atom i dd g => intro _ d; simp [render, splitLast]
  | paren e ih =>
    intro h d
    simp only [render]
    rw [splitLast, splitLast_append]
    simp only [step, depthAfter_render e h, ih h]
    simp [splitLast]
  | un o e ih =>
    intro h d
    simp only [render]
    rw [splitLast, step_of_not_paren h.1, ih h.2]
    simp
  | bin o l r ihl ihr =>
    intro h d
    simp only [render]
    rw [splitLast_append, depthAfter_render l h.2.1, splitLast, step_of_not_paren h.1, ihr h.2.2, ihl h.2.1]
    simp

theorem splitFirst_deep (p : T → Bool) : ∀ (e : Ex), opsOK e → ∀ d, splitFirst p (render e) (d+1) = none := by
  intro e
  induction e with
  | atom i dd g => intro _ d; simp [render, splitFirst]
  | paren e ih =>
    intro h d
    simp only [render]
    rw [splitFirst]
    simp only [Nat.add_eq_zero_iff, Nat.succ_ne_self, and_false, false_and, ↓reduceIte, step]
    rw [splitFirst_append, ih h, depthAfter_render e h]
    simp [splitFirst]
  | un o e ih =>
    intro h d
    simp only [render]
    rw [splitFirst, step_of_not_paren h.1, ih h.2]
    simp
  | bin o l r ihl ihr =>
    intro h d
    simp only [render]
    rw [splitFirst_append, depthAfter_render l h.2.1, ihl h.2.1, splitFirst, step_of_not_paren h.1, ihr h.2.2]
    simp

/-- no visible token matches ⇒ no split -/
theorem splitLast_none_of_top (p : T → Bool) : ∀ (e : Ex), opsOK e →
    (∀ t ∈ topToks e, p t = false) → splitLast p (render e) 0 = none := by
  intro e
  induction e with
  | atom i dd g => intro _ h; simp [render, splitLast, topToks] at *; simp [h]
  | paren e ih =>
    intro h _
    simp only [render]
    rw [splitLast, splitLast_append]
    simp only [step, depthAfter_render e h, splitLast_deep p e h]
    simp [splitLast, T.isParen]
  | un o e ih =>
    intro h ht
    simp only [render]
    rw [splitLast, step_of_not_paren h.1, ih h.2 (fun t m => ht t (by simp [topToks, m]))]
    have := ht o (by simp [topToks])
    simp [this]
  | bin o l r ihl ihr =>
    intro h ht
    simp only [render]
    rw [splitLast_append, depthAfter_render l h.2.1, splitLast, step_of_not_paren h.1,
      ihr h.2.2 (fun t m => ht t (by simp [topToks, m])),
      ihl h.2.1 (fun t m => ht t (by simp [topToks, m]))]
    have := ht o (by simp [topToks])
    simp [this]

theorem splitFirst_none_of_top (p : T → Bool) : ∀ (e : Ex), opsOK e →
    (∀ t ∈ topToks e, p t = false) → splitFirst p (render e) 0 = none := by
  intro e
  induction e with
  | atom i dd g => intro _ h; simp [render, splitFirst, topToks] at *; simp [h]
  | paren e ih =>
    intro h _
    simp only [render]
    rw [splitFirst]
    simp only [T.isParen, Bool.not_true, Bool.false_eq_true, false_and, and_false, ↓reduceIte, step]
    rw [splitFirst_append, splitFirst_deep p e h, depthAfter_render e h]
    simp [splitFirst, T.isParen]
  | un o e ih =>
    intro h ht
    simp only [render]
    have := ht o (by simp [topToks])
    rw [splitFirst, step_of_not_paren h.1, ih h.2 (fun t m => ht t (by simp [topToks, m]))]
    simp [this]
  | bin o l r ihl ihr =>
    intro h ht
    simp only [render]
    have := ht o (by simp [topToks])
    rw [splitFirst_append, depthAfter_render l h.2.1,
      ihl h.2.1 (fun t m => ht t (by simp [topToks, m])), splitFirst, step_of_not_paren h.1,
      ihr h.2.2 (fun t m => ht t (by simp [topToks, m]))]
    simp [this]

/-- the right-most visible match of `l o r` is `o` when nothing in `r` matches -/
theorem splitLast_root (p : T → Bool) (o : T) (l r : Ex) (hl : opsOK l) (hr : opsOK r)
    (ho : o.isParen = false) (hp : p o = true) (hr' : ∀ t ∈ topToks r, p t = false) :
    splitLast p (render l ++ o :: render r) 0 = some (render l, o, render r) := by
  rw [splitLast_append, depthAfter_render l hl, splitLast, step_of_not_paren ho,
    splitLast_none_of_top p r hr hr']
  simp [ho, hp]

/-- the left-most visible match of `l o r` is `o` when nothing in `l` matches -/
theorem splitFirst_root (p : T → Bool) (o : T) (l r : Ex) (hl : opsOK l)
    (ho : o.isParen = false) (hp : p o = true) (hl' : ∀ t ∈ topToks l, p t = false) :
    splitFirst p (render l ++ o :: render r) 0 = some (render l, o, render r) := by
  rw [splitFirst_append, splitFirst_none_of_top p l hl hl', depthAfter_render l hl, splitFirst]
  simp [ho, hp]

/-! ### last token; first token -/

def T.isOperandEnd : T → Bool
  | .atom _ _ _ => true
  | .rp => true
  | _ => false

theorem render_last : ∀ (e : Ex), ∃ t, (render e).getLast? = some t ∧ t.isOperandEnd = true := by
  intro e
  induction e with
  | atom i d g => exact ⟨.atom i d g, by simp [render], rfl⟩
  | paren e _ => exact ⟨.rp, by simp [render, List.getLast?_cons, List.getLast?_append], rfl⟩
  | un o e ih =>
    obtain ⟨t, h1, h2⟩ := ih
    refine ⟨t, ?_, h2⟩
    simp only [render]
    cases hre : render e with
    | nil => exact absurd hre (render_ne_nil e)
    | cons a as => rw [List.getLast?_cons_cons, ← hre]; exact h1
  | bin o l r _ ihr =>
    obtain ⟨t, h1, h2⟩ := ihr
    refine ⟨t, ?_, h2⟩
    simp only [render]
    rw [List.getLast?_append]
    cases hre : render r with
    | nil => exact absurd hre (render_ne_nil r)
    | cons a as => rw [List.getLast?_cons_cons, ← hre, h1]; rfl

/-- a string ending in an operator is matched by no class -/
theorem parse_none_of_last {l : List T} {t : T} (hl : l.getLast? = some t)
    (ht : t.isOperandEnd = false) (k : Lv) : parse k l = none := by
  cases h : parse k l with
  | none => rfl
  | some e =>
    have hs := parseF_sound _ _ _ _ h
    obtain ⟨t', h1, h2⟩ := render_last e
    rw [hs, hl] at h1
    simp only [Option.some.injEq] at h1
    subst h1
    rw [ht] at h2
    exact absurd h2 (by simp)

theorem render_first : ∀ (e : Ex) (t : T) (rest : List T), render e = t :: rest →
    t = .lp ∨ t ∈ topToks e := by
  intro e
  induction e with
  | atom i d g => intro t rest h; simp [render] at h; simp [topToks, h.1]
  | paren e _ => intro t rest h; simp [render] at h; simp [h.1]
  | un o e _ => intro t rest h; simp [render] at h; simp [topToks, h.1]
  | bin o l r ihl _ =>
    intro t rest h
    simp only [render] at h
    cases hl : render l with
    | nil => exact absurd hl (render_ne_nil l)
    | cons a as =>
      rw [hl] at h
      simp at h
      rcases ihl a as hl with h1 | h1
      · left; rw [← h.1]; exact h1
      · right; simp [topToks]; left; rw [← h.1]; exact h1

/-! ### glue -/

theorem gluedPair_of_touching (p : T → Bool) : ∀ (ts : List T) (d : Nat),
    touching p ts = false → gluedPair p ts d = false := by
  intro ts
  induction ts with
  | nil => intro d _; simp [gluedPair]
  | cons t1 rest ih =>
    intro d h
    cases rest with
    | nil => simp [gluedPair]
    | cons t2 rest' =>
      simp only [touching, Bool.or_eq_false_iff] at h
      simp only [gluedPair, Bool.or_eq_false_iff]
      refine ⟨?_, ih _ h.2⟩
      have h1 := h.1
      simp only [Bool.and_eq_false_iff] at h1
      simp only [decide_eq_false_iff_not, not_and]
      intro _ _ hp1 _ hp2 hg
      rcases h1 with (h1 | h1) | h1 <;> simp_all

theorem touching_append_left (p : T → Bool) : ∀ (xs ys : List T),
    touching p (xs ++ ys) = false → touching p xs = false := by
  intro xs
  induction xs with
  | nil => intro ys _; simp [touching]
  | cons t1 rest ih =>
    intro ys h
    cases rest with
    | nil => simp [touching]
    | cons t2 rest' =>
      simp only [List.cons_append, touching, Bool.or_eq_false_iff] at h
      simp only [touching, Bool.or_eq_false_iff]
      exact ⟨h.1, ih ys h.2⟩

theorem touching_append_right (p : T → Bool) : ∀ (xs ys : List T),
    touching p (xs ++ ys) = false → touching p ys = false := by
  intro xs
  induction xs with
  | nil => intro ys h; simpa using h
  | cons t1 rest ih =>
    intro ys h
    cases hr : rest ++ ys with
    | nil =>
      have : ys = [] := by
        cases rest <;> simp_all
      simp [this, touching]
    | cons t2 rest' =>
      simp only [List.cons_append, hr, touching, Bool.or_eq_false_iff] at h
      rw [← hr] at h
      exact ih ys h.2

theorem touching_cons (p : T → Bool) (t : T) (ts : List T) (h : touching p (t :: ts) = false) :
    touching p ts = false := touching_append_right p [t] ts h

theorem allCls_complete (c : OpCls) : c ∈ allCls := by cases c <;> simp [allCls]

theorem glueFree_touching {ts : List T} (h : glueFree ts = true) (c : OpCls) :
    touching c.test ts = false := by
  simp only [glueFree, List.all_eq_true] at h
  have := h c (allCls_complete c)
  simpa using this

theorem glueFree_append {xs ys : List T} (h : glueFree (xs ++ ys) = true) :
    glueFree xs = true ∧ glueFree ys = true := by
  simp only [glueFree, List.all_eq_true] at *
  constructor
  · intro c hc
    have := h c hc
    simp only [Bool.not_eq_eq_eq_not, Bool.not_true] at *
    exact touching_append_left _ _ _ this
  · intro c hc
    have := h c hc
    simp only [Bool.not_eq_eq_eq_not, Bool.not_true] at *
    exact touching_append_right _ _ _ this

theorem glueFree_cons {t : T} {ts : List T} (h : glueFree (t :: ts) = true) : glueFree ts = true :=
  (glueFree_append (xs := [t]) h).2

end Fp.Expr
