import FparserModel.Proofs.IoStmtLayoutWrite
/-!
`*_tostr_match_tokens` for the control statements of the execution part:
`If_Then_Stmt`, `Else_If_Stmt`, `Select_Case_Stmt`, `Case_Selector`, `Label_Do_Stmt` (no tokeniser),
`If_Stmt`, `Case_Stmt`, `Loop_Control` (through `string_replace_map`).
-/
namespace Fp.IoStmt
open Fp Fp.Splitline
open Fp.Combi (noBlank)

variable {Node : Type}

/-! ## helpers -/

/-- `s[0] == "(" and s[-1] == ")"` : then `s = "(" + s[1:-1] + ")"` (the one-character string `"("`
    is excluded by the test itself) -/
theorem paren_shape_ctl {s : Str} (h1 : s.head? = some '(') (h2 : s.getLast? = some ')') :
    s = '(' :: inner s ++ [')'] := by
  obtain ⟨ys, rfl⟩ := List.getLast?_eq_some_iff.mp h2
  cases ys with
  | nil => simp at h1
  | cons c ys' =>
    simp only [List.cons_append, List.head?_cons, Option.some.injEq] at h1
    subst h1
    simp [inner]

theorem toks_paren_shape {s : Str} (h1 : s.head? = some '(') (h2 : s.getLast? = some ')') :
    toks s = toks "(".toList ++ (toks (strip (inner s)) ++ toks ")".toList) := by
  conv => lhs; rw [paren_shape_ctl h1 h2]
  have e1 : ∀ X : Str, '(' :: X = "(".toList ++ X := fun _ => rfl
  rw [List.cons_append, e1]
  simp only [toks_append, toks_strip]
  rfl

theorem net_lit_lparen : net "(".toList = 1 := by decide
theorem net_lit_rparen : net ")".toList = -1 := by decide

theorem net_none_ctl (o : Oracle Node) : net ((Item.none : Item Node).text o) = 0 := by
  simp only [Item.text]; decide

theorem toks_isEmpty {x : Str} (h : x.isEmpty = true) : toks x = [] := by
  have : x = [] := by simpa using h
  subst this; rfl

theorem kwIs_of_not {kw s : Str} (h : (!kwIs kw s) = false) : kwIs kw s = true := by simpa using h

/-! ## If_Then_Stmt -/

theorem ifThen_tostr_match_tokens (o : Oracle Node) (ho : OracleTok o) (s : Str)
    (items : List (Item Node)) (hm : (planIfThen s).bind (runSlots o) = .ok items) :
    ∃ t, tostrIfThen o items = .ok t ∧ toks t = toks s ∧
      ((∀ i ∈ items, net (i.text o) = 0) → net t = 0) := by
  obtain ⟨slots, hp, hr⟩ := Res.bind_eq_ok hm
  unfold planIfThen at hp
  split at hp
  · cases hp
  rename_i hkw
  have hkw' : kwIs "IF".toList s = true := by simpa using hkw
  split at hp
  · cases hp
  rename_i hth
  have hth' : upper (s.drop (s.length - 4)) = "THEN".toList := by simpa using hth
  dsimp only at hp
  split at hp
  · rename_i h l hh hl
    split at hp
    · cases hp
    rename_i hcond
    have hc : h = '(' ∧ l = ')' := by simpa using hcond
    obtain ⟨rfl, rfl⟩ := hc
    cases hp
    obtain ⟨i, is, rfl, hi, his⟩ := runSlots_cons_ok hr
    have := runSlots_nil_ok his; subst this
    have hi' := toks_item_of_child ho hi
    obtain ⟨n, rfl, _⟩ := runSlot_child_ok hi
    have hline := toks_paren_shape hh hl
    rw [toks_strip] at hline
    -- the middle part is not empty: the keyword is `s[:2]`
    have hmid : ((s.take (s.length - 4)).drop 2) ≠ [] := by
      intro e; rw [e] at hh; simp [strip, lstrip, rstrip] at hh
    have hlen : 2 < s.length - 4 := by
      have : 0 < ((s.take (s.length - 4)).drop 2).length := List.length_pos_iff.mpr hmid
      simp only [List.length_drop, List.length_take] at this
      omega
    have hS : toks s = toks "IF".toList ++ (toks ((s.take (s.length - 4)).drop 2) ++ toks "THEN".toList) := by
      conv => lhs; rw [← List.take_append_drop (s.length - 4) s,
        ← List.take_append_drop 2 (s.take (s.length - 4))]
      rw [List.take_take, Nat.min_eq_left (by omega)]
      simp only [toks_append, List.append_assoc]
      have a1 : toks (s.take 2) = toks "IF".toList := by
        rw [← toks_upper]
        have : upper (s.take 2) = "IF".toList := by simpa [kwIs] using hkw'
        rw [this]
      rw [a1, ← toks_upper (s.drop (s.length - 4)), hth']
    refine ⟨_, rfl, ?_, ?_⟩
    · rw [hS, hline]
      have k1 : toks "IF (".toList = toks "IF".toList ++ toks "(".toList := by decide
      have k2 : toks ") THEN".toList = toks ")".toList ++ toks "THEN".toList := by decide
      simp only [toks_append, k1, k2, hi', List.append_assoc]
    · intro hb
      have := hb (.node n) (by simp)
      have k1 : net "IF (".toList = 1 := by decide
      have k2 : net ") THEN".toList = -1 := by decide
      simp only [net_append, k1, k2, this]
      omega
  · cases hp

/-! ## Else_If_Stmt -/

theorem head_of_append_cons {line pre post : Str} {c d : Char} (hne : c ≠ d)
    (hh : line.head? = some c) (e : line = pre ++ d :: post) : ∃ pre', pre = c :: pre' := by
  subst e
  cases pre with
  | nil => simp at hh; exact absurd hh.symm hne
  | cons x pre' => simp at hh; exact ⟨pre', by rw [hh]⟩

theorem elseIf_tostr_match_tokens (o : Oracle Node) (ho : OracleTok o) (s : Str)
    (items : List (Item Node)) (hm : (planElseIf s).bind (runSlots o) = .ok items) :
    ∃ t, tostrElseIf o items = .ok t ∧ toks t = toks s ∧
      ((∀ i ∈ items, net (i.text o) = 0) → net t = 0) := by
  obtain ⟨slots, hp, hr⟩ := Res.bind_eq_ok hm
  unfold planElseIf at hp
  split at hp
  · cases hp
  rename_i hkw
  have hkw1 : toks s = toks "ELSE".toList ++ toks (s.drop 4) :=
    toks_of_kwIs (kwIs_of_not (by simpa using hkw))
  dsimp only at hp
  split at hp
  · cases hp
  rename_i hkw
  have hkw2 : toks (lstrip (s.drop 4)) = toks "IF".toList ++ toks ((lstrip (s.drop 4)).drop 2) :=
    toks_of_kwIs (kwIs_of_not (by simpa using hkw))
  split at hp
  · cases hp
  rename_i hst
  have hst' : (lstrip ((lstrip (s.drop 4)).drop 2)).head? = some '(' := by simpa [startsC] using hst
  split at hp
  · cases hp
  rename_i pre post hcut
  obtain ⟨htext, _⟩ := Combi.cutLast_spec _ _ _ hcut
  obtain ⟨pre', rfl⟩ := head_of_append_cons (by decide) hst' htext
  split at hp
  · cases hp
  rename_i hkw
  have hkw3 : toks (lstrip post) = toks "THEN".toList ++ toks ((lstrip post).drop 4) :=
    toks_of_kwIs (kwIs_of_not (by simpa using hkw))
  have e1 : ∀ X : Str, '(' :: X = "(".toList ++ X := fun _ => rfl
  have e2 : ∀ X : Str, ')' :: X = ")".toList ++ X := fun _ => rfl
  have hS : toks s = toks "ELSE".toList ++ (toks "IF".toList ++ (toks "(".toList ++ (toks pre' ++
      (toks ")".toList ++ (toks "THEN".toList ++ toks (lstrip ((lstrip post).drop 4))))))) := by
    rw [hkw1, ← toks_lstrip (s.drop _), hkw2, ← toks_lstrip ((lstrip (s.drop _)).drop _), htext,
      List.cons_append, e1, e2]
    simp only [toks_append, ← hkw3, toks_lstrip]
  simp only [List.drop_succ_cons, List.drop_zero] at hp
  have k1 : toks "ELSE IF (".toList = toks "ELSE".toList ++ (toks "IF".toList ++ toks "(".toList) := by
    decide
  have n1 : net "ELSE IF (".toList = 1 := by decide
  split at hp
  · cases hp
    obtain ⟨i, is, rfl, hi, his⟩ := runSlots_cons_ok hr
    obtain ⟨j, js, rfl, hj, hjs⟩ := runSlots_cons_ok his
    have := runSlots_nil_ok hjs; subst this
    have hi' := toks_item_of_child ho hi
    have hj' := toks_item_of_child ho hj
    obtain ⟨n, rfl, _⟩ := runSlot_child_ok hi
    obtain ⟨n2, rfl, _⟩ := runSlot_child_ok hj
    refine ⟨_, rfl, ?_, ?_⟩
    · rw [hS]
      have k2 : toks ") THEN ".toList = toks ")".toList ++ toks "THEN".toList := by decide
      simp only [toks_append, k1, k2, hi', hj', toks_strip, List.append_assoc]
    · intro hb
      have h1 := hb (.node n) (by simp)
      have h2 := hb (.node n2) (by simp)
      have n2 : net ") THEN ".toList = -1 := by decide
      simp only [net_append, n1, n2, h1, h2]
      omega
  · rename_i hemp
    cases hp
    obtain ⟨i, is, rfl, hi, his⟩ := runSlots_cons_ok hr
    obtain ⟨j, js, rfl, hj, hjs⟩ := runSlots_cons_ok his
    have := runSlots_nil_ok hjs; subst this
    have hi' := toks_item_of_child ho hi
    have := runSlot_none_ok hj; subst this
    obtain ⟨n, rfl, _⟩ := runSlot_child_ok hi
    refine ⟨_, rfl, ?_, ?_⟩
    · have hE : lstrip ((lstrip post).drop 4) = [] := by simpa using hemp
      rw [hS, hE, toks_nil]
      have k2 : toks ") THEN".toList = toks ")".toList ++ toks "THEN".toList := by decide
      simp only [toks_append, k1, k2, hi', toks_strip, List.append_assoc, List.append_nil]
    · intro hb
      have h1 := hb (.node n) (by simp)
      have n2 : net ") THEN".toList = -1 := by decide
      simp only [net_append, n1, n2, h1]
      omega

/-! ## Select_Case_Stmt -/

theorem selectCase_tostr_match_tokens (o : Oracle Node) (ho : OracleTok o) (s : Str)
    (items : List (Item Node)) (hm : (planSelectCase s).bind (runSlots o) = .ok items) :
    ∃ t, tostrSelectCase o items = .ok t ∧ toks t = toks s ∧
      ((∀ i ∈ items, net (i.text o) = 0) → net t = 0) := by
  obtain ⟨slots, hp, hr⟩ := Res.bind_eq_ok hm
  unfold planSelectCase at hp
  split at hp
  · cases hp
  rename_i hkw
  have hkw1 : toks s = toks "SELECT".toList ++ toks (s.drop 6) :=
    toks_of_kwIs (kwIs_of_not (by simpa using hkw))
  dsimp only at hp
  split at hp
  · cases hp
  rename_i hkw
  have hkw2 : toks (lstrip (s.drop 6)) = toks "CASE".toList ++ toks ((lstrip (s.drop 6)).drop 4) :=
    toks_of_kwIs (kwIs_of_not (by simpa using hkw))
  split at hp
  · rename_i h l hh hl
    split at hp
    · cases hp
    rename_i hcond
    have hc : h = '(' ∧ l = ')' := by simpa using hcond
    obtain ⟨rfl, rfl⟩ := hc
    cases hp
    obtain ⟨i, is, rfl, hi, his⟩ := runSlots_cons_ok hr
    have := runSlots_nil_ok his; subst this
    have hi' := toks_item_of_child ho hi
    obtain ⟨n, rfl, _⟩ := runSlot_child_ok hi
    have hline := toks_paren_shape hh hl
    rw [toks_lstrip] at hline
    refine ⟨_, rfl, ?_, ?_⟩
    · rw [hkw1, ← toks_lstrip (s.drop 6), hkw2, hline]
      have k1 : toks "SELECT CASE (".toList =
          toks "SELECT".toList ++ (toks "CASE".toList ++ toks "(".toList) := by decide
      simp only [toks_append, k1, hi', List.append_assoc]
    · intro hb
      have := hb (.node n) (by simp)
      have k1 : net "SELECT CASE (".toList = 1 := by decide
      simp only [net_append, k1, net_lit_rparen, this]
      omega
  · cases hp

/-! ## Case_Selector -/

theorem caseSelector_tostr_match_tokens (o : Oracle Node) (ho : OracleTok o) (s : Str)
    (items : List (Item Node)) (hm : (planCaseSelector s).bind (runSlots o) = .ok items) :
    ∃ t, tostrCaseSelector o items = .ok t ∧ toks t = toks s ∧
      ((∀ i ∈ items, net (i.text o) = 0) → net t = 0) := by
  obtain ⟨slots, hp, hr⟩ := Res.bind_eq_ok hm
  unfold planCaseSelector at hp
  split at hp
  · rename_i hd
    have hd' : upper s = "DEFAULT".toList := by
      have := hd
      simp only [Bool.and_eq_true, beq_iff_eq] at this
      exact this.2
    cases hp
    obtain ⟨i, is, rfl, hi, his⟩ := runSlots_cons_ok hr
    have := runSlots_nil_ok his; subst this
    have := runSlot_none_ok hi; subst this
    refine ⟨_, rfl, ?_, ?_⟩
    · rw [← toks_upper s, hd']
    · intro _; decide
  split at hp
  · cases hp
  rename_i hcond
  have hc : s.head? = some '(' ∧ s.getLast? = some ')' := by simpa [startsC, endsC] using hcond
  cases hp
  obtain ⟨i, is, rfl, hi, his⟩ := runSlots_cons_ok hr
  have := runSlots_nil_ok his; subst this
  have hi' := toks_item_of_child ho hi
  obtain ⟨n, rfl, _⟩ := runSlot_child_ok hi
  refine ⟨_, rfl, ?_, ?_⟩
  · rw [toks_paren_shape hc.1 hc.2]
    simp only [toks_append, hi', List.append_assoc]
  · intro hb
    have := hb (.node n) (by simp)
    simp only [net_append, net_lit_lparen, net_lit_rparen, this]
    omega

/-! ## Label_Do_Stmt -/

theorem labelPrefix_prefix (l : Str) : labelPrefix l ++ l.drop (labelPrefix l).length = l := by
  have h : labelPrefix l <+: l :=
    List.IsPrefix.trans (List.take_prefix _ _) (List.takeWhile_prefix _)
  have := List.prefix_iff_eq_take.mp h
  conv => lhs; lhs; rw [this]
  exact List.take_append_drop _ _

theorem labelDo_tostr_match_tokens (o : Oracle Node) (ho : OracleTok o) (s : Str)
    (items : List (Item Node)) (hm : (planLabelDo s).bind (runSlots o) = .ok items) :
    ∃ t, tostrLabelDo o items = .ok t ∧ toks t = toks s ∧
      ((∀ i ∈ items, net (i.text o) = 0) → net t = 0) := by
  obtain ⟨slots, hp, hr⟩ := Res.bind_eq_ok hm
  unfold planLabelDo at hp
  split at hp
  · cases hp
  rename_i hkw
  have hkw1 : toks s = toks "DO".toList ++ toks (s.drop 2) :=
    toks_of_kwIs (kwIs_of_not (by simpa using hkw))
  dsimp only at hp
  split at hp
  · cases hp
  have hS : toks s = toks "DO".toList ++ (toks (labelPrefix (lstrip (s.drop 2))) ++
      toks (lstrip ((lstrip (s.drop 2)).drop (labelPrefix (lstrip (s.drop 2))).length))) := by
    rw [hkw1, ← toks_lstrip (s.drop 2)]
    conv => lhs; rhs; rw [← labelPrefix_prefix (lstrip (s.drop 2))]
    simp only [toks_append, toks_lstrip]
  have e1 : ∀ X : Str, ' ' :: X = " ".toList ++ X := fun _ => rfl
  have k1 : toks "DO ".toList = toks "DO".toList := by decide
  have k2 : toks " ".toList = [] := by decide
  have n1 : net "DO ".toList = 0 := by decide
  have n2 : net " ".toList = 0 := by decide
  split at hp
  · cases hp
    obtain ⟨i, is, rfl, hi, his⟩ := runSlots_cons_ok hr
    obtain ⟨j, js, rfl, hj, hjs⟩ := runSlots_cons_ok his
    obtain ⟨k, ks, rfl, hk, hks⟩ := runSlots_cons_ok hjs
    have := runSlots_nil_ok hks; subst this
    have := runSlot_none_ok hi; subst this
    have hj' := toks_item_of_child ho hj
    have hk' := toks_item_of_child ho hk
    obtain ⟨n, rfl, _⟩ := runSlot_child_ok hj
    obtain ⟨n2', rfl, _⟩ := runSlot_child_ok hk
    refine ⟨_, rfl, ?_, ?_⟩
    · rw [hS, e1]
      simp only [toks_append, k1, k2, hj', hk', List.append_assoc, List.nil_append]
    · intro hb
      have h1 := hb (.node n) (by simp)
      have h2 := hb (.node n2') (by simp)
      rw [e1]
      simp only [net_append, n1, n2, h1, h2]
      omega
  · rename_i hemp
    cases hp
    obtain ⟨i, is, rfl, hi, his⟩ := runSlots_cons_ok hr
    obtain ⟨j, js, rfl, hj, hjs⟩ := runSlots_cons_ok his
    obtain ⟨k, ks, rfl, hk, hks⟩ := runSlots_cons_ok hjs
    have := runSlots_nil_ok hks; subst this
    have := runSlot_none_ok hi; subst this
    have := runSlot_none_ok hk; subst this
    have hj' := toks_item_of_child ho hj
    obtain ⟨n, rfl, _⟩ := runSlot_child_ok hj
    refine ⟨_, rfl, ?_, ?_⟩
    · have hE : lstrip ((lstrip (s.drop 2)).drop (labelPrefix (lstrip (s.drop 2))).length) = [] := by
        simpa using hemp
      rw [hS, hE, toks_nil]
      simp only [toks_append, k1, hj', List.append_nil]
    · intro hb
      have h1 := hb (.node n) (by simp)
      simp only [net_append, n1, h1]
      omega

/-! ## helpers for the classes that go through `string_replace_map` -/

theorem stripPrefix?_short : ∀ (p s : Str), s.length < p.length → stripPrefix? p s = none
  | [], s, h => by simp at h
  | _ :: _, [], _ => rfl
  | p :: ps, c :: cs, h => by
    unfold stripPrefix?
    split
    · exact stripPrefix?_short ps cs (by simpa using h)
    · rfl

theorem matchKey_short (s : Str) (h : s.length < 16) : matchKey s = none := by
  have h1 : stripPrefix? strPrefix s = none := stripPrefix?_short _ _ (by simp [strPrefix]; omega)
  have h2 : stripPrefix? realPrefix s = none := stripPrefix?_short _ _ (by simp [realPrefix]; omega)
  have h3 : stripPrefix? exprPrefix s = none := stripPrefix?_short _ _ (by simp [exprPrefix]; omega)
  simp [matchKey, matchNumbered, h1, h2, h3]

theorem keyFindAllAux_short : ∀ (fuel : Nat) (s : Str), s.length < 16 → keyFindAllAux fuel s = []
  | 0, _, _ => rfl
  | _ + 1, [], _ => rfl
  | fuel + 1, c :: cs, h => by
    unfold keyFindAllAux
    rw [matchKey_short _ h]
    exact keyFindAllAux_short fuel cs (by simp at h; omega)

/-- a text shorter than the shortest placeholder key is not changed by `repmap` -/
theorem applyMap_short (m : Map) (w : Str) (h : w.length < 16) : applyMap m w = w := by
  unfold applyMap keyFindAll
  rw [keyFindAllAux_short _ w h]
  rfl

theorem alpha_of_upperC {c k : Char} (hk : isAlpha k = true) (h : upperC c = k) : isAlpha c = true := by
  unfold upperC at h
  split at h
  · rename_i hc
    simp only [isAlpha, Char.isAlpha, Char.isLower, Bool.or_eq_true, Bool.and_eq_true, decide_eq_true_eq]
    exact .inr hc
  · rw [h]; exact hk

theorem alpha_of_upper {p kw : Str} (hk : ∀ c ∈ kw, isAlpha c = true) (h : upper p = kw) :
    ∀ c ∈ p, isAlpha c = true := by
  intro c hc
  exact alpha_of_upperC (hk (upperC c) (by rw [← h]; exact List.mem_map_of_mem hc)) rfl

/-- `KW [blanks] ( pre' ) post` as a token text: the pieces, and the tokens of the expansion -/
theorem seg_kw_paren {m : Map} {X kwp w pre' post : Str} (hseg : Seg m X)
    (hX : X = (kwp ++ w) ++ '(' :: (pre' ++ ')' :: post)) (hw : ∀ c ∈ w, isSpace c = true)
    (hshort : kwp.length < 16) :
    Seg m pre' ∧ Seg m post ∧
      toks (applyMap m X) = toks kwp ++ (toks "(".toList ++ (toks (applyMap m pre') ++
        (toks ")".toList ++ toks (applyMap m post)))) := by
  subst hX
  obtain ⟨s1, s2, e1⟩ := Seg.sep isWord_lparen hseg
  obtain ⟨s3, s4, e2⟩ := Seg.sep isWord_rparen s2
  obtain ⟨s5, e3⟩ := Seg.dropBlanksRight hw s1
  refine ⟨s3, s4, ?_⟩
  have a1 : ∀ Y : Str, '(' :: Y = "(".toList ++ Y := fun _ => rfl
  have a2 : ∀ Y : Str, ')' :: Y = ")".toList ++ Y := fun _ => rfl
  rw [e1, e2, a1, a2]
  simp only [toks_append]
  rw [← toks_of_noBlank e3, applyMap_short m kwp hshort]

/-! ## Loop_Control -/

/-- the text handed to `string_replace_map` by `Loop_Control.match` -/
def loopLine (s : Str) : Str :=
  let line0 := lrstrip s
  if startsC ',' line0 then lstrip (line0.drop 1) else line0

/-- the tokens of the optional leading comma -/
def dtoks (d : Bool) : Str := if d then ",".toList else []

theorem toks_lrstrip (s : Str) : toks (lrstrip s) = toks s := by
  unfold lrstrip; rw [toks_rstrip, toks_lstrip]

theorem toks_dropComma (l : Str) :
    toks l = dtoks (startsC ',' l) ++ toks (if startsC ',' l then lstrip (l.drop 1) else l) := by
  cases hd : startsC ',' l with
  | false => simp [dtoks]
  | true =>
    obtain ⟨t, ht⟩ := startsC_cons hd
    subst ht
    simp only [dtoks, if_true, List.drop_succ_cons, List.drop_zero, toks_lstrip]
    rw [toks_cons]; rfl

theorem toks_loopLine (s : Str) : toks s = dtoks (startsC ',' (lrstrip s)) ++ toks (loopLine s) := by
  rw [← toks_lrstrip s, toks_dropComma (lrstrip s)]; rfl

theorem toks_joinStr_ctl (sep : Str) : ∀ l : List Str,
    toks (Combi.joinStr sep l) = Combi.joinStr (toks sep) (l.map toks)
  | [] => rfl
  | [_] => rfl
  | a :: b :: rest => by
    simp only [Combi.joinStr, List.map_cons, toks_append, toks_joinStr_ctl sep (b :: rest)]

theorem toks_joinStr_congr (sep : Str) (l : List Str) (f g : Str → Str)
    (h : ∀ p ∈ l, toks (f p) = toks (g p)) :
    toks (Combi.joinStr sep (l.map f)) = toks (Combi.joinStr sep (l.map g)) := by
  rw [toks_joinStr_ctl, toks_joinStr_ctl, List.map_map, List.map_map]
  congr 1
  exact List.map_congr_left (fun p hp => h p hp)

theorem planLoop03_shape (s : Str) (slots : List Slot) (hp : planLoopControl03 s = .ok slots)
    (hs : SrmOK (loopLine s)) :
    (∃ cond, slots = [.child C.Scalar_Logical_Expr cond, .none, delimSlot (startsC ',' (lrstrip s))] ∧
      toks (loopLine s) = toks "WHILE(".toList ++ (toks cond ++ toks ")".toList)) ∨
    (∃ var es, slots = .none :: .child C.Do_Variable var ::
        (es.map fun e => Slot.child C.Scalar_Int_Expr e) ++ [delimSlot (startsC ',' (lrstrip s))] ∧
      (es.length = 2 ∨ es.length = 3) ∧
      toks (loopLine s) = toks var ++ (toks "=".toList ++ toks (Combi.joinStr ",".toList es))) := by
  unfold planLoopControl03 at hp
  dsimp only at hp
  obtain ⟨r, htok, hp⟩ := Res.bind_eq_ok hp
  have htk := tok_ok htok
  obtain ⟨hseg, hexp⟩ := seg_of_tokenise hs htk
  have hL : toks (loopLine s) = toks (applyMap r.map r.text) := (toks_of_noBlank hexp).symm
  split at hp
  · rename_i cond heq
    cases hp
    split at heq
    · rename_i hc
      have hc' : kwIs "WHILE".toList r.text = true ∧ startsC '(' (lstrip (r.text.drop 5)) = true := by
        simpa using hc
      split at heq
      · rename_i pre hcut
        cases heq
        obtain ⟨htext, _⟩ := Combi.cutFirst_spec _ _ _ hcut
        obtain ⟨pre', rfl⟩ := head_of_append_cons (c := '(') (d := ')') (by decide)
          (by simpa [startsC] using hc'.2) htext
        obtain ⟨w, hw1, hw2⟩ := Combi.lstrip_decomp (r.text.drop 5)
        have hX : r.text = (r.text.take 5 ++ w) ++ '(' :: (pre' ++ ')' :: []) := by
          conv => lhs; rw [← List.take_append_drop 5 r.text, hw1, htext]
          simp
        obtain ⟨s1, _, e⟩ := seg_kw_paren hseg hX hw2 (by simp; omega)
        left
        refine ⟨_, rfl, ?_⟩
        have a1 : toks (r.text.take 5) = toks "WHILE".toList := by
          rw [← toks_upper]
          have : upper (r.text.take 5) = "WHILE".toList := by simpa [kwIs] using hc'.1
          rw [this]
        have a2 : toks (applyMap r.map (strip (List.drop 1 ('(' :: pre')))) = toks (applyMap r.map pre') :=
          toks_of_noBlank (Seg.strip s1).2
        have k : toks "WHILE(".toList = toks "WHILE".toList ++ toks "(".toList := by decide
        rw [hL, e, applyMap_empty, toks_nil, a1, a2, k]
        simp only [List.append_assoc, List.append_nil]
      · cases heq
    · cases heq
  · split at hp
    · cases hp
    split at hp
    · cases hp
    rename_i var rhs hcut
    split at hp
    · cases hp
    rename_i hlen
    cases hp
    obtain ⟨htext, _⟩ := Combi.cutFirst_spec _ _ _ hcut
    rw [htext] at hseg hL
    obtain ⟨sv, sr, e⟩ := Seg.sep isWord_eq hseg
    obtain ⟨sr', er⟩ := Seg.lstrip sr
    obtain ⟨sp, ej⟩ := Seg.splitC isWord_comma sr'
    right
    refine ⟨applyMap r.map (rstrip var), ((splitC ',' (lstrip rhs)).map strip).map (applyMap r.map),
      ?_, ?_, ?_⟩
    · simp [List.map_map]
    · have : 2 ≤ ((splitC ',' (lstrip rhs)).map strip).length ∧
          ((splitC ',' (lstrip rhs)).map strip).length ≤ 3 := by simpa using hlen
      simp only [List.length_map] at this ⊢
      omega
    · have a1 : toks (applyMap r.map (rstrip var)) = toks (applyMap r.map var) :=
        toks_of_noBlank (Seg.rstrip sv).2
      have a2 : toks (applyMap r.map rhs) = toks (applyMap r.map (lstrip rhs)) :=
        (toks_of_noBlank er).symm
      have e1 : ∀ X : Str, '=' :: X = "=".toList ++ X := fun _ => rfl
      rw [hL, e, e1]
      simp only [toks_append]
      rw [a1, a2, ej, List.map_map]
      congr 2
      exact (toks_joinStr_congr ",".toList _ _ _
        (fun p hp => toks_of_noBlank (Seg.strip (sp p hp)).2)).symm

/-- what is appended to the slots by the F2008 override (`result + (None,)`) -/
def loopExtra : Std → List Slot
  | .f2003 => []
  | .f2008 => [.none]

def withD (d : Bool) (t : Str) : Str := if d then ",".toList ++ ' ' :: t else t

theorem toks_withD (d : Bool) (t : Str) : toks (withD d t) = dtoks d ++ toks t := by
  cases d
  · rfl
  · have e1 : ∀ X : Str, ' ' :: X = " ".toList ++ X := fun _ => rfl
    simp only [withD, dtoks, if_true, e1, toks_append]
    rfl

theorem net_withD (d : Bool) (t : Str) : net (withD d t) = net t := by
  cases d
  · rfl
  · have e1 : ∀ X : Str, ' ' :: X = " ".toList ++ X := fun _ => rfl
    have n1 : net ",".toList = 0 := by decide
    have n2 : net " ".toList = 0 := by decide
    simp only [withD, if_true, e1, net_append, n1, n2]
    omega

def delimItem (d : Bool) : Item Node := if d then .str ",".toList else .none

theorem runSlot_delim {o : Oracle Node} {d : Bool} {i : Item Node}
    (h : runSlot o (delimSlot d) = .ok i) : i = delimItem d := by
  cases d <;> cases h <;> rfl

theorem counter_fin (o : Oracle Node) (d : Bool) (v : Node) (ns : List Node) (var : Str) (es : List Str)
    (hv : toks (o.str v) = toks var) (hes : (ns.map o.str).map toks = es.map toks) :
    toks (withD d (o.str v ++ " = ".toList ++ Combi.joinStr ", ".toList (ns.map o.str))) =
        dtoks d ++ (toks var ++ (toks "=".toList ++ toks (Combi.joinStr ",".toList es))) ∧
      (net (o.str v) = 0 → net (Combi.joinStr ", ".toList (ns.map o.str)) = 0 →
        net (withD d (o.str v ++ " = ".toList ++ Combi.joinStr ", ".toList (ns.map o.str))) = 0) := by
  constructor
  · have k1 : toks " = ".toList = toks "=".toList := by decide
    have k2 : toks ", ".toList = toks ",".toList := by decide
    rw [toks_withD]
    simp only [toks_append, toks_joinStr_ctl, hv, hes, k1, k2, List.append_assoc]
  · intro h1 h2
    have n1 : net " = ".toList = 0 := by decide
    rw [net_withD]
    simp only [net_append, n1, h1, h2]
    omega

theorem loop03_core (std : Std) (o : Oracle Node) (ho : OracleTok o) (s : Str) (slots : List Slot)
    (hp : planLoopControl03 s = .ok slots) (hs : SrmOK (loopLine s)) (its : List (Item Node))
    (hr : runSlots o (slots ++ loopExtra std) = .ok its) :
    ∃ t, tostrLoopControl std o (groupLoop (loopTail std) its) = .ok t ∧ toks t = toks s ∧
      ((∀ i ∈ groupLoop (loopTail std) its, net (i.text o) = 0) → net t = 0) := by
  rw [toks_loopLine s]
  rcases planLoop03_shape s slots hp hs with ⟨cond, rfl, hT⟩ | ⟨var, es, rfl, hlen, hT⟩
  · rw [hT]
    generalize startsC ',' (lrstrip s) = d at *
    have k : toks "WHILE (".toList = toks "WHILE(".toList := by decide
    have n1 : net "WHILE (".toList = 1 := by decide
    cases std <;>
    · simp only [loopExtra, List.cons_append, List.nil_append] at hr
      obtain ⟨i1, is1, rfl, h1, hr⟩ := runSlots_cons_ok hr
      obtain ⟨i2, is2, rfl, h2, hr⟩ := runSlots_cons_ok hr
      obtain ⟨i3, is3, rfl, h3, hr⟩ := runSlots_cons_ok hr
      first
        | (have := runSlots_nil_ok hr; subst this)
        | (obtain ⟨i4, is4, rfl, h4, hr⟩ := runSlots_cons_ok hr
           have := runSlots_nil_ok hr; subst this
           have := runSlot_none_ok h4; subst this)
      have h1' := toks_item_of_child ho h1
      obtain ⟨n, rfl, _⟩ := runSlot_child_ok h1
      have := runSlot_none_ok h2; subst this
      have := runSlot_delim h3; subst this
      simp only [Item.text] at h1'
      refine ⟨withD d ("WHILE (".toList ++ o.str n ++ ")".toList), by cases d <;> rfl, ?_, ?_⟩
      · rw [toks_withD]
        simp only [toks_append, k, h1', List.append_assoc]
      · intro hb
        have : net (o.str n) = 0 := hb (.node n) (List.mem_cons_self ..)
        rw [net_withD]
        simp only [net_append, n1, net_lit_rparen, this]
        omega
  · rw [hT]
    generalize startsC ',' (lrstrip s) = d at *
    have hes : (∃ a b, es = [a, b]) ∨ (∃ a b c, es = [a, b, c]) := by
      rcases hlen with h | h
      · left
        match es, h with
        | [a, b], _ => exact ⟨a, b, rfl⟩
      · right
        match es, h with
        | [a, b, c], _ => exact ⟨a, b, c, rfl⟩
    rcases hes with ⟨a, b, rfl⟩ | ⟨a, b, c, rfl⟩
    · cases std <;>
      · simp only [loopExtra, List.map_cons, List.map_nil, List.cons_append, List.nil_append] at hr
        obtain ⟨i1, is1, rfl, h1, hr⟩ := runSlots_cons_ok hr
        obtain ⟨i2, is2, rfl, h2, hr⟩ := runSlots_cons_ok hr
        obtain ⟨i3, is3, rfl, h3, hr⟩ := runSlots_cons_ok hr
        obtain ⟨i4, is4, rfl, h4, hr⟩ := runSlots_cons_ok hr
        obtain ⟨i5, is5, rfl, h5, hr⟩ := runSlots_cons_ok hr
        first
          | (have := runSlots_nil_ok hr; subst this)
          | (obtain ⟨i6, is6, rfl, h6, hr⟩ := runSlots_cons_ok hr
             have := runSlots_nil_ok hr; subst this
             have := runSlot_none_ok h6; subst this)
        have := runSlot_none_ok h1; subst this
        have h2' := toks_item_of_child ho h2
        have h3' := toks_item_of_child ho h3
        have h4' := toks_item_of_child ho h4
        obtain ⟨v, rfl, _⟩ := runSlot_child_ok h2
        obtain ⟨n1, rfl, _⟩ := runSlot_child_ok h3
        obtain ⟨n2, rfl, _⟩ := runSlot_child_ok h4
        have := runSlot_delim h5; subst this
        simp only [Item.text] at h2' h3' h4'
        have fin := counter_fin o d v [n1, n2] var [a, b] h2' (by simp [h3', h4'])
        refine ⟨withD d (o.str v ++ " = ".toList ++ Combi.joinStr ", ".toList ([n1, n2].map o.str)),
          by cases d <;> rfl, fin.1, fun hb => fin.2 (hb (.node v) ?_) (hb (.nodes [n1, n2]) ?_)⟩
        · exact List.mem_cons_of_mem _ (List.mem_cons_self ..)
        · exact List.mem_cons_of_mem _ (List.mem_cons_of_mem _ (List.mem_cons_self ..))
    · cases std <;>
      · simp only [loopExtra, List.map_cons, List.map_nil, List.cons_append, List.nil_append] at hr
        obtain ⟨i1, is1, rfl, h1, hr⟩ := runSlots_cons_ok hr
        obtain ⟨i2, is2, rfl, h2, hr⟩ := runSlots_cons_ok hr
        obtain ⟨i3, is3, rfl, h3, hr⟩ := runSlots_cons_ok hr
        obtain ⟨i4, is4, rfl, h4, hr⟩ := runSlots_cons_ok hr
        obtain ⟨i4b, is4b, rfl, h4b, hr⟩ := runSlots_cons_ok hr
        obtain ⟨i5, is5, rfl, h5, hr⟩ := runSlots_cons_ok hr
        first
          | (have := runSlots_nil_ok hr; subst this)
          | (obtain ⟨i6, is6, rfl, h6, hr⟩ := runSlots_cons_ok hr
             have := runSlots_nil_ok hr; subst this
             have := runSlot_none_ok h6; subst this)
        have := runSlot_none_ok h1; subst this
        have h2' := toks_item_of_child ho h2
        have h3' := toks_item_of_child ho h3
        have h4' := toks_item_of_child ho h4
        have h4b' := toks_item_of_child ho h4b
        obtain ⟨v, rfl, _⟩ := runSlot_child_ok h2
        obtain ⟨n1, rfl, _⟩ := runSlot_child_ok h3
        obtain ⟨n2, rfl, _⟩ := runSlot_child_ok h4
        obtain ⟨n3, rfl, _⟩ := runSlot_child_ok h4b
        have := runSlot_delim h5; subst this
        simp only [Item.text] at h2' h3' h4' h4b'
        have fin := counter_fin o d v [n1, n2, n3] var [a, b, c] h2' (by simp [h3', h4', h4b'])
        refine ⟨withD d (o.str v ++ " = ".toList ++ Combi.joinStr ", ".toList ([n1, n2, n3].map o.str)),
          by cases d <;> rfl, fin.1, fun hb => fin.2 (hb (.node v) ?_) (hb (.nodes [n1, n2, n3]) ?_)⟩
        · exact List.mem_cons_of_mem _ (List.mem_cons_self ..)
        · exact List.mem_cons_of_mem _ (List.mem_cons_of_mem _ (List.mem_cons_self ..))

theorem concurrent_core (o : Oracle Node) (ho : OracleTok o) (s : Str) (slots : List Slot)
    (hp : planConcurrent s = .ok slots) (its : List (Item Node)) (hr : runSlots o slots = .ok its) :
    ∃ t, tostrLoopControl .f2008 o (groupLoop (loopTail .f2008) its) = .ok t ∧ toks t = toks s ∧
      ((∀ i ∈ groupLoop (loopTail .f2008) its, net (i.text o) = 0) → net t = 0) := by
  unfold planConcurrent at hp
  dsimp only at hp
  have hS0 := toks_dropComma (lstrip s)
  rw [toks_lstrip] at hS0
  generalize (if startsC ',' (lstrip s) then lstrip ((lstrip s).drop 1) else lstrip s) = line at hp hS0
  split at hp
  · cases hp
  rename_i hkw
  have hkw1 : toks line = toks "CONCURRENT".toList ++ toks (line.drop 10) :=
    toks_of_kwIs (kwIs_of_not (by simpa using hkw))
  have hS : toks s = dtoks (startsC ',' (lstrip s)) ++ (toks "CONCURRENT".toList ++
      toks (line.drop 10)) := by
    rw [hS0, hkw1]
  cases hp
  generalize startsC ',' (lstrip s) = d at *
  obtain ⟨i1, is1, rfl, h1, hr⟩ := runSlots_cons_ok hr
  obtain ⟨i2, is2, rfl, h2, hr⟩ := runSlots_cons_ok hr
  obtain ⟨i3, is3, rfl, h3, hr⟩ := runSlots_cons_ok hr
  obtain ⟨i4, is4, rfl, h4, hr⟩ := runSlots_cons_ok hr
  have := runSlots_nil_ok hr; subst this
  have := runSlot_none_ok h1; subst this
  have := runSlot_none_ok h2; subst this
  have := runSlot_delim h3; subst this
  have h4' := toks_item_of_child ho h4
  obtain ⟨n, rfl, _⟩ := runSlot_child_ok h4
  simp only [Item.text] at h4'
  refine ⟨withD d ("CONCURRENT ".toList ++ o.str n), by cases d <;> rfl, ?_, ?_⟩
  · have k : toks "CONCURRENT ".toList = toks "CONCURRENT".toList := by decide
    rw [toks_withD, hS]
    simp only [toks_append, k, h4', toks_rstrip, toks_lstrip]
  · intro hb
    have : net (o.str n) = 0 := hb (.node n)
      (List.mem_cons_of_mem _ (List.mem_cons_of_mem _ (List.mem_cons_of_mem _ (List.mem_cons_self ..))))
    have n1 : net "CONCURRENT ".toList = 0 := by decide
    rw [net_withD]
    simp only [net_append, n1, this]
    omega

/-- **Loop_Control** (`[,] WHILE (cond)`, `[,] var = e1, e2 [, e3]`, F2008 `[,] CONCURRENT header`):
    the printed text has exactly the tokens of the input, the optional leading comma included -/
theorem loopControl_tostr_match_tokens (std : Std) (o : Oracle Node) (ho : OracleTok o) (s : Str)
    (items : List (Item Node))
    (hm : ((planLoopControl std s).bind (runSlots o)).map (groupLoop (loopTail std)) = .ok items)
    (hs : SrmOK (let line0 := lrstrip s; if startsC ',' line0 then lstrip (line0.drop 1) else line0)) :
    ∃ t, tostrLoopControl std o items = .ok t ∧ toks t = toks s ∧
      ((∀ i ∈ items, net (i.text o) = 0) → net t = 0) := by
  obtain ⟨its, hb, rfl⟩ := Res.map_eq_ok hm
  obtain ⟨slots, hp, hr⟩ := Res.bind_eq_ok hb
  cases std
  · exact loop03_core .f2003 o ho s slots hp hs its (by simpa [loopExtra] using hr)
  · unfold planLoopControl at hp
    dsimp only at hp
    split at hp
    · rename_i slots' h03
      cases hp
      exact loop03_core .f2008 o ho s slots' h03 hs its hr
    · cases hp
    · exact concurrent_core o ho s slots hp its hr

/-! ## If_Stmt -/

/-- **If_Stmt**: `IF (expr) action-stmt` — the condition and the WHOLE text after its closing
    parenthesis are printed -/
theorem if_tostr_match_tokens (std : Std) (o : Oracle Node) (ho : OracleTok o) (s : Str)
    (items : List (Item Node)) (hm : (planIf std s).bind (runSlots o) = .ok items)
    (hs : SrmOK s) :
    ∃ t, tostrIf o items = .ok t ∧ toks t = toks s ∧
      ((∀ i ∈ items, net (i.text o) = 0) → net t = 0) := by
  obtain ⟨slots, hp, hr⟩ := Res.bind_eq_ok hm
  unfold planIf at hp
  split at hp
  · cases hp
  rename_i hkw
  have hkw' : kwIs "IF".toList s = true := kwIs_of_not (by simpa using hkw)
  have hup : upper (s.take 2) = "IF".toList := by simpa [kwIs] using hkw'
  obtain ⟨r, htok, hp⟩ := Res.bind_eq_ok hp
  have htk := tok_ok htok
  obtain ⟨hseg, hexp⟩ := seg_of_tokenise hs htk
  have hL : toks s = toks (applyMap r.map r.text) := (toks_of_noBlank hexp).symm
  obtain ⟨rest', hX⟩ := srm_prefix_alpha htk (s.take 2) (s.drop 2) (List.take_append_drop 2 s).symm
    (alpha_of_upper (kw := "IF".toList) (by decide) hup)
  have hlen : (s.take 2).length = 2 := by
    have := congrArg List.length hup
    simpa [upper] using this
  have hdrop : r.text.drop 2 = rest' := by rw [hX, List.drop_left' hlen]
  dsimp only at hp
  rw [hdrop] at hp
  split at hp
  · cases hp
  rename_i hst
  split at hp
  · cases hp
  rename_i pre post hcut
  cases hp
  obtain ⟨htext, _⟩ := Combi.cutFirst_spec _ _ _ hcut
  obtain ⟨pre', rfl⟩ := head_of_append_cons (c := '(') (d := ')') (by decide)
    (by simpa [startsC] using hst) htext
  obtain ⟨w, hw1, hw2⟩ := Combi.lstrip_decomp rest'
  have hX' : r.text = (s.take 2 ++ w) ++ '(' :: (pre' ++ ')' :: post) := by
    rw [hX, hw1, htext]; simp
  obtain ⟨s1, s2, e⟩ := seg_kw_paren hseg hX' hw2 (by rw [hlen]; omega)
  obtain ⟨i, is, rfl, hi, his⟩ := runSlots_cons_ok hr
  obtain ⟨j, js, rfl, hj, hjs⟩ := runSlots_cons_ok his
  have := runSlots_nil_ok hjs; subst this
  have hi' := toks_item_of_child ho hi
  have hj' := toks_item_of_child ho hj
  obtain ⟨n, rfl, _⟩ := runSlot_child_ok hi
  obtain ⟨n2, rfl, _⟩ := runSlot_child_ok hj
  have a0 : toks (s.take 2) = toks "IF".toList := by rw [← toks_upper, hup]
  have a1 : toks (applyMap r.map (strip (List.drop 1 ('(' :: pre')))) = toks (applyMap r.map pre') :=
    toks_of_noBlank (Seg.strip s1).2
  have a2 : toks (applyMap r.map (lstrip post)) = toks (applyMap r.map post) :=
    toks_of_noBlank (Seg.lstrip s2).2
  refine ⟨_, rfl, ?_, ?_⟩
  · have k1 : toks "IF (".toList = toks "IF".toList ++ toks "(".toList := by decide
    have k2 : toks ") ".toList = toks ")".toList := by decide
    rw [hL, e, a0]
    simp only [toks_append, k1, k2, hi', hj', a1, a2, List.append_assoc]
  · intro hb
    have h1 := hb (.node n) (by simp)
    have h2 := hb (.node n2) (by simp)
    have n1 : net "IF (".toList = 1 := by decide
    have n2 : net ") ".toList = -1 := by decide
    simp only [net_append, n1, n2, h1, h2]
    omega

/-! ## cutting a token text inside a word (`line[:7]` of `CASE DEFAULTname`) -/

/-- no placeholder key can begin inside `A` and end beyond it -/
def NoKeyCut (A : Str) : Prop :=
  ∀ y x c', A = y ++ x → x ≠ [] → c' ≠ [] → ¬ IsKey (x ++ c')

theorem NoKeyCut.dropLeft {s a : Str} (h : NoKeyCut (s ++ a)) : NoKeyCut a := by
  intro y x c' e
  exact h (s ++ y) x c' (by rw [e]; simp)

/-- `split_core` of IoStmtSeg.lean with the boundary condition `Bnd` replaced by `NoKeyCut` -/
theorem split_core' {m : Map} {B : Str} (ts : List Tok) : ∀ (A : Str), rawJoin ts = A ++ B →
    WFk m ts → NoKeyCut A →
    ∃ ts1 ts2, rawJoin ts1 = A ∧ rawJoin ts2 = B ∧ WFk m ts1 ∧ WFk m ts2 ∧
      valJoin ts = valJoin ts1 ++ valJoin ts2 := by
  induction ts with
  | nil =>
    intro A h _ _
    have h' : A = [] ∧ B = [] := by simpa using h.symm
    exact ⟨[], [], h'.1.symm, h'.2.symm, trivial, trivial, rfl⟩
  | cons t ts ih =>
    intro A h hw hb
    cases t with
    | chunk s =>
      rw [rawJoin_cons] at h
      simp only [Tok.raw] at h
      rcases List.append_eq_append_iff.mp h with ⟨a', hA, h2⟩ | ⟨c', hs, h2⟩
      · subst hA
        obtain ⟨ts1, ts2, e1, e2, w1, w2, ev⟩ := ih a' h2 hw hb.dropLeft
        exact ⟨.chunk s :: ts1, ts2, by simp [Tok.raw, e1], e2, w1, w2, by simp [Tok.val, ev]⟩
      · subst hs
        exact ⟨[.chunk A], .chunk c' :: ts, by simp [Tok.raw], by simp [Tok.raw, h2], trivial, hw,
          by simp [Tok.val]⟩
    | key k v =>
      rw [rawJoin_cons] at h
      simp only [Tok.raw] at h
      have hw1 : KeyOK k (rawJoin ts) := hw.1
      have hw2 : m.get? k = some v := hw.2.1
      have hw3 : WFk m ts := hw.2.2
      rcases List.append_eq_append_iff.mp h with ⟨a', hA, h2⟩ | ⟨c', hk, h2⟩
      · subst hA
        obtain ⟨ts1, ts2, e1, e2, w1, w2, ev⟩ := ih a' h2 hw3 hb.dropLeft
        have hk1 : KeyOK k (rawJoin ts1) := by
          rw [e1]; rw [h2] at hw1; exact KeyOK_prefix hw1
        exact ⟨.key k v :: ts1, ts2, by simp [Tok.raw, e1], e2, ⟨hk1, hw2, w1⟩, w2,
          by simp [Tok.val, ev]⟩
      · by_cases hA : A = []
        · subst hA
          exact ⟨[], .key k v :: ts, rfl, by simpa [Tok.raw] using h, trivial, hw, by simp⟩
        · by_cases hc : c' = []
          · subst hc
            have hk' : k = A := by simpa using hk
            have h2' : B = rawJoin ts := by simpa using h2
            subst hk'
            have hk1 : KeyOK k (rawJoin []) := KeyOK_prefix (a := []) (b := rawJoin ts) (by simpa using hw1)
            exact ⟨[.key k v], ts, by simp [Tok.raw], h2'.symm, ⟨hk1, hw2, trivial⟩, hw3, by simp⟩
          · exfalso
            exact hb [] A c' rfl hA hc (hk ▸ hw1.isKey)

theorem Seg.split' {m : Map} {A B : Str} (h : Seg m (A ++ B)) (hb : NoKeyCut A) :
    Seg m A ∧ Seg m B ∧ applyMap m (A ++ B) = applyMap m A ++ applyMap m B := by
  obtain ⟨ts, e, hw⟩ := h
  obtain ⟨ts1, ts2, e1, e2, w1, w2, ev⟩ := split_core' ts A e hw.1 hb
  have hf : Free (valJoin ts1 ++ valJoin ts2) := ev ▸ hw.2
  have f1 : Free (valJoin ts1) := Free_append_left _ _ hf
  have f2 : Free (valJoin ts2) := Free_append_right _ _ hf
  refine ⟨⟨ts1, e1, w1, f1⟩, ⟨ts2, e2, w2, f2⟩, ?_⟩
  rw [← e, applyMap_toks ts hw, ev, ← e1, ← e2, applyMap_toks ts1 ⟨w1, f1⟩,
    applyMap_toks ts2 ⟨w2, f2⟩]

/-- `repmap(repmap(x))` = `repmap(x)` on a piece of the tokenised text -/
theorem applyMap_idem_of_seg {m : Map} {X : Str} (h : Seg m X) :
    applyMap m (applyMap m X) = applyMap m X := by
  obtain ⟨ts, e, hw⟩ := h
  rw [← e, applyMap_toks ts hw]
  exact applyMap_noF m _ hw.2

/-- no key starts inside the word `DEFAULT` (in any case of the letters) -/
theorem noKeyCut_default {A : Str} (hA : upper A = "DEFAULT".toList) : NoKeyCut A := by
  have hmem : ∀ c ∈ A, upperC c ∈ "DEFAULT".toList := by
    intro c hc; rw [← hA]; exact List.mem_map_of_mem hc
  intro y x c' e hx hc hkey
  cases x with
  | nil => exact hx rfl
  | cons x0 xs =>
    have hx0 : x0 ∈ A := by rw [e]; simp
    have k1 : ∀ n, ∃ t, strKey n = '_' :: t := fun n => ⟨_, rfl⟩
    have k2 : ∀ n, ∃ t, realKey n = 'F' :: '2' :: t := fun n => ⟨_, rfl⟩
    have k3 : ∀ n, ∃ t, exprKey n = 'F' :: '2' :: t := fun n => ⟨_, rfl⟩
    have bad1 : x0 ≠ '_' := by
      rintro rfl
      exact absurd (hmem _ hx0) (by decide)
    have bad2 : ∀ t, (x0 :: xs) ++ c' = 'F' :: '2' :: t → False := by
      intro t ht
      cases xs with
      | nil =>
        -- `A` would end in `F`
        have h0 : x0 = 'F' := by simpa using (List.cons.inj ht).1
        subst h0
        have hu : upperC 'F' = 'F' := by decide
        have : upper A = upper y ++ ['F'] := by rw [e]; simp [upper, hu]
        rw [this] at hA
        have := congrArg List.getLast? hA
        simp at this
      | cons x1 xs' =>
        have h1 : x1 = '2' := by
          have := (List.cons.inj (List.cons.inj ht).2).1
          simpa using this
        subst h1
        have : '2' ∈ A := by rw [e]; simp
        exact absurd (hmem _ this) (by decide)
    obtain ⟨n, hk | hk | hk⟩ := hkey
    · obtain ⟨t, ht⟩ := k1 n
      rw [ht] at hk
      exact bad1 (by simpa using (List.cons.inj hk).1)
    · obtain ⟨t, ht⟩ := k2 n
      rw [ht] at hk
      exact bad2 t hk
    · obtain ⟨t, ht⟩ := k3 n
      rw [ht] at hk
      exact bad2 t hk

/-! ## Case_Stmt -/

/-- **Case_Stmt**, both forms: `CASE (…) [name]` and `CASE DEFAULT [name]`.  In the DEFAULT form the
    selector is `line[:7]` of the TOKENISED text, cut possibly inside a word (`CASE DEFAULTname`):
    `Seg.split'`/`noKeyCut_default` (no placeholder key can start inside `DEFAULT`), and the name is
    `repmap(repmap(…))`: `applyMap_idem_of_seg`. -/
theorem case_tostr_match_tokens (o : Oracle Node) (ho : OracleTok o) (s : Str)
    (items : List (Item Node)) (hm : ((planCase s).bind (runSlots o)).map swap2 = .ok items)
    (hs : SrmOK (lstrip (s.drop 4))) :
    ∃ t, tostrCase o items = .ok t ∧ toks t = toks s ∧
      ((∀ i ∈ items, net (i.text o) = 0) → net t = 0) := by
  obtain ⟨its, hb, rfl⟩ := Res.map_eq_ok hm
  obtain ⟨slots, hp, hr⟩ := Res.bind_eq_ok hb
  unfold planCase at hp
  split at hp
  · cases hp
  rename_i hkw
  have hkw1 : toks s = toks "CASE".toList ++ toks (s.drop 4) :=
    toks_of_kwIs (kwIs_of_not (by simpa using hkw))
  obtain ⟨r, htok, hp⟩ := Res.bind_eq_ok hp
  have htk := tok_ok htok
  obtain ⟨hseg, hexp⟩ := seg_of_tokenise hs htk
  have hS : toks s = toks "CASE".toList ++ toks (applyMap r.map r.text) := by
    rw [hkw1, toks_of_noBlank hexp, toks_lstrip]
  have e1 : ∀ X : Str, ' ' :: X = " ".toList ++ X := fun _ => rfl
  have k1 : toks "CASE ".toList = toks "CASE".toList := by decide
  have k2 : toks " ".toList = [] := by decide
  have n1 : net "CASE ".toList = 0 := by decide
  have n2 : net " ".toList = 0 := by decide
  -- the two ways of printing
  have fin : ∀ (A B : Str) (slotB : Slot) (cnd : Bool), toks (applyMap r.map r.text) = toks A ++ toks B →
      slots = [if cnd then Slot.none else slotB, .child C.Case_Selector A] →
      (cnd = true → toks B = []) →
      (∀ i, runSlot o slotB = .ok i → toks (i.text o) = toks B ∧ ∃ n, i = .node n) →
      ∃ t, tostrCase o (swap2 its) = .ok t ∧ toks t = toks s ∧
        ((∀ i ∈ swap2 its, net (i.text o) = 0) → net t = 0) := by
    intro A B slotB cnd hAB hsl hcnd hB
    subst hsl
    obtain ⟨i, is, rfl, hi, his⟩ := runSlots_cons_ok hr
    obtain ⟨j, js, rfl, hj, hjs⟩ := runSlots_cons_ok his
    have := runSlots_nil_ok hjs; subst this
    have hj' := toks_item_of_child ho hj
    obtain ⟨n, rfl, _⟩ := runSlot_child_ok hj
    simp only [Item.text] at hj'
    by_cases hE : cnd = true
    · rw [if_pos hE] at hi
      have := runSlot_none_ok hi; subst this
      refine ⟨_, rfl, ?_, ?_⟩
      · rw [hS, hAB, hcnd hE]
        simp only [Item.text, toks_append, k1, hj', List.append_nil]
      · intro hb
        have h1 : net (o.str n) = 0 := hb (.node n) (List.mem_cons_self ..)
        simp only [Item.text, net_append, n1, h1]
        omega
    · rw [if_neg hE] at hi
      obtain ⟨hi', n2', rfl⟩ := hB i hi
      simp only [Item.text] at hi'
      refine ⟨_, rfl, ?_, ?_⟩
      · rw [hS, hAB, e1]
        simp only [Item.text, toks_append, k1, k2, hj', hi', List.nil_append, List.append_assoc]
      · intro hb
        have h1 : net (o.str n) = 0 := hb (.node n) (List.mem_cons_self ..)
        have h2 : net (o.str n2') = 0 := hb (.node n2') (List.mem_cons_of_mem _ (List.mem_cons_self ..))
        rw [e1]
        simp only [Item.text, net_append, n1, n2, h1, h2]
        omega
  split at hp
  · -- `CASE ( … ) [name]`
    split at hp
    · cases hp
    rename_i pre post hcut
    cases hp
    obtain ⟨htext, _⟩ := Combi.cutFirst_spec _ _ _ hcut
    have htext' : r.text = (pre ++ [')']) ++ post := by rw [htext]; simp
    rw [htext'] at hseg
    obtain ⟨sA, sB, e⟩ := Seg.split hseg (.inr (.inr (.inl ⟨')', by simp, isWord_rparen⟩)))
    have a1 : toks (applyMap r.map (rstrip (pre ++ [')']))) = toks (applyMap r.map (pre ++ [')'])) :=
      toks_of_noBlank (Seg.rstrip sA).2
    have a2 : toks (applyMap r.map (lstrip post)) = toks (applyMap r.map post) :=
      toks_of_noBlank (Seg.lstrip sB).2
    refine fin (applyMap r.map (rstrip (pre ++ [')']))) (applyMap r.map (lstrip post))
      (.child C.Case_Construct_Name (applyMap r.map (lstrip post))) (lstrip post).isEmpty ?_ rfl ?_ ?_
    · rw [htext', e, toks_append, a1, a2]
    · intro h
      have : lstrip post = [] := by simpa using h
      rw [this, applyMap_empty]; rfl
    · intro i hi
      exact ⟨toks_item_of_child ho hi, by obtain ⟨n, h, _⟩ := runSlot_child_ok hi; exact ⟨n, h⟩⟩
  · -- `CASE DEFAULT [name]`
    split at hp
    · rename_i hkw
      cases hp
      have hup : upper (r.text.take 7) = "DEFAULT".toList := by simpa [kwIs] using hkw
      have hlen : (r.text.take 7).length < 16 := by
        have := List.length_take_le 7 r.text
        omega
      rw [← List.take_append_drop 7 r.text] at hseg
      obtain ⟨sA, sB, e⟩ := Seg.split' hseg (noKeyCut_default hup)
      rw [List.take_append_drop 7 r.text] at e
      obtain ⟨sB', eB⟩ := Seg.lstrip sB
      have idem := applyMap_idem_of_seg sB'
      refine fin (r.text.take 7) (applyMap r.map (lstrip (r.text.drop 7)))
        (.child C.Case_Construct_Name (applyMap r.map (applyMap r.map (lstrip (r.text.drop 7)))))
        (applyMap r.map (lstrip (r.text.drop 7))).isEmpty ?_ rfl ?_ ?_
      · rw [e, toks_append, applyMap_short _ _ hlen, toks_of_noBlank eB]
      · intro h
        have : applyMap r.map (lstrip (r.text.drop 7)) = [] := by simpa using h
        rw [this]; rfl
      · intro i hi
        rw [idem] at hi
        exact ⟨toks_item_of_child ho hi, by obtain ⟨n, h, _⟩ := runSlot_child_ok hi; exact ⟨n, h⟩⟩
    · cases hp

end Fp.IoStmt

#print axioms Fp.IoStmt.ifThen_tostr_match_tokens
#print axioms Fp.IoStmt.elseIf_tostr_match_tokens
#print axioms Fp.IoStmt.selectCase_tostr_match_tokens
#print axioms Fp.IoStmt.caseSelector_tostr_match_tokens
#print axioms Fp.IoStmt.labelDo_tostr_match_tokens
#print axioms Fp.IoStmt.if_tostr_match_tokens
#print axioms Fp.IoStmt.case_tostr_match_tokens
#print axioms Fp.IoStmt.loopControl_tostr_match_tokens
