"""C20 — parsing effort stays polynomial in nesting depth and program length."""
import time
from fv import real, engine, findings
from fv.props import util

RULE = ("fixed catalogue of input families f(n) (nested parentheses, nested references, IF, block DO, CONTINUE-terminated label DO, "
        "shared-label DO, distinct-label non-block DO nest, SELECT CASE, nested BLOCK, repeated statement, repeated loop, long "
        "expression, long argument list, continued statement), sizes n = 1,2,4,…,N in increasing order under a per-size budget of "
        "rule-constructor calls (so an exponential family is caught at the first size whose doubling ratio explodes instead of "
        "hanging); measure = deterministic count of Base.__new__ invocations (reader-level and string-level); oracle: doubling "
        "ratio T(2n)/T(n) <= 2^k_f * 1.3 for all n >= 4 and T(n) <= c_f * n^k_f with the family's fixed degree k_f. "
        "non-trivial = size >= 8"
        ' Correspondence of the cost model: Fp.Expr.chainCalls (the subject of the parse_calls_* theorems) == the number of Base.__new__ calls for the 13 chain classes measured on the real parser, on random expressions over plain operands and on the V/N families, both standards.')
ASSUMPTIONS = ["a bound for unseen n is an extrapolation from the measured sizes; the theorems bound the modelled algorithms "
               "(eval_fuel_mono, parse_cache_once), the leaf classes' own cost is measured",
               "the token-level cost model Fp.Expr.chainCalls is compared with the real parser on the proved families V and N (which contain a defined operator) at every depth and on random expressions "
               "WITHOUT defined operators; random expressions with defined operators are counted, not compared: there the string-level cut at the dotted "
               "word interacts with `/`-based operator patterns (`/=`, `//`, `/`) in ways the token-level model does not reproduce (a few calls more in the real parser)"]
TIE_MODULES = ["FparserModel.Block", "FparserModel.Expr", "FparserModel.ExprCost", "FparserModel.Primary", "FparserModel.PrimaryPins", "FparserModel.Generated.PrimaryTables"]

BUDGET = 1500000


class Budget(Exception):
    pass


def fam_parens(n):
    return "program p\n  x = " + "(" * n + "a" + ")" * n + "\nend program p\n"


def fam_refs(n):
    s = "a"
    for i in range(n):
        s = "f%d(%s)" % (i, s)
    return "program p\n  x = " + s + "\nend program p\n"


def fam_refs_component(n):
    """nested references with a structure component innermost and extra arguments"""
    s = "t%k"
    for i in range(n):
        s = "f%d(%s)" % (i, s) if i % 2 else "a%d(%s, 2)" % (i, s)
    return "program p\n  x = " + s + "\nend program p\n"


def fam_refs_typebound(n):
    """nested type-bound references p%f(p%f(...))"""
    s = "1"
    for i in range(n):
        s = "p%%f%d(%s)" % (i, s)
    return "program p\n  x = " + s + "\nend program p\n"


def fam_defop_pow(n):
    """valid expressions V(0)=a, V(d+1) = ( V(d) ) ** c + .y. b  (theorem
    Fp.Expr.parse_calls_exponential_witness: 2^d <= calls in the model)"""
    s = "a"
    for _ in range(n):
        s = "(" + s + ") ** c + .y. b"
    return "program p\n  x = " + s + "\nend program p\n"


def _nest(open_, close, n, body="x = 1"):
    lines = ["program p"]
    for i in range(n):
        lines.append("  " * (i + 1) + open_(i))
    lines.append("  " * (n + 1) + body)
    for i in reversed(range(n)):
        lines.append("  " * (i + 1) + close(i))
    lines.append("end program p")
    return "\n".join(lines) + "\n"


def fam_if(n):
    return _nest(lambda i: "if (a%d > 0) then" % i, lambda i: "end if", n)


def fam_do(n):
    return _nest(lambda i: "do i%d = 1, 10" % i, lambda i: "end do", n)


def fam_labeldo(n):
    return _nest(lambda i: "do %d i%d = 1, 10" % (100 + i, i), lambda i: "%d continue" % (100 + i), n)


def fam_shared(n):
    lines = ["program p"] + ["  do 10 i%d = 1, 10" % i for i in range(n)] + ["    x = 1", "10 continue", "end program p"]
    return "\n".join(lines) + "\n"


def fam_nonblock(n):
    lines = ["program p"] + ["  do %d i%d = 1, 10" % (100 + i, i) for i in range(n)]
    lines += ["%d x = x + %d" % (100 + i, i) for i in reversed(range(n))]
    lines.append("end program p")
    return "\n".join(lines) + "\n"


def fam_select(n):
    return _nest(lambda i: "select case (k%d)\n%scase (1)" % (i, "  " * (i + 1)), lambda i: "end select", n)


def fam_block(n):
    return _nest(lambda i: "block", lambda i: "end block", n)


def fam_repeat_stmt(n):
    return "program p\n" + "".join("  x%d = a(%d) + b * c\n" % (i, i) for i in range(n)) + "end program p\n"


def fam_repeat_loop(n):
    return "program p\n" + "".join("  do i = 1, 10\n    x(i) = %d\n  end do\n" % i for i in range(n)) + "end program p\n"


def fam_repeat_nonblock(n):
    """n consecutive (not nested) non-block DO loops, each ended by a labelled action statement"""
    return "subroutine s(a)\n  real :: a(10)\n" + "".join("  do %d i = 1, 10\n%d a(i) = %d\n" % (100 + k, 100 + k, k) for k in range(n)) + "end subroutine s\n"


def fam_repeat_nonblock_commented(n):
    """as repeat-nonblock-do, a comment line in front of every DO statement (comments kept)"""
    return "subroutine s(a)\n  real :: a(10)\n" + "".join("  ! loop %d\n  do %d i = 1, 10\n%d a(i) = %d\n" % (k, 100 + k, 100 + k, k) for k in range(n)) + "end subroutine s\n"


def fam_if_commented(n):
    return _nest(lambda i: "! level %d\n%sif (a%d > 0) then" % (i, "  " * (i + 1), i), lambda i: "end if ! %d" % i, n)


def fam_paren_dotted(n):
    """nested parentheses with a dotted operator on every level"""
    e = "b"
    for i in range(n):
        e = "a%d .and. (%s)" % (i, e)
    return "program p\n  x = " + e + "\nend program p\n"


def fam_paren_rel(n):
    e = "i .lt. j"
    for i in range(n):
        e = "a%d .or. (%s)" % (i, e)
    return "program p\n  if (" + e + ") x = 1\nend program p\n"


def fam_long_expr(n):
    return "program p\n  x = " + " + ".join("a%d * b%d" % (i, i) for i in range(n)) + "\nend program p\n"


def fam_args(n):
    return "program p\n  call s(" + ", ".join("a%d" % i for i in range(n)) + ")\nend program p\n"


def fam_continued(n):
    return "program p\n  x = a0 &\n" + "".join("    + a%d &\n" % i for i in range(1, n)) + "    + z\nend program p\n"


def fam_units(n):
    return "".join("subroutine s%d(a)\n  real :: a\n  a = %d\nend subroutine s%d\n" % (i, i, i) for i in range(n))


# family -> (generator, degree k_f, max size quick, max size thorough)
FAMILIES = {
    "nested-parens": (fam_parens, 1, 32, 64),
    "nested-refs": (fam_refs, 1, 32, 64),
    "nested-refs-component": (fam_refs_component, 1, 32, 64),
    "nested-refs-typebound": (fam_refs_typebound, 1, 32, 64),
    "paren-pow-defined-unary": (fam_defop_pow, 1, 16, 32),
    "nested-if": (fam_if, 1, 32, 128),
    "nested-do": (fam_do, 1, 32, 128),
    "label-do-continue": (fam_labeldo, 1, 32, 128),
    "shared-label-do": (fam_shared, 1, 32, 128),
    "nonblock-do-distinct-labels": (fam_nonblock, 1, 32, 64),
    "nested-select": (fam_select, 1, 32, 128),
    "nested-block": (fam_block, 1, 32, 128),
    "repeat-statement": (fam_repeat_stmt, 1, 128, 1024),
    "repeat-loop": (fam_repeat_loop, 1, 64, 512),
    "repeat-nonblock-do": (fam_repeat_nonblock, 1, 32, 128),
    "repeat-nonblock-do+comments": (fam_repeat_nonblock_commented, 1, 32, 128),
    "nested-if+comments": (fam_if_commented, 1, 32, 128),
    "nested-paren-dotted": (fam_paren_dotted, 1, 32, 64),
    "nested-paren-relational": (fam_paren_rel, 1, 32, 64),
    "long-expression": (fam_long_expr, 1, 64, 256),
    "long-arglist": (fam_args, 1, 64, 256),
    "continued-statement": (fam_continued, 1, 64, 256),
    "repeat-units": (fam_units, 1, 64, 512),
}


def count_calls(src, std="f2008", keep=False):
    """(calls at reader level, calls at string level, outcome kind); aborts over BUDGET"""
    U = real.U
    orig = U.Base.__new__
    cnt = [0, 0]

    def counting(cls, string, *a, **k):
        if isinstance(string, real.RF.FortranReaderBase):
            cnt[0] += 1
        else:
            cnt[1] += 1
        if cnt[0] + cnt[1] > BUDGET:
            raise Budget()
        return orig(cls, string, *a, **k)
    real.get_parser(std)
    U.Base.__new__ = counting
    try:
        try:
            o = real.try_parse(src, std=std, free=True, ignore_comments=not keep)
            kind = o.kind
            if o.kind == "other" and isinstance(o.exc, Budget):
                kind = "budget"
            if o.kind == "other" and isinstance(o.exc, RecursionError):
                kind = "recursion"
        except Budget:
            kind = "budget"
    finally:
        U.Base.__new__ = orig
    return cnt[0], cnt[1], kind


CHAIN = ("Expr", "Level_5_Expr", "Equiv_Operand", "Or_Operand", "And_Operand", "Level_4_Expr", "Level_3_Expr",
         "Level_2_Expr", "Level_2_Unary_Expr", "Add_Operand", "Mult_Operand", "Level_1_Expr", "Primary")


def real_chain_calls(text, std):
    """number of Base.__new__ calls whose cls is one of the 13 classes of the expression chain
    while Fortran2003.Expr(text) runs -> (count, 'tree'|'reject')"""
    U = real.U
    real.get_parser(std)
    orig = U.Base.__new__
    cnt = [0]
    chain = set(CHAIN)

    def counting(cls, string, *a, **k):
        if cls.__name__ in chain:
            cnt[0] += 1
            if cnt[0] > BUDGET:
                raise Budget()
        return orig(cls, string, *a, **k)
    U.Base.__new__ = counting
    try:
        try:
            real.F03.Expr(text)
            kind = "tree"
        except U.NoMatchError:
            kind = "reject"
    finally:
        U.Base.__new__ = orig
    return cnt[0], kind


def _plain_leaves(t, names):
    if t[0] == "atom":
        return ("atom", next(names))
    if t[0] == "paren":
        return ("paren", _plain_leaves(t[1], names))
    return t[:2] + tuple(_plain_leaves(k, names) for k in t[2:])


def run_cost_cosim(case):
    """tie of the cost model (Fp.Expr.chainCalls, the subject of parse_calls_* theorems):
    the count the model predicts == the count measured on the real parser, on random
    expressions over plain operands (names), inside the model's boundary, both standards"""
    import random
    from fv import cosim_expr as CE
    from fv.model import get_model
    m = get_model()
    rng = random.Random(case["seed"])
    std = case["std"]
    res = {"key": ["cost", case["seed"], std], "counts": {}, "findings": [], "nontrivial": True, "keys": []}
    n = 0
    for i in range(case["n"]):
        if i % 7 == 6:
            # the proved exponential / linear families themselves
            d = rng.randint(0, 4)
            fam = rng.choice(["V", "N"])
            text = "a"
            for _ in range(d):
                text = "( %s ) ** c + .y. b" % text if fam == "V" else "( %s )" % text
            toks = text.split()
            c = CE.make_case(None, toks, [False] * len(toks), "cost")
        else:
            ab = CE.gen_abstract(rng, rng.randint(1, 5))
            names = iter(["a", "b", "c", "d", "e", "f", "g", "h"] + ["v%d" % j for j in range(200)])
            tree = CE.parenthesize(_plain_leaves(ab, names), rng, redundant=0.1)
            toks = CE.tokens_of(tree)
            glue = CE.rand_glue(rng, toks, rng.choice([0.0, 0.5, 1.0]))
            c = CE.make_case(tree, toks, glue, "cost", rng)
            if CE.in_known_boundary(c) or CE.in_lexing_boundary(c):
                continue
            ws = [w.lstrip("~").lower() for w in c["words"]]
            INTR = (".not.", ".and.", ".or.", ".eqv.", ".neqv.", ".eq.", ".ne.", ".lt.", ".le.", ".gt.", ".ge.", ".true.", ".false.")
            has_def = any(w.startswith(".") and w.endswith(".") and len(w) > 2 and not w[1:2] == "@" and w not in INTR for w in ws)
            if has_def:
                # `/=` or `//` together with a defined operator: Expr.match cuts the text at the dotted
                # word first; a part that then ends in (or contains a dangling) `/=` or `//` is split by
                # the string-level mult_op pattern at its `/` (two more constructor calls than the
                # token-level model, whose `/=` is one token: the `/=` gap of Fp.ExprLex, see
                # parse_string_refines).  Counted, not compared.
                res["counts"]["cost:with-defined-op(not compared)"] = res["counts"].get("cost:with-defined-op(not compared)", 0) + 1
                continue
        rp = m.ask("exprcost", " ".join(c["words"]))[0].split()
        got, kind = real_chain_calls(c["text"], std)
        n += 1
        res["keys"].append(c["text"])
        res["counts"]["cost:" + kind] = res["counts"].get("cost:" + kind, 0) + 1
        if len(rp) != 3 or int(rp[0]) != got or rp[2] != kind:
            res["findings"].append({"signature": "correspondence:Fp.Expr.chainCalls", "no_input": True,
                                    "what": "cost model and real parser differ on %r: model %s, real %d calls (%s)" % (c["text"], rp, got, kind),
                                    "replay": {"case": case, "text": c["text"], "words": " ".join(c["words"]), "model": rp, "real": [got, kind]}})
            break
    res["evals"] = n
    return res


def run_case(case):
    if case.get("family") == "cost-cosim":
        return run_cost_cosim(case)
    name = case["family"]
    genf, k, nq, nt = FAMILIES[name]
    nmax = nt if case["tier"] == "thorough" else nq
    res = {"key": ["family", name, case.get("std")], "counts": {}, "findings": [], "nontrivial": True}
    sizes = []
    n = 1
    while n <= nmax:
        sizes.append(n)
        n *= 2
    T = {}
    t0 = time.time()
    rp = {"case": case}
    for n in sizes:
        src = genf(n)
        a, b, kind = count_calls(src, case.get("std", "f2008"), keep=name.endswith("+comments"))
        T[n] = a + b
        if n >= 8:
            res.setdefault("keys", []).append("%s:%s:%d" % (name, case.get("std"), n))
        res["counts"]["size:%d" % n] = a + b
        if kind == "budget":
            res["findings"].append({"signature": "superpolynomial:" + name,
                                    "what": "%s: more than %d rule-constructor calls at n=%d (counts so far %s)" % (name, BUDGET, n, T),
                                    "replay": dict(rp, source=src, counts=T)})
            break
        if kind == "recursion":
            res["counts"]["recursion-limit-at"] = n
            break
        if kind != "tree":
            res["findings"].append({"signature": "family-rejected:" + name, "what": "%s(n=%d) not accepted: %s" % (name, n, kind),
                                    "replay": dict(rp, source=src)})
            break
        if n >= 8 and n // 2 in T and T[n // 2] > 0:
            ratio = T[n] / T[n // 2]
            if ratio > (2 ** k) * 1.3:
                res["findings"].append({"signature": "superpolynomial:" + name,
                                        "what": "%s: doubling n from %d to %d multiplies the count by %.2f (> 2^%d*1.3); counts %s" % (name, n // 2, n, ratio, k, T),
                                        "replay": dict(rp, source=src, counts=T)})
                break
        if time.time() - t0 > 200:
            break
    res["sample"] = {"family": name, "counts": T}
    res["evals"] = len(T)
    res["table"] = T
    return res


def cases(tier, seed):
    out = [{"family": f, "tier": tier, "std": std, "_timeout": 900} for f in FAMILIES for std in ("f2008", "f2003")
           if not (std == "f2003" and f in ("nested-block",))]
    for i, s in enumerate(util.seeds(seed, util.tier_n(tier, 4, 40), 20)):
        out.append({"family": "cost-cosim", "seed": s, "n": 120, "std": "f2003" if i % 2 else "f2008", "tier": tier, "_timeout": 900})
    return out


def run(tier, rep, st):
    util.sub_cosim(rep, tier, "cosim_primary", "Fp.Primary", 40, 400)
    results = engine.run_cases(__name__, cases(tier, rep.seed), rep)
    rep.evaluations = sum(r.get("evals", 0) for r in results)
    rep.coverage["tables"] = {r["_case"]["family"] + "/" + r["_case"].get("std", ""): r.get("table") for r in results
                              if r["_case"]["family"] != "cost-cosim"}
    rep.coverage["cosim_cases"] = rep.coverage["cost_cosim_expressions"] = sum(r.get("evals", 0) for r in results if r["_case"]["family"] == "cost-cosim")
    rep.coverage["exhaustive"] = True
