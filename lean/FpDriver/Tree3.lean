import FparserModel.Tree3
import FpDriver.SymTree
/-!
Driver commands of the Tree3 slice (event script syntax = the `tree` command's:
`A cls`, `P parent items…`, `R n`, `C n items…`, one event per line):

  bottomup  <script> <root>
      → verdict (`ok` | `bad:<index of the first event violating the discipline>` |
                 `root:<why>`), reason, `reuse=<n> steal=<n> dead=<n> events=<n>`
  copy3     <script> <infos> <start> <facts> <how: deepcopy|pickle>
      infos: lines `<id> <label|-> <hex name|->`
      → verdict (`ok` | `err:noString:<cls>` | `err:newRejects:<cls>`), canon of the copy's tree,
        canon of the original tree, id-disjoint, parents consistent, node count,
        `label:name` list along `walk` of the copied root, same for the original root,
        position of the copy of <start> in the walk of the copied root, position of <start> in the
        walk of the original root, labels of the ORIGINAL objects after the copy
-/
namespace FpDriver.Tree3
open Fp Fp.Wire Fp.Tree Fp.Tree3 FpDriver.SymTree

def whyBad (s : BuState) : Ev → String
  | .alloc _ => "?"
  | .attach p items =>
    let L := spList items
    if !(decide (p < s.a.length)) then "attach: container " ++ toString p ++ " is not allocated"
    else if !(kids s.a p).isEmpty then "attach: container " ++ toString p ++ " already has children (a second _set_parent)"
    else if !(par s.a p).isNone then "attach: container " ++ toString p ++ " already has a parent"
    else if s.dead.contains p then "attach: container " ++ toString p ++ " belongs to an abandoned attempt"
    else if !(decide L.Nodup) then "attach: a node is listed twice by container " ++ toString p
    else
      match L.find? (fun m => !(decide (m < p) && freeNode s m)) with
      | none => "?"
      | some m =>
        if !(decide (m < p)) then "attach: child " ++ toString m ++ " is not older than container " ++ toString p
        else if s.dead.contains m then "attach: child " ++ toString m ++ " belongs to an abandoned attempt"
        else "attach: child " ++ toString m ++ " is still listed by its parent "
             ++ toString ((par s.a m).getD 0) ++ " (node shared by two containers)"
  | .reset n => "reset: node " ++ toString n ++ " is not allocated"
  | .children c items =>
    let K := spList items
    if !(decide (c < s.a.length)) then "children: node " ++ toString c ++ " is not allocated"
    else if !(decide K.Nodup) then "children: node " ++ toString c ++ " lists a node twice"
    else
      match K.find? (fun n => !(decide (n < c) && par s.a n == some c)) with
      | none => "?"
      | some n =>
        if !(decide (n < c)) then "children: child " ++ toString n ++ " is not older than " ++ toString c
        else "children: " ++ toString c ++ " lists " ++ toString n ++ " whose parent is "
             ++ (match par s.a n with | none => "None" | some q => toString q) ++ " (never attached / stolen)"

structure Stats where
  reuse : Nat := 0
  steal : Nat := 0

def statStep (s : BuState) (st : Stats) : Ev → Stats
  | .reset n =>
    match par s.a n with
    | some c => if (kids s.a c).contains n then { st with reuse := st.reuse + 1 } else st
    | none => st
  | .attach _ items =>
    { st with steal := st.steal + ((spList items).filter (fun m => (par s.a m).isSome)).length }
  | _ => st

def scan (s : BuState) (st : Stats) (i : Nat) : List Ev → (Option (Nat × String)) × BuState × Stats
  | [] => (none, s, st)
  | ev :: rest =>
    if buOk s ev then scan (buStep s ev) (statStep s st ev) (i + 1) rest
    else (some (i, whyBad s ev), s, st)

def handleBottomUp (script root : String) : String :=
  let evs := (lines script).filterMap parseEv
  let r := root.toNat!
  let (bad, s, st) := scan {} {} 0 evs
  let stats := "reuse=" ++ toString st.reuse ++ " steal=" ++ toString st.steal ++ " dead="
    ++ toString s.dead.eraseDups.length ++ " events=" ++ toString evs.length
  match bad with
  | some (i, why) => "OK\t" ++ enc ("bad:" ++ toString i) ++ "\t" ++ enc why ++ "\t" ++ enc stats
  | none =>
    if !(decide (r < s.a.length)) then "OK\t" ++ enc "root:unallocated" ++ "\t" ++ enc "" ++ "\t" ++ enc stats
    else if !(par s.a r).isNone then "OK\t" ++ enc "root:has-parent" ++ "\t" ++ enc "the root has a parent" ++ "\t" ++ enc stats
    else if s.dead.contains r then "OK\t" ++ enc "root:dead" ++ "\t" ++ enc "the root belongs to an abandoned attempt" ++ "\t" ++ enc stats
    else "OK\t" ++ enc "ok" ++ "\t" ++ enc (if bottomUpB evs r then "" else "checker disagreement") ++ "\t" ++ enc stats

def parseInfos (s : String) (n : Nat) : Infos :=
  let tbl : List (Nat × Info) := (lines s).filterMap fun l =>
    match toks l with
    | [i, lab, nm] => some (i.toNat!, ⟨if lab == "-" then none else some lab.toNat!,
                                        if nm == "-" then none else some (dec nm)⟩)
    | _ => none
  (List.range n).map fun i => Registry.nGet tbl i

/-- the class facts table, parsed ONCE (`SymTree.parseFacts` re-parses per lookup) -/
def factsTbl (s : String) : List (Nat × CopyFacts) :=
  (lines s).filterMap fun l =>
    match toks l with
    | [c, x, y, z] => some (c.toNat!, ⟨x == "1", y == "1", z == "1"⟩)
    | _ => none

def factsOf (tbl : List (Nat × CopyFacts)) : Nat → CopyFacts :=
  fun c => (Registry.nGet tbl c).getD ⟨true, true, true⟩

def showInfo : Option Info → String
  | none => "-"
  | some i => (match i.label with | none => "" | some l => toString l) ++ ":"
              ++ (match i.name with | none => "" | some s => s)

def showInfos (l : List (Option Info)) : String := " ".intercalate (l.map showInfo)

def handleCopy3 (script infos start facts how : String) : String :=
  let a := buildArena script
  let T : T3 := ⟨a, parseInfos infos a.length⟩
  let n := start.toNat!
  let tbl := factsTbl facts
  match (if how == "pickle" then pickle3 (factsOf tbl) T n else deepcopy3 (factsOf tbl) T n) with
  | .error (.noString c) => "OK\t" ++ enc ("err:noString:" ++ toString c)
  | .error (.newRejects c) => "OK\t" ++ enc ("err:newRejects:" ++ toString c)
  | .error (.badId i) => "ERR\t" ++ enc ("bad id " ++ toString i)
  | .error .outOfFuel => "ERR\t" ++ enc "out of fuel"
  | .ok (T', y, _) =>
    let r := (getRoot T'.a y).getD y
    let r0 := (getRoot a n).getD n
    let fuel := arenaFuel T'.a + 2
    let w := walkIds T'.a r
    let w0 := walkIds a r0
    let disjoint := w.all (fun i => i ≥ a.length)
    "OK\t" ++ enc "ok" ++ "\t" ++ enc (canon T'.a fuel (.node r)) ++ "\t" ++ enc (canon T'.a fuel (.node r0))
    ++ "\t" ++ enc (if disjoint then "1" else "0") ++ "\t" ++ enc (if parentsOK T'.a r then "1" else "0")
    ++ "\t" ++ enc (toString w.length)
    ++ "\t" ++ enc (showInfos (w.map (infoOf T'.inf))) ++ "\t" ++ enc (showInfos (w0.map (infoOf T.inf)))
    ++ "\t" ++ enc (toString (w.idxOf y)) ++ "\t" ++ enc (toString (w0.idxOf n))
    ++ "\t" ++ enc (showInfos (w0.map (infoOf T'.inf)))

def handle : String → List String → Option String
  | "bottomup", [s, r] => some (handleBottomUp (dec s) (dec r))
  | "copy3", [s, i, n, f, h] => some (handleCopy3 (dec s) (dec i) (dec n) (dec f) (dec h))
  | _, _ => none

end FpDriver.Tree3
