import FparserModel.Proofs.PrimaryHand
/-!
`Ac_Implied_Do_Control` (token preservation) and the witnesses for `Char_Literal_Constant`.
-/
namespace Fp.Primary
open Fp Fp.Splitline
open Fp.IoStmt
open Fp.Combi (noBlank)

variable {Node : Type}

/-! ## Ac_Implied_Do_Control -/

theorem runSlots_append_ok {o : Oracle Node} : ∀ {a b : List Slot} {items : List (Item Node)},
    runSlots o (a ++ b) = .ok items →
    ∃ ia ib, items = ia ++ ib ∧ runSlots o a = .ok ia ∧ runSlots o b = .ok ib
  | [], b, items, h => ⟨[], items, rfl, rfl, h⟩
  | x :: a, b, items, h => by
    obtain ⟨i, is, rfl, hi, his⟩ := runSlots_cons_ok (by simpa using h)
    obtain ⟨ia, ib, rfl, ha, hb⟩ := runSlots_append_ok his
    exact ⟨i :: ia, ib, rfl, by simp [runSlots, hi, ha], hb⟩

theorem children_are_nodes {o : Oracle Node} {c : Nat} (f : Str → Str) :
    ∀ (pieces : List Str) (ia : List (Item Node)),
      runSlots o (pieces.map fun e => Slot.child c (f e)) = .ok ia → ∀ i ∈ ia, ∃ n, i = .node n
  | [], ia, h => by
    have := runSlots_nil_ok h; subst this
    intro i hi; simp at hi
  | p :: ps, ia, h => by
    rw [List.map_cons] at h
    obtain ⟨i, is, rfl, hi, his⟩ := runSlots_cons_ok h
    obtain ⟨n, rfl, _⟩ := runSlot_child_ok hi
    intro j hj
    rcases List.mem_cons.mp hj with e | e
    · exact ⟨n, e⟩
    · exact children_are_nodes f ps is his j e

theorem filterNodes_map (o : Oracle Node) (g : Item Node → Option Node)
    (hg : ∀ n, g (.node n) = some n) :
    ∀ ia : List (Item Node), (∀ i ∈ ia, ∃ n, i = .node n) →
      (ia.filterMap g).map o.str = ia.map (Item.text o)
  | [], _ => rfl
  | i :: ia, h => by
    obtain ⟨n, rfl⟩ := h i (by simp)
    have ih := filterNodes_map o g hg ia (fun j hj => h j (List.mem_cons_of_mem _ hj))
    simp only [List.filterMap_cons, hg, List.map_cons, ih, Item.text]

theorem arrange_control (o : Oracle Node) (ia : List (Item Node)) (v : Item Node)
    (hall : ∀ i ∈ ia, ∃ n, i = .node n) :
    ∃ ns, arrangeAcControl (ia ++ [v]) = [v, .nodes ns] ∧ ns.map o.str = ia.map (Item.text o) := by
  unfold arrangeAcControl
  rw [List.getLast?_concat]
  simp only [List.dropLast_concat]
  exact ⟨_, rfl, filterNodes_map o _ (fun _ => rfl) ia hall⟩

/-- the text handed to the tokeniser by `Ac_Implied_Do_Control.match` -/
def acControlTail (s : Str) : Str :=
  match Combi.cutFirst '=' s with
  | some (_, post) => lstrip post
  | none => []

/-- **Ac_Implied_Do_Control**: `var = e1, e2 [, e3]`: cut at the FIRST `=` of the raw string, the
    rest is tokenised and split at `,` -/
theorem Ac_Implied_Do_Control_tostr_match_tokens (o : Oracle Node) (ho : OracleTok o) (s : Str)
    (items : List (Item Node)) (hm : (planAcImpliedDoControl s).bind (runSlots o) = .ok items)
    (hs : SrmOK (acControlTail s)) :
    ∃ t, tostrAcControl o (arrangeAcControl items) = .ok t ∧ toks t = toks s ∧
      ((∀ i ∈ items, net (i.text o) = 0) → net t = 0) := by
  obtain ⟨slots, hp, hr⟩ := Res.bind_eq_ok hm
  unfold planAcImpliedDoControl at hp
  split at hp
  · cases hp
  rename_i pre post hcut
  have hs' : SrmOK (lstrip post) := by
    unfold acControlTail at hs; rw [hcut] at hs; exact hs
  obtain ⟨hsplit, _⟩ := Combi.cutFirst_spec _ _ _ hcut
  obtain ⟨r, htok, hp⟩ := Res.bind_eq_ok hp
  have htk := tok_ok htok
  obtain ⟨hseg, hexp⟩ := seg_of_tokenise hs' htk
  have hS : toks (lstrip post) = toks (applyMap r.map r.text) := (toks_of_noBlank hexp).symm
  obtain ⟨hpieces, hjoin⟩ := Seg.splitC isWord_comma hseg
  dsimp only at hp
  split at hp
  · cases hp
  cases hp
  obtain ⟨ia, ib, rfl, ha, hb⟩ := runSlots_append_ok hr
  obtain ⟨v, rfl, hv⟩ := run1 hb
  have hv' := toks_item_of_child ho hv
  obtain ⟨nv, rfl, _⟩ := runSlot_child_ok hv
  have hv'' : toks (o.str nv) = toks pre := hv'.trans (toks_rstrip _)
  have hall := children_are_nodes (fun e => applyMap r.map (strip e)) _ ia ha
  obtain ⟨ns, harr, hns⟩ := arrange_control o ia (.node nv) hall
  obtain ⟨hseq, hseqn⟩ := seq_core o ho _ (fun e => applyMap r.map (strip e)) (applyMap r.map)
    (splitC ',' r.text) ia ha
    (fun p hp' => toks_of_noBlank (Seg.strip (hpieces p hp')).2)
  rw [harr]
  have k : toks " = ".toList = toks ['='] := by decide
  refine ⟨_, rfl, ?_, ?_⟩
  · show toks (o.str nv ++ " = ".toList ++ Combi.joinStr ", ".toList (ns.map o.str)) = _
    rw [hns, hsplit, toks_append, toks_append, toks_append, toks_cons '=' post, hseq, ← hjoin, ← hS,
      toks_lstrip, hv'', k]
    simp only [List.append_assoc]
  · intro hbal
    show net (o.str nv ++ " = ".toList ++ Combi.joinStr ", ".toList (ns.map o.str)) = 0
    have h1 : net (o.str nv) = 0 := hbal (.node nv) (by simp)
    have h2 := hseqn (fun n hn => hbal (.node n) (by simp [hn]))
    have kn : net " = ".toList = 0 := by decide
    rw [hns, net_append, net_append, h1, h2, kn]; rfl

example : SrmOK (acControlTail "i = 1, 3".toList) ∧
    (planAcImpliedDoControl "i = 1, 3".toList).bind (runSlots echoO)
      = .ok [.node "1".toList, .node "3".toList, .node "i".toList] ∧
    tostrAcControl echoO (arrangeAcControl [.node "1".toList, .node "3".toList, .node "i".toList])
      = .ok "i = 1, 3".toList := by decide +kernel

/-! ## Char_Literal_Constant: the witnesses -/

/-- `k_ 'pre'` prints `k_'pre'` (canonical `kind_value`; blanks between the kind, `_` and the
    quote are dropped) -/
theorem charLit_canonical :
    SrmOK (strip "k _ 'pre'".toList) ∧
    (planCharLit "k _ 'pre'".toList).bind (runSlots echoO)
      = .ok [.str "'pre'".toList, .str "k".toList] ∧
    tostrCharLit echoO [.str "'pre'".toList, .str "k".toList] = .ok "k_'pre'".toList ∧
    toks "k_'pre'".toList = toks "k _ 'pre'".toList := by decide +kernel

/-- DEFECT: `Char_Literal_Constant("1.5e3_'a'")` is accepted — the tokeniser has replaced the
    real constant by its placeholder, which the kind regex takes for a name — and prints
    `F2PY_REAL_CONSTANT_1__'a'`: the kind is NOT mapped back (`repmap` is applied to the value
    only).  Text is invented and lost although `SrmOK` holds. -/
theorem charLit_prints_placeholder :
    SrmOK (strip "1.5e3_'a'".toList) ∧
    (planCharLit "1.5e3_'a'".toList).bind (runSlots echoO)
      = .ok [.str "'a'".toList, .str "F2PY_REAL_CONSTANT_1_".toList] ∧
    tostrCharLit echoO [.str "'a'".toList, .str "F2PY_REAL_CONSTANT_1_".toList]
      = .ok "F2PY_REAL_CONSTANT_1__'a'".toList ∧
    toks "F2PY_REAL_CONSTANT_1__'a'".toList ≠ toks "1.5e3_'a'".toList := by decide +kernel

end Fp.Primary

#print axioms Fp.Primary.Ac_Implied_Do_Control_tostr_match_tokens
#print axioms Fp.Primary.charLit_canonical
#print axioms Fp.Primary.charLit_prints_placeholder
