import FparserModel.Proofs.ExprLexStep

/-!
A context-explicit, compositional description of `lexSegs`:
`lexSegs s = some sg ↔ flat sg = s ∧ alt sg ∧ chkA none sg []`.

* `alt sg`          the shape produced by `segs`: gap, word, gap, …, word, gap;
* `chkA prev sg after`  every segment passes `segOK` AND is what `tokAt` (maximal munch) sees at
                    that place, the text `after` following the segment list.
-/
namespace Fp.ExprLex
open Fp Fp.Expr

/-- no operator word starts at any character of `s` (the text `after` follows) -/
def noTok : Str → Str → Bool
  | [], _ => true
  | c :: t, after => (tokAt (c :: t ++ after)).isNone && noTok t after

/-- `segOK` plus: the segment is what the maximal-munch cutter sees -/
def segC (prev : Option Char) (x : Seg) (after : Str) : Bool :=
  segOK prev x after &&
    (match x with
     | .gap s => noTok s after
     | .word k m => tokAt (m ++ after) == some (k, m.length))

/-- `checkSegs` with the maximal-munch condition and a trailing context -/
def chkA (prev : Option Char) : List Seg → Str → Bool
  | [], _ => true
  | x :: rest, after => segC prev x (flat rest ++ after) && chkA (lastOr prev x.text) rest after

/-- the shape of the output of `segs` -/
def alt : List Seg → Bool
  | [.gap _] => true
  | .gap _ :: .word _ _ :: rest => alt rest
  | _ => false

theorem chkA_append (A B : List Seg) (after : Str) : ∀ (prev : Option Char),
    chkA prev (A ++ B) after = (chkA prev A (flat B ++ after) && chkA (lastOr prev (flat A)) B after) := by
  induction A with
  | nil => intro prev; simp [chkA, flat_nil, lastOr_nil]
  | cons x A ih =>
    intro prev
    simp only [List.cons_append, chkA, ih, flat_cons, flat_append, lastOr_append, List.append_assoc,
      Bool.and_assoc]

theorem chkA_check : ∀ (sg : List Seg) (prev : Option Char), chkA prev sg [] = true →
    checkSegs prev sg = true
  | [], _, _ => rfl
  | x :: rest, prev, h => by
    simp only [chkA, segC, List.append_nil, Bool.and_eq_true] at h
    simp only [checkSegs, Bool.and_eq_true]
    exact ⟨h.1.1, chkA_check rest _ h.2⟩

/-! ### `tokAt` basics -/

theorem tokAt_bound (s : Str) (k : TK) (n : Nat) (h : tokAt s = some (k, n)) : 0 < n ∧ n ≤ s.length := by
  unfold tokAt at h
  split at h
  · rename_i r
    cases hd : dotWord ('.' :: r) with
    | none => simp [hd] at h
    | some wn =>
      simp only [hd, Option.map_some, Option.some.injEq, Prod.mk.injEq] at h
      have := dotWord_bound _ wn.1 wn.2 hd
      rw [← h.2]; exact this
  all_goals (first | (simp only [Option.some.injEq, Prod.mk.injEq] at h; rw [← h.2]; simp) | cases h)

/-! ### `segs` produces, and is determined by, the canonical form -/

theorem segsF_gap : ∀ (s X acc : Str) (f : Nat), noTok s X = true →
    segsF (s.length + f) (s ++ X) acc = segsF f X (s.reverse ++ acc)
  | [], X, acc, f, _ => by simp
  | c :: t, X, acc, f, h => by
    simp only [noTok, Bool.and_eq_true, Option.isNone_iff_eq_none, List.cons_append] at h
    have e : (c :: t).length + f = (t.length + f) + 1 := by simp; omega
    rw [e, List.cons_append, segsF, h.1]
    simp only
    rw [segsF_gap t X (c :: acc) f h.2]
    simp

theorem segsF_nil (f : Nat) (acc : Str) : segsF f [] acc = [.gap acc.reverse] := by
  cases f <;> rfl

theorem segsF_word (m Y acc : Str) (k : TK) (f : Nat) (h : tokAt (m ++ Y) = some (k, m.length)) :
    segsF (f + 1) (m ++ Y) acc = .gap acc.reverse :: .word k m :: segsF f Y [] := by
  have hb := tokAt_bound _ _ _ h
  cases m with
  | nil => simp at hb
  | cons c m' =>
    simp only [List.cons_append] at h ⊢
    rw [segsF, h]
    simp only
    have e1 : (c :: (m' ++ Y)).take (c :: m').length = c :: m' := by
      rw [← List.cons_append]; exact List.take_left
    have e2 : (c :: (m' ++ Y)).drop (c :: m').length = Y := by
      rw [← List.cons_append]; exact List.drop_left
    rw [e1, e2]

/-- put text in front of the leading gap -/
def preGap (a : Str) : List Seg → List Seg
  | .gap s :: rest => .gap (a ++ s) :: rest
  | x => x

theorem chkA_tok_gap {prev : Option Char} {s : Str} {rest : List Seg} {after : Str}
    (h : chkA prev (.gap s :: rest) after = true) : noTok s (flat rest ++ after) = true := by
  simp only [chkA, segC, Bool.and_eq_true] at h
  exact h.1.2

theorem chkA_tok_word {prev : Option Char} {k : TK} {m : Str} {rest : List Seg} {after : Str}
    (h : chkA prev (.word k m :: rest) after = true) :
    tokAt (m ++ (flat rest ++ after)) = some (k, m.length) := by
  simp only [chkA, segC, Bool.and_eq_true, beq_iff_eq] at h
  exact h.1.2

theorem chkA_tail {prev : Option Char} {x : Seg} {rest : List Seg} {after : Str}
    (h : chkA prev (x :: rest) after = true) : chkA (lastOr prev x.text) rest after = true := by
  simp only [chkA, Bool.and_eq_true] at h
  exact h.2

theorem segsF_of_canon : ∀ (sg : List Seg) (prev : Option Char) (f : Nat) (acc : Str), alt sg = true →
    chkA prev sg [] = true → (flat sg).length < f → segsF f (flat sg) acc = preGap acc.reverse sg
  | [.gap s], prev, f, acc, _, hc, hf => by
    have h1 := chkA_tok_gap hc
    simp only [flat_cons, flat_nil, Seg.text, List.append_nil] at hf h1 ⊢
    obtain ⟨f', rfl⟩ : ∃ f', f = s.length + f' := ⟨f - s.length, by omega⟩
    have := segsF_gap s [] acc f' h1
    simp only [List.append_nil] at this
    rw [this, segsF_nil]; simp [preGap]
  | .gap s :: .word k m :: rest, prev, f, acc, ha, hc, hf => by
    have h1 := chkA_tok_gap hc
    have h2 := chkA_tok_word (chkA_tail hc)
    have hc' := chkA_tail (chkA_tail hc)
    simp only [alt] at ha
    simp only [flat_cons, Seg.text, List.append_nil, List.length_append] at hf h1 h2 ⊢
    have hb := tokAt_bound _ _ _ h2
    obtain ⟨f', rfl⟩ : ∃ f', f = s.length + (f' + 1) := ⟨f - s.length - 1, by omega⟩
    rw [segsF_gap s (m ++ flat rest) acc (f' + 1) h1, segsF_word m (flat rest) _ k f' h2]
    rw [segsF_of_canon rest _ f' [] ha hc' (by omega)]
    cases rest with
    | nil => simp [alt] at ha
    | cons x r =>
      cases x with
      | gap g => simp [preGap]
      | word _ _ => simp [alt] at ha
  | [], _, _, _, ha, _, _ => by simp [alt] at ha
  | .word _ _ :: _, _, _, _, ha, _, _ => by simp [alt] at ha
  | .gap _ :: .gap _ :: _, _, _, _, ha, _, _ => by simp [alt] at ha

theorem alt_head {sg : List Seg} (h : alt sg = true) : ∃ s rest, sg = .gap s :: rest := by
  cases sg with
  | nil => simp [alt] at h
  | cons x r =>
    cases x with
    | gap s => exact ⟨s, r, rfl⟩
    | word _ _ => simp [alt] at h

/-- **a canonical, checked segment list is the segmentation of its text** -/
theorem lexSegs_of_canon (sg : List Seg) (ha : alt sg = true) (hc : chkA none sg [] = true) :
    lexSegs (flat sg) = some sg := by
  have hs : segs (flat sg) = sg := by
    unfold segs
    rw [segsF_of_canon sg none _ [] ha hc (by omega)]
    obtain ⟨s, rest, rfl⟩ := alt_head ha
    simp [preGap]
  unfold lexSegs
  simp only [hs, chkA_check sg none hc, and_self, ↓reduceIte]

end Fp.ExprLex
