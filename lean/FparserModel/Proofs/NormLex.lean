import FparserModel.Norm

/-! layout-insensitivity of the independent lexer: step lemmas (partial `lexF_layout`) -/
namespace Fp.Norm
open Fp

/-- blanks between tokens are skipped, in every mode, at the cost of one unit of fuel each -/
theorem lexGo_blanks (k n : Nat) (m : Mode) (s : Str) :
    lexGo (n + k) m (List.replicate k ' ' ++ s) = lexGo n m s := by
  induction k with
  | zero => simp
  | succ k ih =>
    have : n + (k + 1) = (n + k) + 1 := by omega
    rw [this, List.replicate_succ, List.cons_append]
    simp only [lexGo]
    simpa [isBlank] using ih

theorem dropWhile_comment (cm s : Str) (h : ∀ c ∈ cm, c ≠ '\n') :
    (cm ++ '\n' :: s).dropWhile (· != '\n') = '\n' :: s := by
  induction cm with
  | nil => simp
  | cons c cm ih =>
    have hc : c ≠ '\n' := h c (by simp)
    simp [hc]
    exact ih (fun x hx => h x (by simp [hx]))

/-- a trailing comment is invisible: lexing continues at the newline that ends it -/
theorem lexGo_comment (n : Nat) (m : Mode) (cm s : Str) (h : ∀ c ∈ cm, c ≠ '\n') :
    lexGo (n + 1) m ('!' :: (cm ++ '\n' :: s)) = lexGo n m ('\n' :: s) := by
  simp only [lexGo]
  simp [isBlank, dropWhile_comment cm s h]

/-- a statement ends at a newline or `;` exactly when it has at least one token -/
theorem lexGo_newline_mid (n : Nat) (s : Str) :
    lexGo (n + 1) .mid ('\n' :: s) = .eos :: lexGo n .bol s := by
  simp [lexGo, isBlank]

theorem lexGo_semicolon_mid (n : Nat) (s : Str) :
    lexGo (n + 1) .mid (';' :: s) = .eos :: lexGo n .bol s := by
  simp [lexGo, isBlank]

/-- blank lines and comment lines produce no token -/
theorem lexGo_newline_bol (n : Nat) (s : Str) :
    lexGo (n + 1) .bol ('\n' :: s) = lexGo n .bol s := by
  simp [lexGo, isBlank]

theorem dropWhile_blanks (k : Nat) (s : Str) :
    (List.replicate k ' ' ++ '\n' :: s).dropWhile isBlank = '\n' :: s := by
  induction k with
  | zero => simp [isBlank]
  | succ k ih => simp [List.replicate_succ, isBlank] at ih ⊢; exact ih

/-- `&` + blanks + newline inside a statement: the newline is not a statement boundary and
    the next line continues the statement (an optional leading `&` is skipped too) -/
theorem lexGo_continuation (k n : Nat) (s : Str) :
    lexGo (n + k + 2) .mid ('&' :: (List.replicate k ' ' ++ '\n' :: s)) = lexGo n .cont s := by
  have e : n + k + 2 = (n + 1 + k) + 1 := by omega
  rw [e]
  simp only [lexGo]
  have hd := dropWhile_blanks k s
  simp only [isBlank, hd]
  simp
  rw [lexGo_blanks k (n + 1) .cont ('\n' :: s)]
  simp [lexGo, isBlank]

theorem lexGo_cont_amp (n : Nat) (s : Str) :
    lexGo (n + 1) .cont ('&' :: s) = lexGo n .mid s := by
  simp [lexGo, isBlank]

end Fp.Norm

namespace Fp.Norm
open Fp

/-- first character of a name as far as the lexer's dispatch is concerned (true for every
    ASCII letter and `_`, see the examples) -/
def startOK (c : Char) : Bool :=
  isNameStart c && isWord c && !isBlank c && c != '!' && c != '\n' && c != ';' && c != '&'
    && !isQuote c && !c.isDigit && c != '.'

/-- well-formed name text: starts like a name, consists of word characters -/
def wfName (w : Str) : Bool :=
  match w with
  | c :: cs => startOK c && cs.all isWord
  | [] => false

theorem takeWhile_word (w s : Str) (h : w.all isWord = true) :
    (w ++ ' ' :: s).takeWhile isWord = w := by
  induction w with
  | nil => simp [isWord]
  | cons c cs ih =>
    simp only [List.all_cons, Bool.and_eq_true] at h
    simp [h.1, ih h.2]

/-- a well-formed name followed by a blank is lexed as that name, whatever follows and in
    whatever mode (one unit of fuel) -/
theorem lexGo_name (n : Nat) (m : Mode) (w s : Str) (h : wfName w = true) :
    lexGo (n + 1) m (w ++ ' ' :: s) = .name w :: lexGo n .mid (' ' :: s) := by
  cases w with
  | nil => simp [wfName] at h
  | cons c cs =>
    simp only [wfName, startOK, Bool.and_eq_true, Bool.not_eq_true', bne_iff_ne, ne_eq] at h
    obtain ⟨⟨⟨⟨⟨⟨⟨⟨⟨⟨h1, h2⟩, h3⟩, h4⟩, h5⟩, h6⟩, h7⟩, h8⟩, h9⟩, h10⟩, hcs⟩ := h
    have hall : (c :: cs).all isWord = true := by simp [h2, hcs]
    have htw := takeWhile_word (c :: cs) s hall
    simp only [List.cons_append] at htw ⊢
    simp only [lexGo, h3, h8, h9, h1, htw]
    simp [isQuote, h4, h5, h6, h7, h10]

example : wfName "end_do2".toList = true := by decide
example : ("abcdefghijklmnopqrstuvwxyzABCDEFGHIJKLMNOPQRSTUVWXYZ_".toList.all startOK) = true := by
  decide

end Fp.Norm

namespace Fp.Norm
open Fp

/-- rendering of a statement made of names: every name is followed by `1 + k` blanks (the
    layout), the statement by a newline -/
def renderNames : List (Str × Nat) → Str
  | [] => ['\n']
  | (w, k) :: r => w ++ ' ' :: (List.replicate k ' ' ++ renderNames r)

def costNames : List (Str × Nat) → Nat
  | [] => 1
  | (_, k) :: r => 2 + k + costNames r

theorem lexGo_renderNames (ws : List (Str × Nat)) (h : ∀ p ∈ ws, wfName p.1 = true) :
    ∀ (n : Nat) (m : Mode) (s : Str), (ws = [] → m = .mid) →
      lexGo (n + costNames ws) m (renderNames ws ++ s)
        = ws.map (fun p => Tok.name p.1) ++ .eos :: lexGo n .bol s := by
  induction ws with
  | nil =>
    intro n m s hm
    rw [hm rfl]
    simpa [renderNames, costNames] using lexGo_newline_mid n s
  | cons p r ih =>
    intro n m s _
    obtain ⟨w, k⟩ := p
    have hw : wfName w = true := h (w, k) (by simp)
    have e : n + costNames ((w, k) :: r) = (n + costNames r + (k + 1)) + 1 := by
      simp [costNames]; omega
    rw [e]
    simp only [renderNames, List.append_assoc, List.cons_append]
    rw [lexGo_name _ m w _ hw]
    have e2 : ' ' :: (List.replicate k ' ' ++ (renderNames r ++ s))
        = List.replicate (k + 1) ' ' ++ (renderNames r ++ s) := by
      simp [List.replicate_succ]
    rw [e2, lexGo_blanks (k + 1) (n + costNames r) .mid]
    rw [ih (fun q hq => h q (by simp [hq])) n .mid s (fun _ => rfl)]
    simp

theorem renderNames_length (ws : List (Str × Nat)) (h : ∀ p ∈ ws, wfName p.1 = true) :
    costNames ws ≤ (renderNames ws).length := by
  induction ws with
  | nil => simp [costNames, renderNames]
  | cons p r ih =>
    obtain ⟨w, k⟩ := p
    have hw : wfName w = true := h (w, k) (by simp)
    have : 1 ≤ w.length := by
      cases w with
      | nil => simp [wfName] at hw
      | cons _ _ => simp
    have := ih (fun q hq => h q (by simp [hq]))
    simp [costNames, renderNames]
    omega

theorem lexGo_bol_nil (n : Nat) : lexGo n .bol [] = [] := by
  cases n <;> simp [lexGo]

end Fp.Norm
