import FparserModel.Proofs.ExprLex2Strip

/-! the half re-lexing lemma -/
set_option linter.unusedSimpArgs false
set_option linter.unusedVariables false
namespace Fp.ExprLex
open Fp Fp.Expr

/-! ### text and tokens of trimmed segment lists -/

theorem flat_mapLast : ∀ (sg : List Seg), alt sg = true → wordsNB sg →
    flat (mapLast rstrip sg) = rstrip (flat sg)
  | [.gap s], _, _ => by simp [mapLast, flat, Seg.text]
  | .gap s :: .word k m :: rest, ha, hw => by
    simp only [alt] at ha
    cases rest with
    | nil => simp [alt] at ha
    | cons z r =>
      have ih := flat_mapLast (z :: r) ha hw.2
      obtain ⟨hm, _, hme, _⟩ := hw.1
      simp only [mapLast, flat_cons, Seg.text] at ih ⊢
      rw [ih, ← List.append_assoc, ← List.append_assoc s m]
      have hne : s ++ m ≠ [] := by simp [hm]
      have he : endsBlank (s ++ m) = false := by rw [endsBlank_append hm]; exact hme
      rw [rstrip_app_of_end _ hne he]
  | [], ha, _ => by simp [alt] at ha
  | .word _ _ :: _, ha, _ => by simp [alt] at ha
  | .gap _ :: .gap _ :: _, ha, _ => by simp [alt] at ha

theorem startsBlank_flat (s : Str) (rest : List Seg) (ha : alt (.gap s :: rest) = true)
    (hw : wordsNB (.gap s :: rest)) : startsBlank (flat (.gap s :: rest)) = startsBlank s := by
  rw [flat_cons, Seg.text]
  by_cases hs : s = []
  · subst hs
    cases rest with
    | nil => rfl
    | cons x r =>
      cases x with
      | gap _ => simp [alt] at ha
      | word k m =>
        obtain ⟨hm, hsb, _⟩ := hw.1
        simp only [List.nil_append, flat_cons, Seg.text]
        rw [startsBlank_append hm]; exact hsb
  · exact startsBlank_append hs

theorem flat_mapFirst (s : Str) (rest : List Seg) (ha : alt (.gap s :: rest) = true)
    (hw : wordsNB (.gap s :: rest)) :
    flat (mapFirst lstrip (.gap s :: rest)) = lstrip (flat (.gap s :: rest)) := by
  simp only [mapFirst, flat_cons, Seg.text]
  by_cases hl : lstrip s = []
  · rw [hl]
    unfold lstrip at hl ⊢
    rw [dw_app_nil isSpace s _ hl]
    cases rest with
    | nil => rfl
    | cons x r =>
      cases x with
      | gap _ => simp [alt] at ha
      | word k m =>
        obtain ⟨hm, hsb, _⟩ := hw.1
        have : startsBlank (flat (Seg.word k m :: r)) = false := by
          rw [flat_cons, Seg.text, startsBlank_append hm]; exact hsb
        have := lstrip_of_not_startsBlank _ this
        unfold lstrip at this
        rw [this]; rfl
  · unfold lstrip at hl ⊢
    rw [(dw_app_ne isSpace s _ hl).1]

theorem toksOf_mapLast : ∀ (sg : List Seg) (g : Bool), toksOf g (mapLast rstrip sg) = toksOf g sg
  | [], _ => rfl
  | [.gap s], g => by
    simp only [mapLast, toksOf, strip_rstrip]
    by_cases hb : strip s = []
    · simp [hb]
    · simp only [hb, ↓reduceIte, startsBlank_rstrip s (rstrip_ne_of_strip hb)]
  | [.word _ _], _ => rfl
  | .gap s :: y :: rest, g => by
    simp only [mapLast, toksOf]
    split
    · exact toksOf_mapLast (y :: rest) _
    · rw [toksOf_mapLast (y :: rest) _]
  | .word k m :: y :: rest, g => by
    simp only [mapLast, toksOf]
    rw [toksOf_mapLast (y :: rest) _]

theorem toksOf_mapFirst (s : Str) (rest : List Seg) (g : Bool) :
    toksOf (g && !startsBlank s) (.gap (lstrip s) :: rest) = toksOf g (.gap s :: rest) := by
  simp only [toksOf, strip_lstrip]
  by_cases hb : strip s = []
  · simp only [hb, ↓reduceIte]
    have hall := (strip_nil_iff s).mp hb
    have hl : lstrip s = [] := (lstrip_nil_iff s).mpr hall
    rw [hl]
    cases s with
    | nil => simp [startsBlank]
    | cons c t =>
      have : isSpace c = true := by
        simp only [allBlank, List.all_cons, Bool.and_eq_true] at hall; exact hall.1
      simp [startsBlank, this]
  · simp only [hb, ↓reduceIte, startsBlank_lstrip, Bool.not_false, Bool.and_true,
      endsBlank_lstrip s (lstrip_ne_of_strip hb)]

/-! ### `chkA` of trimmed segment lists -/

theorem chkA_words {prev : Option Char} {sg : List Seg} (h : chkA prev sg [] = true) : wordsNB sg :=
  wordsNB_of_check sg prev (chkA_check sg prev h)

theorem chkA_mapLast (sg : List Seg) (prev : Option Char) (ha : alt sg = true)
    (hc : chkA prev sg [] = true) : chkA prev (mapLast rstrip sg) [] = true := by
  obtain ⟨A, s, rfl⟩ := alt_last sg ha
  obtain ⟨b, hs, _⟩ := rstrip_decomp s
  rw [mapLast_snoc]
  rw [hs] at hc
  exact chkA_cut _ prev _ (chkA_rstrip_last A prev hc)

theorem lastOr_blank {prev : Option Char} {a : Str} {c : Char} (hne : a ≠ [])
    (ha : allBlank a = true) (h : lastOr prev a = some c) : isSpace c = true := by
  obtain ⟨d, hd⟩ := getLast_some_of_ne hne
  simp only [lastOr, hd, Option.some.injEq] at h
  subst h
  simp only [allBlank, List.all_eq_true] at ha
  exact ha d (List.mem_of_getLast? hd)

theorem chkA_mapFirst (s : Str) (rest : List Seg) (prev : Option Char)
    (hc : chkA prev (.gap s :: rest) [] = true)
    (hp : ∀ c, prev = some c → bndc c (flat (.gap s :: rest))) :
    chkA none (mapFirst lstrip (.gap s :: rest)) [] = true := by
  obtain ⟨a, hs, ha⟩ := lstrip_decomp s
  simp only [mapFirst]
  have h1 : chkA (lastOr prev a) (.gap (lstrip s) :: rest) [] = true := by
    rw [hs] at hc; exact chkA_lstrip hc ha
  cases hl : lastOr prev a with
  | none => rw [hl] at h1; exact h1
  | some c =>
    rw [hl] at h1
    by_cases hne : a = []
    · subst hne
      rw [lastOr_nil] at hl
      have hb := hp c hl
      simp only [List.nil_append] at hs
      rw [hs] at hb
      exact chkA_prev_none c _ [] h1 (by simpa using hb.1) (by simpa using hb.2)
    · have hsp := lastOr_blank hne ha hl
      exact chkA_prev_none c _ [] h1 (fun h => by subst h; cases hsp) (fun h => by subst h; cases hsp)

/-! ### the two trimming steps preserve "is the checked segmentation of its text" -/

theorem relex_rstrip (sg : List Seg) (prev : Option Char) (ha : alt sg = true)
    (hc : chkA prev sg [] = true) :
    alt (mapLast rstrip sg) = true ∧ chkA prev (mapLast rstrip sg) [] = true ∧
    flat (mapLast rstrip sg) = rstrip (flat sg) ∧ ∀ g, toksOf g (mapLast rstrip sg) = toksOf g sg :=
  ⟨by rw [alt_mapLast]; exact ha, chkA_mapLast sg prev ha hc, flat_mapLast sg ha (chkA_words hc),
   toksOf_mapLast sg⟩

theorem relex_lstrip (sg : List Seg) (prev : Option Char) (ha : alt sg = true)
    (hc : chkA prev sg [] = true) (hp : ∀ c, prev = some c → bndc c (flat sg)) :
    alt (mapFirst lstrip sg) = true ∧ chkA none (mapFirst lstrip sg) [] = true ∧
    flat (mapFirst lstrip sg) = lstrip (flat sg) ∧
    ∀ g, toksOf (g && !startsBlank (flat sg)) (mapFirst lstrip sg) = toksOf g sg := by
  obtain ⟨s, rest, rfl⟩ := alt_head ha
  refine ⟨by rw [alt_mapFirst]; exact ha, chkA_mapFirst s rest prev hc hp,
    flat_mapFirst s rest ha (chkA_words hc), ?_⟩
  intro g
  rw [startsBlank_flat s rest ha (chkA_words hc)]
  exact toksOf_mapFirst s rest g

theorem rstrip_strip (x : Str) : rstrip (strip x) = strip x := by
  apply rstrip_of_not_endsBlank
  unfold strip
  by_cases h : lstrip (rstrip x) = []
  · rw [h]; rfl
  · rw [endsBlank_lstrip _ h]; exact endsBlank_rstrip x

end Fp.ExprLex
