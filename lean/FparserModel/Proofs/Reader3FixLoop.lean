import FparserModel.Proofs.ReaderCpp
import FparserModel.Proofs.ReaderOmp

/-!
# Reader3FixLoop — the fixed-form continuation loop for arbitrary reader states (C05/C12)

`ReadsAt r ls r'` : successive `get_single_line` calls on `r` return the lines `ls` (each paired
with `linecount` right after it was returned) and leave the reader in `r'`.

`fixLoop_run` : the peek/consume loop of the fixed-form branch of `get_source_item` over any such
run of *follow* lines (continuation lines with a clean body, comment lines).
-/
namespace Fp.Reader
open Fp

/-! ### `get_single_line`, `put_single_line`, `get_next_line` -/

theorem getSingleLine_setFifo (r : Rd) (f : List Item) :
    getSingleLine { r with fifo := f } =
      ((getSingleLine r).1, { (getSingleLine r).2 with fifo := f }) := by
  obtain ⟨src, closed, filo, fifo, lc, linesRev, isFree, ic, omp, dirs⟩ := r
  unfold getSingleLine
  cases filo with
  | cons l fl => rfl
  | nil =>
    simp only []
    cases closed with
    | true => rfl
    | false =>
      simp only [Bool.false_eq_true, if_false]
      cases pull (omp && !isFree) (ic && !isFree) src lc linesRev with
      | mk o rest1 =>
        obtain ⟨src', lc', ls'⟩ := rest1
        cases o <;> rfl

/-- a line that has just been returned and is pushed back is returned again, and the reader is
    exactly where it was -/
theorem getSingleLine_unput (r r' : Rd) (l : Str) (h : getSingleLine r = (some l, r')) :
    getSingleLine (putSingleLine r' l) = (some l, r') := by
  have hs := getSingleLine_some r l (by rw [h])
  rw [h] at hs
  simp only [] at hs
  unfold getSingleLine putSingleLine
  simp only []
  have : r'.linecount - 1 + 1 = r'.linecount := by omega
  rw [this]

/-- undo the last `get_single_line` when it returned a line (`get_next_line` = get + unread) -/
def unread (r : Rd) : Option Str → Rd
  | none => r
  | some l => putSingleLine r l

theorem getNextLine_eq (r : Rd) :
    getNextLine r = ((getSingleLine r).1, unread (getSingleLine r).2 (getSingleLine r).1) := by
  unfold getNextLine
  cases h : getSingleLine r with
  | mk o r' => cases o <;> rfl

theorem unread_some (r : Rd) (l : Str) : unread r (some l) = putSingleLine r l := rfl

theorem unread_setFifo (r : Rd) (o : Option Str) (f : List Item) :
    unread { r with fifo := f } o = { unread r o with fifo := f } := by
  cases o <;> rfl

/-! ### runs of lines with their line numbers -/

inductive ReadsAt : Rd → List (Str × Nat) → Rd → Prop where
  | nil (r : Rd) : ReadsAt r [] r
  | cons {r r1 r' : Rd} {l : Str} {n : Nat} {ls : List (Str × Nat)} :
      getSingleLine r = (some l, r1) → n = r1.linecount → ReadsAt r1 ls r' →
      ReadsAt r ((l, n) :: ls) r'

theorem ReadsAt.measure {r r' : Rd} {ls : List (Str × Nat)} (h : ReadsAt r ls r') :
    r'.src.length + r'.filo.length + ls.length ≤ r.src.length + r.filo.length := by
  induction h with
  | nil r => simp
  | cons hg _ _ ih =>
    have := getSingleLine_measure _ _ _ hg
    simp only [List.length_cons]; omega

theorem ReadsAt.reads {r r' : Rd} {ls : List (Str × Nat)} (h : ReadsAt r ls r') :
    Reads r (ls.map (·.1)) r' := by
  induction h with
  | nil r => exact Reads.nil r
  | cons hg _ _ ih => exact Reads.cons hg ih

/-! ### follow lines -/

/-- no `!`, no quote: `handle_inline_comment` is the identity -/
def fixClean (s : Str) : Bool := !s.contains '!' && !s.contains '"' && !s.contains '\''

theorem hic_fixClean (s : Str) (n : Nat) (h : fixClean s = true) :
    handleInlineComment s n none = ⟨s, none, false, []⟩ := by
  unfold fixClean at h
  unfold handleInlineComment
  rw [if_pos]
  simpa [Bool.and_assoc] using h

/-- the loop condition on the peeked line: `_is_fix_cont(line) or _is_fix_comment(line)` -/
def isFollow (l : Str) : Bool := isFixCont (some l) || isFixCommentS l

/-- every line is a comment line or a continuation line with a clean body (columns 7…) -/
def FollowOk (ls : List (Str × Nat)) : Prop :=
  ∀ p ∈ ls, isFollow p.1 = true ∧ (isFixCommentS p.1 = false → fixClean (p.1.drop 6) = true)

/-- text contributed by the continuation lines: columns 7… verbatim, nothing stripped -/
def fixPieces : List (Str × Nat) → Str
  | [] => []
  | (l, _) :: ls => (if isFixCommentS l then [] else l.drop 6) ++ fixPieces ls

/-- the comment lines (blank lines: empty text), whole line, own line number -/
def fixComments : List (Str × Nat) → List Item
  | [] => []
  | (l, n) :: ls => (if isFixCommentS l then [Item.comment l n n false] else []) ++ fixComments ls

/-- line number of the last continuation line (`e` when there is none) -/
def fixEnd (e : Nat) : List (Str × Nat) → Nat
  | [] => e
  | (l, n) :: ls => fixEnd (if isFixCommentS l then e else n) ls

theorem fixLoop_run : ∀ (ls : List (Str × Nat)) (ra r_end r_fin : Rd) (nxt : Option Str) (F : List Item)
    (acc : Str) (endl fuel : Nat),
    ReadsAt ra ls r_end → FollowOk ls → getSingleLine r_end = (nxt, r_fin) →
    (isFixCont nxt || isFixComment nxt) = false → ls.length + 1 ≤ fuel →
    fixLoop fuel (getNextLine { ra with fifo := F }).1 acc none endl (getNextLine { ra with fifo := F }).2 =
      (acc ++ fixPieces ls, fixEnd endl ls, unread { r_fin with fifo := F ++ fixComments ls } nxt)
  | [], ra, r_end, r_fin, nxt, F, acc, endl, fuel, hr, _, hn, hstop, hf => by
    cases hr
    cases fuel with
    | zero => simp at hf
    | succ fuel =>
      rw [getNextLine_eq, getSingleLine_setFifo, hn]
      unfold fixLoop
      simp only [hstop, Bool.false_eq_true, if_false, fixPieces, fixEnd, fixComments,
        List.append_nil, unread_setFifo]
  | (l, n) :: ls, ra, r_end, r_fin, nxt, F, acc, endl, fuel, hr, hok, hn, hstop, hf => by
    cases hr with
    | cons hg hn1 hr' =>
      rename_i r1
      cases fuel with
      | zero => simp at hf
      | succ fuel =>
        have hfuel : ls.length + 1 ≤ fuel := by simp only [List.length_cons] at hf; omega
        obtain ⟨hfol, hcl⟩ := hok (l, n) List.mem_cons_self
        have hok' : FollowOk ls := fun p hp => hok p (List.mem_cons_of_mem _ hp)
        have hgF : getSingleLine { ra with fifo := F } = (some l, { r1 with fifo := F }) := by
          rw [getSingleLine_setFifo, hg]
        rw [getNextLine_eq, hgF]
        unfold fixLoop
        have hcond : (isFixCont (some l) || isFixComment (some l)) = true := hfol
        simp only [unread_some, hcond, if_true, getSingleLine_unput _ _ _ hgF]
        by_cases hc : isFixCommentS l = true
        · simp only [hc, if_true]
          have ih := fixLoop_run ls r1 r_end r_fin nxt (F ++ [Item.comment l r1.linecount r1.linecount false])
            acc endl fuel hr' hok' hn hstop hfuel
          refine ih.trans ?_
          simp only [fixPieces, fixEnd, fixComments, hc, if_true, List.nil_append, List.append_assoc, hn1]
        · have hc' : isFixCommentS l = false := by simpa using hc
          simp only [hc', Bool.false_eq_true, if_false, hic_fixClean _ r1.linecount (hcl hc'),
            List.append_nil]
          have ih := fixLoop_run ls r1 r_end r_fin nxt F (acc ++ l.drop 6) r1.linecount fuel hr' hok' hn
            hstop hfuel
          refine ih.trans ?_
          simp only [fixPieces, fixEnd, fixComments, hc', Bool.false_eq_true, if_false, List.nil_append,
            List.append_assoc, hn1]

end Fp.Reader
