import FparserModel.Proofs.ExprLex2Ctx3

/-! `lexSegs` ⇒ canonical form; transfer of `chkA` to other contexts -/
set_option linter.unusedSimpArgs false
set_option linter.unusedVariables false
namespace Fp.ExprLex
open Fp Fp.Expr

/-! ### the output of `segs` is canonical -/

def tokA : List Seg → Str → Bool
  | [], _ => true
  | .gap s :: rest, after => noTok s (flat rest ++ after) && tokA rest after
  | .word k m :: rest, after => (tokAt (m ++ (flat rest ++ after)) == some (k, m.length)) && tokA rest after

theorem chkA_of_check : ∀ (sg : List Seg) (prev : Option Char), checkSegs prev sg = true →
    tokA sg [] = true → chkA prev sg [] = true
  | [], _, _, _ => rfl
  | .gap s :: rest, prev, h, ht => by
    simp only [checkSegs, Bool.and_eq_true] at h
    simp only [tokA, Bool.and_eq_true] at ht
    simp only [chkA, segC, Bool.and_eq_true, List.append_nil] at ht ⊢
    exact ⟨⟨h.1, ht.1⟩, chkA_of_check rest _ h.2 ht.2⟩
  | .word k m :: rest, prev, h, ht => by
    simp only [checkSegs, Bool.and_eq_true] at h
    simp only [tokA, Bool.and_eq_true] at ht
    simp only [chkA, segC, Bool.and_eq_true, List.append_nil] at ht ⊢
    exact ⟨⟨h.1, ht.1⟩, chkA_of_check rest _ h.2 ht.2⟩

theorem alt_gap_irrel (a b : Str) (r : List Seg) : alt (.gap a :: r) = alt (.gap b :: r) := by
  cases r with
  | nil => rfl
  | cons x r' => cases x <;> rfl

theorem segsF_canon : ∀ (f : Nat) (s acc : Str), s.length < f →
    ∃ g rest, segsF f s acc = .gap (acc.reverse ++ g) :: rest ∧ alt (.gap g :: rest) = true ∧
      tokA (.gap g :: rest) [] = true ∧ g ++ flat rest = s
  | 0, _, _, h => by omega
  | f+1, [], acc, _ => ⟨[], [], by simp [segsF], rfl, rfl, rfl⟩
  | f+1, c :: cs, acc, h => by
    cases ht : tokAt (c :: cs) with
    | none =>
      obtain ⟨g', rest', e1, e2, e3, e4⟩ := segsF_canon f cs (c :: acc) (by simpa using h)
      refine ⟨c :: g', rest', ?_, ?_, ?_, by simp [e4]⟩
      · rw [segsF, ht]; simp only; rw [e1]; simp
      · rw [alt_gap_irrel _ g']; exact e2
      · simp only [tokA, noTok, Bool.and_eq_true, List.append_nil] at e3 ⊢
        refine ⟨⟨?_, e3.1⟩, e3.2⟩
        rw [List.cons_append, e4, ht]; rfl
    | some kn =>
      obtain ⟨k, n⟩ := kn
      have hb := tokAt_bound _ _ _ ht
      obtain ⟨g', rest', e1, e2, e3, e4⟩ := segsF_canon f ((c :: cs).drop n) [] (by
        simp only [List.length_drop, List.length_cons] at h hb ⊢; omega)
      refine ⟨[], .word k ((c :: cs).take n) :: .gap g' :: rest', ?_, ?_, ?_, ?_⟩
      · rw [segsF, ht]; simp only; rw [e1]; simp
      · simpa [alt] using e2
      · simp only [tokA, noTok, Bool.true_and, Bool.and_eq_true, beq_iff_eq, List.append_nil,
          flat_cons, Seg.text] at e3 ⊢
        refine ⟨?_, e3⟩
        rw [e4, List.take_append_drop, ht, List.length_take]
        simp only [List.length_cons] at hb ⊢
        rw [Nat.min_eq_left hb.2]
      · simp only [flat_cons, Seg.text, List.nil_append]
        rw [e4, List.take_append_drop]

/-- **`lexSegs` accepts exactly the canonical checked segment lists** -/
theorem lexSegs_canon (s : Str) (sg : List Seg) (h : lexSegs s = some sg) :
    flat sg = s ∧ alt sg = true ∧ chkA none sg [] = true := by
  have hall : sg = segs s ∧ flat sg = s ∧ checkSegs none sg = true := by
    unfold lexSegs at h
    simp only at h
    split at h
    · rename_i hc; cases h; exact ⟨rfl, hc⟩
    · cases h
  obtain ⟨hsg, hf, hck⟩ := hall
  obtain ⟨g, rest, e1, e2, e3, e4⟩ := segsF_canon (s.length + 1) s [] (by omega)
  have : sg = .gap g :: rest := by rw [hsg]; unfold segs; rw [e1]; simp
  subst this
  exact ⟨hf, e2, chkA_of_check _ none hck e3⟩

theorem lexSegs_iff (s : Str) (sg : List Seg) :
    lexSegs s = some sg ↔ flat sg = s ∧ alt sg = true ∧ chkA none sg [] = true :=
  ⟨lexSegs_canon s sg, fun ⟨h1, h2, h3⟩ => h1 ▸ lexSegs_of_canon sg h2 h3⟩

/-! ### `noHit` / `noTok` on parts of a gap -/

theorem noHit_suffix (q : Pat) : ∀ (a b : Str) (prev : Option Char) (after : Str),
    noHit q prev (a ++ b) after = true → noHit q (lastOr prev a) b after = true
  | [], _, _, _, h => h
  | c :: t, b, prev, after, h => by
    simp only [List.cons_append, noHit, Bool.and_eq_true] at h
    rw [lastOr_cons]
    exact noHit_suffix q t b (some c) after h.2

theorem noHit_prefix (q : Pat) : ∀ (a b : Str) (prev : Option Char) (after : Str),
    noHit q prev (a ++ b) after = true → noHit q prev a (b ++ after) = true
  | [], _, _, _, _ => rfl
  | c :: t, b, prev, after, h => by
    simp only [List.cons_append, noHit, Bool.and_eq_true, List.append_assoc] at h ⊢
    exact ⟨h.1, noHit_prefix q t b (some c) after h.2⟩

theorem noTok_suffix : ∀ (a b after : Str), noTok (a ++ b) after = true → noTok b after = true
  | [], _, _, h => h
  | c :: t, b, after, h => by
    simp only [List.cons_append, noTok, Bool.and_eq_true] at h
    exact noTok_suffix t b after h.2

theorem noTok_prefix : ∀ (a b after : Str), noTok (a ++ b) after = true → noTok a (b ++ after) = true
  | [], _, _, _ => rfl
  | c :: t, b, after, h => by
    simp only [List.cons_append, noTok, Bool.and_eq_true, List.append_assoc] at h ⊢
    exact ⟨h.1, noTok_prefix t b after h.2⟩

theorem noTok_cut : ∀ (s W y : Str), noTok s (W ++ y) = true → noTok s W = true
  | [], _, _, _ => rfl
  | c :: t, W, y, h => by
    simp only [noTok, Bool.and_eq_true, Option.isNone_iff_eq_none] at h ⊢
    refine ⟨?_, noTok_cut t W y h.2⟩
    have e : c :: t ++ (W ++ y) = (c :: t ++ W) ++ y := by simp
    rw [e] at h
    exact tokAt_none_cut _ y h.1

theorem getLast_cons_ne {α} (c : α) {t : List α} (h : t ≠ []) : (c :: t).getLast? = t.getLast? := by
  cases t with
  | nil => exact absurd rfl h
  | cons d t' => simp [List.getLast?_cons_cons]

theorem getLast_some_of_ne {α} {l : List α} (h : l ≠ []) : ∃ c, l.getLast? = some c := by
  cases hl : l.getLast? with
  | none => simp [List.getLast?_eq_none_iff] at hl; exact absurd hl h
  | some c => exact ⟨c, rfl⟩

theorem noHit_cut (q : Pat) : ∀ (s : Str) (prev : Option Char) (W y : Str),
    noHit q prev s (W ++ y) = true → (∀ ch, (s ++ W).getLast? = some ch → bndc ch y) →
    noHit q prev s W = true
  | [], _, _, _, _, _ => rfl
  | c :: t, prev, W, y, h, hb => by
    simp only [noHit, Bool.and_eq_true, Option.isNone_iff_eq_none] at h ⊢
    constructor
    · have e : c :: t ++ (W ++ y) = (c :: t ++ W) ++ y := by simp
      rw [e] at h
      obtain ⟨ch, hch⟩ := getLast_some_of_ne (l := c :: t ++ W) (by simp)
      exact matchAt_none_cut q prev _ y ch h.1 hch (hb ch hch)
    · apply noHit_cut q t (some c) W y h.2
      intro ch hch
      by_cases hne : t ++ W = []
      · rw [hne] at hch; cases hch
      · apply hb ch
        rw [List.cons_append, getLast_cons_ne c hne]; exact hch

theorem noHit_prev (q : Pat) (c : Char) : ∀ (s W : Str),
    noHit q (some c) s W = true → (c = '*' → headIs (s ++ W) '*' = false) →
    (c = '/' → headIs (s ++ W) '/' = false) → noHit q none s W = true
  | [], _, _, _, _ => rfl
  | a :: t, W, h, h1, h2 => by
    simp only [noHit, Bool.and_eq_true] at h ⊢
    rw [← matchAt_prev q c (a :: t ++ W) h1 h2]
    exact h

end Fp.ExprLex
