"""Co-simulation of the Tree3 slice (C10 construction discipline, C18 copies from any node).

For generated programs (fv/gen.py, comments / directives / cpp lines kept) and a family of
programs that provoke the two irregular construction paths (re-use of cached statement objects
after an abandoned block attempt; `Equivalence_Set.match`):

  (a) the REAL construction history (`_set_parent` calls, `Base.__init__` calls, the value of
      `node.children` whenever it changed) is recorded and checked against the model's
      discipline `BottomUp` (driver command `bottomup`: first violating event);
  (b) the history replayed in the arena model gives the real parent map / walk / get_root;
  (c) REAL `copy.deepcopy` and `pickle` round trips started at the root and at random INNER
      nodes are compared with the model (`copy3`): verdict, canonical form of the whole copied
      tree, id-disjointness, parent links, node count, the label / construct-name list along
      `walk` of the copied root, the position of the copy of the start node in that walk, and
      that the original's labels are untouched;
  (d) the generated protocol / construction facts (Generated/Tree3Proto.lean) are current;
  (e) negative controls: in-process mutants of the real code (a combinator re-using a node
      object, a conditional `_set_parent`, `Program.match` listing a unit twice, a
      `__getstate__` added to one class, a constructor whose signature no longer fits
      `__getnewargs__`) must each be reported.

    python -m fv.cosim_tree3 --seed 0 --n 200
"""
import argparse
import copy
import os
import pickle
import random
import sys
import time

from fv import repo
repo.activate()

from fv import model as _model            # noqa: E402
from fv import gen                        # noqa: E402
from fv import extract_classes            # noqa: E402
from fv.cosim_symtree import Recorder, real_canon, _sp_nodes, class_ids, facts_text_for, PROGRAMS  # noqa: E402

try:
    from fv import extract_tree3          # noqa: E402
except ImportError:                       # private development copy
    import extract_tree3                  # noqa: E402


# --------------------------------------------------------------------------- recorder

class Recorder3(Recorder):
    """`_set_parent` (outermost calls only), `Base.__init__`, and `children` whenever the value
    of `node.children` differs from the last recorded one: at `__init__` time, for every node
    handed to a `_set_parent`, and at the end."""

    def __init__(self, cids):
        super().__init__(cids)
        self.depth = 0
        self.last = {}

    def refresh(self, n):
        enc = self.enc_items(self.objs[n].children)
        if self.last.get(n, "") != enc:
            self.last[n] = enc
            self.events.append("C %d %s" % (n, enc))

    def __enter__(self):
        from fparser.two import utils
        self.utils = utils
        self.orig_sp = utils._set_parent
        self.orig_init = utils.Base.__init__
        rec = self

        def sp(parent_node, items):
            if rec.depth == 0:
                enc = rec.enc_items(items)
                for nd in _sp_nodes(items):
                    rec.refresh(rec.ids[id(nd)])
                p = rec.see(parent_node)
                rec.events.append("P %d %s" % (p, enc))
            rec.depth += 1
            try:
                return rec.orig_sp(parent_node, items)
            finally:
                rec.depth -= 1

        def init(obj, *a, **kw):
            n = rec.see(obj)
            rec.refresh(n)
            rec.events.append("R %d" % n)
            return rec.orig_init(obj, *a, **kw)
        utils._set_parent = sp
        utils.Base.__init__ = init
        return self

    def finish(self):
        i = 0
        while i < len(self.objs):
            self.refresh(i)
            i += 1
        return "\n".join(self.events)


def parse_recorded(src, std, cids, directives=True):
    from fparser.two.parser import ParserFactory
    from fparser.common.readfortran import FortranStringReader
    parser = ParserFactory().create(std=std)
    reader = FortranStringReader(src, ignore_comments=False, process_directives=directives)
    rec = Recorder3(cids)
    with rec:
        tree = parser(reader)
        if tree is not None:
            rec.see(tree)
    script = rec.finish()
    return tree, rec, script


# --------------------------------------------------------------------------- programs

def decorate(p, seed, mode):
    from fv.props import c10
    return c10.decorate(p, seed, mode)


def special_program(rng):
    """programs that take the irregular construction paths: a non-block DO (or two sharing a
    label) whose body holds complete inner constructs (the labelled block-DO attempt is
    abandoned after they have been built: cached statements are re-used), EQUIVALENCE sets
    (`Equivalence_Set.match` moves the first object), unnamed I/O units (`items` reassigned)."""
    L = []
    lab = [10 * rng.randint(1, 9)]

    def newlab():
        lab[0] += 10
        return lab[0]

    def stmt(d):
        k = rng.choice(["asg", "if", "do", "blk", "sel", "call", "io", "asg"])
        pad = "  " * d
        if d > 3:
            k = "asg"
        if k == "asg":
            L.append(pad + "%s = %s + %d" % (rng.choice("xyz"), rng.choice("xyz"), rng.randint(1, 9)))
        elif k == "call":
            L.append(pad + "call sub(%s, %d)" % (rng.choice("xyz"), rng.randint(1, 9)))
        elif k == "io":
            L.append(pad + rng.choice(["write(6, *) x", "read(5, 100) y", "write(6, nml) ", "write(*, '(a)') 'q'"]).rstrip())
        elif k == "if":
            nm = rng.choice(["", "", "chk%d: " % rng.randint(1, 9)])
            L.append(pad + "%sif (x > %d) then" % (nm, rng.randint(0, 5)))
            for _ in range(rng.randint(1, 2)):
                stmt(d + 1)
            if rng.random() < 0.4:
                L.append(pad + "else" + (" " + nm[:-2] if nm and rng.random() < 0.5 else ""))
                stmt(d + 1)
            L.append(pad + "end if" + (" " + nm[:-2] if nm else ""))
        elif k == "do":
            L.append(pad + "do i = 1, %d" % rng.randint(2, 5))
            if rng.random() < 0.3:
                L.append(pad + "  ! inside")
            stmt(d + 1)
            L.append(pad + "end do")
        elif k == "blk":
            nm = rng.choice(["", "b%d: " % rng.randint(1, 9)])
            L.append(pad + nm + "block")
            L.append(pad + "  integer :: k%d" % rng.randint(1, 9))
            stmt(d + 1)
            L.append(pad + "end block" + (" " + nm[:-2] if nm else ""))
        elif k == "sel":
            L.append(pad + "select case (n)")
            L.append(pad + "case (1)")
            stmt(d + 1)
            L.append(pad + "case default")
            stmt(d + 1)
            L.append(pad + "end select")

    unit = rng.choice(["subroutine s%d" % rng.randint(1, 9), "program p"])
    L.append(unit)
    L.append("  integer :: i, j, n")
    L.append("  real :: x, y, z, a(4), b(4)")
    for _ in range(rng.randint(0, 2)):
        n = rng.randint(2, 4)
        objs = [rng.choice(["x", "y", "z", "a(1)", "b(2)", "a(i)"]) for _ in range(n)]
        sets = "(%s)" % ", ".join(objs)
        if rng.random() < 0.4:
            sets += ", (%s, %s)" % (rng.choice("xyz"), rng.choice(["a(2)", "b(1)"]))
        L.append("  equivalence " + sets)
    if rng.random() < 0.5:
        L.append("  ! a comment")
    for _ in range(rng.randint(1, 3)):
        la = newlab()
        shared = rng.random() < 0.35
        L.append("  do %d i = 1, 3" % la)
        if shared:
            L.append("    do %d j = 1, 2" % la)
        for _ in range(rng.randint(1, 3)):
            stmt(2 + shared)
        if rng.random() < 0.3:
            L.append("    !$omp flush")
        term = rng.choice(["x = y", "a(i) = b(i)", "continue"] if shared else ["x = y", "a(i) = b(i)"])
        L.append("%d %s" % (la, term))
        if rng.random() < 0.5:
            stmt(1)
    L.append("100 format(1x, a)")
    L.append("end " + unit.split()[0] + (" " + unit.split()[1] if rng.random() < 0.7 else ""))
    return "\n".join(L) + "\n"


# --------------------------------------------------------------------------- checks

def item_info(o):
    it = getattr(o, "item", None)
    if it is None:
        return None
    lab = getattr(it, "label", None)
    nm = getattr(it, "name", None)
    return (lab if isinstance(lab, int) else None, nm if isinstance(nm, str) else None)


def show_info(inf):
    if inf is None:
        return "-"
    return "%s:%s" % ("" if inf[0] is None else inf[0], "" if inf[1] is None else inf[1])


def infos_text(rec):
    out = []
    for i, o in enumerate(rec.objs):
        inf = item_info(o)
        if inf is not None:
            out.append("%d %s %s" % (i, "-" if inf[0] is None else inf[0],
                                     "-" if inf[1] is None else inf[1].encode("utf-8").hex()))
    return "\n".join(out)


def describe_event(rec, script, idx):
    evs = script.split("\n")
    if not (0 <= idx < len(evs)):
        return "?"
    t = evs[idx].split()
    names = []
    for w in t[1:]:
        if w.isdigit() and int(w) < len(rec.objs):
            names.append("%s=%s" % (w, type(rec.objs[int(w)]).__name__))
        elif w.startswith("n") and w[1:].isdigit() and int(w[1:]) < len(rec.objs):
            names.append("%s=%s" % (w, type(rec.objs[int(w[1:])]).__name__))
    return "event %d `%s` (%s)" % (idx, evs[idx][:80], ", ".join(names[:6]))


def check_discipline(m, tag, rec, script, root):
    rep = m.ask("bottomup", script, str(root))
    probs = []
    if rep[0] != "ok":
        where = ""
        if rep[0].startswith("bad:"):
            where = " at " + describe_event(rec, script, int(rep[0][4:]))
        probs.append("%s: the real construction history violates BottomUp: %s%s" % (tag, rep[1] or rep[0], where))
    elif rep[1]:
        probs.append("%s: %s" % (tag, rep[1]))
    st = dict(kv.split("=") for kv in rep[2].split())
    return probs, {k: int(v) for k, v in st.items()}


def check_tree(m, tag, tree, rec, script, root):
    from fparser.two.utils import Base, walk
    probs = []
    rep = m.ask("tree", script, str(root))
    want = ",".join("%d:%s" % (i, "-" if getattr(o, "parent", None) is None
                               else str(rec.ids.get(id(o.parent), "?")))
                    for i, o in enumerate(rec.objs))
    if rep[0] != want:
        a, b = rep[0].split(","), want.split(",")
        d = [(x, y) for x, y in zip(a, b) if x != y][:3]
        probs.append("%s: parent map differs (model,real): %s" % (tag, d))
    w = walk(tree)
    if rep[1] != rec.enc_items(w):
        probs.append("%s: walk differs" % tag)
    wantr = ",".join("%d:%d" % (i, rec.ids.get(id(o.get_root()), -1)) for i, o in enumerate(rec.objs))
    if rep[2] != wantr:
        probs.append("%s: get_root differs" % tag)
    nodes = [x for x in w if isinstance(x, Base)]
    stale = sum(1 for nd in nodes for k in _sp_nodes(nd.children) if k.parent is not nd)
    if stale:
        probs.append("%s: REAL tree has %d child(ren) whose parent is not the container" % (tag, stale))
    if len(set(id(x) for x in nodes)) != len(nodes):
        probs.append("%s: REAL tree lists a node twice in walk" % tag)
    if any(x.get_root() is not tree for x in nodes):
        probs.append("%s: REAL get_root() of a node is not the root" % tag)
    return probs, nodes


def check_copy(m, tag, tree, rec, script, infos, start_obj, facts_text, how):
    from fparser.two.utils import Base, walk
    probs = []
    start = rec.ids[id(start_obj)]
    rep = m.ask("copy3", script, infos, str(start), facts_text, how)
    try:
        if how == "deepcopy":
            cp = copy.deepcopy(start_obj)
        else:
            cp = pickle.loads(pickle.dumps(start_obj))
    except Exception as err:   # noqa: BLE001
        kind = "err:noString" if isinstance(err, AttributeError) else \
            "err:newRejects" if isinstance(err, TypeError) else "err:" + type(err).__name__
        if rep[0].rsplit(":", 1)[0] != kind:
            probs.append("%s/%s from %s: model %s, real %s: %s" % (
                tag, how, type(start_obj).__name__, rep[0], kind, str(err)[:120]))
        return probs, kind
    if rep[0] != "ok":
        probs.append("%s/%s: model predicts %s, real copy succeeded" % (tag, how, rep[0]))
        return probs, "ok"
    croot = cp.get_root()
    if type(croot) is not type(tree):
        probs.append("%s/%s from %s: the copy's root is a %s: the copy is not a copy of the WHOLE tree" % (
            tag, how, type(start_obj).__name__, type(croot).__name__))
    canon_copy = real_canon(rec, croot)
    canon_orig = real_canon(rec, tree)
    if not (rep[1] == rep[2] == canon_copy == canon_orig):
        probs.append("%s/%s from %s: canonical forms differ (model copy==model orig %s, real copy==real orig %s, "
                     "model==real %s)" % (tag, how, type(start_obj).__name__, rep[1] == rep[2],
                                          canon_copy == canon_orig, rep[1] == canon_copy))
    cnodes = [x for x in walk(croot) if isinstance(x, Base)]
    onodes = [x for x in walk(tree) if isinstance(x, Base)]
    oids = set(id(x) for x in onodes)
    if any(id(x) in oids for x in cnodes):
        probs.append("%s/%s: REAL copy shares nodes with the original" % (tag, how))
    if rep[3] != "1":
        probs.append("%s/%s: model copy not id-disjoint" % (tag, how))
    stale = sum(1 for nd in cnodes for k in _sp_nodes(nd.children) if k.parent is not nd)
    if stale or croot.parent is not None:
        probs.append("%s/%s: REAL copy has %d stale parent links" % (tag, how, stale))
    if rep[4] != "1":
        probs.append("%s/%s: model copy has stale parent links" % (tag, how))
    if str(len(cnodes)) != rep[5]:
        probs.append("%s/%s: node count model %s real %d" % (tag, how, rep[5], len(cnodes)))
    lab_copy = " ".join(show_info(item_info(x)) for x in cnodes)
    lab_orig = " ".join(show_info(item_info(x)) for x in onodes)
    if not (rep[6] == rep[7] == lab_copy == lab_orig):
        probs.append("%s/%s from %s: labels / construct names differ (model copy==model orig %s, real copy==real "
                     "orig %s, model==real %s)" % (tag, how, type(start_obj).__name__, rep[6] == rep[7],
                                                    lab_copy == lab_orig, rep[6] == lab_copy))
    if rep[10] != lab_orig:
        probs.append("%s/%s: the ORIGINAL's labels after the copy differ" % (tag, how))
    pos_c = [i for i, x in enumerate(cnodes) if x is cp]
    pos_o = [i for i, x in enumerate(onodes) if x is start_obj]
    if not (pos_c and pos_o and str(pos_c[0]) == rep[8] and str(pos_o[0]) == rep[9] and pos_c[0] == pos_o[0]):
        probs.append("%s/%s from %s: the copy of the start node is at walk position %s (model %s), the start "
                     "node at %s (model %s)" % (tag, how, type(start_obj).__name__, pos_c[:1], rep[8],
                                                pos_o[:1], rep[9]))
    if str(cp) != str(start_obj) or str(croot) != str(tree):
        probs.append("%s/%s: str(copy) != str(original)" % (tag, how))
    return probs, "ok"


# --------------------------------------------------------------------------- one sample

def run_sample(m, tag, src, std, cids, table, rng, stats, ncopies=1, directives=True):
    from fparser.two.utils import Base
    try:
        tree, rec, script = parse_recorded(src, std, cids, directives)
    except BaseException as err:   # noqa: BLE001  (a sample that does not parse is skipped)
        if isinstance(err, KeyboardInterrupt):
            raise
        stats["unparsed"] = stats.get("unparsed", 0) + 1
        return []
    if tree is None:
        return []
    root = rec.ids[id(tree)]
    probs, st = check_discipline(m, tag, rec, script, root)
    for k in ("reuse", "steal", "dead", "events"):
        stats[k] = stats.get(k, 0) + st.get(k, 0)
    pr, nodes = check_tree(m, tag, tree, rec, script, root)
    probs += pr
    stats["trees"] = stats.get("trees", 0) + 1
    stats["nodes"] = stats.get("nodes", 0) + len(nodes)
    if ncopies and nodes:
        ft = facts_text_for(rec, table)
        infos = infos_text(rec)
        inner = [x for x in nodes if x is not tree]
        starts = [tree] if not inner else [rng.choice(inner) for _ in range(ncopies)]
        if rng.random() < 0.25:
            starts.append(tree)
        for st_obj in starts:
            how = rng.choice(["deepcopy", "pickle"])
            pr, v = check_copy(m, tag, tree, rec, script, infos, st_obj, ft, how)
            probs += pr
            stats["copies"] = stats.get("copies", 0) + 1
            stats["copy:" + how] = stats.get("copy:" + how, 0) + 1
            stats["copies_from_inner"] = stats.get("copies_from_inner", 0) + (st_obj is not tree)
            stats["copy_labelled"] = stats.get("copy_labelled", 0) + any(
                (item_info(x) or (None, None)) != (None, None) for x in nodes)
    return probs


# --------------------------------------------------------------------------- negative controls

EQUIV_SRC = ("subroutine s\n  integer :: i, j\n  real :: x(3), y\n  equivalence (i, j), (x(1), y, j)\n"
             "  do 10 i = 1, 3\n    b1: block\n      integer :: k\n    end block b1\n10 y = 1\nend subroutine s\n")
LIST_SRC = "program p\n  integer :: a, b\n  call f(a, b, a, a + b, a)\n  print *, a, a\n20 a = b\nend program p\n"
TWO_UNITS = "subroutine a\nend subroutine a\nsubroutine b\n  integer :: q\n10 q = 1\nend subroutine b\n"


class Mutant:
    """in-process seeded change of the real code"""

    def __init__(self, name):
        self.name = name

    def __enter__(self):
        from fparser.two import utils, Fortran2003
        self.utils, self.F = utils, Fortran2003
        self.undo = []
        getattr(self, "m_" + self.name)()
        return self

    def __exit__(self, *exc):
        for f in reversed(self.undo):
            f()

    def patch(self, obj, attr, val):
        had = attr in obj.__dict__
        old = obj.__dict__.get(attr)
        setattr(obj, attr, val)
        self.undo.append((lambda: setattr(obj, attr, old)) if had else (lambda: delattr(obj, attr)))

    # SequenceBase.match re-uses one node object for textually equal entries
    def m_sequence_reuse(self):
        orig = self.utils.SequenceBase.__dict__["match"].__func__

        def match(separator, subcls, string):
            r = orig(separator, subcls, string)
            if r is None:
                return r
            seen = {}
            items = []
            for it in r[1]:
                k = (type(it), str(it))
                items.append(seen.setdefault(k, it))
            return r[0], tuple(items)
        self.patch(self.utils.SequenceBase, "match", staticmethod(match))

    # `parent` a class default, `_set_parent` only sets it when None, `__init__` keeps its hands off
    def m_conditional_set_parent(self):
        utils = self.utils

        def _set_parent(parent_node, items):
            for item in items:
                if item:
                    if isinstance(item, utils.Base):
                        if item.parent is None:
                            item.parent = parent_node
                    elif isinstance(item, (list, tuple)):
                        _set_parent(parent_node, item)
        self.patch(utils.Base, "parent", None)
        self.patch(utils, "_set_parent", _set_parent)

    # Program.match appends a stale unit object twice
    def m_program_twice(self):
        orig = self.F.Program.__dict__["match"].__func__

        def match(reader):
            r = orig(reader)
            if r is not None and r[0]:
                r[0].append(r[0][0])
            return r
        self.patch(self.F.Program, "match", staticmethod(match))

    # a __getstate__ added to one class (drops the reader item)
    def m_getstate(self):
        def __getstate__(self):
            d = dict(self.__dict__)
            d["item"] = None
            return d
        self.patch(self.F.Assignment_Stmt, "__getstate__", __getstate__)

    # a __reduce__ that rebuilds the node from its text (loses the parent link)
    def m_reduce(self):
        def __reduce__(self):
            return (type(self), (self.string,))
        self.patch(self.F.Name, "__reduce__", __reduce__)

    # a constructor signature that no longer fits __getnewargs__
    def m_signature(self):
        F = self.F

        def __new__(cls, string, *, parent_cls=None, _deepcopy=False):
            return self.utils.Base.__new__(cls, string, parent_cls, _deepcopy)
        self.patch(F.Continue_Stmt, "__new__", __new__)


NEGATIVE = [
    ("sequence_reuse", LIST_SRC, "dynamic"),
    ("conditional_set_parent", EQUIV_SRC, "both"),
    ("program_twice", TWO_UNITS, "dynamic"),
    ("getstate", LIST_SRC, "both"),
    ("reduce", LIST_SRC, "both"),
    ("signature", "program p\n  integer :: q\n10 continue\nend program p\n", "both"),
]


def negative_controls(m, cids, table, clean_facts):
    """every mutant must be reported by the dynamic comparison and / or by the regenerated
    facts (which feed `protocol_default_generated` / `construct_generated`)."""
    report = []
    missed = []
    for name, src, expect in NEGATIVE:
        dyn = stat = False
        detail = ""
        try:
            with Mutant(name):
                try:
                    facts = extract_tree3.collect()
                    bad_cls = [f["name"] for f in facts["classes"]
                               if not (f["default_reduce"] and f["new_binds"] and f["init_is_base"])]
                    c = facts["construct"]
                    cons_ok = (c["set_parent_unconditional"] and c["set_parent_recurses"] and c["init_resets"]
                               and c["new_order_ok"] and c["set_parent_calls"] == 2
                               and c["parent_assignments"] == 2 and not c["parent_class_attr"])
                    stat = bool(bad_cls) or not cons_ok or facts != clean_facts
                    if bad_cls:
                        detail += " static: classes %s" % bad_cls[:3]
                    if not cons_ok:
                        detail += " static: construct facts"
                except Exception as err:   # noqa: BLE001
                    stat = True
                    detail += " static: extractor raised %s" % type(err).__name__
                stats = {}
                rng = random.Random(1)
                probs = []
                for k in range(3):
                    probs += run_sample(m, "neg:" + name, src, "f2008", cids, table, rng, stats, ncopies=3)
                dyn = bool(probs)
                if probs:
                    detail += " dynamic: " + probs[0][:150]
        except Exception as err:   # noqa: BLE001
            dyn = True
            detail += " dynamic: raised %s: %s" % (type(err).__name__, str(err)[:100])
        ok = (dyn if expect == "dynamic" else stat if expect == "static" else (dyn and stat))
        report.append("%-24s dynamic=%s static=%s%s" % (name, dyn, stat, detail))
        if not ok:
            missed.append(name)
    return report, missed


def file_reader_finding():
    """F-C18-2 (reported, not a failure of the correspondence): a tree parsed from a
    FortranFileReader cannot be copied - every block node's `.string` and every `item.reader`
    is the reader, which holds the open file."""
    import shutil
    import tempfile
    from fparser.two.parser import ParserFactory
    from fparser.common.readfortran import FortranFileReader
    d = tempfile.mkdtemp()
    try:
        fn = os.path.join(d, "a.f90")
        with open(fn, "w", encoding="utf-8") as f:
            f.write("program p\n  integer :: i\n10 i = 1\nend program p\n")
        tree = ParserFactory().create(std="f2008")(FortranFileReader(fn, ignore_comments=False))
        out = []
        for how in ("deepcopy", "pickle"):
            try:
                c = copy.deepcopy(tree) if how == "deepcopy" else pickle.loads(pickle.dumps(tree))
                out.append("%s ok (%s)" % (how, str(c) == str(tree)))
            except Exception as err:   # noqa: BLE001
                out.append("%s raises %s: %s" % (how, type(err).__name__, str(err)[:60]))
        return "; ".join(out)
    finally:
        shutil.rmtree(d, ignore_errors=True)


# --------------------------------------------------------------------------- main

def main(argv=None):
    ap = argparse.ArgumentParser()
    ap.add_argument("--seed", type=int, default=0)
    ap.add_argument("--n", type=int, default=200)
    ap.add_argument("--exe", default=os.environ.get("FV_MODEL_EXE"))
    ap.add_argument("--max-seconds", type=float, default=50.0)
    ap.add_argument("--no-negative", action="store_true")
    args = ap.parse_args(argv)
    rng = random.Random(args.seed)
    t0 = time.time()
    m = _model.Model(args.exe) if args.exe else _model.get_model()
    failures = []
    stats = {}

    from fparser.two.parser import ParserFactory
    ParserFactory().create(std="f2008")
    cids = class_ids()
    table = extract_classes.load()

    # ---- (d) generated facts are current
    clean_facts = extract_tree3.collect()
    text, gstats = extract_tree3.render(clean_facts)
    lean_dir = os.path.dirname(os.path.dirname(os.path.dirname(os.path.dirname(os.path.abspath(m.exe)))))
    gen_path = os.path.join(lean_dir, "FparserModel", "Generated", "Tree3Proto.lean")
    if os.path.exists(gen_path):
        with open(gen_path, encoding="utf-8") as f:
            if f.read() != text:
                failures.append("Generated/Tree3Proto.lean is stale w.r.t. the live classes (regenerate and rebuild)")
    else:
        failures.append("Generated/Tree3Proto.lean not found next to the driver (%s)" % gen_path)
    for nme in gstats["not_default"]:
        failures.append("class %s overrides the pickle/copy protocol (not the modelled default path)" % nme)
    for nme in gstats["not_binding"]:
        failures.append("class %s: __new__ does not accept its __getnewargs__ with _deepcopy=True" % nme)
    stats["classes"] = gstats["classes"]

    # ---- (a)(b)(c) samples
    samples = []
    for name, std, src in PROGRAMS:
        samples.append(("fixed:" + name, src, std, 2))
    n_special = max(4, args.n // 4)
    for i in range(n_special):
        r = random.Random((args.seed << 20) ^ (i * 7919 + 17))
        samples.append(("special:%d" % i, special_program(r), "f2008", 1))
    for i in range(args.n):
        seed = (args.seed * 100003 + i) & 0x7FFFFFFF
        std = "f2008" if i % 3 else "f2003"
        mode = ["keep", "directives", "extras"][i % 3]
        try:
            p = gen.gen_program(seed, std=std, size=0.5)
            samples.append(("gen:%d/%s/%s" % (seed, std, mode), decorate(p, seed, mode), std, 1))
        except Exception as err:   # noqa: BLE001
            failures.append("generator failed for seed %d: %s" % (seed, err))
    done = 0
    for tag, src, std, nc in samples:
        if time.time() - t0 > args.max_seconds:
            stats["stopped_early_after"] = done
            break
        pr = run_sample(m, tag, src, std, cids, table, rng, stats, ncopies=nc,
                        directives=not tag.endswith("/keep"))
        failures += pr
        done += 1
    stats["samples"] = done
    if stats.get("reuse", 0) == 0 or stats.get("steal", 0) == 0:
        failures.append("the sample set exercised no re-use / no steal (reuse=%s steal=%s)" % (
            stats.get("reuse"), stats.get("steal")))

    # ---- (e) negative controls
    if not args.no_negative:
        report, missed = negative_controls(m, cids, table, clean_facts)
        for r in report:
            print("  negative control " + r)
        for nme in missed:
            failures.append("negative control %s was NOT detected" % nme)
        # the real code must be back to normal
        pr = run_sample(m, "post-negative", EQUIV_SRC, "f2008", cids, table, rng, {}, ncopies=2)
        failures += ["after the negative controls: " + p for p in pr]
        if extract_tree3.collect() != clean_facts:
            failures.append("after the negative controls: the live facts did not return to normal")
    ParserFactory().create(std="f2003")

    try:
        import contextlib
        import io
        with contextlib.redirect_stderr(io.StringIO()):
            stats["finding_file_reader"] = file_reader_finding()
    except Exception as err:   # noqa: BLE001
        stats["finding_file_reader"] = "probe failed: %s" % err
    print("cosim_tree3: seed=%d n=%d  %.1fs" % (args.seed, args.n, time.time() - t0))
    for k in sorted(stats):
        print("  %-22s %s" % (k, stats[k]))
    if failures:
        print("FAILURES: %d" % len(failures))
        for f in failures[:40]:
            print("  - " + f)
        print("RESULT: FAIL")
        return 1
    print("RESULT: PASS")
    return 0


if __name__ == "__main__":
    sys.exit(main())
