import FparserModel.Proofs.ReaderOmp

/-!
# ReaderJoinO — free-form continuation with the OpenMP flag (C15, C04)

`freeLoop_join` of `ReaderJoin.lean` generalised over `had_omp_sentinels`: after a sentinel line
every continuation line first loses its own `!$` (regex `^ *(!\$) *&?`), otherwise the line is
taken as it is (so a `!$ &` line after a line WITHOUT sentinel is a comment line).
-/
namespace Fp.Reader
open Fp

/-- what the continuation loop sees of a physical line -/
def ompLine (b : Bool) (line0 : Str) : Str :=
  if b then (replaceSentinelFreeCont line0).1 else line0

/-- the physical lines `ls`, as seen by the continuation loop, have the shapes `cs` -/
inductive CookedO (b : Bool) : List Str → List CLine → Prop where
  | nil : CookedO b [] []
  | cons {l : Str} {c : CLine} {ls : List Str} {cs : List CLine} :
      ompLine b (cook l) = c.text → CookedO b ls cs → CookedO b (l :: ls) (c :: cs)

theorem CookedO.length {b : Bool} {ls : List Str} {cs : List CLine} (h : CookedO b ls cs) :
    ls.length = cs.length := by
  induction h with
  | nil => rfl
  | cons _ _ ih => simp [ih]

theorem Cooked.toO {ls : List Str} {cs : List CLine} (h : Cooked ls cs) : CookedO false ls cs := by
  induction h with
  | nil => exact CookedO.nil
  | cons h1 _ ih => exact CookedO.cons h1 ih

/-- the free-form loop on a clean continued statement: pieces are concatenated, comment lines go
    to the FIFO in order with their own line numbers, blank lines vanish, the statement ends at
    the first line without trailing `&`; exactly the lines of the statement are consumed. -/
theorem freeLoop_joinO (b : Bool) : ∀ (cs : List CLine) (c : CLine) (ls rest : List Str) (r : Rd) (acc : Str)
    (label : Option Nat) (name : Option Str) (endl fuel : Nat) (line0 : Str),
    ompLine b line0 = c.text → WFc (c :: cs) → CookedO b ls cs →
    r.src = ls ++ rest → r.filo = [] → r.closed = false → r.isFree = true → cs.length + 1 ≤ fuel →
    freeLoop b fuel (some line0) true acc none label name endl r =
      ⟨acc ++ joinPieces (c :: cs), label, name, r.linecount + cs.length,
       { r with src := rest, linecount := r.linecount + cs.length,
                linesRev := (ls.map cook).reverse ++ r.linesRev,
                fifo := r.fifo ++ joinComments r.linecount (c :: cs) }⟩
  | [], c, ls, rest, r, acc, label, name, endl, fuel, line0, h0, hw, hl, hs, h1, h2, h3, hf => by
    cases hl
    obtain ⟨hok, hlast⟩ := hw
    cases c with
    | comment t => cases hlast
    | blank => cases hlast
    | cont pre body amp more =>
      cases more with
      | true => cases hlast
      | false =>
        obtain ⟨hp, hb, hfin, hne⟩ := hok
        obtain ⟨k1, k2⟩ := cont_conds pre body amp false hp hb hne
        cases fuel with
        | zero => omega
        | succ fuel =>
          have h0' := h0
          unfold ompLine at h0'
          simp only [CLine.text] at h0'
          unfold freeLoop
          simp only [h0', CLine.text, Bool.false_eq_true, if_false, k1, k2,
            freeStep_cont pre body amp false r.linecount label name hp hb hfin]
          obtain ⟨src, closed, filo, fifo, lc, linesRev, isFree, ic, omp, dirs⟩ := r
          simp only [List.nil_append] at hs
          subst hs
          simp [joinPieces, joinComments]
  | c' :: cs, c, ls, rest, r, acc, label, name, endl, fuel, line0, h0, hw, hl, hs, h1, h2, h3, hf => by
    cases hl with
    | cons hcook hl' =>
      rename_i l ls'
      obtain ⟨hok, hlast, hw'⟩ := hw
      cases fuel with
      | zero => omega
      | succ fuel =>
        have hfuel : cs.length + 1 ≤ fuel := by simp only [List.length_cons] at hf; omega
        cases c with
        | comment t =>
          have hst : (true && startsWith (lstrip t) ['!']) = true := by
            simp only [Bool.true_and]; exact hok
          have h0' := h0
          unfold ompLine at h0'
          simp only [CLine.text] at h0'
          unfold freeLoop
          simp only [h0', CLine.text, Bool.false_eq_true, if_false, hst, if_true]
          rw [getSingleLine_free { r with fifo := r.fifo ++ [Item.comment (lstrip t) r.linecount r.linecount false] }
            l (ls' ++ rest) h1 h2 h3 (by simpa using hs)]
          simp only []
          refine (freeLoop_joinO b cs c' ls' rest _ acc label name endl fuel (cook l) hcook hw' hl' ?_ ?_ ?_ ?_ hfuel).trans ?_
          · rfl
          · exact h1
          · exact h2
          · exact h3
          obtain ⟨src, closed, filo, fifo, lc, linesRev, isFree, ic, omp, dirs⟩ := r
          simp only [] at hs
          subst hs
          simp [joinPieces, joinComments]
          omega
        | blank =>
          have h0' := h0
          unfold ompLine at h0'
          simp only [CLine.text] at h0'
          unfold freeLoop
          have hb1 : (true && startsWith (lstrip ([] : Str)) ['!']) = false := by decide
          have hb2 : (true && (lstrip ([] : Str) == [])) = true := by decide
          simp only [h0', CLine.text, Bool.false_eq_true, if_false, hb1, hb2, if_true]
          rw [getSingleLine_free r l (ls' ++ rest) h1 h2 h3 (by simpa using hs)]
          simp only []
          refine (freeLoop_joinO b cs c' ls' rest _ acc label name endl fuel (cook l) hcook hw' hl' ?_ ?_ ?_ ?_ hfuel).trans ?_
          · rfl
          · exact h1
          · exact h2
          · exact h3
          obtain ⟨src, closed, filo, fifo, lc, linesRev, isFree, ic, omp, dirs⟩ := r
          simp only [] at hs
          subst hs
          simp [joinPieces, joinComments]
          omega
        | cont pre body amp more =>
          cases more with
          | false => cases hlast
          | true =>
            obtain ⟨hp, hb, hfin, hne⟩ := hok
            obtain ⟨k1, k2⟩ := cont_conds pre body amp true hp hb hne
            have h0' := h0
            unfold ompLine at h0'
            simp only [CLine.text] at h0'
            unfold freeLoop
            simp only [h0', CLine.text, Bool.false_eq_true, if_false, k1, k2,
              freeStep_cont pre body amp true r.linecount label name hp hb hfin, if_true]
            rw [getSingleLine_free { r with fifo := r.fifo ++ [] } l (ls' ++ rest) h1 h2 h3 (by simpa using hs)]
            simp only []
            refine (freeLoop_joinO b cs c' ls' rest _ _ label name _ fuel (cook l) hcook hw' hl' ?_ ?_ ?_ ?_ hfuel).trans ?_
            · rfl
            · exact h1
            · exact h2
            · exact h3
            obtain ⟨src, closed, filo, fifo, lc, linesRev, isFree, ic, omp, dirs⟩ := r
            simp only [] at hs
            subst hs
            simp [joinPieces, joinComments]
            omega


/-- C04/C15 `join_continuation` with the OpenMP flag. `line1`/`b` = what `replace_omp_sentinels`
    makes of the first line (`b` = a sentinel was found; `b = false`, `line1 = cook l1` when the
    flag is off). The continuation lines are seen through `ompLine b`. -/
theorem getSourceItem_joinO (r0 : Rd) (l1 l2 : Str) (ls rest : List Str) (line1 t1 b1 : Str) (b : Bool)
    (lab : Option Nat) (nam : Option Str) (c : CLine) (cs : List CLine)
    (hfifo : r0.fifo = []) (h1 : r0.filo = []) (h2 : r0.closed = false) (h3 : r0.isFree = true)
    (hsrc : r0.src = l1 :: l2 :: (ls ++ rest))
    (hcpp : startsWith (lstrip (cook l1)) ['#'] = false)
    (hom : (if r0.omp = true then replaceSentinelFree (cook l1) else (cook l1, false)) = (line1, b))
    (hc1 : ompLine b line1 = line1)
    (hlab : extractLabel line1 = (lab, t1)) (hnam : extractName t1 = (nam, b1 ++ ['&']))
    (hb1 : CleanBody b1) (hc2 : ompLine b (cook l2) = c.text) (hck : CookedO b ls cs) (hw : WFc (c :: cs))
    (hne : strip (b1 ++ joinPieces (c :: cs)) ≠ []) :
    getSourceItem r0 =
      (.ok (.line (strip (b1 ++ joinPieces (c :: cs))) lab nam (r0.linecount + 1)
              (r0.linecount + 2 + cs.length)),
       { r0 with src := rest, linecount := r0.linecount + 2 + cs.length,
                 linesRev := ((l1 :: l2 :: ls).map cook).reverse ++ r0.linesRev,
                 fifo := joinComments (r0.linecount + 2) (c :: cs) }) := by
  obtain ⟨src, closed, filo, fifo, lc, linesRev, isFree, ic, omp, dirs⟩ := r0
  simp only [] at hfifo h1 h2 h3 hsrc hom
  subst hfifo h1 h2 h3 hsrc
  have hc1' : (if b = true then (replaceSentinelFreeCont line1).1 else line1) = line1 := hc1
  unfold getSourceItem
  rw [getSingleLine_free _ l1 (l2 :: (ls ++ rest)) rfl rfl rfl rfl]
  simp only [hcpp, Bool.and_false, Bool.false_eq_true, if_false, Bool.not_true, Bool.true_and, hom]
  unfold freeItem
  simp only []
  obtain ⟨n, hn⟩ : ∃ n, (l2 :: (ls ++ rest)).length + ([] : List Str).length + 2 = n + 1 := ⟨_, rfl⟩
  have hn2 : cs.length + 1 ≤ n := by
    simp only [List.length_cons, List.length_append, List.length_nil] at hn
    rw [← hck.length]; omega
  rw [hn]
  unfold freeLoop
  simp only [hc1', Bool.false_eq_true, if_false, Bool.false_and,
    freeStep_first line1 t1 b1 lab nam (lc + 1) hlab hnam hb1, if_true]
  rw [getSingleLine_free _ l2 (ls ++ rest) rfl rfl rfl rfl]
  simp only [List.nil_append]
  have e := freeLoop_joinO b cs c ls rest
    { src := ls ++ rest, closed := false, filo := [], fifo := [], linecount := lc + 1 + 1,
      linesRev := cook l2 :: cook l1 :: linesRev, isFree := true, ignoreComments := ic, omp := omp,
      includeDirs := dirs } b1 lab nam (lc + 1) n (cook l2) hc2 hw hck rfl rfl rfl rfl hn2
  simp only [e, hne, bne_iff_ne, ne_eq, not_false_eq_true, if_true]
  simp

end Fp.Reader
