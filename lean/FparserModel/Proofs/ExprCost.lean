import FparserModel.ExprCost
import FparserModel.Proofs.ExprMain
import FparserModel.Proofs.ExprGroups

/-! helper lemmas for the call-count twin `parseC` of the expression parser (C20) -/
namespace Fp.Expr

/-! ### the twin computes the same result -/

theorem matchStepC_fst {recC : Lv → List T → Option Ex × Nat} {rec : Lv → List T → Option Ex}
    (h : ∀ k ts, (recC k ts).1 = rec k ts) (row : Row) (ts : List T) :
    (matchStepC recC row ts).1 = matchStep rec row ts := by
  obtain ⟨lv, kind, cls, lhs, rhs, next, excl⟩ := row
  cases kind <;> cases lhs <;> cases rhs <;> simp only [matchStepC, matchStep]
  · -- binL
    rename_i lhs rhs
    split
    · rfl
    · cases hs : splitLast cls.test ts 0 with
      | none => rfl
      | some x =>
        obtain ⟨l, o, r⟩ := x
        simp only
        split
        · rfl
        · split
          · rfl
          · rw [← h, ← h]
            rcases recC rhs r with ⟨_ | R, c1⟩
            · rfl
            · rcases recC lhs l with ⟨_ | L, c2⟩ <;> rfl
  · -- binR
    rename_i lhs rhs
    cases hs : splitFirst cls.test ts 0 with
    | none => rfl
    | some x =>
      obtain ⟨l, o, r⟩ := x
      simp only
      split
      · rfl
      · split
        · rfl
        · rw [← h, ← h]
          rcases recC lhs l with ⟨_ | L, c1⟩
          · rfl
          · rcases recC rhs r with ⟨_ | R, c2⟩ <;> rfl
  · -- unary, lhs = none
    rename_i rhs
    cases ts with
    | nil => rfl
    | cons o r =>
      simp only
      split
      · rw [← h]
        rcases recC rhs r with ⟨_ | R, c⟩ <;> rfl
      · rfl
  · -- unary, lhs = some
    rename_i _ rhs
    cases ts with
    | nil => rfl
    | cons o r =>
      simp only
      split
      · rw [← h]
        rcases recC rhs r with ⟨_ | R, c⟩ <;> rfl
      · rfl
  · -- prim, lhs = none
    rename_i inner
    match ts with
    | [] => rfl
    | [.atom i d g] => rfl
    | .atom i d g :: _ :: _ => rfl
    | .rp :: _ => rfl
    | .op _ _ :: _ => rfl
    | .lp :: rest =>
      simp only
      rcases rest.getLast? with _ | t'
      · rfl
      · cases t' with
        | atom _ _ _ => rfl
        | lp => rfl
        | op _ _ => rfl
        | rp =>
          simp only
          split
          · rfl
          · rw [← h]
            rcases recC inner rest.dropLast with ⟨_ | R, c⟩ <;> rfl
  · -- prim, lhs = some
    rename_i _ inner
    match ts with
    | [] => rfl
    | [.atom i d g] => rfl
    | .atom i d g :: _ :: _ => rfl
    | .rp :: _ => rfl
    | .op _ _ :: _ => rfl
    | .lp :: rest =>
      simp only
      rcases rest.getLast? with _ | t'
      · rfl
      · cases t' with
        | atom _ _ _ => rfl
        | lp => rfl
        | op _ _ => rfl
        | rp =>
          simp only
          split
          · rfl
          · rw [← h]
            rcases recC inner rest.dropLast with ⟨_ | R, c⟩ <;> rfl

theorem parseC_succ (n : Nat) (k : Lv) (ts : List T) :
    parseC (n+1) k ts =
      match matchStepC (parseC n) (rowOf k) ts with
      | (some e, c) => (some e, c + 1)
      | (none, c) =>
        match (rowOf k).next with
        | some k' =>
          match parseC n k' ts with
          | (res, c') => (res, c + 1 + c')
        | none => (none, c + 1) := rfl

theorem parseC_fst : ∀ (n : Nat) (k : Lv) (ts : List T), (parseC n k ts).1 = parseF n k ts := by
  intro n
  induction n with
  | zero => intro k ts; rfl
  | succ n ih =>
    intro k ts
    rw [parseC_succ, parseF_succ, ← matchStepC_fst ih]
    rcases matchStepC (parseC n) (rowOf k) ts with ⟨_ | e, c⟩
    · simp only
      cases (rowOf k).next with
      | none => rfl
      | some k' => simp only; exact ih k' ts
    · rfl

/-! ### fuel independence of the twin -/

theorem matchStepC_congr {rec1 rec2 : Lv → List T → Option Ex × Nat} {row : Row} {ts : List T}
    (h : ∀ k' ts', ts'.length < ts.length → rec1 k' ts' = rec2 k' ts') :
    matchStepC rec1 row ts = matchStepC rec2 row ts := by
  unfold matchStepC
  split
  · split
    · rfl
    · split
      · rename_i l o r hs
        have hl := splitLast_len hs
        rw [h _ _ hl.1, h _ _ hl.2]
      · rfl
  · split
    · rename_i l o r hs
      have hl := splitFirst_len hs
      rw [h _ _ hl.1, h _ _ hl.2]
    · rfl
  · split
    · rename_i o r
      rw [h _ r (by simp)]
    · rfl
  · split
    · rfl
    · split
      · rename_i rest _ _ hl
        have : rest.dropLast.length < (T.lp :: rest).length := by
          simp; omega
        rw [h _ _ this]
      · rfl
    · rfl
  · rfl

theorem parseC_stable : ∀ (n m : Nat) (k : Lv) (ts : List T),
    need k ts ≤ n → need k ts ≤ m → parseC n k ts = parseC m k ts := by
  intro n
  induction n with
  | zero => intro m k ts h; simp [need] at h
  | succ n ih =>
    intro m k ts hn hm
    cases m with
    | zero => simp [need] at hm
    | succ m =>
      rw [parseC_succ, parseC_succ]
      have hc : matchStepC (parseC n) (rowOf k) ts = matchStepC (parseC m) (rowOf k) ts := by
        apply matchStepC_congr
        intro k' ts' hlt
        have := rank_le k'
        apply ih <;> simp only [need] at * <;> omega
      rw [hc]
      rcases matchStepC (parseC m) (rowOf k) ts with ⟨_ | e, c⟩
      · simp only
        cases hk : (rowOf k).next with
        | none => rfl
        | some k' =>
          simp only
          have := next_rank hk
          rw [ih m k' ts (by simp only [need] at *; omega) (by simp only [need] at *; omega)]
      · rfl

/-! ### the fuel-free recursion equation of the twin -/

theorem pc_unfold (k : Lv) (ts : List T) :
    pc k ts =
      match matchStepC pc (rowOf k) ts with
      | (some e, c) => (some e, c + 1)
      | (none, c) =>
        match (rowOf k).next with
        | some k' => ((pc k' ts).1, c + 1 + (pc k' ts).2)
        | none => (none, c + 1) := by
  have hneed : need k ts = (k.rank + 13 * ts.length) + 1 := rfl
  unfold pc
  rw [hneed, parseC_succ]
  have hc : matchStepC (parseC (k.rank + 13 * ts.length)) (rowOf k) ts
      = matchStepC (fun k ts => parseC (need k ts) k ts) (rowOf k) ts := by
    apply matchStepC_congr
    intro k' ts' hlt
    have := rank_le k'
    apply parseC_stable <;> simp only [need] <;> omega
  rw [hc]
  rcases matchStepC (fun k ts => parseC (need k ts) k ts) (rowOf k) ts with ⟨_ | e, c⟩
  · simp only
    cases hk : (rowOf k).next with
    | none => rfl
    | some k' =>
      simp only
      have := next_rank hk
      rw [parseC_stable (k.rank + 13 * ts.length) (need k' ts) k' ts
        (by simp only [need]; omega) (Nat.le_refl _)]
  · rfl

theorem pc_fst (k : Lv) (ts : List T) : (pc k ts).1 = parse k ts := parseC_fst _ k ts

theorem parseCalls_eq (k : Lv) (ts : List T) : parseCalls k ts = (pc k ts).2 := rfl


/-! ### consequences of the recursion equation -/

theorem pc_of_some {k : Lv} {ts : List T} {e : Ex} {c : Nat}
    (h : matchStepC pc (rowOf k) ts = (some e, c)) : pc k ts = (some e, c + 1) := by
  rw [pc_unfold, h]

theorem pc_of_none {k k' : Lv} {ts : List T} {c : Nat}
    (h : matchStepC pc (rowOf k) ts = (none, c)) (hn : (rowOf k).next = some k') :
    pc k ts = ((pc k' ts).1, c + 1 + (pc k' ts).2) := by
  rw [pc_unfold, h, hn]

theorem pc_of_none_last {k : Lv} {ts : List T} {c : Nat}
    (h : matchStepC pc (rowOf k) ts = (none, c)) (hn : (rowOf k).next = none) :
    pc k ts = (none, c + 1) := by
  rw [pc_unfold, h, hn]

/-- (a) a call costs at least itself plus what its `match` costs -/
theorem pc_ge_match (k : Lv) (ts : List T) : (matchStepC pc (rowOf k) ts).2 + 1 ≤ (pc k ts).2 := by
  rw [pc_unfold k ts]
  rcases matchStepC pc (rowOf k) ts with ⟨_ | e, c⟩
  · simp only
    cases (rowOf k).next with
    | none => simp
    | some k' => simp only; omega
  · simp

/-- (b) fall-through: the cost of the subclass call is added -/
theorem pc_fall {k k' : Lv} {ts : List T} (h : (matchStepC pc (rowOf k) ts).1 = none)
    (hn : (rowOf k).next = some k') :
    (pc k ts).2 = (matchStepC pc (rowOf k) ts).2 + 1 + (pc k' ts).2 ∧ (pc k ts).1 = (pc k' ts).1 := by
  rw [pc_unfold k ts]
  rcases hm : matchStepC pc (rowOf k) ts with ⟨_ | e, c⟩
  · simp [hn]
  · rw [hm] at h; simp at h

theorem matchStep_none_of_parse {k : Lv} {ts : List T} (h : parse k ts = none) :
    matchStep parse (rowOf k) ts = none := by
  rw [parse_eq] at h
  cases hm : matchStep parse (rowOf k) ts with
  | none => rfl
  | some e => rw [hm] at h; simp at h

theorem matchStepC_pc_fst (row : Row) (ts : List T) :
    (matchStepC pc row ts).1 = matchStep parse row ts := matchStepC_fst pc_fst row ts

/-- fall-through when the whole call fails -/
theorem pc_fall_of_parse_none {k k' : Lv} {ts : List T} (h : parse k ts = none)
    (hn : (rowOf k).next = some k') : (pc k' ts).2 + 1 ≤ (pc k ts).2 := by
  have := (pc_fall (k := k) (ts := ts) (by rw [matchStepC_pc_fst]; exact matchStep_none_of_parse h) hn).1
  omega

/-! ### one instrumented `match`, generically -/

/-- two nested calls in sequence, the second only made when the first succeeded -/
def seq2 (x y : Option Ex × Nat) (f : Ex → Ex → Ex) : Option Ex × Nat :=
  match x with
  | (some X, c1) =>
    match y with
    | (some Y, c2) => (some (f X Y), c1 + c2)
    | (none, c2) => (none, c1 + c2)
  | (none, c1) => (none, c1)

theorem seq2_snd_ge (x y : Option Ex × Nat) (f : Ex → Ex → Ex) : x.2 ≤ (seq2 x y f).2 := by
  rcases x with ⟨_ | X, c1⟩ <;> rcases y with ⟨_ | Y, c2⟩ <;> simp [seq2]

theorem seq2_snd_of_some {x y : Option Ex × Nat} {f : Ex → Ex → Ex} {X : Ex} (h : x.1 = some X) :
    (seq2 x y f).2 = x.2 + y.2 := by
  rcases x with ⟨_ | X, c1⟩ <;> rcases y with ⟨_ | Y, c2⟩ <;> simp [seq2] at h ⊢

theorem seq2_fst_none_right {x y : Option Ex × Nat} {f : Ex → Ex → Ex} (h : y.1 = none) :
    (seq2 x y f).1 = none := by
  rcases x with ⟨_ | X, c1⟩ <;> rcases y with ⟨_ | Y, c2⟩ <;> simp [seq2] at h ⊢

theorem seq2_fst_none_left {x y : Option Ex × Nat} {f : Ex → Ex → Ex} (h : x.1 = none) :
    (seq2 x y f) = (none, x.2) := by
  rcases x with ⟨_ | X, c1⟩ <;> rcases y with ⟨_ | Y, c2⟩ <;> simp [seq2] at h ⊢

theorem mC_binL_nosplit {rec : Lv → List T → Option Ex × Nat} {row : Row} {ts : List T} {a b : Lv}
    (hk : row.kind = .binL) (hl : row.lhs = some a) (hr : row.rhs = some b)
    (hs : splitLast row.cls.test ts 0 = none) : matchStepC rec row ts = (none, 0) := by
  unfold matchStepC
  rw [hk, hl, hr]
  simp only [hs]
  split <;> rfl

theorem mC_binL_split {rec : Lv → List T → Option Ex × Nat} {row : Row} {ts : List T} {a b : Lv}
    {l r : List T} {o : T}
    (hk : row.kind = .binL) (hl : row.lhs = some a) (hr : row.rhs = some b)
    (hg : gluedPair row.cls.test ts 0 = false)
    (hs : splitLast row.cls.test ts 0 = some (l, o, r)) (hl0 : l ≠ []) (hr0 : r ≠ [])
    (hex : row.excl = false ∨ o.excluded = false) :
    matchStepC rec row ts = seq2 (rec b r) (rec a l) (fun R L => .bin o L R) := by
  unfold matchStepC seq2
  rw [hk, hl, hr]
  simp only [hg, hs]
  rcases rec b r with ⟨_ | R, c1⟩ <;> rcases rec a l with ⟨_ | L, c2⟩ <;>
    rcases hex with h | h <;> simp [hl0, hr0, h]

theorem mC_binR_nosplit {rec : Lv → List T → Option Ex × Nat} {row : Row} {ts : List T} {a b : Lv}
    (hk : row.kind = .binR) (hl : row.lhs = some a) (hr : row.rhs = some b)
    (hs : splitFirst row.cls.test ts 0 = none) : matchStepC rec row ts = (none, 0) := by
  unfold matchStepC
  rw [hk, hl, hr]
  simp only [hs]

theorem mC_binR_split {rec : Lv → List T → Option Ex × Nat} {row : Row} {ts : List T} {a b : Lv}
    {l r : List T} {o : T}
    (hk : row.kind = .binR) (hl : row.lhs = some a) (hr : row.rhs = some b)
    (hs : splitFirst row.cls.test ts 0 = some (l, o, r)) (hl0 : l ≠ []) (hr0 : r ≠ [])
    (hex : row.excl = false ∨ o.excluded = false) :
    matchStepC rec row ts = seq2 (rec a l) (rec b r) (fun L R => .bin o L R) := by
  unfold matchStepC seq2
  rw [hk, hl, hr]
  simp only [hs]
  rcases rec b r with ⟨_ | R, c1⟩ <;> rcases rec a l with ⟨_ | L, c2⟩ <;>
    rcases hex with h | h <;> simp [hl0, hr0, h]

theorem mC_unary_none {rec : Lv → List T → Option Ex × Nat} {row : Row} {o : T} {r : List T} {b : Lv}
    (hk : row.kind = .unary) (hr : row.rhs = some b)
    (h : row.cls.test o = false ∨ r = []) : matchStepC rec row (o :: r) = (none, 0) := by
  unfold matchStepC
  rw [hk, hr]
  rcases h with h | h <;> simp [h]

theorem mC_unary_some {rec : Lv → List T → Option Ex × Nat} {row : Row} {o : T} {r : List T} {b : Lv}
    (hk : row.kind = .unary) (hr : row.rhs = some b)
    (ht : row.cls.test o = true) (hr0 : r ≠ []) :
    matchStepC rec row (o :: r) = ((rec b r).1.map (.un o), (rec b r).2) := by
  unfold matchStepC
  rw [hk, hr]
  rcases hx : rec b r with ⟨_ | R, c⟩ <;> simp [ht, hr0, hx]

theorem mC_prim_paren {rec : Lv → List T → Option Ex × Nat} {row : Row} {mid : List T} {b : Lv}
    (hk : row.kind = .prim) (hr : row.rhs = some b) (hm : mid ≠ []) :
    matchStepC rec row (.lp :: (mid ++ [.rp])) = ((rec b mid).1.map .paren, (rec b mid).2) := by
  unfold matchStepC
  rw [hk, hr]
  have h1 : (mid ++ [T.rp]).getLast? = some T.rp := by simp
  have h2 : (mid ++ [T.rp]).dropLast = mid := by simp
  simp only [h1, h2]
  rcases rec b mid with ⟨_ | R, c⟩ <;> simp [hm]


/-! ### token lists `( G ) post` -/

/-- `( G )` followed by `post` -/
def PG (G : Ex) (post : List T) : List T := .lp :: (render G ++ .rp :: post)

theorem render_paren_PG (G : Ex) : render (.paren G) = PG G [] := rfl

theorem PG_eq (G : Ex) (post : List T) : PG G post = .lp :: ((render G ++ [.rp]) ++ post) := by
  simp [PG]

theorem splitLast_PG (p : T → Bool) (G : Ex) (hG : opsOK G) (post : List T) :
    splitLast p (PG G post) 0 =
      match splitLast p post 0 with
      | some (l, o, r) => some (PG G l, o, r)
      | none => none := by
  unfold PG
  rw [splitLast]
  simp only [step]
  rw [splitLast_append, depthAfter_render G hG, splitLast]
  have hst : step (0 + 1) T.rp = 0 := rfl
  rw [hst]
  cases hs : splitLast p post 0 with
  | some x => obtain ⟨l, o, r⟩ := x; rfl
  | none =>
    simp only
    rw [splitLast_deep p G hG 0]
    simp [T.isParen]

theorem splitFirst_PG (p : T → Bool) (G : Ex) (hG : opsOK G) (post : List T) :
    splitFirst p (PG G post) 0 =
      match splitFirst p post 0 with
      | some (l, o, r) => some (PG G l, o, r)
      | none => none := by
  unfold PG
  rw [splitFirst]
  simp only [T.isParen, Bool.not_true, Bool.false_eq_true, false_and, and_false, ↓reduceIte, step]
  rw [splitFirst_append, splitFirst_deep p G hG 0, depthAfter_render G hG, splitFirst]
  simp only [T.isParen, Bool.not_true, Bool.false_eq_true, false_and, and_false, ↓reduceIte]
  have hst : step (0 + 1) T.rp = 0 := rfl
  rw [hst]
  cases hs : splitFirst p post 0 with
  | some x => obtain ⟨l, o, r⟩ := x; rfl
  | none => rfl

/-! ### white space everywhere: nothing is glued -/

/-- every token is preceded by white space -/
def unglued (ts : List T) : Prop := ∀ t ∈ ts, t.glued = false

theorem gluedPair_of_unglued (p : T → Bool) : ∀ (ts : List T) (d : Nat), unglued ts →
    gluedPair p ts d = false := by
  intro ts
  induction ts with
  | nil => intro d _; simp [gluedPair]
  | cons t1 rest ih =>
    intro d h
    cases rest with
    | nil => simp [gluedPair]
    | cons t2 rest' =>
      have h2 : t2.glued = false := h t2 (by simp)
      have hr : unglued (t2 :: rest') := fun t ht => h t (List.mem_cons_of_mem _ ht)
      simp [gluedPair, h2, ih _ hr]

theorem touching_of_unglued (p : T → Bool) : ∀ (ts : List T), unglued ts → touching p ts = false := by
  intro ts
  induction ts with
  | nil => intro _; simp [touching]
  | cons t1 rest ih =>
    intro h
    cases rest with
    | nil => simp [touching]
    | cons t2 rest' =>
      have h2 : t2.glued = false := h t2 (by simp)
      have hr : unglued (t2 :: rest') := fun t ht => h t (List.mem_cons_of_mem _ ht)
      simp [touching, h2, ih hr]

theorem glueFree_of_unglued {ts : List T} (h : unglued ts) : glueFree ts = true := by
  simp only [glueFree, List.all_eq_true]
  intro c _
  simp [touching_of_unglued c.test ts h]

theorem unglued_PG {G : Ex} {post : List T} (hG : unglued (render G)) (hp : unglued post) :
    unglued (PG G post) := by
  intro t ht
  simp only [PG, List.mem_cons, List.mem_append] at ht
  rcases ht with rfl | ht | rfl | ht
  · rfl
  · exact hG t ht
  · rfl
  · exact hp t ht

/-! ### the cost of `( G )` -/

theorem mC_PG_binL_none {rec : Lv → List T → Option Ex × Nat} {k : Lv} {a b : Lv} (G : Ex)
    (post : List T) (hG : opsOK G)
    (hk : (rowOf k).kind = .binL) (hl : (rowOf k).lhs = some a) (hr : (rowOf k).rhs = some b)
    (hp : splitLast (rowOf k).cls.test post 0 = none) :
    matchStepC rec (rowOf k) (PG G post) = (none, 0) := by
  apply mC_binL_nosplit hk hl hr
  rw [splitLast_PG _ G hG, hp]

theorem mC_PG_binR_none {rec : Lv → List T → Option Ex × Nat} {k : Lv} {a b : Lv} (G : Ex)
    (post : List T) (hG : opsOK G)
    (hk : (rowOf k).kind = .binR) (hl : (rowOf k).lhs = some a) (hr : (rowOf k).rhs = some b)
    (hp : splitFirst (rowOf k).cls.test post 0 = none) :
    matchStepC rec (rowOf k) (PG G post) = (none, 0) := by
  apply mC_binR_nosplit hk hl hr
  rw [splitFirst_PG _ G hG, hp]

theorem mC_PG_unary_none {rec : Lv → List T → Option Ex × Nat} {k : Lv} {b : Lv} (G : Ex)
    (post : List T) (hk : (rowOf k).kind = .unary) (hr : (rowOf k).rhs = some b) :
    matchStepC rec (rowOf k) (PG G post) = (none, 0) :=
  mC_unary_none hk hr (Or.inl (test_lp _))

/-- above `Primary`, `match` of every class fails on `( G )` without any nested call -/
theorem mC_paren_none {rec : Lv → List T → Option Ex × Nat} (G : Ex) (hG : opsOK G) (k : Lv)
    (hk : k ≠ .prim) : matchStepC rec (rowOf k) (PG G []) = (none, 0) := by
  cases k
  case prim => exact absurd rfl hk
  case andOp => exact mC_PG_unary_none G [] rfl rfl
  case l2u => exact mC_PG_unary_none G [] rfl rfl
  case l1 => exact mC_PG_unary_none G [] rfl rfl
  case multOp => exact mC_PG_binR_none G [] hG rfl rfl rfl rfl
  all_goals exact mC_PG_binL_none G [] hG rfl rfl rfl rfl

theorem pc_fall0 {k k' : Lv} {ts : List T} (hm : matchStepC pc (rowOf k) ts = (none, 0))
    (hn : (rowOf k).next = some k') : pc k ts = ((pc k' ts).1, (pc k' ts).2 + 1) := by
  rw [pc_of_none hm hn]
  congr 1
  omega

theorem pc_paren_step (G : Ex) (hG : opsOK G) {k k' : Lv} (hk : k ≠ .prim)
    (hn : (rowOf k).next = some k') :
    pc k (PG G []) = ((pc k' (PG G [])).1, (pc k' (PG G [])).2 + 1) :=
  pc_fall0 (mC_paren_none G hG k hk) hn

theorem pc_prim_paren (G : Ex) :
    pc .prim (PG G []) = ((pc .expr (render G)).1.map .paren, (pc .expr (render G)).2 + 1) := by
  have hm : matchStepC pc (rowOf .prim) (PG G [])
      = ((pc .expr (render G)).1.map .paren, (pc .expr (render G)).2) :=
    mC_prim_paren (rec := pc) (row := rowOf .prim) (mid := render G) (b := .expr) rfl rfl
      (render_ne_nil G)
  rcases hx : pc .expr (render G) with ⟨_ | e, c⟩
  · rw [hx] at hm
    exact pc_of_none_last hm rfl
  · rw [hx] at hm
    exact pc_of_some hm

theorem pc_l1_paren (G : Ex) (hG : opsOK G) :
    (pc .l1 (PG G [])).2 = (pc .expr (render G)).2 + 2 := by
  rw [pc_paren_step G hG (by decide) (rfl : (rowOf .l1).next = some .prim), pc_prim_paren]

/-- `( G )` costs exactly 13 calls (one per class of the chain) more than `G` -/
theorem pc_expr_paren (G : Ex) (hG : opsOK G) :
    pc .expr (PG G []) = ((pc .expr (render G)).1.map .paren, (pc .expr (render G)).2 + 13) := by
  rw [pc_paren_step G hG (by decide) (rfl : (rowOf .expr).next = some .l5),
    pc_paren_step G hG (by decide) (rfl : (rowOf .l5).next = some .equivOp),
    pc_paren_step G hG (by decide) (rfl : (rowOf .equivOp).next = some .orOp),
    pc_paren_step G hG (by decide) (rfl : (rowOf .orOp).next = some .andOp),
    pc_paren_step G hG (by decide) (rfl : (rowOf .andOp).next = some .l4),
    pc_paren_step G hG (by decide) (rfl : (rowOf .l4).next = some .l3),
    pc_paren_step G hG (by decide) (rfl : (rowOf .l3).next = some .l2),
    pc_paren_step G hG (by decide) (rfl : (rowOf .l2).next = some .l2u),
    pc_paren_step G hG (by decide) (rfl : (rowOf .l2u).next = some .addOp),
    pc_paren_step G hG (by decide) (rfl : (rowOf .addOp).next = some .multOp),
    pc_paren_step G hG (by decide) (rfl : (rowOf .multOp).next = some .l1),
    pc_paren_step G hG (by decide) (rfl : (rowOf .l1).next = some .prim), pc_prim_paren]


/-! ### the doubling step  `( G ) ** c + .y. b` -/

abbrev tPow : T := .op .pow false
abbrev tC : T := .atom 3 false false
abbrev tPlus : T := .op .plus false
abbrev tDot : T := .op (.dot 25) false
abbrev tB : T := .atom 2 false false

theorem render_wrapV (G : Ex) : render (wrapV G) = PG G [tPow, tC, tPlus, tDot, tB] := by
  simp [wrapV, render, PG]

theorem PG_ne_nil (G : Ex) (post : List T) : PG G post ≠ [] := by simp [PG]

/-- `( G ) ** c +` is rejected by every class (it ends in an operator) -/
theorem parse_L1_none (G : Ex) (k : Lv) : parse k (PG G [tPow, tC, tPlus]) = none := by
  apply parse_none_of_last (t := tPlus) _ rfl
  have : PG G [tPow, tC, tPlus] = (T.lp :: (render G ++ [T.rp, tPow, tC])) ++ [tPlus] := by simp [PG]
  rw [this, List.getLast?_concat]

/-- first full parse of `G`: the failing attempt `Expr("( G ) ** c +")` descends the whole chain
down to `Mult_Operand`, whose `match` (left-most `**`) builds `Level_1_Expr("( G )")` first -/
theorem cost_L1 (G : Ex) (hG : opsOK G) :
    (pc .expr (render G)).2 + 13 ≤ (pc .expr (PG G [tPow, tC, tPlus])).2 := by
  have hn := parse_L1_none G
  have hs : splitFirst (rowOf .multOp).cls.test (PG G [tPow, tC, tPlus]) 0
      = some (PG G [], tPow, [tC, tPlus]) := by rw [splitFirst_PG _ G hG]; rfl
  have hm : matchStepC pc (rowOf .multOp) (PG G [tPow, tC, tPlus])
      = seq2 (pc .l1 (PG G [])) (pc .multOp [tC, tPlus]) (fun L R => .bin tPow L R) :=
    mC_binR_split rfl rfl rfl hs (PG_ne_nil G []) (by simp) (Or.inl rfl)
  have h0 := pc_ge_match .multOp (PG G [tPow, tC, tPlus])
  rw [hm] at h0
  have h0' := seq2_snd_ge (pc .l1 (PG G [])) (pc .multOp [tC, tPlus]) (fun L R => .bin tPow L R)
  have hp := pc_l1_paren G hG
  have h1 := pc_fall_of_parse_none (hn .expr) (rfl : (rowOf .expr).next = some .l5)
  have h2 := pc_fall_of_parse_none (hn .l5) (rfl : (rowOf .l5).next = some .equivOp)
  have h3 := pc_fall_of_parse_none (hn .equivOp) (rfl : (rowOf .equivOp).next = some .orOp)
  have h4 := pc_fall_of_parse_none (hn .orOp) (rfl : (rowOf .orOp).next = some .andOp)
  have h5 := pc_fall_of_parse_none (hn .andOp) (rfl : (rowOf .andOp).next = some .l4)
  have h6 := pc_fall_of_parse_none (hn .l4) (rfl : (rowOf .l4).next = some .l3)
  have h7 := pc_fall_of_parse_none (hn .l3) (rfl : (rowOf .l3).next = some .l2)
  have h8 := pc_fall_of_parse_none (hn .l2) (rfl : (rowOf .l2).next = some .l2u)
  have h9 := pc_fall_of_parse_none (hn .l2u) (rfl : (rowOf .l2u).next = some .addOp)
  have h10 := pc_fall_of_parse_none (hn .addOp) (rfl : (rowOf .addOp).next = some .multOp)
  omega

/-- second full parse of `G`: `Level_2_Expr("( G ) ** c")` on the successful path -/
theorem cost_X (G : Ex) (hG : opsOK G) :
    (pc .expr (render G)).2 + 6 ≤ (pc .l2 (PG G [tPow, tC])).2 := by
  have hs : splitFirst (rowOf .multOp).cls.test (PG G [tPow, tC]) 0
      = some (PG G [], tPow, [tC]) := by rw [splitFirst_PG _ G hG]; rfl
  have hm : matchStepC pc (rowOf .multOp) (PG G [tPow, tC])
      = seq2 (pc .l1 (PG G [])) (pc .multOp [tC]) (fun L R => .bin tPow L R) :=
    mC_binR_split rfl rfl rfl hs (PG_ne_nil G []) (by simp) (Or.inl rfl)
  have h0 := pc_ge_match .multOp (PG G [tPow, tC])
  rw [hm] at h0
  have h0' := seq2_snd_ge (pc .l1 (PG G [])) (pc .multOp [tC]) (fun L R => .bin tPow L R)
  have hp := pc_l1_paren G hG
  have h1 : pc .l2 (PG G [tPow, tC]) = (_, _) :=
    pc_fall0 (mC_PG_binL_none G _ hG rfl rfl rfl (by decide)) (rfl : (rowOf .l2).next = some .l2u)
  have h2 : pc .l2u (PG G [tPow, tC]) = (_, _) :=
    pc_fall0 (mC_PG_unary_none G _ rfl rfl) (rfl : (rowOf .l2u).next = some .addOp)
  have h3 : pc .addOp (PG G [tPow, tC]) = (_, _) :=
    pc_fall0 (mC_PG_binL_none G _ hG rfl rfl rfl (by decide)) (rfl : (rowOf .addOp).next = some .multOp)
  rw [h1, h2, h3]
  simp only
  omega

theorem unglued_post5 : unglued [tPow, tC, tPlus, tDot, tB] := by
  intro t ht
  simp only [List.mem_cons, List.not_mem_nil, or_false] at ht
  rcases ht with rfl | rfl | rfl | rfl | rfl <;> rfl

/-- **the recurrence**: parsing `( G ) ** c + .y. b` parses `G` twice from scratch -/
theorem cost_wrapV (G : Ex) (hG : opsOK G) (hU : unglued (render G)) :
    2 * (pc .expr (render G)).2 + 43 ≤ (pc .expr (render (wrapV G))).2 := by
  rw [render_wrapV]
  have hU' : unglued (PG G [tPow, tC, tPlus, tDot, tB]) := unglued_PG hU unglued_post5
  -- Expr.match: split at `.y.`; rhs `b` is a Level_5_Expr; lhs `( G ) ** c +` fails (first parse)
  have hs : splitLast (rowOf .expr).cls.test (PG G [tPow, tC, tPlus, tDot, tB]) 0
      = some (PG G [tPow, tC, tPlus], tDot, [tB]) := by rw [splitLast_PG _ G hG]; rfl
  have hm : matchStepC pc (rowOf .expr) (PG G [tPow, tC, tPlus, tDot, tB])
      = seq2 (pc .l5 [tB]) (pc .expr (PG G [tPow, tC, tPlus])) (fun R L => .bin tDot L R) :=
    mC_binL_split rfl rfl rfl (gluedPair_of_unglued _ _ _ hU') hs (PG_ne_nil G _) (by simp)
      (Or.inr rfl)
  have hb : pc .l5 [tB] = (some (.atom 2 false false), 12) := by decide
  have hm1 : (matchStepC pc (rowOf .expr) (PG G [tPow, tC, tPlus, tDot, tB])).1 = none := by
    rw [hm]; exact seq2_fst_none_right (by rw [pc_fst]; exact parse_L1_none G .expr)
  have hm2 : (matchStepC pc (rowOf .expr) (PG G [tPow, tC, tPlus, tDot, tB])).2
      = 12 + (pc .expr (PG G [tPow, tC, tPlus])).2 := by
    rw [hm, seq2_snd_of_some (X := .atom 2 false false) (by rw [hb]), hb]
  have hf := (pc_fall hm1 (rfl : (rowOf .expr).next = some .l5)).1
  have c1 := cost_L1 G hG
  -- fall through Level_5_Expr … Level_3_Expr without nested calls
  have h1 : pc .l5 (PG G [tPow, tC, tPlus, tDot, tB]) = (_, _) :=
    pc_fall0 (mC_PG_binL_none G _ hG rfl rfl rfl (by decide)) (rfl : (rowOf .l5).next = some .equivOp)
  have h2 : pc .equivOp (PG G [tPow, tC, tPlus, tDot, tB]) = (_, _) :=
    pc_fall0 (mC_PG_binL_none G _ hG rfl rfl rfl (by decide)) (rfl : (rowOf .equivOp).next = some .orOp)
  have h3 : pc .orOp (PG G [tPow, tC, tPlus, tDot, tB]) = (_, _) :=
    pc_fall0 (mC_PG_binL_none G _ hG rfl rfl rfl (by decide)) (rfl : (rowOf .orOp).next = some .andOp)
  have h4 : pc .andOp (PG G [tPow, tC, tPlus, tDot, tB]) = (_, _) :=
    pc_fall0 (mC_PG_unary_none G _ rfl rfl) (rfl : (rowOf .andOp).next = some .l4)
  have h5 : pc .l4 (PG G [tPow, tC, tPlus, tDot, tB]) = (_, _) :=
    pc_fall0 (mC_PG_binL_none G _ hG rfl rfl rfl (by decide)) (rfl : (rowOf .l4).next = some .l3)
  have h6 : pc .l3 (PG G [tPow, tC, tPlus, tDot, tB]) = (_, _) :=
    pc_fall0 (mC_PG_binL_none G _ hG rfl rfl rfl (by decide)) (rfl : (rowOf .l3).next = some .l2)
  -- Level_2_Expr.match: split at `+`; rhs `.y. b` is an Add_Operand; lhs `( G ) ** c` (second parse)
  have hs2 : splitLast (rowOf .l2).cls.test (PG G [tPow, tC, tPlus, tDot, tB]) 0
      = some (PG G [tPow, tC], tPlus, [tDot, tB]) := by rw [splitLast_PG _ G hG]; rfl
  have hmL2 : matchStepC pc (rowOf .l2) (PG G [tPow, tC, tPlus, tDot, tB])
      = seq2 (pc .addOp [tDot, tB]) (pc .l2 (PG G [tPow, tC])) (fun R L => .bin tPlus L R) :=
    mC_binL_split rfl rfl rfl (gluedPair_of_unglued _ _ _ hU') hs2 (PG_ne_nil G _) (by simp)
      (Or.inl rfl)
  have hyb : pc .addOp [tDot, tB] = (some (.un tDot (.atom 2 false false)), 4) := by decide
  have hmL2' : (matchStepC pc (rowOf .l2) (PG G [tPow, tC, tPlus, tDot, tB])).2
      = 4 + (pc .l2 (PG G [tPow, tC])).2 := by
    rw [hmL2, seq2_snd_of_some (X := .un tDot (.atom 2 false false)) (by rw [hyb]), hyb]
  have hg := pc_ge_match .l2 (PG G [tPow, tC, tPlus, tDot, tB])
  have c2 := cost_X G hG
  rw [h1, h2, h3, h4, h5, h6] at hf
  simp only at hf
  omega


/-! ### the family `V` -/

theorem derives_wrapV {G : Ex} (h : Derives .expr G) : Derives .expr (wrapV G) :=
  .expr_l5 (.l5_equiv (.equiv_or (.or_and (.and_l4 (.l4_l3 (.l3_l2
    (.l2_bin .plus false rfl
      (.l2_add (.add_mult (.mult_pow false (.l1_prim (.parens h))
        (.mult_l1 (.l1_prim (.operand 3 false false))))))
      (.add_mult (.mult_l1 (.l1_defun 25 false (.operand 2 false false)))))))))))

theorem derives_V : ∀ d, Derives .expr (V d)
  | 0 => .expr_l5 (.l5_equiv (.equiv_or (.or_and (.and_l4 (.l4_l3 (.l3_l2 (.l2_add (.add_mult
      (.mult_l1 (.l1_prim (.operand 1 false false)))))))))))
  | d+1 => derives_wrapV (derives_V d)

theorem ndr_wrapV {G : Ex} (h : noDottedRightOfDefinedBinary G = true) :
    noDottedRightOfDefinedBinary (wrapV G) = true := by
  simp [wrapV, noDottedRightOfDefinedBinary, h]

theorem ndr_V : ∀ d, noDottedRightOfDefinedBinary (V d) = true
  | 0 => rfl
  | d+1 => ndr_wrapV (ndr_V d)

theorem unglued_wrapV {G : Ex} (h : unglued (render G)) : unglued (render (wrapV G)) := by
  rw [render_wrapV]; exact unglued_PG h unglued_post5

theorem unglued_V : ∀ d, unglued (render (V d))
  | 0 => by intro t ht; simp [V, render] at ht; subst ht; rfl
  | d+1 => unglued_wrapV (unglued_V d)

theorem length_wrapV (G : Ex) : (render (wrapV G)).length = (render G).length + 7 := by
  rw [render_wrapV]; simp [PG]

theorem length_V : ∀ d, (render (V d)).length = 7 * d + 1
  | 0 => rfl
  | d+1 => by rw [V, length_wrapV, length_V d]; omega

theorem cost_V : ∀ d, 2 ^ d ≤ (pc .expr (render (V d))).2
  | 0 => by decide
  | d+1 => by
    have := cost_wrapV (V d) (derives_opsOK (derives_V d)) (unglued_V d)
    have ih := cost_V d
    rw [V, Nat.pow_succ]
    omega

/-- sharper: at least `56·2^d − 43` calls -/
theorem cost_V_sharp : ∀ d, 56 * 2 ^ d ≤ (pc .expr (render (V d))).2 + 43
  | 0 => by decide
  | d+1 => by
    have := cost_wrapV (V d) (derives_opsOK (derives_V d)) (unglued_V d)
    have ih := cost_V_sharp d
    rw [V, Nat.pow_succ]
    omega

/-! ### the family `N` -/

theorem opsOK_N : ∀ d, opsOK (N d)
  | 0 => trivial
  | d+1 => opsOK_N d

theorem cost_N : ∀ d, (pc .expr (render (N d))).2 = 13 * d + 13
  | 0 => by decide
  | d+1 => by
    rw [N, render_paren_PG, pc_expr_paren _ (opsOK_N d), cost_N d]
    simp only
    omega


/-! ### a crude upper bound valid for every token list -/

theorem pow14_add {a b : Nat} (ha : 1 ≤ a) (hb : 1 ≤ b) : 14 ^ a + 14 ^ b ≤ 14 ^ (a + b) := by
  have hx : 2 ≤ 14 ^ a := Nat.le_trans (by decide : 2 ≤ 14 ^ 1) (Nat.pow_le_pow_right (by decide) ha)
  have hy : 2 ≤ 14 ^ b := Nat.le_trans (by decide : 2 ≤ 14 ^ 1) (Nat.pow_le_pow_right (by decide) hb)
  obtain ⟨x, hx'⟩ : ∃ x, 14 ^ a = x + 2 := ⟨14 ^ a - 2, by omega⟩
  obtain ⟨y, hy'⟩ : ∃ y, 14 ^ b = y + 2 := ⟨14 ^ b - 2, by omega⟩
  rw [Nat.pow_add, hx', hy']
  simp only [Nat.add_mul, Nat.mul_add]
  omega

theorem bound2 {a b x y : Nat} (ha : 1 ≤ a) (hb : 1 ≤ b) (hx : x ≤ 13 * 14 ^ a)
    (hy : y ≤ 13 * 14 ^ b) : x + y + 1 ≤ 14 ^ (a + b + 1) := by
  have := pow14_add ha hb
  have h1 : 1 ≤ 14 ^ (a + b) := Nat.pow_pos (by decide)
  rw [Nat.pow_succ]
  omega

theorem bound1 {a x : Nat} (hx : x ≤ 13 * 14 ^ a) : x + 1 ≤ 14 ^ (a + 1) := by
  have h1 : 1 ≤ 14 ^ a := Nat.pow_pos (by decide)
  rw [Nat.pow_succ]
  omega

theorem bound1' {a x : Nat} (hx : x ≤ 13 * 14 ^ a) : x + 1 ≤ 14 ^ (a + 2) := by
  have := bound1 hx
  have : 14 ^ (a + 1) ≤ 14 ^ (a + 2) := Nat.pow_le_pow_right (by decide) (by omega)
  omega

/-- one `match` (plus the call itself) costs at most `14^|ts|` when the nested calls, all on
strictly shorter strings, cost at most `13·14^length` -/
theorem mC_le {rec : Lv → List T → Option Ex × Nat} {row : Row} {ts : List T}
    (h : ∀ k' ts', ts'.length < ts.length → (rec k' ts').2 ≤ 13 * 14 ^ ts'.length) :
    (matchStepC rec row ts).2 + 1 ≤ 14 ^ ts.length := by
  have h1 : 0 + 1 ≤ 14 ^ ts.length := Nat.pow_pos (by decide)
  unfold matchStepC
  split
  · -- binL
    rename_i lhs rhs _ _ _
    split
    · exact h1
    · split
      · rename_i l o r hs
        have e := splitLast_eq hs
        split
        · exact h1
        · rename_i hne
          split
          · exact h1
          · have hl0 : 1 ≤ l.length := by
              cases l with
              | nil => simp at hne
              | cons _ _ => simp
            have hr0 : 1 ≤ r.length := by
              cases r with
              | nil => simp at hne
              | cons _ _ => simp
            have hlen : ts.length = r.length + l.length + 1 := by rw [e]; simp; omega
            have hl := h lhs l (by omega)
            have hr := h rhs r (by omega)
            have key := bound2 hr0 hl0 hr hl
            rw [← hlen] at key
            clear hl hr
            generalize rec rhs r = X at key ⊢
            generalize rec lhs l = Y at key ⊢
            rcases X with ⟨_ | R, c1⟩ <;> rcases Y with ⟨_ | L, c2⟩ <;> simp only at key ⊢ <;> omega
      · exact h1
  · -- binR
    rename_i lhs rhs _ _ _
    split
    · rename_i l o r hs
      have e := splitFirst_eq hs
      split
      · exact h1
      · rename_i hne
        split
        · exact h1
        · have hl0 : 1 ≤ l.length := by
            cases l with
            | nil => simp at hne
            | cons _ _ => simp
          have hr0 : 1 ≤ r.length := by
            cases r with
            | nil => simp at hne
            | cons _ _ => simp
          have hlen : ts.length = l.length + r.length + 1 := by rw [e]; simp; omega
          have hl := h lhs l (by omega)
          have hr := h rhs r (by omega)
          have key := bound2 hl0 hr0 hl hr
          rw [← hlen] at key
          clear hl hr
          generalize rec rhs r = X at key ⊢
          generalize rec lhs l = Y at key ⊢
          rcases X with ⟨_ | R, c1⟩ <;> rcases Y with ⟨_ | L, c2⟩ <;> simp only at key ⊢ <;> omega
    · exact h1
  · -- unary
    rename_i rhs _ _
    split
    · rename_i o r
      split
      · have hr := h rhs r (by simp)
        have key := bound1 hr
        have hlen : (o :: r).length = r.length + 1 := by simp
        rw [← hlen] at key
        clear hr
        generalize rec rhs r = X at key ⊢
        rcases X with ⟨_ | R, c1⟩ <;> simp only at key ⊢ <;> omega
      · exact h1
    · exact h1
  · -- prim
    rename_i inner _ _
    split
    · exact h1
    · split
      · rename_i rest _ _ hl
        split
        · exact h1
        · have hlen : (T.lp :: rest).length = rest.dropLast.length + 2 := by
            have := getLast_dropLast hl
            rw [this]; simp
          have hr := h inner rest.dropLast (by omega)
          have key := bound1' hr
          rw [← hlen] at key
          clear hr
          generalize rec inner rest.dropLast = X at key ⊢
          rcases X with ⟨_ | R, c1⟩ <;> simp only at key ⊢ <;> omega
      · exact h1
    · exact h1
  · exact h1

theorem pc_snd_le_last {k : Lv} {ts : List T} (hn : (rowOf k).next = none) :
    (pc k ts).2 ≤ (matchStepC pc (rowOf k) ts).2 + 1 := by
  rw [pc_unfold k ts]
  rcases matchStepC pc (rowOf k) ts with ⟨_ | e, c⟩
  · simp [hn]
  · simp

theorem pc_snd_le_next {k k' : Lv} {ts : List T} (hn : (rowOf k).next = some k') :
    (pc k ts).2 ≤ (matchStepC pc (rowOf k) ts).2 + 1 + (pc k' ts).2 := by
  rw [pc_unfold k ts]
  rcases matchStepC pc (rowOf k) ts with ⟨_ | e, c⟩
  · simp [hn]
  · simp

theorem level_step {k k' : Lv} {ts : List T} {X : Nat} (hn : (rowOf k).next = some k')
    (hk' : (pc k' ts).2 ≤ (k'.rank + 1) * X) (hm : (matchStepC pc (rowOf k) ts).2 + 1 ≤ X)
    (hr : k.rank = k'.rank + 1) : (pc k ts).2 ≤ (k.rank + 1) * X := by
  have := pc_snd_le_next (ts := ts) hn
  rw [hr, Nat.add_mul (k'.rank + 1) 1 X]
  omega

theorem level_induct {ts : List T}
    (h : ∀ k' ts', ts'.length < ts.length → (pc k' ts').2 ≤ (k'.rank + 1) * 14 ^ ts'.length) :
    ∀ k, (pc k ts).2 ≤ (k.rank + 1) * 14 ^ ts.length := by
  have hm : ∀ k, (matchStepC pc (rowOf k) ts).2 + 1 ≤ 14 ^ ts.length := by
    intro k
    apply mC_le
    intro k' ts' hlt
    have h1 := h k' ts' hlt
    have h2 := rank_le k'
    have : (k'.rank + 1) * 14 ^ ts'.length ≤ 13 * 14 ^ ts'.length :=
      Nat.mul_le_mul_right _ (by omega)
    omega
  have p0 : (pc .prim ts).2 ≤ (Lv.prim.rank + 1) * 14 ^ ts.length := by
    have := pc_snd_le_last (k := .prim) (ts := ts) rfl
    have := hm .prim
    simp only [Lv.rank]
    omega
  have p1 := level_step (k := .l1) rfl p0 (hm _) rfl
  have p2 := level_step (k := .multOp) rfl p1 (hm _) rfl
  have p3 := level_step (k := .addOp) rfl p2 (hm _) rfl
  have p4 := level_step (k := .l2u) rfl p3 (hm _) rfl
  have p5 := level_step (k := .l2) rfl p4 (hm _) rfl
  have p6 := level_step (k := .l3) rfl p5 (hm _) rfl
  have p7 := level_step (k := .l4) rfl p6 (hm _) rfl
  have p8 := level_step (k := .andOp) rfl p7 (hm _) rfl
  have p9 := level_step (k := .orOp) rfl p8 (hm _) rfl
  have p10 := level_step (k := .equivOp) rfl p9 (hm _) rfl
  have p11 := level_step (k := .l5) rfl p10 (hm _) rfl
  have p12 := level_step (k := .expr) rfl p11 (hm _) rfl
  intro k
  cases k <;> assumption

theorem pc_le_aux : ∀ (n : Nat) (ts : List T), ts.length ≤ n → ∀ k,
    (pc k ts).2 ≤ (k.rank + 1) * 14 ^ ts.length := by
  intro n
  induction n with
  | zero =>
    intro ts h k
    exact level_induct (fun k' ts' hlt => absurd hlt (by omega)) k
  | succ n ih =>
    intro ts h k
    exact level_induct (fun k' ts' hlt => ih ts' (by omega) k') k

theorem pc_le (k : Lv) (ts : List T) : (pc k ts).2 ≤ (k.rank + 1) * 14 ^ ts.length :=
  pc_le_aux ts.length ts (Nat.le_refl _) k


/-! ### the exact cost of the doubling step when `G` is accepted -/

theorem mC_binL_empty {rec : Lv → List T → Option Ex × Nat} {row : Row} {ts : List T} {a b : Lv}
    {l r : List T} {o : T}
    (hk : row.kind = .binL) (hl : row.lhs = some a) (hr : row.rhs = some b)
    (hs : splitLast row.cls.test ts 0 = some (l, o, r)) (he : l = [] ∨ r = []) :
    matchStepC rec row ts = (none, 0) := by
  unfold matchStepC
  rw [hk, hl, hr]
  simp only [hs]
  split
  · rfl
  · first | rfl | (rcases he with h | h <;> simp [h])

theorem mC_prim_notclosed {rec : Lv → List T → Option Ex × Nat} {row : Row} {rest : List T} {b : Lv}
    {t : T} (hk : row.kind = .prim) (hr : row.rhs = some b) (hl : rest.getLast? = some t)
    (ht : t ≠ .rp) : matchStepC rec row (.lp :: rest) = (none, 0) := by
  unfold matchStepC
  rw [hk, hr]
  simp only [hl]
  cases t <;> simp at ht ⊢

theorem fall0_eq {k k' : Lv} {ts : List T} {r : Option Ex} {c c' : Nat}
    (hm : matchStepC pc (rowOf k) ts = (none, 0)) (hn : (rowOf k).next = some k')
    (hp : pc k' ts = (r, c)) (hc : c + 1 = c') : pc k ts = (r, c') := by
  rw [pc_fall0 hm hn, hp, ← hc]

theorem pc_l1_paren_some (G : Ex) (hG : opsOK G) {e : Ex} {p : Nat}
    (hP : pc .expr (render G) = (some e, p)) : pc .l1 (PG G []) = (some (.paren e), p + 2) := by
  rw [pc_paren_step G hG (by decide) (rfl : (rowOf .l1).next = some .prim), pc_prim_paren, hP]
  rfl

theorem exact_L1 (G : Ex) (hG : opsOK G) {e : Ex} {p : Nat}
    (hP : pc .expr (render G) = (some e, p)) :
    pc .expr (PG G [tPow, tC, tPlus]) = (none, p + 18) := by
  have e0 : pc .prim (PG G [tPow, tC, tPlus]) = (none, 1) := by
    have hl : (render G ++ [T.rp, tPow, tC, tPlus]).getLast? = some tPlus := by
      have : render G ++ [T.rp, tPow, tC, tPlus] = (render G ++ [T.rp, tPow, tC]) ++ [tPlus] := by simp
      rw [this, List.getLast?_concat]
    exact pc_of_none_last (mC_prim_notclosed (rec := pc) (row := rowOf .prim) rfl rfl hl (by decide)) rfl
  have e1 : pc .l1 (PG G [tPow, tC, tPlus]) = (none, 2) :=
    fall0_eq (mC_PG_unary_none G _ rfl rfl) rfl e0 rfl
  have hs : splitFirst (rowOf .multOp).cls.test (PG G [tPow, tC, tPlus]) 0
      = some (PG G [], tPow, [tC, tPlus]) := by rw [splitFirst_PG _ G hG]; rfl
  have hm : matchStepC pc (rowOf .multOp) (PG G [tPow, tC, tPlus]) = (none, p + 5) := by
    rw [mC_binR_split (rec := pc) rfl rfl rfl hs (PG_ne_nil G []) (by simp) (Or.inl rfl),
      pc_l1_paren_some G hG hP]
    have : pc .multOp [tC, tPlus] = (none, 3) := by decide
    rw [this]; rfl
  have e2 : pc .multOp (PG G [tPow, tC, tPlus]) = (none, p + 8) := by
    rw [pc_of_none hm (rfl : (rowOf .multOp).next = some .l1), e1]
    rfl
  have e3 : pc .addOp (PG G [tPow, tC, tPlus]) = (none, p + 9) :=
    fall0_eq (mC_PG_binL_none G _ hG rfl rfl rfl (by decide)) rfl e2 rfl
  have e4 : pc .l2u (PG G [tPow, tC, tPlus]) = (none, p + 10) :=
    fall0_eq (mC_PG_unary_none G _ rfl rfl) rfl e3 rfl
  have hs2 : splitLast (rowOf .l2).cls.test (PG G [tPow, tC, tPlus]) 0
      = some (PG G [tPow, tC], tPlus, []) := by rw [splitLast_PG _ G hG]; rfl
  have e5 : pc .l2 (PG G [tPow, tC, tPlus]) = (none, p + 11) :=
    fall0_eq (mC_binL_empty rfl rfl rfl hs2 (Or.inr rfl)) rfl e4 rfl
  have e6 : pc .l3 (PG G [tPow, tC, tPlus]) = (none, p + 12) :=
    fall0_eq (mC_PG_binL_none G _ hG rfl rfl rfl (by decide)) rfl e5 rfl
  have e7 : pc .l4 (PG G [tPow, tC, tPlus]) = (none, p + 13) :=
    fall0_eq (mC_PG_binL_none G _ hG rfl rfl rfl (by decide)) rfl e6 rfl
  have e8 : pc .andOp (PG G [tPow, tC, tPlus]) = (none, p + 14) :=
    fall0_eq (mC_PG_unary_none G _ rfl rfl) rfl e7 rfl
  have e9 : pc .orOp (PG G [tPow, tC, tPlus]) = (none, p + 15) :=
    fall0_eq (mC_PG_binL_none G _ hG rfl rfl rfl (by decide)) rfl e8 rfl
  have e10 : pc .equivOp (PG G [tPow, tC, tPlus]) = (none, p + 16) :=
    fall0_eq (mC_PG_binL_none G _ hG rfl rfl rfl (by decide)) rfl e9 rfl
  have e11 : pc .l5 (PG G [tPow, tC, tPlus]) = (none, p + 17) :=
    fall0_eq (mC_PG_binL_none G _ hG rfl rfl rfl (by decide)) rfl e10 rfl
  exact fall0_eq (mC_PG_binL_none G _ hG rfl rfl rfl (by decide)) rfl e11 rfl

theorem exact_X (G : Ex) (hG : opsOK G) {e : Ex} {p : Nat}
    (hP : pc .expr (render G) = (some e, p)) :
    pc .l2 (PG G [tPow, tC]) = (some (.bin tPow (.paren e) (.atom 3 false false)), p + 9) := by
  have hs : splitFirst (rowOf .multOp).cls.test (PG G [tPow, tC]) 0
      = some (PG G [], tPow, [tC]) := by rw [splitFirst_PG _ G hG]; rfl
  have hm : matchStepC pc (rowOf .multOp) (PG G [tPow, tC])
      = (some (.bin tPow (.paren e) (.atom 3 false false)), p + 5) := by
    rw [mC_binR_split (rec := pc) rfl rfl rfl hs (PG_ne_nil G []) (by simp) (Or.inl rfl),
      pc_l1_paren_some G hG hP]
    have : pc .multOp [tC] = (some (.atom 3 false false), 3) := by decide
    rw [this]; rfl
  have e2 : pc .multOp (PG G [tPow, tC])
      = (some (.bin tPow (.paren e) (.atom 3 false false)), p + 6) := pc_of_some hm
  have e3 : pc .addOp (PG G [tPow, tC]) = (_, p + 7) :=
    fall0_eq (mC_PG_binL_none G _ hG rfl rfl rfl (by decide)) rfl e2 rfl
  have e4 : pc .l2u (PG G [tPow, tC]) = (_, p + 8) :=
    fall0_eq (mC_PG_unary_none G _ rfl rfl) rfl e3 rfl
  exact fall0_eq (mC_PG_binL_none G _ hG rfl rfl rfl (by decide)) rfl e4 rfl

/-- exact form of the recurrence for an accepted `G`: `T(( G ) ** c + .y. b) = 2·T(G) + 51` -/
theorem exact_wrapV (G : Ex) (hG : opsOK G) (hU : unglued (render G)) {e : Ex} {p : Nat}
    (hP : pc .expr (render G) = (some e, p)) :
    pc .expr (render (wrapV G)) = (some (wrapV e), 2 * p + 51) := by
  rw [render_wrapV]
  have hU' : unglued (PG G [tPow, tC, tPlus, tDot, tB]) := unglued_PG hU unglued_post5
  have hs : splitLast (rowOf .expr).cls.test (PG G [tPow, tC, tPlus, tDot, tB]) 0
      = some (PG G [tPow, tC, tPlus], tDot, [tB]) := by rw [splitLast_PG _ G hG]; rfl
  have hm : matchStepC pc (rowOf .expr) (PG G [tPow, tC, tPlus, tDot, tB]) = (none, p + 30) := by
    rw [mC_binL_split (rec := pc) rfl rfl rfl (gluedPair_of_unglued _ _ _ hU') hs (PG_ne_nil G _)
      (by simp) (Or.inr rfl), exact_L1 G hG hP]
    have : pc .l5 [tB] = (some (.atom 2 false false), 12) := by decide
    rw [this]
    exact Prod.ext rfl (by simp only [seq2]; omega)
  have hs2 : splitLast (rowOf .l2).cls.test (PG G [tPow, tC, tPlus, tDot, tB]) 0
      = some (PG G [tPow, tC], tPlus, [tDot, tB]) := by rw [splitLast_PG _ G hG]; rfl
  have hm2 : matchStepC pc (rowOf .l2) (PG G [tPow, tC, tPlus, tDot, tB])
      = (some (wrapV e), p + 13) := by
    rw [mC_binL_split (rec := pc) rfl rfl rfl (gluedPair_of_unglued _ _ _ hU') hs2 (PG_ne_nil G _)
      (by simp) (Or.inl rfl), exact_X G hG hP]
    have : pc .addOp [tDot, tB] = (some (.un tDot (.atom 2 false false)), 4) := by decide
    rw [this]
    exact Prod.ext rfl (by simp only [seq2]; omega)
  have e5 : pc .l2 (PG G [tPow, tC, tPlus, tDot, tB]) = (some (wrapV e), p + 14) := pc_of_some hm2
  have e6 : pc .l3 (PG G [tPow, tC, tPlus, tDot, tB]) = (_, p + 15) :=
    fall0_eq (mC_PG_binL_none G _ hG rfl rfl rfl (by decide)) rfl e5 rfl
  have e7 : pc .l4 (PG G [tPow, tC, tPlus, tDot, tB]) = (_, p + 16) :=
    fall0_eq (mC_PG_binL_none G _ hG rfl rfl rfl (by decide)) rfl e6 rfl
  have e8 : pc .andOp (PG G [tPow, tC, tPlus, tDot, tB]) = (_, p + 17) :=
    fall0_eq (mC_PG_unary_none G _ rfl rfl) rfl e7 rfl
  have e9 : pc .orOp (PG G [tPow, tC, tPlus, tDot, tB]) = (_, p + 18) :=
    fall0_eq (mC_PG_binL_none G _ hG rfl rfl rfl (by decide)) rfl e8 rfl
  have e10 : pc .equivOp (PG G [tPow, tC, tPlus, tDot, tB]) = (_, p + 19) :=
    fall0_eq (mC_PG_binL_none G _ hG rfl rfl rfl (by decide)) rfl e9 rfl
  have e11 : pc .l5 (PG G [tPow, tC, tPlus, tDot, tB]) = (_, p + 20) :=
    fall0_eq (mC_PG_binL_none G _ hG rfl rfl rfl (by decide)) rfl e10 rfl
  rw [pc_of_none hm (rfl : (rowOf .expr).next = some .l5), e11]
  exact Prod.ext rfl (by simp only; omega)

/-- the exact cost of the family: `64·2^d − 51` calls for `7d+1` tokens -/
theorem exact_V : ∀ d, pc .expr (render (V d)) = (some (V d), 64 * 2 ^ d - 51)
  | 0 => by decide
  | d+1 => by
    rw [V, exact_wrapV (V d) (derives_opsOK (derives_V d)) (unglued_V d) (exact_V d)]
    refine Prod.ext rfl ?_
    have : 1 ≤ 2 ^ d := Nat.pow_pos (by decide)
    simp only [Nat.pow_succ]
    omega


/-! ### the same doubling on INVALID input  `* b .eqv. a .or. ( G )` -/

abbrev tMul : T := .op .mul false
abbrev tA : T := .atom 1 false false
abbrev tEqv : T := .op .eqv false
abbrev tOr : T := .op .or false

theorem wrapBad_eq (G : Ex) : wrapBad (render G) = [tMul, tB, tEqv, tA, tOr] ++ PG G [] := by
  simp [wrapBad, PG]

theorem splitLast_pre_PG (p : T → Bool) (G : Ex) (hG : opsOK G) (pre : List T)
    (hd : depthAfter 0 pre = 0) :
    splitLast p (pre ++ PG G []) 0 =
      match splitLast p pre 0 with
      | some (l, o, r) => some (l, o, r ++ PG G [])
      | none => none := by
  rw [splitLast_append, hd, splitLast_PG _ G hG []]
  have h0 : splitLast p [] 0 = none := rfl
  simp only [h0]
  rcases splitLast p pre 0 with _ | ⟨l, o, r⟩ <;> rfl

theorem unglued_append {xs ys : List T} (hx : unglued xs) (hy : unglued ys) : unglued (xs ++ ys) := by
  intro t ht
  rcases List.mem_append.mp ht with h | h
  · exact hx t h
  · exact hy t h

theorem mC_binL_excl {rec : Lv → List T → Option Ex × Nat} {row : Row} {ts : List T} {a b : Lv}
    {l r : List T} {o : T}
    (hk : row.kind = .binL) (hl : row.lhs = some a) (hr : row.rhs = some b)
    (hs : splitLast row.cls.test ts 0 = some (l, o, r)) (he : row.excl = true) (ho : o.excluded = true) :
    matchStepC rec row ts = (none, 0) := by
  unfold matchStepC
  rw [hk, hl, hr]
  simp only [hs, he, ho]
  split
  · rfl
  · split
    · rfl
    · simp

theorem pc_orOp_paren (G : Ex) (hG : opsOK G) :
    (pc .orOp (PG G [])).2 = (pc .expr (render G)).2 + 10 := by
  rw [pc_paren_step G hG (by decide) (rfl : (rowOf .orOp).next = some .andOp),
    pc_paren_step G hG (by decide) (rfl : (rowOf .andOp).next = some .l4),
    pc_paren_step G hG (by decide) (rfl : (rowOf .l4).next = some .l3),
    pc_paren_step G hG (by decide) (rfl : (rowOf .l3).next = some .l2),
    pc_paren_step G hG (by decide) (rfl : (rowOf .l2).next = some .l2u),
    pc_paren_step G hG (by decide) (rfl : (rowOf .l2u).next = some .addOp),
    pc_paren_step G hG (by decide) (rfl : (rowOf .addOp).next = some .multOp),
    pc_paren_step G hG (by decide) (rfl : (rowOf .multOp).next = some .l1),
    pc_paren_step G hG (by decide) (rfl : (rowOf .l1).next = some .prim), pc_prim_paren]

/-- the recurrence on invalid input: `( G )` is handed to `Or_Operand` twice (once inside the
failing `Level_5_Expr.match`, once inside `Equiv_Operand.match`), whether or not `G` parses -/
theorem cost_wrapBad (G : Ex) (hG : opsOK G) (hU : unglued (render G)) :
    2 * (pc .expr (render G)).2 + 24 ≤ (pc .expr (wrapBad (render G))).2 := by
  rw [wrapBad_eq]
  have hpre : unglued [tMul, tB, tEqv, tA, tOr] := by
    intro t ht
    simp only [List.mem_cons, List.not_mem_nil, or_false] at ht
    rcases ht with rfl | rfl | rfl | rfl | rfl <;> rfl
  have hU' : unglued ([tMul, tB, tEqv, tA, tOr] ++ PG G []) :=
    unglued_append hpre (unglued_PG hU (fun _ h => absurd h (by simp)))
  have hP := pc_orOp_paren G hG
  -- Expr.match: the right-most `.word.` is `.or.`, an intrinsic operator: excluded
  have hs0 : splitLast (rowOf .expr).cls.test ([tMul, tB, tEqv, tA, tOr] ++ PG G []) 0
      = some ([tMul, tB, tEqv, tA], tOr, [] ++ PG G []) := by
    rw [splitLast_pre_PG _ G hG _ rfl]; rfl
  have e0 : pc .expr ([tMul, tB, tEqv, tA, tOr] ++ PG G []) = (_, _) :=
    pc_fall0 (mC_binL_excl rfl rfl rfl hs0 rfl rfl) (rfl : (rowOf .expr).next = some .l5)
  -- Level_5_Expr.match: split at `.eqv.`; rhs `a .or. ( G )` first (first parse), lhs `* b` fails
  have hs1 : splitLast (rowOf .l5).cls.test ([tMul, tB, tEqv, tA, tOr] ++ PG G []) 0
      = some ([tMul, tB], tEqv, [tA, tOr] ++ PG G []) := by
    rw [splitLast_pre_PG _ G hG _ rfl]; rfl
  have hm1 : matchStepC pc (rowOf .l5) ([tMul, tB, tEqv, tA, tOr] ++ PG G [])
      = seq2 (pc .equivOp ([tA, tOr] ++ PG G [])) (pc .l5 [tMul, tB]) (fun R L => .bin tEqv L R) :=
    mC_binL_split rfl rfl rfl (gluedPair_of_unglued _ _ _ hU') hs1 (by simp) (by simp) (Or.inl rfl)
  have hlb : (pc .l5 [tMul, tB]).1 = none := by decide
  have hm1n : (matchStepC pc (rowOf .l5) ([tMul, tB, tEqv, tA, tOr] ++ PG G [])).1 = none := by
    rw [hm1]; exact seq2_fst_none_right hlb
  have hm1c := seq2_snd_ge (pc .equivOp ([tA, tOr] ++ PG G [])) (pc .l5 [tMul, tB])
    (fun R L => .bin tEqv L R)
  rw [← hm1] at hm1c
  have hf := (pc_fall hm1n (rfl : (rowOf .l5).next = some .equivOp)).1
  -- inside: Equiv_Operand("a .or. ( G )") splits at `.or.` and builds Or_Operand("( G )")
  have hs2 : splitLast (rowOf .equivOp).cls.test ([tA, tOr] ++ PG G []) 0
      = some ([tA], tOr, [] ++ PG G []) := by
    rw [splitLast_pre_PG _ G hG _ rfl]; rfl
  have hU2 : unglued ([tA, tOr] ++ PG G []) :=
    unglued_append (fun t ht => hpre t (by simp at ht ⊢; rcases ht with h | h <;> simp [h]))
      (unglued_PG hU (fun _ h => absurd h (by simp)))
  have hm2 : matchStepC pc (rowOf .equivOp) ([tA, tOr] ++ PG G [])
      = seq2 (pc .orOp ([] ++ PG G [])) (pc .equivOp [tA]) (fun R L => .bin tOr L R) :=
    mC_binL_split rfl rfl rfl (gluedPair_of_unglued _ _ _ hU2) hs2 (by simp) (by simp [PG])
      (Or.inl rfl)
  have hm2c := seq2_snd_ge (pc .orOp ([] ++ PG G [])) (pc .equivOp [tA]) (fun R L => .bin tOr L R)
  rw [← hm2] at hm2c
  have hg2 := pc_ge_match .equivOp ([tA, tOr] ++ PG G [])
  -- second parse: Equiv_Operand.match on the whole string
  have hs3 : splitLast (rowOf .equivOp).cls.test ([tMul, tB, tEqv, tA, tOr] ++ PG G []) 0
      = some ([tMul, tB, tEqv, tA], tOr, [] ++ PG G []) := by
    rw [splitLast_pre_PG _ G hG _ rfl]; rfl
  have hm3 : matchStepC pc (rowOf .equivOp) ([tMul, tB, tEqv, tA, tOr] ++ PG G [])
      = seq2 (pc .orOp ([] ++ PG G [])) (pc .equivOp [tMul, tB, tEqv, tA]) (fun R L => .bin tOr L R) :=
    mC_binL_split rfl rfl rfl (gluedPair_of_unglued _ _ _ hU') hs3 (by simp) (by simp [PG])
      (Or.inl rfl)
  have hm3c := seq2_snd_ge (pc .orOp ([] ++ PG G [])) (pc .equivOp [tMul, tB, tEqv, tA])
    (fun R L => .bin tOr L R)
  rw [← hm3] at hm3c
  have hg3 := pc_ge_match .equivOp ([tMul, tB, tEqv, tA, tOr] ++ PG G [])
  rw [List.nil_append] at hm2c hm3c
  rw [e0]
  simp only
  omega

/-! the input really is invalid: nothing the chain accepts starts with `*` -/

theorem groups_first {k : Lv} {e : Ex} (h : Groups k e) :
    ∀ t rest, render e = t :: rest → ∀ g, t ≠ .op .mul g := by
  induction h with
  | sub _ _ ih => exact ih
  | @bin k a b o l r _ _ _ _ _ _ _ _ ihl _ =>
    intro t rest hr g
    simp only [render] at hr
    cases hl : render l with
    | nil => exact absurd hl (render_ne_nil l)
    | cons x xs =>
      rw [hl] at hr
      simp only [List.cons_append, List.cons.injEq] at hr
      rw [← hr.1]
      exact ihl x xs hl g
  | @un k b o e hk _ ht _ _ =>
    intro t rest hr g heq
    simp only [render, List.cons.injEq] at hr
    rw [hr.1, heq] at ht
    cases k <;> simp [rowOf, levels, OpCls.test, T.isDotted, Op.isDotted] at hk ht
  | atom i d g' _ =>
    intro t rest hr g heq
    simp only [render, List.cons.injEq] at hr
    rw [← hr.1] at heq
    exact absurd heq (by simp)
  | paren _ _ _ _ =>
    intro t rest hr g heq
    simp only [render, List.cons.injEq] at hr
    rw [← hr.1] at heq
    exact absurd heq (by simp)

theorem parse_mul_first_none (k : Lv) (g : Bool) (rest : List T) :
    parse k (.op .mul g :: rest) = none := by
  cases h : parse k (.op .mul g :: rest) with
  | none => rfl
  | some e =>
    have h1 := parseF_sound _ _ _ _ h
    have h2 := parseF_groups _ _ _ _ h
    exact absurd rfl (groups_first h2 _ _ h1 g)

/-- the invalid family as trees (only so that `render` produces the token lists) -/
def BadE : Nat → Ex
  | 0 => .atom 1 false false
  | d+1 => .un tMul (.bin tEqv (.atom 2 false false) (.bin tOr (.atom 1 false false) (.paren (BadE d))))

theorem render_BadE (d : Nat) : render (BadE (d+1)) = wrapBad (render (BadE d)) := by
  simp [BadE, render, wrapBad]

theorem opsOK_BadE : ∀ d, opsOK (BadE d)
  | 0 => trivial
  | d+1 => ⟨rfl, rfl, trivial, rfl, trivial, opsOK_BadE d⟩

theorem unglued_BadE : ∀ d, unglued (render (BadE d))
  | 0 => by intro t ht; simp [BadE, render] at ht; subst ht; rfl
  | d+1 => by
    rw [render_BadE, wrapBad_eq]
    refine unglued_append ?_ (unglued_PG (unglued_BadE d) (fun _ h => absurd h (by simp)))
    intro t ht
    simp only [List.mem_cons, List.not_mem_nil, or_false] at ht
    rcases ht with rfl | rfl | rfl | rfl | rfl <;> rfl

theorem cost_BadE : ∀ d, 2 ^ d ≤ (pc .expr (render (BadE d))).2
  | 0 => by decide
  | d+1 => by
    have := cost_wrapBad (BadE d) (opsOK_BadE d) (unglued_BadE d)
    have ih := cost_BadE d
    rw [render_BadE, Nat.pow_succ]
    omega

theorem length_BadE : ∀ d, (render (BadE d)).length = 7 * d + 1
  | 0 => rfl
  | d+1 => by rw [render_BadE, wrapBad]; simp [length_BadE d]; omega


/-! ### exponentials beat polynomials (elementary; no Mathlib) -/

theorem sq_lt_two_pow_aux : ∀ n, (n + 5) * (n + 5) < 2 ^ (n + 5) := by
  intro n
  induction n with
  | zero => decide
  | succ n ih =>
    have h1 : 5 * (n + 5) ≤ (n + 5) * (n + 5) := Nat.mul_le_mul_right _ (by omega)
    have h2 : (n + 1 + 5) * (n + 1 + 5) = (n + 5) * (n + 5) + 2 * (n + 5) + 1 := by
      have : n + 1 + 5 = (n + 5) + 1 := by omega
      rw [this]
      simp only [Nat.add_mul, Nat.mul_add, Nat.mul_one, Nat.one_mul]
      omega
    have h3 : 2 ^ (n + 1 + 5) = 2 * 2 ^ (n + 5) := by
      have : n + 1 + 5 = (n + 5) + 1 := by omega
      rw [this, Nat.pow_succ]; omega
    rw [h2, h3]
    omega

theorem sq_lt_two_pow {m : Nat} (h : 5 ≤ m) : m * m < 2 ^ m := by
  obtain ⟨n, rfl⟩ : ∃ n, m = n + 5 := ⟨m - 5, by omega⟩
  exact sq_lt_two_pow_aux n

theorem exp_beats_poly (c p : Nat) : ∃ d, c * (7 * d + 2) ^ p < 2 ^ d := by
  let m := 2 * p + c + 5
  have hm5 : 5 ≤ m := by omega
  refine ⟨2 ^ m, ?_⟩
  have h1 : m * m < 2 ^ m := sq_lt_two_pow hm5
  have hmm : m ≤ m * m := Nat.le_mul_of_pos_left m (by omega)
  have h3 : 32 ≤ 2 ^ m := Nat.le_trans (by decide : 32 ≤ 2 ^ 5) (Nat.pow_le_pow_right (by decide) hm5)
  generalize hd : 2 ^ m = d at *
  have hc : c ≤ d := by omega
  have h4 : 7 * d + 2 ≤ d * d := by
    have : 9 * d ≤ d * d := Nat.mul_le_mul_right d (by omega)
    omega
  have h6 : c * (7 * d + 2) ^ p ≤ d * (d * d) ^ p :=
    Nat.mul_le_mul hc (Nat.pow_le_pow_left h4 p)
  have h7 : d * (d * d) ^ p = d ^ (2 * p + 1) := by
    rw [← Nat.pow_two, ← Nat.pow_mul, Nat.pow_succ, Nat.mul_comm]
  have h8 : d ^ (2 * p + 1) = 2 ^ (m * (2 * p + 1)) := by rw [← hd, Nat.pow_mul]
  have h9 : 2 ^ (m * (2 * p + 1)) ≤ 2 ^ (m * m) :=
    Nat.pow_le_pow_right (by decide) (Nat.mul_le_mul_left m (by omega))
  have h10 : 2 ^ (m * m) < 2 ^ d := Nat.pow_lt_pow_right (by decide) h1
  omega


/-! ### the chain-class count of the real table versus the model count -/

/-- same result, count within a factor two -/
def Rel (x y : Option Ex × Nat) : Prop := x.1 = y.1 ∧ x.2 ≤ y.2 ∧ y.2 ≤ 2 * x.2

theorem rel_zero : Rel (none, 0) (none, 0) := ⟨rfl, Nat.le_refl _, by decide⟩

theorem matchStepC_rel {r1 r2 : Lv → List T → Option Ex × Nat}
    (h : ∀ k ts, Rel (r1 k ts) (r2 k ts)) (row : Row) (ts : List T) :
    Rel (matchStepC r1 row ts) (matchStepC r2 row ts) := by
  unfold matchStepC
  split
  · rename_i lhs rhs _ _ _
    split
    · exact rel_zero
    · split
      · rename_i l o r hs
        split
        · exact rel_zero
        · split
          · exact rel_zero
          · have h1 := h rhs r
            have h2 := h lhs l
            generalize r1 rhs r = X1 at h1 ⊢
            generalize r2 rhs r = X2 at h1 ⊢
            generalize r1 lhs l = Y1 at h2 ⊢
            generalize r2 lhs l = Y2 at h2 ⊢
            obtain ⟨x1, c1⟩ := X1; obtain ⟨x2, c2⟩ := X2
            obtain ⟨y1, d1⟩ := Y1; obtain ⟨y2, d2⟩ := Y2
            obtain ⟨e1, a1, b1⟩ := h1; obtain ⟨e2, a2, b2⟩ := h2
            simp only at e1 e2 a1 a2 b1 b2
            subst e1; subst e2
            cases x1 <;> cases y1 <;> exact ⟨rfl, by simp only; omega, by simp only; omega⟩
      · exact rel_zero
  · rename_i lhs rhs _ _ _
    split
    · rename_i l o r hs
      split
      · exact rel_zero
      · split
        · exact rel_zero
        · have h1 := h rhs r
          have h2 := h lhs l
          generalize r1 rhs r = X1 at h1 ⊢
          generalize r2 rhs r = X2 at h1 ⊢
          generalize r1 lhs l = Y1 at h2 ⊢
          generalize r2 lhs l = Y2 at h2 ⊢
          obtain ⟨x1, c1⟩ := X1; obtain ⟨x2, c2⟩ := X2
          obtain ⟨y1, d1⟩ := Y1; obtain ⟨y2, d2⟩ := Y2
          obtain ⟨e1, a1, b1⟩ := h1; obtain ⟨e2, a2, b2⟩ := h2
          simp only at e1 e2 a1 a2 b1 b2
          subst e1; subst e2
          cases x1 <;> cases y1 <;> exact ⟨rfl, by simp only; omega, by simp only; omega⟩
    · exact rel_zero
  · rename_i rhs _ _
    split
    · rename_i o r
      split
      · have h1 := h rhs r
        generalize r1 rhs r = X1 at h1 ⊢
        generalize r2 rhs r = X2 at h1 ⊢
        obtain ⟨x1, c1⟩ := X1; obtain ⟨x2, c2⟩ := X2
        obtain ⟨e1, a1, b1⟩ := h1
        simp only at e1 a1 b1
        subst e1
        cases x1 <;> exact ⟨rfl, a1, b1⟩
      · exact rel_zero
    · exact rel_zero
  · rename_i inner _ _
    split
    · exact ⟨rfl, Nat.le_refl _, Nat.zero_le _⟩
    · split
      · rename_i rest _ _ hl
        split
        · exact rel_zero
        · have h1 := h inner rest.dropLast
          generalize r1 inner rest.dropLast = X1 at h1 ⊢
          generalize r2 inner rest.dropLast = X2 at h1 ⊢
          obtain ⟨x1, c1⟩ := X1; obtain ⟨x2, c2⟩ := X2
          obtain ⟨e1, a1, b1⟩ := h1
          simp only at e1 a1 b1
          subst e1
          cases x1 <;> exact ⟨rfl, a1, b1⟩
      · exact rel_zero
    · exact rel_zero
  · exact rel_zero

theorem parseR_succ (n : Nat) (k : Lv) (ts : List T) :
    parseR (n+1) k ts =
      match matchStepC (parseR n) (rowOf k) ts with
      | (some e, c) => (some e, c + 1)
      | (none, c) =>
        match (rowOf k).next with
        | some k' =>
          match parseR n k' ts with
          | (res, c') => (res, c + 1 + c' - (if k' = .prim then 1 else 0))
        | none => (none, c + 1) := rfl

/-- invariant: same result; real ≤ model; model ≤ 2·real (−1 for a `Primary` call) -/
theorem parseR_rel : ∀ (n : Nat) (k : Lv) (ts : List T),
    (parseR n k ts).1 = (parseC n k ts).1 ∧ (parseR n k ts).2 ≤ (parseC n k ts).2 ∧
    (parseC n k ts).2 + (if k = .prim then 1 else 0) ≤ 2 * (parseR n k ts).2 ∧
    1 ≤ (parseR n k ts).2 := by
  intro n
  induction n with
  | zero =>
    intro k ts
    refine ⟨rfl, Nat.le_refl _, ?_, Nat.le_refl _⟩
    show 1 + _ ≤ 2 * 1
    split <;> omega
  | succ n ih =>
    intro k ts
    have hm := matchStepC_rel (r1 := parseR n) (r2 := parseC n)
      (fun k ts => ⟨(ih k ts).1, (ih k ts).2.1, by have := (ih k ts).2.2.1; omega⟩) (rowOf k) ts
    rw [parseR_succ, parseC_succ]
    generalize matchStepC (parseR n) (rowOf k) ts = M1 at hm ⊢
    generalize matchStepC (parseC n) (rowOf k) ts = M2 at hm ⊢
    obtain ⟨m1, c1⟩ := M1; obtain ⟨m2, c2⟩ := M2
    obtain ⟨e, a, b⟩ := hm
    simp only at e a b
    subst e
    cases m1 with
    | some e =>
      simp only
      refine ⟨trivial, by omega, ?_, by omega⟩
      split <;> omega
    | none =>
      simp only
      cases hk : (rowOf k).next with
      | none =>
        simp only
        refine ⟨trivial, by omega, ?_, by omega⟩
        split <;> omega
      | some k' =>
        simp only
        have hk1 : k ≠ .prim := by
          intro h; subst h; simp [rowOf, levels] at hk
        obtain ⟨i1, i2, i3, i4⟩ := ih k' ts
        generalize parseR n k' ts = X1 at i1 i2 i3 i4 ⊢
        generalize parseC n k' ts = X2 at i1 i2 i3 ⊢
        obtain ⟨x1, d1⟩ := X1; obtain ⟨x2, d2⟩ := X2
        simp only at i1 i2 i3 i4 ⊢
        simp only [hk1, if_false, Nat.add_zero]
        refine ⟨i1, ?_, ?_, ?_⟩ <;> split at i3 <;> simp_all <;> omega

theorem chainCalls_le (k : Lv) (ts : List T) : chainCalls k ts ≤ parseCalls k ts :=
  (parseR_rel (need k ts) k ts).2.1

theorem parseCalls_le_two_chainCalls (k : Lv) (ts : List T) : parseCalls k ts ≤ 2 * chainCalls k ts := by
  have := (parseR_rel (need k ts) k ts).2.2.1
  unfold parseCalls chainCalls
  omega

theorem parseR_fst (k : Lv) (ts : List T) : (parseR (need k ts) k ts).1 = parse k ts := by
  rw [(parseR_rel (need k ts) k ts).1]; exact parseC_fst _ k ts

end Fp.Expr
