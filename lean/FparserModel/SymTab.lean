import FparserModel.Py
/-!
# SymTab — mirror of `fparser/two/symbol_table.py` and of the decision taken in
# `Fortran2003.Intrinsic_Function_Reference.match`

Python objects → model
* `SymbolTable`  → `Table` : local data (`Local`) + ordered list of child tables.  The
  `parent` pointer of the Python object is the *position* of the table in the forest: a table
  is addressed by a `Path` = (name of its top-level table, child indices).  `_current_scope`
  is such a path.  (A table reachable from `_current_scope` is never detached by `remove`:
  `del_child` only touches the children of the current scope and the top-level removal is
  refused when the current scope lives in that tree; so the path stays valid — the
  co-simulation checks this against the real object graph.)
* `ModuleUse`    → `ModUse`
* `SymbolTables` → `Tables` : ordered dict of top-level tables, current scope, `_enable_checks`.

All names are lower-cased on entry exactly where the Python does it.
Not modelled: the `TypeError` validation of argument *types* (the model is typed).
-/
namespace Fp.SymTab
open Fp

/-- `SymbolTable.Symbol(name, primitive_type)` -/
structure Sym where
  name : Str
  ptype : Str
deriving DecidableEq, Repr, Inhabited

/-! ## ordered-dict helpers (Python `dict` keeps insertion order; assignment to an existing
key keeps its position) -/

def dGet {β} (d : List (Str × β)) (k : Str) : Option β :=
  match d with
  | [] => none
  | (k', v) :: r => if k' = k then some v else dGet r k

def dHas {β} (d : List (Str × β)) (k : Str) : Bool := (dGet d k).isSome

def dSet {β} (d : List (Str × β)) (k : Str) (v : β) : List (Str × β) :=
  match d with
  | [] => [(k, v)]
  | (k', v') :: r => if k' = k then (k, v) :: r else (k', v') :: dSet r k v

def dDel {β} (d : List (Str × β)) (k : Str) : List (Str × β) :=
  d.filter (fun e => e.1 != k)

/-- set union on duplicate-free lists (Python `set.union`; order is not observable) -/
def sUnion (a b : List Str) : List Str := a ++ b.filter (fun x => !a.contains x)
def sOfList (a : List Str) : List Str := a.foldl (fun acc x => if acc.contains x then acc else acc ++ [x]) []

/-! ## ModuleUse -/

structure ModUse where
  name : Str
  /-- keys of `_symbols` (every value is `Symbol(key, "unknown")`) -/
  symbols : List Str
  onlySet : Option (List Str)
  renameSet : Option (List Str)
  l2m : List (Str × Str)
  wildcard : Bool
deriving DecidableEq, Repr, Inhabited

/-- `ModuleUse._store_symbols` -/
def storeSymbols (syms : List Str) (l2m : List (Str × Str)) :
    List (Str × Option Str) → List Str × List (Str × Str)
  | [] => (syms, l2m)
  | (loc, orig) :: rest =>
    let lname := lower loc
    -- `oname = orig_name.lower() if orig_name else None` : the empty string is falsy
    let oname : Option Str := match orig with
      | some o => if o.isEmpty then none else some (lower o)
      | none => none
    let syms := if syms.contains lname then syms else syms ++ [lname]
    let l2m := match oname with
      | some o => dSet l2m lname o
      | none => l2m
    storeSymbols syms l2m rest

/-- `ModuleUse.__init__(name, only_list, rename_list)` -/
def ModUse.new (name : Str) (only : Option (List (Str × Option Str)))
    (rename : Option (List (Str × Str))) : ModUse :=
  let (syms, l2m, onlySet, wild) := match only with
    | some ol =>
      let (s, m) := storeSymbols [] [] ol
      (s, m, some (sOfList (ol.map fun (e : Str × Option Str) => lower e.1)), false)
    | none => ([], [], none, true)
  -- `if rename_list:` : None and [] are both falsy
  let (syms, l2m, renameSet) := match rename with
    | some (r :: rs) =>
      let rl := r :: rs
      let (s, m) := storeSymbols syms l2m (rl.map fun (e : Str × Str) => (e.1, some e.2))
      (s, m, some (sOfList (rl.map fun (e : Str × Str) => lower e.1)))
    | _ => (syms, l2m, none)
  { name := lower name, symbols := syms, onlySet := onlySet, renameSet := renameSet,
    l2m := l2m, wildcard := wild }

def addMissing (syms : List Str) (names : List Str) : List Str :=
  names.foldl (fun acc x => if acc.contains x then acc else acc ++ [x]) syms

/-- `ModuleUse.update(other)` (same module name: guaranteed by the caller) -/
def ModUse.update (self other : ModUse) : ModUse :=
  -- `if other.only_list:` : the property returns `list(set)`; None and empty are falsy
  let (syms, onlySet) := match other.onlySet with
    | some (x :: xs) =>
      let ol := x :: xs
      (addMissing self.symbols ol,
       match self.onlySet with
       | none => some ol
       | some s => some (sUnion s ol))
    | _ => (self.symbols, self.onlySet)
  let (syms, renameSet) := match other.renameSet with
    | some (x :: xs) =>
      let rl := x :: xs
      (addMissing syms rl,
       match self.renameSet with
       | none => some rl
       | some s => some (sUnion s rl))
    | _ => (syms, self.renameSet)
  { self with
    symbols := syms, onlySet := onlySet, renameSet := renameSet,
    l2m := other.l2m.foldl (fun d e => dSet d e.1 e.2) self.l2m,
    wildcard := self.wildcard || other.wildcard }

/-! ## SymbolTable -/

/-- the data of one `SymbolTable` object apart from its links -/
structure Local where
  name : Str
  /-- `_data_symbols` (ordered dict) -/
  syms : List (Str × Sym) := []
  /-- `_modules` (ordered dict) -/
  mods : List (Str × ModUse) := []
  /-- `_checking_enabled` -/
  checking : Bool := false
  /-- `isinstance(self._node, Fortran2008.Submodule_Stmt)` -/
  submod : Bool := false
deriving DecidableEq, Repr, Inhabited

inductive Table where
  | mk (loc : Local) (children : List Table)
deriving Repr, Inhabited

def Table.loc : Table → Local | .mk l _ => l
def Table.children : Table → List Table | .mk _ c => c
def Table.name (t : Table) : Str := t.loc.name
def Table.leaf (name : Str) (checking : Bool := false) (submod : Bool := false) : Table :=
  .mk { name := name, checking := checking, submod := submod } []

inductive Err where
  | symbolTableError
  | keyError
  | badPath
deriving DecidableEq, Repr

/-- `SymbolTable.add_data_symbol(name, primitive_type)` -/
def Local.addDataSymbol (l : Local) (name ptype : Str) : Except Err Local :=
  let lname := lower name
  if l.checking && dHas l.syms lname then .error .symbolTableError
  else if l.checking && dHas l.mods lname then .error .symbolTableError
  else if l.checking && l.mods.any (fun m => !m.2.symbols.isEmpty && m.2.symbols.contains lname) then
    .error .symbolTableError
  else .ok { l with syms := dSet l.syms lname ⟨lname, lower ptype⟩ }

/-- `SymbolTable.add_use_symbols(name, only_list, rename_list)` -/
def Local.addUseSymbols (l : Local) (name : Str) (only : Option (List (Str × Option Str)))
    (rename : Option (List (Str × Str))) : Local :=
  let use := ModUse.new name only rename
  match dGet l.mods use.name with
  | some old => { l with mods := dSet l.mods use.name (old.update use) }
  | none => { l with mods := dSet l.mods use.name use }

/-- the part of `SymbolTable.lookup` that looks at this table only (`lname` already lower) -/
def Local.lookupHere (l : Local) (lname : Str) : Option Sym :=
  match dGet l.syms lname with
  | some s => some s
  | none =>
    -- `for module in self._modules.values(): try: return module.lookup(lname)`
    match l.mods.find? (fun m => m.2.symbols.contains lname) with
    | some _ => some ⟨lname, "unknown".toList⟩
    | none => none

/-- names of the modules with a wildcard import in this table -/
def Local.wildHere (l : Local) : List Str :=
  (l.mods.filter (fun m => m.2.wildcard)).map (·.1)

/-! ## paths, chains -/

/-- child indices from a top-level table down to a table -/
abbrev Rel := List Nat
/-- (top-level name, child indices) -/
abbrev Path := Str × Rel

/-- the tables met from `t` down along `p` (outermost first); `none` if `p` leaves the tree -/
def chainFrom : Table → Rel → Option (List Local)
  | t, [] => some [t.loc]
  | t, i :: is =>
    match t.children[i]? with
    | none => none
    | some c => (chainFrom c is).map (t.loc :: ·)

def getAt : Table → Rel → Option Table
  | t, [] => some t
  | t, i :: is =>
    match t.children[i]? with
    | none => none
    | some c => getAt c is

/-- replace the subtree at `p` by `f` of it (no-op if `p` leaves the tree) -/
def updAt (f : Table → Table) : Rel → Table → Table
  | [], t => f t
  | i :: is, .mk l ch => .mk l (ch.modify i (updAt f is))

/-- `SymbolTable.lookup` seen from the innermost table outwards: `chain` is innermost first -/
def lookupChain : List Local → Str → Option Sym
  | [], _ => none
  | l :: parents, lname =>
    match l.lookupHere lname with
    | some s => some s
    | none => lookupChain parents lname   -- `if self.parent: return self.parent.lookup(lname)`

/-- `SymbolTable.wildcard_imports` as a set (unsorted) -/
def wildChain : List Local → List Str
  | [] => []
  | l :: parents => sUnion (sOfList l.wildHere) (wildChain parents)

def strLt : Str → Str → Bool
  | [], [] => false
  | [], _ :: _ => true
  | _ :: _, [] => false
  | a :: as, b :: bs => if a.toNat < b.toNat then true else if b.toNat < a.toNat then false else strLt as bs

def insertSorted (x : Str) : List Str → List Str
  | [] => [x]
  | y :: ys => if strLt y x then y :: insertSorted x ys else x :: y :: ys
/-- Python `sorted()` on a list of str (code-point order) -/
def sortStrs (l : List Str) : List Str := l.foldr insertSorted []

/-- `SymbolTable.all_symbols_resolved` -/
def resolvedChain (chain : List Local) : Bool :=
  (wildChain chain).isEmpty && !chain.any (·.submod)

/-! ## SymbolTables -/

structure Tables where
  /-- `_symbol_tables` (ordered dict) -/
  tops : List (Str × Table) := []
  /-- `_current_scope` -/
  cur : Option Path := none
  /-- `_enable_checks` -/
  checks : Bool := false
deriving Repr, Inhabited

def Tables.tableAt (s : Tables) (p : Path) : Option Table :=
  match dGet s.tops p.1 with
  | none => none
  | some t => getAt t p.2

/-- innermost-first chain of the table at `p` -/
def Tables.chain (s : Tables) (p : Path) : Option (List Local) :=
  match dGet s.tops p.1 with
  | none => none
  | some t => (chainFrom t p.2).map List.reverse

def Tables.updTable (s : Tables) (p : Path) (f : Table → Table) : Tables :=
  match dGet s.tops p.1 with
  | none => s
  | some t => { s with tops := dSet s.tops p.1 (updAt f p.2 t) }

/-- `SymbolTables.clear()` -/
def Tables.clear (s : Tables) : Tables := { s with tops := [], cur := none }

/-- `SymbolTables.enable_checks(value)` -/
def Tables.enableChecks (s : Tables) (v : Bool) : Tables := { s with checks := v }

/-- `SymbolTables.add(name)` -/
def Tables.add (s : Tables) (name : Str) (submod : Bool := false) : Except Err Tables :=
  let l := lower name
  if dHas s.tops l then .error .symbolTableError
  else .ok { s with tops := dSet s.tops l (Table.leaf l s.checks submod) }

/-- `SymbolTables.lookup(name)` : the path of the table -/
def Tables.lookup (s : Tables) (name : Str) : Except Err Path :=
  if dHas s.tops (lower name) then .ok (lower name, []) else .error .keyError

/-- `SymbolTables.enter_scope(name, node)`; `submod` = the node is a `Submodule_Stmt` -/
def Tables.enterScope (s : Tables) (name : Str) (submod : Bool := false) : Tables :=
  let lname := lower name
  match s.cur with
  | none =>
    -- `try: table = self.lookup(lname) except KeyError: table = self.add(lname, node=node)`
    if dHas s.tops lname then { s with cur := some (lname, []) }
    else { s with tops := dSet s.tops lname (Table.leaf lname s.checks submod),
                  cur := some (lname, []) }
  | some p =>
    match s.tableAt p with
    | none => s   -- unreachable: the current scope is always in the forest
    | some t =>
      let s' := s.updTable p (fun t => .mk t.loc (t.children ++ [Table.leaf lname s.checks submod]))
      { s' with cur := some (p.1, p.2 ++ [t.children.length]) }

/-- `SymbolTables.exit_scope()` -/
def Tables.exitScope (s : Tables) : Except Err Tables :=
  match s.cur with
  | none => .error .symbolTableError
  | some (_, []) => .ok { s with cur := none }
  | some (top, rel) => .ok { s with cur := some (top, rel.dropLast) }

/-- `SymbolTable.del_child(name)` on a child list: remove the FIRST child with that name -/
def delFirst (lname : Str) : List Table → Option (List Table)
  | [] => none
  | c :: cs => if c.name = lname then some cs else (delFirst lname cs).map (c :: ·)

/-- `SymbolTables.remove(name)` -/
def Tables.remove (s : Tables) (name : Str) : Except Err Tables :=
  let lname := lower name
  let viaCurrent : Option Tables :=
    match s.cur with
    | none => none
    | some p =>
      match s.tableAt p with
      | none => none
      | some t =>
        match delFirst lname t.children with
        | some cs => some (s.updTable p (fun t => .mk t.loc cs))
        | none => none
  match viaCurrent with
  | some s' => .ok s'
  | none =>
    if !dHas s.tops lname then .error .symbolTableError
    else
      -- `if self._current_scope.root is top_table`
      match s.cur with
      | some p => if p.1 = lname then .error .symbolTableError
                  else .ok { s with tops := dDel s.tops lname }
      | none => .ok { s with tops := dDel s.tops lname }

/-- `table.lookup(name)` for the table at path `p` -/
def Tables.lookupAt (s : Tables) (p : Path) (name : Str) : Except Err Sym :=
  match s.chain p with
  | none => .error .badPath
  | some ch =>
    match lookupChain ch (lower name) with
    | some sym => .ok sym
    | none => .error .keyError

def Tables.wildcardImportsAt (s : Tables) (p : Path) : Option (List Str) :=
  (s.chain p).map fun ch => sortStrs (wildChain ch)

def Tables.allResolvedAt (s : Tables) (p : Path) : Option Bool :=
  (s.chain p).map resolvedChain

/-- `str(SYMBOL_TABLES)` -/
def Tables.str (s : Tables) : Str :=
  "SymbolTables: ".toList ++ natToStr s.tops.length ++ " tables\n========================\n".toList
  ++ ("\n".toList).intercalate (sortStrs (s.tops.map (·.1)))

/-- `str(table)` -/
def Local.str (l : Local) : Str :=
  let header := "===========\n".toList
  let symbols := "Symbols:\n".toList ++
    (if l.syms.isEmpty then [] else ("\n".toList).intercalate (l.syms.map (·.1)) ++ ['\n'])
  let uses := "Used modules:\n".toList ++
    (if l.mods.isEmpty then [] else ("\n".toList).intercalate (l.mods.map (·.1)) ++ ['\n'])
  header ++ "Symbol Table '".toList ++ l.name ++ "'\n".toList ++ symbols ++ uses ++ header

/-! ## the decision of `Intrinsic_Function_Reference.match` -/

/-- `Intrinsic_Name` tables of one standard (upper-case names) -/
structure IntrTable where
  names : List Str
  generic : List (Str × Nat × Option Nat)
  specific : List (Str × Str)

inductive IntrRes where
  /-- `return None` : not an intrinsic reference -/
  | noMatch
  /-- `return result` : an `Intrinsic_Function_Reference` node -/
  | isIntrinsic
  /-- `raise InternalSyntaxError` -/
  | syntaxError
  /-- a `KeyError` escaping from the `generic_function_names[...]` lookup (cannot happen
      with the shipped tables; kept so that the mirror is total) -/
  | keyErrorEscapes
deriving DecidableEq, Repr

/-- the argument-count test on `(min, max)` once the name is known not to be shadowed;
    `resolved` = `not table or table.all_symbols_resolved` negated appropriately -/
def argsVerdict (mn : Nat) (mx : Option Nat) (nargs : Nat) (unresolved : Bool) : IntrRes :=
  match mx with
  | none =>
    if nargs < mn then (if unresolved then .noMatch else .syntaxError) else .isIntrinsic
  | some mx =>
    if mn = mx && nargs != mn then (if unresolved then .noMatch else .syntaxError)
    else if mn < mx && (nargs < mn || nargs > mx) then
      (if unresolved then .noMatch else .syntaxError)
    else .isIntrinsic

/-- `Intrinsic_Function_Reference.match` after `CallBase.match` has split `name(args)`:
    `chain` = `none` when there is no current scope, else the innermost-first chain of the
    current scope. -/
def intrinsicDecision (it : IntrTable) (chain : Option (List Local)) (fname : Str)
    (nargs : Nat) : IntrRes :=
  let uname := upper fname
  -- `STRINGBase.match(cls.function_names, string)` : upper-cased membership
  if !it.names.contains uname then .noMatch
  else
    -- `table.lookup(function_name)` ; AttributeError when table is None
    let shadowed := match chain with
      | none => false
      | some ch => (lookupChain ch (lower uname)).isSome
    if shadowed then .noMatch
    else
      let testName := match dGet it.specific uname with
        | some g => g
        | none => uname
      match dGet it.generic testName with
      | none => .keyErrorEscapes
      | some (mn, mx) =>
        -- `table and not table.all_symbols_resolved`
        let unresolved := match chain with
          | none => false
          | some ch => !resolvedChain ch
        argsVerdict mn mx nargs unresolved

def Tables.intrinsicAt (s : Tables) (it : IntrTable) (fname : Str) (nargs : Nat) : IntrRes :=
  match s.cur with
  | none => intrinsicDecision it none fname nargs
  | some p => intrinsicDecision it (s.chain p) fname nargs

end Fp.SymTab
