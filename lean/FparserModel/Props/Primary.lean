import FparserModel.Generated.PrimaryTables
import FparserModel.Proofs.PrimaryChar
import FparserModel.Proofs.PrimaryChoice
import FparserModel.Proofs.PrimaryCombi
import FparserModel.Proofs.PrimaryCost
import FparserModel.Proofs.PrimaryFix
import FparserModel.Proofs.PrimaryFix2
import FparserModel.Proofs.PrimaryHand
import FparserModel.Proofs.PrimaryHandMore
import FparserModel.Proofs.PrimaryLit
import FparserModel.Proofs.PrimaryTotal

/-!
# Primary — the operand layer below `Level_1_Expr` and the assignment statements: C03, C02, C08, C20 (and C06)

The model (`FparserModel/Primary.lean`) mirrors, branch for branch,

* LEVEL A — `match` / `tostr` of every class of the layer that has a `match` (Name, the literal constants with the regexes
  of pattern_tools.py as hand scanners, Parenthesis, Array_Constructor, Ac_Spec, Ac_Value_List, Ac_Implied_Do(_Control),
  Structure_Constructor, Derived_Type_Spec, Type_Name, Component_Spec(_List), Function_Reference, Procedure_Designator,
  Actual_Arg_Spec(_List), Intrinsic_Function_Reference, Intrinsic_Name, Type_Param_Inquiry, Proc_Component_Ref, Data_Ref,
  Part_Ref, Array_Section, Substring, Substring_Range, Section_Subscript_List, Subscript_Triplet, Alt_Return_Spec,
  Assignment_Stmt, Pointer_Assignment_Stmt, Data_Pointer_Object, Bounds_Spec(_List), Bounds_Remapping(_List)); children are
  an `Oracle` (types of `FparserModel/IoStmt.lean`);
* LEVEL B — `utils.Base.__new__` (`new`): `match`, then the loop over the REAL `Base.subclasses` table (read from
  `Generated/Classes2003.lean` / `Classes2008.lean`) with the shared growing `parent_cls`, counting every call.

Theorems (for EVERY string, every oracle):

* `X_tostr_match_tokens` (C02, C08): `match` accepted ⟹ `tostr` does not raise and `toks printed = toks input`
  (`toks` deletes white space and folds case); the exact canonical forms are separate theorems (`(/x/)`, `[x]`, ` % `,
  `.TRUE.`, kind suffix case kept).  `_partial` = under a decidable hypothesis (`SrmOK`: the hypotheses of
  `srm_roundtrip_partial`; `CallEndOK` for CallBase) with a kernel-checked witness of the loss.
* `X_rejects_unbalanced` (C08): accepted and the children print balanced texts ⟹ the text is balanced.
* `X_match_tostr_fixpoint` (C02/C03): the printed literal is matched again with the same items.
* `match_total` (C06): which exceptions can escape from a `match` of the layer.
* `primaryAlternatives_*`, `primary_choice*` (C03): the order of the alternatives and which one wins.
* `refCalls_nest_*`, `refCalls_linear_in_size`, `primaryCalls_nest_*` (C20): since /repo 2a636f5 the cost of nested references is
  LINEAR (T(d) = 11 + 31·d; every reference ≤ 31 calls per node); `refCallsOld_*`, `primaryCallsOld_*`: the counter-factual —
  the code before the repair doubled (finding F-C20-1, T(d) = 60·2^d − 49).

The theorems are proved in `Proofs/Primary*.lean`; this file states them (same statements) and gives non-vacuity examples.
-/
namespace Fp.Primary.Props
open Fp Fp.Splitline Fp.Primary
open Fp.IoStmt
open Fp.Combi (noBlank)

variable {Node : Type}


theorem Part_Ref_tostr_match_tokens_partial (o : Oracle Node) (ho : OracleTok o) (s : Str)
    (items : List (Item Node))
    (hm : (combiPlan specPartRef s).bind (runSlots o) = .ok items) (hs : SrmOK s)
    (hend : CallEndOK s) :
    ∃ t, combiStr o specPartRef items = .ok t ∧ toks t = toks s ∧
      ((∀ n, Item.node n ∈ items → net (o.str n) = 0) → net t = 0) :=
  _root_.Fp.Primary.Part_Ref_tostr_match_tokens_partial o ho s items hm hs hend

theorem Function_Reference_tostr_match_tokens_partial (o : Oracle Node) (ho : OracleTok o) (s : Str)
    (items : List (Item Node))
    (hm : (combiPlan specFunctionReference s).bind (runSlots o) = .ok items) (hs : SrmOK s)
    (hend : CallEndOK s) :
    ∃ t, combiStr o specFunctionReference items = .ok t ∧ toks t = toks s ∧
      ((∀ n, Item.node n ∈ items → net (o.str n) = 0) → net t = 0) :=
  _root_.Fp.Primary.Function_Reference_tostr_match_tokens_partial o ho s items hm hs hend

theorem Structure_Constructor_tostr_match_tokens_partial (o : Oracle Node) (ho : OracleTok o) (s : Str)
    (items : List (Item Node))
    (hm : (combiPlan specStructureConstructor s).bind (runSlots o) = .ok items) (hs : SrmOK s)
    (hend : CallEndOK s) :
    ∃ t, combiStr o specStructureConstructor items = .ok t ∧ toks t = toks s ∧
      ((∀ n, Item.node n ∈ items → net (o.str n) = 0) → net t = 0) :=
  _root_.Fp.Primary.Structure_Constructor_tostr_match_tokens_partial o ho s items hm hs hend

theorem Derived_Type_Spec_tostr_match_tokens_partial (o : Oracle Node) (ho : OracleTok o) (s : Str)
    (items : List (Item Node))
    (hm : (combiPlan specDerivedTypeSpec s).bind (runSlots o) = .ok items) (hs : SrmOK s)
    (hend : CallEndOK s) :
    ∃ t, combiStr o specDerivedTypeSpec items = .ok t ∧ toks t = toks s ∧
      ((∀ n, Item.node n ∈ items → net (o.str n) = 0) → net t = 0) :=
  _root_.Fp.Primary.Derived_Type_Spec_tostr_match_tokens_partial o ho s items hm hs hend

theorem Array_Section_tostr_match_tokens_partial (o : Oracle Node) (ho : OracleTok o) (s : Str)
    (items : List (Item Node))
    (hm : (combiPlan specArraySection s).bind (runSlots o) = .ok items) (hs : SrmOK s)
    (hend : CallEndOK s) :
    ∃ t, combiStr o specArraySection items = .ok t ∧ toks t = toks s ∧
      ((∀ n, Item.node n ∈ items → net (o.str n) = 0) → net t = 0) :=
  _root_.Fp.Primary.Array_Section_tostr_match_tokens_partial o ho s items hm hs hend

theorem Substring_tostr_match_tokens_partial (o : Oracle Node) (ho : OracleTok o) (s : Str)
    (items : List (Item Node))
    (hm : (combiPlan specSubstring s).bind (runSlots o) = .ok items) (hs : SrmOK s)
    (hend : CallEndOK s) :
    ∃ t, combiStr o specSubstring items = .ok t ∧ toks t = toks s ∧
      ((∀ n, Item.node n ∈ items → net (o.str n) = 0) → net t = 0) :=
  _root_.Fp.Primary.Substring_tostr_match_tokens_partial o ho s items hm hs hend

theorem Intrinsic_Function_Reference_tostr_match_tokens_partial (o : Oracle Node) (ho : OracleTok o)
    (iv : Str → Nat → SymTab.IntrRes) (s : Str) (items : List (Item Node))
    (hm : (planIntrinsic iv s).bind (runSlots o) = .ok items) (hs : SrmOK s)
    (hend : CallEndOK s) :
    ∃ t, combiStr o specIntrinsicCall items = .ok t ∧ toks t = toks s ∧
      ((∀ n, Item.node n ∈ items → net (o.str n) = 0) → net t = 0) :=
  _root_.Fp.Primary.Intrinsic_Function_Reference_tostr_match_tokens_partial o ho iv s items hm hs hend

theorem CallBase_rejects_unbalanced (o : Oracle Node) (ho : OracleTok o) (a b : ClassId) (u q : Bool)
    (s : Str) (items : List (Item Node))
    (hm : (combiPlan (.call (.cls a) (.cls b) u q) s).bind (runSlots o) = .ok items)
    (hs : SrmOK s) (hend : CallEndOK s) (hn : net s ≠ 0) :
    ∃ n, Item.node n ∈ items ∧ net (o.str n) ≠ 0 :=
  _root_.Fp.Primary.callcls_rejects_unbalanced o ho a b u q s items hm hs hend hn

theorem Part_Ref_rejects_unbalanced (s : Str) (items : List (Item Str))
    (hm : (combiPlan specPartRef s).bind (runSlots echoO) = .ok items)
    (hs : SrmOK s) (hend : CallEndOK s) (hn : net s ≠ 0) :
    ∃ t, Item.node t ∈ items ∧ net t ≠ 0 :=
  _root_.Fp.Primary.Part_Ref_rejects_unbalanced s items hm hs hend hn

theorem Part_Ref_rejects_unbalanced_any (o : Oracle Node) (ho : OracleTok o) (s : Str)
    (items : List (Item Node))
    (hm : (combiPlan specPartRef s).bind (runSlots o) = .ok items)
    (hs : SrmOK s) (hend : CallEndOK s) (hn : net s ≠ 0) :
    ∃ n, Item.node n ∈ items ∧ net (o.str n) ≠ 0 :=
  _root_.Fp.Primary.Part_Ref_rejects_unbalanced_any o ho s items hm hs hend hn

theorem Part_Ref_stray_paren_witness  :
    combiPlan specPartRef "a(1))".toList
      = .ok [.child C.Part_Name "a".toList, .child C.Section_Subscript_List "1)".toList] ∧
    net "1)".toList = -1 ∧ SrmOK "a(1))".toList ∧ CallEndOK "a(1))".toList :=
  _root_.Fp.Primary.Part_Ref_stray_paren_witness 

theorem Part_Ref_stray_paren_blank_witness  :
    combiPlan specPartRef "a(1)) ".toList
      = .ok [.child C.Part_Name "a".toList, .child C.Section_Subscript_List "1)".toList] ∧
    net "1)".toList = -1 ∧ SrmOK "a(1)) ".toList ∧ CallEndOK "a(1)) ".toList :=
  _root_.Fp.Primary.Part_Ref_stray_paren_blank_witness 

theorem Parenthesis_tostr_match_tokens (o : Oracle Node) (ho : OracleTok o) (s : Str)
    (items : List (Item Node))
    (hm : (combiPlan specParenthesis s).bind (runSlots o) = .ok items) :
    ∃ t, combiStr o specParenthesis items = .ok t ∧ toks t = toks s ∧
      ((∀ n, Item.node n ∈ items → net (o.str n) = 0) → net t = 0) :=
  _root_.Fp.Primary.Parenthesis_tostr_match_tokens o ho s items hm

theorem BracketBase_any_tostr_match_tokens (o : Oracle Node) (ho : OracleTok o) (b : Str) (c : ClassId)
    (req : Bool) (s : Str) (items : List (Item Node)) (hb : net (Combi.noSpaces b) = 0)
    (hm : (combiPlan (.bracket b (some c) req) s).bind (runSlots o) = .ok items) :
    ∃ t, combiStr o (.bracket b (some c) req) items = .ok t ∧ toks t = toks s ∧
      ((∀ n, Item.node n ∈ items → net (o.str n) = 0) → net t = 0) ∧
      ∃ mid, items = [.str (brL b), mid, .str (brR b)] ∧ t = brL b ++ midText o mid ++ brR b ∧
        startsWith (strip s) (brL b) = true ∧ endsWith (strip s) (brR b) = true :=
  _root_.Fp.Primary.bracketAny_tostr_match_tokens o ho b c req s items hb hm

theorem Array_Constructor_tostr_match_tokens (o : Oracle Node) (ho : OracleTok o) (s : Str)
    (items : List (Item Node)) (hm : (planArrayConstructor s).run o = .ok items) :
    ∃ t, combiStr o specArrayCtor1 items = .ok t ∧ toks t = toks s ∧
      ((∀ n, Item.node n ∈ items → net (o.str n) = 0) → net t = 0) ∧
      ∃ mid,
        (items = [.str "(/".toList, mid, .str "/)".toList] ∧
          t = "(/".toList ++ midText o mid ++ "/)".toList ∧
          startsWith (strip s) "(/".toList = true ∧ endsWith (strip s) "/)".toList = true) ∨
        (items = [.str "[".toList, mid, .str "]".toList] ∧
          t = "[".toList ++ midText o mid ++ "]".toList ∧
          startsWith (strip s) "[".toList = true ∧ endsWith (strip s) "]".toList = true) :=
  _root_.Fp.Primary.Array_Constructor_tostr_match_tokens o ho s items hm

theorem Substring_Range_tostr_match_tokens_partial (o : Oracle Node) (ho : OracleTok o) (s : Str)
    (items : List (Item Node))
    (hm : (combiPlan specSubstringRange s).bind (runSlots o) = .ok items) (hs : SrmOK s) :
    ∃ t, combiStr o specSubstringRange items = .ok t ∧ toks t = toks s ∧
      ((∀ n, Item.node n ∈ items → net (o.str n) = 0) → net t = 0) :=
  _root_.Fp.Primary.Substring_Range_tostr_match_tokens_partial o ho s items hm hs

theorem Bounds_Remapping_tostr_match_tokens_partial (o : Oracle Node) (ho : OracleTok o) (s : Str)
    (items : List (Item Node))
    (hm : (combiPlan specBoundsRemapping s).bind (runSlots o) = .ok items) (hs : SrmOK s) :
    ∃ t, combiStr o specBoundsRemapping items = .ok t ∧ toks t = toks s ∧
      ((∀ n, Item.node n ∈ items → net (o.str n) = 0) → net t = 0) :=
  _root_.Fp.Primary.Bounds_Remapping_tostr_match_tokens_partial o ho s items hm hs

theorem Bounds_Spec_tostr_match_tokens_partial (o : Oracle Node) (ho : OracleTok o) (s : Str)
    (items : List (Item Node))
    (hm : (combiPlan specBoundsSpec s).bind (runSlots o) = .ok items) (hs : SrmOK s) :
    ∃ t, combiStr o specBoundsSpec items = .ok t ∧ toks t = toks s ∧
      ((∀ n, Item.node n ∈ items → net (o.str n) = 0) → net t = 0) ∧
      ∃ l, items = [l, .none] :=
  _root_.Fp.Primary.Bounds_Spec_tostr_match_tokens_partial o ho s items hm hs

theorem SeparatorBase_noRhs_tostr_match_tokens (o : Oracle Node) (ho : OracleTok o) (a : ClassId) (ql qr : Bool)
    (s : Str) (items : List (Item Node))
    (hm : (combiPlan (.sep (some a) none ql qr) s).bind (runSlots o) = .ok items)
    (hs : SrmOK s) :
    ∃ t, combiStr o (.sep (some a) none ql qr) items = .ok t ∧ toks t = toks s ∧
      ((∀ n, Item.node n ∈ items → net (o.str n) = 0) → net t = 0) ∧
      ∃ l, items = [l, .none] :=
  _root_.Fp.Primary.sepNoRhs_tostr_match_tokens o ho a ql qr s items hm hs

theorem Component_Spec_tostr_match_tokens (o : Oracle Node) (ho : OracleTok o) (s : Str)
    (items : List (Item Node))
    (hm : (combiPlan specComponentSpec s).bind (runSlots o) = .ok items) :
    ∃ t, combiStr o specComponentSpec items = .ok t ∧ toks t = toks s ∧
      ((∀ n, Item.node n ∈ items → net (o.str n) = 0) → net t = 0) :=
  _root_.Fp.Primary.Component_Spec_tostr_match_tokens o ho s items hm

theorem Actual_Arg_Spec_tostr_match_tokens (o : Oracle Node) (ho : OracleTok o) (s : Str)
    (items : List (Item Node))
    (hm : (combiPlan specActualArgSpec s).bind (runSlots o) = .ok items) :
    ∃ t, combiStr o specActualArgSpec items = .ok t ∧ toks t = toks s ∧
      ((∀ n, Item.node n ∈ items → net (o.str n) = 0) → net t = 0) :=
  _root_.Fp.Primary.Actual_Arg_Spec_tostr_match_tokens o ho s items hm

theorem List_tostr_match_tokens_partial (o : Oracle Node) (ho : OracleTok o) (elem : ClassId)
    (s : Str) (items : List (Item Node))
    (hm : (combiPlan (specList elem) s).bind (runSlots o) = .ok items) (hs : SrmOK s) :
    ∃ t, combiStr o (specList elem) items = .ok t ∧ toks t = toks s ∧
      ((∀ n, Item.node n ∈ items → net (o.str n) = 0) → net t = 0) :=
  _root_.Fp.Primary.List_tostr_match_tokens_partial o ho elem s items hm hs

theorem Ac_Value_List_tostr_match_tokens_partial (o : Oracle Node) (ho : OracleTok o) (s : Str)
    (items : List (Item Node))
    (hm : (combiPlan (specList C.Ac_Value) s).bind (runSlots o) = .ok items) (hs : SrmOK s) :
    ∃ t, combiStr o (specList C.Ac_Value) items = .ok t ∧ toks t = toks s ∧
      ((∀ n, Item.node n ∈ items → net (o.str n) = 0) → net t = 0) :=
  _root_.Fp.Primary.Ac_Value_List_tostr_match_tokens_partial o ho s items hm hs

theorem Component_Spec_List_tostr_match_tokens_partial (o : Oracle Node) (ho : OracleTok o) (s : Str)
    (items : List (Item Node))
    (hm : (combiPlan (specList C.Component_Spec) s).bind (runSlots o) = .ok items) (hs : SrmOK s) :
    ∃ t, combiStr o (specList C.Component_Spec) items = .ok t ∧ toks t = toks s ∧
      ((∀ n, Item.node n ∈ items → net (o.str n) = 0) → net t = 0) :=
  _root_.Fp.Primary.Component_Spec_List_tostr_match_tokens_partial o ho s items hm hs

theorem Actual_Arg_Spec_List_tostr_match_tokens_partial (o : Oracle Node) (ho : OracleTok o) (s : Str)
    (items : List (Item Node))
    (hm : (combiPlan (specList C.Actual_Arg_Spec) s).bind (runSlots o) = .ok items) (hs : SrmOK s) :
    ∃ t, combiStr o (specList C.Actual_Arg_Spec) items = .ok t ∧ toks t = toks s ∧
      ((∀ n, Item.node n ∈ items → net (o.str n) = 0) → net t = 0) :=
  _root_.Fp.Primary.Actual_Arg_Spec_List_tostr_match_tokens_partial o ho s items hm hs

theorem Section_Subscript_List_tostr_match_tokens_partial (o : Oracle Node) (ho : OracleTok o) (s : Str)
    (items : List (Item Node))
    (hm : (combiPlan (specList C.Section_Subscript) s).bind (runSlots o) = .ok items) (hs : SrmOK s) :
    ∃ t, combiStr o (specList C.Section_Subscript) items = .ok t ∧ toks t = toks s ∧
      ((∀ n, Item.node n ∈ items → net (o.str n) = 0) → net t = 0) :=
  _root_.Fp.Primary.Section_Subscript_List_tostr_match_tokens_partial o ho s items hm hs

theorem Bounds_Spec_List_tostr_match_tokens_partial (o : Oracle Node) (ho : OracleTok o) (s : Str)
    (items : List (Item Node))
    (hm : (combiPlan (specList C.Bounds_Spec) s).bind (runSlots o) = .ok items) (hs : SrmOK s) :
    ∃ t, combiStr o (specList C.Bounds_Spec) items = .ok t ∧ toks t = toks s ∧
      ((∀ n, Item.node n ∈ items → net (o.str n) = 0) → net t = 0) :=
  _root_.Fp.Primary.Bounds_Spec_List_tostr_match_tokens_partial o ho s items hm hs

theorem Bounds_Remapping_List_tostr_match_tokens_partial (o : Oracle Node) (ho : OracleTok o) (s : Str)
    (items : List (Item Node))
    (hm : (combiPlan (specList C.Bounds_Remapping) s).bind (runSlots o) = .ok items) (hs : SrmOK s) :
    ∃ t, combiStr o (specList C.Bounds_Remapping) items = .ok t ∧ toks t = toks s ∧
      ((∀ n, Item.node n ∈ items → net (o.str n) = 0) → net t = 0) :=
  _root_.Fp.Primary.Bounds_Remapping_List_tostr_match_tokens_partial o ho s items hm hs

theorem SequenceBase_char_tostr_match_tokens (o : Oracle Node) (ho : OracleTok o) (ch : Char) (elem : ClassId)
    (s : Str) (items : List (Item Node)) (hw : isWord ch = false) (hsp : ch ≠ ' ')
    (hnp : net [ch] = 0)
    (hm : (combiPlan (.seq [ch] elem) s).bind (runSlots o) = .ok items) (hs : SrmOK s) :
    ∃ t, combiStr o (.seq [ch] elem) items = .ok t ∧ toks t = toks s ∧
      ((∀ n, Item.node n ∈ items → net (o.str n) = 0) → net t = 0) ∧
      t = Combi.joinStr (Combi.seqSepText [ch]) (items.map (Item.text o)) ∧
      ∀ slots, combiPlan (.seq [ch] elem) s = .ok slots → items.length = slots.length :=
  _root_.Fp.Primary.seqChar_tostr_match_tokens o ho ch elem s items hw hsp hnp hm hs

theorem Data_Ref_tostr_match_tokens_partial (o : Oracle Node) (ho : OracleTok o) (s : Str)
    (items : List (Item Node))
    (hm : (planDataRef s).bind (runSlots o) = .ok items) (hs : SrmOK s) :
    ∃ t, combiStr o specDataRefSeq items = .ok t ∧ toks t = toks s ∧ items.length > 1 ∧
      ((∀ n, Item.node n ∈ items → net (o.str n) = 0) → net t = 0) ∧
      t = Combi.joinStr " % ".toList (items.map (Item.text o)) :=
  _root_.Fp.Primary.Data_Ref_tostr_match_tokens_partial o ho s items hm hs

theorem NumberBase_exact (scan : Str → Option (Str × Option Str)) (o : Oracle Node) (s : Str)
    (items : List (Item Node)) (hm : (planNumber scan s).bind (runSlots o) = .ok items) :
    ∃ v k, scan (Combi.noSpaces s) = some (v, k) ∧ items = [.str (upper v), kindItem k] ∧
      tostrNumber o items = .ok (upper v ++ (match k with | none => [] | some k => '_' :: k)) :=
  _root_.Fp.Primary.planNumber_exact scan o s items hm

theorem NumberBase_kind_case_kept (scan : Str → Option (Str × Option Str)) (hscan : ScanContent scan)
    (o : Oracle Node) (s : Str) (items : List (Item Node))
    (hm : (planNumber scan s).bind (runSlots o) = .ok items) :
    ∃ v k, tostrNumber o items = .ok (upper v ++ kindSuffix k) ∧
      noBlank s = noBlank v ++ kindSuffix k :=
  _root_.Fp.Primary.number_kind_case_kept scan hscan o s items hm

theorem Int_Literal_Constant_tostr_match_tokens (o : Oracle Node) (s : Str) (items : List (Item Node))
    (hm : (planIntLit s).bind (runSlots o) = .ok items) :
    ∃ t, tostrNumber o items = .ok t ∧ toks t = toks s ∧
      ((∀ i ∈ items, net (i.text o) = 0) → net t = 0) :=
  _root_.Fp.Primary.Int_Literal_Constant_tostr_match_tokens o s items hm

theorem Signed_Int_Literal_Constant_tostr_match_tokens (o : Oracle Node) (s : Str)
    (items : List (Item Node)) (hm : (planSignedIntLit s).bind (runSlots o) = .ok items) :
    ∃ t, tostrNumber o items = .ok t ∧ toks t = toks s ∧
      ((∀ i ∈ items, net (i.text o) = 0) → net t = 0) :=
  _root_.Fp.Primary.Signed_Int_Literal_Constant_tostr_match_tokens o s items hm

theorem Real_Literal_Constant_tostr_match_tokens (o : Oracle Node) (s : Str) (items : List (Item Node))
    (hm : (planRealLit s).bind (runSlots o) = .ok items) :
    ∃ t, tostrNumber o items = .ok t ∧ toks t = toks s ∧
      ((∀ i ∈ items, net (i.text o) = 0) → net t = 0) :=
  _root_.Fp.Primary.Real_Literal_Constant_tostr_match_tokens o s items hm

theorem Signed_Real_Literal_Constant_tostr_match_tokens (o : Oracle Node) (s : Str)
    (items : List (Item Node)) (hm : (planSignedRealLit s).bind (runSlots o) = .ok items) :
    ∃ t, tostrNumber o items = .ok t ∧ toks t = toks s ∧
      ((∀ i ∈ items, net (i.text o) = 0) → net t = 0) :=
  _root_.Fp.Primary.Signed_Real_Literal_Constant_tostr_match_tokens o s items hm

theorem Logical_Literal_Constant_tostr_match_tokens (o : Oracle Node) (s : Str)
    (items : List (Item Node)) (hm : (planLogicalLit s).bind (runSlots o) = .ok items) :
    ∃ t, tostrNumber o items = .ok t ∧ toks t = toks s ∧
      ((∀ i ∈ items, net (i.text o) = 0) → net t = 0) :=
  _root_.Fp.Primary.Logical_Literal_Constant_tostr_match_tokens o s items hm

theorem NumberBase_case_witness  :
    (planLogicalLit ".true._Kp".toList).bind (runSlots echoO)
      = .ok [.str ".TRUE.".toList, .str "Kp".toList] ∧
    tostrNumber echoO [.str ".TRUE.".toList, .str "Kp".toList] = .ok ".TRUE._Kp".toList ∧
    (planRealLit "1e3_Wp".toList).bind (runSlots echoO)
      = .ok [.str "1E3".toList, .str "Wp".toList] ∧
    tostrNumber echoO [.str "1E3".toList, .str "Wp".toList] = .ok "1E3_Wp".toList :=
  _root_.Fp.Primary.number_case_witness 

theorem Int_Literal_Constant_drops_inner_blank  :
    planIntLit "1 2".toList = .ok [.str "12".toList, .none] :=
  _root_.Fp.Primary.intLit_drops_inner_blank 

theorem Name_tostr_exact (o : Oracle Node) (s : Str) (items : List (Item Node))
    (hm : (planName s).bind (runSlots o) = .ok items) :
    isName (strip s) = true ∧ items = [.str (strip s)] ∧ tostrString o items = .ok (strip s) :=
  _root_.Fp.Primary.Name_tostr_exact o s items hm

theorem Name_tostr_match_tokens (o : Oracle Node) (s : Str) (items : List (Item Node))
    (hm : (planName s).bind (runSlots o) = .ok items) :
    ∃ t, tostrString o items = .ok t ∧ toks t = toks s ∧
      ((∀ i ∈ items, net (i.text o) = 0) → net t = 0) :=
  _root_.Fp.Primary.Name_tostr_match_tokens o s items hm

theorem Type_Name_tostr_match_tokens (o : Oracle Node) (s : Str) (items : List (Item Node))
    (hm : (planTypeName s).bind (runSlots o) = .ok items) :
    ∃ t, tostrString o items = .ok t ∧ toks t = toks s ∧
      ((∀ i ∈ items, net (i.text o) = 0) → net t = 0) :=
  _root_.Fp.Primary.Type_Name_tostr_match_tokens o s items hm

theorem Boz_tostr_exact (letter : Char) (digitOk : Char → Bool) (o : Oracle Node) (s : Str)
    (items : List (Item Node)) (hm : (planBoz letter digitOk s).bind (runSlots o) = .ok items) :
    scanBoz letter digitOk (upper s) = true ∧ items = [.str (upper s)] ∧
      tostrString o items = .ok (upper s) :=
  _root_.Fp.Primary.Boz_tostr_exact letter digitOk o s items hm

theorem Binary_Constant_tostr_match_tokens (o : Oracle Node) (s : Str) (items : List (Item Node))
    (hm : (planBinary s).bind (runSlots o) = .ok items) :
    ∃ t, tostrString o items = .ok t ∧ toks t = toks s ∧
      ((∀ i ∈ items, net (i.text o) = 0) → net t = 0) :=
  _root_.Fp.Primary.Binary_Constant_tostr_match_tokens o s items hm

theorem Octal_Constant_tostr_match_tokens (o : Oracle Node) (s : Str) (items : List (Item Node))
    (hm : (planOctal s).bind (runSlots o) = .ok items) :
    ∃ t, tostrString o items = .ok t ∧ toks t = toks s ∧
      ((∀ i ∈ items, net (i.text o) = 0) → net t = 0) :=
  _root_.Fp.Primary.Octal_Constant_tostr_match_tokens o s items hm

theorem Hex_Constant_tostr_match_tokens (o : Oracle Node) (s : Str) (items : List (Item Node))
    (hm : (planHex s).bind (runSlots o) = .ok items) :
    ∃ t, tostrString o items = .ok t ∧ toks t = toks s ∧
      ((∀ i ∈ items, net (i.text o) = 0) → net t = 0) :=
  _root_.Fp.Primary.Hex_Constant_tostr_match_tokens o s items hm

theorem Subscript_Triplet_tostr_match_tokens_partial (o : Oracle Node) (ho : OracleTok o) (s : Str)
    (items : List (Item Node)) (hm : (planSubscriptTriplet s).bind (runSlots o) = .ok items)
    (hs : SrmOK s) (hc : TripletStrideOK s) :
    ∃ t, tostrSubscriptTriplet o (arrangeTriplet items) = .ok t ∧ toks t = toks s ∧
      ((∀ i ∈ items, net (i.text o) = 0) → net t = 0) :=
  _root_.Fp.Primary.Subscript_Triplet_tostr_match_tokens_partial o ho s items hm hs hc

theorem Subscript_Triplet_drops_colon  :
    SrmOK "1:2:".toList ∧ ¬ TripletStrideOK "1:2:".toList ∧
    (planSubscriptTriplet "1:2:".toList).bind (runSlots echoO)
      = .ok [.none, .node "1".toList, .node "2".toList] ∧
    tostrSubscriptTriplet echoO (arrangeTriplet [.none, .node "1".toList, .node "2".toList])
      = .ok "1 : 2".toList ∧
    toks "1 : 2".toList ≠ toks "1:2:".toList :=
  _root_.Fp.Primary.subscriptTriplet_drops_colon 

theorem Alt_Return_Spec_tostr_match_tokens (o : Oracle Node) (ho : OracleTok o) (s : Str)
    (items : List (Item Node)) (hm : (planAltReturnSpec s).bind (runSlots o) = .ok items) :
    ∃ t, tostrAltReturnSpec o items = .ok t ∧ toks t = toks s ∧
      ((∀ i ∈ items, net (i.text o) = 0) → net t = 0) :=
  _root_.Fp.Primary.Alt_Return_Spec_tostr_match_tokens o ho s items hm

theorem Complex_Literal_Constant_tostr_match_tokens (o : Oracle Node) (ho : OracleTok o) (s : Str)
    (items : List (Item Node)) (hm : (planComplex s).bind (runSlots o) = .ok items) :
    ∃ t, tostrPair o items = .ok t ∧ toks t = toks s ∧
      ((∀ i ∈ items, net (i.text o) = 0) → net t = 0) :=
  _root_.Fp.Primary.Complex_Literal_Constant_tostr_match_tokens o ho s items hm

theorem Ac_Spec_tostr_match_tokens (o : Oracle Node) (ho : OracleTok o) (s : Str)
    (items : List (Item Node)) (hm : (planAcSpec s).bind (runSlots o) = .ok items)
    (hs : SrmOK s) :
    ∃ t, tostrAcSpec o items = .ok t ∧ toks t = toks s ∧
      ((∀ i ∈ items, net (i.text o) = 0) → net t = 0) :=
  _root_.Fp.Primary.Ac_Spec_tostr_match_tokens o ho s items hm hs

theorem Ac_Implied_Do_tostr_match_tokens (o : Oracle Node) (ho : OracleTok o) (s : Str)
    (items : List (Item Node)) (hm : (planAcImpliedDo s).bind (runSlots o) = .ok items)
    (hs : SrmOK (strip (inner s))) :
    ∃ t, tostrPair o items = .ok t ∧ toks t = toks s ∧
      ((∀ i ∈ items, net (i.text o) = 0) → net t = 0) :=
  _root_.Fp.Primary.Ac_Implied_Do_tostr_match_tokens o ho s items hm hs

theorem Ac_Implied_Do_Control_tostr_match_tokens (o : Oracle Node) (ho : OracleTok o) (s : Str)
    (items : List (Item Node)) (hm : (planAcImpliedDoControl s).bind (runSlots o) = .ok items)
    (hs : SrmOK (acControlTail s)) :
    ∃ t, tostrAcControl o (arrangeAcControl items) = .ok t ∧ toks t = toks s ∧
      ((∀ i ∈ items, net (i.text o) = 0) → net t = 0) :=
  _root_.Fp.Primary.Ac_Implied_Do_Control_tostr_match_tokens o ho s items hm hs

theorem BinaryOpBase_str_tostr_match_tokens (o : Oracle Node) (ho : OracleTok o) (lhsC rhsC : ClassId)
    (c : Char) (hc : isWord c = false) (right : Bool) (s : Str) (items : List (Item Node))
    (hm : (planBinStr lhsC [c] rhsC right s).bind (runSlots o) = .ok items) (hs : SrmOK s) :
    ∃ t, tostrBin o (arrangeBin right items) = .ok t ∧ toks t = toks s ∧
      ((∀ i ∈ items, net (i.text o) = 0) → net t = 0) :=
  _root_.Fp.Primary.binStr_tostr_match_tokens o ho lhsC rhsC c hc right s items hm hs

theorem BinaryOpBase_percent_tostr_match_tokens (o : Oracle Node) (ho : OracleTok o) (lhsC rhsC : ClassId)
    (s : Str) (items : List (Item Node))
    (hm : (planBinPercent lhsC rhsC s).bind (runSlots o) = .ok items) (hs : SrmOK s) :
    ∃ t, tostrBin o (arrangeBin true items) = .ok t ∧ toks t = toks s ∧
      ((∀ i ∈ items, net (i.text o) = 0) → net t = 0) :=
  _root_.Fp.Primary.binPercent_tostr_match_tokens o ho lhsC rhsC s items hm hs

theorem Assignment_Stmt_tostr_match_tokens (o : Oracle Node) (ho : OracleTok o) (s : Str)
    (items : List (Item Node)) (hm : (planAssignment s).bind (runSlots o) = .ok items)
    (hs : SrmOK s) :
    ∃ t, tostrBin o (arrangeBin false items) = .ok t ∧ toks t = toks s ∧
      ((∀ i ∈ items, net (i.text o) = 0) → net t = 0) :=
  _root_.Fp.Primary.Assignment_Stmt_tostr_match_tokens o ho s items hm hs

theorem Proc_Component_Ref_tostr_match_tokens (o : Oracle Node) (ho : OracleTok o) (s : Str)
    (items : List (Item Node)) (hm : (planProcComponentRef s).bind (runSlots o) = .ok items)
    (hs : SrmOK s) :
    ∃ t, tostrBin o (arrangeBin true items) = .ok t ∧ toks t = toks s ∧
      ((∀ i ∈ items, net (i.text o) = 0) → net t = 0) :=
  _root_.Fp.Primary.Proc_Component_Ref_tostr_match_tokens o ho s items hm hs

theorem Data_Pointer_Object_tostr_match_tokens (o : Oracle Node) (ho : OracleTok o) (s : Str)
    (items : List (Item Node)) (hm : (planDataPointerObject s).bind (runSlots o) = .ok items)
    (hs : SrmOK s) :
    ∃ t, tostrBin o (arrangeBin true items) = .ok t ∧ toks t = toks s ∧
      ((∀ i ∈ items, net (i.text o) = 0) → net t = 0) :=
  _root_.Fp.Primary.Data_Pointer_Object_tostr_match_tokens o ho s items hm hs

theorem Type_Param_Inquiry_tostr_match_tokens (o : Oracle Node) (ho : OracleTok o) (s : Str)
    (items : List (Item Node)) (hm : (planTypeParamInquiry s).bind (runSlots o) = .ok items)
    (hs : SrmOK s) :
    ∃ t, tostrBin o (arrangeBin true items) = .ok t ∧ toks t = toks s ∧
      ((∀ i ∈ items, net (i.text o) = 0) → net t = 0) :=
  _root_.Fp.Primary.Type_Param_Inquiry_tostr_match_tokens o ho s items hm hs

theorem Procedure_Designator_tostr_match_tokens (o : Oracle Node) (ho : OracleTok o) (s : Str)
    (items : List (Item Node)) (hm : (planProcedureDesignator s).bind (runSlots o) = .ok items)
    (hs : SrmOK s) :
    ∃ t, tostrBin o (arrangeBin true items) = .ok t ∧ toks t = toks s ∧
      ((∀ i ∈ items, net (i.text o) = 0) → net t = 0) :=
  _root_.Fp.Primary.Procedure_Designator_tostr_match_tokens o ho s items hm hs

theorem Pointer_Assignment_Stmt_tostr_match_tokens (o : Oracle Node) (ho : OracleTok o) (s : Str)
    (items : List (Item Node)) (hm : (planPointerAssignment s).run o = .ok items)
    (hs : SrmOK s) :
    ∃ t, tostrPointerAssignment o items = .ok t ∧ toks t = toks s ∧
      ((∀ i ∈ items, net (i.text o) = 0) → net t = 0) :=
  _root_.Fp.Primary.Pointer_Assignment_Stmt_tostr_match_tokens o ho s items hm hs

theorem Char_Literal_Constant_canonical  :
    SrmOK (strip "k _ 'pre'".toList) ∧
    (planCharLit "k _ 'pre'".toList).bind (runSlots echoO)
      = .ok [.str "'pre'".toList, .str "k".toList] ∧
    tostrCharLit echoO [.str "'pre'".toList, .str "k".toList] = .ok "k_'pre'".toList ∧
    toks "k_'pre'".toList = toks "k _ 'pre'".toList :=
  _root_.Fp.Primary.charLit_canonical 

theorem Char_Literal_Constant_prints_placeholder  :
    SrmOK (strip "1.5e3_'a'".toList) ∧
    (planCharLit "1.5e3_'a'".toList).bind (runSlots echoO)
      = .ok [.str "'a'".toList, .str "F2PY_REAL_CONSTANT_1_".toList] ∧
    tostrCharLit echoO [.str "'a'".toList, .str "F2PY_REAL_CONSTANT_1_".toList]
      = .ok "F2PY_REAL_CONSTANT_1__'a'".toList ∧
    toks "F2PY_REAL_CONSTANT_1__'a'".toList ≠ toks "1.5e3_'a'".toList :=
  _root_.Fp.Primary.charLit_prints_placeholder 

theorem match_total (std : Std) (iv : Str → Nat → SymTab.IntrRes) (o : Oracle Node) (c : ClassId) (s : Str)
    (e : Exc) (h : matchOf std iv o c s = some (.raises e)) :
    e = .keyError ∨
    (c = C.Intrinsic_Function_Reference ∧ e = .child "InternalSyntaxError".toList ∧
      ∃ name n, iv name n = .syntaxError) ∨
    ∃ c' t, o.call c' t = .raises e :=
  _root_.Fp.Primary.match_total std iv o c s e h

theorem Intrinsic_Function_Reference_match_total (std : Std) (iv : Str → Nat → SymTab.IntrRes) (o : Oracle Node) (s : Str) (e : Exc)
    (h : matchOf std iv o C.Intrinsic_Function_Reference s = some (.raises e)) :
    (e = .child "InternalSyntaxError".toList ∧ ∃ name n, iv name n = .syntaxError) ∨
    (e = .keyError ∧ ∃ name n, iv name n = .keyErrorEscapes) ∨
    ∃ c' t, o.call c' t = .raises e :=
  _root_.Fp.Primary.match_total_intrinsic std iv o s e h

theorem match_total_closed (std : Std) (iv : Str → Nat → SymTab.IntrRes) (o : Oracle Node) (ho : OracleTotal o)
    (hiv : ∀ name n, iv name n ≠ .syntaxError) (c : ClassId) (s : Str) (e : Exc)
    (h : matchOf std iv o c s = some (.raises e)) :
    e = .keyError :=
  _root_.Fp.Primary.match_total_closed std iv o ho hiv c s e h

theorem Complex_Literal_Constant_no_ValueError (s : Str) :
    planComplex s ≠ .raises .valueError :=
  _root_.Fp.Primary.planComplex_no_valueError s

theorem tostr_total (std : Std) (iv : Str → Nat → SymTab.IntrRes) (o : Oracle Node) (c : ClassId) (s : Str)
    (items : List (Item Node)) (hc : c ≠ C.Char_Literal_Constant)
    (h : matchOf std iv o c s = some (.ok items)) :
    ∃ t, tostrOf o c items = .ok t :=
  _root_.Fp.Primary.tostrOf_total std iv o c s items hc h

theorem Name_match_tostr_fixpoint (o : Oracle Node) (s : Str) (items : List (Item Node)) (t : Str)
    (hm : (planName s).bind (runSlots o) = .ok items) (ht : tostrString o items = .ok t) :
    (planName t).bind (runSlots o) = .ok items :=
  _root_.Fp.Primary.Name_match_tostr_fixpoint o s items t hm ht

theorem Type_Name_match_tostr_fixpoint_partial (o : Oracle Node) (s : Str) (items : List (Item Node)) (t : Str)
    (hs : isIntrinsicTypeName (strip s) = false)
    (hm : (planTypeName s).bind (runSlots o) = .ok items) (ht : tostrString o items = .ok t) :
    (planTypeName t).bind (runSlots o) = .ok items :=
  _root_.Fp.Primary.Type_Name_match_tostr_fixpoint_partial o s items t hs hm ht

theorem Type_Name_fixpoint_fails  :
    (planTypeName " integer".toList).bind (runSlots echoO) = .ok [.str "integer".toList] ∧
    tostrString echoO [.str "integer".toList] = .ok "integer".toList ∧
    (planTypeName "integer".toList).bind (runSlots echoO) = .noMatch :=
  _root_.Fp.Primary.Type_Name_fixpoint_fails 

theorem Boz_match_tostr_fixpoint (o : Oracle Node) (l : Char) (d : Char → Bool) (s : Str)
    (items : List (Item Node)) (t : Str)
    (hm : (planBoz l d s).bind (runSlots o) = .ok items) (ht : tostrString o items = .ok t) :
    (planBoz l d t).bind (runSlots o) = .ok items :=
  _root_.Fp.Primary.planBoz_match_tostr_fixpoint o l d s items t hm ht

theorem Binary_Constant_match_tostr_fixpoint (o : Oracle Node) (s : Str) (items : List (Item Node)) (t : Str)
    (hm : (planBinary s).bind (runSlots o) = .ok items) (ht : tostrString o items = .ok t) :
    (planBinary t).bind (runSlots o) = .ok items :=
  _root_.Fp.Primary.Binary_Constant_match_tostr_fixpoint o s items t hm ht

theorem Octal_Constant_match_tostr_fixpoint (o : Oracle Node) (s : Str) (items : List (Item Node)) (t : Str)
    (hm : (planOctal s).bind (runSlots o) = .ok items) (ht : tostrString o items = .ok t) :
    (planOctal t).bind (runSlots o) = .ok items :=
  _root_.Fp.Primary.Octal_Constant_match_tostr_fixpoint o s items t hm ht

theorem Hex_Constant_match_tostr_fixpoint (o : Oracle Node) (s : Str) (items : List (Item Node)) (t : Str)
    (hm : (planHex s).bind (runSlots o) = .ok items) (ht : tostrString o items = .ok t) :
    (planHex t).bind (runSlots o) = .ok items :=
  _root_.Fp.Primary.Hex_Constant_match_tostr_fixpoint o s items t hm ht

theorem Int_Literal_Constant_match_tostr_fixpoint (o : Oracle Node) (s : Str) (items : List (Item Node)) (t : Str)
    (hm : (planIntLit s).bind (runSlots o) = .ok items) (ht : tostrNumber o items = .ok t) :
    (planIntLit t).bind (runSlots o) = .ok items :=
  _root_.Fp.Primary.Int_Literal_Constant_match_tostr_fixpoint o s items t hm ht

theorem Alt_Return_Spec_match_tostr_fixpoint (o : Oracle Node) (s : Str) (items : List (Item Node)) (t : Str)
    (hm : (planAltReturnSpec s).bind (runSlots o) = .ok items) (ht : tostrAltReturnSpec o items = .ok t)
    (hrt : ∀ n, Item.node n ∈ items → lstrip (o.str n) ≠ [] ∧ o.call C.Label (lstrip (o.str n)) = .ok n) :
    (planAltReturnSpec t).bind (runSlots o) = .ok items :=
  _root_.Fp.Primary.Alt_Return_Spec_match_tostr_fixpoint o s items t hm ht hrt

theorem Signed_Int_Literal_Constant_match_tostr_fixpoint (o : Oracle Node) (s : Str) (items : List (Item Node))
    (t : Str) (hm : (planSignedIntLit s).bind (runSlots o) = .ok items) (ht : tostrNumber o items = .ok t) :
    (planSignedIntLit t).bind (runSlots o) = .ok items :=
  _root_.Fp.Primary.Signed_Int_Literal_Constant_match_tostr_fixpoint o s items t hm ht

theorem Real_Literal_Constant_match_tostr_fixpoint (o : Oracle Node) (s : Str) (items : List (Item Node))
    (t : Str) (hm : (planRealLit s).bind (runSlots o) = .ok items) (ht : tostrNumber o items = .ok t) :
    (planRealLit t).bind (runSlots o) = .ok items :=
  _root_.Fp.Primary.Real_Literal_Constant_match_tostr_fixpoint o s items t hm ht

theorem Signed_Real_Literal_Constant_match_tostr_fixpoint (o : Oracle Node) (s : Str) (items : List (Item Node))
    (t : Str) (hm : (planSignedRealLit s).bind (runSlots o) = .ok items) (ht : tostrNumber o items = .ok t) :
    (planSignedRealLit t).bind (runSlots o) = .ok items :=
  _root_.Fp.Primary.Signed_Real_Literal_Constant_match_tostr_fixpoint o s items t hm ht

theorem Logical_Literal_Constant_match_tostr_fixpoint (o : Oracle Node) (s : Str) (items : List (Item Node))
    (t : Str) (hm : (planLogicalLit s).bind (runSlots o) = .ok items) (ht : tostrNumber o items = .ok t) :
    (planLogicalLit t).bind (runSlots o) = .ok items :=
  _root_.Fp.Primary.Logical_Literal_Constant_match_tostr_fixpoint o s items t hm ht

theorem NumberBase_fixpoint (val : Str → Option Str) (scan : Str → Option (Str × Option Str))
    (hscan : ∀ s, scan s = match val s with
      | none => none
      | some r => (kindTail r).map fun k => (takePre s r, k))
    (hsuf : ∀ s r, val s = some r → r <:+ s)
    (hsim : ∀ r rest x y, NB rest → Sim r rest x y → val x = some r → val y = some rest)
    (o : Oracle Node) (s : Str) (items : List (Item Node)) (t : Str)
    (hm : (planNumber scan s).bind (runSlots o) = .ok items) (ht : tostrNumber o items = .ok t) :
    (planNumber scan t).bind (runSlots o) = .ok items :=
  _root_.Fp.Primary.number_fixpoint val scan hscan hsuf hsim o s items t hm ht

theorem Char_Literal_Constant_tostr_match_tokens_partial (o : Oracle Node) (s : Str)
    (items : List (Item Node)) (hm : (planCharLit s).bind (runSlots o) = .ok items)
    (hs : SrmOK (strip s)) (hk : CharKindPlain s) :
    ∃ t, tostrCharLit o items = .ok t ∧ toks t = toks s ∧
      ((∀ i ∈ items, net (i.text o) = 0) → net t = 0) :=
  _root_.Fp.Primary.Char_Literal_Constant_tostr_match_tokens_partial o s items hm hs hk

theorem Char_Literal_Constant_tostr_exact_partial (o : Oracle Node) (s : Str) (items : List (Item Node))
    (hm : (planCharLit s).bind (runSlots o) = .ok items) (hs : SrmOK (strip s))
    (hk : CharKindPlain s) :
    ∃ (q : Char) (val : Str) (ko : Option Str),
      (q = '"' ∨ q = '\'') ∧
      items = [.str (q :: val), kindItem ko] ∧
      (∀ k, ko = some k → isKindParam k = true) ∧
      tostrCharLit o items = .ok (kindPrefix ko ++ q :: val) ∧
      noBlank (kindPrefix ko ++ q :: val) = noBlank s :=
  _root_.Fp.Primary.Char_Literal_Constant_tostr_exact_partial o s items hm hs hk

theorem Char_Literal_Constant_kind_plain_necessary  :
    SrmOK (strip "1.5e3_'a'".toList) ∧ ¬ CharKindPlain "1.5e3_'a'".toList ∧
    (planCharLit "1.5e3_'a'".toList).bind (runSlots echoO)
      = .ok [.str "'a'".toList, .str "F2PY_REAL_CONSTANT_1_".toList] ∧
    tostrCharLit echoO [.str "'a'".toList, .str "F2PY_REAL_CONSTANT_1_".toList]
      = .ok "F2PY_REAL_CONSTANT_1__'a'".toList ∧
    toks "F2PY_REAL_CONSTANT_1__'a'".toList ≠ toks "1.5e3_'a'".toList :=
  _root_.Fp.Primary.charKindPlain_necessary 

theorem primaryAlternatives_f2003  :
    primaryAlternatives (realTable .f2003) =
    [C.Intrinsic_Function_Reference, C.Int_Literal_Constant, C.Real_Literal_Constant,
     C.Complex_Literal_Constant, C.Logical_Literal_Constant, C.Char_Literal_Constant, C.Binary_Constant,
     C.Octal_Constant, C.Hex_Constant, C.Name, C.Data_Ref, C.Array_Section, C.Substring,
     C.Array_Constructor, C.Structure_Constructor, C.Function_Reference, C.Type_Param_Inquiry,
     C.Parenthesis] :=
  _root_.Fp.Primary.primaryAlternatives_f2003 

theorem primaryAlternatives_f2008  :
    primaryAlternatives (realTable .f2008) =
    [C.Intrinsic_Function_Reference, C.Int_Literal_Constant, C.Real_Literal_Constant,
     C.Complex_Literal_Constant, C.Logical_Literal_Constant, C.Char_Literal_Constant, C.Binary_Constant,
     C.Octal_Constant, C.Hex_Constant, C.Name, C.Data_Ref, C.Array_Section, C.Substring,
     C.Array_Constructor, C.Structure_Constructor, C.Function_Reference, C.Type_Param_Inquiry,
     C.Parenthesis] :=
  _root_.Fp.Primary.primaryAlternatives_f2008 

theorem realTable_f2008_eq_f2003  :
    ∀ c ∈ List.range clsNames.length, (realTable .f2008).subs c = (realTable .f2003).subs c :=
  _root_.Fp.Primary.realTable_f2008_eq_f2003 

theorem subs_Designator (std : Std) :
    (realTable std).subs C.Designator = [C.Name, C.Data_Ref, C.Array_Section, C.Substring] :=
  _root_.Fp.Primary.subs_Designator std

theorem subs_Variable (std : Std) :
    (realTable std).subs C.Variable = [C.Name, C.Data_Ref, C.Array_Section, C.Substring] :=
  _root_.Fp.Primary.subs_Variable std

theorem subs_Data_Ref (std : Std) :
    (realTable std).subs C.Data_Ref = [C.Part_Ref] :=
  _root_.Fp.Primary.subs_Data_Ref std

theorem subs_Part_Ref (std : Std) :
    (realTable std).subs C.Part_Ref = [C.Name] :=
  _root_.Fp.Primary.subs_Part_Ref std

theorem subs_Array_Section (std : Std) :
    (realTable std).subs C.Array_Section = [C.Data_Ref] :=
  _root_.Fp.Primary.subs_Array_Section std

theorem subs_Constant (std : Std) :
    (realTable std).subs C.Constant =
    [C.Int_Literal_Constant, C.Real_Literal_Constant, C.Complex_Literal_Constant,
     C.Logical_Literal_Constant, C.Char_Literal_Constant, C.Binary_Constant, C.Octal_Constant,
     C.Hex_Constant, C.Name] :=
  _root_.Fp.Primary.subs_Constant std

theorem subs_Section_Subscript (std : Std) :
    (realTable std).subs C.Section_Subscript = [C.Subscript_Triplet, C.Int_Expr] :=
  _root_.Fp.Primary.subs_Section_Subscript std

theorem subs_Actual_Arg (std : Std) :
    (realTable std).subs C.Actual_Arg =
    [C.Expr, C.Name, C.Proc_Component_Ref, C.Alt_Return_Spec, C.Data_Ref, C.Array_Section,
     C.Substring] :=
  _root_.Fp.Primary.subs_Actual_Arg std

theorem subs_Component_Data_Source (std : Std) :
    (realTable std).subs C.Component_Data_Source =
    [C.Proc_Component_Ref, C.Name, C.Expr, C.Data_Ref, C.Array_Section, C.Substring] :=
  _root_.Fp.Primary.subs_Component_Data_Source std

theorem subs_Parent_String (std : Std) :
    (realTable std).subs C.Parent_String =
    [C.Name, C.Data_Ref, C.Int_Literal_Constant, C.Real_Literal_Constant, C.Complex_Literal_Constant,
     C.Logical_Literal_Constant, C.Char_Literal_Constant, C.Binary_Constant, C.Octal_Constant,
     C.Hex_Constant] :=
  _root_.Fp.Primary.subs_Parent_String std

theorem subs_Procedure_Designator (std : Std) :
    (realTable std).subs C.Procedure_Designator = [C.Name, C.Proc_Component_Ref] :=
  _root_.Fp.Primary.subs_Procedure_Designator std

theorem subs_Level_1_Expr (std : Std) :
    (realTable std).subs C.Level_1_Expr = primaryOrder :=
  _root_.Fp.Primary.subs_Level_1_Expr std

theorem subLoop_first_ok (f : ClassId → List ClassId → Str → Out) (s : Str) (pre rest : List ClassId) (a : ClassId) (ps ps' : List ClassId) (k n : Nat)
    (hpre : failRun f s pre ps = some (ps', k)) (hc : ps'.contains a = false)
    (ha : (f a ps' s).res ≠ .noMatch) :
    subLoop f s (pre ++ a :: rest) ps n =
      { res := (f a ps' s).res, calls := n + k + (f a ps' s).calls, parents := (f a ps' s).parents } :=
  _root_.Fp.Primary.subLoop_first_ok f s pre rest a ps ps' k n hpre hc ha

theorem subLoop_raises_wins (f : ClassId → List ClassId → Str → Out) (s : Str) (pre rest : List ClassId) (a : ClassId) (ps ps' : List ClassId) (k n : Nat)
    (e : Exc) (hpre : failRun f s pre ps = some (ps', k)) (hc : ps'.contains a = false)
    (ha : (f a ps' s).res = .raises e) :
    (subLoop f s (pre ++ a :: rest) ps n).res = .raises e :=
  _root_.Fp.Primary.subLoop_raises_wins f s pre rest a ps ps' k n e hpre hc ha

theorem subLoop_noMatch_iff (f : ClassId → List ClassId → Str → Out) (s : Str) (alts ps : List ClassId) (n : Nat) :
    (subLoop f s alts ps n).res = .noMatch ↔ ∃ ps' k, failRun f s alts ps = some (ps', k) :=
  _root_.Fp.Primary.subLoop_noMatch_iff f s alts ps n

theorem subLoop_answer_iff (f : ClassId → List ClassId → Str → Out) (s : Str) (alts ps : List ClassId) (n : Nat) (r : Res PNode) (hr : r ≠ .noMatch) :
    (subLoop f s alts ps n).res = r ↔
      ∃ pre a rest ps' k, alts = pre ++ a :: rest ∧ failRun f s pre ps = some (ps', k) ∧
        ps'.contains a = false ∧ (f a ps' s).res = r :=
  _root_.Fp.Primary.subLoop_answer_iff f s alts ps n r hr

theorem new_Data_Ref (cfg : Cfg) (std : Std) (hT : cfg.table = realTable std) (fuel : Nat) (s : Str)
    (ps : List ClassId) (hN : C.Name ∈ ps) (hD : C.Data_Ref ∉ ps) (hP : C.Part_Ref ∉ ps) :
    (new cfg (fuel+2) C.Data_Ref ps s).res = firstMatch (matchAt cfg fuel s) [C.Data_Ref, C.Part_Ref] ∧
    (new cfg (fuel+2) C.Data_Ref ps s).parents =
      if (mres cfg (fuel+1) C.Data_Ref s).1 = .noMatch then ps ++ [C.Data_Ref, C.Part_Ref]
      else ps ++ [C.Data_Ref] :=
  _root_.Fp.Primary.new_Data_Ref cfg std hT fuel s ps hN hD hP

theorem primary_choice (cfg : Cfg) (std : Std) (hT : cfg.table = realTable std) (fuel : Nat) (s : Str) :
    (new cfg (fuel+3) C.Primary [] s).res = firstMatch (matchAt cfg fuel s) choiceOrder :=
  _root_.Fp.Primary.primary_choice cfg std hT fuel s

theorem primary_choice_construct (cfg : Cfg) (std : Std) (hT : cfg.table = realTable std) (s : Str) :
    (construct cfg C.Primary s).res = firstMatch (matchAt cfg (need s - 3) s) choiceOrder :=
  _root_.Fp.Primary.primary_choice_construct cfg std hT s

theorem primary_choice_winner (cfg : Cfg) (std : Std) (hT : cfg.table = realTable std) (fuel : Nat)
    (s : Str) (pre rest : List ClassId) (a : ClassId) (hsplit : choiceOrder = pre ++ a :: rest)
    (hpre : ∀ b ∈ pre, matchAt cfg fuel s b = .noMatch) (ha : matchAt cfg fuel s a ≠ .noMatch) :
    (new cfg (fuel+3) C.Primary [] s).res = matchAt cfg fuel s a :=
  _root_.Fp.Primary.primary_choice_winner cfg std hT fuel s pre rest a hsplit hpre ha

theorem primary_noMatch_iff (cfg : Cfg) (std : Std) (hT : cfg.table = realTable std) (fuel : Nat)
    (s : Str) :
    (new cfg (fuel+3) C.Primary [] s).res = .noMatch ↔
      ∀ a ∈ choiceOrder, matchAt cfg fuel s a = .noMatch :=
  _root_.Fp.Primary.primary_noMatch_iff cfg std hT fuel s

theorem primary_choice_reference (cfg : Cfg) (std : Std) (hT : cfg.table = realTable std) (fuel : Nat)
    (s : Str) (h10 : ∀ a ∈ tenAlts, matchAt cfg fuel s a = .noMatch) :
    (new cfg (fuel+3) C.Primary [] s).res = firstMatch (matchAt cfg fuel s) referenceOrder :=
  _root_.Fp.Primary.primary_choice_reference cfg std hT fuel s h10

theorem primary_choice_function_reference (cfg : Cfg) (std : Std) (hT : cfg.table = realTable std)
    (fuel : Nat) (s : Str) (h10 : ∀ a ∈ tenAlts, matchAt cfg fuel s a = .noMatch)
    (h5 : ∀ a ∈ [C.Data_Ref, C.Part_Ref, C.Array_Section, C.Substring, C.Array_Constructor,
      C.Structure_Constructor], matchAt cfg fuel s a = .noMatch)
    (hf : matchAt cfg fuel s C.Function_Reference ≠ .noMatch) :
    (new cfg (fuel+3) C.Primary [] s).res = matchAt cfg fuel s C.Function_Reference :=
  _root_.Fp.Primary.primary_choice_function_reference cfg std hT fuel s h10 h5 hf

theorem primary_choice_inst_part_ref  :
    toyPrimary "f(x)" =
    .ok (C.Part_Ref, "Part_Ref(Name('f'), Section_Subscript_List(Name('x')))") :=
  _root_.Fp.Primary.inst_part_ref 

theorem primary_choice_inst_real_arg_is_structure_constructor  :
    toyPrimary "f(1.0)" =
    .ok (C.Structure_Constructor,
      "Structure_Constructor(Type_Name('f'), Component_Spec_List(Real_Literal_Constant('1.0', None)))") :=
  _root_.Fp.Primary.inst_real_arg_is_structure_constructor 

theorem primary_choice_inst_no_arg_is_structure_constructor  :
    toyPrimary "f()" =
    .ok (C.Structure_Constructor, "Structure_Constructor(Type_Name('f'), None)") :=
  _root_.Fp.Primary.inst_no_arg_is_structure_constructor 

theorem primary_choice_inst_keyword_arg_is_structure_constructor  :
    toyPrimary "t(1, x = 2)" =
    .ok (C.Structure_Constructor,
      "Structure_Constructor(Type_Name('t'), Component_Spec_List(Int_Literal_Constant('1', None), Component_Spec(Name('x'), Int_Literal_Constant('2', None))))") :=
  _root_.Fp.Primary.inst_keyword_arg_is_structure_constructor 

theorem primary_choice_inst_function_reference  :
    toyPrimary "f(*10)" =
    .ok (C.Function_Reference,
      "Function_Reference(Name('f'), Actual_Arg_Spec_List(Alt_Return_Spec(Label('10'))))") :=
  _root_.Fp.Primary.inst_function_reference 

theorem primary_choice_inst_array_section  :
    toyPrimary "a(1)(2:3)" =
    .ok (C.Array_Section,
      "Array_Section(Part_Ref(Name('a'), Section_Subscript_List(Int_Literal_Constant('1', None))), Substring_Range(Int_Literal_Constant('2', None), Int_Literal_Constant('3', None)))") :=
  _root_.Fp.Primary.inst_array_section 

theorem primary_choice_inst_substring  :
    toyPrimary "'abc'(1:2)" =
    .ok (C.Substring,
      "Substring(Char_Literal_Constant(''abc'', None), Substring_Range(Int_Literal_Constant('1', None), Int_Literal_Constant('2', None)))") :=
  _root_.Fp.Primary.inst_substring 

theorem primary_choice_inst_intrinsic  :
    toyPrimary "sin(x)" =
    .ok (C.Intrinsic_Function_Reference,
      "Intrinsic_Function_Reference(Intrinsic_Name('SIN'), Actual_Arg_Spec_List(Name('x')))") :=
  _root_.Fp.Primary.inst_intrinsic 

theorem primary_choice_inst_intrinsic_exception_wins  :
    toyPrimary "sin()" = .raises (.child "InternalSyntaxError".toList) :=
  _root_.Fp.Primary.inst_intrinsic_exception_wins 

theorem primary_choice_inst_data_ref  :
    toyPrimary "a%b" = .ok (C.Data_Ref, "Data_Ref(Name('a'), Name('b'))") :=
  _root_.Fp.Primary.inst_data_ref 

theorem primary_choice_inst_parenthesis  :
    toyPrimary "(x)" = .ok (C.Parenthesis, "Parenthesis('(', Name('x'), ')')") :=
  _root_.Fp.Primary.inst_parenthesis 

theorem refCalls_nest_succ  :
    ∀ d, refCalls (nestRef (d+1)) = refCalls (nestRef d) + 31 :=
  _root_.Fp.Primary.refCalls_nest_succ 

theorem refCalls_nest_closed  :
    ∀ d, refCalls (nestRef d) = 11 + 31 * d :=
  _root_.Fp.Primary.refCalls_nest_closed 

theorem refCalls_nest_linear  :
    ∀ d, refCalls (nestRef d) ≤ 31 * (d + 1) :=
  _root_.Fp.Primary.refCalls_nest_linear 

theorem refCalls_nest_values  :
    (List.range 8).map (fun d => refCalls (nestRef d)) = [11, 42, 73, 104, 135, 166, 197, 228] :=
  _root_.Fp.Primary.refCalls_nest_values 

theorem refCalls_linear_in_size  :
    ∀ r : Ref, refCalls r + 14 ≤ 31 * r.size :=
  _root_.Fp.Primary.refCalls_linear_in_size 

theorem refCalls_ge_size  :
    ∀ r : Ref, refCalls r ≥ 10 * r.size :=
  _root_.Fp.Primary.refCalls_ge_size 

theorem refCalls_flat  :
    ∀ n, refCalls (flatRef n) = 17 + 25 * n :=
  _root_.Fp.Primary.refCalls_flat 

theorem refCalls_flat_linear  :
    ∀ n, refCalls (flatRef n) ≤ 25 * (n + 1) :=
  _root_.Fp.Primary.refCalls_flat_linear 

theorem refCalls_shallow_linear (r : Ref) (h : r.depth ≤ 1) :
    refCalls r ≤ 25 * (r.nargs + 1) :=
  _root_.Fp.Primary.refCalls_shallow_linear r h

theorem primaryCalls_nest_0  :
    primaryCalls (nestCfg 0) (nestStr 0) = refCalls (nestRef 0) :=
  _root_.Fp.Primary.primaryCalls_nest_0 

theorem primaryCalls_nest_1  :
    primaryCalls (nestCfg 1) (nestStr 1) = refCalls (nestRef 1) :=
  _root_.Fp.Primary.primaryCalls_nest_1 

theorem primaryCalls_nest_2  :
    primaryCalls (nestCfg 2) (nestStr 2) = refCalls (nestRef 2) :=
  _root_.Fp.Primary.primaryCalls_nest_2 

theorem primaryCalls_nest_3  :
    primaryCalls (nestCfg 3) (nestStr 3) = refCalls (nestRef 3) :=
  _root_.Fp.Primary.primaryCalls_nest_3 

theorem primaryCalls_nest_4  :
    primaryCalls (nestCfg 4) (nestStr 4) = refCalls (nestRef 4) :=
  _root_.Fp.Primary.primaryCalls_nest_4 

theorem primaryCalls_nest_values  :
    nestStr 0 = "x".toList ∧ nestStr 1 = "f1(x)".toList ∧ nestStr 2 = "f2(f1(x))".toList ∧
    nestStr 3 = "f3(f2(f1(x)))".toList ∧
    primaryCalls (nestCfg 0) "x".toList = 11 ∧ primaryCalls (nestCfg 1) "f1(x)".toList = 42 ∧
    primaryCalls (nestCfg 2) "f2(f1(x))".toList = 73 ∧ primaryCalls (nestCfg 3) "f3(f2(f1(x)))".toList = 104 :=
  _root_.Fp.Primary.primaryCalls_nest_values 

theorem primaryCalls_flat_1  :
    primaryCalls (nestCfg 1) "f(x)".toList = refCalls (flatRef 1) :=
  _root_.Fp.Primary.primaryCalls_flat_1 

theorem primaryCalls_flat_2  :
    primaryCalls (nestCfg 1) "f(x, x)".toList = refCalls (flatRef 2) :=
  _root_.Fp.Primary.primaryCalls_flat_2 

theorem primaryCalls_flat_3  :
    primaryCalls (nestCfg 1) "f(x, x, x)".toList = refCalls (flatRef 3) :=
  _root_.Fp.Primary.primaryCalls_flat_3 

theorem primaryCalls_flat_0_differs  :
    primaryCalls (nestCfg 1) "f()".toList = 27 ∧ refCalls (flatRef 0) = 17 ∧
    primaryCallsOld (nestCfgOld 1) "f()".toList = 33 :=
  _root_.Fp.Primary.primaryCalls_flat_0_differs 

theorem construct_nest_2_shape  :
    ((construct (nestCfg 2) C.Primary (nestStr 2)).res.map (·.shape)) =
      .ok "Part_Ref(Name('f2'), Section_Subscript_List(Part_Ref(Name('f1'), Section_Subscript_List(Name('x')))))".toList ∧
    (constructOld (nestCfgOld 2) C.Primary (nestStr 2)).res = (construct (nestCfg 2) C.Primary (nestStr 2)).res :=
  _root_.Fp.Primary.construct_nest_2_shape 

theorem Data_Ref_single_part_no_call  :
    planDataRef "f(g(x))".toList = .noMatch ∧
    planDataRefOld "f(g(x))".toList = .ok [.child C.Part_Ref "f(g(x))".toList, .fail] ∧
    planDataRef "a(b%c)".toList = .noMatch :=
  _root_.Fp.Primary.Data_Ref_single_part_no_call 

theorem refCallsOld_nest_succ  :
    ∀ d, refCallsOld (nestRef (d+1)) = 2 * refCallsOld (nestRef d) + 49 :=
  _root_.Fp.Primary.refCallsOld_nest_succ 

theorem refCallsOld_nest_closed  :
    ∀ d, refCallsOld (nestRef d) + 49 = 60 * 2 ^ d :=
  _root_.Fp.Primary.refCallsOld_nest_closed 

theorem refCallsOld_nest_doubles  :
    ∀ d, refCallsOld (nestRef (d+1)) ≥ 2 * refCallsOld (nestRef d) :=
  _root_.Fp.Primary.refCallsOld_nest_doubles 

theorem refCallsOld_nest_not_polynomial  :
    ∀ k : Nat, ∃ d, refCallsOld (nestRef d) > d ^ k :=
  _root_.Fp.Primary.refCallsOld_nest_not_polynomial 

theorem refCallsOld_ge_two_pow_depth  :
    ∀ r : Ref, refCallsOld r ≥ 2 ^ r.depth :=
  _root_.Fp.Primary.refCallsOld_ge_two_pow_depth 

theorem refCallsOld_nest_values  :
    (List.range 8).map (fun d => refCallsOld (nestRef d)) = [11, 71, 191, 431, 911, 1871, 3791, 7631] :=
  _root_.Fp.Primary.refCallsOld_nest_values 

theorem refCallsOld_gt_refCalls  :
    ∀ d, d ≥ 1 → refCallsOld (nestRef d) > refCalls (nestRef d) :=
  _root_.Fp.Primary.refCallsOld_gt_refCalls 

theorem refCalls_le_refCallsOld  :
    ∀ r : Ref, refCalls r ≤ refCallsOld r :=
  _root_.Fp.Primary.refCalls_le_refCallsOld 

theorem primaryCallsOld_nest_0  :
    primaryCallsOld (nestCfgOld 0) (nestStr 0) = refCallsOld (nestRef 0) :=
  _root_.Fp.Primary.primaryCallsOld_nest_0 

theorem primaryCallsOld_nest_1  :
    primaryCallsOld (nestCfgOld 1) (nestStr 1) = refCallsOld (nestRef 1) :=
  _root_.Fp.Primary.primaryCallsOld_nest_1 

theorem primaryCallsOld_nest_2  :
    primaryCallsOld (nestCfgOld 2) (nestStr 2) = refCallsOld (nestRef 2) :=
  _root_.Fp.Primary.primaryCallsOld_nest_2 

theorem primaryCallsOld_nest_3  :
    primaryCallsOld (nestCfgOld 3) (nestStr 3) = refCallsOld (nestRef 3) :=
  _root_.Fp.Primary.primaryCallsOld_nest_3 

theorem primaryCallsOld_nest_values  :
    primaryCallsOld (nestCfgOld 0) "x".toList = 11 ∧ primaryCallsOld (nestCfgOld 1) "f1(x)".toList = 71 ∧
    primaryCallsOld (nestCfgOld 2) "f2(f1(x))".toList = 191 ∧
    primaryCallsOld (nestCfgOld 3) "f3(f2(f1(x)))".toList = 431 :=
  _root_.Fp.Primary.primaryCallsOld_nest_values 

/-! ## `X_rejects_unbalanced` (C08): a text that is matched and whose children print balanced texts IS balanced -
    no parenthesis of the input is silently discarded or absorbed by the shape layer.  Corollaries of the token
    theorems (`net` is a function of `toks`). -/

theorem balanced_of_tokens {t s : Str} (h : toks t = toks s) (hb : net t = 0) : net s = 0 := by
  rw [← net_eq_of_toks h]; exact hb

theorem Function_Reference_rejects_unbalanced (o : Oracle Node) (ho : OracleTok o) (s : Str)
    (items : List (Item Node))
    (hm : (combiPlan specFunctionReference s).bind (runSlots o) = .ok items) (hs : SrmOK s)
    (hend : CallEndOK s)
    (hbal : ∀ n, Item.node n ∈ items → net (o.str n) = 0) : net s = 0 := by
  have h := _root_.Fp.Primary.Function_Reference_tostr_match_tokens_partial o ho s items hm hs hend
  first
    | (obtain ⟨t, _, h1, h2⟩ := h; exact balanced_of_tokens h1 (h2 hbal))
    | (obtain ⟨t, _, h1, h2, _⟩ := h; exact balanced_of_tokens h1 (h2 hbal))
    | (obtain ⟨t, _, h1, _, h2, _⟩ := h; exact balanced_of_tokens h1 (h2 hbal))

theorem Structure_Constructor_rejects_unbalanced (o : Oracle Node) (ho : OracleTok o) (s : Str)
    (items : List (Item Node))
    (hm : (combiPlan specStructureConstructor s).bind (runSlots o) = .ok items) (hs : SrmOK s)
    (hend : CallEndOK s)
    (hbal : ∀ n, Item.node n ∈ items → net (o.str n) = 0) : net s = 0 := by
  have h := _root_.Fp.Primary.Structure_Constructor_tostr_match_tokens_partial o ho s items hm hs hend
  first
    | (obtain ⟨t, _, h1, h2⟩ := h; exact balanced_of_tokens h1 (h2 hbal))
    | (obtain ⟨t, _, h1, h2, _⟩ := h; exact balanced_of_tokens h1 (h2 hbal))
    | (obtain ⟨t, _, h1, _, h2, _⟩ := h; exact balanced_of_tokens h1 (h2 hbal))

theorem Derived_Type_Spec_rejects_unbalanced (o : Oracle Node) (ho : OracleTok o) (s : Str)
    (items : List (Item Node))
    (hm : (combiPlan specDerivedTypeSpec s).bind (runSlots o) = .ok items) (hs : SrmOK s)
    (hend : CallEndOK s)
    (hbal : ∀ n, Item.node n ∈ items → net (o.str n) = 0) : net s = 0 := by
  have h := _root_.Fp.Primary.Derived_Type_Spec_tostr_match_tokens_partial o ho s items hm hs hend
  first
    | (obtain ⟨t, _, h1, h2⟩ := h; exact balanced_of_tokens h1 (h2 hbal))
    | (obtain ⟨t, _, h1, h2, _⟩ := h; exact balanced_of_tokens h1 (h2 hbal))
    | (obtain ⟨t, _, h1, _, h2, _⟩ := h; exact balanced_of_tokens h1 (h2 hbal))

theorem Array_Section_rejects_unbalanced (o : Oracle Node) (ho : OracleTok o) (s : Str)
    (items : List (Item Node))
    (hm : (combiPlan specArraySection s).bind (runSlots o) = .ok items) (hs : SrmOK s)
    (hend : CallEndOK s)
    (hbal : ∀ n, Item.node n ∈ items → net (o.str n) = 0) : net s = 0 := by
  have h := _root_.Fp.Primary.Array_Section_tostr_match_tokens_partial o ho s items hm hs hend
  first
    | (obtain ⟨t, _, h1, h2⟩ := h; exact balanced_of_tokens h1 (h2 hbal))
    | (obtain ⟨t, _, h1, h2, _⟩ := h; exact balanced_of_tokens h1 (h2 hbal))
    | (obtain ⟨t, _, h1, _, h2, _⟩ := h; exact balanced_of_tokens h1 (h2 hbal))

theorem Substring_rejects_unbalanced (o : Oracle Node) (ho : OracleTok o) (s : Str)
    (items : List (Item Node))
    (hm : (combiPlan specSubstring s).bind (runSlots o) = .ok items) (hs : SrmOK s)
    (hend : CallEndOK s)
    (hbal : ∀ n, Item.node n ∈ items → net (o.str n) = 0) : net s = 0 := by
  have h := _root_.Fp.Primary.Substring_tostr_match_tokens_partial o ho s items hm hs hend
  first
    | (obtain ⟨t, _, h1, h2⟩ := h; exact balanced_of_tokens h1 (h2 hbal))
    | (obtain ⟨t, _, h1, h2, _⟩ := h; exact balanced_of_tokens h1 (h2 hbal))
    | (obtain ⟨t, _, h1, _, h2, _⟩ := h; exact balanced_of_tokens h1 (h2 hbal))

theorem Intrinsic_Function_Reference_rejects_unbalanced (o : Oracle Node) (ho : OracleTok o)
    (iv : Str → Nat → SymTab.IntrRes) (s : Str) (items : List (Item Node))
    (hm : (planIntrinsic iv s).bind (runSlots o) = .ok items) (hs : SrmOK s)
    (hend : CallEndOK s)
    (hbal : ∀ n, Item.node n ∈ items → net (o.str n) = 0) : net s = 0 := by
  have h := _root_.Fp.Primary.Intrinsic_Function_Reference_tostr_match_tokens_partial o ho iv s items hm hs hend
  first
    | (obtain ⟨t, _, h1, h2⟩ := h; exact balanced_of_tokens h1 (h2 hbal))
    | (obtain ⟨t, _, h1, h2, _⟩ := h; exact balanced_of_tokens h1 (h2 hbal))
    | (obtain ⟨t, _, h1, _, h2, _⟩ := h; exact balanced_of_tokens h1 (h2 hbal))

theorem Parenthesis_rejects_unbalanced (o : Oracle Node) (ho : OracleTok o) (s : Str)
    (items : List (Item Node))
    (hm : (combiPlan specParenthesis s).bind (runSlots o) = .ok items)
    (hbal : ∀ n, Item.node n ∈ items → net (o.str n) = 0) : net s = 0 := by
  have h := _root_.Fp.Primary.Parenthesis_tostr_match_tokens o ho s items hm
  first
    | (obtain ⟨t, _, h1, h2⟩ := h; exact balanced_of_tokens h1 (h2 hbal))
    | (obtain ⟨t, _, h1, h2, _⟩ := h; exact balanced_of_tokens h1 (h2 hbal))
    | (obtain ⟨t, _, h1, _, h2, _⟩ := h; exact balanced_of_tokens h1 (h2 hbal))

theorem BracketBase_any_rejects_unbalanced (o : Oracle Node) (ho : OracleTok o) (b : Str) (c : ClassId)
    (req : Bool) (s : Str) (items : List (Item Node)) (hb : net (Combi.noSpaces b) = 0)
    (hm : (combiPlan (.bracket b (some c) req) s).bind (runSlots o) = .ok items)
    (hbal : ∀ n, Item.node n ∈ items → net (o.str n) = 0) : net s = 0 := by
  have h := _root_.Fp.Primary.bracketAny_tostr_match_tokens o ho b c req s items hb hm
  first
    | (obtain ⟨t, _, h1, h2⟩ := h; exact balanced_of_tokens h1 (h2 hbal))
    | (obtain ⟨t, _, h1, h2, _⟩ := h; exact balanced_of_tokens h1 (h2 hbal))
    | (obtain ⟨t, _, h1, _, h2, _⟩ := h; exact balanced_of_tokens h1 (h2 hbal))

theorem Array_Constructor_rejects_unbalanced (o : Oracle Node) (ho : OracleTok o) (s : Str)
    (items : List (Item Node)) (hm : (planArrayConstructor s).run o = .ok items)
    (hbal : ∀ n, Item.node n ∈ items → net (o.str n) = 0) : net s = 0 := by
  have h := _root_.Fp.Primary.Array_Constructor_tostr_match_tokens o ho s items hm
  first
    | (obtain ⟨t, _, h1, h2⟩ := h; exact balanced_of_tokens h1 (h2 hbal))
    | (obtain ⟨t, _, h1, h2, _⟩ := h; exact balanced_of_tokens h1 (h2 hbal))
    | (obtain ⟨t, _, h1, _, h2, _⟩ := h; exact balanced_of_tokens h1 (h2 hbal))

theorem Substring_Range_rejects_unbalanced (o : Oracle Node) (ho : OracleTok o) (s : Str)
    (items : List (Item Node))
    (hm : (combiPlan specSubstringRange s).bind (runSlots o) = .ok items) (hs : SrmOK s)
    (hbal : ∀ n, Item.node n ∈ items → net (o.str n) = 0) : net s = 0 := by
  have h := _root_.Fp.Primary.Substring_Range_tostr_match_tokens_partial o ho s items hm hs
  first
    | (obtain ⟨t, _, h1, h2⟩ := h; exact balanced_of_tokens h1 (h2 hbal))
    | (obtain ⟨t, _, h1, h2, _⟩ := h; exact balanced_of_tokens h1 (h2 hbal))
    | (obtain ⟨t, _, h1, _, h2, _⟩ := h; exact balanced_of_tokens h1 (h2 hbal))

theorem Bounds_Remapping_rejects_unbalanced (o : Oracle Node) (ho : OracleTok o) (s : Str)
    (items : List (Item Node))
    (hm : (combiPlan specBoundsRemapping s).bind (runSlots o) = .ok items) (hs : SrmOK s)
    (hbal : ∀ n, Item.node n ∈ items → net (o.str n) = 0) : net s = 0 := by
  have h := _root_.Fp.Primary.Bounds_Remapping_tostr_match_tokens_partial o ho s items hm hs
  first
    | (obtain ⟨t, _, h1, h2⟩ := h; exact balanced_of_tokens h1 (h2 hbal))
    | (obtain ⟨t, _, h1, h2, _⟩ := h; exact balanced_of_tokens h1 (h2 hbal))
    | (obtain ⟨t, _, h1, _, h2, _⟩ := h; exact balanced_of_tokens h1 (h2 hbal))

theorem Bounds_Spec_rejects_unbalanced (o : Oracle Node) (ho : OracleTok o) (s : Str)
    (items : List (Item Node))
    (hm : (combiPlan specBoundsSpec s).bind (runSlots o) = .ok items) (hs : SrmOK s)
    (hbal : ∀ n, Item.node n ∈ items → net (o.str n) = 0) : net s = 0 := by
  have h := _root_.Fp.Primary.Bounds_Spec_tostr_match_tokens_partial o ho s items hm hs
  first
    | (obtain ⟨t, _, h1, h2⟩ := h; exact balanced_of_tokens h1 (h2 hbal))
    | (obtain ⟨t, _, h1, h2, _⟩ := h; exact balanced_of_tokens h1 (h2 hbal))
    | (obtain ⟨t, _, h1, _, h2, _⟩ := h; exact balanced_of_tokens h1 (h2 hbal))

theorem SeparatorBase_noRhs_rejects_unbalanced (o : Oracle Node) (ho : OracleTok o) (a : ClassId) (ql qr : Bool)
    (s : Str) (items : List (Item Node))
    (hm : (combiPlan (.sep (some a) none ql qr) s).bind (runSlots o) = .ok items)
    (hs : SrmOK s)
    (hbal : ∀ n, Item.node n ∈ items → net (o.str n) = 0) : net s = 0 := by
  have h := _root_.Fp.Primary.sepNoRhs_tostr_match_tokens o ho a ql qr s items hm hs
  first
    | (obtain ⟨t, _, h1, h2⟩ := h; exact balanced_of_tokens h1 (h2 hbal))
    | (obtain ⟨t, _, h1, h2, _⟩ := h; exact balanced_of_tokens h1 (h2 hbal))
    | (obtain ⟨t, _, h1, _, h2, _⟩ := h; exact balanced_of_tokens h1 (h2 hbal))

theorem Component_Spec_rejects_unbalanced (o : Oracle Node) (ho : OracleTok o) (s : Str)
    (items : List (Item Node))
    (hm : (combiPlan specComponentSpec s).bind (runSlots o) = .ok items)
    (hbal : ∀ n, Item.node n ∈ items → net (o.str n) = 0) : net s = 0 := by
  have h := _root_.Fp.Primary.Component_Spec_tostr_match_tokens o ho s items hm
  first
    | (obtain ⟨t, _, h1, h2⟩ := h; exact balanced_of_tokens h1 (h2 hbal))
    | (obtain ⟨t, _, h1, h2, _⟩ := h; exact balanced_of_tokens h1 (h2 hbal))
    | (obtain ⟨t, _, h1, _, h2, _⟩ := h; exact balanced_of_tokens h1 (h2 hbal))

theorem Actual_Arg_Spec_rejects_unbalanced (o : Oracle Node) (ho : OracleTok o) (s : Str)
    (items : List (Item Node))
    (hm : (combiPlan specActualArgSpec s).bind (runSlots o) = .ok items)
    (hbal : ∀ n, Item.node n ∈ items → net (o.str n) = 0) : net s = 0 := by
  have h := _root_.Fp.Primary.Actual_Arg_Spec_tostr_match_tokens o ho s items hm
  first
    | (obtain ⟨t, _, h1, h2⟩ := h; exact balanced_of_tokens h1 (h2 hbal))
    | (obtain ⟨t, _, h1, h2, _⟩ := h; exact balanced_of_tokens h1 (h2 hbal))
    | (obtain ⟨t, _, h1, _, h2, _⟩ := h; exact balanced_of_tokens h1 (h2 hbal))

theorem List_rejects_unbalanced (o : Oracle Node) (ho : OracleTok o) (elem : ClassId)
    (s : Str) (items : List (Item Node))
    (hm : (combiPlan (specList elem) s).bind (runSlots o) = .ok items) (hs : SrmOK s)
    (hbal : ∀ n, Item.node n ∈ items → net (o.str n) = 0) : net s = 0 := by
  have h := _root_.Fp.Primary.List_tostr_match_tokens_partial o ho elem s items hm hs
  first
    | (obtain ⟨t, _, h1, h2⟩ := h; exact balanced_of_tokens h1 (h2 hbal))
    | (obtain ⟨t, _, h1, h2, _⟩ := h; exact balanced_of_tokens h1 (h2 hbal))
    | (obtain ⟨t, _, h1, _, h2, _⟩ := h; exact balanced_of_tokens h1 (h2 hbal))

theorem Ac_Value_List_rejects_unbalanced (o : Oracle Node) (ho : OracleTok o) (s : Str)
    (items : List (Item Node))
    (hm : (combiPlan (specList C.Ac_Value) s).bind (runSlots o) = .ok items) (hs : SrmOK s)
    (hbal : ∀ n, Item.node n ∈ items → net (o.str n) = 0) : net s = 0 := by
  have h := _root_.Fp.Primary.Ac_Value_List_tostr_match_tokens_partial o ho s items hm hs
  first
    | (obtain ⟨t, _, h1, h2⟩ := h; exact balanced_of_tokens h1 (h2 hbal))
    | (obtain ⟨t, _, h1, h2, _⟩ := h; exact balanced_of_tokens h1 (h2 hbal))
    | (obtain ⟨t, _, h1, _, h2, _⟩ := h; exact balanced_of_tokens h1 (h2 hbal))

theorem Component_Spec_List_rejects_unbalanced (o : Oracle Node) (ho : OracleTok o) (s : Str)
    (items : List (Item Node))
    (hm : (combiPlan (specList C.Component_Spec) s).bind (runSlots o) = .ok items) (hs : SrmOK s)
    (hbal : ∀ n, Item.node n ∈ items → net (o.str n) = 0) : net s = 0 := by
  have h := _root_.Fp.Primary.Component_Spec_List_tostr_match_tokens_partial o ho s items hm hs
  first
    | (obtain ⟨t, _, h1, h2⟩ := h; exact balanced_of_tokens h1 (h2 hbal))
    | (obtain ⟨t, _, h1, h2, _⟩ := h; exact balanced_of_tokens h1 (h2 hbal))
    | (obtain ⟨t, _, h1, _, h2, _⟩ := h; exact balanced_of_tokens h1 (h2 hbal))

theorem Actual_Arg_Spec_List_rejects_unbalanced (o : Oracle Node) (ho : OracleTok o) (s : Str)
    (items : List (Item Node))
    (hm : (combiPlan (specList C.Actual_Arg_Spec) s).bind (runSlots o) = .ok items) (hs : SrmOK s)
    (hbal : ∀ n, Item.node n ∈ items → net (o.str n) = 0) : net s = 0 := by
  have h := _root_.Fp.Primary.Actual_Arg_Spec_List_tostr_match_tokens_partial o ho s items hm hs
  first
    | (obtain ⟨t, _, h1, h2⟩ := h; exact balanced_of_tokens h1 (h2 hbal))
    | (obtain ⟨t, _, h1, h2, _⟩ := h; exact balanced_of_tokens h1 (h2 hbal))
    | (obtain ⟨t, _, h1, _, h2, _⟩ := h; exact balanced_of_tokens h1 (h2 hbal))

theorem Section_Subscript_List_rejects_unbalanced (o : Oracle Node) (ho : OracleTok o) (s : Str)
    (items : List (Item Node))
    (hm : (combiPlan (specList C.Section_Subscript) s).bind (runSlots o) = .ok items) (hs : SrmOK s)
    (hbal : ∀ n, Item.node n ∈ items → net (o.str n) = 0) : net s = 0 := by
  have h := _root_.Fp.Primary.Section_Subscript_List_tostr_match_tokens_partial o ho s items hm hs
  first
    | (obtain ⟨t, _, h1, h2⟩ := h; exact balanced_of_tokens h1 (h2 hbal))
    | (obtain ⟨t, _, h1, h2, _⟩ := h; exact balanced_of_tokens h1 (h2 hbal))
    | (obtain ⟨t, _, h1, _, h2, _⟩ := h; exact balanced_of_tokens h1 (h2 hbal))

theorem Bounds_Spec_List_rejects_unbalanced (o : Oracle Node) (ho : OracleTok o) (s : Str)
    (items : List (Item Node))
    (hm : (combiPlan (specList C.Bounds_Spec) s).bind (runSlots o) = .ok items) (hs : SrmOK s)
    (hbal : ∀ n, Item.node n ∈ items → net (o.str n) = 0) : net s = 0 := by
  have h := _root_.Fp.Primary.Bounds_Spec_List_tostr_match_tokens_partial o ho s items hm hs
  first
    | (obtain ⟨t, _, h1, h2⟩ := h; exact balanced_of_tokens h1 (h2 hbal))
    | (obtain ⟨t, _, h1, h2, _⟩ := h; exact balanced_of_tokens h1 (h2 hbal))
    | (obtain ⟨t, _, h1, _, h2, _⟩ := h; exact balanced_of_tokens h1 (h2 hbal))

theorem Bounds_Remapping_List_rejects_unbalanced (o : Oracle Node) (ho : OracleTok o) (s : Str)
    (items : List (Item Node))
    (hm : (combiPlan (specList C.Bounds_Remapping) s).bind (runSlots o) = .ok items) (hs : SrmOK s)
    (hbal : ∀ n, Item.node n ∈ items → net (o.str n) = 0) : net s = 0 := by
  have h := _root_.Fp.Primary.Bounds_Remapping_List_tostr_match_tokens_partial o ho s items hm hs
  first
    | (obtain ⟨t, _, h1, h2⟩ := h; exact balanced_of_tokens h1 (h2 hbal))
    | (obtain ⟨t, _, h1, h2, _⟩ := h; exact balanced_of_tokens h1 (h2 hbal))
    | (obtain ⟨t, _, h1, _, h2, _⟩ := h; exact balanced_of_tokens h1 (h2 hbal))

theorem SequenceBase_char_rejects_unbalanced (o : Oracle Node) (ho : OracleTok o) (ch : Char) (elem : ClassId)
    (s : Str) (items : List (Item Node)) (hw : isWord ch = false) (hsp : ch ≠ ' ')
    (hnp : net [ch] = 0)
    (hm : (combiPlan (.seq [ch] elem) s).bind (runSlots o) = .ok items) (hs : SrmOK s)
    (hbal : ∀ n, Item.node n ∈ items → net (o.str n) = 0) : net s = 0 := by
  have h := _root_.Fp.Primary.seqChar_tostr_match_tokens o ho ch elem s items hw hsp hnp hm hs
  first
    | (obtain ⟨t, _, h1, h2⟩ := h; exact balanced_of_tokens h1 (h2 hbal))
    | (obtain ⟨t, _, h1, h2, _⟩ := h; exact balanced_of_tokens h1 (h2 hbal))
    | (obtain ⟨t, _, h1, _, h2, _⟩ := h; exact balanced_of_tokens h1 (h2 hbal))

theorem Data_Ref_rejects_unbalanced (o : Oracle Node) (ho : OracleTok o) (s : Str)
    (items : List (Item Node))
    (hm : (planDataRef s).bind (runSlots o) = .ok items) (hs : SrmOK s)
    (hbal : ∀ n, Item.node n ∈ items → net (o.str n) = 0) : net s = 0 := by
  have h := _root_.Fp.Primary.Data_Ref_tostr_match_tokens_partial o ho s items hm hs
  first
    | (obtain ⟨t, _, h1, h2⟩ := h; exact balanced_of_tokens h1 (h2 hbal))
    | (obtain ⟨t, _, h1, h2, _⟩ := h; exact balanced_of_tokens h1 (h2 hbal))
    | (obtain ⟨t, _, h1, _, h2, _⟩ := h; exact balanced_of_tokens h1 (h2 hbal))

theorem Int_Literal_Constant_rejects_unbalanced (o : Oracle Node) (s : Str) (items : List (Item Node))
    (hm : (planIntLit s).bind (runSlots o) = .ok items)
    (hbal : ∀ i ∈ items, net (i.text o) = 0) : net s = 0 := by
  have h := _root_.Fp.Primary.Int_Literal_Constant_tostr_match_tokens o s items hm
  first
    | (obtain ⟨t, _, h1, h2⟩ := h; exact balanced_of_tokens h1 (h2 hbal))
    | (obtain ⟨t, _, h1, h2, _⟩ := h; exact balanced_of_tokens h1 (h2 hbal))
    | (obtain ⟨t, _, h1, _, h2, _⟩ := h; exact balanced_of_tokens h1 (h2 hbal))

theorem Signed_Int_Literal_Constant_rejects_unbalanced (o : Oracle Node) (s : Str)
    (items : List (Item Node)) (hm : (planSignedIntLit s).bind (runSlots o) = .ok items)
    (hbal : ∀ i ∈ items, net (i.text o) = 0) : net s = 0 := by
  have h := _root_.Fp.Primary.Signed_Int_Literal_Constant_tostr_match_tokens o s items hm
  first
    | (obtain ⟨t, _, h1, h2⟩ := h; exact balanced_of_tokens h1 (h2 hbal))
    | (obtain ⟨t, _, h1, h2, _⟩ := h; exact balanced_of_tokens h1 (h2 hbal))
    | (obtain ⟨t, _, h1, _, h2, _⟩ := h; exact balanced_of_tokens h1 (h2 hbal))

theorem Real_Literal_Constant_rejects_unbalanced (o : Oracle Node) (s : Str) (items : List (Item Node))
    (hm : (planRealLit s).bind (runSlots o) = .ok items)
    (hbal : ∀ i ∈ items, net (i.text o) = 0) : net s = 0 := by
  have h := _root_.Fp.Primary.Real_Literal_Constant_tostr_match_tokens o s items hm
  first
    | (obtain ⟨t, _, h1, h2⟩ := h; exact balanced_of_tokens h1 (h2 hbal))
    | (obtain ⟨t, _, h1, h2, _⟩ := h; exact balanced_of_tokens h1 (h2 hbal))
    | (obtain ⟨t, _, h1, _, h2, _⟩ := h; exact balanced_of_tokens h1 (h2 hbal))

theorem Signed_Real_Literal_Constant_rejects_unbalanced (o : Oracle Node) (s : Str)
    (items : List (Item Node)) (hm : (planSignedRealLit s).bind (runSlots o) = .ok items)
    (hbal : ∀ i ∈ items, net (i.text o) = 0) : net s = 0 := by
  have h := _root_.Fp.Primary.Signed_Real_Literal_Constant_tostr_match_tokens o s items hm
  first
    | (obtain ⟨t, _, h1, h2⟩ := h; exact balanced_of_tokens h1 (h2 hbal))
    | (obtain ⟨t, _, h1, h2, _⟩ := h; exact balanced_of_tokens h1 (h2 hbal))
    | (obtain ⟨t, _, h1, _, h2, _⟩ := h; exact balanced_of_tokens h1 (h2 hbal))

theorem Logical_Literal_Constant_rejects_unbalanced (o : Oracle Node) (s : Str)
    (items : List (Item Node)) (hm : (planLogicalLit s).bind (runSlots o) = .ok items)
    (hbal : ∀ i ∈ items, net (i.text o) = 0) : net s = 0 := by
  have h := _root_.Fp.Primary.Logical_Literal_Constant_tostr_match_tokens o s items hm
  first
    | (obtain ⟨t, _, h1, h2⟩ := h; exact balanced_of_tokens h1 (h2 hbal))
    | (obtain ⟨t, _, h1, h2, _⟩ := h; exact balanced_of_tokens h1 (h2 hbal))
    | (obtain ⟨t, _, h1, _, h2, _⟩ := h; exact balanced_of_tokens h1 (h2 hbal))

theorem Name_rejects_unbalanced (o : Oracle Node) (s : Str) (items : List (Item Node))
    (hm : (planName s).bind (runSlots o) = .ok items)
    (hbal : ∀ i ∈ items, net (i.text o) = 0) : net s = 0 := by
  have h := _root_.Fp.Primary.Name_tostr_match_tokens o s items hm
  first
    | (obtain ⟨t, _, h1, h2⟩ := h; exact balanced_of_tokens h1 (h2 hbal))
    | (obtain ⟨t, _, h1, h2, _⟩ := h; exact balanced_of_tokens h1 (h2 hbal))
    | (obtain ⟨t, _, h1, _, h2, _⟩ := h; exact balanced_of_tokens h1 (h2 hbal))

theorem Type_Name_rejects_unbalanced (o : Oracle Node) (s : Str) (items : List (Item Node))
    (hm : (planTypeName s).bind (runSlots o) = .ok items)
    (hbal : ∀ i ∈ items, net (i.text o) = 0) : net s = 0 := by
  have h := _root_.Fp.Primary.Type_Name_tostr_match_tokens o s items hm
  first
    | (obtain ⟨t, _, h1, h2⟩ := h; exact balanced_of_tokens h1 (h2 hbal))
    | (obtain ⟨t, _, h1, h2, _⟩ := h; exact balanced_of_tokens h1 (h2 hbal))
    | (obtain ⟨t, _, h1, _, h2, _⟩ := h; exact balanced_of_tokens h1 (h2 hbal))

theorem Binary_Constant_rejects_unbalanced (o : Oracle Node) (s : Str) (items : List (Item Node))
    (hm : (planBinary s).bind (runSlots o) = .ok items)
    (hbal : ∀ i ∈ items, net (i.text o) = 0) : net s = 0 := by
  have h := _root_.Fp.Primary.Binary_Constant_tostr_match_tokens o s items hm
  first
    | (obtain ⟨t, _, h1, h2⟩ := h; exact balanced_of_tokens h1 (h2 hbal))
    | (obtain ⟨t, _, h1, h2, _⟩ := h; exact balanced_of_tokens h1 (h2 hbal))
    | (obtain ⟨t, _, h1, _, h2, _⟩ := h; exact balanced_of_tokens h1 (h2 hbal))

theorem Octal_Constant_rejects_unbalanced (o : Oracle Node) (s : Str) (items : List (Item Node))
    (hm : (planOctal s).bind (runSlots o) = .ok items)
    (hbal : ∀ i ∈ items, net (i.text o) = 0) : net s = 0 := by
  have h := _root_.Fp.Primary.Octal_Constant_tostr_match_tokens o s items hm
  first
    | (obtain ⟨t, _, h1, h2⟩ := h; exact balanced_of_tokens h1 (h2 hbal))
    | (obtain ⟨t, _, h1, h2, _⟩ := h; exact balanced_of_tokens h1 (h2 hbal))
    | (obtain ⟨t, _, h1, _, h2, _⟩ := h; exact balanced_of_tokens h1 (h2 hbal))

theorem Hex_Constant_rejects_unbalanced (o : Oracle Node) (s : Str) (items : List (Item Node))
    (hm : (planHex s).bind (runSlots o) = .ok items)
    (hbal : ∀ i ∈ items, net (i.text o) = 0) : net s = 0 := by
  have h := _root_.Fp.Primary.Hex_Constant_tostr_match_tokens o s items hm
  first
    | (obtain ⟨t, _, h1, h2⟩ := h; exact balanced_of_tokens h1 (h2 hbal))
    | (obtain ⟨t, _, h1, h2, _⟩ := h; exact balanced_of_tokens h1 (h2 hbal))
    | (obtain ⟨t, _, h1, _, h2, _⟩ := h; exact balanced_of_tokens h1 (h2 hbal))

theorem Subscript_Triplet_rejects_unbalanced (o : Oracle Node) (ho : OracleTok o) (s : Str)
    (items : List (Item Node)) (hm : (planSubscriptTriplet s).bind (runSlots o) = .ok items)
    (hs : SrmOK s) (hc : TripletStrideOK s)
    (hbal : ∀ i ∈ items, net (i.text o) = 0) : net s = 0 := by
  have h := _root_.Fp.Primary.Subscript_Triplet_tostr_match_tokens_partial o ho s items hm hs hc
  first
    | (obtain ⟨t, _, h1, h2⟩ := h; exact balanced_of_tokens h1 (h2 hbal))
    | (obtain ⟨t, _, h1, h2, _⟩ := h; exact balanced_of_tokens h1 (h2 hbal))
    | (obtain ⟨t, _, h1, _, h2, _⟩ := h; exact balanced_of_tokens h1 (h2 hbal))

theorem Alt_Return_Spec_rejects_unbalanced (o : Oracle Node) (ho : OracleTok o) (s : Str)
    (items : List (Item Node)) (hm : (planAltReturnSpec s).bind (runSlots o) = .ok items)
    (hbal : ∀ i ∈ items, net (i.text o) = 0) : net s = 0 := by
  have h := _root_.Fp.Primary.Alt_Return_Spec_tostr_match_tokens o ho s items hm
  first
    | (obtain ⟨t, _, h1, h2⟩ := h; exact balanced_of_tokens h1 (h2 hbal))
    | (obtain ⟨t, _, h1, h2, _⟩ := h; exact balanced_of_tokens h1 (h2 hbal))
    | (obtain ⟨t, _, h1, _, h2, _⟩ := h; exact balanced_of_tokens h1 (h2 hbal))

theorem Complex_Literal_Constant_rejects_unbalanced (o : Oracle Node) (ho : OracleTok o) (s : Str)
    (items : List (Item Node)) (hm : (planComplex s).bind (runSlots o) = .ok items)
    (hbal : ∀ i ∈ items, net (i.text o) = 0) : net s = 0 := by
  have h := _root_.Fp.Primary.Complex_Literal_Constant_tostr_match_tokens o ho s items hm
  first
    | (obtain ⟨t, _, h1, h2⟩ := h; exact balanced_of_tokens h1 (h2 hbal))
    | (obtain ⟨t, _, h1, h2, _⟩ := h; exact balanced_of_tokens h1 (h2 hbal))
    | (obtain ⟨t, _, h1, _, h2, _⟩ := h; exact balanced_of_tokens h1 (h2 hbal))

theorem Ac_Spec_rejects_unbalanced (o : Oracle Node) (ho : OracleTok o) (s : Str)
    (items : List (Item Node)) (hm : (planAcSpec s).bind (runSlots o) = .ok items)
    (hs : SrmOK s)
    (hbal : ∀ i ∈ items, net (i.text o) = 0) : net s = 0 := by
  have h := _root_.Fp.Primary.Ac_Spec_tostr_match_tokens o ho s items hm hs
  first
    | (obtain ⟨t, _, h1, h2⟩ := h; exact balanced_of_tokens h1 (h2 hbal))
    | (obtain ⟨t, _, h1, h2, _⟩ := h; exact balanced_of_tokens h1 (h2 hbal))
    | (obtain ⟨t, _, h1, _, h2, _⟩ := h; exact balanced_of_tokens h1 (h2 hbal))

theorem Ac_Implied_Do_rejects_unbalanced (o : Oracle Node) (ho : OracleTok o) (s : Str)
    (items : List (Item Node)) (hm : (planAcImpliedDo s).bind (runSlots o) = .ok items)
    (hs : SrmOK (strip (inner s)))
    (hbal : ∀ i ∈ items, net (i.text o) = 0) : net s = 0 := by
  have h := _root_.Fp.Primary.Ac_Implied_Do_tostr_match_tokens o ho s items hm hs
  first
    | (obtain ⟨t, _, h1, h2⟩ := h; exact balanced_of_tokens h1 (h2 hbal))
    | (obtain ⟨t, _, h1, h2, _⟩ := h; exact balanced_of_tokens h1 (h2 hbal))
    | (obtain ⟨t, _, h1, _, h2, _⟩ := h; exact balanced_of_tokens h1 (h2 hbal))

theorem Ac_Implied_Do_Control_rejects_unbalanced (o : Oracle Node) (ho : OracleTok o) (s : Str)
    (items : List (Item Node)) (hm : (planAcImpliedDoControl s).bind (runSlots o) = .ok items)
    (hs : SrmOK (acControlTail s))
    (hbal : ∀ i ∈ items, net (i.text o) = 0) : net s = 0 := by
  have h := _root_.Fp.Primary.Ac_Implied_Do_Control_tostr_match_tokens o ho s items hm hs
  first
    | (obtain ⟨t, _, h1, h2⟩ := h; exact balanced_of_tokens h1 (h2 hbal))
    | (obtain ⟨t, _, h1, h2, _⟩ := h; exact balanced_of_tokens h1 (h2 hbal))
    | (obtain ⟨t, _, h1, _, h2, _⟩ := h; exact balanced_of_tokens h1 (h2 hbal))

theorem BinaryOpBase_str_rejects_unbalanced (o : Oracle Node) (ho : OracleTok o) (lhsC rhsC : ClassId)
    (c : Char) (hc : isWord c = false) (right : Bool) (s : Str) (items : List (Item Node))
    (hm : (planBinStr lhsC [c] rhsC right s).bind (runSlots o) = .ok items) (hs : SrmOK s)
    (hbal : ∀ i ∈ items, net (i.text o) = 0) : net s = 0 := by
  have h := _root_.Fp.Primary.binStr_tostr_match_tokens o ho lhsC rhsC c hc right s items hm hs
  first
    | (obtain ⟨t, _, h1, h2⟩ := h; exact balanced_of_tokens h1 (h2 hbal))
    | (obtain ⟨t, _, h1, h2, _⟩ := h; exact balanced_of_tokens h1 (h2 hbal))
    | (obtain ⟨t, _, h1, _, h2, _⟩ := h; exact balanced_of_tokens h1 (h2 hbal))

theorem BinaryOpBase_percent_rejects_unbalanced (o : Oracle Node) (ho : OracleTok o) (lhsC rhsC : ClassId)
    (s : Str) (items : List (Item Node))
    (hm : (planBinPercent lhsC rhsC s).bind (runSlots o) = .ok items) (hs : SrmOK s)
    (hbal : ∀ i ∈ items, net (i.text o) = 0) : net s = 0 := by
  have h := _root_.Fp.Primary.binPercent_tostr_match_tokens o ho lhsC rhsC s items hm hs
  first
    | (obtain ⟨t, _, h1, h2⟩ := h; exact balanced_of_tokens h1 (h2 hbal))
    | (obtain ⟨t, _, h1, h2, _⟩ := h; exact balanced_of_tokens h1 (h2 hbal))
    | (obtain ⟨t, _, h1, _, h2, _⟩ := h; exact balanced_of_tokens h1 (h2 hbal))

theorem Assignment_Stmt_rejects_unbalanced (o : Oracle Node) (ho : OracleTok o) (s : Str)
    (items : List (Item Node)) (hm : (planAssignment s).bind (runSlots o) = .ok items)
    (hs : SrmOK s)
    (hbal : ∀ i ∈ items, net (i.text o) = 0) : net s = 0 := by
  have h := _root_.Fp.Primary.Assignment_Stmt_tostr_match_tokens o ho s items hm hs
  first
    | (obtain ⟨t, _, h1, h2⟩ := h; exact balanced_of_tokens h1 (h2 hbal))
    | (obtain ⟨t, _, h1, h2, _⟩ := h; exact balanced_of_tokens h1 (h2 hbal))
    | (obtain ⟨t, _, h1, _, h2, _⟩ := h; exact balanced_of_tokens h1 (h2 hbal))

theorem Proc_Component_Ref_rejects_unbalanced (o : Oracle Node) (ho : OracleTok o) (s : Str)
    (items : List (Item Node)) (hm : (planProcComponentRef s).bind (runSlots o) = .ok items)
    (hs : SrmOK s)
    (hbal : ∀ i ∈ items, net (i.text o) = 0) : net s = 0 := by
  have h := _root_.Fp.Primary.Proc_Component_Ref_tostr_match_tokens o ho s items hm hs
  first
    | (obtain ⟨t, _, h1, h2⟩ := h; exact balanced_of_tokens h1 (h2 hbal))
    | (obtain ⟨t, _, h1, h2, _⟩ := h; exact balanced_of_tokens h1 (h2 hbal))
    | (obtain ⟨t, _, h1, _, h2, _⟩ := h; exact balanced_of_tokens h1 (h2 hbal))

theorem Data_Pointer_Object_rejects_unbalanced (o : Oracle Node) (ho : OracleTok o) (s : Str)
    (items : List (Item Node)) (hm : (planDataPointerObject s).bind (runSlots o) = .ok items)
    (hs : SrmOK s)
    (hbal : ∀ i ∈ items, net (i.text o) = 0) : net s = 0 := by
  have h := _root_.Fp.Primary.Data_Pointer_Object_tostr_match_tokens o ho s items hm hs
  first
    | (obtain ⟨t, _, h1, h2⟩ := h; exact balanced_of_tokens h1 (h2 hbal))
    | (obtain ⟨t, _, h1, h2, _⟩ := h; exact balanced_of_tokens h1 (h2 hbal))
    | (obtain ⟨t, _, h1, _, h2, _⟩ := h; exact balanced_of_tokens h1 (h2 hbal))

theorem Type_Param_Inquiry_rejects_unbalanced (o : Oracle Node) (ho : OracleTok o) (s : Str)
    (items : List (Item Node)) (hm : (planTypeParamInquiry s).bind (runSlots o) = .ok items)
    (hs : SrmOK s)
    (hbal : ∀ i ∈ items, net (i.text o) = 0) : net s = 0 := by
  have h := _root_.Fp.Primary.Type_Param_Inquiry_tostr_match_tokens o ho s items hm hs
  first
    | (obtain ⟨t, _, h1, h2⟩ := h; exact balanced_of_tokens h1 (h2 hbal))
    | (obtain ⟨t, _, h1, h2, _⟩ := h; exact balanced_of_tokens h1 (h2 hbal))
    | (obtain ⟨t, _, h1, _, h2, _⟩ := h; exact balanced_of_tokens h1 (h2 hbal))

theorem Procedure_Designator_rejects_unbalanced (o : Oracle Node) (ho : OracleTok o) (s : Str)
    (items : List (Item Node)) (hm : (planProcedureDesignator s).bind (runSlots o) = .ok items)
    (hs : SrmOK s)
    (hbal : ∀ i ∈ items, net (i.text o) = 0) : net s = 0 := by
  have h := _root_.Fp.Primary.Procedure_Designator_tostr_match_tokens o ho s items hm hs
  first
    | (obtain ⟨t, _, h1, h2⟩ := h; exact balanced_of_tokens h1 (h2 hbal))
    | (obtain ⟨t, _, h1, h2, _⟩ := h; exact balanced_of_tokens h1 (h2 hbal))
    | (obtain ⟨t, _, h1, _, h2, _⟩ := h; exact balanced_of_tokens h1 (h2 hbal))

theorem Pointer_Assignment_Stmt_rejects_unbalanced (o : Oracle Node) (ho : OracleTok o) (s : Str)
    (items : List (Item Node)) (hm : (planPointerAssignment s).run o = .ok items)
    (hs : SrmOK s)
    (hbal : ∀ i ∈ items, net (i.text o) = 0) : net s = 0 := by
  have h := _root_.Fp.Primary.Pointer_Assignment_Stmt_tostr_match_tokens o ho s items hm hs
  first
    | (obtain ⟨t, _, h1, h2⟩ := h; exact balanced_of_tokens h1 (h2 hbal))
    | (obtain ⟨t, _, h1, h2, _⟩ := h; exact balanced_of_tokens h1 (h2 hbal))
    | (obtain ⟨t, _, h1, _, h2, _⟩ := h; exact balanced_of_tokens h1 (h2 hbal))

theorem Char_Literal_Constant_rejects_unbalanced (o : Oracle Node) (s : Str)
    (items : List (Item Node)) (hm : (planCharLit s).bind (runSlots o) = .ok items)
    (hs : SrmOK (strip s)) (hk : CharKindPlain s)
    (hbal : ∀ i ∈ items, net (i.text o) = 0) : net s = 0 := by
  have h := _root_.Fp.Primary.Char_Literal_Constant_tostr_match_tokens_partial o s items hm hs hk
  first
    | (obtain ⟨t, _, h1, h2⟩ := h; exact balanced_of_tokens h1 (h2 hbal))
    | (obtain ⟨t, _, h1, h2, _⟩ := h; exact balanced_of_tokens h1 (h2 hbal))
    | (obtain ⟨t, _, h1, _, h2, _⟩ := h; exact balanced_of_tokens h1 (h2 hbal))


/-! ## non-vacuity / regression examples through the whole `Base.__new__` model -/

/-- a toy external function: `Expr` / `Int_Expr` accept plain names only (13 / 12 chain calls + the alternatives are NOT
    simulated here: the count of an external call is what the function says) -/
def toyExt : Ext := fun c _ s =>
  if isExprClass c && isName s then (.ok { cls := c, text := s, shape := s }, 1) else (.noMatch, 1)

def toyCfg : Cfg :=
  { std := .f2003, iv := fun _ _ => .noMatch,
    table := tableOf (realOf .f2003) Generated.allClasses Generated.PrimaryTables.nameIds, ext := toyExt }

/-- `Part_Ref.match` does not accept a trailing `)` : `a(1))` is handed on with the parenthesis (the child rejects it) -/
example : combiPlan specPartRef "a(x))".toList
    = .ok [.child C.Part_Name "a".toList, .child C.Section_Subscript_List "x)".toList] := by decide +kernel

/-- `[ … ]` and `(/ … /)` keep their spelling (BracketBase only lstrips the content); an empty constructor is no match -/
example : (planArrayConstructor "[ x ]".toList).first = .noMatch ∧
    (planArrayConstructor "[ x ]".toList).second = some (.ok [.str "[".toList, .child C.Ac_Spec "x ".toList, .str "]".toList]) ∧
    (planArrayConstructor "(/ x /)".toList).first = .ok [.str "(/".toList, .child C.Ac_Spec "x ".toList, .str "/)".toList] ∧
    (planArrayConstructor "[ ]".toList).second = some .noMatch := by decide +kernel

/-- the keyword of an actual argument is split at the FIRST `=` -/
example : combiPlan specActualArgSpec "k = a == b".toList
    = .ok [.child C.Keyword "k".toList, .child C.Actual_Arg "a == b".toList] := by decide +kernel

/-- `x = (/ (a <= b) /)` : the implied-do matcher returns None (no comma before the `=`), no exception -/
example : planAcImpliedDo "(a <= b)".toList = .noMatch := by decide +kernel

/- `Primary("f(x)")` through the whole `Base.__new__` model: the reference is a `Part_Ref`; 20 calls when the external
    `Int_Expr` costs 1 (12 up to and including `Primary`'s ten failing alternatives and Name, 1 for `Data_Ref` whose `match`
    now returns None at once, 7 for the ONE `Part_Ref`); the model of the code before /repo 2a636f5 makes 27 (`Part_Ref`
    TWICE: once inside `Data_Ref.match`, once as its subclass) -/
set_option maxRecDepth 100000 in
example : ((construct toyCfg C.Primary "f(x)".toList).res.map (·.cls)) = .ok C.Part_Ref ∧
    (construct toyCfg C.Primary "f(x)".toList).calls = 20 ∧
    (constructOld toyCfg C.Primary "f(x)".toList).calls = 27 := by decide +kernel


end Fp.Primary.Props

#print axioms Fp.Primary.Props.Part_Ref_tostr_match_tokens_partial
#print axioms Fp.Primary.Props.Function_Reference_tostr_match_tokens_partial
#print axioms Fp.Primary.Props.Structure_Constructor_tostr_match_tokens_partial
#print axioms Fp.Primary.Props.Derived_Type_Spec_tostr_match_tokens_partial
#print axioms Fp.Primary.Props.Array_Section_tostr_match_tokens_partial
#print axioms Fp.Primary.Props.Substring_tostr_match_tokens_partial
#print axioms Fp.Primary.Props.Intrinsic_Function_Reference_tostr_match_tokens_partial
#print axioms Fp.Primary.Props.CallBase_rejects_unbalanced
#print axioms Fp.Primary.Props.Part_Ref_rejects_unbalanced
#print axioms Fp.Primary.Props.Part_Ref_rejects_unbalanced_any
#print axioms Fp.Primary.Props.Part_Ref_stray_paren_witness
#print axioms Fp.Primary.Props.Part_Ref_stray_paren_blank_witness
#print axioms Fp.Primary.Props.Parenthesis_tostr_match_tokens
#print axioms Fp.Primary.Props.BracketBase_any_tostr_match_tokens
#print axioms Fp.Primary.Props.Array_Constructor_tostr_match_tokens
#print axioms Fp.Primary.Props.Substring_Range_tostr_match_tokens_partial
#print axioms Fp.Primary.Props.Bounds_Remapping_tostr_match_tokens_partial
#print axioms Fp.Primary.Props.Bounds_Spec_tostr_match_tokens_partial
#print axioms Fp.Primary.Props.SeparatorBase_noRhs_tostr_match_tokens
#print axioms Fp.Primary.Props.Component_Spec_tostr_match_tokens
#print axioms Fp.Primary.Props.Actual_Arg_Spec_tostr_match_tokens
#print axioms Fp.Primary.Props.List_tostr_match_tokens_partial
#print axioms Fp.Primary.Props.Ac_Value_List_tostr_match_tokens_partial
#print axioms Fp.Primary.Props.Component_Spec_List_tostr_match_tokens_partial
#print axioms Fp.Primary.Props.Actual_Arg_Spec_List_tostr_match_tokens_partial
#print axioms Fp.Primary.Props.Section_Subscript_List_tostr_match_tokens_partial
#print axioms Fp.Primary.Props.Bounds_Spec_List_tostr_match_tokens_partial
#print axioms Fp.Primary.Props.Bounds_Remapping_List_tostr_match_tokens_partial
#print axioms Fp.Primary.Props.SequenceBase_char_tostr_match_tokens
#print axioms Fp.Primary.Props.Data_Ref_tostr_match_tokens_partial
#print axioms Fp.Primary.Props.NumberBase_exact
#print axioms Fp.Primary.Props.NumberBase_kind_case_kept
#print axioms Fp.Primary.Props.Int_Literal_Constant_tostr_match_tokens
#print axioms Fp.Primary.Props.Signed_Int_Literal_Constant_tostr_match_tokens
#print axioms Fp.Primary.Props.Real_Literal_Constant_tostr_match_tokens
#print axioms Fp.Primary.Props.Signed_Real_Literal_Constant_tostr_match_tokens
#print axioms Fp.Primary.Props.Logical_Literal_Constant_tostr_match_tokens
#print axioms Fp.Primary.Props.NumberBase_case_witness
#print axioms Fp.Primary.Props.Int_Literal_Constant_drops_inner_blank
#print axioms Fp.Primary.Props.Name_tostr_exact
#print axioms Fp.Primary.Props.Name_tostr_match_tokens
#print axioms Fp.Primary.Props.Type_Name_tostr_match_tokens
#print axioms Fp.Primary.Props.Boz_tostr_exact
#print axioms Fp.Primary.Props.Binary_Constant_tostr_match_tokens
#print axioms Fp.Primary.Props.Octal_Constant_tostr_match_tokens
#print axioms Fp.Primary.Props.Hex_Constant_tostr_match_tokens
#print axioms Fp.Primary.Props.Subscript_Triplet_tostr_match_tokens_partial
#print axioms Fp.Primary.Props.Subscript_Triplet_drops_colon
#print axioms Fp.Primary.Props.Alt_Return_Spec_tostr_match_tokens
#print axioms Fp.Primary.Props.Complex_Literal_Constant_tostr_match_tokens
#print axioms Fp.Primary.Props.Ac_Spec_tostr_match_tokens
#print axioms Fp.Primary.Props.Ac_Implied_Do_tostr_match_tokens
#print axioms Fp.Primary.Props.Ac_Implied_Do_Control_tostr_match_tokens
#print axioms Fp.Primary.Props.BinaryOpBase_str_tostr_match_tokens
#print axioms Fp.Primary.Props.BinaryOpBase_percent_tostr_match_tokens
#print axioms Fp.Primary.Props.Assignment_Stmt_tostr_match_tokens
#print axioms Fp.Primary.Props.Proc_Component_Ref_tostr_match_tokens
#print axioms Fp.Primary.Props.Data_Pointer_Object_tostr_match_tokens
#print axioms Fp.Primary.Props.Type_Param_Inquiry_tostr_match_tokens
#print axioms Fp.Primary.Props.Procedure_Designator_tostr_match_tokens
#print axioms Fp.Primary.Props.Pointer_Assignment_Stmt_tostr_match_tokens
#print axioms Fp.Primary.Props.Char_Literal_Constant_canonical
#print axioms Fp.Primary.Props.Char_Literal_Constant_prints_placeholder
#print axioms Fp.Primary.Props.match_total
#print axioms Fp.Primary.Props.Intrinsic_Function_Reference_match_total
#print axioms Fp.Primary.Props.match_total_closed
#print axioms Fp.Primary.Props.Complex_Literal_Constant_no_ValueError
#print axioms Fp.Primary.Props.tostr_total
#print axioms Fp.Primary.Props.Name_match_tostr_fixpoint
#print axioms Fp.Primary.Props.Type_Name_match_tostr_fixpoint_partial
#print axioms Fp.Primary.Props.Type_Name_fixpoint_fails
#print axioms Fp.Primary.Props.Boz_match_tostr_fixpoint
#print axioms Fp.Primary.Props.Binary_Constant_match_tostr_fixpoint
#print axioms Fp.Primary.Props.Octal_Constant_match_tostr_fixpoint
#print axioms Fp.Primary.Props.Hex_Constant_match_tostr_fixpoint
#print axioms Fp.Primary.Props.Int_Literal_Constant_match_tostr_fixpoint
#print axioms Fp.Primary.Props.Alt_Return_Spec_match_tostr_fixpoint
#print axioms Fp.Primary.Props.Signed_Int_Literal_Constant_match_tostr_fixpoint
#print axioms Fp.Primary.Props.Real_Literal_Constant_match_tostr_fixpoint
#print axioms Fp.Primary.Props.Signed_Real_Literal_Constant_match_tostr_fixpoint
#print axioms Fp.Primary.Props.Logical_Literal_Constant_match_tostr_fixpoint
#print axioms Fp.Primary.Props.NumberBase_fixpoint
#print axioms Fp.Primary.Props.Char_Literal_Constant_tostr_match_tokens_partial
#print axioms Fp.Primary.Props.Char_Literal_Constant_tostr_exact_partial
#print axioms Fp.Primary.Props.Char_Literal_Constant_kind_plain_necessary
#print axioms Fp.Primary.Props.primaryAlternatives_f2003
#print axioms Fp.Primary.Props.primaryAlternatives_f2008
#print axioms Fp.Primary.Props.realTable_f2008_eq_f2003
#print axioms Fp.Primary.Props.subs_Designator
#print axioms Fp.Primary.Props.subs_Variable
#print axioms Fp.Primary.Props.subs_Data_Ref
#print axioms Fp.Primary.Props.subs_Part_Ref
#print axioms Fp.Primary.Props.subs_Array_Section
#print axioms Fp.Primary.Props.subs_Constant
#print axioms Fp.Primary.Props.subs_Section_Subscript
#print axioms Fp.Primary.Props.subs_Actual_Arg
#print axioms Fp.Primary.Props.subs_Component_Data_Source
#print axioms Fp.Primary.Props.subs_Parent_String
#print axioms Fp.Primary.Props.subs_Procedure_Designator
#print axioms Fp.Primary.Props.subs_Level_1_Expr
#print axioms Fp.Primary.Props.subLoop_first_ok
#print axioms Fp.Primary.Props.subLoop_raises_wins
#print axioms Fp.Primary.Props.subLoop_noMatch_iff
#print axioms Fp.Primary.Props.subLoop_answer_iff
#print axioms Fp.Primary.Props.new_Data_Ref
#print axioms Fp.Primary.Props.primary_choice
#print axioms Fp.Primary.Props.primary_choice_construct
#print axioms Fp.Primary.Props.primary_choice_winner
#print axioms Fp.Primary.Props.primary_noMatch_iff
#print axioms Fp.Primary.Props.primary_choice_reference
#print axioms Fp.Primary.Props.primary_choice_function_reference
#print axioms Fp.Primary.Props.primary_choice_inst_part_ref
#print axioms Fp.Primary.Props.primary_choice_inst_real_arg_is_structure_constructor
#print axioms Fp.Primary.Props.primary_choice_inst_no_arg_is_structure_constructor
#print axioms Fp.Primary.Props.primary_choice_inst_keyword_arg_is_structure_constructor
#print axioms Fp.Primary.Props.primary_choice_inst_function_reference
#print axioms Fp.Primary.Props.primary_choice_inst_array_section
#print axioms Fp.Primary.Props.primary_choice_inst_substring
#print axioms Fp.Primary.Props.primary_choice_inst_intrinsic
#print axioms Fp.Primary.Props.primary_choice_inst_intrinsic_exception_wins
#print axioms Fp.Primary.Props.primary_choice_inst_data_ref
#print axioms Fp.Primary.Props.primary_choice_inst_parenthesis
#print axioms Fp.Primary.Props.refCalls_nest_succ
#print axioms Fp.Primary.Props.refCalls_nest_closed
#print axioms Fp.Primary.Props.refCalls_nest_linear
#print axioms Fp.Primary.Props.refCalls_nest_values
#print axioms Fp.Primary.Props.refCalls_linear_in_size
#print axioms Fp.Primary.Props.refCalls_ge_size
#print axioms Fp.Primary.Props.refCalls_flat
#print axioms Fp.Primary.Props.refCalls_flat_linear
#print axioms Fp.Primary.Props.refCalls_shallow_linear
#print axioms Fp.Primary.Props.primaryCalls_nest_0
#print axioms Fp.Primary.Props.primaryCalls_nest_1
#print axioms Fp.Primary.Props.primaryCalls_nest_2
#print axioms Fp.Primary.Props.primaryCalls_nest_3
#print axioms Fp.Primary.Props.primaryCalls_nest_4
#print axioms Fp.Primary.Props.primaryCalls_nest_values
#print axioms Fp.Primary.Props.primaryCalls_flat_1
#print axioms Fp.Primary.Props.primaryCalls_flat_2
#print axioms Fp.Primary.Props.primaryCalls_flat_3
#print axioms Fp.Primary.Props.primaryCalls_flat_0_differs
#print axioms Fp.Primary.Props.construct_nest_2_shape
#print axioms Fp.Primary.Props.Data_Ref_single_part_no_call
#print axioms Fp.Primary.Props.refCallsOld_nest_succ
#print axioms Fp.Primary.Props.refCallsOld_nest_closed
#print axioms Fp.Primary.Props.refCallsOld_nest_doubles
#print axioms Fp.Primary.Props.refCallsOld_nest_not_polynomial
#print axioms Fp.Primary.Props.refCallsOld_ge_two_pow_depth
#print axioms Fp.Primary.Props.refCallsOld_nest_values
#print axioms Fp.Primary.Props.refCallsOld_gt_refCalls
#print axioms Fp.Primary.Props.refCalls_le_refCallsOld
#print axioms Fp.Primary.Props.primaryCallsOld_nest_0
#print axioms Fp.Primary.Props.primaryCallsOld_nest_1
#print axioms Fp.Primary.Props.primaryCallsOld_nest_2
#print axioms Fp.Primary.Props.primaryCallsOld_nest_3
#print axioms Fp.Primary.Props.primaryCallsOld_nest_values
#print axioms Fp.Primary.Props.Function_Reference_rejects_unbalanced
#print axioms Fp.Primary.Props.Structure_Constructor_rejects_unbalanced
#print axioms Fp.Primary.Props.Derived_Type_Spec_rejects_unbalanced
#print axioms Fp.Primary.Props.Array_Section_rejects_unbalanced
#print axioms Fp.Primary.Props.Substring_rejects_unbalanced
#print axioms Fp.Primary.Props.Intrinsic_Function_Reference_rejects_unbalanced
#print axioms Fp.Primary.Props.Parenthesis_rejects_unbalanced
#print axioms Fp.Primary.Props.BracketBase_any_rejects_unbalanced
#print axioms Fp.Primary.Props.Array_Constructor_rejects_unbalanced
#print axioms Fp.Primary.Props.Substring_Range_rejects_unbalanced
#print axioms Fp.Primary.Props.Bounds_Remapping_rejects_unbalanced
#print axioms Fp.Primary.Props.Bounds_Spec_rejects_unbalanced
#print axioms Fp.Primary.Props.SeparatorBase_noRhs_rejects_unbalanced
#print axioms Fp.Primary.Props.Component_Spec_rejects_unbalanced
#print axioms Fp.Primary.Props.Actual_Arg_Spec_rejects_unbalanced
#print axioms Fp.Primary.Props.List_rejects_unbalanced
#print axioms Fp.Primary.Props.Ac_Value_List_rejects_unbalanced
#print axioms Fp.Primary.Props.Component_Spec_List_rejects_unbalanced
#print axioms Fp.Primary.Props.Actual_Arg_Spec_List_rejects_unbalanced
#print axioms Fp.Primary.Props.Section_Subscript_List_rejects_unbalanced
#print axioms Fp.Primary.Props.Bounds_Spec_List_rejects_unbalanced
#print axioms Fp.Primary.Props.Bounds_Remapping_List_rejects_unbalanced
#print axioms Fp.Primary.Props.SequenceBase_char_rejects_unbalanced
#print axioms Fp.Primary.Props.Data_Ref_rejects_unbalanced
#print axioms Fp.Primary.Props.Int_Literal_Constant_rejects_unbalanced
#print axioms Fp.Primary.Props.Signed_Int_Literal_Constant_rejects_unbalanced
#print axioms Fp.Primary.Props.Real_Literal_Constant_rejects_unbalanced
#print axioms Fp.Primary.Props.Signed_Real_Literal_Constant_rejects_unbalanced
#print axioms Fp.Primary.Props.Logical_Literal_Constant_rejects_unbalanced
#print axioms Fp.Primary.Props.Name_rejects_unbalanced
#print axioms Fp.Primary.Props.Type_Name_rejects_unbalanced
#print axioms Fp.Primary.Props.Binary_Constant_rejects_unbalanced
#print axioms Fp.Primary.Props.Octal_Constant_rejects_unbalanced
#print axioms Fp.Primary.Props.Hex_Constant_rejects_unbalanced
#print axioms Fp.Primary.Props.Subscript_Triplet_rejects_unbalanced
#print axioms Fp.Primary.Props.Alt_Return_Spec_rejects_unbalanced
#print axioms Fp.Primary.Props.Complex_Literal_Constant_rejects_unbalanced
#print axioms Fp.Primary.Props.Ac_Spec_rejects_unbalanced
#print axioms Fp.Primary.Props.Ac_Implied_Do_rejects_unbalanced
#print axioms Fp.Primary.Props.Ac_Implied_Do_Control_rejects_unbalanced
#print axioms Fp.Primary.Props.BinaryOpBase_str_rejects_unbalanced
#print axioms Fp.Primary.Props.BinaryOpBase_percent_rejects_unbalanced
#print axioms Fp.Primary.Props.Assignment_Stmt_rejects_unbalanced
#print axioms Fp.Primary.Props.Proc_Component_Ref_rejects_unbalanced
#print axioms Fp.Primary.Props.Data_Pointer_Object_rejects_unbalanced
#print axioms Fp.Primary.Props.Type_Param_Inquiry_rejects_unbalanced
#print axioms Fp.Primary.Props.Procedure_Designator_rejects_unbalanced
#print axioms Fp.Primary.Props.Pointer_Assignment_Stmt_rejects_unbalanced
#print axioms Fp.Primary.Props.Char_Literal_Constant_rejects_unbalanced
