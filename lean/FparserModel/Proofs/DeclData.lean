import FparserModel.Proofs.DeclBasic
/-!
# Decl — the DATA family: `Data_Implied_Do`, `Data_Stmt_Value`, `Data_Stmt_Set`
-/
namespace Fp.Decl
open Fp Fp.Splitline Fp.Combi

variable {A : Type}

/-- the tokenised text of a `Data_Implied_Do`, taken apart the way the `match` does it -/
theorem impliedDo_parts {m : Map} {text l0 r0 s10 s11 : Str} {xs : List Str}
    (hp : Piece m text)
    (h1 : cutFirst '=' text = some (l0, r0))
    (h2 : cutLast ',' (rstrip l0) = some (s10, s11))
    (h3 : splitGo [','] 0 (lstrip r0) = xs) :
    Piece m s10 ∧ Piece m s11 ∧ (∀ x ∈ xs, Piece m x) ∧
    nb m text = nb m s10 ++ ',' :: nb m s11 ++ '=' :: joinStr [','] (xs.map (nb m)) := by
  obtain ⟨e1, _⟩ := cutFirst_spec _ _ _ h1
  obtain ⟨e2, _⟩ := cutLast_spec _ _ _ h2
  rw [e1] at hp
  obtain ⟨pl, pr, e3⟩ := nb_sep hp (by decide) (by decide)
  obtain ⟨pl', el⟩ := nb_rstrip pl
  rw [e2] at pl' el
  obtain ⟨p10, p11, e4⟩ := nb_sep pl' (by decide) (by decide)
  obtain ⟨pr', er⟩ := nb_lstrip pr
  have hj : joinStr [','] xs = lstrip r0 := by
    rw [← h3]; simpa using joinStr_splitGo [','] (by simp) (lstrip r0) 0
  have hne : xs ≠ [] := by rw [← h3]; exact splitGo_ne_nil _ _ _
  obtain ⟨px, ex⟩ := nb_split_comma xs _ pr' hj hne
  refine ⟨p10, p11, px, ?_⟩
  rw [e1, e3, ← el, e4, ← er, ex]

/-- **Data_Implied_Do, tokens** (view of the tokeniser explicit) -/
theorem dataImpliedDo_tokens_view (o : Leaves A) (hf : Faithful o) (s : Str) (n : ImpliedDo A)
    (h : matchDataImpliedDo o s = some n)
    (hv : ∀ r, tokenise (strip (interior s)) = some r → View (strip (interior s)) r) :
    toks (tostrDataImpliedDo o n) = toks s := by
  unfold matchDataImpliedDo at h
  split at h
  · exact absurd h (by simp)
  rename_i hw
  have hw' : sw s "(" = true ∧ ew s ')' = true := by
    cases h1 : sw s "(" <;> cases h2 : ew s ')' <;> simp [h1, h2] at hw ⊢
  have hs := wrapped_spec (paren_spec hw'.1 hw'.2)
  cases ht : tokenise (strip (interior s)) with
  | none => simp [ht] at h
  | some r =>
    have v := hv r ht
    simp only [ht] at h
    cases h1 : cutFirst '=' r.text with
    | none => simp [h1] at h
    | some p1 =>
      obtain ⟨l0, r0⟩ := p1
      simp only [h1] at h
      cases h2 : cutLast ',' (rstrip l0) with
      | none => simp [h2] at h
      | some p2 =>
        obtain ⟨s10, s11⟩ := p2
        simp only [h2] at h
        obtain ⟨p10, p11, px, e⟩ := impliedDo_parts v.piece h1 h2 rfl
        have hwhole : toks s = '(' :: (nb r.map r.text ++ [')']) := by
          have e0 : nb r.map r.text = toks (interior s) := by
            rw [show nb r.map r.text = toks (strip (interior s)) from v.whole, toks_strip]
          rw [e0]
          conv => lhs; rw [hs]
          rw [toks_cons_nonspace _ (by decide), toks_append]
          rfl
        rw [hwhole, e]
        -- the two admissible lengths of the right-hand side
        split at h
        · rename_i x0 x1 hx
          simp only [hx] at px ⊢
          cases ha : o.leaf .dataIDoObjectList (applyMap r.map (rstrip s10)) with
          | none => simp [ha] at h
          | some ob =>
          cases hb : o.leaf .dataIDoVariable (applyMap r.map (lstrip s11)) with
          | none => simp [ha, hb] at h
          | some vv =>
          cases hc : o.leaf .scalarIntExpr (applyMap r.map (rstrip x0)) with
          | none => simp [ha, hb, hc] at h
          | some a1 =>
          cases hd : o.leaf .scalarIntExpr (applyMap r.map (strip x1)) with
          | none => simp [ha, hb, hc, hd] at h
          | some a2 =>
            simp only [ha, hb, hc, hd, Option.map_some, Option.some.injEq] at h
            subst h
            have fa := hf _ _ _ ha
            have fb := hf _ _ _ hb
            have fc := hf _ _ _ hc
            have fd := hf _ _ _ hd
            have g1 := (nb_rstrip p10).2
            have g2 := (nb_lstrip p11).2
            have g3 := (nb_rstrip (px x0 (by simp))).2
            have g4 := (nb_strip (px x1 (by simp))).2
            unfold nb at g1 g2 g3 g4
            simp only [tostrDataImpliedDo, toks_append, toks_cons_nonspace _ (show isSpace '(' = false by decide),
              fa, fb, fc, fd, g1, g2, g3, g4, List.map, joinStr]
            simp [nb]
        · rename_i x0 x1 x2 hx
          simp only [hx] at px ⊢
          cases ha : o.leaf .dataIDoObjectList (applyMap r.map (rstrip s10)) with
          | none => simp [ha] at h
          | some ob =>
          cases hb : o.leaf .dataIDoVariable (applyMap r.map (lstrip s11)) with
          | none => simp [ha, hb] at h
          | some vv =>
          cases hc : o.leaf .scalarIntExpr (applyMap r.map (rstrip x0)) with
          | none => simp [ha, hb, hc] at h
          | some a1 =>
          cases hd : o.leaf .scalarIntExpr (applyMap r.map (strip x1)) with
          | none => simp [ha, hb, hc, hd] at h
          | some a2 =>
          cases he : o.leaf .scalarIntExpr (applyMap r.map (lstrip x2)) with
          | none => simp [ha, hb, hc, hd, he] at h
          | some a3 =>
            simp only [ha, hb, hc, hd, he, Option.map_some, Option.some.injEq] at h
            subst h
            have fa := hf _ _ _ ha
            have fb := hf _ _ _ hb
            have fc := hf _ _ _ hc
            have fd := hf _ _ _ hd
            have fe := hf _ _ _ he
            have g1 := (nb_rstrip p10).2
            have g2 := (nb_lstrip p11).2
            have g3 := (nb_rstrip (px x0 (by simp))).2
            have g4 := (nb_strip (px x1 (by simp))).2
            have g5 := (nb_lstrip (px x2 (by simp))).2
            unfold nb at g1 g2 g3 g4 g5
            simp only [tostrDataImpliedDo, toks_append, toks_cons_nonspace _ (show isSpace '(' = false by decide),
              fa, fb, fc, fd, fe, g1, g2, g3, g4, g5, List.map, joinStr]
            simp [nb]
        · exact absurd h (by simp)

end Fp.Decl
