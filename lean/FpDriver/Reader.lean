import FparserModel.Wire
import FparserModel.Reader
import FparserModel.Generated.ReaderLex

/-! driver commands of the reader model M-B: `read`, `readwalk`, `readerlex`

    read      <src> <mode> <flags> <ndirs> <dir>*  (<path> <kind> <text>)*
    readwalk  <script> <src> <mode> <flags> <ndirs> <dir>*  (<path> <kind> <text>)*

  mode  = `free` | `fixed`;  flags = three characters `0|1`: ignore_comments,
  include_omp_conditional_lines, process_directives;  kind = `F` (file detected free),
  `X` (file detected fixed), `S` (strict / pyf), `D` (directory).
  reply of `read`: one field per event, then `LC <linecount> <len(source_lines)>`.
  reply of `readwalk`: one field per op: `<event>\t@<linecount>`.
  event = `L|S|P|C \t label \t name \t first \t last \t inline \t text`, or `NONE`, `EXIT`, `UNSUP`.
-/
namespace FpDriver.Reader
open Fp Fp.Wire Fp.Reader

/-- StringIO iteration: split after every `\n` -/
def splitLinesNL (s : Str) : List Str :=
  let parts := splitOnChar s '\n'
  if parts.getLast? == some [] then parts.dropLast else parts

/-- text-mode file iteration (universal newlines) -/
def splitLinesUniversal (s : Str) : List Str :=
  let rec norm : Str → Str
    | '\r' :: '\n' :: rest => '\n' :: norm rest
    | '\r' :: rest => '\n' :: norm rest
    | c :: rest => c :: norm rest
    | [] => []
  splitLinesNL (norm s)

def showOptNat : Option Nat → String
  | some n => toString n
  | none => "-"

def showOptStr : Option Str → String
  | some s => String.ofList s
  | none => "-"

def showItem : Item → String
  | .line t l n s e => s!"L\t{showOptNat l}\t{showOptStr n}\t{s}\t{e}\t-\t{String.ofList t}"
  | .synerr t s e => s!"S\t-\t-\t{s}\t{e}\t-\t{String.ofList t}"
  | .cpp t s e => s!"P\t-\t-\t{s}\t{e}\t-\t{String.ofList t}"
  | .comment t s e i => s!"C\t-\t-\t{s}\t{e}\t{if i then "1" else "0"}\t{String.ofList t}"

def showEv : Ev → String
  | .item x => showItem x
  | .none => "NONE"
  | .exit => "EXIT"
  | .unsup => "UNSUP"

def showRes : Res Item → String
  | .ok x => showItem x
  | .stop => "NONE"
  | .err => "NONE"
  | .exit => "EXIT"
  | .unsup => "UNSUP"

def parseFs : List String → Option Fs
  | [] => some []
  | p :: k :: t :: rest =>
    let e : Option FsEntry := match dec k with
      | "F" => some (.file true false (splitLinesUniversal (decL t)))
      | "X" => some (.file false false (splitLinesUniversal (decL t)))
      | "S" => some (.file true true (splitLinesUniversal (decL t)))
      | "D" => some .dir
      | _ => none
    match e, parseFs rest with
    | some e, some fs => some ((decL p, e) :: fs)
    | _, _ => none
  | _ => none

structure Setup where
  st : List Rd
  fs : Fs
  total : Nat

def parseSetup (fields : List String) : Option Setup :=
  match fields with
  | src :: mode :: flags :: nd :: rest =>
    let n := (dec nd).toNat!
    let dirs := (rest.take n).map decL
    match parseFs (rest.drop n) with
    | none => none
    | some fs =>
      let fl := (dec flags).toList
      let b (i : Nat) : Bool := fl[i]? == some '1'
      let lines := splitLinesNL (decL src)
      let isFree := dec mode == "free"
      let sz (ls : List Str) : Nat := ls.foldl (fun a l => a + l.length + 2) 0
      let fsLines := fs.foldl (fun a e => match e.2 with | .file _ _ ls => a + sz ls | .dir => a) 0
      some ⟨[Rd.mk' lines isFree (b 0) (b 1) (b 2) dirs], fs, sz lines + fsLines⟩
  | _ => none

def depthBudget : Nat := 16

def walk (fs : Fs) : List Char → List Rd → List Item → List String → List String
  | [], _, _, out => out.reverse
  | c :: cs, st, got, out =>
    if c == 'g' then
      let p := getItem depthBudget fs st
      let got' := match p.1 with | .ok x => x :: got | _ => got
      walk fs cs p.2 got' (s!"{showRes p.1}\t@{linecount p.2}" :: out)
    else if c == 'p' then
      match got with
      | x :: got' =>
        let st' := putItem x st
        walk fs cs st' got' (s!"PUT\t@{linecount st'}" :: out)
      | [] => walk fs cs st got (s!"NOP\t@{linecount st}" :: out)
    else walk fs cs st got out

/-! ### `readerlex`: the Lean scanners against the generated regex tables -/

def renderLabel (s : Str) : String :=
  match extractLabel s with
  | (some n, rest) => s!"Y{n},{String.ofList rest}"
  | (none, _) => "N"

def renderName (s : Str) : String :=
  match extractName s with
  | (some n, rest) => s!"Y{String.ofList n},{String.ofList rest}"
  | (none, _) => "N"

def renderInclude (s : Str) : String :=
  match includeRe s with
  | some f => if f == includeFilename s then "Y" ++ String.ofList f else "Y?" ++ String.ofList f
  | none => "N"

def renderSent (f : Str → Str × Bool) (s : Str) : String :=
  let r := f s
  (if r.2 then "1," else "0,") ++ String.ofList r.1

def renderBool (f : Str → Bool) (s : Str) : String := if f s then "1" else "0"

/-- `line US k=v US k=v …`: compare the line and every binding of the real map -/
def checkSrm (s : Str) (expected : String) : Bool :=
  let parts := expected.splitOn "\x1f"
  let r := stringReplaceMap s true
  match parts with
  | [] => false
  | line :: kvs =>
    String.ofList r.1 == line &&
    kvs.all (fun kv =>
      let k := (kv.splitOn "=").headD ""
      let v := (kv.drop (k.length + 1)).toString
      (r.2.get k.toList).map String.ofList == some v) &&
    (r.2.map (·.1)).eraseDups.length == kvs.length

def checkTable (name : String) (tbl : List String) (ok : Str → String → Bool) : List String :=
  let rows := (tbl.flatMap (·.splitOn "\n")).filter (· != "")
  -- the empty input row is `\texpected`
  let bad := rows.filter fun row =>
    match row.splitOn "\t" with
    | [a, b] => !ok a.toList b
    | _ => true
  [name, toString rows.length, toString bad.length, bad.headD ""]

def readerlex : List String :=
  checkTable "label" Lex.labelTable (fun s e => renderLabel s == e) ++
  checkTable "name" Lex.nameTable (fun s e => renderName s == e) ++
  checkTable "include" Lex.includeTable (fun s e => renderInclude s == e) ++
  checkTable "sentFixed" Lex.sentFixedTable (fun s e => renderSent replaceSentinelFixed s == e) ++
  checkTable "sentFree" Lex.sentFreeTable (fun s e => renderSent replaceSentinelFree s == e) ++
  checkTable "sentFreeCont" Lex.sentFreeContTable (fun s e => renderSent replaceSentinelFreeCont s == e) ++
  checkTable "fixComment" Lex.fixCommentTable (fun s e => renderBool isFixCommentS s == e) ++
  checkTable "fixCont" Lex.fixContTable (fun s e => renderBool (fun l => isFixCont (some l)) s == e) ++
  checkTable "srm" Lex.srmTable checkSrm

def handle (cmd : String) (fields : List String) : Option String :=
  match cmd with
  | "read" =>
    match parseSetup fields with
    | none => some ("ERR\t" ++ enc "read: bad request")
    | some su =>
      let fuel := 4 * su.total + 64
      match drainEv depthBudget su.fs fuel su.st with
      | none => some ("ERR\t" ++ enc "read: out of fuel")
      | some p =>
        let evs := p.1.map (fun e => enc (showEv e))
        let tail := enc s!"LC {linecount p.2} {(sourceLines p.2).length}"
        some ("OK\t" ++ "\t".intercalate (evs ++ [tail]))
  | "readwalk" =>
    match fields with
    | script :: rest =>
      match parseSetup rest with
      | none => some ("ERR\t" ++ enc "readwalk: bad request")
      | some su =>
        let out := walk su.fs (dec script).toList su.st [] []
        some ("OK\t" ++ "\t".intercalate (out.map enc))
    | [] => some ("ERR\t" ++ enc "readwalk: bad request")
  | "readerlex" => some ("OK\t" ++ "\t".intercalate (readerlex.map enc))
  | _ => none

end FpDriver.Reader
