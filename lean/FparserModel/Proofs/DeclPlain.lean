import FparserModel.Proofs.DeclBasic
/-!
# Decl — the classes whose `match` does not go through `string_replace_map`:
# `Letter_Spec`, `Kind_Selector`, `Length_Selector`, `Implicit_Stmt`, `Implicit_Spec`,
# `Intent_Stmt`, `Initialization`, `Namelist_Stmt`

(a) `*_tokens`  : nothing dropped, nothing invented, order kept (modulo blanks and the case of keywords)
(b) `*_fixpoint`: the printed text matches again and prints the same
-/
namespace Fp.Decl
open Fp Fp.Splitline Fp.Combi

variable {A : Type}

/-! ## characters, `upper`, `toks` -/

theorem upper_append (a b : Str) : upper (a ++ b) = upper a ++ upper b := List.map_append ..
@[simp] theorem upper_nil : upper [] = [] := rfl
theorem upper_cons (c : Char) (s : Str) : upper (c :: s) = upperC c :: upper s := rfl
theorem upper_length (s : Str) : (upper s).length = s.length := List.length_map ..

theorem char_ge {c d : Char} (h : c ≤ d) : c.toNat ≤ d.toNat := by
  simpa [Char.le_def, UInt32.le_iff_toNat_le] using h

theorem isSpace_lt (c : Char) (h : isSpace c = true) : c.toNat < 33 := by
  rcases isSpace_cases h with h | h | h | h | h | h | h | h | h | h <;> subst h <;> decide

/-- a character from `'!'` on is not a blank -/
theorem nonspace_of_ge {c : Char} (h : 33 ≤ c.toNat) : isSpace c = false := by
  cases hc : isSpace c with
  | false => rfl
  | true => have := isSpace_lt c hc; omega

theorem isSpace_upperC_p (c : Char) : isSpace (upperC c) = isSpace c := by
  unfold upperC
  by_cases h : 'a' ≤ c ∧ c ≤ 'z'
  · rw [if_pos h]
    have h1 : 97 ≤ c.toNat := char_ge h.1
    have h2 : c.toNat ≤ 122 := char_ge h.2
    have aux : ∀ m, m < 91 → 65 ≤ m → isSpace (Char.ofNat m) = false := by decide
    rw [aux (c.toNat - 32) (by omega) (by omega), nonspace_of_ge (by omega)]
  · rw [if_neg h]

theorem toks_upper (s : Str) : toks (upper s) = upper (toks s) := by
  induction s with
  | nil => rfl
  | cons c s ih =>
    rw [upper_cons]
    cases hc : isSpace c with
    | true =>
      rw [toks_cons_space _ hc, toks_cons_space _ (by rw [isSpace_upperC_p, hc]), ih]
    | false =>
      rw [toks_cons_nonspace _ hc, toks_cons_nonspace _ (by rw [isSpace_upperC_p, hc]), ih, upper_cons]

theorem toks_of_nonspace {s : Str} (h : ∀ c ∈ s, isSpace c = false) : toks s = s := by
  simp only [toks, noBlank, List.filter_eq_self]
  intro c hc
  simp [h c hc]

/-- a text whose upper-case form has no blank has no blank -/
theorem toks_of_upper {s k : Str} (h : upper s = k) (hk : ∀ c ∈ k, isSpace c = false) : toks s = s := by
  apply toks_of_nonspace
  intro c hc
  have : upperC c ∈ k := by rw [← h]; exact List.mem_map_of_mem hc
  rw [← isSpace_upperC_p]; exact hk _ this

/-- `s[:n].upper() == kw`: the keyword is cut off whole, it has no blank -/
theorem kwAt_spec_p {kw : String} {s : Str} (h : kwAt kw s = true)
    (hk : ∀ c ∈ kw.toList, isSpace c = false) :
    ∃ k, s = k ++ s.drop kw.length ∧ upper k = kw.toList ∧ toks k = k := by
  unfold kwAt at h
  have h' : upper (s.take kw.length) = kw.toList := by simpa using h
  exact ⟨s.take kw.length, (List.take_append_drop _ _).symm, h', toks_of_upper h' hk⟩

theorem getLast?_lstrip : ∀ (t : Str) (c : Char), t.getLast? = some c → isSpace c = false →
    (lstrip t).getLast? = some c
  | [], c, h, _ => by simp at h
  | x :: t, c, h, hc => by
    cases hx : isSpace x with
    | false => rw [lstrip_cons_nonspace _ hx]; exact h
    | true =>
      rw [lstrip_cons_space _ hx]
      cases t with
      | nil =>
        simp at h; subst h; rw [hx] at hc; cases hc
      | cons y t' =>
        exact getLast?_lstrip (y :: t') c (by simpa [List.getLast?_cons_cons] using h) hc

/-- `(lstrip t).head? = some c`: blanks, then `c` -/
theorem head?_spec {t : Str} {c : Char} (h : t.head? = some c) : t = c :: t.drop 1 := by
  cases t with
  | nil => simp at h
  | cons x t => simp at h; subst h; rfl

theorem lstrip_space_app (t : Str) : lstrip (' ' :: t) = lstrip t := lstrip_space_cons t

/-! ## Letter_Spec -/

theorem upperAZ_nonspace {a : Char} (h : 'A' ≤ a) : isSpace a = false :=
  nonspace_of_ge (by have := char_ge h; simp at this; omega)

/-- **Letter_Spec, tokens**: the letters are upper-cased, nothing else changes -/
theorem letterSpec_tokens (s : Str) (n : LetterSpec) (h : matchLetterSpec s = some n) :
    toks (tostrLetterSpec n) = upper (toks s) := by
  unfold matchLetterSpec at h
  split at h
  · dsimp only at h
    split at h
    · cases h
      simp only [tostrLetterSpec, toks_upper]
    · cases h
  · cases h1 : cutFirst '-' s with
    | none => simp [h1] at h
    | some p =>
      obtain ⟨l, r⟩ := p
      obtain ⟨e, _⟩ := cutFirst_spec _ _ _ h1
      simp only [h1] at h
      split at h
      · rename_i a b ha hb
        split at h
        · cases h
          simp only [tostrLetterSpec]
          rw [e, toks_append, toks_append, show toks " - ".toList = ['-'] from by decide, toks_upper, toks_upper, toks_strip,
            toks_strip, toks_append, toks_cons_nonspace _ (show isSpace '-' = false by decide),
            upper_append, upper_cons]
          simp
          rfl
        · cases h
      · cases h

example : matchLetterSpec "a - h".toList = some ("A".toList, some "H".toList) := by decide

theorem upperC_of_le_Z {c : Char} (h : c ≤ 'Z') : upperC c = c := by
  unfold upperC
  rw [if_neg]
  intro hh
  have h1 := char_ge hh.1
  have h2 := char_ge h
  simp at h1 h2
  omega

theorem lstrip_single {a : Char} (h : isSpace a = false) : lstrip [a] = [a] := lstrip_cons_nonspace _ h
theorem rstrip_single {a : Char} (h : isSpace a = false) : rstrip [a] = [a] := by
  rw [rstrip_eq]; simp [lstrip_single h]

theorem char_le_trans {a b c : Char} (h1 : a ≤ b) (h2 : b ≤ c) : a ≤ c := by
  have := char_ge h1
  have := char_ge h2
  simp only [Char.le_def, UInt32.le_iff_toNat_le]
  show a.toNat ≤ c.toNat
  omega

/-- **Letter_Spec, fixpoint**: the printed letter-spec is matched to the same node -/
theorem letterSpec_fixpoint (s : Str) (n : LetterSpec) (h : matchLetterSpec s = some n) :
    matchLetterSpec (tostrLetterSpec n) = some n := by
  unfold matchLetterSpec at h
  split at h
  · dsimp only at h
    split at h
    · rename_i hu
      cases h
      simp only [tostrLetterSpec]
      generalize upper s = u at hu ⊢
      unfold isUpperAZ at hu
      split at hu
      · rename_i c
        simp only [Bool.and_eq_true, decide_eq_true_eq] at hu
        have : upper [c] = [c] := by rw [upper_cons, upperC_of_le_Z hu.2]; rfl
        simp [matchLetterSpec, this, isUpperAZ, hu.1, hu.2]
      · cases hu
    · cases h
  · cases h1 : cutFirst '-' s with
    | none => simp [h1] at h
    | some p =>
      obtain ⟨l, r⟩ := p
      simp only [h1] at h
      split at h
      · rename_i a b ha hb
        split at h
        · rename_i hab
          cases h
          simp only [Bool.and_eq_true, decide_eq_true_eq] at hab
          obtain ⟨⟨h1, h2⟩, h3⟩ := hab
          have sa : isSpace a = false := upperAZ_nonspace h1
          have sb : isSpace b = false := upperAZ_nonspace (char_le_trans h1 h2)
          have na : (a == '-') = false := by
            have := char_ge h1
            simp only [beq_eq_false_iff_ne, ne_eq]
            intro e; subst e; simp at this
          have ua : upper [a] = [a] := by
            rw [upper_cons, upperC_of_le_Z (char_le_trans h2 h3)]; rfl
          have ub : upper [b] = [b] := by rw [upper_cons, upperC_of_le_Z h3]; rfl
          have e1 : strip [a, ' '] = [a] :=
            strip_space_right (t := [a]) (lstrip_single sa) (rstrip_single sa)
          have e2 : strip [' ', b] = [b] :=
            strip_space_left (t := [b]) (lstrip_single sb) (rstrip_single sb)
          rw [ha, hb]
          show matchLetterSpec [a, ' ', '-', ' ', b] = _
          simp [matchLetterSpec, cutFirst, na, e1, e2, ua, ub, h1, h2, h3]
        · cases h
      · cases h

example : matchLetterSpec "q".toList = some ("Q".toList, none) := by decide
example : matchLetterSpec (tostrLetterSpec ("A".toList, some "H".toList)) = some ("A".toList, some "H".toList) := by
  decide

/-! ## string shapes shared by the selectors -/

theorem sw_star {s : Str} (h : sw s "*" = true) : s = '*' :: s.drop 1 := by
  have := sw_spec h; simpa using this
theorem sw_eq {s : Str} (h : sw s "=" = true) : s = '=' :: s.drop 1 := by
  have := sw_spec h; simpa using this
theorem sw_paren {s : Str} (h : sw s "(" = true) : s = '(' :: s.drop 1 := by
  have := sw_spec h; simpa using this
theorem sw_colons {s : Str} (h : sw s "::" = true) : s = ':' :: ':' :: s.drop 2 := by
  have := sw_spec h; simpa using this
theorem sw_arrow {s : Str} (h : sw s "=>" = true) : s = '=' :: '>' :: s.drop 2 := by
  have := sw_spec h; simpa using this

theorem sw_eq_head {s : Str} (h : sw s "=" = true) : s.head? = some '=' := by
  rw [sw_eq h]; rfl

/-- `KW =` in front of a text: the keyword (any case) and the `=` are cut off, the rest is kept -/
theorem kw_eq_tokens {kw : String} {s : Str} (hk : kwAt kw s = true)
    (hkw : ∀ c ∈ kw.toList, isSpace c = false)
    (he : (lstrip (s.drop kw.length)).head? = some '=') :
    ∃ k, upper k = kw.toList ++ ['='] ∧
      toks s = k ++ toks (lstrip ((lstrip (s.drop kw.length)).drop 1)) := by
  obtain ⟨k0, e0, u0, t0⟩ := kwAt_spec_p hk hkw
  refine ⟨k0 ++ ['='], by rw [upper_append, u0]; rfl, ?_⟩
  have e1 := head?_spec he
  conv => lhs; rw [e0]
  rw [toks_append, t0, ← toks_lstrip (s.drop kw.length), e1,
    toks_cons_nonspace _ (show isSpace '=' = false by decide), toks_lstrip]
  simp

theorem toks_wrapped {s : Str} (h : wrapped s = true) :
    toks s = '(' :: (toks (strip (interior s)) ++ [')']) := by
  conv => lhs; rw [wrapped_spec h]
  rw [toks_cons_nonspace _ (by decide), toks_append, toks_strip]
  rfl

/-! ## Kind_Selector -/

/-- **Kind_Selector, tokens**: `*len` is kept; in the bracketed form the optional `KIND =` is
    inserted / upper-cased, everything else is kept -/
theorem kindSelector_tokens (o : Leaves A) (hf : Faithful o) (s : Str) (n : KindSel A)
    (h : matchKindSelector o s = some n) :
    (∃ x, toks s = '*' :: x ∧ toks (tostrKindSelector o n) = '*' :: x) ∨
    (∃ k x, (k = [] ∨ upper k = "KIND=".toList) ∧ toks s = '(' :: (k ++ x ++ [')']) ∧
      toks (tostrKindSelector o n) = "(KIND=".toList ++ x ++ [')']) := by
  unfold matchKindSelector at h
  split at h
  · cases h
  dsimp only at h
  split at h
  · -- `*char-length`
    split at h
    · cases h
    rename_i hsw
    have hsw' : sw (strip s) "*" = true := by simpa using hsw
    cases ha : o.leaf .charLength (lstrip ((strip s).drop 1)) with
    | none => rw [ha] at h; exact absurd h (by simp)
    | some a =>
      rw [ha] at h
      simp only [Option.map_some, Option.some.injEq] at h
      subst h
      left
      refine ⟨toks ((strip s).drop 1), ?_, ?_⟩
      · rw [← toks_strip s]
        conv => lhs; rw [sw_star hsw']
        rw [toks_cons_nonspace _ (by decide)]
      · have e1 := hf _ _ _ ha
        rw [toks_lstrip] at e1
        show toks ('*' :: o.render a) = _
        rw [toks_cons_nonspace _ (show isSpace '*' = false by decide), e1]
  · -- `( [KIND =] expr )`
    rename_i hw
    have hw' : wrapped (strip s) = true := by simpa using hw
    have e0 : toks s = '(' :: (toks (strip (interior (strip s))) ++ [')']) := by
      rw [← toks_strip s, toks_wrapped hw']
    generalize strip (interior (strip s)) = s1 at h e0
    right
    have fmt : ∀ a : A, toks (tostrKindSelector o (.paren a)) = "(KIND=".toList ++ toks (o.render a) ++ [')'] := by
      intro a
      show toks ("(KIND = ".toList ++ o.render a ++ [')']) = _
      simp only [toks_append]
      rw [show toks "(KIND = ".toList = "(KIND=".toList from by decide, toks_l3]
    split at h
    · rename_i hc
      simp only [Bool.and_eq_true, beq_iff_eq] at hc
      obtain ⟨⟨_, hk⟩, he⟩ := hc
      obtain ⟨k, uk, ek⟩ := kw_eq_tokens hk (by decide) he
      cases ha : o.leaf .scalarIntInitializationExpr (lstrip ((lstrip (s1.drop 4)).drop 1)) with
      | none => rw [ha] at h; exact absurd h (by simp)
      | some a =>
        rw [ha] at h
        simp only [Option.map_some, Option.some.injEq] at h
        subst h
        refine ⟨k, toks (lstrip ((lstrip (s1.drop 4)).drop 1)), Or.inr uk, ?_, ?_⟩
        · rw [e0, ek, show "KIND".length = 4 from by decide]
        · rw [fmt, hf _ _ _ ha]
    · cases ha : o.leaf .scalarIntInitializationExpr s1 with
      | none => rw [ha] at h; exact absurd h (by simp)
      | some a =>
        rw [ha] at h
        simp only [Option.map_some, Option.some.injEq] at h
        subst h
        refine ⟨[], toks s1, Or.inl rfl, ?_, ?_⟩
        · rw [e0]; rfl
        · rw [fmt, hf _ _ _ ha]

example : matchKindSelector echo "( kind = 8 )".toList = some (.paren "8".toList) := by decide
example : matchKindSelector echo " * 8".toList = some (.star "8".toList) := by decide
example : matchKindSelector echo "(8)".toList = some (.paren "8".toList) := by decide

/-! ### fixpoint -/

theorem interior_wrap (m : Str) : interior ('(' :: (m ++ [')'])) = m := by
  simp [interior]

theorem wrapped_wrap (m : Str) : wrapped ('(' :: (m ++ [')'])) = true := by
  have : ('(' :: (m ++ [')'])).getLast? = some ')' := by
    rw [show '(' :: (m ++ [')']) = ('(' :: m) ++ [')'] from rfl, List.getLast?_concat]
  simp [wrapped, this]

/-- `strip` of a tight text in brackets is the identity -/
theorem strip_wrap (m : Str) : strip ('(' :: (m ++ [')'])) = '(' :: (m ++ [')']) := by
  have := strip_sandwich (l := ['(']) (r := [')']) m (by decide) (by simp) (by decide) (by simp)
  simpa using this

/-- `KW = t` with a tight `t` (possibly empty): after `strip` the text is `KW =` + blanks + `t` -/
theorem strip_kw_eq (K : Str) (hK : lstrip K = K) (hKne : K ≠ []) (t : Str)
    (hl : lstrip t = t) (hr : rstrip t = t) :
    ∃ r, strip (K ++ " = ".toList ++ t) = K ++ ' ' :: '=' :: r ∧ lstrip r = t := by
  by_cases ht : t = []
  · subst ht
    refine ⟨[], ?_, rfl⟩
    have e : K ++ " = ".toList ++ [] = (K ++ [' ', '=']) ++ [' '] := by simp
    rw [e, strip, rstrip_append_space, rstrip_append_of_self K (b := [' ', '=']) (by decide) (by simp),
      lstrip_append_of_self _ hK hKne]
  · refine ⟨' ' :: t, ?_, by rw [lstrip_space_cons, hl]⟩
    rw [strip, rstrip_append_of_self _ hr ht, List.append_assoc, lstrip_append_of_self _ hK hKne]
    simp

/-- a text that starts with the (upper-case) keyword, a blank and `=` -/
theorem kwAt_lit (kw : String) (hu : upper kw.toList = kw.toList) (r : Str) :
    kwAt kw (kw.toList ++ ' ' :: '=' :: r) = true ∧
    lstrip ((kw.toList ++ ' ' :: '=' :: r).drop kw.length) = '=' :: r := by
  have hl : kw.length = kw.toList.length := String.length_toList.symm
  constructor
  · unfold kwAt
    rw [hl, List.take_left', hu]
    · simp
    · rfl
  · rw [hl, List.drop_left', lstrip_space_cons, lstrip_cons_nonspace _ (by decide)]
    rfl

/-- the printed texts of the children that make `Kind_Selector` re-matchable -/
def KindSelRenderOK (o : Leaves A) : KindSel A → Prop
  | .star a => o.render a ≠ [] ∧ lstrip (o.render a) = o.render a ∧ rstrip (o.render a) = o.render a
  | .paren a => lstrip (o.render a) = o.render a ∧ rstrip (o.render a) = o.render a

theorem matchKindSelector_star (o : Leaves A) (t : Str) (hne : t ≠ []) (hl : lstrip t = t)
    (hr : rstrip t = t) :
    matchKindSelector o ('*' :: t) = (o.leaf .charLength t).map .star := by
  have e1 : strip ('*' :: t) = '*' :: t := by
    have := rstrip_append_of_self ['*'] hr hne
    rw [strip, show '*' :: t = ['*'] ++ t from rfl, this]
    exact lstrip_cons_nonspace _ (by decide)
  have e2 : crashKindSelector ('*' :: t) = false := by
    unfold crashKindSelector
    rw [e1]
    cases t with
    | nil => exact absurd rfl hne
    | cons c t' => simp
  unfold matchKindSelector
  rw [e2]
  simp only [Bool.false_eq_true, if_false, e1]
  have e3 : wrapped ('*' :: t) = false := by simp [wrapped]
  have e4 : sw ('*' :: t) "*" = true := by simp [sw, isPrefix]
  simp [e3, e4, hl]

theorem matchKindSelector_paren (o : Leaves A) (t : Str) (hl : lstrip t = t) (hr : rstrip t = t) :
    matchKindSelector o ("(KIND = ".toList ++ t ++ [')']) =
      (o.leaf .scalarIntInitializationExpr t).map .paren := by
  have e0 : "(KIND = ".toList ++ t ++ [')'] = '(' :: (("KIND".toList ++ " = ".toList ++ t) ++ [')']) := by
    simp
  rw [e0]
  have e2 : crashKindSelector ('(' :: (("KIND".toList ++ " = ".toList ++ t) ++ [')'])) = false := by
    unfold crashKindSelector
    rw [strip_wrap]
    simp
  unfold matchKindSelector
  rw [e2]
  simp only [Bool.false_eq_true, if_false, strip_wrap, wrapped_wrap, interior_wrap, Bool.not_true]
  obtain ⟨r, er, hr'⟩ := strip_kw_eq "KIND".toList (by decide) (by decide) t hl hr
  obtain ⟨k1, k2⟩ := kwAt_lit "KIND" (by decide) r
  rw [show "KIND".length = 4 from by decide] at k2
  rw [er, k1, k2]
  simp [hr']

/-- **Kind_Selector, fixpoint** -/
theorem kindSelector_fixpoint (o : Leaves A) (hs : Stable o) (s : Str) (n : KindSel A)
    (h : matchKindSelector o s = some n) (hok : KindSelRenderOK o n) :
    ∃ n', matchKindSelector o (tostrKindSelector o n) = some n' ∧
      tostrKindSelector o n' = tostrKindSelector o n := by
  -- where the child came from
  have src : match n with
      | .star a => ∃ t, o.leaf .charLength t = some a
      | .paren a => ∃ t, o.leaf .scalarIntInitializationExpr t = some a := by
    unfold matchKindSelector at h
    split at h
    · cases h
    dsimp only at h
    split at h
    · split at h
      · cases h
      · cases ha : o.leaf .charLength (lstrip ((strip s).drop 1)) with
        | none => rw [ha] at h; exact absurd h (by simp)
        | some a =>
          rw [ha] at h
          simp only [Option.map_some, Option.some.injEq] at h
          subst h
          exact ⟨_, ha⟩
    · rw [Option.map_eq_some_iff] at h
      obtain ⟨a, ha, rfl⟩ := h
      exact ⟨_, ha⟩
  cases n with
  | star a =>
    obtain ⟨t, ht⟩ := src
    obtain ⟨a', m', r'⟩ := hs _ _ _ ht
    obtain ⟨h1, h2, h3⟩ := hok
    refine ⟨.star a', ?_, ?_⟩
    · show matchKindSelector o ('*' :: o.render a) = _
      rw [matchKindSelector_star o _ h1 h2 h3, m']; rfl
    · show '*' :: o.render a' = '*' :: o.render a
      rw [r']
  | paren a =>
    obtain ⟨t, ht⟩ := src
    obtain ⟨a', m', r'⟩ := hs _ _ _ ht
    obtain ⟨h2, h3⟩ := hok
    refine ⟨.paren a', ?_, ?_⟩
    · show matchKindSelector o ("(KIND = ".toList ++ o.render a ++ [')']) = _
      rw [matchKindSelector_paren o _ h2 h3, m']; rfl
    · show "(KIND = ".toList ++ o.render a' ++ [')'] = "(KIND = ".toList ++ o.render a ++ [')']
      rw [r']

example : matchKindSelector echo "( kind = 8 )".toList = some (.paren "8".toList)
    ∧ KindSelRenderOK echo (.paren "8".toList) := ⟨by decide, by decide, by decide⟩

/-! ## Length_Selector -/

theorem tostrLengthSelector_star (o : Leaves A) (a : A) :
    tostrLengthSelector o (.star a) = '*' :: o.render a := rfl
theorem tostrLengthSelector_paren (o : Leaves A) (a : A) :
    tostrLengthSelector o (.paren a) = "(LEN = ".toList ++ o.render a ++ [')'] := rfl

/-- **Length_Selector, tokens**: in the bracketed form the optional `LEN =` is inserted /
    upper-cased; in the `*` form a trailing comma of the text is silently dropped
    (`lengthSelector_drops_comma`); everything else is kept -/
theorem lengthSelector_tokens (o : Leaves A) (hf : Faithful o) (s : Str) (n : LenSel A)
    (h : matchLengthSelector o s = some n) :
    (∃ x, (toks s = '*' :: x ∨ toks s = '*' :: x ++ [',']) ∧
      toks (tostrLengthSelector o n) = '*' :: x) ∨
    (∃ k x, (k = [] ∨ upper k = "LEN=".toList) ∧ toks s = '(' :: (k ++ x ++ [')']) ∧
      toks (tostrLengthSelector o n) = "(LEN=".toList ++ x ++ [')']) := by
  unfold matchLengthSelector at h
  split at h
  · -- `( [LEN =] type-param-value )`
    rename_i hw
    have e0 := toks_wrapped hw
    generalize strip (interior s) = s1 at h e0
    dsimp only at h
    right
    have fmt : ∀ a : A, toks (tostrLengthSelector o (.paren a)) = "(LEN=".toList ++ toks (o.render a) ++ [')'] := by
      intro a
      rw [tostrLengthSelector_paren]
      simp only [toks_append]
      rw [show toks "(LEN = ".toList = "(LEN=".toList from by decide, toks_l3]
    rw [Option.map_eq_some_iff] at h
    obtain ⟨a, ha, rfl⟩ := h
    split at ha
    · rename_i hc
      unfold kwEq at hc
      simp only [Bool.and_eq_true] at hc
      obtain ⟨hk, he⟩ := hc
      obtain ⟨k, uk, ek⟩ := kw_eq_tokens hk (by decide) (sw_eq_head he)
      refine ⟨k, toks (afterKwEq "LEN" s1), Or.inr uk, ?_, ?_⟩
      · rw [e0, ek]; rfl
      · rw [fmt, hf _ _ _ ha]
    · refine ⟨[], toks s1, Or.inl rfl, ?_, ?_⟩
      · rw [e0]; rfl
      · rw [fmt, hf _ _ _ ha]
  · split at h
    · cases h
    rename_i hsw
    have hsw' : sw s "*" = true := by simpa using hsw
    have es := sw_star hsw'
    dsimp only at h
    rw [Option.map_eq_some_iff] at h
    obtain ⟨a, ha, rfl⟩ := h
    left
    have fa := hf _ _ _ ha
    rw [tostrLengthSelector_star, toks_cons_nonspace _ (show isSpace '*' = false by decide), fa]
    split
    · rename_i hew
      -- the text ends with a comma: it is dropped
      have hl : s.getLast? = some ',' := by unfold ew at hew; simpa using hew
      have hl2 : (s.drop 1).getLast? = some ',' := by
        rw [es] at hl
        cases hd : s.drop 1 with
        | nil => rw [hd] at hl; simp at hl
        | cons c t => rw [hd] at hl; simpa [List.getLast?_cons_cons] using hl
      have hl3 := getLast?_lstrip _ _ hl2 (by decide)
      have e3 := dropLast_snoc _ _ hl3
      refine ⟨_, Or.inr ?_, rfl⟩
      conv => lhs; rw [es]
      rw [toks_cons_nonspace _ (show isSpace '*' = false by decide), toks_rstrip,
        ← toks_lstrip (s.drop 1)]
      conv => lhs; rw [← e3]
      rw [toks_append]
      rfl
    · refine ⟨_, Or.inl ?_, rfl⟩
      conv => lhs; rw [es]
      rw [toks_cons_nonspace _ (show isSpace '*' = false by decide), toks_lstrip]

/-- the defect: `*8,` is accepted and printed as `*8` -/
example :
    (matchLengthSelector echo "*8,".toList).map (tostrLengthSelector echo) = some "*8".toList := by
  decide

example : matchLengthSelector echo "( len = * )".toList = some (.paren "*".toList) := by decide
example : matchLengthSelector echo "* (*)".toList = some (.star "(*)".toList) := by decide

/-! ### fixpoint -/

/-- the printed texts of the children that make `Length_Selector` re-matchable: the char-length
    must not end with a comma (it would be taken for the comma that `match` drops) -/
def LenSelRenderOK (o : Leaves A) : LenSel A → Prop
  | .star a => lstrip (o.render a) = o.render a ∧ (o.render a).getLast? ≠ some ','
  | .paren a => lstrip (o.render a) = o.render a ∧ rstrip (o.render a) = o.render a

theorem matchLengthSelector_star (o : Leaves A) (t : Str) (hl : lstrip t = t)
    (hc : t.getLast? ≠ some ',') :
    matchLengthSelector o ('*' :: t) = (o.leaf .charLength t).map .star := by
  have e3 : wrapped ('*' :: t) = false := by simp [wrapped]
  have e4 : sw ('*' :: t) "*" = true := by simp [sw, isPrefix]
  have e5 : ew ('*' :: t) ',' = false := by
    unfold ew
    cases t with
    | nil => decide
    | cons c t' => simpa [List.getLast?_cons_cons] using hc
  unfold matchLengthSelector
  simp [e3, e4, e5, hl]

theorem matchLengthSelector_paren (o : Leaves A) (t : Str) (hl : lstrip t = t) (hr : rstrip t = t) :
    matchLengthSelector o ("(LEN = ".toList ++ t ++ [')']) =
      (o.leaf .typeParamValue t).map .paren := by
  have e0 : "(LEN = ".toList ++ t ++ [')'] = '(' :: (("LEN".toList ++ " = ".toList ++ t) ++ [')']) := by
    simp
  rw [e0]
  unfold matchLengthSelector
  simp only [wrapped_wrap, interior_wrap, if_true]
  obtain ⟨r, er, hr'⟩ := strip_kw_eq "LEN".toList (by decide) (by decide) t hl hr
  obtain ⟨k1, k2⟩ := kwAt_lit "LEN" (by decide) r
  have k3 : kwEq "LEN" ("LEN".toList ++ ' ' :: '=' :: r) = true := by
    unfold kwEq
    rw [k1, k2]
    simp [sw, isPrefix]
  have k4 : afterKwEq "LEN" ("LEN".toList ++ ' ' :: '=' :: r) = t := by
    unfold afterKwEq
    rw [k2]
    simpa using hr'
  rw [er, k3, if_pos rfl, k4]

theorem lengthSelector_src (o : Leaves A) (s : Str) (n : LenSel A)
    (h : matchLengthSelector o s = some n) :
    match n with
    | .star a => ∃ t, o.leaf .charLength t = some a
    | .paren a => ∃ t, o.leaf .typeParamValue t = some a := by
  unfold matchLengthSelector at h
  split at h
  · rw [Option.map_eq_some_iff] at h
    obtain ⟨a, ha, rfl⟩ := h
    exact ⟨_, ha⟩
  · split at h
    · cases h
    · rw [Option.map_eq_some_iff] at h
      obtain ⟨a, ha, rfl⟩ := h
      exact ⟨_, ha⟩

/-- **Length_Selector, fixpoint** -/
theorem lengthSelector_fixpoint (o : Leaves A) (hs : Stable o) (s : Str) (n : LenSel A)
    (h : matchLengthSelector o s = some n) (hok : LenSelRenderOK o n) :
    ∃ n', matchLengthSelector o (tostrLengthSelector o n) = some n' ∧
      tostrLengthSelector o n' = tostrLengthSelector o n := by
  have src := lengthSelector_src o s n h
  cases n with
  | star a =>
    obtain ⟨t, ht⟩ := src
    obtain ⟨a', m', r'⟩ := hs _ _ _ ht
    obtain ⟨h1, h2⟩ := hok
    refine ⟨.star a', ?_, ?_⟩
    · rw [tostrLengthSelector_star, matchLengthSelector_star o _ h1 h2, m']; rfl
    · rw [tostrLengthSelector_star, tostrLengthSelector_star, r']
  | paren a =>
    obtain ⟨t, ht⟩ := src
    obtain ⟨a', m', r'⟩ := hs _ _ _ ht
    obtain ⟨h2, h3⟩ := hok
    refine ⟨.paren a', ?_, ?_⟩
    · rw [tostrLengthSelector_paren, matchLengthSelector_paren o _ h2 h3, m']; rfl
    · rw [tostrLengthSelector_paren, tostrLengthSelector_paren, r']

example : matchLengthSelector echo "( len = * )".toList = some (.paren "*".toList)
    ∧ LenSelRenderOK echo (.paren "*".toList) := ⟨by decide, by decide, by decide⟩
example : matchLengthSelector echo "* 8".toList = some (.star "8".toList)
    ∧ LenSelRenderOK echo (.star "8".toList) := ⟨by decide, by decide, by decide⟩
/-- without the side condition the statement fails: a char-length printed as `8,` loses its comma -/
example : (matchLengthSelector echo (tostrLengthSelector echo (.star "8,".toList))).map
    (tostrLengthSelector echo) = some "*8".toList := by decide

/-! ## Implicit_Stmt -/

theorem tostrImplicitStmt_none (o : Leaves A) :
    tostrImplicitStmt o .none' = "IMPLICIT NONE".toList := rfl
theorem tostrImplicitStmt_specs (o : Leaves A) (a : A) :
    tostrImplicitStmt o (.specs a) = "IMPLICIT ".toList ++ o.render a := rfl

/-- **Implicit_Stmt, tokens**: the keyword is upper-cased (and `NONE` too), the rest is kept -/
theorem implicitStmt_tokens (o : Leaves A) (hf : Faithful o) (s : Str) (n : Implicit A)
    (h : matchImplicitStmt o s = some n) :
    ∃ k x, upper k = "IMPLICIT".toList ∧ toks s = k ++ x ∧
      toks (tostrImplicitStmt o n) = "IMPLICIT".toList ++
        (match n with | .none' => upper x | .specs _ => x) := by
  unfold matchImplicitStmt at h
  split at h
  · cases h
  rename_i hk
  have hk' : kwAt "IMPLICIT" s = true := by simpa using hk
  obtain ⟨k, e, uk, tk⟩ := kwAt_spec_p hk' (by decide)
  rw [show "IMPLICIT".length = 8 from by decide] at e
  have es : toks s = k ++ toks (lstrip (s.drop 8)) := by
    conv => lhs; rw [e]
    rw [toks_append, tk, toks_lstrip]
  dsimp only at h
  generalize lstrip (s.drop 8) = line at h es
  refine ⟨k, toks line, uk, es, ?_⟩
  split at h
  · rename_i hc
    cases h
    simp only [Bool.and_eq_true, beq_iff_eq] at hc
    rw [tostrImplicitStmt_none]
    show _ = "IMPLICIT".toList ++ upper (toks line)
    rw [← toks_upper, hc.2]
    decide
  · rw [Option.map_eq_some_iff] at h
    obtain ⟨a, ha, rfl⟩ := h
    rw [tostrImplicitStmt_specs, toks_append, hf _ _ _ ha]
    rw [show toks "IMPLICIT ".toList = "IMPLICIT".toList from by decide]

example : matchImplicitStmt echo "implicit  None".toList = some .none' := by decide
example : matchImplicitStmt echo "Implicit real (a-h)".toList = some (.specs "real (a-h)".toList) := by
  decide

/-! ### fixpoint -/

/-- the printed text of the spec list must be left-tight and must not be a spelling of `NONE`
    other than `NONE` itself -/
def ImplicitRenderOK (o : Leaves A) : Implicit A → Prop
  | .none' => True
  | .specs a => lstrip (o.render a) = o.render a ∧
      (upper (o.render a) = "NONE".toList → o.render a = "NONE".toList)

theorem kwAt_lit' (kw : String) (hu : upper kw.toList = kw.toList) (r : Str) :
    kwAt kw (kw.toList ++ r) = true ∧ (kw.toList ++ r).drop kw.length = r := by
  have hl : kw.length = kw.toList.length := String.length_toList.symm
  constructor
  · unfold kwAt
    rw [hl, List.take_left', hu]
    · simp
    · rfl
  · rw [hl, List.drop_left']
    rfl

theorem matchImplicitStmt_none (o : Leaves A) : matchImplicitStmt o "IMPLICIT NONE".toList = some .none' := by
  unfold matchImplicitStmt
  rw [show kwAt "IMPLICIT" "IMPLICIT NONE".toList = true from by decide]
  rw [show lstrip ("IMPLICIT NONE".toList.drop 8) = "NONE".toList from by decide]
  rfl

theorem matchImplicitStmt_specs (o : Leaves A) (t : Str) (hl : lstrip t = t)
    (hn : upper t ≠ "NONE".toList) :
    matchImplicitStmt o ("IMPLICIT ".toList ++ t) = (o.leaf .implicitSpecList t).map .specs := by
  have e0 : "IMPLICIT ".toList ++ t = "IMPLICIT".toList ++ ' ' :: t := by simp
  obtain ⟨k1, k2⟩ := kwAt_lit' "IMPLICIT" (by decide) (' ' :: t)
  rw [show "IMPLICIT".length = 8 from by decide] at k2
  unfold matchImplicitStmt
  rw [e0, k1, k2, lstrip_space_cons, hl]
  have hn' : (t.length == 4 && upper t == "NONE".toList) = false := by
    rw [Bool.and_eq_false_iff]; right; simpa using hn
  dsimp only
  rw [hn']
  simp

/-- **Implicit_Stmt, fixpoint** -/
theorem implicitStmt_fixpoint (o : Leaves A) (hs : Stable o) (s : Str) (n : Implicit A)
    (h : matchImplicitStmt o s = some n) (hok : ImplicitRenderOK o n) :
    ∃ n', matchImplicitStmt o (tostrImplicitStmt o n) = some n' ∧
      tostrImplicitStmt o n' = tostrImplicitStmt o n := by
  cases n with
  | none' => exact ⟨.none', matchImplicitStmt_none o, rfl⟩
  | specs a =>
    have src : ∃ t, o.leaf .implicitSpecList t = some a := by
      unfold matchImplicitStmt at h
      split at h
      · cases h
      dsimp only at h
      split at h
      · cases h
      · rw [Option.map_eq_some_iff] at h
        obtain ⟨a', ha, e⟩ := h
        cases e
        exact ⟨_, ha⟩
    obtain ⟨t, ht⟩ := src
    obtain ⟨a', m', r'⟩ := hs _ _ _ ht
    obtain ⟨h1, h2⟩ := hok
    by_cases hn : upper (o.render a) = "NONE".toList
    · -- the list prints as `NONE`: the text is `IMPLICIT NONE`, matched as such
      refine ⟨.none', ?_, ?_⟩
      · rw [tostrImplicitStmt_specs, h2 hn]
        exact matchImplicitStmt_none o
      · rw [tostrImplicitStmt_specs, h2 hn]; rfl
    · refine ⟨.specs a', ?_, ?_⟩
      · rw [tostrImplicitStmt_specs, matchImplicitStmt_specs o _ h1 hn, m']; rfl
      · rw [tostrImplicitStmt_specs, tostrImplicitStmt_specs, r']

example : matchImplicitStmt echo "Implicit real (a-h)".toList = some (.specs "real (a-h)".toList)
    ∧ ImplicitRenderOK echo (.specs "real (a-h)".toList) := ⟨by decide, by decide, by decide⟩
/-- without the second side condition the statement fails: a spec list printed as `none` comes
    back as `IMPLICIT NONE` -/
example : (matchImplicitStmt echo (tostrImplicitStmt echo (.specs "none".toList))).map
    (tostrImplicitStmt echo) = some "IMPLICIT NONE".toList := by decide

/-! ## Implicit_Spec -/

theorem getLast?_app_cons : ∀ (pre : Str) (x : Char) (p : Str),
    (pre ++ x :: p).getLast? = (x :: p).getLast?
  | [], _, _ => rfl
  | a :: pre, x, p => by
    have ih := getLast?_app_cons pre x p
    cases hq : pre ++ x :: p with
    | nil => simp at hq
    | cons y q => rw [List.cons_append, hq, List.getLast?_cons_cons, ← hq, ih]

/-- the last character of `pre + c + post` is not `c`: it is the last character of `post` -/
theorem getLast?_after {pre post : Str} {c d : Char} (h : (pre ++ c :: post).getLast? = some d)
    (hne : c ≠ d) : post.getLast? = some d := by
  rw [getLast?_app_cons] at h
  cases post with
  | nil => simp at h; exact absurd h hne
  | cons x p => simpa [List.getLast?_cons_cons] using h

theorem tostrImplicitSpec_eq (o : Leaves A) (n : ImplicitSpec A) :
    tostrImplicitSpec o n = o.render n.typeSpec ++ '(' :: o.render n.letters ++ [')'] := rfl

/-- the parts of the text of an `Implicit_Spec` -/
theorem implicitSpec_parts (o : Leaves A) (s : Str) (n : ImplicitSpec A)
    (h : matchImplicitSpec o s = some n) :
    ∃ pre post, s = pre ++ '(' :: post ++ [')'] ∧ '(' ∉ post ∧
      rstrip pre ≠ [] ∧ strip post ≠ [] ∧
      o.leaf .declarationTypeSpec (rstrip pre) = some n.typeSpec ∧
      o.leaf .letterSpecList (strip post) = some n.letters := by
  unfold matchImplicitSpec at h
  split at h
  · cases h
  rename_i hew
  have hl : s.getLast? = some ')' := by
    have : ew s ')' = true := by simpa using hew
    unfold ew at this; simpa using this
  cases hc : cutLast '(' s with
  | none => rw [hc] at h; cases h
  | some p =>
    obtain ⟨pre, post⟩ := p
    rw [hc] at h
    dsimp only at h
    obtain ⟨e, hno⟩ := cutLast_spec _ _ _ hc
    rw [e] at hl
    have e2 := dropLast_snoc _ _ (getLast?_after hl (by decide))
    split at h
    · cases h
    rename_i hne
    simp only [Bool.or_eq_true, List.isEmpty_iff, not_or] at hne
    cases h1 : o.leaf .declarationTypeSpec (rstrip pre) with
    | none => rw [h1] at h; cases h
    | some t =>
      rw [h1] at h
      dsimp only at h
      rw [Option.map_eq_some_iff] at h
      obtain ⟨l, h2, rfl⟩ := h
      refine ⟨pre, post.dropLast, ?_, ?_, hne.1, hne.2, h1, h2⟩
      · rw [e, ← e2]; simp
      · intro hm; exact hno ((List.dropLast_sublist post).subset hm)

/-- **Implicit_Spec, tokens** -/
theorem implicitSpec_tokens (o : Leaves A) (hf : Faithful o) (s : Str) (n : ImplicitSpec A)
    (h : matchImplicitSpec o s = some n) : toks (tostrImplicitSpec o n) = toks s := by
  obtain ⟨pre, post, e, _, _, _, h1, h2⟩ := implicitSpec_parts o s n h
  rw [tostrImplicitSpec_eq, e]
  simp only [toks_append, toks_cons_nonspace _ (show isSpace '(' = false by decide),
    hf _ _ _ h1, hf _ _ _ h2, toks_rstrip, toks_strip]

example : matchImplicitSpec echo "double precision ( a - h , o-z )".toList
    = some ⟨"double precision".toList, "a - h , o-z".toList⟩ := by decide

/-! ## Intent_Stmt -/

theorem tostrIntentStmt_eq (o : Leaves A) (n : IntentStmt A) :
    tostrIntentStmt o n = "INTENT(".toList ++ o.render n.spec ++ ") :: ".toList ++ o.render n.names := rfl

/-- the parts of the text of an `Intent_Stmt` -/
theorem intentStmt_parts (o : Leaves A) (s : Str) (n : IntentStmt A)
    (h : matchIntentStmt o s = some n) :
    ∃ k a post, upper k = "INTENT".toList ∧ toks k = k ∧
      lstrip (s.drop 6) = '(' :: a ++ ')' :: post ∧ s = k ++ s.drop 6 ∧
      o.leaf .intentSpec (strip a) = some n.spec ∧
      o.leaf .dummyArgNameList
        (if sw (lstrip post) "::" then lstrip ((lstrip post).drop 2) else lstrip post) = some n.names := by
  unfold matchIntentStmt at h
  split at h
  · cases h
  rename_i hk
  have hk' : kwAt "INTENT" s = true := by simpa using hk
  obtain ⟨k, e, uk, tk⟩ := kwAt_spec_p hk' (by decide)
  rw [show "INTENT".length = 6 from by decide] at e
  dsimp only at h
  generalize lstrip (s.drop 6) = line at h
  split at h
  · cases h
  rename_i hp
  simp only [Bool.or_eq_true, not_or, Bool.not_eq_true, Bool.not_eq_false'] at hp
  have hp' : sw line "(" = true := by simpa using hp.2
  cases hc : cutLast ')' line with
  | none => rw [hc] at h; cases h
  | some p =>
    obtain ⟨pre, post⟩ := p
    rw [hc] at h
    dsimp only at h
    obtain ⟨e1, _⟩ := cutLast_spec _ _ _ hc
    have e2 := sw_paren hp'
    -- `pre` starts with the opening bracket
    have e3 : pre = '(' :: pre.drop 1 := by
      cases pre with
      | nil => rw [e1] at e2; simp at e2
      | cons c pre' => rw [e1] at e2; simp at e2; subst e2; rfl
    by_cases c1 : (strip (pre.drop 1)).isEmpty = true
    · rw [if_pos c1] at h; cases h
    rw [if_neg c1] at h
    generalize hl2 : (if sw (lstrip post) "::" = true then lstrip (List.drop 2 (lstrip post))
      else lstrip post) = line2 at h
    by_cases c2 : line2.isEmpty = true
    · rw [if_pos c2] at h; cases h
    rw [if_neg c2] at h
    cases h1 : o.leaf .intentSpec (strip (pre.drop 1)) with
    | none => rw [h1] at h; cases h
    | some sp =>
      rw [h1] at h
      dsimp only at h
      rw [Option.map_eq_some_iff] at h
      obtain ⟨l, h2, rfl⟩ := h
      subst hl2
      refine ⟨k, pre.drop 1, post, uk, tk, ?_, e, h1, h2⟩
      rw [e1]
      conv => lhs; rw [e3]

/-- **Intent_Stmt, tokens**: the keyword is upper-cased, the optional `::` is inserted, the rest is kept -/
theorem intentStmt_tokens (o : Leaves A) (hf : Faithful o) (s : Str) (n : IntentStmt A)
    (h : matchIntentStmt o s = some n) :
    ∃ k a b, upper k = "INTENT".toList ∧
      (toks s = k ++ '(' :: a ++ ')' :: b ∨ toks s = k ++ '(' :: a ++ ")::".toList ++ b) ∧
      toks (tostrIntentStmt o n) = "INTENT(".toList ++ a ++ ")::".toList ++ b := by
  obtain ⟨k, a, post, uk, tk, e1, e0, h1, h2⟩ := intentStmt_parts o s n h
  have es : toks s = k ++ '(' :: toks a ++ ')' :: toks post := by
    conv => lhs; rw [e0]
    rw [toks_append, tk, ← toks_lstrip (s.drop 6), e1]
    simp only [List.cons_append, toks_append, toks_cons_nonspace _ (show isSpace '(' = false by decide),
      toks_cons_nonspace _ (show isSpace ')' = false by decide)]
    simp
  have fmt : toks (tostrIntentStmt o n) = "INTENT(".toList ++ toks (strip a) ++ ")::".toList ++
      toks (if sw (lstrip post) "::" then lstrip ((lstrip post).drop 2) else lstrip post) := by
    rw [tostrIntentStmt_eq]
    simp only [toks_append, hf _ _ _ h1, hf _ _ _ h2]
    rw [show toks "INTENT(".toList = "INTENT(".toList from by decide,
      show toks ") :: ".toList = ")::".toList from by decide]
  rw [toks_strip] at fmt
  by_cases hc : sw (lstrip post) "::" = true
  · rw [if_pos hc, toks_lstrip] at fmt
    refine ⟨k, toks a, toks ((lstrip post).drop 2), uk, Or.inr ?_, fmt⟩
    rw [es, ← toks_lstrip post]
    conv => lhs; rw [sw_colons hc]
    rw [toks_cons_nonspace _ (show isSpace ':' = false by decide),
      toks_cons_nonspace _ (show isSpace ':' = false by decide)]
    simp
  · rw [if_neg hc, toks_lstrip] at fmt
    exact ⟨k, toks a, toks post, uk, Or.inl es, fmt⟩

example : matchIntentStmt echo "intent ( in out ) a, b".toList
    = some ⟨"in out".toList, "a, b".toList⟩ := by decide
example : matchIntentStmt echo "Intent(in)::a".toList = some ⟨"in".toList, "a".toList⟩ := by decide

/-! ## Initialization -/

theorem tostrInitialization_ptr (o : Leaves A) (a : A) :
    tostrInitialization o (.ptr a) = "=> ".toList ++ o.render a := rfl
theorem tostrInitialization_val (o : Leaves A) (a : A) :
    tostrInitialization o (.val a) = "= ".toList ++ o.render a := rfl

/-- **Initialization, tokens** -/
theorem initialization_tokens (o : Leaves A) (hf : Faithful o) (s : Str) (n : Init A)
    (h : matchInitialization o s = some n) : toks (tostrInitialization o n) = toks s := by
  unfold matchInitialization at h
  split at h
  · rename_i hc
    rw [Option.map_eq_some_iff] at h
    obtain ⟨a, ha, rfl⟩ := h
    rw [tostrInitialization_ptr, toks_append, hf _ _ _ ha, toks_lstrip]
    conv => rhs; rw [sw_arrow hc]
    rw [toks_cons_nonspace _ (show isSpace '=' = false by decide),
      toks_cons_nonspace _ (show isSpace '>' = false by decide)]
    rw [show toks "=> ".toList = ['=', '>'] from by decide]
    rfl
  · split at h
    · rename_i hc
      rw [Option.map_eq_some_iff] at h
      obtain ⟨a, ha, rfl⟩ := h
      rw [tostrInitialization_val, toks_append, hf _ _ _ ha, toks_lstrip]
      conv => rhs; rw [sw_eq hc]
      rw [toks_cons_nonspace _ (show isSpace '=' = false by decide)]
      rw [show toks "= ".toList = ['='] from by decide]
      rfl
    · cases h

example : matchInitialization echo "=>  null()".toList = some (.ptr "null()".toList) := by decide
example : matchInitialization echo "= 1 + 2".toList = some (.val "1 + 2".toList) := by decide

/-! ## fixpoints: Intent_Stmt, Initialization, Implicit_Spec -/

theorem isEmpty_false_of_ne {t : Str} (h : t ≠ []) : t.isEmpty = false := by
  cases t with
  | nil => exact absurd rfl h
  | cons _ _ => rfl

/-- the printed texts of the children that make `Intent_Stmt` re-matchable: tight, non-empty, and
    no `)` in the name list (`match` cuts at the LAST `)` of the line) -/
def IntentRenderOK (o : Leaves A) (n : IntentStmt A) : Prop :=
  o.render n.spec ≠ [] ∧ lstrip (o.render n.spec) = o.render n.spec ∧
  rstrip (o.render n.spec) = o.render n.spec ∧
  o.render n.names ≠ [] ∧ lstrip (o.render n.names) = o.render n.names ∧ ')' ∉ o.render n.names

theorem matchIntentStmt_printed (o : Leaves A) (a b : Str) (ha : a ≠ []) (hl : lstrip a = a)
    (hr : rstrip a = a) (hb : b ≠ []) (hlb : lstrip b = b) (hp : ')' ∉ b) :
    matchIntentStmt o ("INTENT(".toList ++ a ++ ") :: ".toList ++ b) =
      match o.leaf .intentSpec a with
      | none => none
      | some sp => (o.leaf .dummyArgNameList b).map fun l => ⟨sp, l⟩ := by
  have e0 : "INTENT(".toList ++ a ++ ") :: ".toList ++ b =
      "INTENT".toList ++ '(' :: (a ++ ')' :: ' ' :: ':' :: ':' :: ' ' :: b) := by simp
  obtain ⟨k1, k2⟩ := kwAt_lit' "INTENT" (by decide) ('(' :: (a ++ ')' :: ' ' :: ':' :: ':' :: ' ' :: b))
  rw [show "INTENT".length = 6 from by decide] at k2
  have l1 : lstrip ('(' :: (a ++ ')' :: ' ' :: ':' :: ':' :: ' ' :: b)) =
      '(' :: (a ++ ')' :: ' ' :: ':' :: ':' :: ' ' :: b) := lstrip_cons_nonspace _ (by decide)
  have l2 : cutLast ')' ('(' :: (a ++ ')' :: ' ' :: ':' :: ':' :: ' ' :: b)) =
      some ('(' :: a, ' ' :: ':' :: ':' :: ' ' :: b) := by
    have := cutLast_append (c := ')') ('(' :: a) (' ' :: ':' :: ':' :: ' ' :: b) (by simp [hp])
    simpa using this
  have l3 : (('(' :: (a ++ ')' :: ' ' :: ':' :: ':' :: ' ' :: b)).isEmpty ||
      !sw ('(' :: (a ++ ')' :: ' ' :: ':' :: ':' :: ' ' :: b)) "(") = false := by
    simp [sw, isPrefix]
  have p1 : lstrip (' ' :: ':' :: ':' :: ' ' :: b) = ':' :: ':' :: ' ' :: b := by
    rw [lstrip_space_cons, lstrip_cons_nonspace _ (by decide)]
  have p2 : sw (':' :: ':' :: ' ' :: b) "::" = true := by simp [sw, isPrefix]
  have p3 : lstrip ((':' :: ':' :: ' ' :: b).drop 2) = b := by
    rw [show (':' :: ':' :: ' ' :: b).drop 2 = ' ' :: b from rfl, lstrip_space_cons, hlb]
  have sa : strip (('(' :: a).drop 1) = a := by
    rw [show ('(' :: a).drop 1 = a from rfl]; exact strip_self hl hr
  unfold matchIntentStmt
  rw [e0, k1, k2]
  dsimp only
  rw [l1, l3, l2]
  dsimp only
  rw [sa, p1, p2, if_pos rfl, p3, isEmpty_false_of_ne ha, isEmpty_false_of_ne hb]
  simp
  cases o.leaf .intentSpec a <;> rfl

theorem intentStmt_src (o : Leaves A) (s : Str) (n : IntentStmt A) (h : matchIntentStmt o s = some n) :
    (∃ t, o.leaf .intentSpec t = some n.spec) ∧ (∃ t, o.leaf .dummyArgNameList t = some n.names) := by
  obtain ⟨_, _, _, _, _, _, _, h1, h2⟩ := intentStmt_parts o s n h
  exact ⟨⟨_, h1⟩, ⟨_, h2⟩⟩

/-- **Intent_Stmt, fixpoint** -/
theorem intentStmt_fixpoint (o : Leaves A) (hs : Stable o) (s : Str) (n : IntentStmt A)
    (h : matchIntentStmt o s = some n) (hok : IntentRenderOK o n) :
    ∃ n', matchIntentStmt o (tostrIntentStmt o n) = some n' ∧
      tostrIntentStmt o n' = tostrIntentStmt o n := by
  obtain ⟨⟨t1, h1⟩, ⟨t2, h2⟩⟩ := intentStmt_src o s n h
  obtain ⟨a', m1, r1⟩ := hs _ _ _ h1
  obtain ⟨b', m2, r2⟩ := hs _ _ _ h2
  obtain ⟨c1, c2, c3, c4, c5, c6⟩ := hok
  refine ⟨⟨a', b'⟩, ?_, ?_⟩
  · rw [tostrIntentStmt_eq, matchIntentStmt_printed o _ _ c1 c2 c3 c4 c5 c6, m1]
    dsimp only
    rw [m2]; rfl
  · rw [tostrIntentStmt_eq, tostrIntentStmt_eq]
    dsimp only
    rw [r1, r2]

example : matchIntentStmt echo "intent ( in out ) a, b".toList = some ⟨"in out".toList, "a, b".toList⟩
    ∧ IntentRenderOK echo ⟨"in out".toList, "a, b".toList⟩ :=
  ⟨by decide, by decide, by decide, by decide, by decide, by decide, by decide⟩

/-- the printed text of the child must be left-tight -/
def InitRenderOK (o : Leaves A) : Init A → Prop
  | .ptr a => lstrip (o.render a) = o.render a
  | .val a => lstrip (o.render a) = o.render a

theorem matchInitialization_ptr (o : Leaves A) (t : Str) (hl : lstrip t = t) :
    matchInitialization o ("=> ".toList ++ t) = (o.leaf .nullInit t).map .ptr := by
  have e0 : "=> ".toList ++ t = '=' :: '>' :: ' ' :: t := by simp
  have p1 : sw ('=' :: '>' :: ' ' :: t) "=>" = true := by simp [sw, isPrefix]
  have p2 : lstrip (('=' :: '>' :: ' ' :: t).drop 2) = t := by
    rw [show ('=' :: '>' :: ' ' :: t).drop 2 = ' ' :: t from rfl, lstrip_space_cons, hl]
  unfold matchInitialization
  rw [e0, p1, if_pos rfl, p2]

theorem matchInitialization_val (o : Leaves A) (t : Str) (hl : lstrip t = t) :
    matchInitialization o ("= ".toList ++ t) = (o.leaf .initializationExpr t).map .val := by
  have e0 : "= ".toList ++ t = '=' :: ' ' :: t := by simp
  have p0 : sw ('=' :: ' ' :: t) "=>" = false := by simp [sw, isPrefix]
  have p1 : sw ('=' :: ' ' :: t) "=" = true := by simp [sw, isPrefix]
  have p2 : lstrip (('=' :: ' ' :: t).drop 1) = t := by
    rw [show ('=' :: ' ' :: t).drop 1 = ' ' :: t from rfl, lstrip_space_cons, hl]
  unfold matchInitialization
  rw [e0, p0, p1, if_neg (by simp), if_pos rfl, p2]

/-- **Initialization, fixpoint** -/
theorem initialization_fixpoint (o : Leaves A) (hs : Stable o) (s : Str) (n : Init A)
    (h : matchInitialization o s = some n) (hok : InitRenderOK o n) :
    ∃ n', matchInitialization o (tostrInitialization o n) = some n' ∧
      tostrInitialization o n' = tostrInitialization o n := by
  have src : match n with
      | .ptr a => ∃ t, o.leaf .nullInit t = some a
      | .val a => ∃ t, o.leaf .initializationExpr t = some a := by
    unfold matchInitialization at h
    split at h
    · rw [Option.map_eq_some_iff] at h
      obtain ⟨a, ha, rfl⟩ := h
      exact ⟨_, ha⟩
    · split at h
      · rw [Option.map_eq_some_iff] at h
        obtain ⟨a, ha, rfl⟩ := h
        exact ⟨_, ha⟩
      · cases h
  cases n with
  | ptr a =>
    obtain ⟨t, ht⟩ := src
    obtain ⟨a', m', r'⟩ := hs _ _ _ ht
    refine ⟨.ptr a', ?_, ?_⟩
    · rw [tostrInitialization_ptr, matchInitialization_ptr o _ hok, m']; rfl
    · rw [tostrInitialization_ptr, tostrInitialization_ptr, r']
  | val a =>
    obtain ⟨t, ht⟩ := src
    obtain ⟨a', m', r'⟩ := hs _ _ _ ht
    refine ⟨.val a', ?_, ?_⟩
    · rw [tostrInitialization_val, matchInitialization_val o _ hok, m']; rfl
    · rw [tostrInitialization_val, tostrInitialization_val, r']

example : matchInitialization echo "=>  null()".toList = some (.ptr "null()".toList)
    ∧ InitRenderOK echo (.ptr "null()".toList) := ⟨by decide, by show lstrip _ = _; decide⟩
example : matchInitialization echo "= 1 + 2".toList = some (.val "1 + 2".toList)
    ∧ InitRenderOK echo (.val "1 + 2".toList) := ⟨by decide, by show lstrip _ = _; decide⟩

/-- the printed texts of the children that make `Implicit_Spec` re-matchable: tight, non-empty, and
    no `(` in the letter list (`match` cuts at the LAST `(`) -/
def ImplicitSpecRenderOK (o : Leaves A) (n : ImplicitSpec A) : Prop :=
  o.render n.typeSpec ≠ [] ∧ rstrip (o.render n.typeSpec) = o.render n.typeSpec ∧
  o.render n.letters ≠ [] ∧ lstrip (o.render n.letters) = o.render n.letters ∧
  rstrip (o.render n.letters) = o.render n.letters ∧ '(' ∉ o.render n.letters

theorem matchImplicitSpec_printed (o : Leaves A) (a b : Str) (ha : a ≠ []) (hr : rstrip a = a)
    (hb : b ≠ []) (hlb : lstrip b = b) (hrb : rstrip b = b) (hp : '(' ∉ b) :
    matchImplicitSpec o (a ++ '(' :: b ++ [')']) =
      match o.leaf .declarationTypeSpec a with
      | none => none
      | some t => (o.leaf .letterSpecList b).map fun l => ⟨t, l⟩ := by
  have e0 : a ++ '(' :: b ++ [')'] = a ++ '(' :: (b ++ [')']) := by simp
  have p1 : ew (a ++ '(' :: (b ++ [')'])) ')' = true := by
    unfold ew
    rw [getLast?_app_cons, show '(' :: (b ++ [')']) = ('(' :: b) ++ [')'] from rfl, List.getLast?_concat]
    simp
  have p2 : cutLast '(' (a ++ '(' :: (b ++ [')'])) = some (a, b ++ [')']) :=
    cutLast_append a (b ++ [')']) (by simp [hp])
  have p3 : strip ((b ++ [')']).dropLast) = b := by
    rw [List.dropLast_concat]; exact strip_self hlb hrb
  unfold matchImplicitSpec
  rw [e0, p1, p2]
  dsimp only
  rw [p3, hr, isEmpty_false_of_ne ha, isEmpty_false_of_ne hb]
  simp
  cases o.leaf .declarationTypeSpec a <;> rfl

/-- **Implicit_Spec, fixpoint** -/
theorem implicitSpec_fixpoint (o : Leaves A) (hs : Stable o) (s : Str) (n : ImplicitSpec A)
    (h : matchImplicitSpec o s = some n) (hok : ImplicitSpecRenderOK o n) :
    ∃ n', matchImplicitSpec o (tostrImplicitSpec o n) = some n' ∧
      tostrImplicitSpec o n' = tostrImplicitSpec o n := by
  obtain ⟨_, _, _, _, _, _, h1, h2⟩ := implicitSpec_parts o s n h
  obtain ⟨a', m1, r1⟩ := hs _ _ _ h1
  obtain ⟨b', m2, r2⟩ := hs _ _ _ h2
  obtain ⟨c1, c2, c3, c4, c5, c6⟩ := hok
  refine ⟨⟨a', b'⟩, ?_, ?_⟩
  · rw [tostrImplicitSpec_eq, matchImplicitSpec_printed o _ _ c1 c2 c3 c4 c5 c6, m1]
    dsimp only
    rw [m2]; rfl
  · rw [tostrImplicitSpec_eq, tostrImplicitSpec_eq]
    dsimp only
    rw [r1, r2]

example : matchImplicitSpec echo "double precision ( a - h , o-z )".toList
      = some ⟨"double precision".toList, "a - h , o-z".toList⟩
    ∧ ImplicitSpecRenderOK echo ⟨"double precision".toList, "a - h , o-z".toList⟩ :=
  ⟨by decide, by decide, by decide, by decide, by decide, by decide, by decide⟩
/-- without `'(' ∉ letters` the statement fails (the cut moves into the letter list) -/
example : matchImplicitSpec echo (tostrImplicitSpec echo ⟨"t".toList, "(a)".toList⟩)
    = some ⟨"t(".toList, "a)".toList⟩ := by decide

/-! ## Namelist_Stmt -/

/-- the token-level shape of the text after the keyword: `/` name `/` list [`,`], repeated; the
    texts contain no `/`.  The comma after a list is optional — also after the LAST list. -/
inductive NlRel : Str → List (Str × Str) → Prop
  | nil : NlRel [] []
  | cons (nm lst c rest : Str) (ps : List (Str × Str)) :
      (c = [] ∨ c = [',']) → '/' ∉ nm → '/' ∉ lst → NlRel rest ps →
      NlRel ('/' :: toks nm ++ '/' :: toks lst ++ c ++ rest) ((nm, lst) :: ps)

/-- the tokens of the printed statement after the keyword: `/name/list` joined by `,` -/
def nlCanon (ps : List (Str × Str)) : Str :=
  joinStr [','] (ps.map fun p => '/' :: toks p.1 ++ '/' :: toks p.2)

/-- every part with its `/` in front -/
def slashes (parts : List Str) : Str := (parts.map fun p => '/' :: p).flatten

theorem joinStr_slashes : ∀ (parts : List Str) (a : Str),
    joinStr ['/'] (a :: parts) = a ++ slashes parts
  | [], a => by simp [joinStr, slashes]
  | b :: parts, a => by
    have ih := joinStr_slashes parts b
    show a ++ ['/'] ++ joinStr ['/'] (b :: parts) = _
    rw [ih]
    simp [slashes]

theorem splitGo_char_nomem (c : Char) : ∀ (s : Str), ∀ p ∈ splitGo [c] 0 s, c ∉ p
  | [], p, hp => by
    simp [splitGo] at hp; subst hp; simp
  | x :: cs, p, hp => by
    have ih := splitGo_char_nomem c cs
    unfold splitGo at hp
    by_cases hx : (c == x) = true
    · have hpre : isPrefix [c] (x :: cs) = true := by simp [isPrefix, hx]
      rw [if_pos hpre] at hp
      simp only [List.length_singleton, Nat.sub_self, List.mem_cons] at hp
      rcases hp with rfl | hp
      · simp
      · exact ih p hp
    · have hpre : isPrefix [c] (x :: cs) = false := by simp [isPrefix, hx]
      rw [hpre] at hp
      simp only [Bool.false_eq_true, if_false] at hp
      cases hq : splitGo [c] 0 cs with
      | nil => exact absurd hq (splitGo_ne_nil _ _ _)
      | cons hd t =>
        rw [hq] at hp ih
        simp only [List.mem_cons] at hp
        rcases hp with rfl | hp
        · intro hm
          simp only [List.mem_cons] at hm
          rcases hm with e | e
          · subst e; simp at hx
          · exact ih hd (by simp) e
        · exact ih p (by simp [hp])

theorem mem_of_mem_strip {c : Char} {p : Str} (h : c ∈ strip p) : c ∈ p := by
  obtain ⟨w1, w2, e, _, _⟩ := strip_decomp p
  rw [e]; simp [h]

theorem mem_of_mem_rstrip {c : Char} {p : Str} (h : c ∈ rstrip p) : c ∈ p := by
  have h' : c ∈ p.reverse.dropWhile isSpace := by simpa [rstrip] using h
  simpa using (List.dropWhile_suffix _).subset h'

/-- the `while len(parts) >= 2` loop: every pair of parts is `name`, `list [,]` -/
theorem namelistPairs_rel : ∀ (parts : List Str) (ps : List (Str × Str)),
    (∀ p ∈ parts, '/' ∉ p) → namelistPairs parts = some ps → NlRel (toks (slashes parts)) ps
  | [], ps, _, h => by
    simp [namelistPairs] at h; subst h; exact NlRel.nil
  | [_], ps, _, h => by simp [namelistPairs] at h
  | p0 :: p1 :: rest, ps, hn, h => by
    unfold namelistPairs at h
    dsimp only at h
    cases hr : namelistPairs rest with
    | none => rw [hr] at h; cases h
    | some ps' =>
      rw [hr] at h
      simp only [Option.some.injEq] at h
      subst h
      have ih := namelistPairs_rel rest ps' (fun p hp => hn p (by simp [hp])) hr
      have n0 : '/' ∉ strip p0 := fun hm => hn p0 (by simp) (mem_of_mem_strip hm)
      have n1 : '/' ∉ strip p1 := fun hm => hn p1 (by simp) (mem_of_mem_strip hm)
      have e : toks (slashes (p0 :: p1 :: rest)) =
          '/' :: toks p0 ++ '/' :: toks p1 ++ toks (slashes rest) := by
        have : slashes (p0 :: p1 :: rest) = '/' :: p0 ++ '/' :: p1 ++ slashes rest := by
          simp [slashes]
        rw [this]
        simp only [List.cons_append, toks_append, toks_cons_nonspace _ (show isSpace '/' = false by decide)]
      rw [e, ← toks_strip p0]
      by_cases hc : ew (strip p1) ',' = true
      · rw [if_pos hc]
        have e1 := ew_spec hc
        have e2 : toks p1 = toks (rstrip (strip p1).dropLast) ++ [','] := by
          rw [← toks_strip p1]
          conv => lhs; rw [e1]
          rw [toks_append, toks_rstrip]
          rfl
        have n2 : '/' ∉ rstrip (strip p1).dropLast := fun hm =>
          n1 ((List.dropLast_sublist _).subset (mem_of_mem_rstrip hm))
        have := NlRel.cons (strip p0) (rstrip (strip p1).dropLast) [','] _ ps' (Or.inr rfl) n0 n2 ih
        rw [e2]
        have eq : '/' :: toks (strip p0) ++ '/' :: (toks (rstrip (strip p1).dropLast) ++ [',']) ++
            toks (slashes rest) = '/' :: toks (strip p0) ++ '/' :: toks (rstrip (strip p1).dropLast) ++
            [','] ++ toks (slashes rest) := by simp
        rw [eq]; exact this
      · rw [if_neg hc]
        have := NlRel.cons (strip p0) (strip p1) [] _ ps' (Or.inl rfl) n0 n1 ih
        rw [← toks_strip p1]
        have eq : '/' :: toks (strip p0) ++ '/' :: toks (strip p1) ++ toks (slashes rest) =
            '/' :: toks (strip p0) ++ '/' :: toks (strip p1) ++ [] ++ toks (slashes rest) := by simp
        rw [eq]; exact this

/-- **Namelist_Stmt, the texts handed to the children**: the keyword, then `/name/ list [,]` repeated -/
theorem namelistTexts_tokens (s : Str) (ps : List (Str × Str)) (h : namelistTexts s = some ps) :
    ∃ k x, upper k = "NAMELIST".toList ∧ toks s = k ++ x ∧ NlRel x ps := by
  unfold namelistTexts at h
  dsimp only at h
  by_cases hk : kwAt "NAMELIST" (lstrip s) = true
  rotate_left
  · rw [if_pos (by simpa using hk)] at h; cases h
  rw [if_neg (by simp [hk])] at h
  obtain ⟨k, e, uk, tk⟩ := kwAt_spec_p hk (by decide)
  rw [show "NAMELIST".length = 8 from by decide] at e
  have es : toks s = k ++ toks (lstrip ((lstrip s).drop 8)) := by
    rw [← toks_lstrip s]
    conv => lhs; rw [e]
    rw [toks_append, tk, toks_lstrip]
  generalize lstrip ((lstrip s).drop 8) = line at h es
  by_cases hl : line.isEmpty = true
  · rw [if_pos hl] at h; cases h
  rw [if_neg hl] at h
  have hj := joinStr_splitGo ['/'] (by simp) line 0
  have hnm := splitGo_char_nomem '/' line
  cases hsp : splitGo ['/'] 0 line with
  | nil => rw [hsp] at h; cases h
  | cons first parts =>
    rw [hsp] at h hj hnm
    dsimp only at h
    by_cases hf : first.isEmpty = true
    rotate_left
    · rw [if_pos (by simpa using hf)] at h; cases h
    rw [if_neg (by simp [hf])] at h
    have hf' : first = [] := by simpa using hf
    subst hf'
    rw [joinStr_slashes] at hj
    refine ⟨k, toks (slashes parts), uk, ?_,
      namelistPairs_rel parts ps (fun p hp => hnm p (by simp [hp])) h⟩
    have hj' : line = slashes parts := by simpa using hj.symm
    rw [es, hj']

theorem toks_commaJoin_p : ∀ xs : List Str, toks (commaJoin xs) = joinStr [','] (xs.map toks)
  | [] => rfl
  | [_] => rfl
  | a :: b :: r => by
    have ih := toks_commaJoin_p (b :: r)
    show toks (a ++ [',', ' '] ++ commaJoin (b :: r)) =
      toks a ++ [','] ++ joinStr [','] ((b :: r).map toks)
    rw [toks_append, toks_append, toks_l1, ih]

theorem leafPairs_tokens (o : Leaves A) (hf : Faithful o) (c1 c2 : Cls) :
    ∀ (ps : List (Str × Str)) (items : List (A × A)), leafPairs o c1 c2 ps = some items →
      (items.map fun p => '/' :: o.render p.1 ++ "/ ".toList ++ o.render p.2).map toks =
        ps.map fun p => '/' :: toks p.1 ++ '/' :: toks p.2
  | [], items, h => by simp [leafPairs] at h; subst h; rfl
  | (a, b) :: ps, items, h => by
    unfold leafPairs at h
    cases h1 : o.leaf c1 a with
    | none => rw [h1] at h; cases h
    | some x =>
      rw [h1] at h
      dsimp only at h
      cases h2 : o.leaf c2 b with
      | none => rw [h2] at h; cases h
      | some y =>
        rw [h2] at h
        dsimp only at h
        cases h3 : leafPairs o c1 c2 ps with
        | none => rw [h3] at h; cases h
        | some r =>
          rw [h3] at h
          simp only [Option.some.injEq] at h
          subst h
          have ih := leafPairs_tokens o hf c1 c2 ps r h3
          simp only [List.map_cons, ih, List.cons.injEq, and_true]
          rw [toks_append, toks_append, toks_cons_nonspace _ (show isSpace '/' = false by decide),
            hf _ _ _ h1, hf _ _ _ h2, show toks "/ ".toList = ['/'] from by decide]
          simp

/-- **Namelist_Stmt, tokens**: the keyword is upper-cased; the text after it is `/name/ list [,]`
    repeated (`NlRel`), the printed text is `/name/list` joined by `,` (`nlCanon`): a missing comma
    between two groups is inserted, and a comma after the LAST list is silently dropped
    (`namelist_drops_trailing_comma`) -/
theorem namelistStmt_tokens (o : Leaves A) (hf : Faithful o) (s : Str) (items : List (A × A))
    (h : matchNamelistStmt o s = some items) :
    ∃ k x ps, upper k = "NAMELIST".toList ∧ toks s = k ++ x ∧ NlRel x ps ∧
      toks (tostrNamelistStmt o items) = "NAMELIST".toList ++ nlCanon ps := by
  unfold matchNamelistStmt at h
  cases ht : namelistTexts s with
  | none => rw [ht] at h; cases h
  | some ps =>
    rw [ht] at h
    dsimp only at h
    obtain ⟨k, x, uk, es, rel⟩ := namelistTexts_tokens s ps ht
    refine ⟨k, x, ps, uk, es, rel, ?_⟩
    show toks ("NAMELIST ".toList ++ commaJoin (items.map fun p =>
      '/' :: o.render p.1 ++ "/ ".toList ++ o.render p.2)) = _
    rw [toks_append, toks_commaJoin_p, leafPairs_tokens o hf _ _ ps items h,
      show toks "NAMELIST ".toList = "NAMELIST".toList from by decide]
    rfl

/-- the defect: the comma after the last list is accepted and dropped -/
example :
    (matchNamelistStmt echo "namelist /a/ x,".toList).map (tostrNamelistStmt echo)
      = some "NAMELIST /a/ x".toList := by decide

example : matchNamelistStmt echo "namelist /a/ x, y /b/ z".toList
    = some [("a".toList, "x, y".toList), ("b".toList, "z".toList)] := by decide
example : namelistTexts "Namelist /a/ x, y, /b/ z".toList
    = some [("a".toList, "x, y".toList), ("b".toList, "z".toList)] := by decide

end Fp.Decl
