import FparserModel.Expr

/-! helper lemmas for model M-C: splitting, soundness of one `match`, fuel independence -/
namespace Fp.Expr

/-! ### splitting -/

theorem splitLast_eq {p : T → Bool} : ∀ {ts : List T} {d : Nat} {l o r},
    splitLast p ts d = some (l, o, r) → ts = l ++ o :: r := by
  intro ts
  induction ts with
  | nil => intro d l o r h; simp [splitLast] at h
  | cons t rest ih =>
    intro d l o r h
    unfold splitLast at h
    split at h
    · rename_i l' o' r' heq
      simp only [Option.some.injEq, Prod.mk.injEq] at h
      obtain ⟨rfl, rfl, rfl⟩ := h
      have := ih heq
      simp [this]
    · split at h
      · simp only [Option.some.injEq, Prod.mk.injEq] at h
        obtain ⟨rfl, rfl, rfl⟩ := h
        simp
      · simp at h

theorem splitFirst_eq {p : T → Bool} : ∀ {ts : List T} {d : Nat} {l o r},
    splitFirst p ts d = some (l, o, r) → ts = l ++ o :: r := by
  intro ts
  induction ts with
  | nil => intro d l o r h; simp [splitFirst] at h
  | cons t rest ih =>
    intro d l o r h
    unfold splitFirst at h
    split at h
    · simp only [Option.some.injEq, Prod.mk.injEq] at h
      obtain ⟨rfl, rfl, rfl⟩ := h
      simp
    · split at h
      · rename_i l' o' r' heq
        simp only [Option.some.injEq, Prod.mk.injEq] at h
        obtain ⟨rfl, rfl, rfl⟩ := h
        have := ih heq
        simp [this]
      · simp at h

theorem splitLast_test {p : T → Bool} : ∀ {ts : List T} {d : Nat} {l o r},
    splitLast p ts d = some (l, o, r) → p o = true ∧ o.isParen = false := by
  intro ts
  induction ts with
  | nil => intro d l o r h; simp [splitLast] at h
  | cons t rest ih =>
    intro d l o r h
    unfold splitLast at h
    split at h
    · rename_i l' o' r' heq
      simp only [Option.some.injEq, Prod.mk.injEq] at h
      obtain ⟨rfl, rfl, rfl⟩ := h
      exact ih heq
    · split at h
      · rename_i hc
        simp only [Option.some.injEq, Prod.mk.injEq] at h
        obtain ⟨rfl, rfl, rfl⟩ := h
        simp at hc
        exact ⟨hc.2.2, hc.2.1⟩
      · simp at h

theorem splitFirst_test {p : T → Bool} : ∀ {ts : List T} {d : Nat} {l o r},
    splitFirst p ts d = some (l, o, r) → p o = true ∧ o.isParen = false := by
  intro ts
  induction ts with
  | nil => intro d l o r h; simp [splitFirst] at h
  | cons t rest ih =>
    intro d l o r h
    unfold splitFirst at h
    split at h
    · rename_i hc
      simp only [Option.some.injEq, Prod.mk.injEq] at h
      obtain ⟨rfl, rfl, rfl⟩ := h
      simp at hc
      exact ⟨hc.2.2, hc.2.1⟩
    · split at h
      · rename_i l' o' r' heq
        simp only [Option.some.injEq, Prod.mk.injEq] at h
        obtain ⟨rfl, rfl, rfl⟩ := h
        exact ih heq
      · simp at h

theorem getLast_dropLast {α} : ∀ {xs : List α} {x : α}, xs.getLast? = some x → xs = xs.dropLast ++ [x] := by
  intro xs
  induction xs with
  | nil => intro x h; simp at h
  | cons a rest ih =>
    intro x h
    cases rest with
    | nil => simp at h; simp [h]
    | cons b rest' =>
      rw [List.getLast?_cons_cons] at h
      have := ih h
      simp only [List.dropLast_cons_cons, List.cons_append]
      rw [← this]

/-! ### one `match` is sound when the nested calls are -/

theorem matchStep_sound {rec : Lv → List T → Option Ex}
    (hrec : ∀ k ts e, rec k ts = some e → render e = ts)
    {row : Row} {ts : List T} {e : Ex} (h : matchStep rec row ts = some e) : render e = ts := by
  unfold matchStep at h
  split at h
  · -- binL
    split at h
    · simp at h
    · split at h
      · rename_i l o r hs
        split at h
        · simp at h
        · split at h
          · simp at h
          · split at h
            · rename_i R hR
              split at h
              · rename_i L hL
                simp only [Option.some.injEq] at h
                subst h
                simp [render, hrec _ _ _ hR, hrec _ _ _ hL, splitLast_eq hs]
              · simp at h
            · simp at h
      · simp at h
  · -- binR
    split at h
    · rename_i l o r hs
      split at h
      · simp at h
      · split at h
        · simp at h
        · split at h
          · rename_i L hL
            split at h
            · rename_i R hR
              simp only [Option.some.injEq] at h
              subst h
              simp [render, hrec _ _ _ hR, hrec _ _ _ hL, splitFirst_eq hs]
            · simp at h
          · simp at h
    · simp at h
  · -- unary
    split at h
    · split at h
      · split at h
        · rename_i R hR
          simp only [Option.some.injEq] at h
          subst h
          simp [render, hrec _ _ _ hR]
        · simp at h
      · simp at h
    · simp at h
  · -- prim
    split at h
    · simp only [Option.some.injEq] at h
      subst h
      simp [render]
    · split at h
      · rename_i rest _ _ hl
        split at h
        · simp at h
        · split at h
          · rename_i e' he
            simp only [Option.some.injEq] at h
            subst h
            have := getLast_dropLast hl
            simp only [render, hrec _ _ _ he]
            rw [← this]
          · simp at h
      · simp at h
    · simp at h
  · simp at h

theorem parseF_succ (n : Nat) (k : Lv) (ts : List T) :
    parseF (n+1) k ts =
      match matchStep (parseF n) (rowOf k) ts with
      | some e => some e
      | none => match (rowOf k).next with
        | some k' => parseF n k' ts
        | none => none := rfl

theorem parseF_sound : ∀ (n : Nat) (k : Lv) (ts : List T) (e : Ex),
    parseF n k ts = some e → render e = ts := by
  intro n
  induction n with
  | zero => intro k ts e h; simp [parseF] at h
  | succ n ih =>
    intro k ts e h
    rw [parseF_succ] at h
    split at h
    · rename_i e' hm
      simp only [Option.some.injEq] at h
      subst h
      exact matchStep_sound ih hm
    · split at h
      · exact ih _ _ _ h
      · simp at h

/-! ### fuel independence -/

theorem rank_le (k : Lv) : k.rank ≤ 12 := by cases k <;> simp [Lv.rank]

theorem next_rank {k k' : Lv} (h : (rowOf k).next = some k') : k'.rank < k.rank := by
  cases k <;> simp [rowOf, levels] at h <;> subst h <;> simp [Lv.rank]

theorem splitLast_len {p : T → Bool} {ts : List T} {d : Nat} {l o r}
    (h : splitLast p ts d = some (l, o, r)) : l.length < ts.length ∧ r.length < ts.length := by
  have := splitLast_eq h; subst this; simp; omega

theorem splitFirst_len {p : T → Bool} {ts : List T} {d : Nat} {l o r}
    (h : splitFirst p ts d = some (l, o, r)) : l.length < ts.length ∧ r.length < ts.length := by
  have := splitFirst_eq h; subst this; simp; omega

/-- `match` only looks at the nested constructor on strictly shorter strings -/
theorem matchStep_congr {rec1 rec2 : Lv → List T → Option Ex} {row : Row} {ts : List T}
    (h : ∀ k' ts', ts'.length < ts.length → rec1 k' ts' = rec2 k' ts') :
    matchStep rec1 row ts = matchStep rec2 row ts := by
  unfold matchStep
  split
  · split
    · rfl
    · split
      · rename_i l o r hs
        have hl := splitLast_len hs
        rw [h _ _ hl.1, h _ _ hl.2]
      · rfl
  · split
    · rename_i l o r hs
      have hl := splitFirst_len hs
      rw [h _ _ hl.1, h _ _ hl.2]
    · rfl
  · split
    · rename_i o r
      rw [h _ r (by simp)]
    · rfl
  · split
    · rfl
    · split
      · rename_i rest _ _ hl
        have : rest.dropLast.length < (T.lp :: rest).length := by
          simp; omega
        rw [h _ _ this]
      · rfl
    · rfl
  · rfl

theorem parseF_stable : ∀ (n m : Nat) (k : Lv) (ts : List T),
    need k ts ≤ n → need k ts ≤ m → parseF n k ts = parseF m k ts := by
  intro n
  induction n with
  | zero => intro m k ts h; simp [need] at h
  | succ n ih =>
    intro m k ts hn hm
    cases m with
    | zero => simp [need] at hm
    | succ m =>
      rw [parseF_succ, parseF_succ]
      have hc : matchStep (parseF n) (rowOf k) ts = matchStep (parseF m) (rowOf k) ts := by
        apply matchStep_congr
        intro k' ts' hlt
        have := rank_le k'
        apply ih <;> simp only [need] at * <;> omega
      rw [hc]
      split
      · rfl
      · split
        · rename_i k' hk
          have := next_rank hk
          apply ih <;> simp only [need] at * <;> omega
        · rfl

end Fp.Expr
