import FparserModel.Print
/-!
# PrintBasic — every content element gets exactly one tab; the printed lines are the slots
-/
namespace Fp.Print

/-! ## one tab per content element -/

theorem actionMid_length (T : Tbl) (c : Cls) (tab : Str) :
    ∀ (extra : Str) (cs : List Cls), (actionMid T c tab extra cs).length = cs.length
  | _, [] => rfl
  | extra, k :: ks => by simp [actionMid, actionMid_length T c tab _ ks]

theorem midTabs_length (T : Tbl) (c : Cls) (tab : Str) (last : Cls) (mid : List Cls) :
    (midTabs T c tab last mid).length = mid.length := by
  unfold midTabs
  cases T.printer c <;> simp [actionMid_length]

/-- the key fact behind "nothing dropped, nothing duplicated": as many tabs as content elements -/
theorem childTabs_length (T : Tbl) (c : Cls) (tab : Str) (cs : List Cls) :
    (childTabs T c tab cs).length = cs.length := by
  match cs with
  | [] => rfl
  | [_] => rfl
  | _ :: k :: r => simp [childTabs, midTabs_length]

/-- `content = start :: (mid ++ [end])` -/
theorem childTabs_snoc (T : Tbl) (c : Cls) (tab : Str) (s e : Cls) (mid : List Cls) :
    childTabs T c tab (s :: (mid ++ [e])) = tab :: (midTabs T c tab e mid ++ [tab]) := by
  cases mid with
  | nil => simp [childTabs]
  | cons k r =>
    have h1 : (k :: (r ++ [e])).getLast (by simp) = e := by simp [List.getLast_cons]
    have h2 : (k :: (r ++ [e])).dropLast = k :: r := by
      have : k :: (r ++ [e]) = (k :: r) ++ [e] := rfl
      rw [this, List.dropLast_concat]
    simp only [List.cons_append, childTabs, h1, h2]

/-! ## `printItems` -/

theorem printItems_nil_right (T : Tbl) (tabs : List Str) : printItems T tabs [] = [] := by
  cases tabs <;> simp [printItems]

theorem printItems_cons (T : Tbl) (tab : Str) (tabs : List Str) (t : Tree) (ts : List Tree) :
    printItems T (tab :: tabs) (t :: ts) = printTree T tab t ++ printItems T tabs ts := by
  simp [printItems]

theorem printItems_append (T : Tbl) :
    ∀ (tabs1 tabs2 : List Str) (ts1 ts2 : List Tree), tabs1.length = ts1.length →
      printItems T (tabs1 ++ tabs2) (ts1 ++ ts2) = printItems T tabs1 ts1 ++ printItems T tabs2 ts2
  | [], _, [], _, _ => by simp [printItems_nil_right]
  | [], _, _ :: _, _, h => by simp at h
  | _ :: _, _, [], _, h => by simp at h
  | tab :: tabs1, tabs2, t :: ts1, ts2, h => by
    have := printItems_append T tabs1 tabs2 ts1 ts2 (by simpa using h)
    simp [printItems_cons, this]

/-- every element printed by its own printer with its own tab -/
theorem printItems_eq_flatMap (T : Tbl) :
    ∀ (tabs : List Str) (ts : List Tree),
      printItems T tabs ts = (tabs.zip ts).flatMap fun p => printTree T p.1 p.2
  | [], ts => by cases ts <;> simp [printItems]
  | _ :: _, [] => by simp [printItems]
  | tab :: tabs, t :: ts => by simp [printItems_cons, printItems_eq_flatMap T tabs ts]

/-- when the tab of an element is a function of its class -/
theorem printItems_map' (T : Tbl) (g : Cls → Str) :
    ∀ ts : List Tree, printItems T (ts.map fun t => g t.cls) ts = ts.flatMap fun t => printTree T (g t.cls) t
  | [] => by simp [printItems]
  | t :: ts => by
    have := printItems_map' T g ts
    simp [printItems_cons, this]

theorem printItems_map (T : Tbl) (g : Cls → Str) (ts : List Tree) :
    printItems T ((ts.map Tree.cls).map g) ts = ts.flatMap fun t => printTree T (g t.cls) t := by
  have := printItems_map' T g ts
  simpa [List.map_map, Function.comp_def] using this

theorem printTree_block_cons2 (T : Tbl) (tab : Str) (c : Cls) (x y : Tree) (r : List Tree) :
    printTree T tab (.block c (x :: y :: r))
      = printItems T (childTabs T c tab ((x :: y :: r).map Tree.cls)) (x :: y :: r) := by
  simp [printTree]

/-! ## the sources of the lines are the slots -/

mutual
theorem printTree_src (T : Tbl) (t : Tree) (tab : Str) :
    (printTree T tab t).map (·.src) = slots T t := by
  cases t with
  | leaf l => simp [printTree, slots]
  | block c content =>
    cases content with
    | nil => simp [printTree, slots]
    | cons x rest =>
      cases rest with
      | nil =>
        simp only [printTree, slots]
        split <;> simp [printTree_src T x tab]
      | cons y r =>
        rw [printTree_block_cons2]
        simp only [slots]
        exact printItems_src T (x :: y :: r) _ (by simp [childTabs_length])
theorem printItems_src (T : Tbl) (ts : List Tree) (tabs : List Str) (h : tabs.length = ts.length) :
    (printItems T tabs ts).map (·.src) = slotsL T ts := by
  cases ts with
  | nil => simp [printItems_nil_right, slotsL]
  | cons t ts =>
    cases tabs with
    | nil => simp at h
    | cons tab tabs =>
      simp [printItems_cons, slotsL, printTree_src T t tab, printItems_src T ts tabs (by simpa using h)]
end

mutual
theorem slots_sane (T : Tbl) (t : Tree) (h : t.sane T = true) : slots T t = t.frontier.map Src.leaf := by
  cases t with
  | leaf l => simp [slots, Tree.frontier]
  | block c content =>
    cases content with
    | nil => simp [Tree.sane] at h
    | cons x rest =>
      cases rest with
      | nil =>
        simp only [Tree.sane, saneL, List.isEmpty_cons, Bool.not_false, List.length_cons, List.length_nil,
          Nat.zero_add, beq_self_eq_true, Bool.and_true, Bool.true_and, Bool.and_eq_true,
          Bool.not_eq_eq_eq_not, Bool.not_true] at h
        simp [slots, h.1, Tree.frontier, frontierL, slots_sane T x h.2]
      | cons y r =>
        simp only [Tree.sane, Bool.and_eq_true] at h
        simp only [slots, Tree.frontier]
        exact slotsL_sane T (x :: y :: r) h.2
theorem slotsL_sane (T : Tbl) (ts : List Tree) (h : saneL T ts = true) :
    slotsL T ts = (frontierL ts).map Src.leaf := by
  cases ts with
  | nil => simp [slotsL, frontierL]
  | cons t ts =>
    simp only [saneL, Bool.and_eq_true] at h
    simp [slotsL, frontierL, slots_sane T t h.1, slotsL_sane T ts h.2]
end

mutual
/-- a sane tree prints without IndexError -/
theorem sane_not_raises (T : Tbl) (t : Tree) (h : t.sane T = true) : t.raises T = false := by
  cases t with
  | leaf l => rfl
  | block c content =>
    cases content with
    | nil => simp [Tree.sane] at h
    | cons x rest =>
      simp only [Tree.sane, Bool.and_eq_true] at h
      simp only [Tree.raises, List.isEmpty_cons, Bool.false_and, Bool.false_or]
      exact saneL_not_raises T (x :: rest) h.2
theorem saneL_not_raises (T : Tbl) (ts : List Tree) (h : saneL T ts = true) : raisesL T ts = false := by
  cases ts with
  | nil => rfl
  | cons t ts =>
    simp only [saneL, Bool.and_eq_true] at h
    simp [raisesL, sane_not_raises T t h.1, saneL_not_raises T ts h.2]
end

/-- the leaves behind the lines -/
def lineLeaves (ls : List Line) : List Leaf := ls.filterMap (·.src.leaf?)

theorem lineLeaves_of_src (ls : List Line) (fr : List Leaf) (h : ls.map (·.src) = fr.map Src.leaf) :
    lineLeaves ls = fr := by
  unfold lineLeaves
  have : ls.filterMap (·.src.leaf?) = (ls.map (·.src)).filterMap Src.leaf? := by
    rw [List.filterMap_map]; rfl
  rw [this, h, List.filterMap_map]
  simp [Src.leaf?, Function.comp_def]

/-! ## never an empty list of lines -/

mutual
theorem printTree_ne_nil (T : Tbl) (t : Tree) (tab : Str) : printTree T tab t ≠ [] := by
  cases t with
  | leaf l => simp [printTree]
  | block c content =>
    cases content with
    | nil => simp [printTree]
    | cons x rest =>
      cases rest with
      | nil =>
        simp only [printTree]
        split <;> simp [printTree_ne_nil T x tab]
      | cons y r =>
        rw [printTree_block_cons2]
        cases hct : childTabs T c tab ((x :: y :: r).map Tree.cls) with
        | nil =>
          have := childTabs_length T c tab ((x :: y :: r).map Tree.cls)
          rw [hct] at this; simp at this
        | cons tb tbs => simp [printItems_cons, printTree_ne_nil T x tb]
end

end Fp.Print
