import FparserModel.Wire
import FparserModel.SymTab
import FparserModel.Registry
import FparserModel.Tree
import FparserModel.Generated.Classes2008
import FparserModel.Generated.Intrinsics
/-!
Driver commands of the SymTab / Registry / Tree models (trusted glue, no theorems).

* `symtab   <script>`                     newline-separated ops → results (one line per op),
                                          `str(SYMBOL_TABLES)`, forest rendering, current scope
* `registry <history>`                    comma-separated `create` arguments → registry lines
* `regcheck`                              → model setup == generated real registry (f2003, f2008)
* `tree     <events> <root>`              → parent map, walk(root), root of every node,
                                          first immediate Base child of every node
* `deepcopy <events> <start> <facts> [deepcopy|pickle]`
                                          → `ok` + canonical copy + checks, or the error
-/
namespace FpDriver.SymTree
open Fp Fp.Wire

def toks (s : String) : List String := (s.splitOn " ").filter (· ≠ "")
def lines (s : String) : List String := (s.splitOn "\n").filter (· ≠ "")
def S (s : Str) : String := String.ofList s

/-! ## symtab -/
section symtab
open Fp.SymTab

def parsePath (s : String) : Option Path :=
  match s.splitOn "/" with
  | [] => none
  | top :: rest => some (top.toList, rest.map String.toNat!)

def showPath (p : Path) : String :=
  "/".intercalate (S p.1 :: p.2.map toString)

def resolve (st : Tables) (tgt : String) : Option Path :=
  if tgt == "cur" then st.cur else parsePath tgt

def brInner (s : String) : Option (List String) :=
  if s == "-" then none
  else
    let inner := ((s.drop 1).dropEnd 1).toString
    some ((inner.splitOn ",").filter (· ≠ ""))

def parseOnly (s : String) : Option (List (Str × Option Str)) :=
  (brInner s).map fun es => es.map fun e =>
    match e.splitOn "=" with
    | [a] => (a.toList, none)
    | a :: b :: _ => (a.toList, some b.toList)
    | [] => ([], none)

def parseRename (s : String) : Option (List (Str × Str)) :=
  (brInner s).map fun es => es.map fun e =>
    match e.splitOn "=" with
    | a :: b :: _ => (a.toList, b.toList)
    | [a] => (a.toList, [])
    | [] => ([], [])

def errStr : Err → String
  | .symbolTableError => "SymbolTableError"
  | .keyError => "KeyError"
  | .badPath => "badpath"

def intrTable (std : String) : IntrTable :=
  let cv (l : List String) := l.map String.toList
  if std == "f2008" then
    ⟨cv Generated.intrNames2008, Generated.intrGeneric2008.map (fun e => (e.1.toList, e.2.1, e.2.2)),
     Generated.intrSpecific2008.map (fun e => (e.1.toList, e.2.toList))⟩
  else
    ⟨cv Generated.intrNames2003, Generated.intrGeneric2003.map (fun e => (e.1.toList, e.2.1, e.2.2)),
     Generated.intrSpecific2003.map (fun e => (e.1.toList, e.2.toList))⟩

def intrStr : IntrRes → String
  | .noMatch => "nomatch"
  | .isIntrinsic => "match"
  | .syntaxError => "InternalSyntaxError"
  | .keyErrorEscapes => "KeyError"

def stepOp (st : Tables) (op : String) : Tables × String :=
  match toks op with
  | ["clear"] => (st.clear, "ok")
  | ["checks", v] => (st.enableChecks (v == "1"), "ok")
  | ["add", n] =>
    match st.add n.toList with
    | .ok s => (s, "ok")
    | .error e => (st, errStr e)
  | ["clookup", n] =>
    match st.lookup n.toList with
    | .ok p => (st, "ok:" ++ showPath p)
    | .error e => (st, errStr e)
  | ["enter", n] => (st.enterScope n.toList, "ok")
  | ["enters", n] => (st.enterScope n.toList true, "ok")
  | ["exit"] =>
    match st.exitScope with
    | .ok s => (s, "ok")
    | .error e => (st, errStr e)
  | ["remove", n] =>
    match st.remove n.toList with
    | .ok s => (s, "ok")
    | .error e => (st, errStr e)
  | ["sym", tgt, n, ty] =>
    match resolve st tgt with
    | none => (st, "badpath")
    | some p =>
      match st.tableAt p with
      | none => (st, "badpath")
      | some t =>
        match t.loc.addDataSymbol n.toList ty.toList with
        | .ok l => (st.updTable p (fun t => .mk l t.children), "ok")
        | .error e => (st, errStr e)
  | ["use", tgt, m, only, ren] =>
    match resolve st tgt with
    | none => (st, "badpath")
    | some p =>
      match st.tableAt p with
      | none => (st, "badpath")
      | some _ =>
        (st.updTable p (fun t => .mk (t.loc.addUseSymbols m.toList (parseOnly only) (parseRename ren))
                                  t.children), "ok")
  | ["look", tgt, n] =>
    match resolve st tgt with
    | none => (st, "badpath")
    | some p =>
      match st.lookupAt p n.toList with
      | .ok sym => (st, "found:" ++ S sym.name ++ ":" ++ S sym.ptype)
      | .error e => (st, errStr e)
  | ["wild", tgt] =>
    match (resolve st tgt).bind st.wildcardImportsAt with
    | none => (st, "badpath")
    | some l => (st, "wild:" ++ ",".intercalate (l.map S))
  | ["resolved", tgt] =>
    match (resolve st tgt).bind st.allResolvedAt with
    | none => (st, "badpath")
    | some b => (st, if b then "resolved:1" else "resolved:0")
  | ["intr", std, n, k] => (st, intrStr (st.intrinsicAt (intrTable std) n.toList k.toNat!))
  | ["str", tgt] =>
    match (resolve st tgt).bind st.tableAt with
    | none => (st, "badpath")
    | some t => (st, enc (S t.loc.str))
  | _ => (st, "badop")

def optSet (o : Option (List Str)) : String :=
  match o with
  | none => "-"
  | some l => "|".intercalate ((sortStrs l).map S)

def renderMod (m : ModUse) : String :=
  S m.name ++ "(w=" ++ (if m.wildcard then "1" else "0") ++ ",only=" ++ optSet m.onlySet
  ++ ",ren=" ++ optSet m.renameSet ++ ",syms=" ++ "|".intercalate ((sortStrs m.symbols).map S)
  ++ ",l2m=" ++ "|".intercalate (m.l2m.map fun e => S e.1 ++ ">" ++ S e.2) ++ ")"

def renderLocal (l : Local) : String :=
  S l.name ++ "{syms:" ++ ",".intercalate (l.syms.map fun e => S e.1 ++ ":" ++ S e.2.name ++ ":" ++ S e.2.ptype)
  ++ ";mods:" ++ ",".intercalate (l.mods.map fun e => S e.1 ++ "=" ++ renderMod e.2)
  ++ ";chk=" ++ (if l.checking then "1" else "0") ++ ";sub=" ++ (if l.submod then "1" else "0") ++ "}"

mutual
def renderTable : Table → String
  | .mk l ch => renderLocal l ++ "[" ++ renderTables ch ++ "]"
def renderTables : List Table → String
  | [] => ""
  | [t] => renderTable t
  | t :: ts => renderTable t ++ "," ++ renderTables ts
end

def renderForest (st : Tables) : String :=
  ";".intercalate (st.tops.map fun e => S e.1 ++ "=>" ++ renderTable e.2)

def handleSymtab (script : String) : String :=
  let (st, res) := (lines script).foldl (fun (acc : Tables × List String) op =>
    let (st, r) := stepOp acc.1 op
    (st, r :: acc.2)) (({} : Tables), [])
  "OK\t" ++ enc ("\n".intercalate res.reverse) ++ "\t" ++ enc (S st.str) ++ "\t"
  ++ enc (renderForest st) ++ "\t" ++ enc (match st.cur with | none => "-" | some p => showPath p)

end symtab

/-! ## registry -/
section registry
open Fp.Registry

def world : World := ⟨Generated.allClasses, Generated.raw2003, Generated.raw2008⟩

def nameOf (n : Nat) : String := Generated.names.getD n ("?" ++ toString n)

def clsStr (cid : Nat) : String :=
  match Generated.allClasses[cid]? with
  | some c => toString c.mod ++ ":" ++ nameOf c.name
  | none => "?" ++ toString cid

def parseStdArg (s : String) : StdArg :=
  if s == "f2003" then .std .f2003 else if s == "f2008" then .std .f2008
  else if s == "none" then .default else .invalid

def renderReg (r : Reg) : String :=
  "\n".intercalate (r.map fun e => nameOf e.1 ++ "=" ++ ",".intercalate (e.2.map clsStr))

def handleRegistry (hist : String) : String :=
  let evs := ((hist.splitOn ",").filter (· ≠ "")).map fun s => Ev.create (parseStdArg s)
  "OK\t" ++ enc (renderReg (registryAfter world evs))

/-- executable form of `setup_matches_generated`: the model's `setup (members std)` over the
    generated class facts equals the generated REAL `Base.subclasses` (both standards) -/
def handleRegcheck : String :=
  let ok03 := setup world (members world .f2003) == Generated.real2003
  let ok08 := setup world (members world .f2008) == Generated.real2008
  "OK\t" ++ enc (if ok03 then "1" else "0") ++ "\t" ++ enc (if ok08 then "1" else "0")
  ++ "\t" ++ enc (toString Generated.real2003.length) ++ "\t" ++ enc (toString Generated.real2008.length)

end registry

/-! ## tree -/
section tree
open Fp.Tree

/-- items: `n<id>` `s<hex>` `N` `o0` `o1` `T(` … `)` `L(` … `)` -/
def parseItems : Nat → List String → List Item × List String
  | 0, ts => ([], ts)
  | _ + 1, [] => ([], [])
  | fuel + 1, t :: ts =>
    if t == ")" then ([], ts)
    else
      let (it, rest) : Item × List String :=
        if t == "T(" then let (xs, r) := parseItems fuel ts; (.tup xs, r)
        else if t == "L(" then let (xs, r) := parseItems fuel ts; (.lst xs, r)
        else if t == "N" then (.none, ts)
        else if t == "o0" then (.other false, ts)
        else if t == "o1" then (.other true, ts)
        else if t.startsWith "n" then (.node (t.drop 1).toString.toNat!, ts)
        else (.str (dec (t.drop 1).toString), ts)
      let (more, rest) := parseItems fuel rest
      (it :: more, rest)

def items (ts : List String) : List Item := (parseItems (2 * ts.length + 2) ts).1

def parseEv (l : String) : Option Ev :=
  match toks l with
  | ["A", c] => some (.alloc c.toNat!)
  | "P" :: p :: rest => some (.attach p.toNat! (items rest))
  | ["R", n] => some (.reset n.toNat!)
  | "C" :: n :: rest => some (.children n.toNat! (items rest))
  | _ => none

def buildArena (script : String) : Arena := run [] ((lines script).filterMap parseEv)

mutual
def showItem : Item → String
  | .node id => "n" ++ toString id
  | .str s => "s" ++ enc s
  | .none => "N"
  | .other b => if b then "o1" else "o0"
  | .tup xs => "T( " ++ showItems xs ++ ")"
  | .lst xs => "L( " ++ showItems xs ++ ")"
def showItems : List Item → String
  | [] => ""
  | x :: xs => showItem x ++ " " ++ showItems xs
end

def optId : Option Nat → String
  | none => "-"
  | some n => toString n

def idxs (a : Arena) : List Nat := List.range a.length

def handleTree (script root : String) : String :=
  let a := buildArena script
  let parents := ",".intercalate ((idxs a).map fun i => toString i ++ ":" ++ optId ((a[i]?).bind (·.parent)))
  let w := showItems (walk a root.toNat!)
  let roots := ",".intercalate ((idxs a).map fun i => toString i ++ ":" ++ optId (getRoot a i))
  let gc := ",".intercalate ((idxs a).map fun i => toString i ++ ":" ++ optId (getChild a i (fun _ => true)))
  "OK\t" ++ enc parents ++ "\t" ++ enc w ++ "\t" ++ enc roots ++ "\t" ++ enc gc

/-- canonical rendering of the tree below `n` (classes + shape, no ids) -/
def canon (a : Arena) : Nat → Item → String
  | 0, _ => "!"
  | fuel + 1, it =>
    match it with
    | .node id =>
      match a[id]? with
      | some nd => "c" ++ toString nd.cls ++ "( " ++ " ".intercalate (nd.children.map (canon a fuel)) ++ " )"
      | none => "?"
    | .tup xs => "T( " ++ " ".intercalate (xs.map (canon a fuel)) ++ " )"
    | .lst xs => "L( " ++ " ".intercalate (xs.map (canon a fuel)) ++ " )"
    | .str s => "s" ++ enc s
    | .none => "N"
    | .other b => if b then "o1" else "o0"

/-- every node reachable from `r` by walk has its `_set_parent`-children pointing back -/
def parentsOK (a : Arena) (r : Nat) : Bool :=
  (walkIds a r).all fun i =>
    match a[i]? with
    | none => false
    | some nd => (spList nd.children).all fun k => ((a[k]?).bind (·.parent)) == some i

def parseFacts (s : String) : Nat → CopyFacts :=
  let tbl : List (Nat × CopyFacts) := (lines s).filterMap fun l =>
    match toks l with
    | [c, x, y, z] => some (c.toNat!, ⟨x == "1", y == "1", z == "1"⟩)
    | _ => none
  fun c => (Registry.nGet tbl c).getD ⟨true, true, true⟩

def handleDeepcopy (script start facts : String) (how : String := "deepcopy") : String :=
  let a := buildArena script
  match (if how == "pickle" then pickleRoundTrip (parseFacts facts) a start.toNat!
         else deepcopy (parseFacts facts) a start.toNat!) with
  | .error (.noString c) => "OK\t" ++ enc ("err:noString:" ++ toString c)
  | .error (.newRejects c) => "OK\t" ++ enc ("err:newRejects:" ++ toString c)
  | .error (.badId i) => "ERR\t" ++ enc ("bad id " ++ toString i)
  | .error .outOfFuel => "ERR\t" ++ enc "out of fuel"
  | .ok (a', y) =>
    let r := (getRoot a' y).getD y
    let r0 := (getRoot a start.toNat!).getD start.toNat!
    let fuel := arenaFuel a' + 2
    let disjoint := (walkIds a' r).all (fun i => i ≥ a.length)
    "OK\t" ++ enc "ok" ++ "\t" ++ enc (canon a' fuel (.node r)) ++ "\t" ++ enc (canon a' fuel (.node r0))
    ++ "\t" ++ enc (if disjoint then "1" else "0") ++ "\t" ++ enc (if parentsOK a' r then "1" else "0")
    ++ "\t" ++ enc (toString (walkIds a' r).length)

end tree

def handle : String → List String → Option String
  | "symtab", [s] => some (handleSymtab (dec s))
  | "symtab", [] => some (handleSymtab "")
  | "registry", [h] => some (handleRegistry (dec h))
  | "regcheck", _ => some handleRegcheck
  | "tree", [s, r] => some (handleTree (dec s) (dec r))
  | "deepcopy", [s, n, f] => some (handleDeepcopy (dec s) (dec n) (dec f))
  | "deepcopy", [s, n, f, h] => some (handleDeepcopy (dec s) (dec n) (dec f) (dec h))
  | "deepcopy", [s, n] => some (handleDeepcopy (dec s) (dec n) "")
  | _, _ => none

end FpDriver.SymTree
