import FparserModel.Proofs.SplitlineQuote
/-!
The quote-state specification: an automaton that reads one character at a time, written
independently of `_next_quote` / `splitquote`, and the proof that `splitquote` returns its state.

States: outside any literal / inside a literal opened by `q` / `pending q` = "inside a literal
opened by `q` and the previous character was `q`": that `q` is either the closing delimiter or
the first half of a doubled (escaped) `q`, which only the next character can tell.
-/
namespace Fp.Splitline
open Fp

inductive QState where
  | outside
  | inLit (q : Char)
  | pending (q : Char)
deriving Repr, DecidableEq

def qstep : QState → Char → QState
  | .outside, c => if isQuote c then .inLit c else .outside
  | .inLit q, c => if c == q then .pending q else .inLit q
  | .pending q, c =>
    if c == q then .inLit q                -- doubled delimiter = escape, still inside
    else if isQuote c then .inLit c        -- the literal was closed, `c` opens the next one
    else .outside

def qinit : Option Char → QState
  | none => .outside
  | some q => .inLit q

/-- at the end of the line a pending delimiter was the closing one -/
def qfinal : QState → Option Char
  | .outside => none
  | .inLit q => some q
  | .pending _ => none

def qrun (s : QState) (l : Str) : QState := l.foldl qstep s

/-- the open-quote state after reading `l` starting in state `stop` -/
def quoteStateAfter (stop : Option Char) (l : Str) : Option Char := qfinal (qrun (qinit stop) l)

@[simp] theorem qrun_nil (s : QState) : qrun s [] = s := rfl
@[simp] theorem qrun_cons (s : QState) (c : Char) (l : Str) : qrun s (c :: l) = qrun (qstep s c) l := rfl
theorem qrun_append (s : QState) (a b : Str) : qrun s (a ++ b) = qrun (qrun s a) b := by
  simp [qrun, List.foldl_append]

theorem qrun_spanPlain (l : Str) : qrun .outside l = qrun .outside (spanPlain l).2 := by
  induction l with
  | nil => rfl
  | cons c cs ih =>
    unfold spanPlain
    by_cases h : isQuote c
    · simp [h]
    · simp [h, qstep, ih]

theorem spanPlain_head (l p body : Str) (q : Char) (h : spanPlain l = (p, q :: body)) :
    isQuote q = true := by
  induction l generalizing p with
  | nil => simp [spanPlain] at h
  | cons c cs ih =>
    unfold spanPlain at h
    by_cases hc : isQuote c
    · simp [hc] at h; rcases h with ⟨_, rfl, _⟩; exact hc
    · simp [hc] at h
      exact ih (spanPlain cs).1 (by rw [← h.2])

theorem qrun_spanLit_none (q : Char) (l : Str) (h : spanLit q l = none) :
    qrun (.inLit q) l = .inLit q := by
  fun_induction spanLit q l <;> simp_all [qstep]

/-- after the closing delimiter found by `spanLit` the automaton is in `pending q`, and the
    remainder does not start with `q` -/
theorem qrun_spanLit_some (q : Char) (l a b : Str) (h : spanLit q l = some (a, b)) :
    qrun (.inLit q) l = qrun (.pending q) b ∧ b.head? ≠ some q := by
  fun_induction spanLit q l generalizing a b <;> simp_all [qstep]
  all_goals grind [qrun_cons, qrun_nil, qstep]

theorem qfinal_pending (q : Char) (b : Str) (h : b.head? ≠ some q) :
    qfinal (qrun (.pending q) b) = qfinal (qrun .outside b) := by
  cases b with
  | nil => rfl
  | cons c cs =>
    have : c ≠ q := by simpa using h
    simp [qstep, this]

theorem splitLoop_state (lower : Bool) (fuel : Nat) (l : Str) (h : l.length < fuel) :
    (splitLoop lower fuel l).2 = qfinal (qrun .outside l) := by
  induction fuel generalizing l with
  | zero => omega
  | succ n ih =>
    rw [splitLoop_succ]
    by_cases hl : l.isEmpty
    · simp_all [List.isEmpty_iff, qfinal]
    · simp only [hl]
      have hlen := spanPlain_length l
      rw [qrun_spanPlain l]
      rcases hsp : spanPlain l with ⟨p, r⟩
      rw [hsp] at hlen
      cases r with
      | nil => simp [qfinal]
      | cons q body =>
        have hq := spanPlain_head l p body q hsp
        simp only [Bool.false_eq_true, ↓reduceIte, qrun_cons, qstep, hq]
        cases hlit : spanLit q body with
        | none => simp [qrun_spanLit_none q body hlit, qfinal]
        | some lr =>
          rcases lr with ⟨lit, rest⟩
          have h1 := qrun_spanLit_some _ _ _ _ hlit
          have h2 := spanLit_length _ _ _ _ hlit
          have : rest.length < n := by simp at hlen; omega
          simp only [ih rest this, h1.1, qfinal_pending q rest h1.2]

theorem splitquote_state' (l : Str) (stop : Option Char) (lower : Bool) :
    (splitquote l stop lower).2 = quoteStateAfter stop l := by
  unfold splitquote quoteStateAfter
  cases stop with
  | none => exact splitLoop_state _ _ _ (by omega)
  | some q =>
    simp only [qinit]
    cases hlit : spanLit q l with
    | none => simp [qrun_spanLit_none q l hlit, qfinal]
    | some lr =>
      rcases lr with ⟨lit, rest⟩
      have h1 := qrun_spanLit_some _ _ _ _ hlit
      have h2 := splitLoop_state lower (rest.length + 1) rest (by omega)
      simp only [h2, h1.1, qfinal_pending q rest h1.2]

/-- composition: for any cut, provided the incoming state is a genuine quote character -/
theorem qfinal_qrun_requote (s : QState) (b : Str)
    (hs : ∀ q, s = .pending q → isQuote q = true) :
    qfinal (qrun s b) = qfinal (qrun (qinit (qfinal s)) b) := by
  cases s with
  | outside => rfl
  | inLit q => rfl
  | pending q =>
    have hq := hs q rfl
    cases b with
    | nil => rfl
    | cons c cs =>
      by_cases hc : c = q
      · subst hc; simp [qstep, qfinal, qinit, hq]
      · simp [qstep, qfinal, qinit, hc]

/-- a state reachable from a quote-character state only mentions quote characters -/
def QState.quoteOnly : QState → Prop
  | .outside => True
  | .inLit q => isQuote q = true
  | .pending q => isQuote q = true

theorem qstep_quoteOnly (s : QState) (c : Char) (h : s.quoteOnly) : (qstep s c).quoteOnly := by
  cases s <;> simp only [qstep] <;> (repeat' split) <;> simp_all [QState.quoteOnly]

theorem qrun_quoteOnly (s : QState) (l : Str) (h : s.quoteOnly) : (qrun s l).quoteOnly := by
  induction l generalizing s with
  | nil => exact h
  | cons c cs ih => exact ih _ (qstep_quoteOnly s c h)

end Fp.Splitline
