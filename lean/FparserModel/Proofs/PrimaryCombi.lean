import FparserModel.Primary
import FparserModel.Proofs.IoStmtLayoutCombi
/-!
`*_tostr_match_tokens` (token preservation (a) and parenthesis balance (d)) for the classes of the
operand layer (`FparserModel/Primary.lean`) that are INSTANCES OF THE GENERIC COMBINATORS
(`CallBase`, `BracketBase`, `SeparatorBase`, `KeywordValueBase`, `SequenceBase`), by instantiation /
generalisation of the generic theorems of `Proofs/IoStmtLayoutCombi.lean`.

New generic lemmas (any brackets / any one-character separator / `SeparatorBase` without a
right-hand class): `bracketAny_tostr_match_tokens`, `seqChar_tostr_match_tokens`,
`sepNoRhs_tostr_match_tokens`.
-/
namespace Fp.Primary
open Fp Fp.Splitline
open Fp.Combi (noBlank)
open Fp.IoStmt (Res Exc Slot Item Oracle Std runSlots runSlot tok combiPlan combiStr specList inner
  startsC endsC splitC)
open Fp.IoStmt (toks net OracleTok SrmOK CallEndOK echoO echoO_tok toks_append net_append toks_nil
  toks_cons toks_strip toks_lstrip toks_rstrip toks_upper toks_of_noBlank net_eq_of_toks net_toks
  combiPlan_bind_ok runSlots_pair_ok runSlots_cons_ok runSlots_nil_ok runSlot_none_ok runSlot_str_ok
  runSlot_child_ok runSlot_fail toks_item_of_child seg_of_tokenise Seg applyMap_empty
  text_toCombiItem toCombiItem textOracle ofCombiSlot ofCombi Res.bind_eq_ok
  bracket_tostr_match_tokens callcls_tostr_match_tokens_partial sep_tostr_match_tokens
  kvcls_tostr_match_tokens seq_tostr_match_tokens list_tostr_match_tokens isWord_colon)

variable {Node : Type}

/-! ## 1. CallBase instances -/

/-- **Part_Ref** (`CallBase.match(Part_Name, Section_Subscript_List, string, require_rhs=True)`).
    Partial (`SrmOK`, `CallEndOK`): see `callkw_tostr_match_tokens_partial` of IoStmtLayoutCombi. -/
theorem Part_Ref_tostr_match_tokens_partial (o : Oracle Node) (ho : OracleTok o) (s : Str)
    (items : List (Item Node))
    (hm : (combiPlan specPartRef s).bind (runSlots o) = .ok items) (hs : SrmOK s)
    (hend : CallEndOK s) :
    ∃ t, combiStr o specPartRef items = .ok t ∧ toks t = toks s ∧
      ((∀ n, Item.node n ∈ items → net (o.str n) = 0) → net t = 0) :=
  callcls_tostr_match_tokens_partial o ho _ _ _ _ s items hm hs hend

/-- **Function_Reference** -/
theorem Function_Reference_tostr_match_tokens_partial (o : Oracle Node) (ho : OracleTok o) (s : Str)
    (items : List (Item Node))
    (hm : (combiPlan specFunctionReference s).bind (runSlots o) = .ok items) (hs : SrmOK s)
    (hend : CallEndOK s) :
    ∃ t, combiStr o specFunctionReference items = .ok t ∧ toks t = toks s ∧
      ((∀ n, Item.node n ∈ items → net (o.str n) = 0) → net t = 0) :=
  callcls_tostr_match_tokens_partial o ho _ _ _ _ s items hm hs hend

/-- **Structure_Constructor** -/
theorem Structure_Constructor_tostr_match_tokens_partial (o : Oracle Node) (ho : OracleTok o) (s : Str)
    (items : List (Item Node))
    (hm : (combiPlan specStructureConstructor s).bind (runSlots o) = .ok items) (hs : SrmOK s)
    (hend : CallEndOK s) :
    ∃ t, combiStr o specStructureConstructor items = .ok t ∧ toks t = toks s ∧
      ((∀ n, Item.node n ∈ items → net (o.str n) = 0) → net t = 0) :=
  callcls_tostr_match_tokens_partial o ho _ _ _ _ s items hm hs hend

/-- **Derived_Type_Spec** -/
theorem Derived_Type_Spec_tostr_match_tokens_partial (o : Oracle Node) (ho : OracleTok o) (s : Str)
    (items : List (Item Node))
    (hm : (combiPlan specDerivedTypeSpec s).bind (runSlots o) = .ok items) (hs : SrmOK s)
    (hend : CallEndOK s) :
    ∃ t, combiStr o specDerivedTypeSpec items = .ok t ∧ toks t = toks s ∧
      ((∀ n, Item.node n ∈ items → net (o.str n) = 0) → net t = 0) :=
  callcls_tostr_match_tokens_partial o ho _ _ _ _ s items hm hs hend

/-- **Array_Section** -/
theorem Array_Section_tostr_match_tokens_partial (o : Oracle Node) (ho : OracleTok o) (s : Str)
    (items : List (Item Node))
    (hm : (combiPlan specArraySection s).bind (runSlots o) = .ok items) (hs : SrmOK s)
    (hend : CallEndOK s) :
    ∃ t, combiStr o specArraySection items = .ok t ∧ toks t = toks s ∧
      ((∀ n, Item.node n ∈ items → net (o.str n) = 0) → net t = 0) :=
  callcls_tostr_match_tokens_partial o ho _ _ _ _ s items hm hs hend

/-- **Substring** -/
theorem Substring_tostr_match_tokens_partial (o : Oracle Node) (ho : OracleTok o) (s : Str)
    (items : List (Item Node))
    (hm : (combiPlan specSubstring s).bind (runSlots o) = .ok items) (hs : SrmOK s)
    (hend : CallEndOK s) :
    ∃ t, combiStr o specSubstring items = .ok t ∧ toks t = toks s ∧
      ((∀ n, Item.node n ∈ items → net (o.str n) = 0) → net t = 0) :=
  callcls_tostr_match_tokens_partial o ho _ _ _ _ s items hm hs hend

/-- the plan of `Intrinsic_Function_Reference.match` returns the `CallBase` slots unchanged when the
    match succeeds (the table decision only appends a failing / raising slot) -/
theorem planIntrinsic_ok {o : Oracle Node} {iv : Str → Nat → SymTab.IntrRes} {s : Str}
    {items : List (Item Node)}
    (hm : (planIntrinsic iv s).bind (runSlots o) = .ok items) :
    (combiPlan specIntrinsicCall s).bind (runSlots o) = .ok items := by
  obtain ⟨slots, hp, hr⟩ := Res.bind_eq_ok hm
  unfold planIntrinsic at hp
  obtain ⟨slots0, hp0, hd⟩ := Res.bind_eq_ok hp
  rw [hp0]
  show runSlots o slots0 = .ok items
  have key : ∀ (x : Slot), (x = .fail ∨ ∃ e, x = .raise e) →
      ∀ (l : List Slot) (its : List (Item Node)), runSlots o (l ++ [x]) ≠ .ok its := by
    intro x hx l
    induction l with
    | nil =>
      intro its h
      obtain ⟨i, _, _, hi, _⟩ := runSlots_cons_ok h
      rcases hx with rfl | ⟨e, rfl⟩
      · exact runSlot_fail o i hi
      · exact IoStmt.runSlot_raise o e i hi
    | cons a l ih =>
      intro its h
      obtain ⟨_, is, _, _, his⟩ := runSlots_cons_ok h
      exact ih is his
  split at hd
  · split at hd <;> (try dsimp only at hd) <;> split at hd <;>
      first
        | (cases hd; exact hr)
        | (cases hd; exact absurd hr (key _ (.inl rfl) _ _))
        | (cases hd; exact absurd hr (key _ (.inr ⟨_, rfl⟩) _ _))
  · cases hd; exact hr

/-- **Intrinsic_Function_Reference** (the `CallBase` part) -/
theorem Intrinsic_Call_tostr_match_tokens_partial (o : Oracle Node) (ho : OracleTok o) (s : Str)
    (items : List (Item Node))
    (hm : (combiPlan specIntrinsicCall s).bind (runSlots o) = .ok items) (hs : SrmOK s)
    (hend : CallEndOK s) :
    ∃ t, combiStr o specIntrinsicCall items = .ok t ∧ toks t = toks s ∧
      ((∀ n, Item.node n ∈ items → net (o.str n) = 0) → net t = 0) :=
  callcls_tostr_match_tokens_partial o ho _ _ _ _ s items hm hs hend

/-- **Intrinsic_Function_Reference** (the whole `match`, any table decision `iv`) -/
theorem Intrinsic_Function_Reference_tostr_match_tokens_partial (o : Oracle Node) (ho : OracleTok o)
    (iv : Str → Nat → SymTab.IntrRes) (s : Str) (items : List (Item Node))
    (hm : (planIntrinsic iv s).bind (runSlots o) = .ok items) (hs : SrmOK s)
    (hend : CallEndOK s) :
    ∃ t, combiStr o specIntrinsicCall items = .ok t ∧ toks t = toks s ∧
      ((∀ n, Item.node n ∈ items → net (o.str n) = 0) → net t = 0) :=
  Intrinsic_Call_tostr_match_tokens_partial o ho s items (planIntrinsic_ok hm) hs hend

/-- the shape layer of `CallBase` never absorbs an unbalanced parenthesis: when the input is
    unbalanced, so is the printed text of one of the children (generic in the classes) -/
theorem callcls_rejects_unbalanced (o : Oracle Node) (ho : OracleTok o) (a b : ClassId) (u q : Bool)
    (s : Str) (items : List (Item Node))
    (hm : (combiPlan (.call (.cls a) (.cls b) u q) s).bind (runSlots o) = .ok items)
    (hs : SrmOK s) (hend : CallEndOK s) (hn : net s ≠ 0) :
    ∃ n, Item.node n ∈ items ∧ net (o.str n) ≠ 0 := by
  obtain ⟨t, _, ht, hb⟩ := callcls_tostr_match_tokens_partial o ho a b u q s items hm hs hend
  apply Classical.byContradiction
  intro hcon
  have hall : ∀ n, Item.node n ∈ items → net (o.str n) = 0 := by
    intro n hmem
    apply Classical.byContradiction
    intro hne
    exact hcon ⟨n, hmem, hne⟩
  have h0 := hb hall
  rw [net_eq_of_toks ht] at h0
  exact hn h0

/-- **Part_Ref never swallows a stray `)`**: with the ECHO oracle (children = the texts handed
    over), if `Part_Ref.match` succeeds on an unbalanced string then one of the texts handed to the
    children (`Part_Name`, `Section_Subscript_List`) is unbalanced -/
theorem Part_Ref_rejects_unbalanced (s : Str) (items : List (Item Str))
    (hm : (combiPlan specPartRef s).bind (runSlots echoO) = .ok items)
    (hs : SrmOK s) (hend : CallEndOK s) (hn : net s ≠ 0) :
    ∃ t, Item.node t ∈ items ∧ net t ≠ 0 :=
  callcls_rejects_unbalanced echoO echoO_tok _ _ _ _ s items hm hs hend hn

/-- the same for every oracle that keeps the tokens -/
theorem Part_Ref_rejects_unbalanced_any (o : Oracle Node) (ho : OracleTok o) (s : Str)
    (items : List (Item Node))
    (hm : (combiPlan specPartRef s).bind (runSlots o) = .ok items)
    (hs : SrmOK s) (hend : CallEndOK s) (hn : net s ≠ 0) :
    ∃ n, Item.node n ∈ items ∧ net (o.str n) ≠ 0 :=
  callcls_rejects_unbalanced o ho _ _ _ _ s items hm hs hend hn

/-- what the model does on `a(1))`: `close_idx = line.rfind(")")` is the LAST `)`, so the text
    `1)` (unbalanced) is handed to `Section_Subscript_List`; `Part_Ref.match` itself does not reject -/
theorem Part_Ref_stray_paren_witness :
    combiPlan specPartRef "a(1))".toList
      = .ok [.child C.Part_Name "a".toList, .child C.Section_Subscript_List "1)".toList] ∧
    net "1)".toList = -1 ∧ SrmOK "a(1))".toList ∧ CallEndOK "a(1))".toList := by
  decide +kernel

/-- the same with a trailing blank -/
theorem Part_Ref_stray_paren_blank_witness :
    combiPlan specPartRef "a(1)) ".toList
      = .ok [.child C.Part_Name "a".toList, .child C.Section_Subscript_List "1)".toList] ∧
    net "1)".toList = -1 ∧ SrmOK "a(1)) ".toList ∧ CallEndOK "a(1)) ".toList := by
  decide +kernel

/-! non-vacuity -/

example : (combiPlan specPartRef "a(1:n:2)".toList).bind (runSlots echoO)
      = .ok [.node "a".toList, .node "1:n:2".toList] ∧
    SrmOK "a(1:n:2)".toList ∧ CallEndOK "a(1:n:2)".toList := by decide +kernel
example : (combiPlan specFunctionReference "f(x, y)".toList).bind (runSlots echoO)
      = .ok [.node "f".toList, .node "x, y".toList] ∧
    SrmOK "f(x, y)".toList ∧ CallEndOK "f(x, y)".toList := by decide +kernel
example : (combiPlan specStructureConstructor "t(1, x = 2)".toList).bind (runSlots echoO)
      = .ok [.node "t".toList, .node "1, x = 2".toList] ∧
    SrmOK "t(1, x = 2)".toList ∧ CallEndOK "t(1, x = 2)".toList := by decide +kernel
example : (combiPlan specDerivedTypeSpec "t(k = 4)".toList).bind (runSlots echoO)
      = .ok [.node "t".toList, .node "k = 4".toList] ∧
    SrmOK "t(k = 4)".toList ∧ CallEndOK "t(k = 4)".toList := by decide +kernel
example : (combiPlan specArraySection "a%b(1)(2:5)".toList).bind (runSlots echoO)
      = .ok [.node "a%b(1)".toList, .node "2:5".toList] ∧
    SrmOK "a%b(1)(2:5)".toList ∧ CallEndOK "a%b(1)(2:5)".toList := by decide +kernel
example : (combiPlan specSubstring "s(2:5)".toList).bind (runSlots echoO)
      = .ok [.node "s".toList, .node "2:5".toList] ∧
    SrmOK "s(2:5)".toList ∧ CallEndOK "s(2:5)".toList := by decide +kernel
example : (combiPlan specIntrinsicCall "sin(x)".toList).bind (runSlots echoO)
      = .ok [.node "sin".toList, .node "x".toList] ∧
    SrmOK "sin(x)".toList ∧ CallEndOK "sin(x)".toList := by decide +kernel
example : (planIntrinsic (fun _ _ => .isIntrinsic) "sin(x)".toList).bind (runSlots echoO)
      = .ok [.node "sin".toList, .node "x".toList] := by decide +kernel
/-- `Part_Ref_rejects_unbalanced`: all hypotheses hold for `a(1))`, the unbalanced child is `1)` -/
example : (combiPlan specPartRef "a(1))".toList).bind (runSlots echoO)
      = .ok [.node "a".toList, .node "1)".toList] ∧
    SrmOK "a(1))".toList ∧ CallEndOK "a(1))".toList ∧ net "a(1))".toList ≠ 0 := by decide +kernel

/-! ## 2. BracketBase : `Parenthesis`, `Array_Constructor` -/

/-- **Parenthesis** (`BracketBase.match("()", Expr, string)`) -/
theorem Parenthesis_tostr_match_tokens (o : Oracle Node) (ho : OracleTok o) (s : Str)
    (items : List (Item Node))
    (hm : (combiPlan specParenthesis s).bind (runSlots o) = .ok items) :
    ∃ t, combiStr o specParenthesis items = .ok t ∧ toks t = toks s ∧
      ((∀ n, Item.node n ∈ items → net (o.str n) = 0) → net t = 0) :=
  bracket_tostr_match_tokens o ho _ _ s items hm

example : (combiPlan specParenthesis "( a + b )".toList).bind (runSlots echoO)
      = .ok [.str "(".toList, .node "a + b ".toList, .str ")".toList] := by decide +kernel

/-- the left bracket `BracketBase.match` computes from its `brackets` argument -/
def brL (b : Str) : Str := (Combi.noSpaces b).take ((Combi.noSpaces b).length / 2)
/-- the right bracket -/
def brR (b : Str) : Str :=
  (Combi.noSpaces b).drop ((Combi.noSpaces b).length - (Combi.noSpaces b).length / 2)

/-- the printed text of the middle item of a `BracketBase` node (`None` prints nothing) -/
def midText (o : Oracle Node) : Item Node → Str
  | .none => []
  | m => m.text o

theorem bracket_shape_any (ss left right : Str) (hlr : right.length = left.length)
    (hl : ¬ ss.length < left.length * 2) (h1 : startsWith ss left = true)
    (h2 : endsWith ss right = true) : ss = left ++ Combi.midSlice ss left.length ++ right := by
  have e1 : ss.take left.length = left := by simpa [startsWith] using h1
  have e2 : ss.drop (ss.length - left.length) = right := by
    have := h2
    simp only [endsWith, Bool.and_eq_true, beq_iff_eq, hlr] at this
    exact this.2
  unfold Combi.midSlice
  conv => lhs; rw [← List.take_append_drop left.length ss]
  rw [e1, List.append_assoc]
  congr 1
  conv => lhs; rw [← List.take_append_drop (ss.length - 2 * left.length) (ss.drop left.length)]
  congr 1
  rw [List.drop_drop, ← e2]
  congr 1
  omega

theorem combiStr_bracket_none (o : Oracle Node) (b : Str) (c : Option ClassId) (q : Bool) (l r : Str)
    (hl : l ≠ []) (hr : r ≠ []) :
    combiStr o (.bracket b c q) [.str l, .none, .str r] = .ok (l ++ r) := by
  cases l with
  | nil => exact absurd rfl hl
  | cons x l =>
    cases r with
    | nil => exact absurd rfl hr
    | cons y r => rfl

theorem combiStr_bracket_node (o : Oracle Node) (b : Str) (c : Option ClassId) (q : Bool) (l r : Str)
    (n : Node) (hl : l ≠ []) (hr : r ≠ []) :
    combiStr o (.bracket b c q) [.str l, .node n, .str r] = .ok (l ++ o.str n ++ r) := by
  cases l with
  | nil => exact absurd rfl hl
  | cons x l =>
    cases r with
    | nil => exact absurd rfl hr
    | cons y r => rfl

/-- **BracketBase, ANY brackets** (`"()"`, `"(//)"`, `"[]"`, …; the only side condition is that the
    brackets themselves are balanced in `(`/`)`): the two brackets and the child's text carry all
    the tokens; the node prints EXACTLY `left ++ child ++ right` (nothing dropped, no blank added),
    `left`/`right` being the two halves of the `brackets` argument, which the input starts / ends
    with -/
theorem bracketAny_tostr_match_tokens (o : Oracle Node) (ho : OracleTok o) (b : Str) (c : ClassId)
    (req : Bool) (s : Str) (items : List (Item Node)) (hb : net (Combi.noSpaces b) = 0)
    (hm : (combiPlan (.bracket b (some c) req) s).bind (runSlots o) = .ok items) :
    ∃ t, combiStr o (.bracket b (some c) req) items = .ok t ∧ toks t = toks s ∧
      ((∀ n, Item.node n ∈ items → net (o.str n) = 0) → net t = 0) ∧
      ∃ mid, items = [.str (brL b), mid, .str (brR b)] ∧ t = brL b ++ midText o mid ++ brR b ∧
        startsWith (strip s) (brL b) = true ∧ endsWith (strip s) (brR b) = true := by
  obtain ⟨cs, hsp, hr⟩ := combiPlan_bind_ok hm
  have hsp' : Combi.bracketSplit b (some c) req s = some cs := hsp
  unfold Combi.bracketSplit at hsp'
  simp only [Option.isNone_some, Bool.false_and, Bool.false_eq_true, if_false, Option.isSome_some,
    Bool.and_true, Bool.and_false, Bool.or_false, Bool.false_or] at hsp'
  split at hsp'
  · cases hsp'
  split at hsp'
  · cases hsp'
  split at hsp'
  · cases hsp'
  rename_i hbn
  split at hsp'
  · cases hsp'
  rename_i hodd
  split at hsp'
  · cases hsp'
  rename_i hlen
  split at hsp'
  · cases hsp'
  rename_i hse
  -- the brackets
  have hbn' : (Combi.noSpaces b) ≠ [] := by simpa using hbn
  have hpos : 0 < (Combi.noSpaces b).length := List.length_pos_iff.mpr hbn'
  have heven : (Combi.noSpaces b).length % 2 = 0 := by
    have : ¬ ((Combi.noSpaces b).length % 2 = 1) := by simpa using hodd
    omega
  have hLlen : (brL b).length = (Combi.noSpaces b).length / 2 := by
    simp only [brL, List.length_take]; omega
  have hRlen : (brR b).length = (brL b).length := by
    rw [hLlen]; simp only [brR, List.length_drop]; omega
  have hLne : brL b ≠ [] := by
    intro e; have := hLlen; rw [e] at this; simp at this; omega
  have hRne : brR b ≠ [] := by
    intro e; have := hRlen; rw [e, hLlen] at this; simp at this; omega
  have hLR : brL b ++ brR b = Combi.noSpaces b := by
    have e : (Combi.noSpaces b).length - (Combi.noSpaces b).length / 2 = (Combi.noSpaces b).length / 2 := by
      omega
    simp only [brL, brR, e, List.take_append_drop]
  have hnetLR : net (brL b) + net (brR b) = 0 := by rw [← net_append, hLR, hb]
  have hse' : startsWith (strip s) (brL b) = true ∧ endsWith (strip s) (brR b) = true := by
    simpa [brL, brR] using hse
  have hlen' : ¬ (strip s).length < (brL b).length * 2 := by rw [hLlen]; simpa using hlen
  have hshape := bracket_shape_any (strip s) (brL b) (brR b) hRlen hlen' hse'.1 hse'.2
  have hS : toks s = toks (brL b) ++
      (toks (lstrip (Combi.midSlice (strip s) (brL b).length)) ++ toks (brR b)) := by
    rw [← toks_strip s]
    conv => lhs; rw [hshape]
    simp only [toks_append, toks_lstrip, List.append_assoc]
  rw [hLlen] at hS
  split at hsp'
  · cases hsp'
  split at hsp'
  · rename_i hemp
    cases hsp'
    obtain ⟨i, is, rfl, hi, his⟩ := runSlots_cons_ok hr
    obtain ⟨j, k, rfl, hj, hk⟩ := runSlots_pair_ok his
    have := runSlot_str_ok hi; subst this
    have := runSlot_none_ok hj; subst this
    have := runSlot_str_ok hk; subst this
    refine ⟨brL b ++ brR b, combiStr_bracket_none o b _ req _ _ hLne hRne, ?_,
      fun _ => by rw [net_append]; exact hnetLR,
      .none, rfl, by simp [midText], hse'.1, hse'.2⟩
    have : lstrip (Combi.midSlice (strip s) ((Combi.noSpaces b).length / 2)) = [] := by
      have := hemp; simp only [Bool.and_eq_true] at this
      simpa using this.1
    rw [hS, this]; simp [toks_append, toks_nil]
  · cases hsp'
    obtain ⟨i, is, rfl, hi, his⟩ := runSlots_cons_ok hr
    obtain ⟨j, k, rfl, hj, hk⟩ := runSlots_pair_ok his
    have := runSlot_str_ok hi; subst this
    have := runSlot_str_ok hk; subst this
    have hj' := toks_item_of_child ho hj
    obtain ⟨n, rfl, _⟩ := runSlot_child_ok hj
    refine ⟨brL b ++ o.str n ++ brR b, combiStr_bracket_node o b _ req _ _ n hLne hRne, ?_, ?_,
      .node n, rfl, rfl, hse'.1, hse'.2⟩
    · rw [hS]
      have : toks (o.str n) =
          toks (lstrip (Combi.midSlice (strip s) ((Combi.noSpaces b).length / 2))) := hj'
      simp only [toks_append, this, List.append_assoc]
    · intro hbal
      simp only [net_append, hbal n (by simp)]
      omega

theorem combiStr_bracket_irrel (o : Oracle Node) (b b' : Str) (c c' : Option ClassId) (q q' : Bool)
    (items : List (Item Node)) :
    combiStr o (.bracket b c q) items = combiStr o (.bracket b' c' q') items := rfl

/-- the two outcomes of `Array_Constructor.match`: `(/ … /)` matched, or it did not and `[ … ]` did -/
theorem planArrayConstructor_run_ok {o : Oracle Node} {s : Str} {items : List (Item Node)}
    (hm : (planArrayConstructor s).run o = .ok items) :
    (combiPlan specArrayCtor1 s).bind (runSlots o) = .ok items ∨
    ((combiPlan specArrayCtor1 s).bind (runSlots o) = .noMatch ∧
      (combiPlan specArrayCtor2 s).bind (runSlots o) = .ok items) := by
  unfold Plan.run planArrayConstructor at hm
  dsimp only at hm
  split at hm
  · rename_i h1
    exact .inr ⟨h1, hm⟩
  · exact .inl hm

/-- **Array_Constructor** (`BracketBase.match("(//)", Ac_Spec, string)`, then `"[]"`): the brackets
    are ITEMS and `BracketBase.tostr` prints the stored ones, so `(/ x /)` prints `(/x/)` and
    `[ x ]` prints `[x]`: exactly `l ++ child ++ r` with `(l, r)` the pair the input starts/ends with -/
theorem Array_Constructor_tostr_match_tokens (o : Oracle Node) (ho : OracleTok o) (s : Str)
    (items : List (Item Node)) (hm : (planArrayConstructor s).run o = .ok items) :
    ∃ t, combiStr o specArrayCtor1 items = .ok t ∧ toks t = toks s ∧
      ((∀ n, Item.node n ∈ items → net (o.str n) = 0) → net t = 0) ∧
      ∃ mid,
        (items = [.str "(/".toList, mid, .str "/)".toList] ∧
          t = "(/".toList ++ midText o mid ++ "/)".toList ∧
          startsWith (strip s) "(/".toList = true ∧ endsWith (strip s) "/)".toList = true) ∨
        (items = [.str "[".toList, mid, .str "]".toList] ∧
          t = "[".toList ++ midText o mid ++ "]".toList ∧
          startsWith (strip s) "[".toList = true ∧ endsWith (strip s) "]".toList = true) := by
  have l1 : brL "(//)".toList = "(/".toList := by decide
  have r1 : brR "(//)".toList = "/)".toList := by decide
  have l2 : brL "[]".toList = "[".toList := by decide
  have r2 : brR "[]".toList = "]".toList := by decide
  rcases planArrayConstructor_run_ok hm with h | ⟨_, h⟩
  · obtain ⟨t, h1, h2, h3, mid, h4, h5, h6, h7⟩ :=
      bracketAny_tostr_match_tokens o ho "(//)".toList C.Ac_Spec true s items (by decide) h
    rw [l1, r1] at h4 h5; rw [l1] at h6; rw [r1] at h7
    exact ⟨t, h1, h2, h3, mid, .inl ⟨h4, h5, h6, h7⟩⟩
  · obtain ⟨t, h1, h2, h3, mid, h4, h5, h6, h7⟩ :=
      bracketAny_tostr_match_tokens o ho "[]".toList C.Ac_Spec true s items (by decide) h
    rw [l2, r2] at h4 h5; rw [l2] at h6; rw [r2] at h7
    exact ⟨t, (combiStr_bracket_irrel o _ _ _ _ _ _ items).trans h1, h2, h3, mid,
      .inr ⟨h4, h5, h6, h7⟩⟩

example : (planArrayConstructor "(/ (i, i = 1, 3) /)".toList).run echoO
      = .ok [.str "(/".toList, .node "(i, i = 1, 3) ".toList, .str "/)".toList] := by decide +kernel
example : (planArrayConstructor "[integer :: 1, 2]".toList).run echoO
      = .ok [.str "[".toList, .node "integer :: 1, 2".toList, .str "]".toList] := by decide +kernel
/-- `bracketAny` also covers the third bracket pair in use -/
example : (combiPlan (.bracket "()".toList (some C.Expr) true) "(a)".toList).bind (runSlots echoO)
      = .ok [.str "(".toList, .node "a".toList, .str ")".toList] ∧
    net (Combi.noSpaces "()".toList) = 0 := by decide +kernel

/-! ## 3. SeparatorBase : `Substring_Range`, `Bounds_Remapping`, `Bounds_Spec` -/

/-- **Substring_Range** (`SeparatorBase.match(Scalar_Int_Expr, Scalar_Int_Expr, string)`);
    partial: `SrmOK s` (the tokeniser hypothesis) -/
theorem Substring_Range_tostr_match_tokens_partial (o : Oracle Node) (ho : OracleTok o) (s : Str)
    (items : List (Item Node))
    (hm : (combiPlan specSubstringRange s).bind (runSlots o) = .ok items) (hs : SrmOK s) :
    ∃ t, combiStr o specSubstringRange items = .ok t ∧ toks t = toks s ∧
      ((∀ n, Item.node n ∈ items → net (o.str n) = 0) → net t = 0) :=
  sep_tostr_match_tokens o ho _ _ _ _ s items hm hs

/-- **Bounds_Remapping** (`require_lhs=True, require_rhs=True`) -/
theorem Bounds_Remapping_tostr_match_tokens_partial (o : Oracle Node) (ho : OracleTok o) (s : Str)
    (items : List (Item Node))
    (hm : (combiPlan specBoundsRemapping s).bind (runSlots o) = .ok items) (hs : SrmOK s) :
    ∃ t, combiStr o specBoundsRemapping items = .ok t ∧ toks t = toks s ∧
      ((∀ n, Item.node n ∈ items → net (o.str n) = 0) → net t = 0) :=
  sep_tostr_match_tokens o ho _ _ _ _ s items hm hs

/-- **SeparatorBase with NO right-hand class** (`rhs_cls = None`; not covered by
    `sep_tostr_match_tokens`, which is for two classes): a non-empty right-hand side is a
    "no match", so the second item is always `None` and the node prints `lhs :` or `:` -/
theorem sepNoRhs_tostr_match_tokens (o : Oracle Node) (ho : OracleTok o) (a : ClassId) (ql qr : Bool)
    (s : Str) (items : List (Item Node))
    (hm : (combiPlan (.sep (some a) none ql qr) s).bind (runSlots o) = .ok items)
    (hs : SrmOK s) :
    ∃ t, combiStr o (.sep (some a) none ql qr) items = .ok t ∧ toks t = toks s ∧
      ((∀ n, Item.node n ∈ items → net (o.str n) = 0) → net t = 0) ∧
      ∃ l, items = [l, .none] := by
  obtain ⟨cs, hsp, hr⟩ := combiPlan_bind_ok hm
  have hsp' : Combi.sepSplit (some a) none ql qr s = some cs := hsp
  unfold Combi.sepSplit at hsp'
  cases ht : Combi.tokenise s with
  | none => simp only [ht] at hsp'; cases hsp'
  | some r =>
    simp only [ht] at hsp'
    cases hc : Combi.cutFirst ':' r.text with
    | none => simp only [hc] at hsp'; cases hsp'
    | some p =>
      obtain ⟨l0, r0⟩ := p
      simp only [hc] at hsp'
      obtain ⟨htext, _⟩ := Combi.cutFirst_spec _ _ _ hc
      obtain ⟨hseg, hexp⟩ := seg_of_tokenise hs ht
      rw [htext] at hseg hexp
      obtain ⟨sL, sR, e⟩ := IoStmt.Seg.sep isWord_colon hseg
      have a1 : ∀ X : Str, ':' :: X = ":".toList ++ X := fun _ => rfl
      have hL : toks (applyMap r.map (rstrip l0)) = toks (applyMap r.map l0) :=
        toks_of_noBlank (IoStmt.Seg.rstrip sL).2
      have hR : toks (applyMap r.map (lstrip r0)) = toks (applyMap r.map r0) :=
        toks_of_noBlank (IoStmt.Seg.lstrip sR).2
      have hS : toks s = toks (applyMap r.map (rstrip l0)) ++
          (toks ":".toList ++ toks (applyMap r.map (lstrip r0))) := by
        rw [← toks_of_noBlank hexp, e, a1, hL, hR]
        simp only [toks_append]
      have k1 : toks " :".toList = toks ":".toList := by decide
      have n1 : net " :".toList = 0 := by decide
      split at hsp'
      · cases hsp'
      rename_i ls hls
      cases hsp'
      obtain ⟨i, j, rfl, hi, hj⟩ := runSlots_pair_ok hr
      split at hls
      · -- a left-hand side
        cases hls
        have hi' := toks_item_of_child ho hi
        obtain ⟨n1', rfl, _⟩ := runSlot_child_ok hi
        have hi'' : toks (o.str n1') = toks (applyMap r.map (rstrip l0)) := hi'
        split at hj
        · exact absurd hj (runSlot_fail o _)
        · rename_i hemp
          have hr0 : lstrip r0 = [] := by simpa using hemp
          split at hj
          · exact absurd hj (runSlot_fail o _)
          have := runSlot_none_ok hj; subst this
          refine ⟨(o.str n1' ++ " :".toList) ++ [], rfl, ?_, ?_, _, rfl⟩
          · rw [hS, hr0, applyMap_empty]
            simp only [toks_append, hi'', k1, toks_nil, List.append_nil]
          · intro hb
            simp only [net_append, hb n1' (by simp), n1]; rfl
      · rename_i hemp
        have hl0 : rstrip l0 = [] := by simpa using hemp
        split at hls
        · cases hls
        cases hls
        have := runSlot_none_ok hi; subst this
        split at hj
        · exact absurd hj (runSlot_fail o _)
        · rename_i hemp2
          have hr0 : lstrip r0 = [] := by simpa using hemp2
          split at hj
          · exact absurd hj (runSlot_fail o _)
          have := runSlot_none_ok hj; subst this
          refine ⟨":".toList ++ [], rfl, ?_, fun _ => by decide, _, rfl⟩
          rw [hS, hl0, hr0, applyMap_empty]
          simp only [toks_nil, List.nil_append, List.append_nil]

/-- **Bounds_Spec** (`SeparatorBase.match(Lower_Bound_Expr, None, string, require_lhs=True)`) -/
theorem Bounds_Spec_tostr_match_tokens_partial (o : Oracle Node) (ho : OracleTok o) (s : Str)
    (items : List (Item Node))
    (hm : (combiPlan specBoundsSpec s).bind (runSlots o) = .ok items) (hs : SrmOK s) :
    ∃ t, combiStr o specBoundsSpec items = .ok t ∧ toks t = toks s ∧
      ((∀ n, Item.node n ∈ items → net (o.str n) = 0) → net t = 0) ∧
      ∃ l, items = [l, .none] :=
  sepNoRhs_tostr_match_tokens o ho _ _ _ s items hm hs

example : (combiPlan specSubstringRange "2:5".toList).bind (runSlots echoO)
      = .ok [.node "2".toList, .node "5".toList] ∧ SrmOK "2:5".toList := by decide +kernel
example : (combiPlan specSubstringRange " : n".toList).bind (runSlots echoO)
      = .ok [.none, .node "n".toList] ∧ SrmOK " : n".toList := by decide +kernel
example : (combiPlan specBoundsRemapping "0 : n - 1".toList).bind (runSlots echoO)
      = .ok [.node "0".toList, .node "n - 1".toList] ∧ SrmOK "0 : n - 1".toList := by decide +kernel
example : (combiPlan specBoundsSpec "lb(1) :".toList).bind (runSlots echoO)
      = .ok [.node "lb(1)".toList, .none] ∧ SrmOK "lb(1) :".toList := by decide +kernel
/-- a right-hand side is refused (after the left-hand child call) -/
example : (combiPlan specBoundsSpec "2:5".toList).bind (runSlots echoO) = .noMatch := by
  decide +kernel

/-! ## 4. KeywordValueBase and the `","` lists -/

/-- **Component_Spec** (`KeywordValueBase.match(Keyword, Component_Data_Source, string)`) -/
theorem Component_Spec_tostr_match_tokens (o : Oracle Node) (ho : OracleTok o) (s : Str)
    (items : List (Item Node))
    (hm : (combiPlan specComponentSpec s).bind (runSlots o) = .ok items) :
    ∃ t, combiStr o specComponentSpec items = .ok t ∧ toks t = toks s ∧
      ((∀ n, Item.node n ∈ items → net (o.str n) = 0) → net t = 0) :=
  kvcls_tostr_match_tokens o ho _ _ _ _ s items hm

/-- **Actual_Arg_Spec** -/
theorem Actual_Arg_Spec_tostr_match_tokens (o : Oracle Node) (ho : OracleTok o) (s : Str)
    (items : List (Item Node))
    (hm : (combiPlan specActualArgSpec s).bind (runSlots o) = .ok items) :
    ∃ t, combiStr o specActualArgSpec items = .ok t ∧ toks t = toks s ∧
      ((∀ n, Item.node n ∈ items → net (o.str n) = 0) → net t = 0) :=
  kvcls_tostr_match_tokens o ho _ _ _ _ s items hm

example : (combiPlan specComponentSpec "x = 2".toList).bind (runSlots echoO)
      = .ok [.node "x".toList, .node "2".toList] := by decide +kernel
example : (combiPlan specActualArgSpec "dim = f(1)".toList).bind (runSlots echoO)
      = .ok [.node "dim".toList, .node "f(1)".toList] := by decide +kernel

/-- the `","` list classes of the layer (`SequenceBase.match(",", elem, string)`), generic in the
    element class; partial: `SrmOK s` -/
theorem List_tostr_match_tokens_partial (o : Oracle Node) (ho : OracleTok o) (elem : ClassId)
    (s : Str) (items : List (Item Node))
    (hm : (combiPlan (specList elem) s).bind (runSlots o) = .ok items) (hs : SrmOK s) :
    ∃ t, combiStr o (specList elem) items = .ok t ∧ toks t = toks s ∧
      ((∀ n, Item.node n ∈ items → net (o.str n) = 0) → net t = 0) :=
  seq_tostr_match_tokens o ho elem s items hm hs

/-- **Ac_Value_List** -/
theorem Ac_Value_List_tostr_match_tokens_partial (o : Oracle Node) (ho : OracleTok o) (s : Str)
    (items : List (Item Node))
    (hm : (combiPlan (specList C.Ac_Value) s).bind (runSlots o) = .ok items) (hs : SrmOK s) :
    ∃ t, combiStr o (specList C.Ac_Value) items = .ok t ∧ toks t = toks s ∧
      ((∀ n, Item.node n ∈ items → net (o.str n) = 0) → net t = 0) :=
  List_tostr_match_tokens_partial o ho _ s items hm hs

/-- **Component_Spec_List** -/
theorem Component_Spec_List_tostr_match_tokens_partial (o : Oracle Node) (ho : OracleTok o) (s : Str)
    (items : List (Item Node))
    (hm : (combiPlan (specList C.Component_Spec) s).bind (runSlots o) = .ok items) (hs : SrmOK s) :
    ∃ t, combiStr o (specList C.Component_Spec) items = .ok t ∧ toks t = toks s ∧
      ((∀ n, Item.node n ∈ items → net (o.str n) = 0) → net t = 0) :=
  List_tostr_match_tokens_partial o ho _ s items hm hs

/-- **Actual_Arg_Spec_List** -/
theorem Actual_Arg_Spec_List_tostr_match_tokens_partial (o : Oracle Node) (ho : OracleTok o) (s : Str)
    (items : List (Item Node))
    (hm : (combiPlan (specList C.Actual_Arg_Spec) s).bind (runSlots o) = .ok items) (hs : SrmOK s) :
    ∃ t, combiStr o (specList C.Actual_Arg_Spec) items = .ok t ∧ toks t = toks s ∧
      ((∀ n, Item.node n ∈ items → net (o.str n) = 0) → net t = 0) :=
  List_tostr_match_tokens_partial o ho _ s items hm hs

/-- **Section_Subscript_List** -/
theorem Section_Subscript_List_tostr_match_tokens_partial (o : Oracle Node) (ho : OracleTok o) (s : Str)
    (items : List (Item Node))
    (hm : (combiPlan (specList C.Section_Subscript) s).bind (runSlots o) = .ok items) (hs : SrmOK s) :
    ∃ t, combiStr o (specList C.Section_Subscript) items = .ok t ∧ toks t = toks s ∧
      ((∀ n, Item.node n ∈ items → net (o.str n) = 0) → net t = 0) :=
  List_tostr_match_tokens_partial o ho _ s items hm hs

/-- **Bounds_Spec_List** -/
theorem Bounds_Spec_List_tostr_match_tokens_partial (o : Oracle Node) (ho : OracleTok o) (s : Str)
    (items : List (Item Node))
    (hm : (combiPlan (specList C.Bounds_Spec) s).bind (runSlots o) = .ok items) (hs : SrmOK s) :
    ∃ t, combiStr o (specList C.Bounds_Spec) items = .ok t ∧ toks t = toks s ∧
      ((∀ n, Item.node n ∈ items → net (o.str n) = 0) → net t = 0) :=
  List_tostr_match_tokens_partial o ho _ s items hm hs

/-- **Bounds_Remapping_List** -/
theorem Bounds_Remapping_List_tostr_match_tokens_partial (o : Oracle Node) (ho : OracleTok o) (s : Str)
    (items : List (Item Node))
    (hm : (combiPlan (specList C.Bounds_Remapping) s).bind (runSlots o) = .ok items) (hs : SrmOK s) :
    ∃ t, combiStr o (specList C.Bounds_Remapping) items = .ok t ∧ toks t = toks s ∧
      ((∀ n, Item.node n ∈ items → net (o.str n) = 0) → net t = 0) :=
  List_tostr_match_tokens_partial o ho _ s items hm hs

example : (combiPlan (specList C.Ac_Value) "1, (i, i = 1, 3), 2".toList).bind (runSlots echoO)
      = .ok [.node "1".toList, .node "(i, i = 1, 3)".toList, .node "2".toList] ∧
    SrmOK "1, (i, i = 1, 3), 2".toList := by decide +kernel
example : (combiPlan (specList C.Component_Spec) "1, x = 2".toList).bind (runSlots echoO)
      = .ok [.node "1".toList, .node "x = 2".toList] ∧ SrmOK "1, x = 2".toList := by decide +kernel
example : (combiPlan (specList C.Actual_Arg_Spec) "a, dim = f(1, 2)".toList).bind (runSlots echoO)
      = .ok [.node "a".toList, .node "dim = f(1, 2)".toList] ∧
    SrmOK "a, dim = f(1, 2)".toList := by decide +kernel
example : (combiPlan (specList C.Section_Subscript) "1:n:2, :, j".toList).bind (runSlots echoO)
      = .ok [.node "1:n:2".toList, .node ":".toList, .node "j".toList] ∧
    SrmOK "1:n:2, :, j".toList := by decide +kernel
example : (combiPlan (specList C.Bounds_Spec) "0:, 1:".toList).bind (runSlots echoO)
      = .ok [.node "0:".toList, .node "1:".toList] ∧ SrmOK "0:, 1:".toList := by decide +kernel
example : (combiPlan (specList C.Bounds_Remapping) "0:n, 1:m".toList).bind (runSlots echoO)
      = .ok [.node "0:n".toList, .node "1:m".toList] ∧ SrmOK "0:n, 1:m".toList := by decide +kernel

/-! ## 5. SequenceBase with a one-character separator other than `","` : `Data_Ref` -/

/-- the separator as printed keeps the separator's tokens and adds no parenthesis -/
theorem seqSepText_char (ch : Char) :
    toks (Combi.seqSepText [ch]) = toks [ch] ∧ net (Combi.seqSepText [ch]) = net [ch] := by
  unfold Combi.seqSepText
  split
  · rename_i h
    have : ch = ',' := by simpa using h
    subst this; decide
  · split
    · rename_i h
      have : ch = ' ' := by simpa using h
      subst this; decide
    · have e : (' ' :: [ch] ++ [' '] : Str) = " ".toList ++ ([ch] ++ " ".toList) := rfl
      have n0 : net " ".toList = 0 := by decide
      rw [e]
      simp only [toks_append, net_append, IoStmt.toks_sp, n0]
      simp

/-- the inherited `tostr` of a `SequenceBase` class, any separator -/
theorem combiStr_seq_any (o : Oracle Node) (sep : Str) (elem : ClassId) (items : List (Item Node)) :
    combiStr o (.seq sep elem) items =
      .ok (Combi.joinStr (Combi.seqSepText sep) (items.map (Item.text o))) := by
  have h : (items.map (toCombiItem o)).map (Combi.Item.text textOracle) = items.map (Item.text o) := by
    rw [List.map_map]; apply List.map_congr_left; intro i _; exact text_toCombiItem o i
  show (match some (Combi.joinStr (Combi.seqSepText sep)
      ((items.map (toCombiItem o)).map (Combi.Item.text textOracle))) with
    | some t => Res.ok t | none => Res.raises Exc.internalError) = _
  rw [h]

/-- `seq_core` of IoStmtLayoutCombi for an arbitrary printed separator `sepP` standing for the
    split separator `sepS` -/
theorem seq_core_sep (o : Oracle Node) (ho : OracleTok o) (c : ClassId) (f g : Str → Str)
    (sepP sepS : Str) (hk : toks sepP = toks sepS) (hn : net sepP = 0) :
    ∀ (pieces : List Str) (items : List (Item Node)),
      runSlots o (pieces.map fun e => Slot.child c (f e)) = .ok items →
      (∀ p ∈ pieces, toks (f p) = toks (g p)) →
      toks (Combi.joinStr sepP (items.map (Item.text o))) =
        toks (Combi.joinStr sepS (pieces.map g)) ∧
      ((∀ n, Item.node n ∈ items → net (o.str n) = 0) →
        net (Combi.joinStr sepP (items.map (Item.text o))) = 0) ∧
      items.length = pieces.length := by
  intro pieces
  induction pieces with
  | nil =>
    intro items h _
    have := runSlots_nil_ok h; subst this
    exact ⟨rfl, fun _ => rfl, rfl⟩
  | cons p ps ih =>
    intro items h hfg
    rw [List.map_cons] at h
    obtain ⟨i, is, rfl, hi, his⟩ := runSlots_cons_ok h
    have hi' := toks_item_of_child ho hi
    obtain ⟨n, rfl, _⟩ := runSlot_child_ok hi
    have hp : toks (o.str n) = toks (g p) := by
      have : toks (o.str n) = toks (f p) := hi'
      rw [this]; exact hfg p (by simp)
    obtain ⟨ih1, ih2, ih3⟩ := ih is his (fun q hq => hfg q (List.mem_cons_of_mem _ hq))
    cases ps with
    | nil =>
      have := runSlots_nil_ok his; subst this
      refine ⟨?_, fun hb => ?_, rfl⟩
      · show toks (o.str n) = toks (g p)
        exact hp
      · show net (o.str n) = 0
        exact hb n (by simp)
    | cons q qs =>
      rw [List.map_cons] at his
      obtain ⟨j, js, rfl, _, _⟩ := runSlots_cons_ok his
      have e1 : Combi.joinStr sepP (List.map (Item.text o) (Item.node n :: j :: js)) =
          o.str n ++ sepP ++ Combi.joinStr sepP (List.map (Item.text o) (j :: js)) := rfl
      have e2 : Combi.joinStr sepS (List.map g (p :: q :: qs)) =
          g p ++ sepS ++ Combi.joinStr sepS (List.map g (q :: qs)) := rfl
      refine ⟨?_, fun hb => ?_, by simp only [List.length_cons] at ih3 ⊢; omega⟩
      · rw [e1, e2]
        simp only [toks_append, hp, ih1, hk]
      · rw [e1]
        simp only [net_append, hb n (by simp), hn,
          ih2 (fun m hm => hb m (List.mem_cons_of_mem _ hm))]
        rfl

/-- **SequenceBase with ANY one-character separator** that is not a word character, not a blank and
    not a parenthesis (`"%"`, `","`, `"/"`, …): every piece of `line.split(sep)` reaches a child, the
    pieces are printed in order, joined by the separator as `tostr` writes it (`" % "`), and there
    are as many items as pieces -/
theorem seqChar_tostr_match_tokens (o : Oracle Node) (ho : OracleTok o) (ch : Char) (elem : ClassId)
    (s : Str) (items : List (Item Node)) (hw : isWord ch = false) (hsp : ch ≠ ' ')
    (hnp : net [ch] = 0)
    (hm : (combiPlan (.seq [ch] elem) s).bind (runSlots o) = .ok items) (hs : SrmOK s) :
    ∃ t, combiStr o (.seq [ch] elem) items = .ok t ∧ toks t = toks s ∧
      ((∀ n, Item.node n ∈ items → net (o.str n) = 0) → net t = 0) ∧
      t = Combi.joinStr (Combi.seqSepText [ch]) (items.map (Item.text o)) ∧
      ∀ slots, combiPlan (.seq [ch] elem) s = .ok slots → items.length = slots.length := by
  obtain ⟨cs, hsp', hr⟩ := combiPlan_bind_ok hm
  have hsp'' : Combi.seqSplit [ch] elem s = some cs := hsp'
  unfold Combi.seqSplit at hsp''
  have k0 : ([ch] == [' ']) = false := by simpa using hsp
  simp only [k0, Bool.false_eq_true, if_false] at hsp''
  cases ht : Combi.tokenise s with
  | none => simp only [ht] at hsp''; cases hsp''
  | some r =>
    simp only [ht] at hsp''
    have k1 : Combi.splitStr r.text [ch] = some (splitC ch r.text) := rfl
    simp only [k1] at hsp''
    cases hsp''
    obtain ⟨hseg, hexp⟩ := seg_of_tokenise hs ht
    obtain ⟨hpieces, hjoin⟩ := IoStmt.Seg.splitC hw hseg
    have hr' : runSlots o ((splitC ch r.text).map fun e =>
        Slot.child elem ((fun e => applyMap r.map (strip e)) e)) = .ok items := by
      rw [List.map_map] at hr; exact hr
    obtain ⟨q1, q2⟩ := seqSepText_char ch
    obtain ⟨c1, c2, c3⟩ := seq_core_sep o ho elem (fun e => applyMap r.map (strip e)) (applyMap r.map)
      (Combi.seqSepText [ch]) [ch] q1 (by rw [q2, hnp])
      (splitC ch r.text) items hr'
      (fun p hp => toks_of_noBlank (IoStmt.Seg.strip (hpieces p hp)).2)
    rw [combiStr_seq_any]
    refine ⟨_, rfl, ?_, c2, rfl, ?_⟩
    · rw [c1, ← hjoin]
      exact toks_of_noBlank hexp
    · intro slots hsl
      have : combiPlan (.seq [ch] elem) s = .ok
          (((splitC ch r.text).map fun e => Combi.Slot.child elem (applyMap r.map (strip e))).map
            ofCombiSlot) := by
        show ofCombi (Combi.seqSplit [ch] elem s) = _
        unfold Combi.seqSplit
        simp only [k0, Bool.false_eq_true, if_false, ht, k1]
        rfl
      rw [this] at hsl
      cases hsl
      rw [c3]; simp

theorem runSlots_append_fail (o : Oracle Node) :
    ∀ (l : List Slot) (its : List (Item Node)), runSlots o (l ++ [.fail]) ≠ .ok its := by
  intro l
  induction l with
  | nil =>
    intro its h
    obtain ⟨i, _, _, hi, _⟩ := runSlots_cons_ok h
    exact runSlot_fail o i hi
  | cons a l ih =>
    intro its h
    obtain ⟨_, is, _, _, his⟩ := runSlots_cons_ok h
    exact ih is his

/-- what is left of `Data_Ref.match` after the early `"%" not in line` test of /repo 2a636f5 -/
theorem planDataRef_ok {o : Oracle Node} {s : Str} {items : List (Item Node)}
    (hm : (planDataRef s).bind (runSlots o) = .ok items) :
    (planDataRefOld s).bind (runSlots o) = .ok items ∧
    ∃ r, Combi.tokenise s = some r ∧ r.text.contains '%' = true := by
  obtain ⟨slots, hp, hr⟩ := Res.bind_eq_ok hm
  unfold planDataRef at hp
  obtain ⟨r, ht, hd⟩ := Res.bind_eq_ok hp
  split at hd
  · cases hd
  · rename_i hc
    refine ⟨by rw [hd]; exact hr, r, Fp.IoStmt.tok_ok ht, ?_⟩
    simpa using hc

/-- the pre-2a636f5 matcher (now the tail of `planDataRef`) -/
theorem Data_RefOld_tostr_match_tokens_partial (o : Oracle Node) (ho : OracleTok o) (s : Str)
    (items : List (Item Node))
    (hm : (planDataRefOld s).bind (runSlots o) = .ok items) (hs : SrmOK s) :
    ∃ t, combiStr o specDataRefSeq items = .ok t ∧ toks t = toks s ∧ items.length > 1 ∧
      ((∀ n, Item.node n ∈ items → net (o.str n) = 0) → net t = 0) ∧
      t = Combi.joinStr " % ".toList (items.map (Item.text o)) := by
  obtain ⟨slots, hp, hr⟩ := Res.bind_eq_ok hm
  unfold planDataRefOld at hp
  obtain ⟨slots0, hp0, hd⟩ := Res.bind_eq_ok hp
  split at hd
  · rename_i hlen
    cases hd
    have hm' : (combiPlan specDataRefSeq s).bind (runSlots o) = .ok items := by
      rw [hp0]; exact hr
    obtain ⟨t, h1, h2, h3, h4, h5⟩ :=
      seqChar_tostr_match_tokens o ho '%' C.Part_Ref s items (by decide) (by decide) (by decide)
        hm' hs
    refine ⟨t, h1, h2, ?_, h3, h4⟩
    rw [h5 slots hp0]; exact hlen
  · cases hd
    exact absurd hr (runSlots_append_fail o _ _)

/-- **Data_Ref** (as of /repo 2a636f5: `None` at once when the tokenised text has no `%`; otherwise
    `SequenceBase.match("%", Part_Ref, string)`, `None` when there is a single entry): every
    `%`-separated part reaches `Part_Ref`, the parts are printed in order joined by `" % "`, and a
    successful match has at least two parts.  Partial: `SrmOK s`. -/
theorem Data_Ref_tostr_match_tokens_partial (o : Oracle Node) (ho : OracleTok o) (s : Str)
    (items : List (Item Node))
    (hm : (planDataRef s).bind (runSlots o) = .ok items) (hs : SrmOK s) :
    ∃ t, combiStr o specDataRefSeq items = .ok t ∧ toks t = toks s ∧ items.length > 1 ∧
      ((∀ n, Item.node n ∈ items → net (o.str n) = 0) → net t = 0) ∧
      t = Combi.joinStr " % ".toList (items.map (Item.text o)) :=
  Data_RefOld_tostr_match_tokens_partial o ho s items (planDataRef_ok hm).1 hs

/-- REGRESSION for 2a636f5: a text without a top-level `%` makes NO child call (before: `Part_Ref(s)`
    was built and thrown away) -/
theorem Data_Ref_single_part_no_call :
    planDataRef "f(g(x))".toList = .noMatch ∧
    planDataRefOld "f(g(x))".toList = .ok [.child C.Part_Ref "f(g(x))".toList, .fail] ∧
    planDataRef "a(b%c)".toList = .noMatch := by decide +kernel

example : (planDataRef "a%b(1)%c".toList).bind (runSlots echoO)
      = .ok [.node "a".toList, .node "b(1)".toList, .node "c".toList] ∧
    SrmOK "a%b(1)%c".toList := by decide +kernel
/-- the printed form -/
example : combiStr echoO specDataRefSeq [.node "a".toList, .node "b(1)".toList, .node "c".toList]
      = .ok "a % b(1) % c".toList := by decide +kernel
/-- a single part is "no match" (since 2a636f5 WITHOUT a `Part_Ref` call) -/
example : (planDataRef "a".toList).bind (runSlots echoO) = .noMatch ∧ planDataRef "a".toList = .noMatch := by
  decide +kernel

/-! ## the tie to the class table of the model (`planOf` / `tostrOf`) -/

/-- the classes treated in this file print through the combinator they are proved with -/
theorem specOf_instances :
    specOf C.Parenthesis = some specParenthesis ∧ specOf C.Array_Constructor = some specArrayCtor1 ∧
    specOf C.Structure_Constructor = some specStructureConstructor ∧
    specOf C.Derived_Type_Spec = some specDerivedTypeSpec ∧
    specOf C.Function_Reference = some specFunctionReference ∧
    specOf C.Intrinsic_Function_Reference = some specIntrinsicCall ∧
    specOf C.Part_Ref = some specPartRef ∧ specOf C.Array_Section = some specArraySection ∧
    specOf C.Substring = some specSubstring ∧ specOf C.Substring_Range = some specSubstringRange ∧
    specOf C.Bounds_Spec = some specBoundsSpec ∧ specOf C.Bounds_Remapping = some specBoundsRemapping ∧
    specOf C.Component_Spec = some specComponentSpec ∧ specOf C.Actual_Arg_Spec = some specActualArgSpec ∧
    specOf C.Data_Ref = some specDataRefSeq ∧ specOf C.Ac_Value_List = some (specList C.Ac_Value) ∧
    specOf C.Component_Spec_List = some (specList C.Component_Spec) ∧
    specOf C.Actual_Arg_Spec_List = some (specList C.Actual_Arg_Spec) ∧
    specOf C.Section_Subscript_List = some (specList C.Section_Subscript) ∧
    specOf C.Bounds_Spec_List = some (specList C.Bounds_Spec) ∧
    specOf C.Bounds_Remapping_List = some (specList C.Bounds_Remapping) := by
  decide

/-- `cls.match` of the table IS the plan the theorems are stated over (examples of the tie; every
    other class of the file is the same `rfl`) -/
theorem planOf_Part_Ref (std : Std) (iv : Str → Nat → SymTab.IntrRes) (s : Str) :
    planOf std iv C.Part_Ref s = some (.one (combiPlan specPartRef s)) := rfl
theorem planOf_Data_Ref (std : Std) (iv : Str → Nat → SymTab.IntrRes) (s : Str) :
    planOf std iv C.Data_Ref s = some (.one (planDataRef s)) := rfl
theorem planOf_Array_Constructor (std : Std) (iv : Str → Nat → SymTab.IntrRes) (s : Str) :
    planOf std iv C.Array_Constructor s = some (planArrayConstructor s) := rfl
theorem planOf_Intrinsic (std : Std) (iv : Str → Nat → SymTab.IntrRes) (s : Str) :
    planOf std iv C.Intrinsic_Function_Reference s = some (.one (planIntrinsic iv s)) := rfl
theorem tostrOf_Part_Ref (o : Oracle Node) (items : List (Item Node)) :
    tostrOf o C.Part_Ref items = combiStr o specPartRef items := rfl
theorem tostrOf_Array_Constructor (o : Oracle Node) (items : List (Item Node)) :
    tostrOf o C.Array_Constructor items = combiStr o specArrayCtor1 items := rfl
theorem tostrOf_Data_Ref (o : Oracle Node) (items : List (Item Node)) :
    tostrOf o C.Data_Ref items = combiStr o specDataRefSeq items := rfl

/-- a one-attempt plan runs like its slots -/
theorem Plan.run_one (o : Oracle Node) (r : Res (List Slot)) :
    (Plan.one r).run o = r.bind (runSlots o) := by
  unfold Plan.run Plan.one
  dsimp only
  split <;> simp_all

end Fp.Primary

#print axioms Fp.Primary.Part_Ref_tostr_match_tokens_partial
#print axioms Fp.Primary.Function_Reference_tostr_match_tokens_partial
#print axioms Fp.Primary.Structure_Constructor_tostr_match_tokens_partial
#print axioms Fp.Primary.Derived_Type_Spec_tostr_match_tokens_partial
#print axioms Fp.Primary.Array_Section_tostr_match_tokens_partial
#print axioms Fp.Primary.Substring_tostr_match_tokens_partial
#print axioms Fp.Primary.planIntrinsic_ok
#print axioms Fp.Primary.Intrinsic_Call_tostr_match_tokens_partial
#print axioms Fp.Primary.Intrinsic_Function_Reference_tostr_match_tokens_partial
#print axioms Fp.Primary.callcls_rejects_unbalanced
#print axioms Fp.Primary.Part_Ref_rejects_unbalanced
#print axioms Fp.Primary.Part_Ref_rejects_unbalanced_any
#print axioms Fp.Primary.Part_Ref_stray_paren_witness
#print axioms Fp.Primary.Part_Ref_stray_paren_blank_witness
#print axioms Fp.Primary.Parenthesis_tostr_match_tokens
#print axioms Fp.Primary.bracketAny_tostr_match_tokens
#print axioms Fp.Primary.planArrayConstructor_run_ok
#print axioms Fp.Primary.Array_Constructor_tostr_match_tokens
#print axioms Fp.Primary.Substring_Range_tostr_match_tokens_partial
#print axioms Fp.Primary.Bounds_Remapping_tostr_match_tokens_partial
#print axioms Fp.Primary.sepNoRhs_tostr_match_tokens
#print axioms Fp.Primary.Bounds_Spec_tostr_match_tokens_partial
#print axioms Fp.Primary.Component_Spec_tostr_match_tokens
#print axioms Fp.Primary.Actual_Arg_Spec_tostr_match_tokens
#print axioms Fp.Primary.List_tostr_match_tokens_partial
#print axioms Fp.Primary.Ac_Value_List_tostr_match_tokens_partial
#print axioms Fp.Primary.Component_Spec_List_tostr_match_tokens_partial
#print axioms Fp.Primary.Actual_Arg_Spec_List_tostr_match_tokens_partial
#print axioms Fp.Primary.Section_Subscript_List_tostr_match_tokens_partial
#print axioms Fp.Primary.Bounds_Spec_List_tostr_match_tokens_partial
#print axioms Fp.Primary.Bounds_Remapping_List_tostr_match_tokens_partial
#print axioms Fp.Primary.seqChar_tostr_match_tokens
#print axioms Fp.Primary.Data_Ref_tostr_match_tokens_partial
#print axioms Fp.Primary.specOf_instances
#print axioms Fp.Primary.planOf_Part_Ref
#print axioms Fp.Primary.planOf_Data_Ref
#print axioms Fp.Primary.planOf_Array_Constructor
#print axioms Fp.Primary.planOf_Intrinsic
#print axioms Fp.Primary.tostrOf_Part_Ref
#print axioms Fp.Primary.tostrOf_Array_Constructor
#print axioms Fp.Primary.tostrOf_Data_Ref
#print axioms Fp.Primary.Plan.run_one
