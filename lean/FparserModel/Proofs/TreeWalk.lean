import FparserModel.Proofs.Tree
import Mathlib.Data.List.Perm.Subperm
import Mathlib.Algebra.BigOperators.Group.List.Basic
import Mathlib.Algebra.Order.BigOperators.Group.List
/-!
# `walk` is the pre-order of the tree that the arena represents (helper lemmas for C10)

`RTree` is an ordinary inductive rose tree of node ids; `RTree.pre` its left-to-right
pre-order, defined by structural recursion and knowing nothing about arenas, tuples or fuel.
`absNode a h n` is the abstraction function: the (finite) unfolding of the arena below node
`n`, where the children of a node are the nodes `_set_parent` sees (`spList` of its child
sequence, through nested tuples and lists).
-/
namespace Fp.Tree

inductive RTree where
  | mk (id : Nat) (kids : List RTree)
deriving Repr, Inhabited

mutual
/-- left-to-right pre-order -/
def RTree.pre : RTree → List Nat
  | .mk id kids => id :: RTree.preL kids
def RTree.preL : List RTree → List Nat
  | [] => []
  | t :: ts => t.pre ++ RTree.preL ts
end

def RTree.id : RTree → Nat
  | .mk id _ => id

def RTree.kids : RTree → List RTree
  | .mk _ kids => kids

/-- all-or-nothing map -/
def mapO {α β} (f : α → Option β) : List α → Option (List β)
  | [] => some []
  | n :: ns =>
    match f n, mapO f ns with
    | some t, some ts => some (t :: ts)
    | _, _ => none

/-- the tree below node `n` (height < `h`); `none`: a dangling id, or the unfolding is
    deeper than `h` (in particular when the child relation has a cycle) -/
def absNode (a : Arena) : Nat → Nat → Option RTree
  | 0, _ => none
  | h + 1, n =>
    match a[n]? with
    | none => none
    | some nd => (mapO (absNode a h) (spList nd.children)).map (RTree.mk n)

/-- `node.children` (`[]` for a dangling id) -/
def kidItems (a : Arena) (n : Nat) : List Item :=
  match a[n]? with
  | some nd => nd.children
  | none => []

def nodeId : Item → Option Nat
  | .node id => some id
  | _ => none

theorem walkIds_eq (a : Arena) (n : Nat) : walkIds a n = (walk a n).filterMap nodeId := by
  unfold walkIds
  congr 1

/-! ## basic list facts -/

theorem preL_append (xs ys : List RTree) : RTree.preL (xs ++ ys) = RTree.preL xs ++ RTree.preL ys := by
  induction xs with
  | nil => simp [RTree.preL]
  | cons x xs ih => simp [RTree.preL, ih]

theorem mapO_append {α β} (f : α → Option β) (xs ys : List α) (ts : List β)
    (h : mapO f (xs ++ ys) = some ts) :
    ∃ t1 t2, mapO f xs = some t1 ∧ mapO f ys = some t2 ∧ ts = t1 ++ t2 := by
  induction xs generalizing ts with
  | nil => exact ⟨[], ts, rfl, h, rfl⟩
  | cons x xs ih =>
    simp only [List.cons_append, mapO] at h ⊢
    cases hx : f x with
    | none => simp [hx] at h
    | some t =>
      cases hr : mapO f (xs ++ ys) with
      | none => simp [hx, hr] at h
      | some tr =>
        simp only [hx, hr, Option.some.injEq] at h
        obtain ⟨t1, t2, h1, h2, rfl⟩ := ih tr hr
        exact ⟨t :: t1, t2, by simp [h1], h2, by simp [← h]⟩

theorem mapO_single {α β} (f : α → Option β) (x : α) (ts : List β) (h : mapO f [x] = some ts) :
    ∃ t, f x = some t ∧ ts = [t] := by
  simp only [mapO] at h
  cases hx : f x with
  | none => simp [hx] at h
  | some t => simp only [hx, Option.some.injEq] at h; exact ⟨t, rfl, h.symm⟩

theorem mapO_nil_iff {α β} (f : α → Option β) (ts : List β) (h : mapO f [] = some ts) : ts = [] := by
  simp only [mapO, Option.some.injEq] at h; exact h.symm

theorem absNode_succ_some (a : Arena) (h n : Nat) (t : RTree) (ht : absNode a h n = some t) :
    ∃ h' nd kids, h = h' + 1 ∧ a[n]? = some nd
      ∧ mapO (absNode a h') (spList nd.children) = some kids ∧ t = .mk n kids := by
  cases h with
  | zero => simp [absNode] at ht
  | succ h' =>
    unfold absNode at ht
    cases hn : a[n]? with
    | none => simp [hn] at ht
    | some nd =>
      simp only [hn, Option.map_eq_some_iff] at ht
      obtain ⟨kids, hk, rfl⟩ := ht
      exact ⟨h', nd, kids, rfl, rfl, hk, rfl⟩

/-! ## `walkList`, one level -/

def compWalk (a : Arena) (f : Nat) : Item → List Item
  | .tup ys => walkList a f ys
  | .lst ys => walkList a f ys
  | other => walkList a f [other]

def childWalk (a : Arena) (f : Nat) : Item → List Item
  | .node id =>
    match a[id]? with
    | some nd => walkList a f nd.children
    | none => []
  | .tup comps => comps.flatMap (compWalk a f)
  | .lst comps => comps.flatMap (compWalk a f)
  | _ => []

theorem walkList_succ (a : Arena) (f : Nat) (items : List Item) :
    walkList a (f + 1) items = items.flatMap (fun c => c :: childWalk a f c) := by
  rw [walkList]
  congr 1

theorem size_le_sizeL {c : Item} {items : List Item} (h : c ∈ items) : Item.size c ≤ Item.sizeL items := by
  induction items with
  | nil => simp at h
  | cons x xs ih =>
    simp only [Item.sizeL]
    rcases List.mem_cons.1 h with rfl | h
    · omega
    · have := ih h; omega

theorem size_pos (c : Item) : 1 ≤ Item.size c := by
  cases c <;> simp [Item.size]

/-- the fuel `walkList` needs below a list of nodes: one per node plus the nesting of its
    child sequence -/
def cost (a : Arena) (c : Nat) (l : List Nat) : Nat := (l.map (fun n => c + Item.sizeL (kidItems a n))).sum

theorem cost_append (a : Arena) (c : Nat) (xs ys : List Nat) : cost a c (xs ++ ys) = cost a c xs + cost a c ys := by
  simp [cost]

theorem cost_cons (a : Arena) (c : Nat) (x : Nat) (xs : List Nat) :
    cost a c (x :: xs) = c + Item.sizeL (kidItems a x) + cost a c xs := by
  simp [cost]

theorem cost_nil (a : Arena) (c : Nat) : cost a c [] = 0 := rfl

/-- statement proved by induction on the fuel -/
def WalkOK (a : Arena) (f : Nat) : Prop :=
  ∀ h items ts, mapO (absNode a h) (spList items) = some ts →
    1 + Item.sizeL items + cost a 1 (RTree.preL ts) ≤ f →
    (walkList a f items).filterMap nodeId = RTree.preL ts

theorem filterMap_flatMap {α β γ} (g : β → Option γ) (f : α → List β) (l : List α) :
    (l.flatMap f).filterMap g = l.flatMap (fun x => (f x).filterMap g) := by
  induction l with
  | nil => rfl
  | cons x xs ih => simp [List.flatMap_cons, List.filterMap_append, ih]

theorem comps_walk (a : Arena) (f : Nat) (IH : WalkOK a f) :
    ∀ comps h ts, mapO (absNode a h) (spList comps) = some ts →
      1 + Item.sizeL comps + cost a 1 (RTree.preL ts) ≤ f →
      (comps.flatMap (compWalk a f)).filterMap nodeId = RTree.preL ts := by
  intro comps
  induction comps with
  | nil =>
    intro h ts hm _
    have := mapO_nil_iff _ _ (by simpa [spList] using hm)
    subst this
    rfl
  | cons comp rest ih =>
    intro h ts hm hf
    simp only [spList] at hm
    obtain ⟨t1, t2, h1, h2, rfl⟩ := mapO_append _ _ _ _ hm
    simp only [Item.sizeL, preL_append, cost_append] at hf
    rw [List.flatMap_cons, List.filterMap_append, preL_append, ih h t2 h2 (by omega)]
    congr 1
    have hs := size_pos comp
    cases comp with
    | tup ys =>
      simp only [spItem] at h1
      simp only [Item.size] at hf
      exact IH h ys t1 h1 (by omega)
    | lst ys =>
      simp only [spItem] at h1
      simp only [Item.size] at hf
      exact IH h ys t1 h1 (by omega)
    | node id =>
      refine IH h [.node id] t1 (by simpa [spList] using h1) ?_
      simp only [Item.sizeL, Item.size] at hf ⊢; omega
    | str s =>
      refine IH h [.str s] t1 (by simpa [spList] using h1) ?_
      simp only [Item.sizeL, Item.size] at hf ⊢; omega
    | none =>
      refine IH h [.none] t1 (by simpa [spList] using h1) ?_
      simp only [Item.sizeL, Item.size] at hf ⊢; omega
    | other b =>
      refine IH h [.other b] t1 (by simpa [spList] using h1) ?_
      simp only [Item.sizeL, Item.size] at hf ⊢; omega

theorem items_walk (a : Arena) (f : Nat) (IH : WalkOK a f) :
    ∀ items h ts, mapO (absNode a h) (spList items) = some ts →
      1 + Item.sizeL items + cost a 1 (RTree.preL ts) ≤ f + 1 →
      (items.flatMap (fun c => c :: childWalk a f c)).filterMap nodeId = RTree.preL ts := by
  intro items
  induction items with
  | nil =>
    intro h ts hm _
    have := mapO_nil_iff _ _ (by simpa [spList] using hm)
    subst this
    rfl
  | cons c rest ih =>
    intro h ts hm hf
    simp only [spList] at hm
    obtain ⟨t1, t2, h1, h2, rfl⟩ := mapO_append _ _ _ _ hm
    simp only [Item.sizeL, preL_append, cost_append] at hf
    rw [List.flatMap_cons, List.filterMap_append, preL_append, ih h t2 h2 (by omega)]
    congr 1
    cases c with
    | node id =>
      simp only [spItem] at h1
      obtain ⟨t, ht, rfl⟩ := mapO_single _ _ _ h1
      obtain ⟨h', nd, kids, rfl, hn, hk, rfl⟩ := absNode_succ_some a h id t ht
      simp only [RTree.preL, RTree.pre, List.append_nil, cost_cons, kidItems, hn, Item.size] at hf ⊢
      simp only [List.filterMap_cons, nodeId, childWalk, hn]
      congr 1
      exact IH h' nd.children kids hk (by omega)
    | tup comps =>
      simp only [spItem] at h1
      simp only [Item.size] at hf
      simp only [List.filterMap_cons, nodeId, childWalk]
      exact comps_walk a f IH comps h t1 h1 (by omega)
    | lst comps =>
      simp only [spItem] at h1
      simp only [Item.size] at hf
      simp only [List.filterMap_cons, nodeId, childWalk]
      exact comps_walk a f IH comps h t1 h1 (by omega)
    | str s =>
      have := mapO_nil_iff _ _ (by simpa [spItem] using h1)
      subst this; rfl
    | none =>
      have := mapO_nil_iff _ _ (by simpa [spItem] using h1)
      subst this; rfl
    | other b =>
      have := mapO_nil_iff _ _ (by simpa [spItem] using h1)
      subst this; rfl

theorem walkOK (a : Arena) : ∀ f, WalkOK a f := by
  intro f
  induction f with
  | zero => intro h items ts _ hf; omega
  | succ f ih =>
    intro h items ts hm hf
    rw [walkList_succ]
    exact items_walk a f ih items h ts hm hf

/-- `walk` with enough fuel lists the node ids in pre-order -/
theorem walkIds_of_fuel (a : Arena) (h root : Nat) (t : RTree) (ht : absNode a h root = some t)
    (hf : cost a 1 t.pre + 2 ≤ arenaFuel a) : walkIds a root = t.pre := by
  rw [walkIds_eq]
  unfold walk
  have : mapO (absNode a h) (spList [.node root]) = some [t] := by
    simp [spList, spItem, mapO, ht]
  have := walkOK a (arenaFuel a) h [.node root] [t] this (by
    simp only [Item.sizeL, Item.size, RTree.preL, List.append_nil]; omega)
  simpa [RTree.preL] using this

end Fp.Tree
