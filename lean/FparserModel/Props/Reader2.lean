import FparserModel.Proofs.ReaderDrain

/-!
# Props/Reader2 — reader model M-B, second batch of property theorems

C15 (OpenMP conditional-compilation sentinels), C14 (preprocessor lines), C11/C12 (comments once,
ignore_comments, span order for a list of clean chunks), C13 (INCLUDE that resolves nowhere).
Every statement is for all reader states / sources of the stated shape (no bounds).
-/
namespace Fp.Reader
open Fp

/-! ## C15 — `include_omp_conditional_lines` -/

/-- C15 `replace_omp_sentinels`, free form, initial line: `sp!$ x` becomes `sp   x`; the columns of
    the rest of the line do not move. -/
theorem omp_sentinel_blanked (sp x : Str) (hsp : Blanks sp) :
    replaceSentinelFree (sp ++ '!' :: '$' :: ' ' :: x) = (sp ++ ' ' :: ' ' :: ' ' :: x, true) ∧
    (replaceSentinelFree (sp ++ '!' :: '$' :: ' ' :: x)).1.length = (sp ++ '!' :: '$' :: ' ' :: x).length :=
  ⟨replaceSentinelFree_sentinel sp x hsp, replaceSentinelFree_length _⟩

/-- C15 `omp_directive_untouched`: `!$omp …` (anything but a blank after `!$`) is no
    conditional-compilation sentinel — free form; and a non-blank non-digit in column 3
    (`!$omp`, `c$omp`, `*$omp`) — fixed form. Whatever is not matched is returned unchanged. -/
theorem omp_directive_untouched (sp rest : Str) (c : Char) (hsp : Blanks sp) (hc : c ≠ ' ')
    (a b c2 : Char) (rest2 : Str) (h1 : c2 ≠ ' ') (h2 : isDigit c2 = false) :
    replaceSentinelFree (sp ++ '!' :: '$' :: c :: rest) = (sp ++ '!' :: '$' :: c :: rest, false) ∧
    replaceSentinelFixed (a :: b :: c2 :: rest2) = (a :: b :: c2 :: rest2, false) :=
  ⟨replaceSentinelFree_directive sp rest c hsp hc,
   replaceSentinelFixed_nomatch _ (sentinelFixedMatch_directive a b c2 rest2 h1 h2)⟩

theorem omp_nomatch_unchanged (line : Str) :
    ((replaceSentinelFree line).2 = false → (replaceSentinelFree line).1 = line) ∧
    ((replaceSentinelFixed line).2 = false → (replaceSentinelFixed line).1 = line) := by
  refine ⟨replaceSentinelFree_nomatch line, fun h => ?_⟩
  unfold replaceSentinelFixed at h ⊢
  split
  · rename_i hm; rw [if_pos hm] at h; cases h
  · rfl

/-- C15 fixed form, the column-6 rule: `!$`/`c$`/`C$`/`*$` in columns 1-2 is blanked iff columns
    3-5 are blanks/digits with a blank or `0` in column 6 (initial line), or columns 3-5 are blank
    with anything else in column 6 (continuation line). -/
theorem omp_fixed_column6 (a c2 c3 c4 c5 : Char) (rest : Str)
    (ha : a = '!' ∨ a = '*' ∨ a = 'c' ∨ a = 'C') :
    ((c2 = ' ' ∨ isDigit c2 = true) → (c3 = ' ' ∨ isDigit c3 = true) → (c4 = ' ' ∨ isDigit c4 = true) →
      (c5 = ' ' ∨ c5 = '0') →
      replaceSentinelFixed (a :: '$' :: c2 :: c3 :: c4 :: c5 :: rest) =
        (' ' :: ' ' :: c2 :: c3 :: c4 :: c5 :: rest, true)) ∧
    (c5 ≠ ' ' → c5 ≠ '0' →
      replaceSentinelFixed (a :: '$' :: ' ' :: ' ' :: ' ' :: c5 :: rest) =
        (' ' :: ' ' :: ' ' :: ' ' :: ' ' :: c5 :: rest, true)) ∧
    (¬ (c2 = ' ' ∧ c3 = ' ' ∧ c4 = ' ') → c5 ≠ ' ' → c5 ≠ '0' →
      replaceSentinelFixed (a :: '$' :: c2 :: c3 :: c4 :: c5 :: rest) =
        (a :: '$' :: c2 :: c3 :: c4 :: c5 :: rest, false)) :=
  ⟨fun h2 h3 h4 h5 => replaceSentinelFixed_match _ (sentinelFixedMatch_init a c2 c3 c4 c5 rest ha h2 h3 h4 h5),
   fun h5 h6 => replaceSentinelFixed_match _ (sentinelFixedMatch_cont a c5 rest ha h5 h6),
   fun h h5 h6 => replaceSentinelFixed_nomatch _ (sentinelFixedMatch_badcol6 a '$' c2 c3 c4 c5 rest h h5 h6)⟩

theorem sentinel_not_f2py (x : Str) : startsWith ('!' :: '$' :: x) kF2py = false := by
  simp [startsWith, kF2py]

/-- C15 `omp_disabled`, free form: with `include_omp_conditional_lines = False` a sentinel line
    `ws!$x` is delivered by `get_source_item` as ONE Comment item holding the line from the `!`,
    spanning that line only, exactly like any other comment line (same lemma:
    `getSourceItem_comment_free`); `_next` returns it when comments are kept. When comments are
    ignored it is skipped like any comment (`commentChunk_ok false` + `drains_chunks`). -/
theorem omp_disabled (r : Rd) (l : Str) (rest : List Str) (ws x : Str)
    (hfifo : r.fifo = []) (h1 : r.filo = []) (h2 : r.closed = false) (h3 : r.isFree = true)
    (h4 : r.omp = false) (hsrc : r.src = l :: rest) (hck : cook l = ws ++ '!' :: '$' :: x)
    (hws : AllSpace ws) :
    getSourceItem r = (.ok (.comment ('!' :: '$' :: x) (r.linecount + 1) (r.linecount + 1) false),
      { r with src := rest, linecount := r.linecount + 1, linesRev := cook l :: r.linesRev }) ∧
    (r.ignoreComments = false →
      next1 r = (.ok (.comment ('!' :: '$' :: x) (r.linecount + 1) (r.linecount + 1) false),
        { r with src := rest, linecount := r.linecount + 1, linesRev := cook l :: r.linesRev })) := by
  have hg := getSourceItem_comment_free r l rest ws ('$' :: x) hfifo h1 h2 h3 hsrc hck hws
    (fun h => by rw [h4] at h; cases h) (sentinel_not_f2py x)
  refine ⟨hg, fun hic => ?_⟩
  exact next1_of_getSourceItem r _ _ hfifo hg (by simp [hic]) (NoSemi.comment _ _ _ _)

/-- C15: with the flag ON an `!$omp` directive line is still an ordinary comment line -/
theorem omp_enabled_directive_is_comment (r : Rd) (l : Str) (rest : List Str) (sp x : Str) (c : Char)
    (hfifo : r.fifo = []) (h1 : r.filo = []) (h2 : r.closed = false) (h3 : r.isFree = true)
    (hsrc : r.src = l :: rest) (hck : cook l = sp ++ '!' :: '$' :: c :: x)
    (hsp : Blanks sp) (hc : c ≠ ' ') :
    getSourceItem r = (.ok (.comment ('!' :: '$' :: c :: x) (r.linecount + 1) (r.linecount + 1) false),
      { r with src := rest, linecount := r.linecount + 1, linesRev := cook l :: r.linesRev }) :=
  getSourceItem_comment_free r l rest sp ('$' :: c :: x) hfifo h1 h2 h3 hsrc hck hsp.allSpace
    (fun _ => by rw [hck, replaceSentinelFree_directive sp x c hsp hc]) (sentinel_not_f2py _)

/-- C15 `omp_enabled`, free form, statement on one line: with the flag on, `sp!$ x` is read
    exactly like `sp   x` is read with the flag off — same item (text, label, name, span, buffered
    inline comment) — and the two final states differ only in the flag and in the recorded text of
    that source line. `hcpp`: the `#` test is done BEFORE the sentinel is removed, so `!$ #if` is a
    statement, not a directive; `hcont`: the blanked line is not itself a `!$` line. -/
theorem omp_enabled_single (r : Rd) (l l' : Str) (tail : List Str) (sp x : Str)
    (h1 : r.filo = []) (h2 : r.closed = false) (h3 : r.isFree = true) (h4 : r.omp = true)
    (hsrc : r.src = l :: tail) (hck : cook l = sp ++ '!' :: '$' :: ' ' :: x) (hsp : Blanks sp)
    (hck' : cook l' = sp ++ ' ' :: ' ' :: ' ' :: x)
    (hcpp : startsWith (lstrip (sp ++ ' ' :: ' ' :: ' ' :: x)) ['#'] = false)
    (hcont : (replaceSentinelFreeCont (sp ++ ' ' :: ' ' :: ' ' :: x)).1 = sp ++ ' ' :: ' ' :: ' ' :: x)
    (hsingle : (freeStep false (sp ++ ' ' :: ' ' :: ' ' :: x) (r.linecount + 1) none none none).more = false) :
    getSourceItem r =
      ((getSourceItem { r with omp := false, src := l' :: tail }).1,
       { (getSourceItem { r with omp := false, src := l' :: tail }).2 with
           omp := true, linesRev := cook l :: r.linesRev }) :=
  getSourceItem_omp_single r l l' tail sp x h1 h2 h3 h4 hsrc hck hsp hck' hcpp hcont hsingle

/-- C15 + C04, continued statements with the flag (`join_continuation` generalised): `line1`/`b` is
    what `replace_omp_sentinels` makes of the first line. After a sentinel line (`b = true`) every
    continuation line first loses its own `!$` (`ompLine true`: regex `^ *(!\$) *&?`, so `!$omp` too);
    after a line WITHOUT sentinel (`b = false`) a `!$ &` line is seen as it is, i.e. as a comment
    line of the layout (the continuation-sentinel rule). -/
theorem omp_join_continuation (r0 : Rd) (l1 l2 : Str) (ls rest : List Str) (line1 t1 b1 : Str) (b : Bool)
    (lab : Option Nat) (nam : Option Str) (c : CLine) (cs : List CLine)
    (hfifo : r0.fifo = []) (h1 : r0.filo = []) (h2 : r0.closed = false) (h3 : r0.isFree = true)
    (hsrc : r0.src = l1 :: l2 :: (ls ++ rest))
    (hcpp : startsWith (lstrip (cook l1)) ['#'] = false)
    (hom : (if r0.omp = true then replaceSentinelFree (cook l1) else (cook l1, false)) = (line1, b))
    (hc1 : ompLine b line1 = line1)
    (hlab : extractLabel line1 = (lab, t1)) (hnam : extractName t1 = (nam, b1 ++ ['&']))
    (hb1 : CleanBody b1) (hc2 : ompLine b (cook l2) = c.text) (hck : CookedO b ls cs) (hw : WFc (c :: cs))
    (hne : strip (b1 ++ joinPieces (c :: cs)) ≠ [])
    (hsemi : (stringReplaceMap (strip (b1 ++ joinPieces (c :: cs))) true).1.contains ';' = false) :
    next1 r0 =
      (.ok (.line (strip (b1 ++ joinPieces (c :: cs))) lab nam (r0.linecount + 1)
              (r0.linecount + 2 + cs.length)),
       { r0 with src := rest, linecount := r0.linecount + 2 + cs.length,
                 linesRev := ((l1 :: l2 :: ls).map cook).reverse ++ r0.linesRev,
                 fifo := joinComments (r0.linecount + 2) (c :: cs) }) := by
  have hg := getSourceItem_joinO r0 l1 l2 ls rest line1 t1 b1 b lab nam c cs hfifo h1 h2 h3 hsrc hcpp hom
    hc1 hlab hnam hb1 hc2 hck hw hne
  refine next1_of_getSourceItem r0 _ _ hfifo hg (by simp [Item.isComment]) ?_
  intro text l nm s e hv
  simp only [Item.lineView, Option.some.injEq, Prod.mk.injEq] at hv
  rw [← hv.1]; exact hsemi

/-! ## C14 — preprocessor directive lines -/

/-- C14 `cpp_line_item` (every reader state, free and fixed form — the branch is taken before the
    format is looked at): a line whose first non-blank character is `#`, followed by the
    `ps.length` lines fetched by `get_single_line` while the right-stripped text ends in a
    backslash, yields exactly ONE `CppDirective`. Its text is `strip (joinCpp p0 ps)`: every piece
    but the last is right-stripped and loses its backslash, the following physical line is
    appended verbatim (leading blanks kept). Span = first .. last physical line; the reader state
    afterwards is the state after exactly those `get_single_line` calls. -/
theorem cpp_line_item (r0 r1 r' : Rd) (p0 : Str) (ps : List Str)
    (hg : getSingleLine r0 = (some p0, r1)) (hh : startsWith (lstrip p0) ['#'] = true)
    (hr : Reads r1 ps r') (hc : CppCont p0 ps) :
    getSourceItem r0 = (.ok (.cpp (strip (joinCpp p0 ps)) r1.linecount r'.linecount), r') :=
  getSourceItem_cpp r0 r1 r' p0 ps hg hh hr hc

/-- C14, free form with the explicit final state and `_next` level: `1 + ls.length` lines are
    consumed, span `(lc+1, lc+1+ls.length)`. (`hsemi`: a `;` in the directive would be split, see
    `cpp_semicolon_split_witness`.) -/
theorem cpp_line_item_free (r : Rd) (l0 : Str) (ls rest : List Str)
    (hfifo : r.fifo = []) (h1 : r.filo = []) (h2 : r.closed = false) (h3 : r.isFree = true)
    (hsrc : r.src = l0 :: (ls ++ rest)) (hh : startsWith (lstrip (cook l0)) ['#'] = true)
    (hc : CppCont (cook l0) (ls.map cook))
    (hsemi : (stringReplaceMap (strip (joinCpp (cook l0) (ls.map cook))) true).1.contains ';' = false) :
    next1 r =
      (.ok (.cpp (strip (joinCpp (cook l0) (ls.map cook))) (r.linecount + 1) (r.linecount + 1 + ls.length)),
       { r with src := rest, linecount := r.linecount + 1 + ls.length,
                linesRev := ((l0 :: ls).map cook).reverse ++ r.linesRev }) := by
  have hg := getSourceItem_cpp_free r l0 ls rest h1 h2 h3 hsrc hh hc
  refine next1_of_getSourceItem r _ _ hfifo hg (by simp [Item.isComment]) ?_
  intro text l nm s e hv
  simp only [Item.lineView, Option.some.injEq, Prod.mk.injEq] at hv
  rw [← hv.1]; exact hsemi

/-! ## C11 / C12 — a list of clean chunks -/

/-- C11 `read_comments_once` + C12: a free-form source made of chunks (comment line, one-line
    statement, continued statement with comment/blank lines inside, preprocessor directive — any
    `Chunk.ok`) is drained to exactly `chunkItems`: for every chunk in order its item, then the
    comment lines inside it, each once with its own line number; nothing else, and the reader ends
    closed with `linecount` = number of lines. With `ignore_comments` the drain is the same list
    without the Comment items (`read_ignore_comments`, second part). -/
theorem read_comments_once (d : Nat) (fs : Fs) (o : Bool) (cs : List Chunk) (r : Rd)
    (hok : ∀ c ∈ cs, c.ok o) (h0 : r.omp = o) (hfifo : r.fifo = []) (h1 : r.filo = [])
    (h2 : r.closed = false) (h3 : r.isFree = true) (hsrc : r.src = srcOf cs)
    (hni : ∀ x ∈ chunkItems r.ignoreComments r.linecount cs, NoInc x) :
    Drains (d + 1) fs [r] (evItems (chunkItems r.ignoreComments r.linecount cs))
      [{ r with src := [], linecount := r.linecount + totalLines cs,
                linesRev := ((srcOf cs).map cook).reverse ++ r.linesRev, closed := true }] ∧
    chunkItems true r.linecount cs = (chunkItems false r.linecount cs).filter (fun x => !x.isComment) :=
  ⟨drains_chunks d fs o cs r hok h0 hfifo h1 h2 h3 hsrc hni, chunkItems_ignore _ _⟩

/-- C12 `read_ignore_comments`: the same source read with and without `ignore_comments`: the
    events with the flag are the events without it minus the Comment items (spans, labels, names
    and order of the statements untouched). -/
theorem read_ignore_comments (d : Nat) (fs : Fs) (o : Bool) (cs : List Chunk) (r : Rd)
    (hok : ∀ c ∈ cs, c.ok o) (h0 : r.omp = o) (hfifo : r.fifo = []) (h1 : r.filo = [])
    (h2 : r.closed = false) (h3 : r.isFree = true) (hsrc : r.src = srcOf cs)
    (hni : ∀ x ∈ chunkItems false r.linecount cs, NoInc x) :
    ∃ fin1 fin2,
      Drains (d + 1) fs [{ r with ignoreComments := false }] (evItems (chunkItems false r.linecount cs)) fin1 ∧
      Drains (d + 1) fs [{ r with ignoreComments := true }]
        (evItems ((chunkItems false r.linecount cs).filter (fun x => !x.isComment))) fin2 := by
  have ha := drains_chunks d fs o cs { r with ignoreComments := false } hok h0 hfifo h1 h2 h3 hsrc hni
  have hb := drains_chunks d fs o cs { r with ignoreComments := true } hok h0 hfifo h1 h2 h3 hsrc
    (by
      intro x hx
      simp only [chunkItems_ignore, List.mem_filter] at hx
      exact hni x hx.1)
  simp only [chunkItems_ignore] at hb
  exact ⟨_, _, ha, hb⟩

/-- C12 `read_spans_ordered` (chunk layouts): the spans of the successive Line items of the drain
    are strictly increasing and pairwise disjoint (`a.last < b.first` for `a` before `b`).
    Not true for all sources: the parts of a `;` line share one span (see Props/Reader.lean). -/
theorem read_spans_ordered (ic o : Bool) (cs : List Chunk) (lc : Nat) (hok : ∀ c ∈ cs, c.ok o) :
    List.Pairwise (fun a b => a.last < b.first) ((chunkItems ic lc cs).filter (fun x => !x.isComment)) :=
  chunkItems_spans_ordered ic cs lc o hok

/-! ## C13 — INCLUDE lines -/

/-- C13 `include_missing_kept`: an INCLUDE line whose file is found nowhere (the path finally
    tested after the directory search is not a regular file) is delivered as the ordinary `Line`
    it is, at its position; no include reader is started. -/
theorem include_missing_kept (d : Nat) (fs : Fs) (r r1 : Rd) (x : Item) (text : Str)
    (l : Option Nat) (n : Option Str) (s e : Nat) (h : next1 r = (.ok x, r1))
    (hv : x.lineView = some (text, l, n, s, e))
    (hm : ∀ a b ls, fs.get (searchPath fs (includeFilename text) r1.includeDirs (includeFilename text))
      ≠ some (.file a b ls)) :
    getItem (d + 1) fs [r] = (.ok x, [r1]) :=
  getItem_include_missing d fs r r1 x text l n s e h hv (resolveInclude_missing fs r1 text hm)

/-! ## non-vacuity -/

def fr (src : List String) (ic omp : Bool) : Rd := Rd.mk' (src.map String.toList) true ic omp false []

/-- `omp_disabled`: flag off, `!$ x = 1` is a comment -/
example : (getSourceItem (fr ["  !$ x = 1", "y = 2"] false false)).1 =
    .ok (.comment "!$ x = 1".toList 1 1 false) := by
  have := (omp_disabled (fr ["  !$ x = 1", "y = 2"] false false) "  !$ x = 1".toList ["y = 2".toList]
    "  ".toList " x = 1".toList rfl rfl rfl rfl rfl rfl (by decide) (by unfold AllSpace; decide)).1
  rw [this]; rfl

/-- `omp_enabled_single`: flag on, `  !$ 10 x = 1 ! c` is read like `     10 x = 1 ! c` -/
example : (getSourceItem (fr ["  !$ 10 x = 1 ! c", "y = 2"] false true)).1 =
    .ok (.line "x = 1".toList (some 10) none 1 1) := by
  have := omp_enabled_single (fr ["  !$ 10 x = 1 ! c", "y = 2"] false true) "  !$ 10 x = 1 ! c".toList
    "     10 x = 1 ! c".toList ["y = 2".toList] "  ".toList "10 x = 1 ! c".toList rfl rfl rfl rfl rfl
    (by decide) (by unfold Blanks; decide) (by decide) (by decide) (by decide) (by decide)
  rw [this]
  decide +kernel

/-- `omp_enabled_directive_is_comment` / `omp_directive_untouched` -/
example : (getSourceItem (fr ["!$omp parallel", "y = 2"] false true)).1 =
    .ok (.comment "!$omp parallel".toList 1 1 false) := by
  have := omp_enabled_directive_is_comment (fr ["!$omp parallel", "y = 2"] false true)
    "!$omp parallel".toList ["y = 2".toList] [] "mp parallel".toList 'o' rfl rfl rfl rfl rfl
    (by decide) (by unfold Blanks; decide) (by decide)
  rw [this]; rfl

/-- `omp_join_continuation`, flag on, sentinel on every line, a `!$omp`-looking continuation -/
example : (next1 (fr ["!$ x = 1 + &", "!$ & 2 + &", "! note", "!$   3", "y = 2"] false true)).1 =
    .ok (.line "x = 1 +  2 +      3".toList none none 1 4) := by
  have := omp_join_continuation (fr ["!$ x = 1 + &", "!$ & 2 + &", "! note", "!$   3", "y = 2"] false true)
    "!$ x = 1 + &".toList "!$ & 2 + &".toList ["! note".toList, "!$   3".toList] ["y = 2".toList]
    "   x = 1 + &".toList "   x = 1 + &".toList "   x = 1 + ".toList true none none
    (.cont "   ".toList " 2 + ".toList true true)
    [.comment "! note".toList, .cont "     ".toList "3".toList false false]
    rfl rfl rfl rfl rfl (by decide) (by decide) (by decide) (by decide) (by decide)
    (by unfold CleanBody NoC; decide) (by decide)
    (CookedO.cons (by decide) (CookedO.cons (by decide) CookedO.nil))
    (by simp only [WFc, CLine.ok, CLine.isLast, CleanBody, Blanks, NoC]; decide)
    (by decide) (by decide)
  rw [this]
  decide +kernel

/-- the continuation-sentinel rule: after a line WITHOUT sentinel, `!$ &` is a comment line -/
example : (next1 (fr ["x = 1 + &", "!$ & 2 + &", "   3", "y = 2"] false true)).1 =
    .ok (.line "x = 1 +    3".toList none none 1 3) := by
  have := omp_join_continuation (fr ["x = 1 + &", "!$ & 2 + &", "   3", "y = 2"] false true)
    "x = 1 + &".toList "!$ & 2 + &".toList ["   3".toList] ["y = 2".toList]
    "x = 1 + &".toList "x = 1 + &".toList "x = 1 + ".toList false none none
    (.comment "!$ & 2 + &".toList) [.cont "   ".toList "3".toList false false]
    rfl rfl rfl rfl rfl (by decide) (by decide) (by decide) (by decide) (by decide)
    (by unfold CleanBody NoC; decide) (by decide)
    (CookedO.cons (by decide) CookedO.nil)
    (by simp only [WFc, CLine.ok, CLine.isLast, CleanBody, Blanks, NoC]; decide)
    (by decide) (by decide)
  rw [this]
  decide +kernel

/-- `cpp_line_item_free`: two backslash continuations -/
example : (next1 (fr ["  #define X \\", "   1 + \\  ", " 2", "y = 1"] true false)).1 =
    .ok (.cpp "#define X    1 +  2".toList 1 3) := by
  have := cpp_line_item_free (fr ["  #define X \\", "   1 + \\  ", " 2", "y = 1"] true false)
    "  #define X \\".toList ["   1 + \\  ".toList, " 2".toList] ["y = 1".toList] rfl rfl rfl rfl rfl
    (by decide) (by simp only [CppCont, List.map]; decide) (by decide +kernel)
  rw [this]
  decide +kernel

/-- `cpp_line_item` in fixed form, lines pushed back on `filo_line` (generic reader state) -/
def cppDemo : Rd :=
  { Rd.mk' ["      x = 1".toList] false false false false [] with
    filo := ["#if A \\".toList, "  B".toList], linecount := 5 }

example : (getSourceItem cppDemo).1 = .ok (.cpp "#if A   B".toList 6 7) := by
  have := cpp_line_item cppDemo (getSingleLine cppDemo).2 (getSingleLine (getSingleLine cppDemo).2).2
    "#if A \\".toList ["  B".toList] rfl (by decide) (Reads.cons rfl (Reads.nil _))
    (by simp only [CppCont]; decide)
  rw [this]
  decide +kernel

/-- a source of four chunks: statement, comment line, continued statement with a comment inside,
    preprocessor directive -/
def demoChunks : List Chunk :=
  [stmtChunk "10 a = 1".toList "a = 1".toList (some 10) none,
   commentChunk "  ! top".toList " top".toList,
   contChunk "b = &".toList " ! in".toList ["  2".toList] "b = ".toList none none
     (.comment " ! in".toList) [.cont "  ".toList "2".toList false false],
   cppChunk "#endif".toList []]

theorem demoChunks_ok : ∀ c ∈ demoChunks, c.ok false := by
  intro c hc
  simp only [demoChunks, List.mem_cons, List.not_mem_nil, or_false] at hc
  rcases hc with rfl | rfl | rfl | rfl
  · exact stmtChunk_ok false _ "a = 1".toList _ _ _ (by decide) (fun h => by cases h) (by decide)
      (by decide) (by unfold CleanBody NoC; decide) (by decide) (by decide)
  · exact commentChunk_ok false _ "  ".toList _ (by decide) (by unfold AllSpace; decide)
      (fun h => by cases h) (by decide)
  · exact contChunk_ok _ _ _ "b = &".toList _ _ _ _ _ (by decide) (by decide) (by decide)
      (by unfold CleanBody NoC; decide) (by decide) (Cooked.cons (by decide) Cooked.nil)
      (by simp only [WFc, CLine.ok, CLine.isLast, CleanBody, Blanks, NoC]; decide) (by decide) (by decide)
  · exact cppChunk_ok false _ _ (by decide) (by simp only [CppCont, List.map]; decide) (by decide +kernel)

/-- instance of `read_comments_once` / `read_ignore_comments` / `read_spans_ordered` -/
example : chunkItems false 0 demoChunks =
    [.line "a = 1".toList (some 10) none 1 1, .comment "! top".toList 2 2 false,
     .line "b =   2".toList none none 3 5, .comment "! in".toList 4 4 false,
     .cpp "#endif".toList 6 6] ∧
    chunkItems true 0 demoChunks =
    [.line "a = 1".toList (some 10) none 1 1, .line "b =   2".toList none none 3 5,
     .cpp "#endif".toList 6 6] := by
  constructor <;> decide +kernel

example : ∃ fin, Drains 1 [] [Rd.mk' (srcOf demoChunks) true true false false []]
    (evItems (chunkItems true 0 demoChunks)) fin :=
  ⟨_, (read_comments_once 0 [] false demoChunks (Rd.mk' (srcOf demoChunks) true true false false [])
    demoChunks_ok rfl rfl rfl rfl rfl rfl (by
      intro x hx
      have : chunkItems true 0 demoChunks =
          [.line "a = 1".toList (some 10) none 1 1, .line "b =   2".toList none none 3 5,
           .cpp "#endif".toList 6 6] := by decide +kernel
      simp only [Rd.mk', Bool.false_eq_true, if_false] at hx
      rw [this] at hx
      simp only [List.mem_cons, List.not_mem_nil, or_false] at hx
      rcases hx with rfl | rfl | rfl <;>
        (intro text l n s e hv
         simp only [Item.lineView, Option.some.injEq, Prod.mk.injEq] at hv
         rw [← hv.1]; decide +kernel))).1⟩

/-- `include_missing_kept`: empty file system -/
example : getItem 1 [] [fr ["include 'nofile.h'", "x = 1"] true false] =
    (.ok (.line "include 'nofile.h'".toList none none 1 1),
     [(next1 (fr ["include 'nofile.h'", "x = 1"] true false)).2]) := by
  have h : next1 (fr ["include 'nofile.h'", "x = 1"] true false) =
      (.ok (.line "include 'nofile.h'".toList none none 1 1),
       (next1 (fr ["include 'nofile.h'", "x = 1"] true false)).2) := by
    apply Prod.ext
    · decide +kernel
    · rfl
  exact include_missing_kept 0 [] _ _ _ _ none none 1 1 h rfl (fun a b ls h => by simp [Fs.get] at h)

end Fp.Reader
