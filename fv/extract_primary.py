"""Translator of the Primary slice (operand layer of Fortran2003.py): what
`lean/FparserModel/Primary.lean` mirrors BY HAND, read from the LIVE classes / regexes of /repo and
written to `FparserModel/Generated/PrimaryTables.lean` (namespace `Fp.Generated.PrimaryTables`),
each fact with a kernel obligation (`decide +kernel`) that it still is what the model was written
against.

1. `nameIds` : `Fp.Generated.names` ids of `Fp.Primary.clsNames` (position = local class id) and
   `nameIds_ok`.
2. `subclasses_closed_2003/2008` : `Fp.Primary.tableOf` drops no entry of the real
   `Base.subclasses[c]` for a class `c` of the layer; `unmodelledSubclasses2003/2008` (computed from
   the live `Base.subclasses`) pinned against `PrimaryPins`.
3. `liveHasMatch2003/2008` : `hasattr(cls, "match")` of every class of the layer = `(planOf …).isSome`.
4. FINGERPRINTS (sha1[:16] of `ast.dump` of the docstring-stripped `inspect.getsource`, the helper of
   fv.extract_iostmt) of every mirrored method: `match` / `tostr` / `init` of every class of
   `clsNames[0:45]` in both standards, resolved through the MRO to the defining class, the utils.py
   combinators, `Pattern.rsplit/lsplit`, `ParserFactory._setup`, and the module-level loops that
   `exec` the `*_List` / `*_Name` / `Scalar_*` classes.  One theorem per method
   `pin_<module>_<Class>_<method> : Pinned "<what to do>" (some (key, live)) Pins.expected[i]?`.
   The expected values live in `FparserModel/PrimaryPins.lean` (namespace `Fp.Primary.Pins`), written
   ONLY by `--write-pins`.
5. the LITERAL-CONSTANT REGEXES of pattern_tools.py: compiled pattern string + flags pinned
   (`pattern_<name>`), and a BEHAVIOUR TABLE per pattern: the live compiled regex run on a fixed
   deterministic probe list, `table_<name>`, with the obligation `table_<name>_ok` that the hand
   scanner of the model gives the same groups on every probe.
6. `intrinsicNames_live_2003/2008` = `len(Intrinsic_Name.function_names)` against `SymGlue.itOf`.

    python -m fv.extract_primary <lean dir>                         (re)generate
    python -m fv.extract_primary --check <lean dir>                 regenerate in a temp dir and diff
    python -m fv.extract_primary --write-pins <lean dir> [key ...]  after re-validation: record pins
                                                                    (all of them, or only the named
                                                                    methods / patterns)
    python -m fv.extract_primary --find-disagreements <lean dir>    run the hand scanners (lake env
                                                                    lean) over the probe lists and
                                                                    print every probe on which a
                                                                    scanner differs from its regex
"""
import difflib
import inspect
import itertools
import os
import re
import shutil
import subprocess
import sys
import tempfile

from fv import repo

repo.activate()

from fv import extract_iostmt as _io                    # noqa: E402  (fingerprint helper)
from fparser.two import utils as U                     # noqa: E402
from fparser.two import Fortran2003 as F3              # noqa: E402
from fparser.two import Fortran2008 as F8              # noqa: E402
from fparser.two import pattern_tools as pattern       # noqa: E402
from fparser.two import parser as P                    # noqa: E402

fingerprint = _io.fingerprint
_fn = _io._fn
_pkg = _io._pkg
ident = _io.ident

N_MATCH = 45            # clsNames[0:45] have a `match`
N_LAYER = 85            # clsNames[0:85] are the layer (`Fp.Primary.firstExternal`)
METHODS = ("match", "tostr", "init")
UTILS = [("Base", "__new__"),
         ("NumberBase", "match"), ("NumberBase", "tostr"),
         ("StringBase", "match"), ("StringBase", "tostr"), ("STRINGBase", "match"),
         ("BracketBase", "match"), ("BracketBase", "tostr"),
         ("CallBase", "match"), ("CallBase", "tostr"),
         ("SequenceBase", "match"), ("SequenceBase", "tostr"),
         ("SeparatorBase", "match"), ("SeparatorBase", "tostr"),
         ("KeywordValueBase", "match"), ("KeywordValueBase", "tostr"),
         ("BinaryOpBase", "match"), ("BinaryOpBase", "tostr")]

INSTRUCTION = ("MIRRORED METHOD EDITED in /repo: re-validate its mirror in FparserModel/Primary.lean "
               "(read the diff, run python -m fv.cosim_primary), then record the new fingerprint with "
               "python -m fv.extract_primary --write-pins <lean dir> [<method>]")
REGEX_INSTRUCTION = ("LITERAL REGEX EDITED in pattern_tools.py: re-validate the hand scanner of "
                     "FparserModel/Primary.lean against the new pattern (the behaviour table "
                     "table_%s of Generated/PrimaryTables.lean is re-made from the live regex on every "
                     "run; run python -m fv.cosim_primary), then record the new pattern with "
                     "python -m fv.extract_primary --write-pins <lean dir> %s")
UNPINNED = "UNPINNED"

# pattern_tools attribute -> (kind, Lean scanner applied to `p.1.toList`)
#   kind "named": groupdict() value / kind_param ; "bool": match / no match ;
#   "BOOL": as "bool" but probed on the UPPER-CASED text (STRINGBase.match upper-cases first)
PATTERNS = [
    ("abs_name", "bool", "isName"),
    ("abs_int_literal_constant_named", "named", "scanInt"),
    ("abs_signed_int_literal_constant_named", "named", "scanSignedInt"),
    ("abs_real_literal_constant_named", "named", "scanReal"),
    ("abs_signed_real_literal_constant_named", "named", "scanSignedReal"),
    ("abs_logical_literal_constant_named", "named", "scanLogical"),
    ("abs_a_n_char_literal_constant_named1", "named", "scanCharLit '\\''"),
    ("abs_a_n_char_literal_constant_named2", "named", "scanCharLit '\"'"),
    ("abs_binary_constant", "BOOL", "scanBoz 'B' isBinDigit"),
    ("abs_octal_constant", "BOOL", "scanBoz 'O' isOctDigit"),
    ("abs_hex_constant", "BOOL", "scanBoz 'Z' isHexDigitU"),
    ("abs_complex_literal_constant", "bool", "scanComplex"),
    ("abs_intrinsic_type_name", "bool", "isIntrinsicTypeName"),
]

# Probes on which a hand scanner of Primary.lean is KNOWN to differ from the live regex (MODEL BUGS,
# reported to the lead).  They are left out of `table_<name>` (so that the generated file builds) and
# emitted as `disagree_<name>` with the failing obligation in a comment.  MUST become empty.
_LEAD_WS = [" ", "\t", "\n"]
KNOWN_DISAGREEMENTS = {}      # (the `scanCharLit` leading-blank bug found with these tables is fixed in the model)


# ---------------------------------------------------------------------------------------------
# reading the Lean side
# ---------------------------------------------------------------------------------------------

def _lean_dir(outdir):
    """`outdir` = the lean project dir or its FparserModel/Generated directory (what
    fv.common.run_extractors passes)"""
    outdir = os.path.normpath(outdir)
    if os.path.basename(outdir) == "Generated":
        outdir = os.path.dirname(os.path.dirname(outdir))
    return outdir


def lean_names(lean_dir):
    """`Fp.Generated.names` exactly as Lean sees it (FparserModel/Generated/Classes2003.lean)"""
    src = open(os.path.join(lean_dir, "FparserModel", "Generated", "Classes2003.lean")).read()
    names = []
    for m in re.finditer(r"def names_\d+ : List String := \[(.*?)\n\]", src, re.S):
        names += re.findall(r'"([^"]*)"', m.group(1))
    return names


def model_cls_names(lean_dir):
    src = open(os.path.join(lean_dir, "FparserModel", "Primary.lean")).read()
    m = re.search(r"def clsNames : List String := \[(.*?)\]\n", src, re.S)
    body = re.sub(r"--[^\n]*", "", m.group(1))
    return re.findall(r'"([^"]*)"', body)


def lean_str(s):
    out = ['"']
    for ch in s:
        o = ord(ch)
        if ch == "\\":
            out.append("\\\\")
        elif ch == '"':
            out.append('\\"')
        elif ch == "\n":
            out.append("\\n")
        elif ch == "\t":
            out.append("\\t")
        elif ch == "\r":
            out.append("\\r")
        elif 32 <= o < 127:
            out.append(ch)
        elif o < 256:
            out.append("\\x%02x" % o)
        else:
            out.append("\\u{%x}" % o)
    out.append('"')
    return "".join(out)


# ---------------------------------------------------------------------------------------------
# the live classes of a standard
# ---------------------------------------------------------------------------------------------

class _Spy(P.ParserFactory):
    """`ParserFactory` that remembers the `(name, cls)` list `create` hands to `_setup`"""
    seen = None

    def _setup(self, input_classes):
        self.seen = list(input_classes)
        return super()._setup(input_classes)


def live_world(std):
    """(name -> class object as `_setup` keeps it, copy of Base.subclasses) after `create(std)`"""
    spy = _Spy()
    spy.create(std=std)
    by_name = {}
    class_type = type(U.Base)
    for _, cls in spy.seen:
        if isinstance(cls, class_type) and issubclass(cls, U.Base) and not cls.__name__.endswith("Base"):
            by_name[cls.__name__] = cls          # later same-named classes overwrite (base_classes)
    subs = {k: list(v) for k, v in U.Base.subclasses.items()}
    return by_name, subs


def collect_worlds():
    worlds = {std: live_world(std) for std in ("f2003", "f2008")}
    P.ParserFactory().create(std="f2003")       # leave the global state as the other translators do
    return worlds


# ---------------------------------------------------------------------------------------------
# fingerprints
# ---------------------------------------------------------------------------------------------

def _module_key(obj):
    mod = obj.__module__
    if mod.startswith("fparser.two.Fortran2008"):
        rest = mod[len("fparser.two.Fortran2008"):].lstrip(".")
        return "Fortran2008" + ("." + rest if rest else "")
    return mod.split(".")[-1]


def _generated_descr(fn):
    """exec-generated method (`inspect.getsource` fails): what its code object refers to"""
    code = fn.__code__
    consts = [c for c in code.co_consts if isinstance(c, str)]
    return "generated:" + ".".join(code.co_names) + "(" + ",".join(repr(c) for c in consts) + ")"


def _method_fp(raw):
    fn = _fn(raw)
    try:
        return fingerprint(fn)
    except (OSError, TypeError):
        return _generated_descr(fn)


def _generator_loops(mod):
    """fingerprint of the module-level `for` loops that `exec` the *_List / *_Name / Scalar_* classes"""
    import ast
    import hashlib
    tree = ast.parse(inspect.getsource(mod))
    dumps = []
    for node in tree.body:
        if isinstance(node, ast.For) and any(
                isinstance(n, ast.Call) and isinstance(n.func, ast.Name) and n.func.id == "exec"
                for n in ast.walk(node)):
            dumps.append(ast.dump(node, include_attributes=False))
    if not dumps:
        return "absent"
    return hashlib.sha1("\n".join(dumps).encode("utf-8")).hexdigest()[:16]


def collect_fingerprints(cls_names, worlds):
    out = {}
    for std in ("f2003", "f2008"):
        by_name, _ = worlds[std]
        for name in cls_names[:N_MATCH]:
            cls = by_name.get(name)
            if cls is None:
                out["MISSING.%s.%s" % (std, name)] = "class not found"
                continue
            for meth in METHODS:
                for k in cls.__mro__:
                    if meth in k.__dict__:
                        out["%s.%s.%s" % (_module_key(k), k.__name__, meth)] = _method_fp(k.__dict__[meth])
                        break
    for cn, meth in UTILS:
        out["utils.%s.%s" % (cn, meth)] = _method_fp(getattr(U, cn).__dict__[meth])
    out["pattern_tools.Pattern.rsplit"] = _method_fp(pattern.Pattern.__dict__["rsplit"])
    out["pattern_tools.Pattern.lsplit"] = _method_fp(pattern.Pattern.__dict__["lsplit"])
    out["parser.ParserFactory._setup"] = _method_fp(P.ParserFactory.__dict__["_setup"])
    out["parser.ParserFactory.create"] = _method_fp(P.ParserFactory.__dict__["create"])
    out["Fortran2003.<module>.class_generator_loop"] = _generator_loops(F3)
    out["Fortran2008.<module>.class_generator_loop"] = _generator_loops(F8)
    return sorted(out.items())


def collect_patterns():
    """[(name, "<flags>:<sha1[:16] of the pattern text>", pattern text)] of the compiled literal-constant
    regexes (the kernel compares the short digest: comparing the 640 characters of the complex pattern
    costs it 4 s; the text is emitted next to it for the reader)"""
    import hashlib
    rows = []
    for name, _, _ in PATTERNS:
        c = getattr(pattern, name).get_compiled()
        rows.append((name, "%d:%s" % (c.flags, hashlib.sha1(c.pattern.encode("utf-8")).hexdigest()[:16]), c.pattern))
    return rows


def collect_unmodelled(cls_names, worlds):
    res = {}
    known = set(cls_names)
    for std in ("f2003", "f2008"):
        _, subs = worlds[std]
        res[std] = [(c, s.__name__) for c in cls_names[:N_LAYER] for s in subs.get(c, [])
                    if s.__name__ not in known]
    return res


# ---------------------------------------------------------------------------------------------
# probe lists (fixed, deterministic; ASCII domain of the model)
# ---------------------------------------------------------------------------------------------

def _uniq(xs):
    seen = set()
    out = []
    for x in xs:
        if x not in seen:
            seen.add(x)
            out.append(x)
    return out


def _words(alphabet, maxlen):
    for n in range(maxlen + 1):
        for tup in itertools.product(alphabet, repeat=n):
            yield "".join(tup)


KIND_TAILS = ["", "_8", "_wp", "_", "__k", "_1a", "_ 8", " _8", " _ wp", "_\t8", "\t_\t8", "_8 ", "_8\n",
              "_wp$", "_$p", "_w_p", "_WP", "_8_4", "_k1", "_ k k", "_8 8", "_08", "8", "wp", " ", "\t",
              "\n", "_\n8", "_k.", "._8", "_k_", "_Kind_1$", "_\x0c4", "\r_\r4", "_\x1f4", "\x0b"]
KIND_TAILS_SHORT = ["", "_8", "_wp", "_", "__k", "_1a", " _ 8", "_8\n", "\t_\tk$", "_8 4"]

INT_VALUES = ["", "0", "1", "12", "007", "1234567890", "1 2", "1\t2", " 1", "\t1", "\n1", "a", "1a", "a1",
              "1.", ".1", "+1", "-1", "1+", "1e2", "$", "_", "1_", "'1'"]


def probes_int():
    xs = [v + t for v in INT_VALUES for t in KIND_TAILS_SHORT]
    xs += ["12" + t for t in KIND_TAILS] + ["0" + t for t in KIND_TAILS]
    return _uniq(xs)


SIGNS = ["", "+", "-", "+ ", "- ", " +", "\t-", "+\t", "-\n", "++", "+-", "-+", "+  ", " "]


def probes_signed_int():
    xs = [s + v + t for s in SIGNS for v in ["1", "12", "", "1 2", "a"]
          for t in ["", "_8", " _ k", "_", "_1a"]]
    xs += ["-12" + t for t in KIND_TAILS] + ["+ 7" + t for t in KIND_TAILS_SHORT]
    xs += ["1+", "1-1", "+1+", "+", "-", " ", "", "+_8", "-_k", "+ _ 8", "+.1", "+1.", "1 + 1"]
    return _uniq(xs)


SIGNIFICANDS = ["1.", "1.5", ".5", "1", "12.345", "1 . 5", "1. 5", "1 .5", ". 5", ".", "1..", "1.5.", "..5",
                "1\t.\t5", "", "a.5", "1.a", " 1.5", "1.5 ", "1.  "]
EXPONENTS = ["", "e1", "E1", "d1", "D1", "q1", "Q1", "e+1", "e-1", "E+12", "d-03", "e + 1", "e", "e+", "e-",
             " e1", "e 1", "e1 ", "e\t+\t1", "ee1", "e1e1", "e1.5", "e+-1", "e++1", "ed1", "de1", "x1", "e1a",
             "e_8", "\ne\n1"]


def probes_real():
    xs = [s + e for s in SIGNIFICANDS for e in EXPONENTS[:22]]
    xs += [s + e for s in ["1.5", "1", ".5", "1."] for e in EXPONENTS[22:]]
    xs += [s + e + t for s in ["1.", "1.5", ".5", "1"] for e in ["", "e1", "d-2", " E 3"]
           for t in KIND_TAILS_SHORT[:8]]
    xs += ["1.5" + t for t in KIND_TAILS] + ["1e5" + t for t in KIND_TAILS]
    xs += ["1._8", "1. _8", "1 ._8", "1.e_8", "1.d0_wp", "1.0e0_", "1.0_e1", "1.0_e", "1.0_d0", "1e", "1d",
           "1e_8", "e1", "d1", ".e1", ".d1", "1.e1", "1.d1", "1 e 1", "1 d + 1", "1.0d0d0", "0.", ".0", "00.00",
           "1.5e10_wp$", "1.5 e 10 _ wp", "1.5\te\t10\t_\twp", "1.5\n", "\n1.5", "1,5", "1.5,", "1.5 1", "1 .",
           "1 . ", " . 1", "+1.5", "-1.5", "1.5+", "1.e+", "1.5e1.5", "1.5_8_8", "1.5__8", "1.5_ 8 ", "1.5_ 8 8"]
    return _uniq(xs)


def probes_signed_real():
    base = ["1.", "1.5", ".5", "1", "1e5", "1.5e-3", "1.5d0_wp", ".5_8", "1 . 5 e 1 _ k", "1.e", "", ".", "e1",
            "1.5_", "1.5__k", "1.5_1a", "1.0 e+1", "1\t.", "1.5\n", "a", "1e", "1.5e", "1..", "1.5_wp$"]
    xs = [s + v for s in SIGNS for v in base]
    xs += ["-1.5" + t for t in KIND_TAILS] + ["+ .5e1" + t for t in KIND_TAILS_SHORT]
    xs += ["1.5-", "1.5e-", "+-1.5", "1.5 - 1.5", "- . 5", "-.", "+", "-", "+e1", "-1e+", "-1 e - 1", "- 1 d 1 _ 8"]
    return _uniq(xs)


LOGICALS = [".true.", ".false.", ".TRUE.", ".FALSE.", ".True.", ".fAlSe.", ". true .", ".true .", ". true.",
            ".\ttrue\t.", ".\nfalse\n.", ".tru.", ".truee.", ".true", "true.", "true", "..true.", ".true..",
            ".t.", ".f.", ".truefalse.", ".true.false.", ".not.", "", ".", "..", ".tr ue.", ". .", ".true_.",
            ".true1.", "x.true.", " .true.", ".true. ", ".false.x", ".falsee.", ".fals.", ".TRUEFALSE.",
            ".true,", ".tRuE  ."]


def probes_logical():
    xs = [v + t for v in LOGICALS for t in KIND_TAILS_SHORT[:6]]
    xs += [".true." + t for t in KIND_TAILS] + [".FALSE." + t for t in KIND_TAILS]
    return _uniq(xs)


CHAR_PREFIXES = ["", "k_", "k _ ", "k_ ", "k _", "1_", "12 _ ", "_", "__", "k__", "1a_", "k$_", "_k_", " k_",
                 " ", "\t", "wp_", "WP\t_\t", "k", "k ", "$k_", "k_k_", "1 2_", "k1_", "K_1_", "\n", "k\n_\n",
                 "k.", "k_x", "8", "_8_", "a b_", "k_\x0c"]


def _char_values(q, o):
    """values with quote `q` (other quote `o`), as the tokeniser (string_replace_map) leaves them"""
    vals = ["%s_F2PY_STRING_CONSTANT_1_%s", "%s%s", "%s %s", "%sabc%s", "%s a %s", "%sa b%s", "%sa%s%sb%s",
            "%sa%s %sb%s", "%sa%sx%sb%s", "%sa", "a%s", "%s", "%s%s%s", "%s%s%s%s", "%sa%s\n", "%sa%s ",
            "%sa$%s", "%sa.b%s", "%s\ta\t%s", "%s1%s", "%s_%s", "%s  %s", "%sa%s_k", "%sa%s_", "%sa%sk",
            "%s_F2PY_STRING_CONSTANT_1_%s%s_F2PY_STRING_CONSTANT_2_%s", "%sa%s\t%sb%s", "%sa%s%s", "%s%s%sa%s",
            "%s\n%s", "%sa\nb%s", "%s a b %s", "%sab %s", "%s ab%s", "%sA_1%s", "%sa%s%sb%s%sc%s", ""]
    out = [v.replace("%s", q) for v in vals]
    out += [o + "abc" + o, q + "a" + o, o + "a" + q, q + o + q, q + "a" + o + "b" + q,
            o + "_F2PY_STRING_CONSTANT_1_" + o]
    return out


def probes_char(q, o):
    vals = _char_values(q, o)
    xs = [p + v for p in CHAR_PREFIXES[:14] for v in vals[:12]]
    xs += [p + q + "abc" + q for p in CHAR_PREFIXES] + [p + q + "_F2PY_STRING_CONSTANT_1_" + q for p in CHAR_PREFIXES]
    xs += vals + ["k_" + v for v in vals] + ["k _ " + v for v in vals] + ["1_" + v for v in vals[:20]]
    return _uniq(xs)


NAME_EXTRA = ["a", "A", "a1", "a_b", "_a", "1a", "a$", "$a", "a$b", "a b", " a", "a ", "a\n", "\na", "a\t", "",
              "_", "$", "a.b", "a-b", "a%b", "a(1)", "abcdefghijklmnopqrstuvwxyz0123456789_", "A1_$", "a__",
              "Z9", "x'", "'x'", "a\x0c", "a\r", "integer", "a,b", "a=b", "a*", "@", "[", "`", "{", "a`", "a@",
              "a[", "a{", "zZ", "a\n\n", "double  precision"]


def probes_name():
    xs = list(_words(["a", "Z", "1", "_", "$", " ", "\n", "."], 2))
    xs += list(_words(["a", "1", "_", "$", " "], 3))
    return _uniq(xs + NAME_EXTRA)


def probes_boz(letter):
    """mixed-case probes; the table is made on the UPPER-CASED text (STRINGBase.match)"""
    low = letter.lower()
    digits = ["0", "1", "01", "012", "7", "8", "78", "9a", "1g", "f", "g", "", "0 1", "af09", "ABCDEF", "0123456789",
              "1_", " 1", "1 ", "-1", "1.0"]
    qpairs = [("'", "'"), ('"', '"'), ("'", '"'), ('"', "'"), ("'", ""), ("", "'"), ("", ""), ('"', ""), ("''", "''")]
    seps = ["", " ", "\t ", "\n"]
    xs = [low + s + a + d + b for s in seps[:2] for (a, b) in qpairs for d in digits[:14]]
    xs += [letter + s + a + d + b for s in seps[2:] for (a, b) in qpairs[:4] for d in digits[:8]]
    xs += [letter + a + d + b for (a, b) in qpairs[:2] for d in digits[14:]]
    for other in ["b", "o", "z", "x", "", "bb", "1", " " + low, low + low, "_" + low]:
        xs += [other + "'01'", other + '"17"', other + " 'af'"]
    xs += [low + "'01'" + t for t in ["", " ", "\n", "\t", "x", "_8", "'", "'01'"]]
    xs += ["'01'" + low, "'01'", "''", low, low + "'", low + "''", low + "'0''1'", low + "'0'\"1\"", low + "' 01'",
           low + "'01 '", "b'012'", "z'1g'", "o'78'", "Z'1G'", "B'012'", "O'78'", "z'abcdef'", "z'ABCDEFG'",
           "b'2'", "o'8'", "z'g'", "b'0'", "o'0'", "z'0'", "b\"1\"", "o\"7\"", "z\"f\""]
    return _uniq([x.upper() for x in xs])


COMPLEX_PARTS = ["1", "+1", "- 1", "1_8", "1 _ wp", "1.", "1.5", ".5e3", "1e5", "1.0_wp", "-1.5d-3_8", "a", "a_b",
                 "a$", "_a", "1a", "1_", "", " ", "1 2", "1.5.", "e1", "x y", "1.e", "+a", "(1)", "1,2", "1.e1",
                 "+ .5", "1 . 5 e + 1 _ k", "1__8", "1_8_", ".", "+", "1e", "1.5_", "A1", "1.5\t", "\t1.5", "1_ 8",
                 "1.5 _", "$a", "a.", "1.a", "-a", "1d0_8", "1 e1", "a b", "1.0e0_wp$", "1\n", ".true.", "'a'"]
COMPLEX_STRUCT = ["", "(", ")", "()", "(,)", "(1)", "(1,2", "1,2)", "(1,2,3)", "((1,2))", "(1,2) ", " (1,2)",
                  "(1,2)\n", "\n(1,2)", "( 1 , 2 )", "(\t1\t,\t2\t)", "(1;2)", "[1,2]", "(1,2)x", "(1 ,2)", "(1, 2)",
                  "(1,,2)", "(,1,2)", "(1,2,)", "(1 2)", "(1.,2.)", "(1.5,2.5)", "(a,b)", "(A,B)", "(a , b)",
                  "(1,(2))", "((1),2)", "(1,2))", "((1,2)", "(1,2)(3,4)", "(1.0_8,2.0_8)", "(1_k,2_k)", "(x,1)",
                  "(1,x)", "(-1,-2)", "(+1.,-.5e3)", "(1,2)_8", "(1e1,1d1)", "(1q1,2)", "( , )", "(\n1\n,\n2\n)"]


def probes_complex():
    xs = ["(" + p + ",2)" for p in COMPLEX_PARTS] + ["(1.0," + p + ")" for p in COMPLEX_PARTS]
    sub = ["1", "-1.5", "a", "1_8", ".5e3_k", "", "1.", "x y", " 2 ", "1a"]
    xs += ["(" + a + ", " + b + ")" for a in sub for b in sub]
    xs += ["( " + p + " , " + p + " )" for p in COMPLEX_PARTS[:20]]
    return _uniq(COMPLEX_STRUCT + xs)


TYPE_NAMES = ["integer", "real", "complex", "logical", "character", "double complex", "double precision", "byte",
              "doublecomplex", "doubleprecision", "double  precision", "double\tprecision", "double\nprecision",
              "double   complex", "double", "precision", "doubleprecisio", "double precisions", "double real",
              "double integer", "doubledouble", "type", "class", "integers", "integer ", " integer", "integer\n",
              "inte ger", "int", "rea", "reall", "r eal", "char", "characters", "bytes", "byt", "", " ", "double ",
              " double precision", "double precision ", "double_precision", "double.precision", "dble", "complex8",
              "real8", "real*8", "integer(4)", "logical1", "doublecomplexx", "d ouble precision", "double p recision",
              "doubleprecisioncomplex", "complexdouble", "precisiondouble", "double\x0cprecision", "double\rcomplex",
              "double\x1fcomplex", "double\x0bprecision", "integer_", "$real", "real$", "bytebyte", "realreal"]


def _cases(w):
    """lower, UPPER, Capitalised, aLTERNATING"""
    alt = "".join(c.upper() if i % 2 else c.lower() for i, c in enumerate(w))
    return [w, w.upper(), w.capitalize(), alt]


def probes_type_name():
    xs = []
    for w in TYPE_NAMES:
        xs += _cases(w)
    return _uniq(xs)


def probe_list(name):
    if name == "abs_name":
        return probes_name()
    if name == "abs_int_literal_constant_named":
        return probes_int()
    if name == "abs_signed_int_literal_constant_named":
        return probes_signed_int()
    if name == "abs_real_literal_constant_named":
        return probes_real()
    if name == "abs_signed_real_literal_constant_named":
        return probes_signed_real()
    if name == "abs_logical_literal_constant_named":
        return probes_logical()
    if name == "abs_a_n_char_literal_constant_named1":
        return probes_char("'", '"')
    if name == "abs_a_n_char_literal_constant_named2":
        return probes_char('"', "'")
    if name == "abs_binary_constant":
        return probes_boz("B")
    if name == "abs_octal_constant":
        return probes_boz("O")
    if name == "abs_hex_constant":
        return probes_boz("Z")
    if name == "abs_complex_literal_constant":
        return probes_complex()
    if name == "abs_intrinsic_type_name":
        return probes_type_name()
    raise KeyError(name)


def behaviour(name, kind):
    """[(probe, live result)] : result = None | (value, kind_param|None) for "named", bool otherwise"""
    pat = getattr(pattern, name)
    rows = []
    for s in probe_list(name):
        m = pat.match(s)                       # Pattern.match = get_compiled().match
        if kind == "named":
            if m is None:
                rows.append((s, None))
            else:
                d = m.groupdict()
                rows.append((s, (d["value"], d.get("kind_param"))))
        else:
            rows.append((s, m is not None))
    return rows


def lean_chars(s):
    """`s` as a `List Char` literal (the kernel evaluates `String.toList` of a literal at ~3 ms per
    character, a char list costs nothing: the tables are emitted as char lists, with the text in a comment)"""
    out = []
    for ch in s:
        o = ord(ch)
        if ch == "\\":
            out.append("'\\\\'")
        elif ch == "'":
            out.append("'\\''")
        elif ch == "\n":
            out.append("'\\n'")
        elif ch == "\t":
            out.append("'\\t'")
        elif ch == "\r":
            out.append("'\\r'")
        elif 32 <= o < 127:
            out.append("'%s'" % ch)
        elif o < 256:
            out.append("'\\x%02x'" % o)
        else:
            out.append("'\\u{%x}'" % o)
    return "[" + ", ".join(out) + "]"


def _named_lit(r, lit=lean_str):
    if r is None:
        return "none"
    v, k = r
    return "some (%s, %s)" % (lit(v), "none" if k is None else "some " + lit(k))


def _row_lit(kind, row, lit=lean_str):
    s, r = row
    if kind == "named":
        return "(%s, %s)" % (lit(s), _named_lit(r, lit))
    return "(%s, %s)" % (lit(s), "true" if r else "false")


def _comment(s):
    """the probe as a Lean string literal inside a line comment"""
    return "  -- " + lean_str(s)


def _emit_list(L, name, typ, items, per=50, comments=None):
    if comments is None:
        comments = [""] * len(items)
    rows = list(zip(items, comments))
    parts = [rows[i:i + per] for i in range(0, len(rows), per)] or [[]]
    for i, part in enumerate(parts):
        L.append("def %s_%d : %s := [" % (name, i, typ))
        for j, (item, com) in enumerate(part):
            L.append("  " + item + ("," if j + 1 < len(part) else "") + com)
        L.append("]")
    L.append("def %s : %s := %s" % (name, typ, " ++ ".join("%s_%d" % (name, i) for i in range(len(parts)))))


# ---------------------------------------------------------------------------------------------
# rendering
# ---------------------------------------------------------------------------------------------

def _pairs_lit(rows):
    return "[" + ", ".join("(%s, %s)" % (lean_str(a), lean_str(b)) for a, b in rows) + "]"


def _bools(xs):
    return "[" + ", ".join("true" if x else "false" for x in xs) + "]"


def collect(lean_dir):
    cls = model_cls_names(lean_dir)
    worlds = collect_worlds()
    data = {
        "cls": cls,
        "names": lean_names(lean_dir),
        "fps": collect_fingerprints(cls, worlds),
        "patterns": collect_patterns(),
        "unmodelled": collect_unmodelled(cls, worlds),
        "hasMatch": {std: [hasattr(worlds[std][0].get(c), "match") for c in cls[:N_LAYER]]
                     for std in ("f2003", "f2008")},
        "missing": {std: [c for c in cls if c not in worlds[std][0]] for std in ("f2003", "f2008")},
        "intr": {std: len(worlds[std][0]["Intrinsic_Name"].function_names) for std in ("f2003", "f2008")},
        "tables": {name: behaviour(name, kind) for name, kind, _ in PATTERNS},
    }
    return data


def render(data):
    cls, names = data["cls"], data["names"]
    nid = {n: i for i, n in enumerate(names)}
    L = ["/- GENERATED by fv/extract_primary.py -- do not edit. -/",
         "import FparserModel.Primary", "import FparserModel.PrimaryPins",
         "/-!",
         "What FparserModel/Primary.lean mirrors by hand, read from the LIVE classes and regexes of /repo, each",
         "with the kernel obligation that it still is what the model was written against",
         "(FparserModel/PrimaryPins.lean / the scanners and tables of Primary.lean).",
         "A failing `pin_*` theorem means: " + INSTRUCTION,
         "A failing `pattern_*` theorem means: " + (REGEX_INSTRUCTION % ("<name>", "<name>")),
         "A failing `table_*_ok` theorem means: a hand scanner of Primary.lean and the live regex disagree on a",
         "probe (python -m fv.extract_primary --find-disagreements <lean dir> lists the probes).",
         "-/",
         "namespace Fp.Generated.PrimaryTables", "open Fp.Primary", ""]
    # 1 ----------------------------------------------------------------------------------------
    L.append("/-- `Fp.Generated.names` ids of `Fp.Primary.clsNames` (position = local class id) -/")
    L.append("def nameIds : List Nat := [%s]" % ", ".join(str(nid[c]) for c in cls))
    L.append("")
    L.append("/-- every local class id names the class of `Generated/Classes2003.lean` it stands for -/")
    L.append("theorem nameIds_ok : (nameIds.map fun i => Fp.Generated.names.getD i \"\") = Fp.Primary.clsNames := by")
    L.append("  decide +kernel")
    L.append("")
    L.append("/-- the classes of `clsNames` that `ParserFactory.create(std)` does not hand to `_setup` -/")
    L.append("def liveMissing2003 : List String := [%s]" % ", ".join(lean_str(c) for c in data["missing"]["f2003"]))
    L.append("def liveMissing2008 : List String := [%s]" % ", ".join(lean_str(c) for c in data["missing"]["f2008"]))
    L.append("theorem classes_live : (liveMissing2003, liveMissing2008) = ([], []) := by decide")
    L.append("")
    # 2 ----------------------------------------------------------------------------------------
    L.append("/-- (class of the layer, entry of the live `Base.subclasses[class]` that is not in `clsNames`) -/")
    L.append("def unmodelledSubclasses2003 : List (String × String) := %s" % _pairs_lit(data["unmodelled"]["f2003"]))
    L.append("def unmodelledSubclasses2008 : List (String × String) := %s" % _pairs_lit(data["unmodelled"]["f2008"]))
    msg = lean_str("the SUBCLASS TABLE of /repo changed: a class of the layer has an alternative that is not a class of "
                   "FparserModel/Primary.lean (clsNames); model it (or accept it: --write-pins <lean dir> unmodelledSubclasses)")
    L.append("theorem unmodelled_2003 : PinnedP %s unmodelledSubclasses2003 Pins.unmodelledSubclasses2003 := by" % msg)
    L.append("  decide +kernel")
    L.append("theorem unmodelled_2008 : PinnedP %s unmodelledSubclasses2008 Pins.unmodelledSubclasses2008 := by" % msg)
    L.append("  decide +kernel")
    L.append("")
    for y, std in (("2003", ".f2003"), ("2008", ".f2008")):
        L.append("/-- `tableOf` drops no entry of the real `Base.subclasses[c]` for a class `c` of the layer -/")
        L.append("theorem subclasses_closed_%s :" % y)
        L.append("    (List.range firstExternal).all (fun c =>")
        L.append("      ((Registry.nGet (realOf %s) (nameIds.getD c 0)).getD []).length ==" % std)
        L.append("        ((tableOf (realOf %s) Generated.allClasses nameIds).subs c).length) = true := by" % std)
        L.append("  decide +kernel")
    L.append("")
    # 3 ----------------------------------------------------------------------------------------
    for y, std in (("2003", "f2003"), ("2008", "f2008")):
        L.append("/-- `hasattr(cls, \"match\")` of the classes of the layer (local ids 0..%d), %s -/" % (N_LAYER - 1, std))
        L.append("def liveHasMatch%s : List Bool := %s" % (y, _bools(data["hasMatch"][std])))
        L.append("theorem hasMatch_%s : liveHasMatch%s =" % (y, y))
        L.append("    (List.range firstExternal).map (fun c => (planOf .%s (ivNoScope .%s) c []).isSome) := by" % (std, std))
        L.append("  decide +kernel")
    L.append("")
    # 4 ----------------------------------------------------------------------------------------
    fps = data["fps"]
    L.append("def liveFingerprints : List (String × String) := [")
    L.append(",\n".join("  (%s, %s)" % (lean_str(k), lean_str(v)) for k, v in fps))
    L.append("]")
    L.append("")
    for i, (k, v) in enumerate(fps):
        L.append("theorem pin_%s : Pinned %s (some (%s, %s)) Pins.expected[%d]? := by decide +kernel"
                 % (ident(k), lean_str(INSTRUCTION + " [" + k + "]"), lean_str(k), lean_str(v), i))
    L.append("")
    L.append("/-- no mirrored method appeared or disappeared -/")
    L.append("theorem pins_complete : PinnedN %s liveFingerprints.length Pins.expected.length := by decide +kernel"
             % lean_str("the SET of mirrored methods changed (a class gained or lost its own match/tostr/init): "
                        + INSTRUCTION))
    L.append("")
    # 5 ----------------------------------------------------------------------------------------
    L.append("/-- `<re flags>:<sha1[:16] of the pattern text>` of the compiled literal-constant regexes -/")
    L.append("def livePatterns : List (String × String) := [")
    L.append(",\n".join("  (%s, %s)" % (lean_str(k), lean_str(v)) for k, v, _ in data["patterns"]))
    L.append("]")
    L.append("/-- the pattern texts themselves (for the reader; `Pins.patternText` = what the scanners were written against) -/")
    L.append("def livePatternText : List (String × String) := [")
    L.append(",\n".join("  (%s, %s)" % (lean_str(k), lean_str(t)) for k, _, t in data["patterns"]))
    L.append("]")
    L.append("")
    for i, (k, v, _) in enumerate(data["patterns"]):
        L.append("theorem pattern_%s : Pinned %s (some (%s, %s)) Pins.patterns[%d]? := by decide +kernel"
                 % (k, lean_str(REGEX_INSTRUCTION % (k, k)), lean_str(k), lean_str(v), i))
    L.append("")
    for name, kind, scanner in PATTERNS:
        rows = data["tables"][name]
        bad = set(KNOWN_DISAGREEMENTS.get(name, []))
        good_rows = [r for r in rows if r[0] not in bad]
        bad_rows = [r for r in rows if r[0] in bad]
        typ = "List (Str × Option (Str × Option Str))" if kind == "named" else "List (Str × Bool)"
        what = ("`m.groupdict()` (`value`, `kind_param`)" if kind == "named" else "match / no match")
        L.append("/-- %s of the live `pattern.%s`%s on %d fixed probes -/"
                 % (what, name, " (UPPER-CASED text, as STRINGBase.match sees it)" if kind == "BOOL" else "",
                    len(good_rows)))
        _emit_list(L, "table_" + name, typ, [_row_lit(kind, r, lean_chars) for r in good_rows],
                   comments=[_comment(r[0]) for r in good_rows])
        L.append("theorem table_%s_ok : table_%s.all (fun p => %s p.1 == p.2) = true := by" % (name, name, scanner))
        L.append("  decide +kernel")
        if bad_rows:
            L.append("/-- MODEL BUG (reported): probes on which `%s` DIFFERS from the live regex; left out of" % scanner)
            L.append("    `table_%s` so that this file builds.  The obligation in the comment below must hold once" % name)
            L.append("    the scanner is fixed (then empty KNOWN_DISAGREEMENTS in fv/extract_primary.py). -/")
            _emit_list(L, "disagree_" + name, typ, [_row_lit(kind, r, lean_chars) for r in bad_rows],
                       comments=[_comment(r[0]) for r in bad_rows])
            L.append("-- theorem disagree_%s_ok : disagree_%s.all (fun p => %s p.1 == p.2) = true := by"
                     % (name, name, scanner))
            L.append("--   decide +kernel")
        L.append("")
    # 6 ----------------------------------------------------------------------------------------
    for y, std in (("2003", "f2003"), ("2008", "f2008")):
        L.append("/-- `len(Intrinsic_Name.function_names)` (%s) -/" % std)
        L.append("def intrinsicNames_live_%s : Nat := %d" % (y, data["intr"][std]))
        L.append("theorem intrinsicNames_count_%s : (SymGlue.itOf .%s).names.length = intrinsicNames_live_%s := by"
                 % (y, std, y))
        L.append("  decide +kernel")
    L.append("")
    L.append("end Fp.Generated.PrimaryTables")
    return "\n".join(L) + "\n"


# ---------------------------------------------------------------------------------------------
# pins
# ---------------------------------------------------------------------------------------------

def read_pins(lean_dir):
    """the (expected, patterns, unmodelled2003, unmodelled2008) of an existing PrimaryPins.lean"""
    path = os.path.join(lean_dir, "FparserModel", "PrimaryPins.lean")
    if not os.path.exists(path):
        return None
    text = open(path, encoding="utf-8").read()

    def unq(s):
        out, i = [], 0
        while i < len(s):
            c = s[i]
            if c == "\\":
                n = s[i + 1]
                if n == "x":
                    out.append(chr(int(s[i + 2:i + 4], 16)))
                    i += 4
                    continue
                out.append({"n": "\n", "t": "\t", "r": "\r"}.get(n, n))
                i += 2
            else:
                out.append(c)
                i += 1
        return "".join(out)

    def pairs(defname):
        m = re.search(r"def %s : List \(String × String\) := \[(.*?)\n?\]\n" % re.escape(defname), text, re.S)
        if not m:
            return []
        return [(unq(a), unq(b)) for a, b in
                re.findall(r'\("((?:[^"\\]|\\.)*)", "((?:[^"\\]|\\.)*)"\)', m.group(1))]
    return (pairs("expected"), pairs("patterns"), pairs("unmodelledSubclasses2003"),
            pairs("unmodelledSubclasses2008"), pairs("patternText"))


def _selected(key, only):
    return any(key == o or ident(key) == ident(o) or key.endswith("." + o)
               or "pin_" + ident(key) == o or "pattern_" + key == o for o in only)


def render_pins(data, old=None, only=None):
    """`only` = None: record everything; else only the named methods / patterns (the other entries
    keep their recorded value; an entry never recorded before gets the value "UNPINNED")"""
    fps, pats = data["fps"], data["patterns"]
    un03, un08 = data["unmodelled"]["f2003"], data["unmodelled"]["f2008"]
    if only is not None:
        o_exp, o_pat, o_u03, o_u08 = (dict(old[0]), dict(old[1]), old[2], old[3]) if old else ({}, {}, [], [])
        fps = [(k, v if _selected(k, only) else o_exp.get(k, UNPINNED)) for k, v in fps]
        o_txt = dict(old[4]) if old else {}
        pats = [(k, v, t) if _selected(k, only) else (k, o_pat.get(k, UNPINNED), o_txt.get(k, UNPINNED))
                for k, v, t in pats]
        if "unmodelledSubclasses" not in only:
            un03, un08 = o_u03, o_u08
    L = ["/-!",
         "# PrimaryPins - what FparserModel/Primary.lean was validated against",
         "",
         "Hand-maintained (written by `python -m fv.extract_primary --write-pins <lean dir> [<method>…]` AFTER the",
         "mirror of an edited method / regex has been re-validated; never as part of a normal build).",
         "Generated/PrimaryTables.lean proves that the live fingerprints and patterns equal these.",
         "-/",
         "namespace Fp.Primary",
         "",
         "/-- `live = expected`; the message is part of the statement so that it shows in the error -/",
         "def Pinned (_msg : String) (live expected : Option (String × String)) : Prop := live = expected",
         "instance (m : String) (a b : Option (String × String)) : Decidable (Pinned m a b) :=",
         "  inferInstanceAs (Decidable (a = b))",
         "def PinnedN (_msg : String) (live expected : Nat) : Prop := live = expected",
         "instance (m : String) (a b : Nat) : Decidable (PinnedN m a b) :=",
         "  inferInstanceAs (Decidable (a = b))",
         "def PinnedP (_msg : String) (live expected : List (String × String)) : Prop := live = expected",
         "instance (m : String) (a b : List (String × String)) : Decidable (PinnedP m a b) :=",
         "  inferInstanceAs (Decidable (a = b))",
         "",
         "namespace Pins",
         "",
         "/-- fingerprints of the mirrored methods (same order as `Generated.PrimaryTables.liveFingerprints`) -/",
         "def expected : List (String × String) := [",
         ",\n".join("  (%s, %s)" % (lean_str(k), lean_str(v)) for k, v in fps),
         "]",
         "",
         "/-- `<re flags>:<sha1[:16] of the pattern text>` of the literal-constant regexes the hand scanners were",
         "    written against -/",
         "def patterns : List (String × String) := [",
         ",\n".join("  (%s, %s)" % (lean_str(k), lean_str(v)) for k, v, _ in pats),
         "]",
         "",
         "/-- the pattern texts those digests were taken from -/",
         "def patternText : List (String × String) := [",
         ",\n".join("  (%s, %s)" % (lean_str(k), lean_str(t)) for k, _, t in pats),
         "]",
         "",
         "/-- alternatives of classes of the layer that are knowingly NOT classes of the model -/",
         "def unmodelledSubclasses2003 : List (String × String) := %s" % _pairs_lit(un03),
         "def unmodelledSubclasses2008 : List (String × String) := %s" % _pairs_lit(un08),
         "",
         "end Pins",
         "end Fp.Primary"]
    return "\n".join(L) + "\n"


# ---------------------------------------------------------------------------------------------
# entry points
# ---------------------------------------------------------------------------------------------

def _write_if_changed(path, text):
    if not os.path.exists(path) or open(path, encoding="utf-8").read() != text:
        os.makedirs(os.path.dirname(path), exist_ok=True)
        with open(path, "w", encoding="utf-8") as fh:
            fh.write(text)
    return path


def generate(outdir):
    """write FparserModel/Generated/PrimaryTables.lean (rewritten only when it changes)"""
    lean_dir = _lean_dir(outdir)
    text = render(collect(lean_dir))
    return _write_if_changed(os.path.join(lean_dir, "FparserModel", "Generated", "PrimaryTables.lean"), text)


def write_pins(outdir, only=None):
    lean_dir = _lean_dir(outdir)
    text = render_pins(collect(lean_dir), read_pins(lean_dir), only or None)
    return _write_if_changed(os.path.join(lean_dir, "FparserModel", "PrimaryPins.lean"), text)


def check(outdir):
    """regenerate in a temp dir and diff against the file of `outdir`; 0 = identical"""
    lean_dir = _lean_dir(outdir)
    have = os.path.join(lean_dir, "FparserModel", "Generated", "PrimaryTables.lean")
    tmp = tempfile.mkdtemp(prefix="extract_primary_")
    try:
        gen = os.path.join(tmp, "FparserModel", "Generated")
        os.makedirs(gen)
        shutil.copy(os.path.join(lean_dir, "FparserModel", "Primary.lean"), os.path.join(tmp, "FparserModel"))
        shutil.copy(os.path.join(lean_dir, "FparserModel", "Generated", "Classes2003.lean"), gen)
        new = open(generate(tmp), encoding="utf-8").read()
    finally:
        shutil.rmtree(tmp, ignore_errors=True)
    old = open(have, encoding="utf-8").read() if os.path.exists(have) else ""
    if old == new:
        print("extract_primary --check: %s is up to date" % have)
        return 0
    sys.stdout.writelines(difflib.unified_diff(old.splitlines(True), new.splitlines(True),
                                               have, "regenerated from /repo", n=1))
    print("extract_primary --check: %s DIFFERS from what /repo gives now" % have)
    return 1


def find_disagreements(outdir):
    """evaluate the hand scanners over the probe lists (`lake env lean` on a scratch file in the
    lean dir, FparserModel.Primary must be built) and print the probes where they differ"""
    lean_dir = _lean_dir(outdir)
    data = collect(lean_dir)
    L = ["import FparserModel.Primary", "open Fp Fp.Primary",
         "def expect (e : Option (String × Option String)) : Option (Str × Option Str) :=",
         "  e.map fun p => (p.1.toList, p.2.map String.toList)",
         "def showN (r : Option (Str × Option Str)) : String :=",
         "  match r with",
         "  | none => \"none\"",
         "  | some (v, k) => s!\"({(String.ofList v).quote}, {(k.map String.ofList).map String.quote})\""]
    for name, kind, scanner in PATTERNS:
        typ = "List (String × Option (String × Option String))" if kind == "named" else "List (String × Bool)"
        _emit_list(L, "t_" + name, typ, [_row_lit(kind, r) for r in data["tables"][name]])
        if kind == "named":
            L.append("#eval (t_%s.filter fun p => !(%s p.1.toList == expect p.2)).map fun p => "
                     "s!\"DISAGREE %s {p.1.quote} regex {showN (expect p.2)} scanner {showN (%s p.1.toList)}\""
                     % (name, scanner, name, scanner))
        else:
            L.append("#eval (t_%s.filter fun p => !(%s p.1.toList == p.2)).map fun p => "
                     "s!\"DISAGREE %s {p.1.quote} regex {p.2} scanner {%s p.1.toList}\""
                     % (name, scanner, name, scanner))
    tmp = tempfile.mkdtemp(prefix="extract_primary_")
    try:
        path = os.path.join(tmp, "Disagree.lean")
        with open(path, "w", encoding="utf-8") as fh:
            fh.write("\n".join(L) + "\n")
        r = subprocess.run(["lake", "env", "lean", path], cwd=lean_dir, capture_output=True, text=True, timeout=900)
    finally:
        shutil.rmtree(tmp, ignore_errors=True)
    out = r.stdout + r.stderr
    found = re.findall(r'"(DISAGREE (?:[^"\\]|\\.)*)"', out)
    for f in found:
        print(f.replace('\\"', '"').replace("\\\\", "\\"))
    for name, _, _ in PATTERNS:
        print("%-45s %4d probes" % (name, len(data["tables"][name])))
    if r.returncode != 0:
        print(out[-3000:])
        return 2
    print("disagreements: %d" % len(found))
    return 1 if found else 0


def main(argv=None):
    argv = list(sys.argv[1:] if argv is None else argv)
    mode = None
    if argv and argv[0] in ("--write-pins", "--check", "--find-disagreements"):
        mode = argv[0]
        argv = argv[1:]
    outdir = argv[0] if argv else os.path.join(os.path.dirname(os.path.dirname(os.path.abspath(__file__))), "lean")
    if mode == "--check":
        return check(outdir)
    if mode == "--find-disagreements":
        return find_disagreements(outdir)
    if mode == "--write-pins":
        print("wrote", write_pins(outdir, argv[1:]))
    print("wrote", generate(outdir))
    return 0


if __name__ == "__main__":
    sys.exit(main())
