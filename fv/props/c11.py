"""C11 — comments are kept exactly once and in place, or ignored without effect."""
import random
from fv import real, gen, layout, treeutil, engine, findings
from fv.props import util

RULE = ("generated programs x seeded comment placements K (full-line before/after/between units and inside every construct, "
        "trailing, between continuation lines, containing quotes/'!'/'&'/';', directive-form comments): with comments kept the "
        "sequence of (statement | comment text) in the tree equals the sequence by construction (a comment inside or trailing a "
        "continued statement directly after it), each comment once, text unchanged, also in str(tree); tree(P+K, ignore) == tree(P); "
        "tree(P+K, process_directives) == tree(P+K, keep) with Directive for Comment exactly on directive-form full-line comments. "
        "non-trivial = >= 5 comments of which >= 1 inside a continuation or trailing"
        ' Correspondence: Fp.Reader item stream == real reader on every second commented source (both comment settings).')
ASSUMPTIONS = []
TIE_MODULES = ["FparserModel.Reader", "FparserModel.Block", "FparserModel.Print", "FparserModel.Generated.PrintTables", "FparserModel.Props.Print"]

DIRECTIVE_PREFIXES = ("!$omp", "!dir$", "!$acc")


def expected_sequence(L, flat):
    """sequence of 'S' (statement) / comment text by construction: a comment on or inside the
    physical lines of a statement comes directly after the LAST statement that shares those
    lines (';' joins), other comments where they stand"""
    ev = []
    last_stmt_of_line = {}
    first_of = {}
    for pos, (st, _) in enumerate(flat):
        f, l = L.spans[st.uid]
        ev.append(((l, 0, pos), "S"))
        for ln in range(f, l + 1):
            last_stmt_of_line[ln] = pos
            first_of.setdefault(ln, f)
    for idx, (ln, text, inline) in enumerate(L.comments):
        if ln in last_stmt_of_line and (inline or first_of[ln] < ln):
            pos = last_stmt_of_line[ln]
            l = L.spans[flat[pos][0].uid][1]
            ev.append(((l, 0, pos + 0.5 + idx * 1e-6), text))
        else:
            ev.append(((ln, -1, idx), text))
    ev.sort(key=lambda e: e[0])
    return [e[1] for e in ev]


def run_case(case):
    p = util.program_case(case)
    std = case["std"]
    res = {"key": [case["seed"], std], "counts": {}, "findings": []}
    canon = p.text()
    o0 = real.try_parse(canon, std=std, free=True)
    if o0.kind != "tree":
        res["nontrivial"] = False
        return res
    opts = layout.FreeOpts(p_cont=0.3, comments=True, p_comment=0.25, p_trailing=0.2, p_between=0.4, p_blank=0.0, p_extra_blank=0.0,
                           p_semi=0.25 if case["seed"] % 3 == 0 else 0.0)
    qc = None
    if case["seed"] % 3 == 1:
        # comments with unbalanced quote marks behind continued statements that hold literals
        from fv.props.c04 import QUOTE_COMMENTS as qc
        opts = layout.FreeOpts(p_cont=0.7, comments=True, p_comment=0.1, p_trailing=0.6, p_between=0.3, p_blank=0.0, p_extra_blank=0.0,
                               max_cuts=4, p_lit_cut=0.3)
    L = layout.render_free(p, case["seed"] ^ 0xC11, opts, comment_texts=qc)
    L.lines = [l for l in L.lines]
    src = L.text()
    flat = layout.flat_with_depth(p)
    ncom = len(L.comments)
    nin = sum(1 for (ln, t, inl) in L.comments if inl) + L.decisions.get("comment-in-continuation", 0)
    res["nontrivial"] = ncom >= 5 and nin >= 1
    res["counts"] = {"comments": ncom, "trailing": L.decisions.get("trailing-comment", 0),
                     "in-continuation": L.decisions.get("comment-in-continuation", 0)}
    res["sample"] = {"seed": case["seed"], "comments": ncom, "head": src[:300]}
    ctx = {"std": std, "ignore_comments": False}

    def finding(sig, what):
        known = findings.classify("C11", src, ctx)
        res["findings"].append({"signature": known or sig, "what": what, "replay": {"case": case, "source": src, "canonical": canon}})

    if case["seed"] % 2 == 1:
        res["findings"] += util.reader_cosim(src, "free", case=case)
        res["counts"]["reader-cosim"] = 1
    # (a) ignored without effect
    oi = real.try_parse(src, std=std, ignore_comments=True, free=True)
    if oi.kind != "tree":
        finding("ignore-reject:" + util.outcome_signature(oi), "source with comments rejected when comments are ignored: %s" % str(oi.exc)[:200])
    elif treeutil.sig(oi.tree) != treeutil.sig(o0.tree):
        d = treeutil.first_diff(treeutil.sig(o0.tree), treeutil.sig(oi.tree))
        finding("ignore-tree-differs", "tree with comments ignored differs from tree of the comment-free source at %s: %s vs %s" % d)
    # (b) kept once, in place
    ok = real.try_parse(src, std=std, ignore_comments=False, free=True)
    if ok.kind != "tree":
        finding("keep-reject:" + util.outcome_signature(ok), "source rejected with comments kept: %s" % str(ok.exc)[:200])
        return res
    if case["seed"] % 2 == 0:
        fs, info = util.block_cosim(src, std=std, ignore_comments=False, case=case)
        res["findings"] += fs
        res["counts"]["block-cosim"] = 1
    seq = []
    for n in treeutil.statement_nodes(ok.tree):
        nm = type(n).__name__
        if nm in ("Comment", "Directive"):
            if n.items[0] != "":
                seq.append(n.items[0])
        else:
            seq.append("S")
    exp = expected_sequence(L, flat)
    if seq != exp:
        k = next((i for i, (a, b) in enumerate(zip(seq, exp)) if a != b), min(len(seq), len(exp)))
        finding("comment-sequence-differs", "tree order differs from source order at event %d: tree %r vs expected %r (tree has %d comments, source %d)" % (
            k, seq[max(0, k - 1):k + 2], exp[max(0, k - 1):k + 2], sum(1 for x in seq if x != "S"), ncom))
    printed = str(ok.tree)
    pc = [l.strip() for l in printed.split("\n") if l.strip().startswith("!")]
    ec = [t for t in exp if t != "S"]
    if pc != ec:
        finding("printed-comments-differ", "comments in regenerated text %r... vs %r..." % (pc[:3], ec[:3]))
    # comments must not disturb the Fortran: stripping comment nodes gives the comment-free tree
    # (c) directives only retype
    od = real.try_parse(src, std=std, ignore_comments=False, process_directives=True, free=True)
    if od.kind != "tree":
        finding("directives-reject:" + util.outcome_signature(od), "rejected with process_directives: %s" % str(od.exc)[:200])
        return res

    def retype(s):
        if isinstance(s, tuple):
            if len(s) == 2 and s[0] == "Comment" and isinstance(s[1], str) and s[1].lower().startswith(DIRECTIVE_PREFIXES) \
                    and s[1] in full_line:
                return ("Directive", s[1])
            return tuple(retype(x) for x in s)
        return s
    full_line = set(t for (ln, t, inl) in L.comments if not inl)
    a = retype(treeutil.sig(ok.tree))
    b = treeutil.sig(od.tree)
    if a != b:
        d = treeutil.first_diff(a, b)
        finding("directives-tree-differs", "process_directives changed more than the node type of directive comments, at %s: %s vs %s" % d)
    return res


def cases(tier, seed):
    n = util.tier_n(tier, 150, 1500)
    return [{"seed": s, "std": "f2008" if i % 3 else "f2003"} for i, s in enumerate(util.seeds(seed, n, 11))]


def run(tier, rep, st):
    util.sub_cosim(rep, tier, "cosim_print", "Fp.Print", 100, 1000)
    engine.run_cases(__name__, cases(tier, rep.seed), rep)
