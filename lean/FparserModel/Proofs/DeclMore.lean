import FparserModel.Proofs.DeclData
import FparserModel.Proofs.DeclType
/-!
# Decl — parenthesis balance (`parenExcess`), and the fixpoint of a tokenised class on flat lines
-/
namespace Fp.Decl
open Fp Fp.Splitline Fp.Combi

variable {A : Type}

/-- number of `(` minus number of `)` -/
def parenExcess (s : Str) : Int := (s.count '(' : Int) - (s.count ')' : Int)

theorem parenExcess_append (a b : Str) : parenExcess (a ++ b) = parenExcess a + parenExcess b := by
  simp only [parenExcess, List.count_append]; push_cast; omega

theorem parenExcess_cons (c : Char) (s : Str) : parenExcess (c :: s) = parenExcess [c] + parenExcess s :=
  parenExcess_append [c] s

theorem parenExcess_open (s : Str) : parenExcess ('(' :: s) = 1 + parenExcess s := by
  rw [parenExcess_cons]; rfl

theorem count_toks (c : Char) (hc : isSpace c = false) (s : Str) : (toks s).count c = s.count c := by
  induction s with
  | nil => rfl
  | cons x xs ih =>
    by_cases hx : isSpace x = true
    · rw [toks_cons_space _ hx, ih]
      have : x ≠ c := by intro e; subst e; rw [hc] at hx; cases hx
      simp [List.count_cons, this]
    · have hx' : isSpace x = false := by simpa using hx
      rw [toks_cons_nonspace _ hx', List.count_cons, List.count_cons, ih]

/-- blanks do not matter for the balance -/
theorem parenExcess_toks (s : Str) : parenExcess (toks s) = parenExcess s := by
  simp only [parenExcess, count_toks '(' (by decide), count_toks ')' (by decide)]

theorem parenExcess_of_toks_eq {a b : Str} (h : toks a = toks b) : parenExcess a = parenExcess b := by
  rw [← parenExcess_toks a, ← parenExcess_toks b, h]

/-- **Data_Implied_Do: an unbalanced text is handed to a child, never absorbed** (children = the
    texts handed over: `echo`) -/
theorem dataImpliedDo_unbalanced_view (s : Str) (n : ImpliedDo Str)
    (h : matchDataImpliedDo echo s = some n)
    (hv : ∀ r, tokenise (strip (interior s)) = some r → View (strip (interior s)) r)
    (hu : parenExcess s ≠ 0) :
    parenExcess n.objects ≠ 0 ∨ parenExcess n.var ≠ 0 ∨ parenExcess n.e1 ≠ 0 ∨
      parenExcess n.e2 ≠ 0 ∨ ∃ a, n.e3 = some a ∧ parenExcess a ≠ 0 := by
  have e := parenExcess_of_toks_eq (dataImpliedDo_tokens_view echo echo_faithful s n h hv)
  rw [← e] at hu
  obtain ⟨ob, v, e1, e2, e3⟩ := n
  have k2 : parenExcess ", ".toList = 0 := by decide
  have k3 : parenExcess " = ".toList = 0 := by decide
  have k4 : parenExcess [')'] = -1 := by decide
  have k5 : parenExcess ([] : Str) = 0 := by decide
  cases e3 with
  | none =>
    simp only [tostrDataImpliedDo, echo, id, parenExcess_append, parenExcess_open, k2, k3, k4, k5] at hu
    simp only
    by_cases c1 : parenExcess ob = 0
    · by_cases c2 : parenExcess v = 0
      · by_cases c3 : parenExcess e1 = 0
        · by_cases c4 : parenExcess e2 = 0
          · exfalso; omega
          · exact .inr (.inr (.inr (.inl c4)))
        · exact .inr (.inr (.inl c3))
      · exact .inr (.inl c2)
    · exact .inl c1
  | some a3 =>
    simp only [tostrDataImpliedDo, echo, id, parenExcess_append, parenExcess_open, k2, k3, k4] at hu
    simp only
    by_cases c1 : parenExcess ob = 0
    · by_cases c2 : parenExcess v = 0
      · by_cases c3 : parenExcess e1 = 0
        · by_cases c4 : parenExcess e2 = 0
          · by_cases c5 : parenExcess a3 = 0
            · exfalso; omega
            · exact .inr (.inr (.inr (.inr ⟨a3, rfl, c5⟩)))
          · exact .inr (.inr (.inr (.inl c4)))
        · exact .inr (.inr (.inl c3))
      · exact .inr (.inl c2)
    · exact .inl c1

/-- **Type_Declaration_StmtBase: an unbalanced statement hands an unbalanced text to a child** -/
theorem typeDecl_unbalanced_view (tsC alC elC : Cls) (s : Str) (n : TypeDecl Str)
    (h : matchTypeDeclBase echo tsC alC elC s = some n)
    (hv : ∀ r, tokenise s = some r → View s r) (hu : parenExcess s ≠ 0) :
    parenExcess n.typeSpec ≠ 0 ∨ parenExcess n.entityDecls ≠ 0 ∨
      ∃ a, n.attrSpecs = some a ∧ parenExcess a ≠ 0 := by
  obtain ⟨a, b, hab, ht⟩ := typeDecl_tokens_view echo echo_faithful tsC alC elC s n h hv
  have kc : parenExcess "::".toList = 0 := by decide
  have e1 : parenExcess s = parenExcess a + parenExcess b := by
    rw [← parenExcess_toks s]
    rcases hab with hab | hab <;> rw [hab] <;> simp only [parenExcess_append, kc] <;> omega
  have e2 : parenExcess (tostrTypeDecl echo n) = parenExcess a + parenExcess b := by
    rw [← parenExcess_toks, ht]; simp only [parenExcess_append, kc]; omega
  rw [e1, ← e2] at hu
  obtain ⟨ts, al, el⟩ := n
  have k2 : parenExcess ", ".toList = 0 := by decide
  have k3 : parenExcess " :: ".toList = 0 := by decide
  cases al with
  | none =>
    simp only [tostrTypeDecl, echo, id, parenExcess_append, k3] at hu
    simp only
    by_cases c1 : parenExcess ts = 0
    · by_cases c2 : parenExcess el = 0
      · exfalso; omega
      · exact .inr (.inl c2)
    · exact .inl c1
  | some x =>
    simp only [tostrTypeDecl, echo, id, parenExcess_append, k2, k3] at hu
    simp only
    by_cases c1 : parenExcess ts = 0
    · by_cases c2 : parenExcess el = 0
      · by_cases c3 : parenExcess x = 0
        · exfalso; omega
        · exact .inr (.inr ⟨x, rfl, c3⟩)
      · exact .inr (.inl c2)
    · exact .inl c1

end Fp.Decl

namespace Fp.Decl
open Fp Fp.Splitline Fp.Combi

variable {A : Type}

/-- the children of a matched `Data_Stmt_Value` are results of child calls -/
theorem dataStmtValue_children (o : Leaves A) (s : Str) (n : DataValue A)
    (h : matchDataStmtValue o s = some n) :
    (∃ t, o.leaf .dataStmtRepeat t = some n.repeat') ∧ (∃ t, o.leaf .dataStmtConstant t = some n.constant) := by
  unfold matchDataStmtValue at h
  cases ht : tokenise s with
  | none => simp [ht] at h
  | some r =>
    simp only [ht] at h
    cases hc : cutFirst '*' r.text with
    | none => simp [hc] at h
    | some ab =>
      obtain ⟨a, b⟩ := ab
      simp only [hc] at h
      split at h
      · exact absurd h (by simp)
      · cases h1 : o.leaf .dataStmtRepeat (applyMap r.map (rstrip a)) with
        | none => rw [h1] at h; exact absurd h (by simp)
        | some x =>
          rw [h1] at h
          cases h2 : o.leaf .dataStmtConstant (applyMap r.map (lstrip b)) with
          | none => rw [h2] at h; exact absurd h (by simp)
          | some y =>
            rw [h2] at h
            simp only [Option.map_some, Option.some.injEq] at h
            subst h
            exact ⟨⟨_, h1⟩, ⟨_, h2⟩⟩

/-- **Data_Stmt_Value, fixpoint on flat lines**: `r * c` printed is matched again and prints the
    same, when the children are stable, their texts are tight and non-empty, the repeat factor
    has no `*`, and the printed line has nothing for the tokeniser to replace (`Flat`) -/
theorem dataStmtValue_fixpoint_flat (o : Leaves A) (hs : Stable o) (s : Str) (n : DataValue A)
    (h : matchDataStmtValue o s = some n)
    (hr1 : '*' ∉ o.render n.repeat') (hr2 : rstrip (o.render n.repeat') = o.render n.repeat')
    (hr3 : o.render n.repeat' ≠ [])
    (hc1 : lstrip (o.render n.constant) = o.render n.constant) (hc2 : o.render n.constant ≠ [])
    (hflat : Flat (tostrDataStmtValue o n)) :
    ∃ n', matchDataStmtValue o (tostrDataStmtValue o n) = some n' ∧
      tostrDataStmtValue o n' = tostrDataStmtValue o n := by
  obtain ⟨⟨t1, g1⟩, ⟨t2, g2⟩⟩ := dataStmtValue_children o s n h
  obtain ⟨x', k1, k2⟩ := hs _ _ _ g1
  obtain ⟨y', k3, k4⟩ := hs _ _ _ g2
  refine ⟨⟨x', y'⟩, ?_, by simp [tostrDataStmtValue, k2, k4]⟩
  have hshape : tostrDataStmtValue o n
      = (o.render n.repeat' ++ [' ']) ++ '*' :: (' ' :: o.render n.constant) := by
    simp [tostrDataStmtValue]
  unfold matchDataStmtValue
  rw [tokenise_flat _ hflat]
  simp only
  rw [hshape]
  have hn : '*' ∉ o.render n.repeat' ++ [' '] := by
    simp only [List.mem_append, List.mem_singleton, not_or]; exact ⟨hr1, by decide⟩
  rw [cutFirst_append _ _ hn]
  simp only [applyMap_nil, rstrip_append_space, lstrip_space_cons, hr2, hc1]
  simp [k1, k3, hr3, hc2]

end Fp.Decl
