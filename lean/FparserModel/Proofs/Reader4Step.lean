import FparserModel.Proofs.Reader4Hic

/-!
# Reader4Step — one physical line of a continued free-form statement, with character literals

`QLine.cont lead body post cmt more` is the cooked line

    [pre &] body [& post] [! cmt]

`freeStep_qcont`: under `QLine.ok q` (the exact conditions, see there) the line contributes
exactly `body`, asks for more iff it ends with `&`, queues its trailing comment, and hands on
the quote state `quoteStateAfter q body`.
-/
namespace Fp.Reader
open Fp
open Fp.Splitline (QState qstep qrun qinit qfinal quoteStateAfter)

/-! ### the `&` logic of the loop body, isolated -/

/-- `k = line[:i].find("&"); if k != -1 and line[:k].lstrip(): k = -1; start = k + 1` -/
def startIdxOf (X : Str) : Nat :=
  match find X '&' with
  | some k => if lstrip (X.take k) != [] then 0 else k + 1
  | none => 0

/-- `i = line.rfind("&")`, continuation test: `(line[:i], True)` or `(line, False)` -/
def ampEnd (code : Str) : Str × Bool :=
  let i := rfind code '&'
  let noCont : Bool := match i with
    | none => true
    | some i => rstrip (code.drop (i + 1)) != []
  (code.take (if noCont then code.length else i.getD 0), !noCont)

def startIdxOf2 (line2 X : Str) : Nat :=
  match find X '&' with
  | some k => if lstrip (line2.take k) != [] then 0 else k + 1
  | none => 0

theorem startIdxOf2_eq (X rest : Str) : startIdxOf2 (X ++ rest) X = startIdxOf X := by
  unfold startIdxOf2 startIdxOf
  cases hf : find X '&' with
  | none => rfl
  | some k =>
    unfold find at hf
    obtain ⟨hlt, _, _⟩ := List.findIdx?_eq_some_iff_getElem.mp hf
    simp only [List.take_append_of_le_length (Nat.le_of_lt hlt)]

theorem freeStep_started0 (line : Str) (n : Nat) (q : Option Char) (label : Option Nat)
    (name : Option Str) :
    freeStep true line n q label name =
      ⟨label, name, handleInlineComment line n q,
       (ampEnd (handleInlineComment line n q).line).1.drop
         (startIdxOf2 (handleInlineComment line n q).line (ampEnd (handleInlineComment line n q).line).1),
       (ampEnd (handleInlineComment line n q).line).2⟩ := by
  unfold freeStep ampEnd startIdxOf2
  rfl

theorem ampEnd_prefix (code : Str) : ∃ rest, code = (ampEnd code).1 ++ rest := by
  unfold ampEnd
  exact ⟨_, (List.take_append_drop _ _).symm⟩

theorem freeStep_started (line : Str) (n : Nat) (q : Option Char) (label : Option Nat)
    (name : Option Str) :
    freeStep true line n q label name =
      ⟨label, name, handleInlineComment line n q,
       (ampEnd (handleInlineComment line n q).line).1.drop
         (startIdxOf (ampEnd (handleInlineComment line n q).line).1),
       (ampEnd (handleInlineComment line n q).line).2⟩ := by
  rw [freeStep_started0]
  obtain ⟨rest, hr⟩ := ampEnd_prefix (handleInlineComment line n q).line
  have := startIdxOf2_eq (ampEnd (handleInlineComment line n q).line).1 rest
  rw [← hr] at this
  rw [this]

theorem freeStep_first' (line : Str) (n : Nat) :
    freeStep false line n none none none =
      ⟨(extractLabel line).1, (extractName (extractLabel line).2).1,
       handleInlineComment (extractName (extractLabel line).2).2 n none,
       (ampEnd (handleInlineComment (extractName (extractLabel line).2).2 n none).line).1,
       (ampEnd (handleInlineComment (extractName (extractLabel line).2).2 n none).line).2⟩ := by
  unfold freeStep ampEnd
  simp only [Bool.false_eq_true, if_false, Bool.not_false, if_true]
  cases hr : rfind (handleInlineComment (extractName (extractLabel line).2).2 n none).line '&' with
  | none => simp
  | some i =>
    by_cases hn : rstrip (List.drop (i + 1)
        (handleInlineComment (extractName (extractLabel line).2).2 n none).line) = []
    · simp [hn]
    · simp [hn]

theorem rstrip_allSpace {s : Str} (h : AllSpace s) : rstrip s = [] := by
  unfold rstrip
  have : List.dropWhile isSpace s.reverse = [] :=
    dropWhile_all _ _ (fun x hx => h x (List.mem_reverse.mp hx))
  rw [this]; rfl

theorem ampEnd_more (X post : Str) (hp : AllSpace post) : ampEnd (X ++ '&' :: post) = (X, true) := by
  have hr : rfind (X ++ '&' :: post) '&' = some X.length := rfind_hit (hp.noC (by decide))
  have hd : List.drop (X.length + 1) (X ++ '&' :: post) = post := by simp
  unfold ampEnd
  simp only [hr, hd, rstrip_allSpace hp, bne_self_eq_false, Bool.false_eq_true, if_false,
    Option.getD_some, List.take_left', Bool.not_false]

/-- the last `&` of the line, if any, is followed by a non-blank character -/
def lastAmpOk (X : Str) : Prop :=
  match rfind X '&' with
  | none => True
  | some i => rstrip (X.drop (i + 1)) ≠ []

instance (X : Str) : Decidable (lastAmpOk X) := by
  unfold lastAmpOk; split <;> infer_instance

theorem ampEnd_last (X : Str) (h : lastAmpOk X) : ampEnd X = (X, false) := by
  unfold lastAmpOk at h
  unfold ampEnd
  cases hr : rfind X '&' with
  | none => simp
  | some i =>
    rw [hr] at h
    simp only at h
    simp [h]

theorem startIdx_lead (pre body : Str) (hp : AllSpace pre) :
    (pre ++ '&' :: body).drop (startIdxOf (pre ++ '&' :: body)) = body := by
  have hf : find (pre ++ '&' :: body) '&' = some pre.length := find_hit (hp.noC (by decide))
  have hl : lstrip pre = [] := by
    unfold lstrip; exact dropWhile_all _ _ hp
  unfold startIdxOf
  simp [hf, hl]

theorem startIdx_nolead (body : Str) (h : (lstrip body).head? ≠ some '&') :
    startIdxOf body = 0 := by
  unfold startIdxOf
  cases hf : find body '&' with
  | none => rfl
  | some k =>
    simp only
    have hk := hf
    unfold find at hk
    obtain ⟨hlt, hget, hbefore⟩ := List.findIdx?_eq_some_iff_getElem.mp hk
    have hne : lstrip (body.take k) ≠ [] := by
      intro hnil
      have hws := allSpace_of_lstrip_nil _ hnil
      have hsplit : body = body.take k ++ '&' :: body.drop (k + 1) := by
        have h1 : body.drop k = body[k] :: body.drop (k + 1) := List.drop_eq_getElem_cons hlt
        have h2 : body[k] = '&' := by simpa using hget
        rw [← h2, ← h1, List.take_append_drop]
      apply h
      rw [hsplit, lstrip_ws_cons _ _ '&' hws (by decide)]
      rfl
    simp [hne]

/-! ### characters that move neither the quote automaton nor the comment search -/

/-- no quotation character and no `!` -/
def Inert (w : Str) : Prop := ∀ x ∈ w, isQuote x = false ∧ x ≠ '!'

theorem AllSpace.inert {w : Str} (h : AllSpace w) : Inert w := fun x hx => by
  have := h x hx
  constructor
  · cases hq : isQuote x with
    | false => rfl
    | true =>
      unfold isQuote at hq
      simp only [Bool.or_eq_true, beq_iff_eq] at hq
      rcases hq with rfl | rfl <;> simp [isSpace] at this
  · intro e; subst e; simp [isSpace] at this

theorem Inert.append {a b : Str} (ha : Inert a) (hb : Inert b) : Inert (a ++ b) :=
  fun x hx => (List.mem_append.mp hx).elim (ha x) (hb x)

theorem inert_amp : Inert ['&'] := fun x hx => by
  simp only [List.mem_singleton] at hx; subst hx; exact ⟨by decide, by decide⟩

theorem Inert.cons_amp {w : Str} (h : Inert w) : Inert ('&' :: w) := inert_amp.append h

/-- from a line-start state (`outside` / `inLit q`) inert characters change nothing -/
theorem inert_init (q : Option Char) (hq : ∀ c, q = some c → isQuote c = true) (w : Str)
    (hw : Inert w) : qrun (qinit q) w = qinit q ∧ bangFree (qinit q) w = true := by
  induction w with
  | nil => exact ⟨rfl, rfl⟩
  | cons x xs ih =>
    obtain ⟨h1, h2⟩ := hw x List.mem_cons_self
    have h1' : Fp.Splitline.isQuote x = false := h1
    have ih' := ih (fun y hy => hw y (List.mem_cons_of_mem _ hy))
    cases q with
    | none =>
      simp only [qinit] at ih' ⊢
      simp only [Fp.Splitline.qrun_cons, qstep, h1', Bool.false_eq_true, if_false, bangFree, isIn,
        Bool.false_or, ih', Bool.and_true, bne_iff_ne, ne_eq]
      exact ⟨trivial, h2⟩
    | some c =>
      have hc := hq c rfl
      have hxc : (x == c) = false := by
        cases hxc : x == c with
        | false => rfl
        | true => rw [beq_iff_eq.mp hxc, hc] at h1; cases h1
      simp only [qinit] at ih' ⊢
      simp only [Fp.Splitline.qrun_cons, qstep, hxc, Bool.false_eq_true, if_false, bangFree, isIn,
        Bool.true_or, ih', Bool.and_true]
      exact ⟨trivial, trivial⟩

/-- from any state reached from a quotation character, inert characters keep the final quote
    state and contain no comment start -/
theorem inert_final (s : QState) (hs : s.quoteOnly) (w : Str) (hw : Inert w) :
    qfinal (qrun s w) = qfinal s ∧ bangFree s w = true := by
  cases s with
  | outside => have := inert_init none (fun _ h => by cases h) w hw; simp only [qinit] at this; rw [this.1]; exact ⟨rfl, this.2⟩
  | inLit c => have := inert_init (some c) (fun _ h => by cases h; exact hs) w hw; simp only [qinit] at this; rw [this.1]; exact ⟨rfl, this.2⟩
  | pending c =>
    cases w with
    | nil => exact ⟨rfl, rfl⟩
    | cons x xs =>
      obtain ⟨h1, h2⟩ := hw x List.mem_cons_self
      have h1' : Fp.Splitline.isQuote x = false := h1
      have hc : isQuote c = true := hs
      have hxc : (x == c) = false := by
        cases hxc : x == c with
        | false => rfl
        | true => rw [beq_iff_eq.mp hxc, hc] at h1; cases h1
      have := inert_init none (fun _ h => by cases h) xs (fun y hy => hw y (List.mem_cons_of_mem _ hy))
      simp only [qinit] at this
      simp only [Fp.Splitline.qrun_cons, qstep, hxc, h1', Bool.false_eq_true, if_false, this.1,
        bangFree, isIn, Bool.false_or, this.2, Bool.and_true, bne_iff_ne, ne_eq, qfinal]
      exact ⟨trivial, h2⟩

theorem qinit_quoteOnly (q : Option Char) (hq : ∀ c, q = some c → isQuote c = true) :
    (qinit q).quoteOnly := by
  cases q with
  | none => trivial
  | some c => exact hq c rfl

/-- `lead ++ body ++ tail` with inert `lead`, `tail`: same final quote state and same
    comment-freeness as `body` -/
theorem inert_wrap (q : Option Char) (hq : ∀ c, q = some c → isQuote c = true)
    (lead body tail : Str) (hl : Inert lead) (ht : Inert tail) :
    quoteStateAfter q (lead ++ body ++ tail) = quoteStateAfter q body ∧
    bangFree (qinit q) (lead ++ body ++ tail) = bangFree (qinit q) body := by
  have h1 := inert_init q hq lead hl
  have hs : (qrun (qinit q) body).quoteOnly :=
    Fp.Splitline.qrun_quoteOnly _ _ (qinit_quoteOnly q hq)
  have h2 := inert_final (qrun (qinit q) body) hs tail ht
  unfold quoteStateAfter
  simp only [Fp.Splitline.qrun_append, bangFree_append, h1.1, h1.2, h2.1, h2.2, Bool.true_and,
    Bool.and_true, and_self]

/-- the quote state handed on is again `none` or a quotation character -/
theorem quoteStateAfter_isQuote (q : Option Char) (hq : ∀ c, q = some c → isQuote c = true)
    (l : Str) : ∀ c, quoteStateAfter q l = some c → isQuote c = true := by
  intro c h
  have := Fp.Splitline.splitquote_state_isQuote l q false hq c
  rw [Fp.Splitline.splitquote_state] at this
  exact this h

end Fp.Reader
