import FparserModel.Proofs.SymGlueTree
import FparserModel.Proofs.SymGlueUse
/-!
The specification-level reading of a skeleton and the simulation between it and the
table-driven run (`Fp.SymGlue.run`).

Specification state: a stack of *frames*, one per open scoping unit (innermost first); a frame
is the set of lower-cased names recorded SO FAR in that unit (entities of intrinsic-typed
declarations, local names of USE entries), whether a USE without ONLY was seen, and whether the
unit is a submodule.  Finished top-level units are kept by name (`tops`): a later unit of the
same name starts from the frame the earlier one left (the real `enter_scope` re-uses the
top-level table of that name).  No Mathlib.
-/
namespace Fp.SymGlue
open Fp Fp.SymTab

structure Frame where
  names : List Str := []
  wild : Bool := false
  submod : Bool := false
deriving Repr, DecidableEq

/-- record names (already lower-cased) and possibly a wildcard import -/
def Frame.record (f : Frame) (ns : List Str) (w : Bool) : Frame :=
  { f with names := f.names ++ ns, wild := f.wild || w }

structure Sp where
  /-- frames of the finished top-level units, by lower-cased name -/
  tops : List (Str × Frame) := []
  /-- open units, innermost first -/
  stack : List Frame := []
  /-- lower-cased name of the open top-level unit (meaningful when `stack ≠ []`) -/
  top : Str := []
  log : List RefKind := []

/-- lower-cased local names a USE statement brings into scope -/
def useLocals : UseTail → List Str
  | .plain => []
  | .onlyNothing => []
  | .only es => (es.filterMap OEntry.localName).map lower
  | .renames es => (es.filterMap REntry.localName).map lower

/-- the USE statement has no ONLY: everything public of the module is imported -/
def useWild : UseTail → Bool
  | .plain => true
  | .renames _ => true
  | _ => false

/-- the argument-count test of `Intrinsic_Function_Reference.match` -/
def inRange (mn : Nat) (mx : Option Nat) (k : Nat) : Bool :=
  match mx with
  | none => decide (mn ≤ k)
  | some mx =>
    if mn = mx then decide (k = mn)
    else if mn < mx then decide (mn ≤ k ∧ k ≤ mx)
    else true

/-- the `(min, max)` entry used for `uname` (specific names are tested under their generic name) -/
def arityOf (it : IntrTable) (uname : Str) : Option (Nat × Option Nat) :=
  dGet it.generic (match dGet it.specific uname with
    | some g => g
    | none => uname)

/-- how a reference is represented, from the frames alone -/
def specResolve (it : IntrTable) (stack : List Frame) (r : Ref) : Except Abort RefKind :=
  let u := upper r.name
  if !it.names.contains u then .ok (fallback r)
  else if stack.any (fun f => f.names.contains (lower u)) then .ok (fallback r)
  else
    match arityOf it u with
    | none => .error .keyError
    | some (mn, mx) =>
      if inRange mn mx r.args.length then .ok .intrinsic
      else if stack.any (fun f => f.wild) || stack.any (fun f => f.submod) then .ok (fallback r)
      else .error .syntaxError

def specLog (std : Std) (σ : Sp) (r : Ref) : Except Abort Sp :=
  match specResolve (itOf std) σ.stack r with
  | .ok k => .ok { σ with log := σ.log ++ [k] }
  | .error a => .error a

def specInner (std : Std) (σ : Sp) : List Entity → Except Abort Sp
  | [] => .ok σ
  | e :: r =>
    match e.inner with
    | none => specInner std σ r
    | some rf =>
      match specLog std σ rf with
      | .ok σ' => specInner std σ' r
      | .error a => .error a

def specStmt (std : Std) (σ : Sp) : Stmt → Except Abort Sp
  | .use _ tail =>
    .ok { σ with stack := modHead (fun f => f.record (useLocals tail) (useWild tail)) σ.stack }
  | .decl ts ents =>
    match specInner std σ ents with
    | .error a => .error a
    | .ok σ1 =>
      match ts with
      | .intrinsic _ =>
        .ok { σ1 with stack := modHead (fun f => f.record (ents.map fun e => lower e.name) false) σ1.stack }
      | .derived _ => .ok σ1
  | .assign r => specLog std σ r
  | .silent _ _ => .ok σ

def specRun (std : Std) : Sk → Sp → Except Abort Sp
  | .nil, σ => .ok σ
  | .stmt s rest, σ =>
    match specStmt std σ s with
    | .ok σ' => specRun std rest σ'
    | .error a => .error a
  | .scope k name body rest, σ =>
    if !scopeInStd std k then .error .noMatch
    else
      let lname := lower (scopeName k name)
      let fresh : Frame := { submod := k == .submodule }
      let σ1 : Sp := match σ.stack with
        | [] => { σ with stack := [(dGet σ.tops lname).getD fresh], top := lname }
        | _ :: _ => { σ with stack := fresh :: σ.stack }
      match specRun std body σ1 with
      | .error a => .error a
      | .ok σ2 =>
        match σ2.stack with
        | [] => .error .symtab
        | [f] => specRun std rest { σ2 with stack := [], tops := dSet σ2.tops σ2.top f }
        | _ :: r => specRun std rest { σ2 with stack := r }

/-! ## one table against one frame -/

structure Agree (l : Local) (f : Frame) : Prop where
  chk : l.checking = false
  names : ∀ n, hasName l n = f.names.contains n
  wild : hasWild l = f.wild
  sub : l.submod = f.submod

/-- the tables of a chain agree frame by frame with a stack -/
inductive AllAgree : List Local → List Frame → Prop where
  | nil : AllAgree [] []
  | cons {l : Local} {f : Frame} {ls : List Local} {fs : List Frame} :
      Agree l f → AllAgree ls fs → AllAgree (l :: ls) (f :: fs)

theorem AllAgree.head {l : Local} {ls : List Local} {stk : List Frame} (h : AllAgree (l :: ls) stk) :
    ∃ f fs, stk = f :: fs ∧ Agree l f ∧ AllAgree ls fs := by
  cases h with
  | cons hd tl => exact ⟨_, _, rfl, hd, tl⟩

theorem AllAgree.nil_left {stk : List Frame} (h : AllAgree [] stk) : stk = [] := by
  cases h; rfl

theorem filter_const_true {α} (l : List α) : l.filter (fun _ => true) = l := by
  induction l with
  | nil => rfl
  | cons a r ih => simp [List.filter, ih]

theorem agree_use (l : Local) (f : Frame) (h : Agree l f) (mod : Str)
    (only : Option (List (Str × Option Str))) (rename : Option (List (Str × Str))) :
    Agree (l.addUseSymbols mod only rename) (f.record (useNames only rename) only.isNone) := by
  obtain ⟨h1, h2, h3⟩ := addUse_flags l mod only rename
  refine ⟨by rw [h1]; exact h.chk, ?_, ?_, by rw [h2]; exact h.sub⟩
  · intro n
    rw [addUse_hasName, h.names n]
    simp [Frame.record]
  · rw [addUse_hasWild, h.wild]; rfl

theorem agree_sym (l : Local) (f : Frame) (h : Agree l f) (name ptype : Str) :
    Agree (recordSym l name ptype) (f.record [lower name] false) := by
  refine ⟨h.chk, ?_, ?_, h.sub⟩
  · intro n
    rw [recordSym_hasName, h.names n]
    apply bool_eq_of_iff
    simp only [Bool.or_eq_true, decide_eq_true_eq, contains_iff_mem, Frame.record, List.mem_append,
      List.mem_singleton]
    constructor
    · rintro (h | h)
      · exact Or.inr h.symm
      · exact Or.inl h
    · rintro (h | h)
      · exact Or.inr h
      · exact Or.inl h.symm
  · rw [recordSym_hasWild, h.wild]; simp [Frame.record]

theorem agree_fresh (name : Str) (sub : Bool) :
    Agree (Table.leaf name false sub).loc { submod := sub } := by
  refine ⟨rfl, ?_, rfl, rfl⟩
  intro n; rfl

/-! ## the intrinsic decision against the frames -/

theorem argsVerdict_eq (mn : Nat) (mx : Option Nat) (k : Nat) (u : Bool) :
    argsVerdict mn mx k u
      = if inRange mn mx k then .isIntrinsic else if u then .noMatch else .syntaxError := by
  unfold argsVerdict inRange
  cases mx with
  | none =>
    by_cases h : k < mn
    · have : ¬ mn ≤ k := by omega
      simp [h, this]
    · have : mn ≤ k := by omega
      simp [h, this]
  | some mx =>
    by_cases h1 : mn = mx
    · subst h1
      by_cases h2 : k = mn
      · simp [h2]
      · simp [h2]
    · by_cases h3 : mn < mx
      · by_cases h4 : k < mn
        · have : ¬ (mn ≤ k ∧ k ≤ mx) := by omega
          simp [h1, h3, h4, this]
        · by_cases h5 : k > mx
          · have : ¬ (mn ≤ k ∧ k ≤ mx) := by omega
            simp [h1, h3, h4, h5, this]
          · have : mn ≤ k ∧ k ≤ mx := by omega
            simp [h1, h3, h4, h5, this]
      · simp [h1, h3]

theorem lookupChain_isSome (ch : List Local) (stack : List Frame) (h : AllAgree ch stack)
    (n : Str) : (lookupChain ch n).isSome = stack.any (fun f => f.names.contains n) := by
  induction h with
  | nil => rfl
  | @cons l f ls fs hd _ ih =>
    simp only [lookupChain, List.any_cons]
    rw [← hd.names n, ← lookupHere_isSome, ← ih]
    cases l.lookupHere n <;> rfl

theorem all_notWild (ch : List Local) (stack : List Frame) (h : AllAgree ch stack) :
    ch.all (fun l => !hasWild l) = !stack.any (fun f => f.wild) := by
  induction h with
  | nil => rfl
  | @cons l f ls fs hd _ ih => simp only [List.all_cons, List.any_cons, hd.wild, ih, Bool.not_or]

theorem any_submod (ch : List Local) (stack : List Frame) (h : AllAgree ch stack) :
    ch.any (fun l => l.submod) = stack.any (fun f => f.submod) := by
  induction h with
  | nil => rfl
  | @cons l f ls fs hd _ ih => simp only [List.any_cons, hd.sub, ih]

theorem wildChain_isEmpty (ch : List Local) :
    (wildChain ch).isEmpty = ch.all (fun l => !hasWild l) := by
  induction ch with
  | nil => rfl
  | cons l ps ih =>
    simp only [wildChain, List.all_cons]
    have hw := wildHere_isEmpty l
    cases hl : l.wildHere with
    | nil =>
      have h0 : hasWild l = false := by
        rw [hl] at hw; simpa using hw.symm
      have : sOfList ([] : List Str) = [] := rfl
      simp only [this, h0, Bool.not_false, Bool.true_and, ← ih]
      simp [sUnion, filter_const_true]
    | cons x r =>
      have h1 : hasWild l = true := by
        rw [hl] at hw; simpa using hw.symm
      have hne : sOfList (x :: r) ≠ [] := fun h => by simpa using (sOfList_eq_nil _).1 h
      simp only [h1, Bool.not_true, Bool.false_and]
      cases hs : sOfList (x :: r) with
      | nil => exact absurd hs hne
      | cons y ys => simp [sUnion]

theorem unresolved_eq (ch : List Local) (stack : List Frame) (h : AllAgree ch stack) :
    (!resolvedChain ch) = (stack.any (fun f => f.wild) || stack.any (fun f => f.submod)) := by
  unfold resolvedChain
  rw [wildChain_isEmpty]
  have h1 := all_notWild ch stack h
  have h2 := any_submod ch stack h
  rw [h1, h2]
  cases stack.any (fun f => f.wild) <;> cases stack.any (fun f => f.submod) <;> rfl

theorem ofIntrRes_verdict (r : Ref) (mn : Nat) (mx : Option Nat) (u : Bool) :
    ofIntrRes r (argsVerdict mn mx r.args.length u)
      = if inRange mn mx r.args.length then .ok .intrinsic
        else if u then .ok (fallback r) else .error .syntaxError := by
  rw [argsVerdict_eq]
  cases inRange mn mx r.args.length <;> cases u <;> rfl

theorem resolve_agree (it : IntrTable) (ch : List Local) (stack : List Frame)
    (h : AllAgree ch stack) (r : Ref) :
    ofIntrRes r (intrinsicDecision it (some ch) r.name r.args.length) = specResolve it stack r := by
  unfold intrinsicDecision specResolve arityOf
  simp only []
  by_cases hn : it.names.contains (upper r.name) = true
  · simp only [hn, Bool.not_true, Bool.false_eq_true, ↓reduceIte]
    rw [lookupChain_isSome ch stack h]
    by_cases hs : stack.any (fun f => f.names.contains (lower (upper r.name))) = true
    · simp only [hs, ↓reduceIte]; rfl
    · simp only [hs, Bool.false_eq_true, ↓reduceIte]
      cases hg : dGet it.generic (match dGet it.specific (upper r.name) with
          | some g => g | none => upper r.name) with
      | none => rfl
      | some e =>
        obtain ⟨mn, mx⟩ := e
        simp only []
        rw [ofIntrRes_verdict, unresolved_eq ch stack h]
  · simp only [hn, Bool.not_false, ↓reduceIte]; rfl

theorem resolve_agree_none (it : IntrTable) (r : Ref) :
    ofIntrRes r (intrinsicDecision it none r.name r.args.length) = specResolve it [] r := by
  unfold intrinsicDecision specResolve arityOf
  simp only []
  by_cases hn : it.names.contains (upper r.name) = true
  · simp only [hn, Bool.not_true, Bool.false_eq_true, ↓reduceIte, List.any_nil]
    cases hg : dGet it.generic (match dGet it.specific (upper r.name) with
        | some g => g | none => upper r.name) with
    | none => rfl
    | some e =>
      obtain ⟨mn, mx⟩ := e
      simp only []
      rw [ofIntrRes_verdict]
      rfl
  · simp only [hn, Bool.not_false, ↓reduceIte]; rfl

/-! ## the simulation relation -/

def OptAgree : Option Table → Option Frame → Prop
  | some t, some f => Agree t.loc f
  | none, none => True
  | _, _ => False

inductive Sim : St → Sp → Prop where
  /-- no scope is open -/
  | top (st : St) (σ : Sp) (checks : st.tabs.checks = false) (log : st.log = σ.log)
      (hc : st.tabs.cur = none) (hs : σ.stack = [])
      (ht : ∀ n, OptAgree (dGet st.tabs.tops n) (dGet σ.tops n)) : Sim st σ
  /-- the current scope is `p`; its chain agrees frame by frame with the stack -/
  | inner (st : St) (σ : Sp) (checks : st.tabs.checks = false) (log : st.log = σ.log)
      (p : Path) (hc : st.tabs.cur = some p) (htop : p.1 = σ.top)
      (ch : List Local) (hch : st.tabs.chain p = some ch) (hag : AllAgree ch σ.stack)
      (ht : ∀ n, n ≠ p.1 → OptAgree (dGet st.tabs.tops n) (dGet σ.tops n)) : Sim st σ

theorem Sim.checks_off {st : St} {σ : Sp} (h : Sim st σ) : st.tabs.checks = false := by
  cases h <;> assumption

theorem Sim.log_eq {st : St} {σ : Sp} (h : Sim st σ) : st.log = σ.log := by
  cases h <;> assumption

/-- the relation between the two outcomes -/
def Rel2 (a : Except Abort St) (b : Except Abort Sp) : Prop :=
  match a, b with
  | .ok st, .ok σ => Sim st σ
  | .error x, .error y => x = y
  | _, _ => False

theorem forall2_modHead (g : Local → Local) (h : Frame → Frame) (ch : List Local) (stack : List Frame)
    (hag : AllAgree ch stack)
    (hgh : ∀ l rest f, ch = l :: rest → Agree l f → Agree (g l) (h f)) :
    AllAgree (modHead g ch) (modHead h stack) := by
  cases hag with
  | nil => exact .nil
  | cons hd tl => exact .cons (hgh _ _ _ rfl hd) tl

/-- changing the data of the current scope's table in a way the frame follows -/
theorem sim_upd (st : St) (σ : Sp) (hs : Sim st σ) (p : Path) (hc : st.tabs.cur = some p)
    (F : Table → Table) (g : Local → Local) (h : Frame → Frame) (hF : ∀ u, (F u).loc = g u.loc)
    (hgh : ∀ l rest f, st.tabs.chain p = some (l :: rest) → Agree l f → Agree (g l) (h f)) :
    Sim { st with tabs := st.tabs.updTable p F } { σ with stack := modHead h σ.stack } := by
  cases hs with
  | top _ _ hc' => rw [hc] at hc'; cases hc'
  | inner checks log p' hc' htop ch hch hag ht =>
    rw [hc] at hc'; cases hc'
    refine .inner _ _ ?_ log p ?_ htop (modHead g ch) ?_ ?_ ?_
    · simpa [updTable_checks] using checks
    · simpa [updTable_cur] using hc
    · simp [chain_updTable_same _ _ F g hF, hch]
    · exact forall2_modHead g h ch σ.stack hag (fun l rest f e => hgh l rest f (e ▸ hch))
    · intro n hn
      simp only []
      rw [updTable_tops_ne _ _ _ _ (Ne.symm hn)]
      exact ht n hn

/-! ## statements -/

theorem resolve_sim (std : Std) (st : St) (σ : Sp) (hs : Sim st σ) (r : Ref) :
    resolve st.tabs std r = specResolve (itOf std) σ.stack r := by
  unfold resolve Tables.intrinsicAt
  cases hs with
  | top _ _ hc hs' _ => simp only [hc, hs']; exact resolve_agree_none _ r
  | inner _ _ p hc _ ch hch hag _ => simp only [hc, hch]; exact resolve_agree _ ch _ hag r

theorem logRef_sim (std : Std) (st : St) (σ : Sp) (hs : Sim st σ) (r : Ref) :
    Rel2 (logRef std st r) (specLog std σ r) := by
  unfold logRef specLog
  rw [resolve_sim std st σ hs r]
  cases specResolve (itOf std) σ.stack r with
  | error a => exact rfl
  | ok k =>
    show Sim _ _
    cases hs with
    | top checks log hc hs' ht => exact .top _ _ checks (by simp [log]) hc hs' ht
    | inner checks log p hc htop ch hch hag ht =>
      exact .inner _ _ checks (by simp [log]) p hc htop ch hch hag ht

theorem logInner_sim (std : Std) : ∀ (ents : List Entity) (st : St) (σ : Sp), Sim st σ →
    Rel2 (logInner std st ents) (specInner std σ ents) := by
  intro ents
  induction ents with
  | nil => intro st σ hs; exact hs
  | cons e r ih =>
    intro st σ hs
    cases he : e.inner with
    | none => simp only [logInner, specInner, he]; exact ih st σ hs
    | some rf =>
      simp only [logInner, specInner, he]
      have := logRef_sim std st σ hs rf
      cases h1 : logRef std st rf with
      | error a =>
        cases h2 : specLog std σ rf with
        | error b => simpa [Rel2, h1, h2] using this
        | ok σ' => simp [Rel2, h1, h2] at this
      | ok st' =>
        cases h2 : specLog std σ rf with
        | error b => simp [Rel2, h1, h2] at this
        | ok σ' =>
          simp only [Rel2, h1, h2] at this
          exact ih st' σ' this

theorem use_args_ok (tail : UseTail) :
    useNames (useArgs tail).1 (useArgs tail).2 = useLocals tail
      ∧ (useArgs tail).1.isNone = useWild tail := by
  cases tail with
  | plain => exact ⟨rfl, rfl⟩
  | onlyNothing => exact ⟨rfl, rfl⟩
  | only es =>
    refine ⟨?_, rfl⟩
    simp only [useArgs, useNames, useLocals, Option.getD_some, Option.getD_none, List.map_nil,
      List.append_nil, ← onlyLoop_names, List.map_map]
    rfl
  | renames es =>
    refine ⟨?_, rfl⟩
    simp only [useArgs, useNames, useLocals, Option.getD_some, Option.getD_none, List.map_nil,
      List.nil_append, ← renameLoop_names, List.map_map]
    rfl

theorem addUse_sim (st : St) (σ : Sp) (hs : Sim st σ) (mod : Str)
    (only : Option (List (Str × Option Str))) (ren : Option (List (Str × Str))) :
    Sim { st with tabs := addUse st.tabs mod only ren }
      { σ with stack := modHead (fun f => f.record (useNames only ren) only.isNone) σ.stack } := by
  unfold addUse onCurrent
  cases hcur : st.tabs.cur with
  | none =>
    cases hs with
    | top checks log hc hs' ht => exact .top _ _ checks log hc (by simp [hs', modHead]) ht
    | inner _ _ p hc => rw [hcur] at hc; cases hc
  | some p =>
    exact sim_upd st σ hs p hcur _ (fun l => l.addUseSymbols mod only ren) _ (fun _ => rfl)
      (fun l _ f _ ha => agree_use l f ha mod only ren)

theorem addSym_sim (st : St) (σ : Sp) (hs : Sim st σ) (name ptype : Str) :
    ∃ t', addSym st.tabs name ptype = .ok t' ∧
      Sim { st with tabs := t' } { σ with stack := modHead (fun f => f.record [lower name] false) σ.stack } := by
  unfold addSym
  cases hcur : st.tabs.cur with
  | none =>
    refine ⟨st.tabs, rfl, ?_⟩
    cases hs with
    | top checks log hc hs' ht => exact .top _ _ checks log hc (by simp [hs', modHead]) ht
    | inner _ _ p hc => rw [hcur] at hc; cases hc
  | some p =>
    cases hs with
    | top _ _ hc => rw [hcur] at hc; cases hc
    | inner checks log p' hc htop ch hch hag ht =>
      rw [hcur] at hc; cases hc
      obtain ⟨l, rest, rfl⟩ : ∃ l rest, ch = l :: rest := by
        cases ch with
        | nil => exact absurd rfl (chain_ne_nil _ _ _ hch)
        | cons l rest => exact ⟨l, rest, rfl⟩
      obtain ⟨t, ht', hl⟩ := tableAt_of_chain _ _ _ _ hch
      have hchk : t.loc.checking = false := by
        obtain ⟨_, _, _, hd, _⟩ := hag.head
        rw [hl]; exact hd.chk
      simp only [ht', addDataSymbol_unchecked _ _ _ hchk]
      refine ⟨_, rfl, ?_⟩
      have hs0 : Sim st σ := .inner _ _ checks log p hcur htop (l :: rest) hch hag ht
      exact sim_upd st σ hs0 p hcur _ (fun _ => recordSym t.loc name ptype) _ (fun _ => rfl)
        (fun l' rest' f e ha => by
          rw [hch] at e
          simp only [Option.some.injEq, List.cons.injEq] at e
          rw [hl, e.1]
          exact agree_sym l' f ha name ptype)

theorem record_record (f : Frame) (a b : List Str) :
    (f.record a false).record b false = f.record (a ++ b) false := by
  simp [Frame.record, List.append_assoc]

theorem modHead_modHead {α} (g h : α → α) (l : List α) :
    modHead g (modHead h l) = modHead (g ∘ h) l := by
  cases l <;> rfl

theorem modHead_id_nil {α} (g : α → α) : modHead g ([] : List α) = [] := rfl

theorem addSyms_sim (ptype : Str) : ∀ (ents : List Entity) (st : St) (σ : Sp), Sim st σ →
    ∃ t', addSyms st.tabs ptype ents = .ok t' ∧
      Sim { st with tabs := t' }
        { σ with stack := modHead (fun f => f.record (ents.map fun e => lower e.name) false) σ.stack } := by
  intro ents
  induction ents with
  | nil =>
    intro st σ hs
    refine ⟨st.tabs, rfl, ?_⟩
    have : modHead (fun f : Frame => f.record [] false) σ.stack = σ.stack := by
      cases σ.stack with
      | nil => rfl
      | cons f r => simp [modHead, Frame.record]
    simpa [this] using hs
  | cons e r ih =>
    intro st σ hs
    obtain ⟨t1, h1, hs1⟩ := addSym_sim st σ hs e.name ptype
    obtain ⟨t2, h2, hs2⟩ := ih _ _ hs1
    refine ⟨t2, ?_, ?_⟩
    · simp only [addSyms, h1]; exact h2
    · have : modHead (fun f : Frame => f.record (r.map fun e => lower e.name) false)
          (modHead (fun f : Frame => f.record [lower e.name] false) σ.stack)
          = modHead (fun f : Frame => f.record ((e :: r).map fun e => lower e.name) false) σ.stack := by
        rw [modHead_modHead]
        congr 1
        funext f
        simp [Function.comp, record_record]
      simpa [this] using hs2

theorem execStmt_sim (std : Std) (st : St) (σ : Sp) (hs : Sim st σ) (s : Stmt) :
    Rel2 (execStmt std st s) (specStmt std σ s) := by
  cases s with
  | use mod tail =>
    simp only [execStmt, specStmt, Rel2]
    obtain ⟨h2, h3⟩ := use_args_ok tail
    rw [← h2, ← h3]
    exact addUse_sim st σ hs mod _ _
  | decl ts ents =>
    simp only [execStmt, specStmt]
    have := logInner_sim std ents st σ hs
    cases h1 : logInner std st ents with
    | error a =>
      cases h2 : specInner std σ ents with
      | error b => simpa [Rel2, h1, h2] using this
      | ok σ' => simp [Rel2, h1, h2] at this
    | ok st1 =>
      cases h2 : specInner std σ ents with
      | error b => simp [Rel2, h1, h2] at this
      | ok σ1 =>
        simp only [Rel2, h1, h2] at this
        cases ts with
        | derived t => exact this
        | intrinsic text =>
          obtain ⟨t', h3, hs3⟩ := addSyms_sim text ents st1 σ1 this
          simp only [h3, Rel2]
          exact hs3
  | assign r => exact logRef_sim std st σ hs r
  | silent k n => exact hs

/-! ## scopes -/

theorem enter_sim (st : St) (σ : Sp) (hs : Sim st σ) (nm : Str) (sub : Bool) :
    Sim { st with tabs := st.tabs.enterScope nm sub }
      (match σ.stack with
        | [] => { σ with stack := [(dGet σ.tops (lower nm)).getD { submod := sub }], top := lower nm }
        | _ :: _ => { σ with stack := { submod := sub } :: σ.stack }) := by
  cases hs with
  | top checks log hc hs' ht =>
    simp only [hs']
    unfold Tables.enterScope
    simp only [hc]
    by_cases hh : dHas st.tabs.tops (lower nm) = true
    · simp only [hh, ↓reduceIte]
      obtain ⟨t, htt⟩ := (dHas_iff _ _).1 hh
      have hoa := ht (lower nm)
      rw [htt] at hoa
      cases hf : dGet σ.tops (lower nm) with
      | none => rw [hf] at hoa; exact absurd hoa (by simp [OptAgree])
      | some f =>
        rw [hf] at hoa
        refine .inner _ _ checks log (lower nm, []) rfl rfl [t.loc] ?_ ?_ ?_
        · exact chain_top _ _ _ htt
        · exact .cons hoa .nil
        · intro n _; exact ht n
    · simp only [hh, Bool.false_eq_true, ↓reduceIte]
      have hnone : dGet st.tabs.tops (lower nm) = none := by
        unfold dHas at hh
        cases hd : dGet st.tabs.tops (lower nm) with
        | none => rfl
        | some _ => simp [hd] at hh
      have hoa := ht (lower nm)
      rw [hnone] at hoa
      cases hf : dGet σ.tops (lower nm) with
      | some f => rw [hf] at hoa; exact absurd hoa (by simp [OptAgree])
      | none =>
        refine .inner _ _ checks log (lower nm, []) rfl rfl [(Table.leaf (lower nm) st.tabs.checks sub).loc]
          ?_ ?_ ?_
        · exact chain_top _ _ _ (dGet_dSet_same _ _ _)
        · rw [checks]; exact .cons (agree_fresh _ _) .nil
        · intro n hn
          simp only []
          rw [dGet_dSet_ne _ _ _ _ (Ne.symm hn)]
          exact ht n
  | inner checks log p hc htop ch hch hag ht =>
    obtain ⟨q, hq1, hq2, hq3, hq4, hq5⟩ := enterScope_nested st.tabs p ch nm sub hc hch
    have hne : σ.stack ≠ [] := by
      intro h
      rw [h] at hag
      cases hag
      exact chain_ne_nil _ _ _ hch rfl
    cases hst : σ.stack with
    | nil => exact absurd hst hne
    | cons f fs =>
      simp only []
      refine .inner _ _ (by simpa [hq4] using checks) log q hq1 (by rw [hq2]; exact htop) _ hq3 ?_ ?_
      · rw [checks]
        exact .cons (agree_fresh _ _) (hst ▸ hag)
      · intro n hn
        rw [hq2] at hn
        simp only []
        rw [hq5 n (Ne.symm hn)]
        exact ht n hn

/-- leaving a scope: what `exit_scope` and the frame stack do -/
theorem exit_sim (st : St) (σ : Sp) (hs : Sim st σ) :
    match st.tabs.exitScope, σ.stack with
    | .error _, [] => True
    | .ok t3, [f] => Sim { st with tabs := t3 } { σ with stack := [], tops := dSet σ.tops σ.top f }
    | .ok t3, _ :: r :: rs => Sim { st with tabs := t3 } { σ with stack := r :: rs }
    | _, _ => False := by
  cases hs with
  | top checks log hc hs' ht =>
    simp [Tables.exitScope, hc, hs']
  | inner checks log p hc htop ch hch hag ht =>
    obtain ⟨top, rel⟩ := p
    cases rel with
    | nil =>
      obtain ⟨t, htt, rfl⟩ := chain_top_inv _ _ _ hch
      obtain ⟨f, fs, hst, hd, tl⟩ := hag.head
      have hfs := tl.nil_left
      subst hfs
      simp only [Tables.exitScope, hc, hst]
      refine .top _ _ checks log rfl rfl ?_
      intro n
      simp only [] at htop ⊢
      by_cases hn : n = top
      · subst hn
        rw [htt, ← htop, dGet_dSet_same]
        exact hd
      · rw [← htop, dGet_dSet_ne _ _ _ _ (Ne.symm hn)]
        exact ht n hn
    | cons i is =>
      have hrel : ∃ init j, i :: is = init ++ [j] := by
        refine ⟨(i :: is).dropLast, (i :: is).getLast (by simp), ?_⟩
        exact (List.dropLast_concat_getLast (by simp)).symm
      obtain ⟨init, j, hij⟩ := hrel
      obtain ⟨l, ch', rfl⟩ : ∃ l ch', ch = l :: ch' := by
        cases ch with
        | nil => exact absurd rfl (chain_ne_nil _ _ _ hch)
        | cons l r => exact ⟨l, r, rfl⟩
      have hch2 : st.tabs.chain (top, init) = some ch' := by
        rw [hij] at hch; exact chain_exit _ _ _ _ _ _ hch
      have hne' := chain_ne_nil _ _ _ hch2
      obtain ⟨f, fs, hst, hd, tl⟩ := hag.head
      cases ch' with
      | nil => exact absurd rfl hne'
      | cons l2 ls2 =>
        obtain ⟨f2, fs2, hst2, hd2, tl2⟩ := tl.head
        subst hst2
        simp only [Tables.exitScope, hc, hst]
        refine .inner _ _ checks log (top, (i :: is).dropLast) rfl htop (l2 :: ls2) ?_ (.cons hd2 tl2) ht
        simp only []
        rw [hij, List.dropLast_concat]
        exact hch2

/-! ## the whole run -/

theorem run_sim (std : Std) : ∀ (sk : Sk) (st : St) (σ : Sp), Sim st σ →
    Rel2 (run std sk st) (specRun std sk σ) := by
  intro sk
  induction sk with
  | nil => intro st σ hs; exact hs
  | stmt s rest ih =>
    intro st σ hs
    simp only [run, specRun]
    have := execStmt_sim std st σ hs s
    cases h1 : execStmt std st s with
    | error a =>
      cases h2 : specStmt std σ s with
      | error b => simpa [Rel2, h1, h2] using this
      | ok σ' => simp [Rel2, h1, h2] at this
    | ok st' =>
      cases h2 : specStmt std σ s with
      | error b => simp [Rel2, h1, h2] at this
      | ok σ' =>
        simp only [Rel2, h1, h2] at this
        exact ih st' σ' this
  | scope k name body rest ihb ihr =>
    intro st σ hs
    simp only [run, specRun]
    by_cases hstd : scopeInStd std k = true
    · simp only [hstd, Bool.not_true, Bool.false_eq_true, ↓reduceIte]
      have h1 := enter_sim st σ hs (scopeName k name) (k == .submodule)
      have h2 := ihb _ _ h1
      cases hb : run std body { st with tabs := st.tabs.enterScope (scopeName k name) (k == .submodule) } with
      | error a =>
        rw [hb] at h2
        revert h2
        cases specRun std body _ with
        | error b => intro h2; simpa [Rel2] using h2
        | ok σ2 => intro h2; simp [Rel2] at h2
      | ok st2 =>
        rw [hb] at h2
        revert h2
        cases specRun std body _ with
        | error b => intro h2; simp [Rel2] at h2
        | ok σ2 =>
          intro h2
          simp only [Rel2] at h2
          have h3 := exit_sim st2 σ2 h2
          simp only []
          cases he : st2.tabs.exitScope with
          | error e =>
            rw [he] at h3
            cases hst : σ2.stack with
            | nil => simp [Rel2]
            | cons f fs => rw [hst] at h3; simp at h3
          | ok t3 =>
            rw [he] at h3
            cases hst : σ2.stack with
            | nil => rw [hst] at h3; simp at h3
            | cons f fs =>
              rw [hst] at h3
              cases fs with
              | nil => exact ihr _ _ h3
              | cons r rs => exact ihr _ _ h3
    · have : scopeInStd std k = false := by simpa using hstd
      simp [this, Rel2]

/-- the empty state: no table, no scope, checks off -/
theorem sim_init : Sim {} {} :=
  .top _ _ rfl rfl rfl rfl (fun _ => trivial)

end Fp.SymGlue
