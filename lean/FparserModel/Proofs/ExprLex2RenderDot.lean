import FparserModel.Proofs.ExprLex2RenderChar
import FparserModel.Proofs.ExprLexStr

/-!
`lex_render`, the dotted words `.LETTERS.`.
-/
namespace Fp.ExprLex
open Fp Fp.Expr

/-- whatever dotted word the text `'.' :: after` begins with is not an intrinsic one -/
def dotAfterOK (after : Str) : Prop := ∀ w n, dotWord ('.' :: after) = some (w, n) → dotClass w = .other

theorem takeWhile_alpha_append : ∀ (L X : Str), L.all isAlpha = true → headIs X '.' = true →
    (L ++ X).takeWhile isAlpha = L ∧ (L ++ X).dropWhile isAlpha = X
  | [], X, _, hX => by
    cases X with
    | nil => simp [headIs] at hX
    | cons c r =>
      simp only [headIs, beq_iff_eq] at hX
      subst hX
      simp [show isAlpha '.' = false by decide]
  | c :: t, X, h, hX => by
    simp only [List.all_cons, Bool.and_eq_true] at h
    have ih := takeWhile_alpha_append t X h.2 hX
    simp [h.1, ih.1, ih.2]

theorem dotWord_dotted (L X : Str) (hne : L ≠ []) (hα : L.all isAlpha = true) :
    dotWord ('.' :: L ++ '.' :: X) = some (upper L, L.length + 2) := by
  obtain ⟨h1, h2⟩ := takeWhile_alpha_append L ('.' :: X) hα (by simp [headIs])
  have hsp : dropSp (L ++ '.' :: X) = L ++ '.' :: X := by
    cases L with
    | nil => exact absurd rfl hne
    | cons c t =>
      simp only [List.all_cons, Bool.and_eq_true] at hα
      simp [dropSp, alpha_not_space hα.1]
  have hsp2 : dropSp ('.' :: X) = '.' :: X := by
    simp [dropSp, show isSpace '.' = false by decide]
  simp only [dotWord, List.cons_append, hsp, h1, h2, hsp2, hne, ↓reduceIte, List.length_append,
    List.length_cons, Option.some.injEq, Prod.mk.injEq, true_and]
  omega

theorem inPat_sym (dc : DC) : dc.inPat .power = false ∧ dc.inPat .mult = false ∧ dc.inPat .add = false ∧
    dc.inPat .concat = false := by
  cases dc <;> simp [DC.inPat]

/-- every pattern at the head of a dotted word -/
theorem matchAt_dotted (q : Pat) (prev : Option Char) (L X : Str) (hne : L ≠ []) (hα : L.all isAlpha = true)
    (hU : upper L = L) :
    matchAt q prev ('.' :: L ++ '.' :: X) = if (dotClass L).inPat q then some (L.length + 2) else none := by
  have hd := dotWord_dotted L X hne hα
  rw [hU] at hd
  obtain ⟨i1, i2, i3, i4⟩ := inPat_sym (dotClass L)
  cases q <;> simp only [matchAt, dotIn, List.cons_append, i1, i2, i3, i4] <;>
    simp only [List.cons_append] at hd <;> (try rw [hd]) <;> simp

/-- the last `.` of a dotted word starts nothing but (possibly) a defined operator -/
theorem matchAt_lastDot (q : Pat) (hq : q ≠ .defined) (prev : Option Char) (after : Str)
    (hd : dotAfterOK after) : matchAt q prev ('.' :: after) = none := by
  have key : dotIn q ('.' :: after) = none := by
    simp only [dotIn]
    cases hw : dotWord ('.' :: after) with
    | none => rfl
    | some wn =>
      obtain ⟨w, n⟩ := wn
      have := hd w n hw
      simp only [this]
      cases q <;> simp [DC.inPat] at hq ⊢
  cases q <;> simp only [matchAt] <;> first | exact key | simp

theorem upper_dotted (L : Str) (hU : upper L = L) : upper (dotted L) = dotted L := by
  simp only [dotted, upper, List.map_cons, List.map_append, List.map_nil] at hU ⊢
  rw [hU]
  simp [show upperC '.' = '.' by decide]

theorem dropWhile_self {p : Char → Bool} {c : Char} {t : Str} (h : p c = false) :
    (c :: t).dropWhile p = c :: t := by simp [h]

/-- `strip` of text that neither begins nor ends with a blank, with blanks around it -/
theorem strip_core (pre name post : Str) (hne : name ≠ []) (hn : ∀ c ∈ name, isSpace c = false)
    (hpre : allBlank pre = true) (hpost : allBlank post = true) : strip (pre ++ name ++ post) = name := by
  have dw : ∀ (a b : Str), allBlank a = true → (a ++ b).dropWhile isSpace = b.dropWhile isSpace := by
    intro a b ha
    induction a with
    | nil => rfl
    | cons c t ih =>
      simp only [allBlank, List.all_cons, Bool.and_eq_true] at ha
      simp only [List.cons_append, List.dropWhile_cons, ha.1, ↓reduceIte]
      exact ih ha.2
  have hr : rstrip (pre ++ name ++ post) = pre ++ name := by
    simp only [rstrip, List.reverse_append]
    rw [dw _ _ (by simpa [allBlank] using hpost)]
    cases hrev : name.reverse with
    | nil => simp at hrev; exact absurd hrev hne
    | cons d u =>
      have hd : isSpace d = false := hn d (by
        have : d ∈ name.reverse := by rw [hrev]; simp
        simpa using this)
      rw [List.cons_append, dropWhile_self hd, ← List.cons_append, ← hrev]
      simp
  simp only [strip, hr, lstrip]
  rw [dw _ _ hpre]
  cases name with
  | nil => exact absurd rfl hne
  | cons c t => exact dropWhile_self (hn c (by simp))

theorem strip_dotted (L : Str) (hα : L.all isAlpha = true) : strip (dotted L) = dotted L := by
  have := strip_core [] (dotted L) [] (by simp [dotted]) (by
    intro c hc
    simp only [dotted, List.mem_cons, List.mem_append, List.not_mem_nil, or_false] at hc
    rcases hc with (rfl | hc) | rfl
    · decide
    · exact alpha_not_space (List.all_eq_true.mp hα c hc)
    · decide) rfl rfl
  simpa using this

theorem nonDefined_dotted (L : Str) (hne : L ≠ []) (hα : L.all isAlpha = true) (hU : upper L = L) :
    nonDefinedMatch (dotted L) = (dotClass L != .other) := by
  have hd := dotWord_dotted L [] hne hα
  rw [hU] at hd
  have hm := fun q => matchAt_dotted q none L [] hne hα hU
  simp only [nonDefinedMatch, dotted, List.any_cons, List.any_nil, hm, hd]
  cases dotClass L <;> simp [DC.inPat]

/-- **a dotted word passes every check**, whatever the context, as long as the text after it
does not continue into an intrinsic dotted word -/
theorem segC_dotted (prev : Option Char) (L after : Str) (hne : L ≠ []) (hα : L.all isAlpha = true)
    (hU : upper L = L) (hd : dotAfterOK after) : segC prev (.word (.dotted L) (dotted L)) after = true := by
  have hdw := fun X => dotWord_dotted L X hne hα
  rw [hU] at hdw
  have hlen : (dotted L).length = L.length + 2 := by simp [dotted]
  have htxt : ∀ X, dotted L ++ X = '.' :: L ++ '.' :: X := by intro X; simp [dotted]
  simp only [segC, segOK, Bool.and_eq_true, Bool.not_eq_true', beq_iff_eq, List.all_eq_true, bne_iff_ne, ne_eq]
  refine ⟨⟨⟨⟨⟨⟨?_, ?_⟩, ?_⟩, ?_⟩, ?_⟩, ?_⟩, ?_⟩
  · simp [dotted]
  · intro q _
    simp only [inCls]
    by_cases hin : (dotClass L).inPat q = true
    · simp only [hin, ↓reduceIte, htxt, matchAt_dotted q prev L after hne hα hU, hlen, beq_self_eq_true]
    · have hqd : q ≠ .defined := by
        intro h; subst h; simp [DC.inPat] at hin
      have htol : tolerated (.dotted L) q = false := by simp [tolerated]
      simp only [hin, htol, Bool.false_eq_true, ↓reduceIte]
      have e : dotted L = ['.'] ++ (L ++ ['.']) := by simp [dotted]
      rw [e, noHit_append, noHit_append]
      simp only [Bool.and_eq_true]
      refine ⟨?_, noHit_quiet q L _ _ (quietS_alpha hα), ?_⟩
      · simp only [noHit, List.cons_append, List.nil_append, List.append_assoc, Bool.and_true,
          Option.isNone_iff_eq_none]
        have := matchAt_dotted q prev L after hne hα hU
        simp only [List.cons_append] at this
        rw [this]
        simp [hin]
      · simp only [noHit, List.cons_append, List.nil_append, Bool.and_true, Option.isNone_iff_eq_none]
        exact matchAt_lastDot q hqd _ after hd
  · rw [strip_dotted L hα, upper_dotted L hU, nonDefined_dotted L hne hα hU]
  · have := hdw []
    simp only [dotted, tokAt, List.cons_append] at this ⊢
    rw [this]
    simp
  · rfl
  · have : dotted L = ('.' :: L) ++ ['.'] := by simp [dotted]
    rw [this, endsBlank_append (by simp)]
    decide
  · rw [htxt]
    have := hdw after
    simp only [tokAt, List.cons_append] at this ⊢
    rw [this]
    simp [hlen]

end Fp.ExprLex
