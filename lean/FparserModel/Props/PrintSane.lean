import FparserModel.Proofs.PrintSaneMin
import FparserModel.Proofs.PrintSaneTree
import FparserModel.Proofs.PrintSaneGenerated
import FparserModel.Proofs.BlockGenerated
import FparserModel.Props.Print
/-!
# PrintSane — `Tree.sane` DERIVED from the block matcher (C01, C02, C11)

`Props/Print.lean` proves its theorems for *sane* trees (no block with an empty content, no
WHERE / IF / CASE block with a single element).  Here the hypothesis is discharged for every tree the
block matcher (`Fp.Block.run`) returns, for EVERY class table and EVERY leaf oracle:

* `matched_block_min` — every node has at least `nodeMin` elements: 2 for a `BlockBase.match` class with
  a start class and an end class, 1 for every other `BlockBase.match` class / `Main_Program0` /
  `Component_Part`, the length of the sequence for the shared-DO classes, 0 for `Program`;
* `matched_block_nonempty`, `matched_special_blocks_have_two` — the two readings the printer needs;
  `special_rows_2003/2008` (Proofs/PrintSaneGenerated.lean): the WHERE / IF / CASE / label-DO /
  action-term-DO classes of the live tables ARE start-and-end classes;
* the EXCEPTION: `Program.match` returns whatever it collected, an input without any statement gives
  `Program()` with an EMPTY content (`program_empty_witness`, replayed on the real parser by
  `py/replay_printsane.py`; `str()` of it is `""`).  It is the only one: `program_empty_only_on_empty_input`,
  `zero_min_only_program_2003/2008`, and no class calls a `Program` class (`no_program_callee_*`), so
  the empty node can only be the root;
* `parsed_tree_sane` and the Print theorems without the `sane` hypothesis:
  `parsed_print_lines_eq_frontier`, `parsed_print_comments_in_place` (no exception at all),
  `parsed_print_tokens_lift`; `*_2003` / `*_2008`: the instances for the generated tables.
-/
namespace Fp.Print.Props
open Fp Fp.Print

/-! ## 1. the guaranteed content length of every matched block -/

/-- EVERY class, table, oracle: every node of a returned tree is a node class of the table and has at
    least `nodeMin` elements -/
theorem matched_block_min (env : Block.Env) (fuel : Nat) (c : Block.Cls) (st st' : Block.St)
    (t : Block.Tree) (h : Block.run env fuel c st = (.tree t, st')) :
    ∀ p ∈ t.nodeLens, ∃ n, Block.nodeMin env.tbl p.1 = some n ∧ n ≤ p.2 := by
  intro p hp
  exact (Block.MOK_nodeLens t
    (Block.run_MOK env (fun _ => True) (Block.closed_true _) fuel c trivial st st' t h) p hp).2

/-- every block node of a returned tree has a NON-EMPTY content — except `Program` nodes
    (`program_empty_witness`).  `hseq`: the shared-DO classes list at least one class
    (`Outer/Inner_Shared_Do_Construct.match` return one element per class). -/
theorem matched_block_nonempty (env : Block.Env) (fuel : Nat) (c : Block.Cls) (st st' : Block.St)
    (t : Block.Tree)
    (hseq : ∀ d cs subs, env.tbl.kind d = .seqNR cs subs → cs ≠ [])
    (h : Block.run env fuel c st = (.tree t, st')) :
    ∀ p ∈ t.nodeLens, Block.isProgramCls env.tbl p.1 = false → 1 ≤ p.2 := by
  intro p hp hnp
  obtain ⟨n, hn, hle⟩ := matched_block_min env fuel c st st' t h p hp
  refine Nat.le_trans ?_ hle
  unfold Block.nodeMin at hn
  unfold Block.isProgramCls at hnp
  split at hn
  · cases hn; unfold Block.cfgMin; split <;> omega
  · cases hn; unfold Block.cfgMin; split <;> omega
  · cases hn; omega
  · rename_i cs subs hk
    cases hn
    have := hseq _ cs subs hk
    cases cs with
    | nil => exact absurd rfl this
    | cons a r => simp
  · rename_i hk; rw [hk] at hnp; cases hnp
  · cases hn

/-- blocks of a `BlockBase.match` class with a start class AND an end class (the WHERE / IF / CASE
    constructs, label-DO, action-term DO, … : `special_rows_2003/2008`) have at least an opener and
    an END / terminating statement -/
theorem matched_special_blocks_have_two (env : Block.Env) (fuel : Nat) (c : Block.Cls)
    (st st' : Block.St) (t : Block.Tree) (h : Block.run env fuel c st = (.tree t, st')) :
    ∀ p ∈ t.nodeLens, ∀ cfg subs, env.tbl.kind p.1 = .block cfg subs →
      cfg.start.isSome = true → cfg.end_.isSome = true → 2 ≤ p.2 := by
  intro p hp cfg subs hk hs he
  obtain ⟨n, hn, hle⟩ := matched_block_min env fuel c st st' t h p hp
  simp only [Block.nodeMin, hk, Block.cfgMin, hs, he, Bool.and_self, if_true, Option.some.injEq] at hn
  omega

/-- … `Component_Part` (`.many`): at least one component -/
theorem matched_component_part_nonempty (env : Block.Env) (fuel : Nat) (c : Block.Cls)
    (st st' : Block.St) (t : Block.Tree) (h : Block.run env fuel c st = (.tree t, st')) :
    ∀ p ∈ t.nodeLens, ∀ item subs, env.tbl.kind p.1 = .many item subs → 1 ≤ p.2 := by
  intro p hp item subs hk
  obtain ⟨n, hn, hle⟩ := matched_block_min env fuel c st st' t h p hp
  simp only [Block.nodeMin, hk, Option.some.injEq] at hn
  omega

/-! ### the exception: `Program` on an input without statements -/

/-- the small table of `Props/Block.lean` (0 = Program) on a source that is blank to its end -/
def envBlank : Block.Env := { Block.W.env { programContinues := true } (fun _ _ => Block.W.ans .none) with blankEof := true }

/-- WITNESS (replayed on the real parser: `Program(FortranStringReader(""))` is `Program()`,
    `str()` of it is `""`): `Program.match` returns an EMPTY content on an empty input; the tree is
    not sane and its printed text has a line that belongs to no leaf -/
theorem program_empty_witness :
    (match (Block.run envBlank 12 0 (Block.St.init [])).1 with
      | .tree t => t.nodeLens == [(0, 0)] && !(ofBlock LC t).sane TC
          && ((printTree TC [] (ofBlock LC t)).map (·.src) == [Src.empty 0])
          && (tofortran TC false [] (ofBlock LC t) == [])
      | _ => false) = true := by
  decide +kernel

/-- a `Program` node with an empty content is returned only when NOTHING was consumed, and (repaired
    `Program.match`, or no fall-back to `Main_Program0`) the input had no item at all -/
theorem program_empty_only_on_empty_input (env : Block.Env) (fuel : Nat) (c unit main0 : Block.Cls)
    (st st' : Block.St) (hk : env.tbl.kind c = .program unit main0 [])
    (h : Block.run env (fuel + 1) c st = (.tree (.node c []), st')) (hd : Block.D st' = Block.D st)
    (hfb : env.tbl.quirks.programContinues = true ∨ Block.FB st' = Block.FB st) :
    st.stream.all = [] := by
  have h1 := Block.frontier_eq_consumed env (fuel + 1) c st st' _ h hd
  have h2 := Block.program_consumes_all env fuel c unit main0 st st' _ hk h hfb
  simpa [Block.Tree.frontier, Block.frontierL, h2] using h1

/-! ## 2. `sane` for every parsed tree -/

/-- which roots: a class of `R`, or a `Program` class whose callees are in `R`, which prints through
    a printer that tests `len(content) > 1`, with a non-empty content -/
inductive SaneRoot (env : Block.Env) (T : Tbl) (R : Block.Cls → Prop) (c : Block.Cls) (t : Block.Tree) : Prop
  | cls (h : R c)
  | program (unit main0 : Block.Cls) (subs : List Block.Cls)
      (hk : env.tbl.kind c = .program unit main0 subs) (hcal : ∀ d ∈ Block.callees env.tbl c, R d)
      (hp : (T.printer c).endsAlways = false) (hne : t ≠ .node c [])

/-- THE COMPOSITION: a tree returned by the block matcher, read as a printer tree, is sane — for every
    class table `env.tbl`, every oracle, every printer table `T` that corresponds to the class table
    (`SaneCorr`) on a set `R` of classes closed under calls -/
theorem parsed_tree_sane (L : Block.Cls → Block.Item → Leaf) (env : Block.Env) (T : Tbl)
    (R : Block.Cls → Prop) (hcl : Block.Closed R env.tbl) (hcorr : SaneCorr env.tbl T R)
    (fuel : Nat) (c : Block.Cls) (st st' : Block.St) (t : Block.Tree)
    (hroot : SaneRoot env T R c t)
    (h : Block.run env fuel c st = (.tree t, st')) : (ofBlock L t).sane T = true := by
  cases hroot with
  | cls hc => exact sane_of_MOK hcorr L t (Block.run_MOK env R hcl fuel c hc st st' t h)
  | program unit main0 subs hk hcal hp hne =>
    exact sane_of_program hcorr L c hp t
      (Block.run_program_MOK env R hcl fuel c unit main0 subs hk hcal st st' t h) hne

/-- even with an empty `Program` the leaves behind the printed lines are the frontier -/
theorem parsed_lineLeaves (L : Block.Cls → Block.Item → Leaf) (env : Block.Env) (T : Tbl)
    (R : Block.Cls → Prop) (hcl : Block.Closed R env.tbl) (hcorr : SaneCorr env.tbl T R)
    (fuel : Nat) (c unit main0 : Block.Cls) (subs : List Block.Cls)
    (hk : env.tbl.kind c = .program unit main0 subs) (hcal : ∀ d ∈ Block.callees env.tbl c, R d)
    (hp : (T.printer c).endsAlways = false) (st st' : Block.St) (t : Block.Tree)
    (h : Block.run env fuel c st = (.tree t, st')) (tab : Str) :
    lineLeaves (printTree T tab (ofBlock L t)) = (ofBlock L t).frontier := by
  by_cases hne : t = .node c []
  · subst hne
    simp [ofBlock, ofBlockL, printTree, lineLeaves, Src.leaf?, Tree.frontier, frontierL]
  · exact lineLeaves_printTree T tab _
      (parsed_tree_sane L env T R hcl hcorr fuel c st st' t (.program unit main0 subs hk hcal hp hne) h)

/-! ## 3. the Print theorems for parsed trees, without the `sane` hypothesis -/

/-- C02 / C01: the printed lines of a parsed tree are its leaves, each once, in order -/
theorem parsed_print_lines_eq_frontier (L : Block.Cls → Block.Item → Leaf) (env : Block.Env) (T : Tbl)
    (R : Block.Cls → Prop) (hcl : Block.Closed R env.tbl) (hcorr : SaneCorr env.tbl T R)
    (fuel : Nat) (c : Block.Cls) (st st' : Block.St) (t : Block.Tree) (hroot : SaneRoot env T R c t)
    (h : Block.run env fuel c st = (.tree t, st')) (tab : Str) :
    (printTree T tab (ofBlock L t)).map (·.src) = (ofBlock L t).frontier.map Src.leaf :=
  print_lines_eq_frontier T tab _ (parsed_tree_sane L env T R hcl hcorr fuel c st st' t hroot h)

/-- … and the real printer does not raise IndexError on it -/
theorem parsed_prints (L : Block.Cls → Block.Item → Leaf) (env : Block.Env) (T : Tbl)
    (R : Block.Cls → Prop) (hcl : Block.Closed R env.tbl) (hcorr : SaneCorr env.tbl T R)
    (fuel : Nat) (c : Block.Cls) (st st' : Block.St) (t : Block.Tree) (hroot : SaneRoot env T R c t)
    (h : Block.run env fuel c st = (.tree t, st')) (tab : Str) :
    printTree? T tab (ofBlock L t) = some (printTree T tab (ofBlock L t)) :=
  sane_prints T tab _ (parsed_tree_sane L env T R hcl hcorr fuel c st st' t hroot h)

/-- C11 / C14: a successful `Program` (repaired variant): the comment (directive, include, cpp)
    lines of the printed text are the comment items of the input, each once, in source order —
    NO `sane` hypothesis and no exception (an empty `Program` prints no leaf at all) -/
theorem parsed_print_comments_in_place (p : Block.Item → Bool) (q : Leaf → Bool)
    (L : Block.Cls → Block.Item → Leaf) (hq : ∀ c i, q (L c i) = p i) (hid : ∀ c i, (L c i).item = i.id)
    (env : Block.Env) (T : Tbl) (R : Block.Cls → Prop) (hcl : Block.Closed R env.tbl)
    (hcorr : SaneCorr env.tbl T R) (fuel : Nat) (c unit main0 : Block.Cls) (st st' : Block.St)
    (t : Block.Tree) (hk : env.tbl.kind c = .program unit main0 [])
    (hcal : ∀ d ∈ Block.callees env.tbl c, R d) (hp : (T.printer c).endsAlways = false)
    (hquirk : env.tbl.quirks.programContinues = true)
    (h : Block.run env (fuel + 1) c st = (.tree t, st')) (hd : Block.D st' = Block.D st) (tab : Str) :
    ((lineLeaves (printTree T tab (ofBlock L t))).filter q).map (·.item)
      = (Block.itemsOf p st.stream.all).map (·.id) := by
  rw [parsed_lineLeaves L env T R hcl hcorr (fuel + 1) c unit main0 [] hk hcal hp st st' t h tab,
    Block.comments_once_in_order p env fuel c unit main0 st st' t hk hquirk h hd,
    frontier_ofBlock, ← leafPairs_snd]
  unfold Block.itemsOf
  generalize leafPairs t = ps
  induction ps with
  | nil => rfl
  | cons a r ih =>
    simp only [List.map_cons, List.filter_cons, hq]
    by_cases h : p a.2 = true
    · simp [h, hid, ih]
    · simp [h, ih]

/-- lifting per-statement token theorems to every parsed tree -/
theorem parsed_print_tokens_lift {τ : Type} (tokLine : Str → List τ) (srcToks : Leaf → List τ)
    (L : Block.Cls → Block.Item → Leaf) (env : Block.Env) (T : Tbl)
    (R : Block.Cls → Prop) (hcl : Block.Closed R env.tbl) (hcorr : SaneCorr env.tbl T R)
    (fuel : Nat) (c : Block.Cls) (st st' : Block.St) (t : Block.Tree) (hroot : SaneRoot env T R c t)
    (h : Block.run env fuel c st = (.tree t, st'))
    (isfix : Bool) (tab : Str) (htab : ∀ ch ∈ tab, ch = ' ')
    (hleaf : ∀ l ∈ (ofBlock L t).frontier, ∀ tb : Str, (∀ ch ∈ tb, ch = ' ') →
      tokLine (l.str tb isfix) = srcToks l)
    (hnl : ∀ ln ∈ printTree T tab (ofBlock L t), '\n' ∉ ln.str isfix) :
    tokText tokLine (tofortran T isfix tab (ofBlock L t)) = (ofBlock L t).frontier.flatMap srcToks :=
  print_tokens_lift tokLine srcToks T isfix tab _
    (parsed_tree_sane L env T R hcl hcorr fuel c st st' t hroot h) htab hleaf hnl

/-! ## 4. the generated tables -/

/-- the set `R` for the live tables: every class but `Program` -/
theorem closed_2003 : Block.Closed (Block.NotProgram Block.Generated.F2003.table) Block.Generated.F2003.table :=
  Block.closed_notProgram (Block.noProgramCallee_spec no_program_callee_2003 Block.leaf_beyond_2003)
theorem closed_2008 : Block.Closed (Block.NotProgram Block.Generated.F2008.table) Block.Generated.F2008.table :=
  Block.closed_notProgram (Block.noProgramCallee_spec no_program_callee_2008 Block.leaf_beyond_2008)

/-- THE CORRESPONDENCE holds between the generated block tables and the generated printer table
    (read through the class names: `T2003`, `T2008`) -/
theorem sane_corr_2003 : SaneCorr Block.Generated.F2003.table T2003 (Block.NotProgram Block.Generated.F2003.table) :=
  saneCorr_of_check sane_corr_check_2003 Block.leaf_beyond_2003
theorem sane_corr_2008 : SaneCorr Block.Generated.F2008.table T2008 (Block.NotProgram Block.Generated.F2008.table) :=
  saneCorr_of_check sane_corr_check_2008 Block.leaf_beyond_2008

/-- F2003 parser: `Program(reader)` (any oracle, any input) returns a sane tree unless it is `Program()` -/
theorem parsed_program_sane_2003 (L : Block.Cls → Block.Item → Leaf) (env : Block.Env)
    (htbl : env.tbl = Block.Generated.F2003.table) (fuel : Nat) (st st' : Block.St) (t : Block.Tree)
    (h : Block.run env fuel Block.Generated.F2003.program st = (.tree t, st'))
    (hne : t ≠ .node Block.Generated.F2003.program []) : (ofBlock L t).sane T2003 = true := by
  have hk : Block.programShape env.tbl Block.Generated.F2003.program = true := by
    rw [htbl]; exact Block.program_shape_2003
  unfold Block.programShape at hk
  split at hk
  · rename_i unit main0 hkind
    refine parsed_tree_sane L env T2003 (Block.NotProgram env.tbl) (by rw [htbl]; exact closed_2003)
      (by rw [htbl]; exact sane_corr_2003) fuel _ st st' t
      (.program unit main0 [] hkind ?_ ?_ hne) h
    · rw [htbl]
      exact Block.noProgramCallee_spec no_program_callee_2003 Block.leaf_beyond_2003 _
    · exact program_printer_of_check sane_corr_check_2003 (by rw [← htbl]; exact hkind) program_lt_2003
  · cases hk

/-- F2008 parser -/
theorem parsed_program_sane_2008 (L : Block.Cls → Block.Item → Leaf) (env : Block.Env)
    (htbl : env.tbl = Block.Generated.F2008.table) (fuel : Nat) (st st' : Block.St) (t : Block.Tree)
    (h : Block.run env fuel Block.Generated.F2008.program st = (.tree t, st'))
    (hne : t ≠ .node Block.Generated.F2008.program []) : (ofBlock L t).sane T2008 = true := by
  have hk : Block.programShape env.tbl Block.Generated.F2008.program = true := by
    rw [htbl]; exact Block.program_shape_2008
  unfold Block.programShape at hk
  split at hk
  · rename_i unit main0 hkind
    refine parsed_tree_sane L env T2008 (Block.NotProgram env.tbl) (by rw [htbl]; exact closed_2008)
      (by rw [htbl]; exact sane_corr_2008) fuel _ st st' t
      (.program unit main0 [] hkind ?_ ?_ hne) h
    · rw [htbl]
      exact Block.noProgramCallee_spec no_program_callee_2008 Block.leaf_beyond_2008 _
    · exact program_printer_of_check sane_corr_check_2008 (by rw [← htbl]; exact hkind) program_lt_2008
  · cases hk

/-- any OTHER class of the F2008 parser called on a reader (`Subroutine_Subprogram(reader)`, …): sane,
    no exception -/
theorem parsed_class_sane_2008 (L : Block.Cls → Block.Item → Leaf) (env : Block.Env)
    (htbl : env.tbl = Block.Generated.F2008.table) (fuel : Nat) (c : Block.Cls)
    (hc : c ≠ Block.Generated.F2008.program) (st st' : Block.St) (t : Block.Tree)
    (h : Block.run env fuel c st = (.tree t, st')) : (ofBlock L t).sane T2008 = true := by
  refine parsed_tree_sane L env T2008 (Block.NotProgram env.tbl) (by rw [htbl]; exact closed_2008)
    (by rw [htbl]; exact sane_corr_2008) fuel c st st' t (.cls ?_) h
  rw [htbl]
  unfold Block.NotProgram
  by_cases hlt : c < Block.Generated.F2008.names.size
  · have : ∀ d, d < Block.Generated.F2008.names.size → d ≠ Block.Generated.F2008.program →
        Block.isProgramCls Block.Generated.F2008.table d = false := by decide +kernel
    exact this c hlt hc
  · simp [Block.isProgramCls, Block.leaf_beyond_2008 c (Nat.le_of_not_lt hlt)]

/-- the printed lines of a parsed F2008 program are its statements, comments, … : each once, in order -/
theorem parsed_print_lines_eq_frontier_2008 (L : Block.Cls → Block.Item → Leaf) (env : Block.Env)
    (htbl : env.tbl = Block.Generated.F2008.table) (fuel : Nat) (st st' : Block.St) (t : Block.Tree)
    (h : Block.run env fuel Block.Generated.F2008.program st = (.tree t, st'))
    (hne : t ≠ .node Block.Generated.F2008.program []) (tab : Str) :
    (printTree T2008 tab (ofBlock L t)).map (·.src) = (ofBlock L t).frontier.map Src.leaf :=
  print_lines_eq_frontier T2008 tab _ (parsed_program_sane_2008 L env htbl fuel st st' t h hne)

/-! ## non-vacuity -/

/-- the run of `Props/Print.lean` (`subroutine a` / comment / `end subroutine a` on the small table
    `Fp.Block.W`, 0 = Program): `R` = "not a Program class", the printer table `TC` -/
def envW : Block.Env := Block.W.env { programContinues := true } orcC

theorem leaf_beyond_W (c : Block.Cls) (hc : 13 ≤ c) : envW.tbl.kind c = .leaf := by
  show Block.W.kind c = .leaf
  unfold Block.W.kind
  split <;> first | rfl | (exfalso; revert hc; decide)

theorem no_program_callee_W : ∀ c, ∀ d ∈ Block.callees envW.tbl c, Block.NotProgram envW.tbl d :=
  Block.noProgramCallee_spec (n := 13) (by decide) leaf_beyond_W

theorem closed_W : Block.Closed (Block.NotProgram envW.tbl) envW.tbl :=
  Block.closed_notProgram no_program_callee_W

theorem corr_W : SaneCorr envW.tbl TC (Block.NotProgram envW.tbl) :=
  saneCorr_of_check (n := 13) (by decide) leaf_beyond_W

/-- hypotheses of `parsed_tree_sane` / `parsed_print_lines_eq_frontier` / `parsed_print_tokens_lift`
    on a real run: the root is the `Program` class 0 of `Fp.Block.W` -/
example (t : Block.Tree) (st' : Block.St)
    (h : Block.run envW 12 0 (Block.St.init itemsC) = (.tree t, st')) (hne : t ≠ .node 0 []) :
    (ofBlock LC t).sane TC = true :=
  parsed_tree_sane LC envW TC _ closed_W corr_W 12 0 _ st' t
    (.program 1 7 [] rfl (no_program_callee_W 0) rfl hne) h

/-- … of `parsed_print_comments_in_place` -/
example (t : Block.Tree) (st' : Block.St)
    (h : Block.run envW (11 + 1) 0 (Block.St.init itemsC) = (.tree t, st'))
    (hd : Block.D st' = Block.D (Block.St.init itemsC)) :
    ((lineLeaves (printTree TC [] (ofBlock LC t))).filter (fun l => !l.stmt)).map (·.item)
      = (Block.itemsOf (fun i => i.kind == .comment) (Block.St.init itemsC).stream.all).map (·.id) :=
  parsed_print_comments_in_place (fun i => i.kind == .comment) (fun l => !l.stmt) LC
    (fun c i => by cases i with | mk id kind d => cases kind <;> rfl) (fun _ _ => rfl)
    envW TC _ closed_W corr_W 11 0 1 7 _ st' t rfl (no_program_callee_W 0) rfl rfl h hd []

/-- … a class of `R` as the root: the subroutine class 2 -/
example (t : Block.Tree) (st st' : Block.St) (h : Block.run envW 12 2 st = (.tree t, st')) :
    (ofBlock LC t).sane TC = true :=
  parsed_tree_sane LC envW TC _ closed_W corr_W 12 2 st st' t (.cls rfl) h

/-- … and the conclusion on that run, computed (`runC` of Props/Print.lean is the same run) -/
example :
    (match (Block.run envW 12 0 (Block.St.init itemsC)).1 with
      | .tree t => (ofBlock LC t).sane TC && t.nodeLens == [(0, 1), (2, 3)]
      | _ => false) = true := by
  decide +kernel

/-- the live tables: a node class of every kind with its guaranteed length -/
example : Block.nodeMin Block.Generated.F2008.table 104 = some 2     -- If_Construct
    ∧ Block.nodeMin Block.Generated.F2008.table 87 = some 1          -- Execution_Part (no end class)
    ∧ Block.nodeMin Block.Generated.F2008.table 162 = some 1         -- Specification_Part (no start, no end)
    ∧ Block.nodeMin Block.Generated.F2008.table 126 = some 1         -- Main_Program0 (END PROGRAM only)
    ∧ Block.nodeMin Block.Generated.F2008.table 25 = some 1          -- Component_Part
    ∧ Block.nodeMin Block.Generated.F2008.table 137 = some 3         -- Outer_Shared_Do_Construct
    ∧ Block.nodeMin Block.Generated.F2008.table 148 = some 0         -- Program
    ∧ T2008.printer 104 = .ifC ∧ T2008.printer 1 = .actionTerm ∧ T2008.isEnd 69 = true := by
  decide +kernel

end Fp.Print.Props

#print axioms Fp.Print.Props.matched_block_min
#print axioms Fp.Print.Props.matched_block_nonempty
#print axioms Fp.Print.Props.matched_special_blocks_have_two
#print axioms Fp.Print.Props.matched_component_part_nonempty
#print axioms Fp.Print.Props.program_empty_witness
#print axioms Fp.Print.Props.program_empty_only_on_empty_input
#print axioms Fp.Print.Props.parsed_tree_sane
#print axioms Fp.Print.Props.parsed_lineLeaves
#print axioms Fp.Print.Props.parsed_print_lines_eq_frontier
#print axioms Fp.Print.Props.parsed_prints
#print axioms Fp.Print.Props.parsed_print_comments_in_place
#print axioms Fp.Print.Props.parsed_print_tokens_lift
#print axioms Fp.Print.Props.closed_2003
#print axioms Fp.Print.Props.closed_2008
#print axioms Fp.Print.Props.sane_corr_2003
#print axioms Fp.Print.Props.sane_corr_2008
#print axioms Fp.Print.Props.parsed_program_sane_2003
#print axioms Fp.Print.Props.parsed_program_sane_2008
#print axioms Fp.Print.Props.parsed_class_sane_2008
#print axioms Fp.Print.Props.parsed_print_lines_eq_frontier_2008
#print axioms Fp.Print.special_rows_2003
#print axioms Fp.Print.special_rows_2008
#print axioms Fp.Print.zero_min_only_program_2003
#print axioms Fp.Print.zero_min_only_program_2008
#print axioms Fp.Print.node_cids_2003
#print axioms Fp.Print.node_cids_2008
