"""Co-simulation of the Rest model (lean/FparserModel/Rest.lean) against the real hand-written rule
classes of fparser/two/Fortran2003.py that no other slice pins, with the REAL child classes as oracle.

For every modelled class, both standards (`ParserFactory().create(std=...)`: the children differ),
every sample string:

* the real `cls.match(string)` runs with `Base.__new__` wrapped, recording the DIRECT child calls
  (child class, text handed over, node / NoMatchError / other exception);
* the compiled model is asked `rest.match cls text <answered calls>`; whenever it needs a child call
  that is not answered yet it replies `ask cls text`, the harness answers it from the recording and
  asks again: the sequence of `ask`s is the model's call sequence;
* required: the same child calls in the same order with the same texts, the same outcome (tuple /
  the child object itself / no match / WHICH exception escapes), item-wise the same tuple (None /
  str / the very object the k-th call returned), and, when the class accepts, the model's `tostr` of
  those items == `str(node)` of the real object;
* leaf round trip on the real code (statistics; not part of the exit code).

Samples: nodes of the modelled classes in generated programs (`fv.gen.gen_program`), statements of
`gen.G(...)`: `spec_misc()`, `io_stmt()`, `action()`, `type_decl()`, `derived_type()`, `use_stmt()`
(every statement is offered to every statement-level class whose keyword it starts with, and to
the keyword-less ones), a shape generator covering every optional part of every class, the probes,
and for each of them: EVERY single deletion / duplication of a parenthesis, one-token deletions /
duplications, case and blank variants.  Deterministic in (seed, n); wall-clock budget `--max-seconds`
(default 10 + 0.2*n).

NEGATIVE CONTROL (every invocation): (0) unmodified code and driver -> no disagreement on the fixed
cases; (1..k) the real method replaced IN THIS PROCESS by a copy of its own source with one edit:
    Flush_Stmt.match           the `endswith(")")` guard dropped
    Stmt_Function_Stmt.match   `line.find("(")` -> `rfind`
    Bind_Stmt.match            `string.find(")")` -> `rfind`
    Target_Stmt.match          the `::` made mandatory
    Position_Spec.match        the keyword list extended (`ID`)
    Wait_Spec.match            the nested keyword list aliased to `["END", "EOR"]`
    Cray_Pointer_Decl.match    the repair REVERTED (`if not pointee_str: return None` dropped: IndexError on `(a,)` again)
    Data_Edit_Desc_C1002.match the repair REVERTED (`if not my_str: return None` dropped: IndexError on `E` again)
    Use_Stmt._match            the repair REVERTED (`elif line[:idx].strip(): return None` dropped: `use x :: m` accepted again)
    Return_Stmt.tostr          `% self.items` -> `% self.items[0].string`
    Rename.match               `split("=>", 1)` -> `rsplit`
each must be REPORTED on at least one fixed case; (last) a flipped driver answer -> reported.

    timeout 600 /venv/bin/python -m fv.cosim_rest --seed 0 --n 200
"""
import argparse
import collections
import os
import random
import sys
import time

from fv import repo
from fv import model as fvmodel

repo.activate()

from fparser.two import utils as U                     # noqa: E402
from fparser.two import Fortran2003 as F3              # noqa: E402
from fparser.two.parser import ParserFactory           # noqa: E402
from fv.cosim_iostmt import (Recorder, build_obj, time_limit, CaseTimeout, admissible,   # noqa: E402
                             tokens_of, patched, set_std)

STDS = ("f2003", "f2008")

MODELLED = [
    "Flush_Stmt", "Backspace_Stmt", "Endfile_Stmt", "Rewind_Stmt", "Position_Spec", "Flush_Spec",
    "Wait_Spec", "Return_Stmt", "Bind_Stmt", "Target_Stmt", "Target_Entity_Decl", "Type_Param_Decl",
    "Enumerator", "Type_Param_Def_Stmt", "Stmt_Function_Stmt", "Where_Construct_Stmt",
    "Declaration_Type_Spec", "Intrinsic_Type_Spec", "Rename", "Use_Stmt", "Include_Stmt",
    "Deferred_Shape_Spec", "Allocate_Shape_Spec", "Explicit_Shape_Spec", "Assumed_Size_Spec",
    "Cray_Pointer_Decl", "Cray_Pointer_Stmt", "Io_Implied_Do", "Io_Implied_Do_Control", "Char_Expr",
    "Default_Char_Expr", "Int_Expr", "Logical_Expr", "Numeric_Expr", "Stop_Code", "Defined_Op",
    "Data_Edit_Desc", "Data_Edit_Desc_C1002", "Hollerith_Item", "Position_Edit_Desc",
    "Format_Item_C1002",
]

P_DESCS = ["F", "E", "EN", "ES", "D", "G"]


# ------------------------------------------------------------------------------- real side

def real_match(cls, text):
    """-> (outcome, result, calls); outcome = ok | pass | nomatch | raises:<Type>"""
    with Recorder() as rec:
        try:
            r = cls.match(text)
            if r is None:
                out = "nomatch"
            elif isinstance(r, tuple):
                out = "ok"
            elif isinstance(r, U.Base):
                out = "pass"
            else:
                out = "raises:AssertionError"      # Base.__new__: `raise AssertionError(repr(result))`
        except U.NoMatchError:
            r, out = None, "nomatch"
        except Exception as e:  # noqa: BLE001
            r, out = None, "raises:" + type(e).__name__
    return out, r, rec.calls


def p_ok(node):
    """the `P` test of Format_Item_C1002.match on the right-hand object"""
    try:
        if not isinstance(node, F3.Format_Item):
            return False
        d = node.items[1]
        if not isinstance(d, (F3.Data_Edit_Desc, F3.Data_Edit_Desc_C1002)):
            return False
        return d.items[0].upper() in P_DESCS
    except Exception:  # noqa: BLE001
        return False


def answer_fields(call):
    """the 5 answer fields of a recorded call: str rhsStr head heads flag"""
    name, text, kind, r = call
    if kind == "nomatch":
        return ["", "", "-", "", ""]
    if kind == "raises":
        return ["", "", "-", "", r]
    try:
        s = str(r)
    except Exception as e:  # noqa: BLE001
        s = "<str raises %s>" % type(e).__name__
    names = ",".join(k.__name__ for k in type(r).__mro__)
    return [s, "", "-", "", names + ";" + ("1" if p_ok(r) else "0")]


def norm_item(x):
    """class objects inside a tuple (Data_Edit_Desc's fifth entry) are compared by name"""
    if isinstance(x, type):
        return "<class %s>" % x.__name__
    return x


# ------------------------------------------------------------------------------- one sample

class Checker:
    def __init__(self, mdl):
        self.m = mdl
        self.stats = collections.Counter()
        self.per_cls = collections.Counter()
        self.per_cls_ok = collections.Counter()
        self.bad = []
        self.leaf = {}
        self.exc = {}

    def disagree(self, std, name, text, msg):
        self.stats["disagree"] += 1
        if len(self.bad) < 60:
            self.bad.append("%s %s(%r): %s" % (std, name, text, msg))

    def check(self, std, name, text):
        cls = getattr(F3, name)
        self.stats["samples"] += 1
        self.per_cls[name] += 1
        out, result, calls = real_match(cls, text)
        table, asked = [], []
        reply = None
        for _round in range(200):
            req = ["rest.match", name, text]
            for (n, t, k, f) in table:
                req += [n, t, k] + f
            reply = self.m.ask(*req)
            if reply[0] != "ask":
                break
            qn, qt = reply[1], reply[2]
            asked.append((qn, qt))
            idx = None
            for i, c in enumerate(calls):
                if c[0] == qn and c[1] == qt:
                    idx = i
                    break
            if idx is None:
                self.disagree(std, name, text, "model calls %s(%r), real calls: %r"
                              % (qn, qt, [(c[0], c[1], c[2]) for c in calls]))
                return
            c = calls[idx]
            table.append((qn, qt, c[2], answer_fields(c)))
        else:
            self.disagree(std, name, text, "ask loop did not end")
            return
        if reply[0] == "unmodelled":
            self.stats["unmodelled"] += 1
            self.disagree(std, name, text, "unmodelled")
            return
        real_seq = []
        for c in calls:
            if (c[0], c[1]) not in real_seq:
                real_seq.append((c[0], c[1]))
        if asked != real_seq:
            self.disagree(std, name, text, "call sequence: model %r, real %r" % (asked, real_seq))
            return
        if reply[0] == "nomatch":
            mout = "nomatch"
        elif reply[0] == "raises":
            e = reply[1]
            mout = "raises:" + (e[6:] if e.startswith("child:") else e)
        elif reply[0] == "pass":
            mout = "pass"
        else:
            mout = "ok"
        if out.startswith("raises:"):
            key = (name, out)
            if key not in self.exc or len(text) < len(self.exc[key][1]):
                self.exc[key] = (std, text)
        if mout != out:
            self.disagree(std, name, text, "outcome: model %s, real %s" % (mout, out))
            return
        self.stats["agree_" + out.split(":")[0]] += 1

        def key_of(obj):
            for c in calls:
                if c[3] is obj and c[2] == "ok":
                    return (c[0], c[1])
            return None

        if out == "pass":
            i = int(reply[1])
            if key_of(result) is None or key_of(result) != (table[i][0], table[i][1]):
                self.disagree(std, name, text, "pass: model entry %d, real %r" % (i, key_of(result)))
            return
        if out != "ok":
            return
        self.per_cls_ok[name] += 1
        try:
            obj = build_obj(cls, text, result)
        except Exception as e:  # noqa: BLE001
            self.disagree(std, name, text, "real init raises %s" % type(e).__name__)
            return
        if isinstance(obj, U.StringBase) and not hasattr(obj, "items"):
            ritems = [obj.string]
        else:
            ritems = [norm_item(x) for x in obj.items]
        n = int(reply[1])
        pos = 2
        mitems = []
        for _ in range(n):
            k = reply[pos]
            if k == "N":
                mitems.append(("N",))
                pos += 1
            else:
                mitems.append((k, reply[pos + 1]))
                pos += 2
        tail = reply[pos:]
        ok = len(mitems) == len(ritems)
        if ok:
            for mi, ri in zip(mitems, ritems):
                if mi[0] == "N":
                    ok = ri is None
                elif mi[0] == "S":
                    ok = isinstance(ri, str) and ri == mi[1]
                elif mi[0] == "T":
                    e = table[int(mi[1])]
                    ok = key_of(ri) is not None and key_of(ri) == (e[0], e[1])
                else:
                    ok = False
                if not ok:
                    break
        if not ok:
            self.disagree(std, name, text, "items: model %r, real %r" % (mitems, ritems))
            return
        try:
            rstr = ("str", str(obj))
        except Exception as e:  # noqa: BLE001
            rstr = ("strraises", type(e).__name__)
        if tuple(tail[:2]) != rstr:
            self.disagree(std, name, text, "tostr: model %r, real %r" % (tuple(tail[:2]), rstr))
            return
        self.stats["agree_str"] += 1
        if rstr[0] == "str":
            self.leaf_roundtrip(std, name, cls, text, rstr[1])

    def leaf_roundtrip(self, std, name, cls, text, t1):
        try:
            o1 = cls(text)
            if type(o1) is not cls:
                return
            s1 = str(o1)
            o2 = cls(s1)
            good = str(o2) == s1 and type(o2) is cls
        except Exception:  # noqa: BLE001
            good = False
        self.stats["leaf_rt"] += 1
        if not good:
            self.stats["leaf_rt_fail"] += 1
            if name not in self.leaf or len(text) < len(self.leaf[name][1]):
                self.leaf[name] = (std, text)


# ------------------------------------------------------------------------------- tostr on arbitrary items

class _Txt:
    def __init__(self, t):
        self.t = t

    def __str__(self):
        return self.t


TOSTR_PROBES = [
    ("Flush_Stmt", [("T", "10"), ("T", "x")]), ("Flush_Stmt", [("N",), ("N",)]), ("Flush_Stmt", [("T", "1")]),
    ("Flush_Stmt", []), ("Rewind_Stmt", [("T", "10"), ("N",)]), ("Backspace_Stmt", [("N",), ("T", "UNIT = 1")]),
    ("Return_Stmt", []), ("Return_Stmt", [("N",), ("N",)]), ("Return_Stmt", [("T", "1"), ("T", "2")]),
    ("Bind_Stmt", [("T", "a")]), ("Bind_Stmt", [("T", "a"), ("T", "b"), ("T", "c")]),
    ("Target_Stmt", []), ("Type_Param_Def_Stmt", [("N",), ("T", "KIND")]), ("Type_Param_Def_Stmt", []),
    ("Type_Param_Def_Stmt", [("T", "(4)"), ("T", "KIND"), ("T", "k"), ("N",)]),
    ("Stmt_Function_Stmt", [("T", "f")]), ("Stmt_Function_Stmt", [("T", "f"), ("N",)]),
    ("Stmt_Function_Stmt", [("T", "f"), ("T", "x")]), ("Stmt_Function_Stmt", [("T", "f"), ("N",), ("T", "e"), ("T", "z")]),
    ("Where_Construct_Stmt", []), ("Where_Construct_Stmt", [("T", "a"), ("T", "b")]),
    ("Declaration_Type_Spec", [("S", "TYPE")]), ("Rename", [("S", ""), ("T", "a"), ("T", "b")]),
    ("Rename", [("N",), ("T", "a")]), ("Rename", [("S", "OPERATOR"), ("T", ".a."), ("T", ".b.")]),
    ("Include_Stmt", []), ("Deferred_Shape_Spec", [("N",)]), ("Explicit_Shape_Spec", [("N",)]),
    ("Explicit_Shape_Spec", [("T", "1"), ("N",)]), ("Allocate_Shape_Spec", [("N",), ("N",)]),
    ("Assumed_Size_Spec", [("N",)]), ("Assumed_Size_Spec", [("T", "a"), ("T", "b"), ("T", "c")]),
    ("Cray_Pointer_Decl", [("T", "a")]), ("Cray_Pointer_Decl", [("N",), ("T", "b")]),
    ("Cray_Pointer_Decl", [("T", "a"), ("S", "")]), ("Io_Implied_Do", [("T", "a")]),
    ("Io_Implied_Do_Control", [("T", "i"), ("T", "1"), ("T", "2")]),
    ("Io_Implied_Do_Control", [("T", "i"), ("T", "1"), ("T", "2"), ("N",), ("N",)]),
    ("Io_Implied_Do_Control", [("T", "i"), ("T", "1"), ("T", "2"), ("T", "3"), ("N",)]),
    ("Use_Stmt", [("N",), ("N",), ("T", "m"), ("S", "")]), ("Use_Stmt", [("N",), ("N",), ("N",), ("S", ""), ("N",)]),
    ("Use_Stmt", [("N",), ("N",), ("T", "m"), ("N",), ("N",)]),
    ("Use_Stmt", [("T", "INTRINSIC"), ("N",), ("T", "m"), ("S", ""), ("N",)]),
    ("Use_Stmt", [("T", "INTRINSIC"), ("S", "::"), ("T", "m"), ("S", ","), ("T", "a => b")]),
    ("Data_Edit_Desc", []), ("Data_Edit_Desc", [("S", "Q"), ("N",), ("N",), ("N",)]),
    ("Data_Edit_Desc", [("S", "I")]), ("Data_Edit_Desc", [("S", "DT"), ("N",)]),
    ("Data_Edit_Desc", [("N",), ("N",), ("N",), ("N",)]),
    ("Data_Edit_Desc", [("S", "DT"), ("T", "'a'"), ("T", "1, 2"), ("N",)]),
    ("Data_Edit_Desc_C1002", [("S", "F"), ("T", "1"), ("T", "2")]),
    ("Data_Edit_Desc_C1002", [("S", "F"), ("T", "1"), ("T", "2"), ("T", "3")]),
    ("Data_Edit_Desc_C1002", [("S", "Q"), ("T", "1"), ("T", "2"), ("N",)]),
    ("Data_Edit_Desc_C1002", [("S", "E"), ("N",), ("T", "2"), ("N",)]),
    ("Data_Edit_Desc_C1002", [("S", "G"), ("T", "1"), ("T", "2"), ("S", "")]),
    ("Hollerith_Item", []), ("Hollerith_Item", [("S", "")]), ("Hollerith_Item", [("N",)]),
    ("Hollerith_Item", [("S", "ab c")]), ("Position_Edit_Desc", [("N",)]),
    ("Position_Edit_Desc", [("T", "2"), ("S", "")]), ("Position_Edit_Desc", [("S", ""), ("S", "X")]),
    ("Format_Item_C1002", [("T", "a")]), ("Format_Item_C1002", [("N",), ("T", "a")]),
    ("Format_Item_C1002", [("T", "a"), ("T", "b")]), ("Stop_Code", [("S", "12")]),
    ("Type_Param_Decl", [("T", "k"), ("S", "=")]), ("Enumerator", [("T", "a"), ("S", "="), ("T", "1"), ("N",)]),
    ("Position_Spec", [("N",), ("T", "1")]), ("Wait_Spec", [("S", "ID"), ("T", "1")]),
    ("Target_Entity_Decl", [("T", "a"), ("T", "3"), ("N",)]),
    ("Target_Entity_Decl", [("T", "a"), ("T", "3"), ("T", "4"), ("T", "= 1")]),
    ("Intrinsic_Type_Spec", [("S", "REAL"), ("T", "(KIND = 4)")]), ("Intrinsic_Type_Spec", [("S", "REAL"), ("T", "x")]),
    ("Cray_Pointer_Stmt", [("S", "POINTER"), ("N",)]),
]


def check_tostr_probes(mdl):
    bad = []
    for name, items in TOSTR_PROBES:
        cls = getattr(F3, name)
        tup = tuple(None if i[0] == "N" else (i[1] if i[0] == "S" else _Txt(i[1])) for i in items)
        obj = object.__new__(cls)
        obj.items = tup
        if isinstance(obj, U.StringBase) and len(tup) == 1:
            obj.string = tup[0]
        try:
            real = ("str", obj.tostr())
        except Exception as e:  # noqa: BLE001
            real = ("strraises", type(e).__name__)
        req = ["rest.str", name]
        for i in items:
            req += list(i)
        rep = mdl.ask(*req)
        mod = tuple(rep[:2])
        if mod[0] == "strraises" and mod[1].startswith("child:"):
            mod = ("strraises", mod[1][6:])
        if mod != real:
            bad.append("%s%r: model %r, real %r" % (name, items, mod, real))
    return len(TOSTR_PROBES), bad


# ------------------------------------------------------------------------------- samples

PROBES = {
    "Flush_Stmt": ["flush 10", "flush(10)", "flush(unit=10, iostat=i)", "flush(10", "flush 10)", "flush(10) )",
                   "flush((10)", "flush(10))", "flush", "flush ", "flush()", "flushx", "FLUSH (UNIT = n, ERR = 99)",
                   "flush(10) 'a)", "flush('a)')", "flush (", "flush )"],
    "Backspace_Stmt": ["backspace 10", "backspace(10)", "backspace(unit=10, iostat=i)", "backspace(10", "backspace",
                       "backspace (10) x", "backspace n+1"],
    "Endfile_Stmt": ["endfile 10", "endfile(10)", "endfile(unit=10, err=9)", "endfile(10", "end file 10", "endfile"],
    "Rewind_Stmt": ["rewind 10", "rewind(10)", "rewind(unit=10, iomsg=m)", "rewind(10", "rewind", "rewind(10)(1)"],
    "Position_Spec": ["10", "unit=10", "UNIT = 10", "iostat=i", "iomsg=m", "err=99", "err=x", "id=3", "foo=1", "unit=", "=1",
                      "", "a=b=c", "end=9", "iostat = a(1)"],
    "Flush_Spec": ["10", "unit=10", "iostat=i", "iomsg=m", "err=99", "err=x", "foo=1", ""],
    "Wait_Spec": ["10", "unit=10", "end=9", "eor=9", "err=9", "END = x", "id=3", "iostat=i", "iomsg=m", "foo=1", "id=", ""],
    "Return_Stmt": ["return", "return 1", "return n+1", "returnx", "return ", "RETURN", "retur", "return (1)", "return(1",
                    "return 1)"],
    "Bind_Stmt": ["bind(c) :: a", "bind(c, name='x') :: a, /blk/", "bind(c) a", "bind(c) :: ", ":: a", "bind(c)",
                  "bind(c, name='a::b') :: x", "bind(c, name='a)b') x", "bind(c :: a", "bind(c)) :: a", "a ) b", "bind(c) ) a"],
    "Target_Stmt": ["target a", "target :: a", "target::a(10), b", "target", "targetx", "target :: ", "target a(1)(2)",
                    "target :: a(10", "target a(10))", "TARGET :: A"],
    "Target_Entity_Decl": ["a", "a(10)", "a (1:n, 2)", "a(10) ", "a(10) = 1", "a*8", "a(10", "a)", "(a)", "1a", "a(10)(2)",
                           "a(f(1), 'x)')", "a_b1 (:)", "", " a", "a()", "a ( )", "a(10))", "a((10)"],
    "Type_Param_Decl": ["k = 4", "k=kind(1.0)", "k", "=4", "k=", "k = = 4", " k = 4 ", "k == 4", "a(1) = 2"],
    "Enumerator": ["red = 1", "red", "=1", "red=", "a = b = c", " x = 1", "red = (1)", "red = (1"],
    "Type_Param_Def_Stmt": ["integer, kind :: k", "integer(kind=4), len :: n = 3, m", "integer, kind :: ", "integer kind :: k",
                            "integer, kind k", "integer, :: k", "integer(4), kind :: k", "integer*8, len :: n",
                            "integer(kind=f(1,2)), kind :: k = 'a::b'", "integer, kind :: k = f(1,2)", "integer", "integer,",
                            "INTEGER , KIND :: K", "integer(4, kind :: k", "integer(4)), kind :: k", "integer, kind :: k)"],
    "Stmt_Function_Stmt": ["f(x) = x + 1", "f() = 1", "f(x, y) = x*y", "f(x) =", "f = 1", "(x) = 1", "f(x = 1", "f(x)) = 1",
                           "f(a(1)) = x", "f (x) = g(x) == 1", "f(x) = (x", "f(x) y = 1", "f ( ) = 2", "f(x)=y=z"],
    "Where_Construct_Stmt": ["where (a > 0)", "where(a)", "where (a", "where a)", "where ()", "where ( )", "where",
                             "where (a) b = 1", "where ((a)", "where (a))", "WHERE (m(1))", "wherex(a)"],
    "Declaration_Type_Spec": ["type(t)", "TYPE ( t )", "class(t)", "class(*)", "class ( * )", "type(t(k=4))", "type t)",
                              "type(t", "class()", "type()", "types(t)", "classx(t)", "type", "real(4)", "type(t))", "type((t)"],
    "Intrinsic_Type_Spec": ["integer", "real", "real(8)", "real*8", "real (kind=4)", "character(len=10)", "character*10",
                            "double precision", "DOUBLE   PRECISION", "doubleprecision", "double complex", "doublecomplex",
                            "byte", "byte x", "logical(1)", "complex (8)", "integerx", "real 8", "double", "double precision x",
                            " double precision", "double precision ", "real(8", "real(8))", "character(len=*", "complex", "bytes"],
    "Rename": ["a => b", "a=>b", "operator(.x.) => operator(.y.)", "operator (.x.)=>operator (.y.)", "a =>", "=> b",
               "a = > b", "operator(.x.) => b", "a => operator(.y.)", "operator(.x.) => operator(.y.", "operator() => operator(.y.)",
               "operator(.x.) => operator()", "operator(.x. => operator(.y.)", "operatorx => operatory", "a => b => c",
               "operator => operator", "operator(.x.)) => operator(.y.)"],
    "Use_Stmt": ["use m", "use :: m", "use, intrinsic :: iso_c_binding", "use, non_intrinsic :: m", "use m, only: a, b",
                 "use m, only:", "use m, only : a => b", "use m, a => b", "use m, operator(.x.) => operator(.y.)", "usem",
                 "use", "use ", "use m,", "use , m", "use, :: m", "use, foo :: m", "use intrinsic m", "use ::", "use m, only a",
                 "use m, onlyx: a", "use m, only_x => b", "use m, ONLY: a", "use 'intrinsic' m", "use(m)", "use m, only: a)",
                 "use m, only: (a", "use m only: a", "use, intrinsic m", "use m, only: operator(+)", "use non_intrinsic"],
    "Include_Stmt": ["include 'a.h'", 'include "a.h"', "include'a.h'", "include 'a.h", "include a.h", "include ''",
                     "include 'a'", "include 'ab'", " include 'x.inc' ", "includex 'a.h'", "include", "include 'a b.h'",
                     "include \"it's.h\"", "include 'a.h' x", "INCLUDE 'A.H'"],
    "Deferred_Shape_Spec": [":", " :", ": ", "::", "", "1:"],
    "Allocate_Shape_Spec": ["10", "1:10", "1 : n", ":10", "1:", ":", "a(1:2):3", "f(1,2)", "'a:b'", "1:2:3", "", "(1:10", "1:10)"],
    "Explicit_Shape_Spec": ["10", "1:10", "0 : n-1", ":10", "1:", ":", "a(1:2):3", "n", "1:2:3", "", "(1:10", "1:10)", "*"],
    "Assumed_Size_Spec": ["*", "1:*", "10, *", "10, 1:*", "10, 20, 0 : *", " *", "* ", "10 *", ":*", ",*", "10,, *",
                          "a(1,2), *", "a(1,2), b(3,4):*", "10, *)", "(10, *", "1: *"],
    "Cray_Pointer_Decl": ["(a, b)", "(a, b(10))", " ( a , b ) ", "(a,)", "(a, )", "(,b)", "(a)", "(a, b, c)", "a, b", "(a, b",
                          "a, b)", "(a, b(10)", "(a, b))", "((a, b)", "()", "", " ", "(a, b(1,2))", "(a, 'x,y')"],
    "Cray_Pointer_Stmt": ["pointer (a, b)", "pointer (a, b), (c, d(10))", "pointer", "pointer a", "pointerx (a,b)",
                          "pointer :: (a, b)", "POINTER(A,B)", "pointer (a, b", "pointer a, b)"],
    "Io_Implied_Do": ["(a(i), i=1,n)", "(a(i), b(i), i = 1, n, 2)", "((a(i,j), i=1,2), j=1,3)", "(a, i=1,2)", "(a,i=1,2)",
                      "(a(i), i=1,n", "a(i), i=1,n)", "(a(i) i=1,n)", "(a(i), i 1,n)", "(x, y, z12)", "(a(i), i=1,n))",
                      "((a(i), i=1,n)", "(f(x=1), i=1,n)", "('a=b', i=1,2)", "(a(i),i=1,10)"],
    "Io_Implied_Do_Control": ["i=1,n", "i = 1, n, 2", "i=1", "i=1,2,3,4", "=1,2", "i", "i=1,", "i=f(1,2),3", "i = 1 , n",
                              "i=a=b,2", "i=1,n)", "i=(1,n", ""],
    "Char_Expr": ["'abc'", "a // b", "1", "1.0", ".true.", "x", "(1)", "-1", "+1.5", "b'01'", "o'7'", "z'F'", "(1.0, 2.0)",
                  "f(x)", "a + ", "1_4", "'a' // 'b'", ""],
    "Default_Char_Expr": ["'abc'", "1", "x", ".false.", "1.0e3", "a // b", ""],
    "Int_Expr": ["1", "-1", "x", "1.0", "'a'", ".true.", "b'01'", "(1.0,2.0)", "i + 1", "-1.0", ""],
    "Logical_Expr": [".true.", "a .and. b", "1", "1.0", "'a'", "x", "-1", "a > b", ""],
    "Numeric_Expr": ["1", "1.0", "x + y", "'a'", ".true.", "z'F'", "-1", ""],
    "Stop_Code": ["1", "12345", "123456", "'abc'", "-1", "a // b", "1 2", "", " 1", "1 ", "n", ".true.", "1.0", "00000"],
    "Defined_Op": [".myop.", ".MYOP.", " .x. ", ".eq.", ".EQ.", ".and.", ".true.", ".neqv.", ".eqv.", ".not.", ".x1.", ".x_y.",
                   ". x .", "..", ".", "x", ".x", "x.", ".eqx.", ".ne.", ".lt.", ".le.", ".gt.", ".ge.", ".or.", ".false.",
                   "." + "a" * 63 + ".", "." + "a" * 64 + ".", "", ".a.b.", "+", "**", ".truex.", ".n.", ".e."],
    "Data_Edit_Desc": ["I5", "i5.2", "I 5 . 2", "B8", "O3", "Z4.2", "L1", "L", "A", "A10", "a 10", "DT", "dt'abc'", "DT(1,2)",
                       "dt 'abc' (1, 2)", "DT()", "dt'a'(", "dt'a')", "dt(1", "D", "F10.3", "X", "i", "I.", "I5.", "i.2", "",
                       "d", "DTx", "dt 'a(b)' (1)", "I5.2.3", "L5", "l 5"],
    "Data_Edit_Desc_C1002": ["F10.3", "f 10 . 3", "D12.4", "E12.4", "E12.4E2", "ES12.4", "EN12.4E3", "G10.3", "G10.3E2",
                             "E", "G", "e ", "F", "F10", "E10", "ES", "es10.3", "EN", "e12.4e", "E12.4EE2", "G.3", "E12.",
                             "EX12.4", "GS12.4", "", " ", "I5", "e s12.4", "E12.4 E 2", "f10.3e2"],
    "Hollerith_Item": ["3habc", "3Habc", "3 habc", "1 2habcdefghijkl", "3habcd", "3hab", "3habc  ", "3habc x", "0habc", "habc",
                       "3h a ", " 3habc", "10habcdefghij", "1 0habcdefghij", "3", "3h", "", "12h", "3 h   "],
    "Position_Edit_Desc": ["T10", "t 10", "TL5", "tr 3", "T", "TL", "tl", "2X", "2 x", "X", "x", "10 X", "TX", "T1X", "XT", "",
                           " ", "5", "t l5", "Tx", "xx", "1x2x"],
    "Format_Item_C1002": [":a", "/a", ": a", "a:", "a/", "a /", "2/a", "2 / a", "1pe10.3", "1P E10.3", "2pf8.2", "1pi5", "1p2x",
                          "1p", "-1pf8.2", "a/b", "a:b", "a / b : c", "i5", ":", "/", "", " ", "1p,e10.3", "3(a)/b", "'a/b':c",
                          "2pa", "1pg10.3e2", "12", "a,b", "::", "//", "1p/", "0P,F8.2", "1p1pe10.3", "1pes12.4", "1pd10.3"],
}


def shapes(rng, k):
    """every optional part of every class, with varying blanks / case"""
    out = collections.defaultdict(list)

    def b():
        return rng.choice(["", " ", "  "])

    def cs(w):
        return rng.choice([w, w.upper(), w.capitalize()])
    units = ["10", "n", "lun + 1", "u(1)", "*"]
    specs = ["unit = 10", "iostat=ios", "iomsg = msg", "err = 99", "10", "id = k", "end=8", "eor = 7"]
    exprs = ["1", "n + 1", "f(a, b)", "a(i)", "'a(b'", "x%y(2)", "(a + b) * c", "-1", ".true.", "1.5e0", "a // 'x'"]
    names = ["a", "b2", "x_y", "arr"]
    for _ in range(k):
        for kw, cname in (("flush", "Flush_Stmt"), ("backspace", "Backspace_Stmt"), ("endfile", "Endfile_Stmt"),
                          ("rewind", "Rewind_Stmt")):
            if rng.random() < 0.5:
                out[cname].append(cs(kw) + " " + b() + rng.choice(units))
            else:
                sl = rng.sample(specs, rng.randint(1, 3))
                out[cname].append(cs(kw) + b() + "(" + b() + ("," + b()).join(sl) + b() + ")")
        for cname in ("Position_Spec", "Flush_Spec", "Wait_Spec"):
            out[cname].append(rng.choice(specs).replace("=", b() + "=" + b()))
        out["Return_Stmt"].append(cs("return") + rng.choice(["", " " + rng.choice(exprs), b() + "(" + rng.choice(exprs) + ")"]))
        ent = [rng.choice(names), "/blk/", "/ blk /"]
        out["Bind_Stmt"].append(cs("bind") + b() + "(" + b() + "c" + rng.choice(["", ", name" + b() + "=" + b() + "'cn'"]) + b() + ")"
                                + rng.choice([" :: ", "::", " "]) + (", ").join(rng.sample(ent, rng.randint(1, 2))))
        ted = rng.choice(names) + rng.choice(["", "(10)", " (1:n, 2)", "(:)", "(f(1), 2)"])
        out["Target_Entity_Decl"].append(ted)
        out["Target_Stmt"].append(cs("target") + rng.choice([" ", " :: ", "::"]) + ted + rng.choice(["", ", " + rng.choice(names)]))
        out["Type_Param_Decl"].append(rng.choice(names) + b() + "=" + b() + rng.choice(exprs))
        out["Enumerator"].append(rng.choice(names) + b() + "=" + b() + rng.choice(exprs))
        out["Type_Param_Def_Stmt"].append(cs("integer") + rng.choice(["", "(4)", "(kind=8)", " (kind = f(1, 2))", "*8"]) + b() + "," + b()
                                          + cs(rng.choice(["kind", "len"])) + b() + "::" + b() + rng.choice(names)
                                          + rng.choice(["", " = 4", ", m = f(1, 2)"]))
        out["Stmt_Function_Stmt"].append(rng.choice(names) + b() + "(" + b() + rng.choice(["", "x", "x, y"]) + b() + ")" + b() + "="
                                         + b() + rng.choice(exprs))
        out["Where_Construct_Stmt"].append(cs("where") + b() + "(" + b() + rng.choice(exprs) + b() + ")")
        out["Declaration_Type_Spec"].append(cs(rng.choice(["type", "class"])) + b() + "(" + b()
                                            + rng.choice(["t", "t(k = 4)", "*", "t(4, len = n)"]) + b() + ")")
        out["Intrinsic_Type_Spec"].append(rng.choice([
            cs(rng.choice(["integer", "real", "complex", "logical"])) + rng.choice(["", "(4)", " (kind = 8)", "*8", " * 4"]),
            cs("character") + rng.choice(["", "(10)", "(len=*)", "*10", "*(*)", "(len = n, kind = 1)"]),
            cs("double") + b() + cs(rng.choice(["precision", "complex"])), cs("byte")]))
        out["Rename"].append(rng.choice([
            rng.choice(names) + b() + "=>" + b() + rng.choice(names),
            cs("operator") + b() + "(" + b() + ".a." + b() + ")" + b() + "=>" + b() + cs("operator") + b() + "(" + b() + ".b." + b() + ")"]))
        tail = rng.choice(["", ", only: a", ", only : a, b => c", ", only:", ", a => b", ", only: operator(.x.)",
                           ", operator(.x.) => operator(.y.)", ", ONLY : assignment(=)"])
        head = rng.choice([" m", " :: m", ", intrinsic :: iso_c_binding", ", non_intrinsic :: m", "::m", " , INTRINSIC::m"])
        out["Use_Stmt"].append(cs("use") + head + tail)
        q = rng.choice(["'", '"'])
        out["Include_Stmt"].append(b() + cs("include") + b() + q + rng.choice(["a.h", "dir/file.inc", "x y.h", "a"]) + q + b())
        out["Deferred_Shape_Spec"].append(":")
        for cname in ("Allocate_Shape_Spec", "Explicit_Shape_Spec"):
            out[cname].append(rng.choice([rng.choice(exprs), rng.choice(exprs) + b() + ":" + b() + rng.choice(exprs)]))
        out["Assumed_Size_Spec"].append(rng.choice(["*", "0:*", "n" + b() + ":" + b() + "*", "10," + b() + "*", "10, 2:5, 0 : *",
                                                    "a(1, 2)," + b() + "*"]))
        pte = rng.choice(["b", "b(10)", "b (n, *)", "b(1:2, 3)"])
        out["Cray_Pointer_Decl"].append(b() + "(" + b() + "p" + b() + "," + b() + pte + b() + ")" + b())
        out["Cray_Pointer_Stmt"].append(cs("pointer") + b() + "(p, " + pte + ")" + rng.choice(["", ", (q, c)"]))
        ctl = "i" + b() + "=" + b() + rng.choice(["1", "f(1, 2)"]) + b() + "," + b() + rng.choice(["n", "g(a, b)"]) + rng.choice(["", ", 2"])
        out["Io_Implied_Do_Control"].append(ctl)
        out["Io_Implied_Do"].append("(" + b() + rng.choice(["a(i)", "a(i), b(i)", "(c(i, j), j = 1, 2)", "f(x = 1)"]) + b() + "," + b() + ctl + b() + ")")
        e = rng.choice(exprs + ["1_4", "b'01'", "(1.0, 2.0)", "z'1F'", "+2", "1.0d0"])
        for cname in ("Char_Expr", "Default_Char_Expr", "Int_Expr", "Logical_Expr", "Numeric_Expr"):
            out[cname].append(e)
        out["Stop_Code"].append(rng.choice(["1", "123", "99999", "'msg'", "n", "-1", "a // b"]))
        out["Defined_Op"].append(b() + "." + rng.choice(["op", "MYOP", "x", "eq", "and", "plus"]) + "." + b())
        out["Data_Edit_Desc"].append(rng.choice([cs(rng.choice("ibozla")) + b() + rng.choice(["5", "10", "5.2", "5 . 2", ""]),
                                                 cs("dt") + b() + rng.choice(["", "'ty'", "'ty'(1, 2)", "(3)", "'a(b' (1)"])]))
        out["Data_Edit_Desc_C1002"].append(cs(rng.choice(["f", "d", "e", "en", "es", "g"])) + b() + rng.choice(["10.3", "12 . 4", "12.4e2", "12.4 E 3", "10", ""]))
        hs = rng.choice(["abc", "a b", "x,y)", "hello world!"])
        out["Hollerith_Item"].append(b() + rng.choice([str(len(hs)), " ".join(str(len(hs)))]) + rng.choice("hH") + hs + rng.choice(["", " ", "z"]))
        out["Position_Edit_Desc"].append(rng.choice([cs("t") + rng.choice(["", "l", "r", "L"]) + b() + rng.choice(["5", "10", ""]),
                                                     rng.choice(["", "2", "10 "]) + cs("x")]))
        fi = rng.choice(["a", "i5", "f8.2", "2(a)", "e10.3", "es12.4", "g10.3", "'x/y'"])
        out["Format_Item_C1002"].append(rng.choice([":" + b() + fi, "/" + b() + fi, fi + b() + rng.choice(":/"),
                                                    rng.choice(["1", "2", "-1", "0"]) + b() + cs("p") + b() + fi,
                                                    rng.choice(["2", "3"]) + b() + "/" + b() + fi, fi + b() + rng.choice(":/") + b() + fi]))
    return out


def paren_mutants(s):
    """EVERY single deletion / duplication of a parenthesis"""
    out = []
    for i, ch in enumerate(s):
        if ch in "()":
            out.append(s[:i] + s[i + 1:])
            out.append(s[:i] + ch + s[i:])
    return out


def token_mutants(rng, s, k):
    """k one-token deletions / duplications"""
    toks = tokens_of(s)
    out = []
    if not toks:
        return out
    for _ in range(k):
        i = rng.randrange(len(toks))
        t = list(toks)
        if rng.random() < 0.5:
            del t[i]
        else:
            t.insert(i, t[i])
        out.append("".join(t))
    return out


KEYWORD_CLASSES = {
    "flush": ["Flush_Stmt"], "backspace": ["Backspace_Stmt"], "endfile": ["Endfile_Stmt"], "rewind": ["Rewind_Stmt"],
    "return": ["Return_Stmt"], "bind": ["Bind_Stmt"], "target": ["Target_Stmt"], "integer": ["Type_Param_Def_Stmt", "Intrinsic_Type_Spec"],
    "where": ["Where_Construct_Stmt"], "use": ["Use_Stmt"], "include": ["Include_Stmt"], "pointer": ["Cray_Pointer_Stmt"],
    "type": ["Declaration_Type_Spec"], "class": ["Declaration_Type_Spec"], "real": ["Intrinsic_Type_Spec"],
    "character": ["Intrinsic_Type_Spec"], "logical": ["Intrinsic_Type_Spec"], "complex": ["Intrinsic_Type_Spec"],
    "double": ["Intrinsic_Type_Spec"],
}
KEYWORDLESS = ["Stmt_Function_Stmt", "Bind_Stmt"]


def flat_statements(x):
    from fv import gen
    if isinstance(x, gen.Blk):
        return x.flat()
    if isinstance(x, list):
        out = []
        for y in x:
            out += flat_statements(y)
        return out
    return [x] if hasattr(x, "toks") else []


def gen_statements(seed, n):
    from fv import gen
    out = collections.defaultdict(set)
    rng = random.Random(seed * 7919 + 13)
    g = gen.G(rng, std="f2008")
    for _ in range(n):
        for mk in (g.spec_misc, g.io_stmt, g.action, g.type_decl, g.derived_type, g.use_stmt):
            try:
                st = mk()
            except Exception:  # noqa: BLE001
                continue
            for s in flat_statements(st):
                if not s.toks:
                    continue
                t = gen.join_natural(s.toks)
                if not admissible(t):
                    continue
                first = s.toks[0].lower()
                for k in KEYWORD_CLASSES.get(first, []):
                    out[k].add(t)
                if first in ("integer", "real", "character", "logical", "complex", "type", "class", "double") and "::" in t:
                    # the declaration-type-spec part of a declaration
                    head = t.split("::", 1)[0]
                    spec = head.split(",", 1)[0].strip() if "(" not in head.split(",", 1)[0] or ")" in head.split(",", 1)[0] else head.strip()
                    out["Intrinsic_Type_Spec"].add(spec)
                    out["Declaration_Type_Spec"].add(spec)
                if "=" in t and "(" in t.split("=", 1)[0]:
                    out["Stmt_Function_Stmt"].add(t)
    return out


def harvest_generated(seed, n, deadline):
    from fv import gen, real
    out = collections.defaultdict(set)
    parsed = 0
    want = set(MODELLED)
    for i in range(n):
        if time.time() > deadline:
            break
        try:
            with time_limit(5.0):
                p = gen.gen_program(seed * 100003 + i, std="f2008")
                o = real.try_parse(p.text(), std="f2008")
        except CaseTimeout:
            continue
        except Exception:  # noqa: BLE001
            continue
        if o.kind != "tree":
            continue
        parsed += 1
        for node in U.walk(o.tree):
            nm = type(node).__name__
            if nm in want and isinstance(getattr(node, "string", None), str):
                t = node.string
                if admissible(t):
                    out[nm].add(t)
    return out, parsed


# ------------------------------------------------------------------------------- negative control

MUTATIONS = [
    ("Flush_Stmt.match loses its endswith(')') guard", "Flush_Stmt", "match",
     'if not line.endswith(")"):', "if False:", [("Flush_Stmt", "flush(10"), ("Flush_Stmt", "flush(unit=10, iostat=i")]),
    ("Stmt_Function_Stmt.match find('(') -> rfind", "Stmt_Function_Stmt", "match",
     'i = line.find("(")', 'i = line.rfind("(")', [("Stmt_Function_Stmt", "f(a(1)) = x"), ("Stmt_Function_Stmt", "f(x) = 1")]),
    ("Bind_Stmt.match find(')') -> rfind", "Bind_Stmt", "match",
     'i = string.find(")")', 'i = string.rfind(")")', [("Bind_Stmt", "bind(c) a(1) b"), ("Bind_Stmt", "a ) b ) c")]),
    ("Target_Stmt.match :: made mandatory", "Target_Stmt", "match",
     "line = string[6:].lstrip()", 'line = string[6:].lstrip()\n    if not line.startswith("::"):\n        return',
     [("Target_Stmt", "target a"), ("Target_Stmt", "target :: a")]),
    ("Position_Spec.match keyword list extended", "Position_Spec", "match",
     '("UNIT", File_Unit_Number),', '("UNIT", File_Unit_Number), ("ID", Scalar_Int_Expr),',
     [("Position_Spec", "id=3"), ("Position_Spec", "unit=3")]),
    ("Wait_Spec.match nested keyword list aliased and shortened", "Wait_Spec", "match",
     '(["END", "EOR", "ERR"], Label)', '(["END", "EOR"], Label)', [("Wait_Spec", "err=9"), ("Wait_Spec", "end=9")]),
    ("Cray_Pointer_Decl.match repair reverted (IndexError on an empty pointee)", "Cray_Pointer_Decl", "match",
     "if not pointee_str:\n        return None", "if False:\n        return None",
     [("Cray_Pointer_Decl", "(a,)"), ("Cray_Pointer_Decl", "(a, b)")]),
    ("Return_Stmt.tostr prints items[0].string", "Return_Stmt", "tostr",
     '"RETURN %s" % self.items', '"RETURN %s" % self.items[0].string', [("Return_Stmt", "return n+1"), ("Return_Stmt", "return")]),
    ("Rename.match split('=>') -> rsplit", "Rename", "match",
     'string.split("=>", 1)', 'string.rsplit("=>", 1)', [("Rename", "a => b => c"), ("Rename", "a => b")]),
    ("Data_Edit_Desc_C1002.match repair reverted (IndexError on a bare E / G)", "Data_Edit_Desc_C1002", "match",
     "if not my_str:\n            return None", "if False:\n            return None",
     [("Data_Edit_Desc_C1002", "E"), ("Data_Edit_Desc_C1002", "E12.4")]),
    ("Use_Stmt._match repair reverted (text between USE and :: not looked at)", "Use_Stmt", "_match",
     "elif line[:idx].strip():", "elif False:", [("Use_Stmt", "use x :: m"), ("Use_Stmt", "use :: m")]),
]

CONTROL_CASES = [("Flush_Stmt", "flush(10)"), ("Flush_Stmt", "flush 10"), ("Flush_Stmt", "flush(10"),
                 ("Stmt_Function_Stmt", "f(a(1)) = x"), ("Bind_Stmt", "bind(c) :: a"), ("Target_Stmt", "target a"),
                 ("Position_Spec", "id=3"), ("Wait_Spec", "err=9"), ("Cray_Pointer_Decl", "(a,)"),
                 ("Return_Stmt", "return n + 1"), ("Rename", "a => operator(.y.)"), ("Use_Stmt", "use m, only: a"), ("Use_Stmt", "use x :: m"), ("Use_Stmt", "use, intrinsic :: m"),
                 ("Char_Expr", "'a'"), ("Char_Expr", "1"), ("Data_Edit_Desc_C1002", "E"), ("Format_Item_C1002", "1pe10.3"),
                 ("Intrinsic_Type_Spec", "double  precision")]


class _FlippedModel:
    def __init__(self, mdl):
        self.m = mdl

    def ask(self, *a):
        r = self.m.ask(*a)
        if r and r[0] == "ok" and len(r) >= 2 and r[-2] == "str":
            r = r[:-1] + [r[-1] + "!"]
        elif r and r[0] == "nomatch":
            r = ["raises", "IndexError"]
        elif r and r[0] == "raises":
            r = ["nomatch"]
        elif r and r[0] == "pass":
            r = ["nomatch"]
        return r


def negative_control(mdl):
    lines = []
    good = True
    set_std("f2003")
    ck = Checker(mdl)
    for n, t in CONTROL_CASES:
        ck.check("f2003", n, t)
    lines.append("control 0 (unmodified): %d disagreements on %d cases" % (ck.stats["disagree"], ck.stats["samples"]))
    if ck.stats["disagree"]:
        good = False
        lines += ["   " + b for b in ck.bad[:8]]
    for title, cname, meth, old, new, cases in MUTATIONS:
        cls = getattr(F3, cname)
        repl = patched(cls, meth, old, new)
        if repl is None:
            lines.append("control %r: NOT APPLICABLE (the source no longer contains the line to edit)" % title)
            good = False
            continue
        orig = cls.__dict__[meth]
        setattr(cls, meth, repl)
        try:
            ck = Checker(mdl)
            for n, t in cases:
                ck.check("f2003", n, t)
        finally:
            setattr(cls, meth, orig)
        rep = ck.stats["disagree"]
        lines.append("control %r: %d/%d cases reported" % (title, rep, len(cases)))
        if rep == 0:
            good = False
    ck = Checker(_FlippedModel(mdl))
    for n, t in CONTROL_CASES:
        ck.check("f2003", n, t)
    lines.append("control flipped driver: %d/%d cases reported" % (ck.stats["disagree"], ck.stats["samples"]))
    if ck.stats["disagree"] != ck.stats["samples"]:
        good = False
    return good, lines


# ------------------------------------------------------------------------------- witnesses of the Lean side, replayed

def replay_witnesses():
    """the `decide` witnesses of Props/Rest.lean on the REAL code; -> (n, failures)"""
    from fparser.common.readfortran import FortranStringReader
    bad = []

    def expect_str(cname, text, want):
        try:
            got = str(getattr(F3, cname)(text))
        except Exception as e:  # noqa: BLE001
            got = "<%s>" % type(e).__name__
        if got != want:
            bad.append("%s(%r): expected %r, got %r" % (cname, text, want, got))

    def expect_exc(cname, text, exc):
        try:
            getattr(F3, cname)(text)
            got = "accepted"
        except Exception as e:  # noqa: BLE001
            got = type(e).__name__
        if got != exc:
            bad.append("%s(%r): expected %s, got %s" % (cname, text, exc, got))

    def expect_parse_exc(src, exc):
        for std in STDS:
            p = ParserFactory().create(std=std)
            try:
                p(FortranStringReader(src))
                got = "accepted"
            except Exception as e:  # noqa: BLE001
                got = type(e).__name__
            if got != exc:
                bad.append("%s parse(%r): expected %s, got %s" % (std, src, exc, got))

    set_std("f2003")
    n = 0
    # include_normalises_quote / target_invents_colons / formatItemC1002_invents_comma
    expect_str("Include_Stmt", 'include "a.h"', "INCLUDE 'a.h'"); n += 1
    expect_str("Target_Stmt", "target a", "TARGET :: a"); n += 1
    expect_str("Format_Item_C1002", ":a", ":, A"); n += 1
    expect_str("Position_Spec", "10", "UNIT = 10"); n += 1
    expect_str("Hollerith_Item", "1 2Habcdefghijkl", "12Habcdefghijkl"); n += 1
    # use_drops_before_colons / use_unbalanced_accepted: the text between USE and `::` is never looked at
    # REGRESSION (repaired): only `, Module_Nature` may stand between USE and `::`
    expect_exc("Use_Stmt", "use x :: m", "NoMatchError"); n += 1
    expect_str("Use_Stmt", "use, intrinsic :: m", "USE, INTRINSIC :: m"); n += 1
    expect_str("Use_Stmt", "use :: m", "USE :: m"); n += 1
    expect_parse_exc("program p\nuse x :: m\nend program p\n", "FortranSyntaxError"); n += 1
    expect_parse_exc("program p\nuse (a + :: m\nend program p\n", "FortranSyntaxError"); n += 1
    expect_parse_exc("program p\nuse intrinsic :: iso_c_binding\nend program p\n", "FortranSyntaxError"); n += 1
    # pos_rejects_unclosed: a FLUSH statement missing its `)` is rejected
    expect_exc("Flush_Stmt", "flush(10", "NoMatchError"); n += 1
    expect_exc("Flush_Stmt", "flush(unit=10, iostat=i", "NoMatchError"); n += 1
    # bind_drops_paren: the cut at `)` drops it (the child then rejects `bind(c`: latent)
    out, _r, calls = real_match(F3.Bind_Stmt, "bind(c) x")
    n += 1
    if out != "nomatch" or [(c[0], c[1]) for c in calls][:1] != [("Language_Binding_Spec", "bind(c")]:
        bad.append("Bind_Stmt('bind(c) x'): expected the child call Language_Binding_Spec('bind(c'), got %r %r"
                   % (out, [(c[0], c[1]) for c in calls]))
    # REGRESSION (repaired): the two IndexErrors that escaped from the parser are now "no match" / syntax errors
    expect_exc("Cray_Pointer_Decl", "(a,)", "NoMatchError"); n += 1
    expect_exc("Data_Edit_Desc_C1002", "E", "NoMatchError"); n += 1
    expect_exc("Data_Edit_Desc_C1002", "g ", "NoMatchError"); n += 1
    expect_parse_exc("program p\n10 format(E)\nend program p\n", "FortranSyntaxError"); n += 1
    expect_parse_exc("program p\n10 format(a,g)\nend program p\n", "FortranSyntaxError"); n += 1
    expect_parse_exc("subroutine s\npointer (a,)\nend subroutine s\n", "FortranSyntaxError"); n += 1
    # the remaining latent IndexError (not reachable through Format_Item)
    expect_exc("Data_Edit_Desc", "", "IndexError"); n += 1
    expect_parse_exc("program p\n10 format(2)\nend program p\n", "FortranSyntaxError"); n += 1
    return n, bad


# ------------------------------------------------------------------------------- main

def run(seed, n, exe=None, max_seconds=None):
    t0 = time.time()
    budget = max_seconds if max_seconds is not None else 10 + 0.2 * n
    deadline = t0 + budget
    mdl = fvmodel.Model(exe) if exe else fvmodel.get_model()
    names = mdl.ask("rest.classes")
    missing = [m for m in MODELLED if m not in names]
    if missing:
        print("classes unknown to the driver: %r" % missing)
        print("RESULT: FAIL")
        return 1
    good, lines = negative_control(mdl)
    for l in lines:
        print(l)
    nt, tbad = check_tostr_probes(mdl)
    print("tostr on arbitrary items: %d probes, %d disagreements" % (nt, len(tbad)))
    for b in tbad:
        print("   " + b)
    if tbad:
        good = False
    nw, wbad = replay_witnesses()
    print("kernel witnesses replayed on the real code: %d, %d not as predicted" % (nw, len(wbad)))
    for b in wbad:
        print("   " + b)
    if wbad:
        good = False
    rng = random.Random(seed)
    harvested, parsed = harvest_generated(seed, max(1, n // 10), t0 + 0.3 * budget)
    gs = gen_statements(seed, max(3, n // 4))
    sh = shapes(rng, max(4, n // 4))
    samples = {}
    for name in MODELLED:
        base = []
        base += PROBES.get(name, [])
        base += sorted(harvested.get(name, ()))[: 10 + n // 4]
        base += sorted(gs.get(name, ()))[: 10 + n // 4]
        base += sh.get(name, [])
        seen = set()
        lst = []
        r2 = random.Random("%s|%s" % (seed, name))
        for b in base:
            for t in [b] + paren_mutants(b) + token_mutants(r2, b, 3) + [b.upper(), " " + b + " "]:
                if t not in seen and admissible(t):
                    seen.add(t)
                    lst.append(t)
        head, tailp = lst[: len(PROBES.get(name, []))], lst[len(PROBES.get(name, [])):]
        r2.shuffle(tailp)
        samples[name] = (head + tailp)[: 80 + 2 * n]
    total = sum(len(v) for v in samples.values())
    print("programs parsed: %d; samples: %d per standard (classes %d x 2 standards)" % (parsed, total, len(MODELLED)))
    ck = Checker(mdl)
    timeouts = 0
    for si, std in enumerate(STDS):
        set_std(std)
        stop_at = t0 + budget * (0.65 if si == 0 else 1.0)
        idx = 0
        stopped = False
        while not stopped:
            any_left = False
            for name in MODELLED:
                lst = samples[name]
                if idx < len(lst):
                    any_left = True
                    if time.time() > stop_at:
                        stopped = True
                        break
                    try:
                        with time_limit(2.0):
                            ck.check(std, name, lst[idx])
                    except CaseTimeout:
                        timeouts += 1
            if not any_left:
                break
            idx += 1
    st = ck.stats
    print("checked: %d samples; agree: tuple %d (printed text %d), object passed through %d, no match %d, raises %d; timeouts %d"
          % (st["samples"], st["agree_ok"], st["agree_str"], st["agree_pass"], st["agree_nomatch"], st["agree_raises"], timeouts))
    print("per class (samples/accepted): " + ", ".join(
        "%s %d/%d" % (k, ck.per_cls[k], ck.per_cls_ok[k]) for k in MODELLED))
    if ck.exc:
        print("exceptions escaping from the real match (agreed with the model unless listed below):")
        for (name, out), (std, text) in sorted(ck.exc.items()):
            print("   %s %s(%r) -> %s" % (std, name, text, out))
    print("real leaf round trip: %d checked, %d fail%s" % (st["leaf_rt"], st["leaf_rt_fail"],
          "".join("\n   %s %s(%r)" % (v[0], k, v[1]) for k, v in sorted(ck.leaf.items()))))
    print("disagreements: %d" % st["disagree"])
    for b in ck.bad:
        print("   " + b)
    print("elapsed %.1f s" % (time.time() - t0))
    ok = good and st["disagree"] == 0 and st["samples"] > 0
    print("RESULT: %s" % ("PASS" if ok else "FAIL"))
    return 0 if ok else 1


def main(argv=None):
    ap = argparse.ArgumentParser()
    ap.add_argument("--seed", type=int, default=0)
    ap.add_argument("--n", type=int, default=40)
    ap.add_argument("--exe", default=os.environ.get("FV_MODEL_EXE"))
    ap.add_argument("--max-seconds", type=float, default=None)
    a = ap.parse_args(argv)
    return run(a.seed, a.n, a.exe, a.max_seconds)


if __name__ == "__main__":
    sys.exit(main())
