/-!
# Wire — the line protocol of the model driver

One request per line: `cmd<TAB>field<TAB>field…`; every field is the lower-case hex of
its UTF-8 bytes (so any text, including tabs/newlines, survives). One reply line per
request, same encoding for fields, `<TAB>`-separated. Trusted glue, no theorems.
-/
namespace Fp.Wire

def hexDigit (n : Nat) : Char :=
  if n < 10 then Char.ofNat (48 + n) else Char.ofNat (87 + n)

def hexVal (c : Char) : Nat :=
  if '0' ≤ c ∧ c ≤ '9' then c.toNat - 48
  else if 'a' ≤ c ∧ c ≤ 'f' then c.toNat - 87
  else if 'A' ≤ c ∧ c ≤ 'F' then c.toNat - 55
  else 0

def encBytes (b : ByteArray) : String :=
  String.ofList (b.toList.flatMap fun x => [hexDigit (x.toNat / 16), hexDigit (x.toNat % 16)])

def enc (s : String) : String := encBytes s.toUTF8

def decBytes (h : String) : ByteArray :=
  let rec go : List Char → ByteArray → ByteArray
    | a :: b :: rest, acc => go rest (acc.push (UInt8.ofNat (hexVal a * 16 + hexVal b)))
    | _, acc => acc
  go h.toList ByteArray.empty

/-- decode a hex field to a string (input is produced by the harness from valid UTF-8;
    an invalid sequence decodes to the empty string) -/
def dec (h : String) : String :=
  match String.fromUTF8? (decBytes h) with
  | some s => s
  | none => ""

def decL (h : String) : List Char := (dec h).toList
def encL (s : List Char) : String := enc (String.ofList s)

def fields (line : String) : List String := line.splitOn "\t"

end Fp.Wire
