import FparserModel.Proofs.RefineMore
import FparserModel.Proofs.RefineExist
import FparserModel.Proofs.RefineKeep
import FparserModel.Props.Reader
import FparserModel.Props.Reader2
import FparserModel.Props.Block

/-!
# Props/Refine — the reader model implements the item stream of the block model; end-to-end corollaries

The design's layering claim, as theorems: the abstract `Fp.Block.Stream` over which the block
matcher M-D is verified is implemented by the reader model M-B.

* `reader_refines_stream`     the simulation (abstraction function `absStream`, relation `Abs`):
                              `getItem` ~ `Stream.get`, `putItem` ~ `Stream.put`, any interleaving;
* `lookahead_walk_commutes`   every look-ahead walk (`Reader.runWalk`, the matcher's discipline)
                              commutes with the abstraction; `block_ops_are_get_put`: the block
                              matcher touches the stream through `get` / `put` only;
* `matcher_only_handles_items_it_got`, `block_run_is_represented`, `chunk_run_is_represented`
                              the reader can FOLLOW every run of the block model: after every class
                              call (all outcomes) the stream is represented by a reader chain;
* `error_line_is_last_line_of_g`(`_total`) (C07)  `no_read_past_unmatched` + the reader's line
                              accounting; `error_line_not_before_g` for every source;
* `comments_are_leaves_once` (C11/C14)   `read_comments_once` + `comments_once_in_order`;
* `block_backtracking_is_invisible`(`_total`) (C12/C13)  `fail_restores` through the abstraction.

Every statement is for all tables, oracles, fuels, file systems, reader states / chunk lists.
-/
namespace Fp.Refine
open Fp Fp.Reader

/-! ## 1. the simulation -/

/-- THE READER REFINES THE STREAM.  `st0` delivers exactly the items `xs0` (`Drains`).  Then

    (o)  the abstraction function applied to the fresh chain is the initial stream of the block
         model, `St.init (absItems 0 xs0)`, and the fresh chain is represented by it (`Abs`);
    (i)  `get`: for every represented chain, one `get_item()` is one `Stream.get`; both deliver the
         same item of `xs0` (or both `None`), and the new chain is represented by the new stream;
    (ii) `put`: `put_item x` for an item that may be put back (`returnable`) and is the item at
         position `i` of `xs0` is `Stream.put (absItem i x)` — and (`get_put_inverse`) the next
         `get_item()` returns `x` and restores the complete chain;
    (iii) hence every interleaving of such steps (`Sim`) keeps the chain represented. -/
theorem reader_refines_stream (dir : Item → Bool) (d : Nat) (fs : Fs) (st0 : List Rd) (xs0 : List Item)
    (fin0 : List Rd) (hd : Drains (d + 1) fs st0 (evItems xs0) fin0) (hne : st0 ≠ []) :
    (∀ fuel, drainEv (d + 1) fs fuel st0 = some (evItems xs0, fin0) →
      absStream dir (d + 1) fs fuel st0 0 = (Block.St.init (absItems dir 0 xs0)).stream) ∧
    Abs dir d fs st0 xs0 fin0 st0 (Block.St.init (absItems dir 0 xs0)).stream ∧
    (∀ rd s, Abs dir d fs st0 xs0 fin0 rd s →
      Abs dir d fs st0 xs0 fin0 (cget d fs rd).2 s.get.2 ∧ GetRel dir xs0 (cget d fs rd).1 s.get.1) ∧
    (∀ rd s r x i, Abs dir d fs st0 xs0 fin0 rd s → innermost rd = some r →
      returnable fs r x = true → xs0[i]? = some x →
      Abs dir d fs st0 xs0 fin0 (putItem x rd) (s.put (absItem dir i x)) ∧
      getItem (d + 1) fs (putItem x rd) = (.ok x, rd)) ∧
    (∀ rd s rd' s', Abs dir d fs st0 xs0 fin0 rd s → Sim dir d fs xs0 rd s rd' s' →
      Abs dir d fs st0 xs0 fin0 rd' s') := by
  refine ⟨fun fuel h => ?_, abs_init hd hne, fun rd s h => abs_get h, fun rd s r x i h hi hr hx => ?_,
    fun rd s rd' s' h hs => hs.abs h⟩
  · unfold absStream; rw [futureItems_of_drainEv h]; rfl
  · exact ⟨abs_put h r x i hi hr hx, get_put_inverse d fs rd r x hi hr⟩

/-- the abstraction function at ANY high-water state: after `k` plain `get_item` calls the chain
    is represented by `absStream … k` (nothing put back, `pulled = k`) -/
theorem absStream_after (dir : Item → Bool) (d : Nat) (fs : Fs) (st0 hw fin0 : List Rd)
    (zs ys : List Item) (k fuel : Nat) (hg : getN (d + 1) fs k st0 = some (zs, hw))
    (hdr : drainEv (d + 1) fs fuel hw = some (evItems ys, fin0)) (hne : hw ≠ []) :
    Abs dir d fs st0 (zs ++ ys) fin0 hw (absStream dir (d + 1) fs fuel hw k) := by
  have hl := getN_length (d + 1) fs k st0 hw zs hg
  obtain ⟨r, hr⟩ := innermost_isSome hw hne
  unfold absStream
  rw [futureItems_of_drainEv hdr]
  subst hl
  refine ⟨[], hw, r, rfl, hr, (fun p hp => by cases hp), rfl, by simp, by simpa using ⟨fuel, hdr⟩,
    (fun _ => by simpa using hg), (fun he => by cases he), by simp⟩

/-- the representation determines everything the parser can observe of the reader later on:
    the `Drains` future of the chain is the decoded content (`buf ++ rest`) of the stream -/
theorem abs_determines_future (dir : Item → Bool) (d : Nat) (fs : Fs) (st0 : List Rd) (xs0 : List Item)
    (fin0 rd : List Rd) (s : Block.Stream) (h : Abs dir d fs st0 xs0 fin0 rd s) :
    ∃ fut, Drains (d + 1) fs rd (evItems fut) fin0 ∧ s.all.map (decode xs0) = fut.map some :=
  let ⟨fut, h1, h2, _⟩ := abs_future h
  ⟨fut, h1, h2⟩

/-- THE MATCHER'S DISCIPLINE, reader side = stream side.  A look-ahead walk (`Reader.runWalk`:
    `g` = read an item, `p` = put back the most recently read item that has not been put back
    yet) on a represented chain is the same walk (`absWalk`) on the stream: it succeeds there
    too, the end states correspond, and so do the items still held.
    (`Lifo` states the discipline on the get/put events of a block-model log; the block matcher
    follows it because every failing alternative restores exactly what it read, newest first —
    `fail_restores` / `nomatch_restores` / `frontier_eq_consumed` are the proved consequences.) -/
theorem lookahead_walk_commutes (dir : Item → Bool) (d : Nat) (fs : Fs) (st0 : List Rd) (xs0 : List Item)
    (fin0 : List Rd) (w : List Op) (st st' : List Rd) (got got' : List Item) (s : Block.Stream)
    (held : List Block.Item) (ha : Abs dir d fs st0 xs0 fin0 st s) (hh : HeldRel dir xs0 got held)
    (hw : runWalk d fs w st got = some (st', got')) :
    ∃ s' held', absWalk w s held = some (s', held') ∧ Abs dir d fs st0 xs0 fin0 st' s' ∧
      HeldRel dir xs0 got' held' :=
  walk_commutes w st st' got got' s held ha hh hw

/-- `walk_restore` on both sides: a walk that ends with nothing held leaves the content of the
    stream AND the future of the reader unchanged -/
theorem walk_restore_both (dir : Item → Bool) (d : Nat) (fs : Fs) (st0 : List Rd) (xs0 : List Item)
    (fin0 : List Rd) (w : List Op) (st st' : List Rd) (s : Block.Stream)
    (ha : Abs dir d fs st0 xs0 fin0 st s) (hw : runWalk d fs w st [] = some (st', [])) :
    ∃ s' fut, absWalk w s [] = some (s', []) ∧ Abs dir d fs st0 xs0 fin0 st' s' ∧ s'.all = s.all ∧
      Drains (d + 1) fs st (evItems fut) fin0 ∧ Drains (d + 1) fs st' (evItems fut) fin0 := by
  obtain ⟨s', held', h1, h2, h3⟩ := walk_commutes w st st' [] [] s [] ha trivial hw
  cases held' with
  | cons a as => exact absurd h3 (by simp [HeldRel])
  | nil =>
    have hall := absWalk_all w s s' [] [] h1
    simp only [List.reverse_nil, List.nil_append] at hall
    obtain ⟨fut, hf, _⟩ := abs_future h2
    exact ⟨s', fut, h1, h2, hall.symm, walk_restore d fs w st st' _ fin0 hw hf, hf⟩

/-- the block matcher touches the stream only through `Stream.get` and `Stream.put`: for every
    table, oracle, fuel, class, state and OUTCOME the final stream is reached from the initial
    one by `get` / `put` steps — the steps that `reader_refines_stream` (i), (ii) simulate -/
theorem block_ops_are_get_put (env : Block.Env) (fuel : Nat) (c : Block.Cls) (st : Block.St) :
    Block.SSteps st.stream (Block.run env fuel c st).2.stream :=
  Block.run_rel (Block.opsR_ok env) fuel c st

/-- THE MATCHER ONLY HANDLES ITEMS IT GOT (block model alone, any item predicate `P`): if every
    item of the stream — put back or still to come — satisfies `P` when a class is called, then
    so does every item of the stream afterwards and every leaf of the returned tree.  Every
    table, oracle, fuel, class, state, outcome: nothing is ever fabricated, whatever is put back
    or kept in a tree came out of the stream. -/
theorem matcher_only_handles_items_it_got (P : Block.Item → Prop) (env : Block.Env) (fuel : Nat)
    (c : Block.Cls) (st : Block.St) (h : ∀ x ∈ st.stream.all, P x) :
    (∀ x ∈ (Block.run env fuel c st).2.stream.all, P x) ∧
    (∀ t, (Block.run env fuel c st).1 = .tree t → ∀ x ∈ t.frontier, P x) := by
  have := Block.run_in (P := P) env fuel c st h
  refine ⟨this.1, fun t ht => ?_⟩
  have h2 := this.2
  rw [ht] at h2
  exact h2

/-- THE READER CAN FOLLOW EVERY RUN OF THE BLOCK MODEL.  If the stream of a block-model state is
    represented by a reader chain, then after ANY class call — every table, oracle, fuel, class,
    every outcome including every exception — the stream is again represented by a reader chain,
    and every leaf of a returned tree is the image of a reader item at its position (`Genuine`).
    Proof: the matcher only handles items it got (`Block.run_in`, an induction over all of
    `eval` for an arbitrary item predicate), touches the stream by `get` / `put` only
    (`block_ops_are_get_put`), and every well-shaped stream of genuine items is an abstraction
    (`abs_of_shape`).  `hret` / `hretF`: the items may be put back at the chains the reader goes
    through (for chunk layouts: `chunk_run_is_represented`). -/
theorem block_run_is_represented (dir : Item → Bool) (d : Nat) (fs : Fs) (st0 : List Rd)
    (xs0 : List Item) (fin0 : List Rd)
    (hd : Drains (d + 1) fs st0 (evItems xs0) fin0) (hne : st0 ≠ [])
    (hret : ∀ k zs hw r, k ≤ xs0.length → getN (d + 1) fs k st0 = some (zs, hw) →
      innermost hw = some r → ∀ x ∈ xs0, returnable fs r x = true)
    (hretF : ∀ r, innermost fin0 = some r → ∀ x ∈ xs0, returnable fs r x = true)
    (env : Block.Env) (fuel : Nat) (c : Block.Cls) (st : Block.St) (rd : List Rd)
    (h : Abs dir d fs st0 xs0 fin0 rd st.stream) :
    (∃ rd', Abs dir d fs st0 xs0 fin0 rd' (Block.run env fuel c st).2.stream) ∧
    (∀ t, (Block.run env fuel c st).1 = .tree t → ∀ a ∈ t.frontier, Genuine dir xs0 a) :=
  abs_preserved_by_run hd hne hret hretF env fuel c st rd h

/-- the final reader state of a chunk source (`read_comments_once`) -/
def finOf (r : Rd) (cs : List Chunk) : List Rd :=
  [{ r with src := [], linecount := r.linecount + totalLines cs,
            linesRev := ((srcOf cs).map cook).reverse ++ r.linesRev, closed := true }]

/-- CHUNK LAYOUTS, no side condition: for a free-form source made of clean chunks (comments kept
    or ignored), every run of the block model on the stream of that reader — started at the
    beginning — ends in a stream that is represented by a reader chain. -/
theorem chunk_run_is_represented (dir : Item → Bool) (d : Nat) (fs : Fs) (o : Bool) (cs : List Chunk)
    (r : Rd) (hok : ∀ c ∈ cs, c.ok o) (h0 : r.omp = o) (hfifo : r.fifo = []) (h1 : r.filo = [])
    (h2 : r.closed = false) (h3 : r.isFree = true) (hsrc : r.src = srcOf cs)
    (hni : ∀ x ∈ chunkItems r.ignoreComments r.linecount cs, NoInc x)
    (env : Block.Env) (fuel : Nat) (c : Block.Cls) :
    ∃ rd, Abs dir d fs [r] (chunkItems r.ignoreComments r.linecount cs) (finOf r cs) rd
      (Block.run env fuel c (Block.St.init (absItems dir 0
        (chunkItems r.ignoreComments r.linecount cs)))).2.stream := by
  have hd := (read_comments_once d fs o cs r hok h0 hfifo h1 h2 h3 hsrc hni).1
  have hret := chunk_returnable d fs o cs r hok h0 hfifo h1 h2 h3 hsrc hni
  have hretF : ∀ r', innermost (finOf r cs) = some r' →
      ∀ x ∈ chunkItems r.ignoreComments r.linecount cs, returnable fs r' x = true := by
    intro r' hi x hx
    simp only [finOf, innermost, Option.some.injEq] at hi
    subst hi
    obtain ⟨hkp, hns⟩ := chunkItems_keep_nosemi r.ignoreComments o cs r.linecount hok x hx
    exact returnable_of fs _ x hkp hns (hni x hx)
  exact (block_run_represented (dir := dir) hd (by simp) hret hretF env fuel c).1

/-! ## 2. C07 end to end -/

/-- C07, EVERY SOURCE (free and fixed form, INCLUDE readers, any layout), lower bound.  If the
    stream has pulled `k + 1` items and no read has hit the end, every reader chain it represents
    is `putMany back hw` where `hw` — the chain right after the delivery of `g`, the `k`-th item —
    contains the reader that produced `g`, standing at or behind the last line of `g`
    (`item_span_bounds`); putting items back never moves `linecount`.  So the line reported for
    an unmatched statement is never a line BEFORE the end of that statement.  (Equality needs the
    layout: `error_line_is_last_line_of_g`.) -/
theorem error_line_not_before_g (dir : Item → Bool) (d : Nat) (fs : Fs) (st0 : List Rd)
    (xs0 : List Item) (fin0 rd : List Rd) (s : Block.Stream) (hok : AllOK st0)
    (hrep : Abs dir d fs st0 xs0 fin0 rd s) (he : s.eof = false) (k : Nat) (hp : s.pulled = k + 1)
    (g : Item) (hg : xs0[k]? = some g) :
    ∃ back hw, rd = putMany back hw ∧ linecount rd = linecount hw ∧
      ∃ r ∈ hw, 1 ≤ g.first ∧ g.first ≤ g.last ∧ g.last ≤ r.linecount := by
  obtain ⟨bx, hw, r', hrd, _, _, _, _, _, he0, _⟩ := hrep
  have hgn := he0 he
  rw [hp] at hgn
  obtain ⟨zs', stk, x, h1, h2, h3⟩ := getN_unsnoc (d + 1) fs k st0 hw _ hgn
  have hlen := getN_length (d + 1) fs k st0 stk zs' h1
  have hx : x = g := by
    have ht : xs0.take (k + 1) = xs0.take k ++ [g] := by
      rw [List.take_add_one, hg]; rfl
    rw [ht] at h3
    have hl : (xs0.take k).length = zs'.length := by
      have := congrArg List.length h3
      simp only [List.length_append, List.length_cons, List.length_nil] at this
      omega
    have := (List.append_inj h3 hl).2
    simpa using this.symm
  subst hx
  have hb := item_span_bounds (d + 1) fs stk hw x (getN_allOK (d + 1) fs k st0 stk zs' hok h1) h2
  exact ⟨_, hw, hrd, by rw [hrd, putMany_linecount], hb.2⟩

/-- C07, READER HALF: WHICH PHYSICAL LINES HAVE BEEN READ AFTER `k` DELIVERIES.  Free-form source
    = chunk list `cs1 ++ c :: cs2`, the item of `c` is kept (not an ignored comment), `k` = its
    position + 1.  Every reader chain represented by a stream with `pulled = k` (and no read at
    the end of the source) is `putMany back [afterItem r cs1 c (srcOf cs2)]`: the reader has read
    exactly the physical lines of `cs1` and of `c`, up to the LAST physical line of the `k`-th item
    and not one line more; the comment lines inside `c` have been read with it and wait on
    `fifo_item`; `back` = items that were put back. -/
theorem reader_at_item (dir : Item → Bool) (d : Nat) (fs : Fs) (o : Bool) (cs1 cs2 : List Chunk)
    (c : Chunk) (r : Rd) (hok : ∀ c' ∈ cs1 ++ c :: cs2, c'.ok o)
    (h0 : r.omp = o) (hfifo : r.fifo = []) (h1 : r.filo = []) (h2 : r.closed = false)
    (h3 : r.isFree = true) (hsrc : r.src = srcOf (cs1 ++ c :: cs2))
    (hni : ∀ x ∈ chunkItems r.ignoreComments r.linecount (cs1 ++ c :: cs2), NoInc x)
    (hkeep : ((c.item (r.linecount + totalLines cs1)).isComment && r.ignoreComments) = false)
    (fin0 rd : List Rd) (s : Block.Stream)
    (hrep : Abs dir d fs [r] (chunkItems r.ignoreComments r.linecount (cs1 ++ c :: cs2)) fin0 rd s)
    (hp : s.pulled = (chunkItems r.ignoreComments r.linecount cs1).length + 1) (he : s.eof = false) :
    ∃ back, rd = putMany back [afterItem r cs1 c (srcOf cs2)] := by
  have hk : keep r.ignoreComments (c.item (r.linecount + totalLines cs1)) = true := by
    simp only [keep, hkeep, Bool.not_false]
  have hsplit : chunkItems r.ignoreComments r.linecount (cs1 ++ c :: cs2) =
      chunkItems r.ignoreComments r.linecount cs1 ++ c.item (r.linecount + totalLines cs1) ::
        ((c.comments (r.linecount + totalLines cs1)).filter (keep r.ignoreComments) ++
          chunkItems r.ignoreComments (r.linecount + totalLines cs1 + c.lines.length) cs2) := by
    rw [chunkItems_append_rf]
    simp only [chunkItems, List.filter_cons, hk, if_true, List.cons_append]
  have hsrc' : r.src = srcOf cs1 ++ (c.lines ++ srcOf cs2) := by
    rw [hsrc, srcOf_append_rf]; rfl
  have hst := steps_to_item o cs1 c (srcOf cs2) r
    (fun c' hc' => hok c' (List.mem_append_left _ hc'))
    (hok c (List.mem_append_right _ List.mem_cons_self)) h0 hfifo h1 h2 h3 hsrc' hkeep
  have hgn := getN_of_steps d fs hst (fun x hx => hni x (by
    rw [hsplit]
    simp only [List.mem_append, List.mem_cons, List.not_mem_nil, or_false] at hx ⊢
    rcases hx with hx | rfl
    · exact Or.inl hx
    · exact Or.inr (Or.inl rfl)))
  simp only [List.length_append, List.length_cons, List.length_nil] at hgn
  obtain ⟨bx, hw, r', hrd, _, _, _, _, _, he0, _⟩ := hrep
  have hhw := he0 he
  rw [hp, hgn] at hhw
  simp only [Option.some.injEq, Prod.mk.injEq] at hhw
  exact ⟨_, by rw [hrd, ← hhw.2]⟩

/-- C07: `linecount` and `source_lines[linecount - 1]` of that reader.  `tight`: the span of the
    item ends at the last line of its chunk (true for the four chunk kinds: `*Chunk_tight`). -/
theorem afterItem_error_line (o : Bool) (cs1 : List Chunk) (c : Chunk) (rest : List Str) (r : Rd)
    (back : List Item) (hokc : c.ok o) (ht : c.tight) (h1 : r.filo = []) (hinv : Reader.Inv r) :
    linecount (putMany back [afterItem r cs1 c rest]) = (c.item (r.linecount + totalLines cs1)).last ∧
    linecount (putMany back [afterItem r cs1 c rest]) = r.linecount + totalLines cs1 + c.lines.length ∧
    (sourceLines (putMany back [afterItem r cs1 c rest]))[linecount (putMany back [afterItem r cs1 c rest]) - 1]? =
      (c.lines.map cook).getLast? := by
  have hlc : linecount (putMany back [afterItem r cs1 c rest]) =
      r.linecount + totalLines cs1 + c.lines.length := by
    rw [putMany_linecount]; rfl
  refine ⟨by rw [hlc, ht], hlc, ?_⟩
  rw [hlc, putMany_sourceLines]
  have hlen : r.linecount = r.linesRev.length := by
    have := hinv; unfold Reader.Inv at this; rw [h1] at this; simpa using this
  have hne : c.lines.map cook ≠ [] := by
    have hne1 := hokc.nonempty
    intro e
    have hc : c.lines = [] := List.map_eq_nil_iff.mp e
    rw [hc] at hne1; simp at hne1
  have hsl : sourceLines [afterItem r cs1 c rest] =
      (r.linesRev.reverse ++ (srcOf cs1).map cook) ++ c.lines.map cook := by
    simp [sourceLines, Rd.sourceLines, afterItem, List.reverse_append, List.map_append]
  rw [hsl, ← getLast_index _ _ hne]
  congr 1
  simp [srcOf_length, hlen]

/-- C07: the Comment items buffered behind the item of `c` (comments kept) are delivered one by
    one WITHOUT any further read: after the item and `j` of its comments the reader is still
    `afterItem …` with only `fifo_item` shortened — `linecount`, `source_lines` and the unread
    source are unchanged. -/
theorem buffered_comments_read_nothing (d : Nat) (fs : Fs) (o : Bool) (cs1 : List Chunk) (c : Chunk)
    (rest : List Str) (r : Rd) (hok1 : ∀ c' ∈ cs1, c'.ok o) (hokc : c.ok o)
    (h0 : r.omp = o) (hfifo : r.fifo = []) (h1 : r.filo = []) (h2 : r.closed = false)
    (h3 : r.isFree = true) (hic : r.ignoreComments = false)
    (hsrc : r.src = srcOf cs1 ++ (c.lines ++ rest))
    (hni : ∀ x ∈ chunkItems false r.linecount cs1 ++ [c.item (r.linecount + totalLines cs1)], NoInc x)
    (j : Nat) :
    getN (d + 1) fs ((chunkItems false r.linecount cs1).length + 1 +
        ((c.comments (r.linecount + totalLines cs1)).take j).length) [r] =
      some (chunkItems false r.linecount cs1 ++ [c.item (r.linecount + totalLines cs1)] ++
              (c.comments (r.linecount + totalLines cs1)).take j,
            [{ afterItem r cs1 c rest with fifo := (c.comments (r.linecount + totalLines cs1)).drop j }]) := by
  have hst := steps_to_item o cs1 c rest r hok1 hokc h0 hfifo h1 h2 h3 hsrc (by simp [hic])
  rw [hic] at hst
  have hcm := hokc.comments (r.linecount + totalLines cs1)
  have hpre := steps_fifo_prefix (c.comments (r.linecount + totalLines cs1)) j (afterItem r cs1 c rest)
    rfl (by simp [afterItem, hic]) hcm
  have hall := hst.append hpre
  have := getN_of_steps d fs hall (fun x hx => by
    rcases List.mem_append.mp hx with hx | hx
    · exact hni x hx
    · have hc := hcm x (List.mem_of_mem_take hx)
      cases x with
      | comment t s e b => exact NoInc.comment _ _ _ _
      | line _ _ _ _ _ => cases hc
      | synerr _ _ _ => cases hc
      | cpp _ _ _ => cases hc)
  simp only [List.length_append, List.length_cons, List.length_nil, Nat.zero_add] at this
  exact this

/-- C07, FREE-FORM CHUNK LAYOUTS, END TO END.  The source is the chunk list `cs1 ++ c :: cs2`
    (comment lines, one-line statements, continued statements with comment / blank lines inside,
    preprocessor directives); `g`, the item of chunk `c` — a statement or directive, position
    `|chunkItems cs1|` of the delivery order — is matched by NO leaf class (`Unmatched`).  Run any
    class of any table on the stream of that reader.  At the end of the run — in particular when
    `Program(reader)` raises `FortranSyntaxError(reader, …)` — IF `g` has been read at all
    (`hread`), then for EVERY reader chain `rd` that the final stream represents:

    * exactly `|cs1-items| + 1` items have been pulled and no read has hit the end of the source
      (`no_read_past_unmatched`, `unmatched_keeps_eof`);
    * `rd` is the reader that has read exactly the physical lines of `cs1` and of `c` — nothing
      behind the last line of `g` — plus items put back (`reader_at_item`);
    * `reader.linecount` = last line of the span of `g` = number of physical lines of `cs1`, `c`;
    * `reader.source_lines[reader.linecount - 1]` is the (cooked) last physical line of `g`:
      the two things `FortranSyntaxError.__init__` prints.

    Comment / blank lines BETWEEN the continuation lines of `g` lie strictly inside its span
    (`contChunk_comments_inside`): they are read before `g` is delivered, their Comment items wait
    on `fifo_item` (`afterItem`), and delivering them later reads nothing
    (`buffered_comments_read_nothing`). -/
theorem error_line_is_last_line_of_g
    (dir : Item → Bool) (d : Nat) (fs : Fs) (o : Bool) (cs1 cs2 : List Chunk) (c : Chunk) (r : Rd)
    (hok : ∀ c' ∈ cs1 ++ c :: cs2, c'.ok o) (ht : c.tight)
    (h0 : r.omp = o) (hfifo : r.fifo = []) (h1 : r.filo = []) (h2 : r.closed = false)
    (h3 : r.isFree = true) (hinv : Reader.Inv r) (hsrc : r.src = srcOf (cs1 ++ c :: cs2))
    (hni : ∀ x ∈ chunkItems r.ignoreComments r.linecount (cs1 ++ c :: cs2), NoInc x)
    (hline : (c.item (r.linecount + totalLines cs1)).isComment = false)
    (env : Block.Env) (fuel : Nat) (cl : Block.Cls)
    (hu : Block.Unmatched env (absItem dir (chunkItems r.ignoreComments r.linecount cs1).length
      (c.item (r.linecount + totalLines cs1))))
    (fin0 rd : List Rd) (sF : Block.Stream)
    (hrun : sF = (Block.run env fuel cl (Block.St.init (absItems dir 0
      (chunkItems r.ignoreComments r.linecount (cs1 ++ c :: cs2))))).2.stream)
    (hrep : Abs dir d fs [r] (chunkItems r.ignoreComments r.linecount (cs1 ++ c :: cs2)) fin0 rd sF)
    (hread : (chunkItems r.ignoreComments r.linecount cs1).length < sF.pulled) :
    sF.pulled = (chunkItems r.ignoreComments r.linecount cs1).length + 1 ∧ sF.eof = false ∧
    (∃ back, rd = putMany back [afterItem r cs1 c (srcOf cs2)]) ∧
    linecount rd = (c.item (r.linecount + totalLines cs1)).last ∧
    linecount rd = r.linecount + totalLines cs1 + c.lines.length ∧
    (sourceLines rd)[linecount rd - 1]? = (c.lines.map cook).getLast? := by
  have hkeep : ((c.item (r.linecount + totalLines cs1)).isComment && r.ignoreComments) = false := by
    simp [hline]
  have hk : keep r.ignoreComments (c.item (r.linecount + totalLines cs1)) = true := by
    simp only [keep, hkeep, Bool.not_false]
  -- the delivery order, split at `g`
  have hsplit : chunkItems r.ignoreComments r.linecount (cs1 ++ c :: cs2) =
      chunkItems r.ignoreComments r.linecount cs1 ++ c.item (r.linecount + totalLines cs1) ::
        ((c.comments (r.linecount + totalLines cs1)).filter (keep r.ignoreComments) ++
          chunkItems r.ignoreComments (r.linecount + totalLines cs1 + c.lines.length) cs2) := by
    rw [chunkItems_append_rf]
    simp only [chunkItems, List.filter_cons, hk, if_true, List.cons_append]
  -- block side: nothing behind `g` is pulled, no read hits the end
  have hp : sF.pulled = (chunkItems r.ignoreComments r.linecount cs1).length + 1 ∧ sF.eof = false := by
    have hrest : (Block.St.init (absItems dir 0 (chunkItems r.ignoreComments r.linecount (cs1 ++ c :: cs2)))).stream.rest =
        absItems dir 0 (chunkItems r.ignoreComments r.linecount cs1) ++
          absItem dir (chunkItems r.ignoreComments r.linecount cs1).length (c.item (r.linecount + totalLines cs1)) ::
          absItems dir ((chunkItems r.ignoreComments r.linecount cs1).length + 1)
            ((c.comments (r.linecount + totalLines cs1)).filter (keep r.ignoreComments) ++
              chunkItems r.ignoreComments (r.linecount + totalLines cs1 + c.lines.length) cs2) := by
      rw [hsplit]
      simp only [Block.St.init, absItems_append, absItems, Nat.zero_add]
    have hb := (Block.no_read_past_unmatched env fuel cl _ _ _ _ hu rfl hrest).1
    have he := Block.unmatched_keeps_eof env fuel cl _ _ _ _ hu rfl hrest
    rw [← hrun] at hb he
    simp only [Block.St.init, absItems_length, Nat.zero_add] at hb he
    exact ⟨by omega, he⟩
  -- reader side
  obtain ⟨back, hback⟩ := reader_at_item dir d fs o cs1 cs2 c r hok h0 hfifo h1 h2 h3 hsrc hni hkeep
    fin0 rd sF hrep hp.1 hp.2
  have hl := afterItem_error_line o cs1 c (srcOf cs2) r back
    (hok c (List.mem_append_right _ List.mem_cons_self)) ht h1 hinv
  rw [← hback] at hl
  exact ⟨hp.1, hp.2, ⟨back, hback⟩, hl⟩

/-- C07 END TO END WITHOUT THE REPRESENTATION HYPOTHESIS: same situation as
    `error_line_is_last_line_of_g`; a reader chain following the run EXISTS
    (`chunk_run_is_represented`), and it stands on the last line of `g`. -/
theorem error_line_is_last_line_of_g_total
    (dir : Item → Bool) (d : Nat) (fs : Fs) (o : Bool) (cs1 cs2 : List Chunk) (c : Chunk) (r : Rd)
    (hok : ∀ c' ∈ cs1 ++ c :: cs2, c'.ok o) (ht : c.tight)
    (h0 : r.omp = o) (hfifo : r.fifo = []) (h1 : r.filo = []) (h2 : r.closed = false)
    (h3 : r.isFree = true) (hinv : Reader.Inv r) (hsrc : r.src = srcOf (cs1 ++ c :: cs2))
    (hni : ∀ x ∈ chunkItems r.ignoreComments r.linecount (cs1 ++ c :: cs2), NoInc x)
    (hline : (c.item (r.linecount + totalLines cs1)).isComment = false)
    (env : Block.Env) (fuel : Nat) (cl : Block.Cls)
    (hu : Block.Unmatched env (absItem dir (chunkItems r.ignoreComments r.linecount cs1).length
      (c.item (r.linecount + totalLines cs1))))
    (hread : (chunkItems r.ignoreComments r.linecount cs1).length <
      (Block.run env fuel cl (Block.St.init (absItems dir 0
        (chunkItems r.ignoreComments r.linecount (cs1 ++ c :: cs2))))).2.stream.pulled) :
    ∃ rd back,
      Abs dir d fs [r] (chunkItems r.ignoreComments r.linecount (cs1 ++ c :: cs2))
        (finOf r (cs1 ++ c :: cs2)) rd
        (Block.run env fuel cl (Block.St.init (absItems dir 0
          (chunkItems r.ignoreComments r.linecount (cs1 ++ c :: cs2))))).2.stream ∧
      rd = putMany back [afterItem r cs1 c (srcOf cs2)] ∧
      linecount rd = (c.item (r.linecount + totalLines cs1)).last ∧
      linecount rd = r.linecount + totalLines cs1 + c.lines.length ∧
      (sourceLines rd)[linecount rd - 1]? = (c.lines.map cook).getLast? := by
  obtain ⟨rd, hrep⟩ := chunk_run_is_represented dir d fs o (cs1 ++ c :: cs2) r hok h0 hfifo h1 h2 h3
    hsrc hni env fuel cl
  obtain ⟨_, _, ⟨back, hb⟩, e1, e2, e3⟩ := error_line_is_last_line_of_g dir d fs o cs1 cs2 c r hok ht
    h0 hfifo h1 h2 h3 hinv hsrc hni hline env fuel cl hu _ rd _ rfl hrep hread
  exact ⟨rd, back, hrep, hb, e1, e2, e3⟩

/-- C07, block half next to `no_read_past_unmatched`: while an item matched by no class is ahead,
    NO read of any class call hits the end of the source — for every table, oracle, fuel, class
    and outcome the `eof` flag keeps its value.  (Otherwise the reader would have swallowed the
    trailing comment / blank lines up to the end of the file and `linecount` would be the last
    line of the FILE.) -/
theorem unmatched_never_hits_eof (env : Block.Env) (fuel : Nat) (c : Block.Cls) (st : Block.St)
    (g : Block.Item) (pre post : List Block.Item) (hu : Block.Unmatched env g)
    (hb : st.stream.buf = []) (hr : st.stream.rest = pre ++ g :: post) :
    (Block.run env fuel c st).2.stream.eof = st.stream.eof :=
  Block.unmatched_keeps_eof env fuel c st g pre post hu hb hr

/-- C07, comment lines between continuation lines (`join_continuation` layouts, `WFc`): every
    Comment item buffered behind the continued statement has a one-line span STRICTLY inside the
    span of the statement: `first(stmt) < n = n < last(stmt)`.  It was read before the statement
    was delivered; it cannot move `linecount` past the statement's last line. -/
theorem continuation_comments_inside_span (l1 l2 : Str) (ls : List Str) (b1 : Str) (lab : Option Nat)
    (nam : Option Str) (c : CLine) (cs : List CLine) (hw : WFc (c :: cs)) (lc : Nat) :
    ∀ x ∈ (contChunk l1 l2 ls b1 lab nam c cs).comments lc,
      ((contChunk l1 l2 ls b1 lab nam c cs).item lc).first < x.first ∧ x.first = x.last ∧
      x.last < ((contChunk l1 l2 ls b1 lab nam c cs).item lc).last :=
  contChunk_comments_inside l1 l2 ls b1 lab nam c cs hw lc

/-! ## 3. C11 / C14 end to end -/

/-- C11 / C14, END TO END, comments kept (`ignore_comments = False`), repaired `Program.match`.
    Source = any list of clean chunks.  The reader delivers exactly `chunkItems false …`
    (`read_comments_once`); `Program(reader)` run on its stream returns a tree; no drop event.
    Then the leaves of the tree of kind `k` (Comment items: `k = .comment`; preprocessor lines:
    `k = .cpp`; statements) ARE, decoded by their position in the delivery order, the items of that
    kind of the source — every comment line and every comment inside a continued statement —
    each exactly once, in source order; and the whole frontier of the tree is the sequence of
    delivered items. -/
theorem comments_are_leaves_once (dir : Item → Bool) (d : Nat) (fs : Fs) (o : Bool) (cs : List Chunk)
    (r : Rd) (hok : ∀ c ∈ cs, c.ok o) (h0 : r.omp = o) (hfifo : r.fifo = []) (h1 : r.filo = [])
    (h2 : r.closed = false) (h3 : r.isFree = true) (hic : r.ignoreComments = false)
    (hsrc : r.src = srcOf cs) (hni : ∀ x ∈ chunkItems false r.linecount cs, NoInc x)
    (k : Block.ItemKind) (env : Block.Env) (fuel : Nat) (cl unit main0 : Block.Cls)
    (st' : Block.St) (t : Block.Tree)
    (hk : env.tbl.kind cl = .program unit main0 [])
    (hq : env.tbl.quirks.programContinues = true)
    (h : Block.run env (fuel + 1) cl (Block.St.init (absItems dir 0 (chunkItems false r.linecount cs)))
      = (.tree t, st'))
    (hd : Block.D st' = Block.D (Block.St.init (absItems dir 0 (chunkItems false r.linecount cs)))) :
    (∃ fin, Drains (d + 1) fs [r] (evItems (chunkItems false r.linecount cs)) fin) ∧
    (t.frontier.filter (fun a => decide (a.kind = k))).map (decode (chunkItems false r.linecount cs)) =
      ((chunkItems false r.linecount cs).filter (fun x => decide (absKind x = k))).map some ∧
    t.frontier = absItems dir 0 (chunkItems false r.linecount cs) := by
  have hdr := (read_comments_once d fs o cs r hok h0 hfifo h1 h2 h3 hsrc (by rw [hic]; exact hni)).1
  rw [hic] at hdr
  refine ⟨⟨_, hdr⟩, ?_, ?_⟩
  · have := Block.comments_once_in_order (fun a => decide (a.kind = k)) env fuel cl unit main0 _ st' t
      hk hq h hd
    simp only [Block.itemsOf, Block.St.init, Block.Stream.all, List.nil_append] at this
    rw [← this]
    exact absItems_filter_decode_all dir _ k
  · have h1 := Block.frontier_eq_consumed env (fuel + 1) cl _ st' t h hd
    have h2 := Block.program_consumes_all env fuel cl unit main0 _ st' t hk h (Or.inl hq)
    rw [h2, List.append_nil] at h1
    simpa [Block.St.init, Block.Stream.all] using h1.symm

/-! ## 4. C12 / C13: back-tracking of the block matcher is invisible to the reader -/

/-- C12 / C13, END TO END.  A class call that ends in "no match" (`None` or `NoMatchError`) without
    a drop event: for every reader chain `rd` represented by the stream before the call and every
    chain `rd'` represented by the stream after it, the complete futures (`Drains`: every item
    that `get_item` will still deliver, in order, to the end state) coincide — all the reading
    ahead, putting back, INCLUDE-reader delegation and re-reading in between left no trace. -/
theorem block_backtracking_is_invisible (dir : Item → Bool) (d : Nat) (fs : Fs) (st0 : List Rd)
    (xs0 : List Item) (fin0 rd rd' : List Rd) (env : Block.Env) (fuel : Nat) (c : Block.Cls)
    (st st' : Block.St) (out : Block.Outcome)
    (h : Block.run env fuel c st = (out, st')) (ho : out = .none ∨ out = .raise .noMatch)
    (hd : Block.D st' = Block.D st)
    (ha : Abs dir d fs st0 xs0 fin0 rd st.stream) (ha' : Abs dir d fs st0 xs0 fin0 rd' st'.stream) :
    ∃ fut, Drains (d + 1) fs rd (evItems fut) fin0 ∧ Drains (d + 1) fs rd' (evItems fut) fin0 := by
  have hall : st'.stream.all = st.stream.all := by
    rcases ho with rfl | rfl
    · exact Block.fail_restores env fuel c st st' h hd
    · exact Block.nomatch_restores env fuel c st st' h hd
  exact abs_same_future ha ha' hall

/-- … and such chains exist: from a represented state, after a class call that ends in no-match
    there is a reader chain represented by the new stream, with the same complete future. -/
theorem block_backtracking_is_invisible_total (dir : Item → Bool) (d : Nat) (fs : Fs) (st0 : List Rd)
    (xs0 : List Item) (fin0 rd : List Rd)
    (hd : Drains (d + 1) fs st0 (evItems xs0) fin0) (hne : st0 ≠ [])
    (hret : ∀ k zs hw r, k ≤ xs0.length → getN (d + 1) fs k st0 = some (zs, hw) →
      innermost hw = some r → ∀ x ∈ xs0, returnable fs r x = true)
    (hretF : ∀ r, innermost fin0 = some r → ∀ x ∈ xs0, returnable fs r x = true)
    (env : Block.Env) (fuel : Nat) (c : Block.Cls)
    (st st' : Block.St) (out : Block.Outcome)
    (h : Block.run env fuel c st = (out, st')) (ho : out = .none ∨ out = .raise .noMatch)
    (hdrop : Block.D st' = Block.D st) (ha : Abs dir d fs st0 xs0 fin0 rd st.stream) :
    ∃ rd' fut, Abs dir d fs st0 xs0 fin0 rd' st'.stream ∧
      Drains (d + 1) fs rd (evItems fut) fin0 ∧ Drains (d + 1) fs rd' (evItems fut) fin0 := by
  obtain ⟨rd', ha'⟩ := (block_run_is_represented dir d fs st0 xs0 fin0 hd hne hret hretF env fuel c st rd ha).1
  rw [h] at ha'
  obtain ⟨fut, f1, f2⟩ := block_backtracking_is_invisible dir d fs st0 xs0 fin0 rd rd' env fuel c st st'
    out h ho hdrop ha ha'
  exact ⟨rd', fut, ha', f1, f2⟩

end Fp.Refine

/-! ## non-vacuity: one concrete source through both models -/

namespace Fp.Refine.Demo
open Fp Fp.Reader Fp.Refine

/-- the four-chunk source of `Props/Reader2.lean`:
    `10 a = 1` / `  ! top` / `b = &` / ` ! in` / `  2` / `#endif` -/
def rd0 (ic : Bool) : Rd := Rd.mk' (srcOf demoChunks) true ic false false []

def x0 : Item := .line "a = 1".toList (some 10) none 1 1
def xc1 : Item := .comment "! top".toList 2 2 false
def x2 : Item := .line "b =   2".toList none none 3 5
def xc3 : Item := .comment "! in".toList 4 4 false
def x4 : Item := .cpp "#endif".toList 6 6

theorem itemsT : chunkItems true 0 demoChunks = [x0, x2, x4] := by decide +kernel
theorem itemsF : chunkItems false 0 demoChunks = [x0, xc1, x2, xc3, x4] := by decide +kernel

theorem noInc_line (t : Str) (l : Option Nat) (n : Option Str) (s e : Nat) (h : includeRe t = none) :
    NoInc (.line t l n s e) := by
  intro text l' n' s' e' hv
  simp only [Item.lineView, Option.some.injEq, Prod.mk.injEq] at hv
  rw [← hv.1]; exact h

theorem noInc_cpp (t : Str) (s e : Nat) (h : includeRe t = none) : NoInc (.cpp t s e) := by
  intro text l' n' s' e' hv
  simp only [Item.lineView, Option.some.injEq, Prod.mk.injEq] at hv
  rw [← hv.1]; exact h

theorem noIncF : ∀ x ∈ [x0, xc1, x2, xc3, x4], NoInc x := by
  intro x hx
  simp only [List.mem_cons, List.not_mem_nil, or_false] at hx
  rcases hx with rfl | rfl | rfl | rfl | rfl
  · exact noInc_line _ _ _ _ _ (by decide +kernel)
  · exact NoInc.comment _ _ _ _
  · exact noInc_line _ _ _ _ _ (by decide +kernel)
  · exact NoInc.comment _ _ _ _
  · exact noInc_cpp _ _ _ (by decide +kernel)

theorem noIncT : ∀ x ∈ [x0, x2, x4], NoInc x := fun x hx =>
  noIncF x (by
    simp only [List.mem_cons, List.not_mem_nil, or_false] at hx ⊢
    rcases hx with rfl | rfl | rfl <;> simp)

/-- the hypothesis of `reader_refines_stream`: both readers deliver exactly these items -/
theorem drainsT : ∃ fin, Drains 1 [] [rd0 true] (evItems [x0, x2, x4]) fin := by
  have h := (read_comments_once 0 [] false demoChunks (rd0 true) demoChunks_ok rfl rfl rfl rfl rfl rfl
    (by show ∀ x ∈ chunkItems true 0 demoChunks, NoInc x
        rw [itemsT]; exact noIncT)).1
  have h' : Drains 1 [] [rd0 true] (evItems (chunkItems true 0 demoChunks)) _ := h
  rw [itemsT] at h'
  exact ⟨_, h'⟩

theorem drainsF : ∃ fin, Drains 1 [] [rd0 false] (evItems [x0, xc1, x2, xc3, x4]) fin := by
  have h := (read_comments_once 0 [] false demoChunks (rd0 false) demoChunks_ok rfl rfl rfl rfl rfl rfl
    (by show ∀ x ∈ chunkItems false 0 demoChunks, NoInc x
        rw [itemsF]; exact noIncF)).1
  have h' : Drains 1 [] [rd0 false] (evItems (chunkItems false 0 demoChunks)) _ := h
  rw [itemsF] at h'
  exact ⟨_, h'⟩

/-- instance of `reader_refines_stream` (o): the abstraction function at the start -/
example : ∃ fuel, absStream (fun _ => false) 1 [] fuel [rd0 true] 0 =
    (Block.St.init (absItems (fun _ => false) 0 [x0, x2, x4])).stream := by
  obtain ⟨fin, fuel, h⟩ := drainsT
  exact ⟨fuel, (reader_refines_stream (fun _ => false) 0 [] [rd0 true] _ fin ⟨fuel, h⟩ (by simp)).1 fuel h⟩

/-- instance of `absStream_after` (k = 0) -/
example : ∃ fuel fin, Abs (fun _ => false) 0 [] [rd0 true] ([] ++ [x0, x2, x4]) fin [rd0 true]
    (absStream (fun _ => false) 1 [] fuel [rd0 true] 0) := by
  obtain ⟨fin, fuel, h⟩ := drainsT
  exact ⟨fuel, fin, absStream_after _ 0 [] _ _ fin [] _ 0 fuel rfl h (by simp)⟩

/-- a statement item can always be put back -/
theorem returnable_line (fs : Fs) (r : Rd) (t : Str) (l : Option Nat) (n : Option Str) (s e : Nat)
    (h1 : (stringReplaceMap t true).1.contains ';' = false) (h2 : (includeRe t).isSome = false) :
    returnable fs r (.line t l n s e) = true := by
  have h1' : ¬ (';' ∈ (stringReplaceMap t true).1) := by simpa using h1
  simp [returnable, Item.isComment, Item.lineView, h1', h2]

theorem ret_x0 (fs : Fs) (r : Rd) : returnable fs r x0 = true :=
  returnable_line fs r _ _ _ _ _ (by decide +kernel) (by decide +kernel)
theorem ret_x2 (fs : Fs) (r : Rd) : returnable fs r x2 = true :=
  returnable_line fs r _ _ _ _ _ (by decide +kernel) (by decide +kernel)

/-- instance of the hypotheses of `lookahead_walk_commutes` / `walk_restore_both`: `g g p p` -/
example : ∃ fin st' s' fut, runWalk 0 [] [.g, .g, .p, .p] [rd0 true] [] = some (st', []) ∧
    absWalk [.g, .g, .p, .p] (Block.St.init (absItems (fun _ => false) 0 [x0, x2, x4])).stream [] = some (s', []) ∧
    Abs (fun _ => false) 0 [] [rd0 true] [x0, x2, x4] fin st' s' ∧
    Drains 1 [] [rd0 true] (evItems fut) fin ∧ Drains 1 [] st' (evItems fut) fin := by
  obtain ⟨fin, hd⟩ := drainsT
  have ha := (reader_refines_stream (fun _ => false) 0 [] [rd0 true] _ fin hd (by simp)).2.1
  have hsome : ((runWalk 0 [] [.g, .g, .p, .p] [rd0 true] []).map (·.2)) = some [] := by decide +kernel
  cases hw : runWalk 0 [] [.g, .g, .p, .p] [rd0 true] [] with
  | none => rw [hw] at hsome; cases hsome
  | some p =>
    obtain ⟨st', got'⟩ := p
    rw [hw] at hsome
    simp only [Option.map_some, Option.some.injEq] at hsome
    subst hsome
    obtain ⟨s', fut, h1, h2, _, h4, h5⟩ := walk_restore_both _ 0 [] _ _ fin _ _ st' _ ha hw
    exact ⟨fin, st', s', fut, rfl, h1, h2, h4, h5⟩

/-! ### C07: `a = 1` is accepted, `b = & … 2` is matched by no class -/

open Fp.Block.W in
def orcC07 : Block.Oracle := fun i c =>
  match i, c with
  | 0, 5 => ans (.matched stmtInfo)
  | _, _ => ans .none

open Fp.Block.W in
def envC07 : Block.Env := env {} orcC07

def sInitT : Block.Stream := (Block.St.init (absItems (fun _ => false) 0 [x0, x2, x4])).stream

/-- the run: `Program(reader)` raises `FortranSyntaxError`; at that moment two items have been
    pulled and both have been put back -/
theorem runC07 :
    Block.W.outKind (Block.run envC07 12 0 (Block.St.init (absItems (fun _ => false) 0 [x0, x2, x4]))).1 = 3 ∧
    (Block.run envC07 12 0 (Block.St.init (absItems (fun _ => false) 0 [x0, x2, x4]))).2.stream =
      ((sInitT.get.2.get.2).put (absItem (fun _ => false) 1 x2)).put (absItem (fun _ => false) 0 x0) := by
  decide +kernel

theorem cs_split : demoChunks =
    [stmtChunk "10 a = 1".toList "a = 1".toList (some 10) none, commentChunk "  ! top".toList " top".toList] ++
    contChunk "b = &".toList " ! in".toList ["  2".toList] "b = ".toList none none
      (.comment " ! in".toList) [.cont "  ".toList "2".toList false false] ::
    [cppChunk "#endif".toList []] := rfl

/-- a reader chain represented by the final stream of that run -/
theorem repC07 : ∃ fin rd, Abs (fun _ => false) 0 [] [rd0 true] [x0, x2, x4] fin rd
    (((sInitT.get.2.get.2).put (absItem (fun _ => false) 1 x2)).put (absItem (fun _ => false) 0 x0)) := by
  obtain ⟨fin, hd⟩ := drainsT
  have ha := (reader_refines_stream (fun _ => false) 0 [] [rd0 true] _ fin hd (by simp)).2.1
  have h1 := (abs_get ha).1
  have h2 := (abs_get h1).1
  obtain ⟨r2, hi2⟩ := abs_innermost h2
  have h3 := abs_put h2 r2 x2 1 hi2 (ret_x2 _ _) rfl
  obtain ⟨r3, hi3⟩ := abs_innermost h3
  have h4 := abs_put h3 r3 x0 0 hi3 (ret_x0 _ _) rfl
  exact ⟨fin, _, h4⟩

/-- INSTANCE of `error_line_is_last_line_of_g`: for `10 a = 1 / ! top / b = & / ! in / 2 / #endif`
    with `b = …` unmatched, `Program(reader)` raises `FortranSyntaxError` with
    `reader.linecount = 5` and `reader.source_lines[4] = "  2"`: the LAST line of the continued
    statement (the comment line 4 inside it was read before, `#endif` on line 6 has not been read) -/
example : ∃ rd : List Rd, linecount rd = 5 ∧ (sourceLines rd)[4]? = some "  2".toList ∧
    ∃ back, rd = putMany back
      [afterItem (rd0 true)
        [stmtChunk "10 a = 1".toList "a = 1".toList (some 10) none, commentChunk "  ! top".toList " top".toList]
        (contChunk "b = &".toList " ! in".toList ["  2".toList] "b = ".toList none none
          (.comment " ! in".toList) [.cont "  ".toList "2".toList false false])
        (srcOf [cppChunk "#endif".toList []])] := by
  obtain ⟨fin, rd, hrep⟩ := repC07
  have hitems : chunkItems (rd0 true).ignoreComments (rd0 true).linecount
      ([stmtChunk "10 a = 1".toList "a = 1".toList (some 10) none,
        commentChunk "  ! top".toList " top".toList] ++
      contChunk "b = &".toList " ! in".toList ["  2".toList] "b = ".toList none none
        (.comment " ! in".toList) [.cont "  ".toList "2".toList false false] ::
      [cppChunk "#endif".toList []]) = [x0, x2, x4] := itemsT
  have hl : (chunkItems (rd0 true).ignoreComments (rd0 true).linecount
      [stmtChunk "10 a = 1".toList "a = 1".toList (some 10) none,
        commentChunk "  ! top".toList " top".toList]).length = 1 := by decide +kernel
  have h := error_line_is_last_line_of_g (fun _ => false) 0 [] false
    [stmtChunk "10 a = 1".toList "a = 1".toList (some 10) none, commentChunk "  ! top".toList " top".toList]
    [cppChunk "#endif".toList []]
    (contChunk "b = &".toList " ! in".toList ["  2".toList] "b = ".toList none none
      (.comment " ! in".toList) [.cont "  ".toList "2".toList false false])
    (rd0 true) demoChunks_ok
    (contChunk_tight _ _ _ _ _ _ _ _ (Cooked.cons (by decide) Cooked.nil))
    rfl rfl rfl rfl rfl (mk'_ok _ _ _ _ _ _).1 rfl
    (by rw [hitems]; exact noIncT) rfl envC07 12 0
    (by
      refine ⟨by decide +kernel, fun c => Or.inl ?_⟩
      show (orcC07 (chunkItems (rd0 true).ignoreComments (rd0 true).linecount _).length c).res = .none
      rw [hl]; rfl)
    fin rd (((sInitT.get.2.get.2).put (absItem (fun _ => false) 1 x2)).put (absItem (fun _ => false) 0 x0))
    (by rw [hitems]; exact runC07.2.symm) (by rw [hitems]; exact hrep)
    (by rw [hl]; decide +kernel)
  obtain ⟨_, _, hback, _, hlc, hsl⟩ := h
  have hlc5 : linecount rd = 5 := hlc
  refine ⟨rd, hlc5, ?_, hback⟩
  rw [hlc5] at hsl
  rw [hsl]
  decide +kernel

/-- INSTANCE of `buffered_comments_read_nothing` (comments kept): after `a = 1`, `! top`,
    `b = … 2` AND the comment `! in` buffered behind it (4 deliveries) `linecount` is still 5 -/
example : ∃ xs hw, getN 1 [] 4 [rd0 false] = some (xs, [hw]) ∧ xs.length = 4 ∧ hw.linecount = 5 ∧
    hw.src = srcOf [cppChunk "#endif".toList []] ∧ hw.fifo = [] := by
  have hi : chunkItems false (rd0 false).linecount
      [stmtChunk "10 a = 1".toList "a = 1".toList (some 10) none,
        commentChunk "  ! top".toList " top".toList] = [x0, xc1] := by decide +kernel
  have h := buffered_comments_read_nothing 0 [] false
    [stmtChunk "10 a = 1".toList "a = 1".toList (some 10) none, commentChunk "  ! top".toList " top".toList]
    (contChunk "b = &".toList " ! in".toList ["  2".toList] "b = ".toList none none
      (.comment " ! in".toList) [.cont "  ".toList "2".toList false false])
    (srcOf [cppChunk "#endif".toList []]) (rd0 false)
    (fun c hc => demoChunks_ok c (by
      simp only [List.mem_cons, List.not_mem_nil, or_false] at hc
      rcases hc with rfl | rfl <;> simp [demoChunks]))
    (demoChunks_ok _ (by simp [demoChunks])) rfl rfl rfl rfl rfl rfl rfl
    (by
      rw [hi]
      intro x hx
      exact noIncF x (by
        simp only [List.cons_append, List.nil_append, List.mem_cons, List.not_mem_nil, or_false] at hx ⊢
        rcases hx with rfl | rfl | rfl
        · exact Or.inl rfl
        · exact Or.inr (Or.inl rfl)
        · exact Or.inr (Or.inr (Or.inl rfl))))
    1
  rw [hi] at h
  exact ⟨_, _, h, by decide +kernel, rfl, rfl, rfl⟩

/-- INSTANCE of `error_line_not_before_g` and of `unmatched_never_hits_eof` on the same run -/
example : ∃ rd back hw, rd = putMany back hw ∧ linecount rd = linecount hw ∧ ∃ r ∈ hw, 5 ≤ r.linecount := by
  obtain ⟨fin, rd, hrep⟩ := repC07
  have heof : (Block.run envC07 12 0 (Block.St.init (absItems (fun _ => false) 0 [x0, x2, x4]))).2.stream.eof
      = false :=
    unmatched_never_hits_eof envC07 12 0 _ (absItem (fun _ => false) 1 x2)
      [absItem (fun _ => false) 0 x0] [absItem (fun _ => false) 2 x4]
      ⟨by decide, fun c => Or.inl rfl⟩ rfl rfl
  rw [runC07.2] at heof
  obtain ⟨back, hw, h1, h2, r, hr, _, _, h5⟩ := error_line_not_before_g (fun _ => false) 0 [] [rd0 true]
    [x0, x2, x4] fin rd _ (by
      intro r hr
      simp only [List.mem_singleton] at hr
      subst hr; exact mk'_ok _ _ _ _ _ _) hrep heof 1 rfl x2 rfl
  exact ⟨rd, back, hw, h1, h2, r, hr, h5⟩

/-- INSTANCE of `continuation_comments_inside_span`: `! in` on line 4, statement on lines 3–5 -/
example : ∀ x ∈ (contChunk "b = &".toList " ! in".toList ["  2".toList] "b = ".toList none none
      (.comment " ! in".toList) [.cont "  ".toList "2".toList false false]).comments 2,
    3 < x.first ∧ x.first = x.last ∧ x.last < 5 :=
  continuation_comments_inside_span _ _ _ _ _ _ _ _
    (by simp only [WFc, CLine.ok, CLine.isLast, CleanBody, Blanks, NoC]; decide) 2

theorem noSemiT : ∀ x ∈ [x0, x2, x4], NoSemi x := by
  intro x hx
  simp only [List.mem_cons, List.not_mem_nil, or_false] at hx
  rcases hx with rfl | rfl | rfl <;>
    (intro text l n s e hv
     simp only [x0, x2, x4, Item.lineView, Option.some.injEq, Prod.mk.injEq] at hv
     rw [← hv.1]; decide +kernel)

/-- the statement / directive items of the demo source may be put back at ANY reader -/
theorem retT (fs : Fs) (r : Rd) : ∀ x ∈ [x0, x2, x4], returnable fs r x = true := by
  intro x hx
  refine returnable_of fs r x ?_ (noSemiT x hx) (noIncT x hx)
  simp only [List.mem_cons, List.not_mem_nil, or_false] at hx
  rcases hx with rfl | rfl | rfl <;> rfl

/-- INSTANCE of `block_run_is_represented` (and of `Block.run_in`): the run of `Program` on the
    demo source is followed by a reader chain — no replay needed -/
example : ∃ fin rd', Abs (fun _ => false) 0 [] [rd0 true] [x0, x2, x4] fin rd'
    (Block.run envC07 12 0 (Block.St.init (absItems (fun _ => false) 0 [x0, x2, x4]))).2.stream := by
  obtain ⟨fin, hd⟩ := drainsT
  have ha := (reader_refines_stream (fun _ => false) 0 [] [rd0 true] _ fin hd (by simp)).2.1
  obtain ⟨rd', h⟩ := (block_run_is_represented (fun _ => false) 0 [] [rd0 true] [x0, x2, x4] fin hd (by simp)
    (fun _ _ _ r _ _ _ => retT [] r) (fun r _ => retT [] r) envC07 12 0
    (Block.St.init (absItems (fun _ => false) 0 [x0, x2, x4])) [rd0 true] ha).1
  exact ⟨fin, rd', h⟩

/-- INSTANCE of `error_line_is_last_line_of_g_total` / `chunk_run_is_represented`: the same
    conclusion as above (`linecount = 5`, `source_lines[4] = "  2"`) with no representation
    hypothesis at all -/
example : ∃ rd : List Rd, linecount rd = 5 ∧ (sourceLines rd)[4]? = some "  2".toList := by
  have hitems : chunkItems (rd0 true).ignoreComments (rd0 true).linecount
      ([stmtChunk "10 a = 1".toList "a = 1".toList (some 10) none,
        commentChunk "  ! top".toList " top".toList] ++
      contChunk "b = &".toList " ! in".toList ["  2".toList] "b = ".toList none none
        (.comment " ! in".toList) [.cont "  ".toList "2".toList false false] ::
      [cppChunk "#endif".toList []]) = [x0, x2, x4] := itemsT
  have hl : (chunkItems (rd0 true).ignoreComments (rd0 true).linecount
      [stmtChunk "10 a = 1".toList "a = 1".toList (some 10) none,
        commentChunk "  ! top".toList " top".toList]).length = 1 := by decide +kernel
  obtain ⟨rd, back, _, _, _, hlc, hsl⟩ := error_line_is_last_line_of_g_total (fun _ => false) 0 [] false
    [stmtChunk "10 a = 1".toList "a = 1".toList (some 10) none, commentChunk "  ! top".toList " top".toList]
    [cppChunk "#endif".toList []]
    (contChunk "b = &".toList " ! in".toList ["  2".toList] "b = ".toList none none
      (.comment " ! in".toList) [.cont "  ".toList "2".toList false false])
    (rd0 true) demoChunks_ok
    (contChunk_tight _ _ _ _ _ _ _ _ (Cooked.cons (by decide) Cooked.nil))
    rfl rfl rfl rfl rfl (mk'_ok _ _ _ _ _ _).1 rfl
    (by rw [hitems]; exact noIncT) rfl envC07 12 0
    (by
      refine ⟨by decide +kernel, fun c => Or.inl ?_⟩
      show (orcC07 (chunkItems (rd0 true).ignoreComments (rd0 true).linecount _).length c).res = .none
      rw [hl]; rfl)
    (by rw [hitems, hl, runC07.2]; decide +kernel)
  have hlc5 : linecount rd = 5 := hlc
  refine ⟨rd, hlc5, ?_⟩
  rw [hlc5] at hsl
  rw [hsl]
  decide +kernel

/-- INSTANCE of `matcher_only_handles_items_it_got`: identities below 3 stay below 3 -/
example : ∀ x ∈ (Block.run envC07 12 0
    (Block.St.init (absItems (fun _ => false) 0 [x0, x2, x4]))).2.stream.all, x.id < 3 :=
  (matcher_only_handles_items_it_got (fun a => a.id < 3) envC07 12 0 _ (by decide)).1

/-- the get/put events of that run follow the discipline `Lifo` -/
example : Lifo [] (Block.run envC07 12 0
    (Block.St.init (absItems (fun _ => false) 0 [x0, x2, x4]))).2.log.reverse = true := by
  decide +kernel

/-- INSTANCE of `lookahead_walk_commutes` with the matcher's OWN walk: the get/put events of the
    block-model run above, replayed on the reader (`runWalk`), succeed, and the reader chain they
    lead to is represented by the final stream of the block model -/
example : ∃ fin st' got' held',
    runWalk 0 [] (opsOfLog (Block.run envC07 12 0
      (Block.St.init (absItems (fun _ => false) 0 [x0, x2, x4]))).2.log.reverse) [rd0 true] [] = some (st', got') ∧
    absWalk (opsOfLog (Block.run envC07 12 0
      (Block.St.init (absItems (fun _ => false) 0 [x0, x2, x4]))).2.log.reverse) sInitT [] =
      some ((Block.run envC07 12 0 (Block.St.init (absItems (fun _ => false) 0 [x0, x2, x4]))).2.stream, held') ∧
    Abs (fun _ => false) 0 [] [rd0 true] [x0, x2, x4] fin st'
      (Block.run envC07 12 0 (Block.St.init (absItems (fun _ => false) 0 [x0, x2, x4]))).2.stream := by
  obtain ⟨fin, hd⟩ := drainsT
  have ha := (reader_refines_stream (fun _ => false) 0 [] [rd0 true] _ fin hd (by simp)).2.1
  have hsome : (runWalk 0 [] (opsOfLog (Block.run envC07 12 0
      (Block.St.init (absItems (fun _ => false) 0 [x0, x2, x4]))).2.log.reverse) [rd0 true] []).isSome = true := by
    decide +kernel
  have habs : (absWalk (opsOfLog (Block.run envC07 12 0
      (Block.St.init (absItems (fun _ => false) 0 [x0, x2, x4]))).2.log.reverse) sInitT []).map (·.1) =
      some (Block.run envC07 12 0 (Block.St.init (absItems (fun _ => false) 0 [x0, x2, x4]))).2.stream := by
    decide +kernel
  cases hw : runWalk 0 [] (opsOfLog (Block.run envC07 12 0
      (Block.St.init (absItems (fun _ => false) 0 [x0, x2, x4]))).2.log.reverse) [rd0 true] [] with
  | none => rw [hw] at hsome; cases hsome
  | some p =>
    obtain ⟨st', got'⟩ := p
    obtain ⟨s', held', h1, h2, _⟩ := lookahead_walk_commutes _ 0 [] _ _ fin _ _ st' [] got' _ [] ha trivial hw
    have h1' : absWalk (opsOfLog (Block.run envC07 12 0
      (Block.St.init (absItems (fun _ => false) 0 [x0, x2, x4]))).2.log.reverse) sInitT [] = some (s', held') := h1
    rw [h1'] at habs
    simp only [Option.map_some, Option.some.injEq] at habs
    subst habs
    exact ⟨fin, st', got', held', rfl, h1', h2⟩

/-! ### C11: `subroutine`-like unit with a comment line and a comment inside a continued statement -/

open Fp.Block.W in
def orcC11 : Block.Oracle := fun i c =>
  match i, c with
  | 0, 3 => ans (.matched (subInfo 5))
  | 2, 5 => ans (.matched stmtInfo)
  | 4, 4 => ans (.matched (endInfo (some 5)))
  | _, _ => ans .none

open Fp.Block.W in
def envC11 : Block.Env := env { programContinues := true } orcC11

theorem runC11 :
    Block.W.outKind (Block.run envC11 13 0
      (Block.St.init (absItems (fun _ => false) 0 [x0, xc1, x2, xc3, x4]))).1 = 0 ∧
    Block.D (Block.run envC11 13 0
      (Block.St.init (absItems (fun _ => false) 0 [x0, xc1, x2, xc3, x4]))).2 = 0 := by
  decide +kernel

/-- INSTANCE of `comments_are_leaves_once`: the Comment leaves of the tree are `! top` (line 2)
    and `! in` (line 4, inside the continued statement), once each, in this order -/
example : ∃ t st', Block.run envC11 13 0
      (Block.St.init (absItems (fun _ => false) 0 [x0, xc1, x2, xc3, x4])) = (.tree t, st') ∧
    (t.frontier.filter (fun a => decide (a.kind = .comment))).map (decode [x0, xc1, x2, xc3, x4]) =
      [some xc1, some xc3] := by
  have hitems : chunkItems false (rd0 false).linecount demoChunks = [x0, xc1, x2, xc3, x4] := itemsF
  cases hr : Block.run envC11 13 0
      (Block.St.init (absItems (fun _ => false) 0 [x0, xc1, x2, xc3, x4])) with
  | mk out st' =>
    have h1 := runC11.1
    have hD := runC11.2
    rw [hr] at h1 hD
    cases out with
    | none => cases h1
    | raise e => cases e <;> cases h1
    | tree t =>
      have h := (comments_are_leaves_once (fun _ => false) 0 [] false demoChunks (rd0 false) demoChunks_ok
        rfl rfl rfl rfl rfl rfl rfl (by rw [hitems]; exact noIncF) .comment envC11 12 0 1 7 st' t rfl rfl
        (by rw [hitems]; exact hr) (by rw [hitems]; exact hD)).2.1
      rw [hitems] at h
      exact ⟨t, st', rfl, h.trans (by decide +kernel)⟩

/-! ### C12: a failing class call -/

open Fp.Block.W in
/-- INSTANCE of `block_backtracking_is_invisible`: the statement class (a leaf) is tried on the
    first item and does not match: one `get`, one `put`; reader chains before and after -/
example : ∃ fin rd' fut,
    Block.W.outKind (Block.run (env {} (fun _ _ => ans .none)) 12 5
      (Block.St.init (absItems (fun _ => false) 0 [x0, x2, x4]))).1 = 1 ∧
    rd' = putItem x0 (cget 0 [] [rd0 true]).2 ∧
    Drains 1 [] [rd0 true] (evItems fut) fin ∧ Drains 1 [] rd' (evItems fut) fin := by
  obtain ⟨fin, hd⟩ := drainsT
  have ha := (reader_refines_stream (fun _ => false) 0 [] [rd0 true] _ fin hd (by simp)).2.1
  have h1 := (abs_get ha).1
  obtain ⟨r1, hi1⟩ := abs_innermost h1
  have h2 := abs_put h1 r1 x0 0 hi1 (ret_x0 _ _) rfl
  have hs : (Block.run (env {} (fun _ _ => ans .none)) 12 5
      (Block.St.init (absItems (fun _ => false) 0 [x0, x2, x4]))).2.stream =
      (sInitT.get.2).put (absItem (fun _ => false) 0 x0) := by decide +kernel
  have hk : Block.W.outKind (Block.run (env {} (fun _ _ => ans .none)) 12 5
      (Block.St.init (absItems (fun _ => false) 0 [x0, x2, x4]))).1 = 1 := by decide +kernel
  have hD : Block.D (Block.run (env {} (fun _ _ => ans .none)) 12 5
      (Block.St.init (absItems (fun _ => false) 0 [x0, x2, x4]))).2 =
      Block.D (Block.St.init (absItems (fun _ => false) 0 [x0, x2, x4])) := by decide +kernel
  cases hr : Block.run (env {} (fun _ _ => ans .none)) 12 5
      (Block.St.init (absItems (fun _ => false) 0 [x0, x2, x4])) with
  | mk out st' =>
    rw [hr] at hs hk hD
    have ho : out = .none := by
      cases out with
      | none => rfl
      | tree t => cases hk
      | raise e => cases e <;> cases hk
    simp only at hs
    obtain ⟨fut, f1, f2⟩ := block_backtracking_is_invisible (fun _ => false) 0 [] [rd0 true] [x0, x2, x4] fin
      [rd0 true] (putItem x0 (cget 0 [] [rd0 true]).2) _ 12 5 _ st' out hr (Or.inl ho) hD ha
      (by rw [hs]; exact h2)
    exact ⟨fin, _, fut, hk, rfl, f1, f2⟩

open Fp.Block.W in
/-- INSTANCE of `block_backtracking_is_invisible_total` -/
example : ∃ fin rd' fut,
    Abs (fun _ => false) 0 [] [rd0 true] [x0, x2, x4] fin rd'
      (Block.run (env {} (fun _ _ => ans .none)) 12 5
        (Block.St.init (absItems (fun _ => false) 0 [x0, x2, x4]))).2.stream ∧
    Drains 1 [] [rd0 true] (evItems fut) fin ∧ Drains 1 [] rd' (evItems fut) fin := by
  obtain ⟨fin, hd⟩ := drainsT
  have ha := (reader_refines_stream (fun _ => false) 0 [] [rd0 true] _ fin hd (by simp)).2.1
  have hk : Block.W.outKind (Block.run (env {} (fun _ _ => ans .none)) 12 5
      (Block.St.init (absItems (fun _ => false) 0 [x0, x2, x4]))).1 = 1 := by decide +kernel
  have hD : Block.D (Block.run (env {} (fun _ _ => ans .none)) 12 5
      (Block.St.init (absItems (fun _ => false) 0 [x0, x2, x4]))).2 =
      Block.D (Block.St.init (absItems (fun _ => false) 0 [x0, x2, x4])) := by decide +kernel
  cases hr : Block.run (env {} (fun _ _ => ans .none)) 12 5
      (Block.St.init (absItems (fun _ => false) 0 [x0, x2, x4])) with
  | mk out st' =>
    rw [hr] at hk hD
    have ho : out = .none := by
      cases out with
      | none => rfl
      | tree t => cases hk
      | raise e => cases e <;> cases hk
    obtain ⟨rd', fut, h1, h2, h3⟩ := block_backtracking_is_invisible_total (fun _ => false) 0 []
      [rd0 true] [x0, x2, x4] fin [rd0 true] hd (by simp) (fun _ _ _ r _ _ _ => retT [] r)
      (fun r _ => retT [] r) _ 12 5 _ st' out hr (Or.inl ho) hD ha
    exact ⟨fin, rd', fut, h1, h2, h3⟩

end Fp.Refine.Demo
