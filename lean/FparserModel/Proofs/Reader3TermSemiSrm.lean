import FparserModel.Proofs.Reader3TermSemiChars
import FparserModel.Proofs.ReaderPut

/-!
# Reader3TermSemiSrm — `string_replace_map` introduces no `;`

`splitquote`, `splitparen` only cut the line into pieces; the keys that replace string constants,
real constants and parenthesised expressions are `_F2PY_STRING_CONSTANT_<n>_`,
`F2PY_REAL_CONSTANT_<n>_`, `F2PY_EXPR_TUPLE_<n>`. Hence a text without `;` has a tokenised form
without `;`, and `_next` does not split the item (`NoSemi`).
-/
namespace Fp.Reader
open Fp

theorem NS.spanPlain : ∀ s : Str, NS s → NS (spanPlain s).1 ∧ NS (spanPlain s).2
  | [], _ => ⟨NS.nil, NS.nil⟩
  | c :: cs, h => by
    unfold Fp.Reader.spanPlain
    split
    · exact ⟨NS.nil, h⟩
    · have ih := NS.spanPlain cs h.tail
      exact ⟨NS.cons h.head ih.1, ih.2⟩

theorem NS.spanLit (q : Char) : ∀ (s a b : Str), spanLit q s = some (a, b) → NS s → NS a ∧ NS b
  | [], a, b, h, _ => by simp [Fp.Reader.spanLit] at h
  | [c], a, b, h, hs => by
    unfold Fp.Reader.spanLit at h
    split at h
    · cases h; exact ⟨hs, NS.nil⟩
    · cases h
  | c :: d :: cs, a, b, h, hs => by
    unfold Fp.Reader.spanLit at h
    split at h
    · split at h
      · cases hr : Fp.Reader.spanLit q cs with
        | none => rw [hr] at h; simp at h
        | some r =>
          rw [hr] at h
          simp only [Option.map_some, Option.some.injEq, Prod.mk.injEq] at h
          obtain ⟨rfl, rfl⟩ := h
          have ih := NS.spanLit q cs r.1 r.2 (by rw [hr]) hs.tail.tail
          exact ⟨NS.cons hs.head (NS.cons hs.tail.head ih.1), ih.2⟩
      · cases h; exact ⟨NS.cons hs.head NS.nil, hs.tail⟩
    · cases hr : Fp.Reader.spanLit q (d :: cs) with
      | none => rw [hr] at h; simp at h
      | some r =>
        rw [hr] at h
        simp only [Option.map_some, Option.some.injEq, Prod.mk.injEq] at h
        obtain ⟨rfl, rfl⟩ := h
        have ih := NS.spanLit q (d :: cs) r.1 r.2 (by rw [hr]) hs.tail
        exact ⟨NS.cons hs.head ih.1, ih.2⟩

def SegsNS (l : List Seg) : Prop := ∀ g ∈ l, NS g.str

theorem SegsNS.nil : SegsNS [] := fun _ h => by cases h
theorem SegsNS.cons {g : Seg} {l : List Seg} (h1 : NS g.str) (h2 : SegsNS l) : SegsNS (g :: l) :=
  fun x hx => by
    rcases List.mem_cons.mp hx with rfl | h
    · exact h1
    · exact h2 x h
theorem SegsNS.append {a b : List Seg} (h1 : SegsNS a) (h2 : SegsNS b) : SegsNS (a ++ b) :=
  fun x hx => by
    rcases List.mem_append.mp hx with h | h
    · exact h1 x h
    · exact h2 x h

theorem NS.splitLoop : ∀ (fuel : Nat) (line : Str), NS line → SegsNS (splitLoop fuel line).1
  | 0, _, _ => by simp only [Fp.Reader.splitLoop]; exact SegsNS.nil
  | fuel + 1, line, h => by
    unfold Fp.Reader.splitLoop
    split
    · exact SegsNS.nil
    · have hp := NS.spanPlain line h
      split
      · rename_i p heq
        rw [heq] at hp
        exact SegsNS.cons hp.1 SegsNS.nil
      · rename_i p q body heq
        rw [heq] at hp
        have hpre : SegsNS (if p = [] then [] else [Seg.plain p]) := by
          split
          · exact SegsNS.nil
          · exact SegsNS.cons hp.1 SegsNS.nil
        simp only []
        split
        · exact hpre.append (SegsNS.cons hp.2 SegsNS.nil)
        · rename_i lit rest hl
          have hlr := NS.spanLit q body lit rest hl hp.2.tail
          exact hpre.append (SegsNS.cons (NS.cons hp.2.head hlr.1) (NS.splitLoop fuel rest hlr.2))

theorem NS.splitquote (line : Str) (stop : Option Char) (h : NS line) :
    SegsNS (splitquote line stop).1 := by
  unfold Fp.Reader.splitquote
  cases stop with
  | none => exact NS.splitLoop _ line h
  | some q =>
    simp only []
    split
    · exact SegsNS.cons h SegsNS.nil
    · rename_i lit rest hl
      have hlr := NS.spanLit q line lit rest hl h
      exact SegsNS.cons hlr.1 (NS.splitLoop _ rest hlr.2)

theorem NS.splitquoteL (line : Str) (b : Bool) (h : NS line) : SegsNS (splitquoteL line b) := by
  unfold Fp.Reader.splitquoteL
  have hs := NS.splitquote line none h
  split
  · intro g hg
    obtain ⟨g0, hg0, rfl⟩ := List.mem_map.mp hg
    have := hs g0 hg0
    cases g0 with
    | plain s => exact NS.lower this
    | quoted s => exact this
  · exact hs

/-! ### splitparen -/

def PSeg.str : PSeg → Str
  | .plain s => s
  | .paren s => s

def PNS (st : PState) : Prop := NS st.cur ∧ ∀ g ∈ st.out, NS g.str

theorem parenStep_ns (st : PState) (c : Char) (hc : c ≠ ';') (h : PNS st) : PNS (parenStep st c) := by
  obtain ⟨h1, h2⟩ := h
  have hc1 : NS (c :: st.cur) := NS.cons hc h1
  have hplain : ∀ g ∈ PSeg.plain st.cur.reverse :: st.out, NS g.str := fun g hg => by
    rcases List.mem_cons.mp hg with rfl | hg
    · exact h1.reverse
    · exact h2 g hg
  have hparen : ∀ g ∈ PSeg.paren (c :: st.cur).reverse :: st.out, NS g.str := fun g hg => by
    rcases List.mem_cons.mp hg with rfl | hg
    · exact hc1.reverse
    · exact h2 g hg
  unfold parenStep
  simp only []
  repeat' split
  all_goals first
    | exact ⟨hc1, h2⟩
    | exact ⟨NS.cons hc NS.nil, hplain⟩
    | exact ⟨NS.nil, hparen⟩

theorem foldl_parenStep_ns : ∀ (line : Str) (st : PState), NS line → PNS st →
    PNS (line.foldl parenStep st)
  | [], st, _, h => h
  | c :: cs, st, hl, h => by
    simp only [List.foldl_cons]
    exact foldl_parenStep_ns cs _ hl.tail (parenStep_ns st c hl.head h)

theorem NS.splitparen (line : Str) (h : NS line) : ∀ g ∈ splitparen line, NS g.str := by
  unfold Fp.Reader.splitparen
  have hst := foldl_parenStep_ns line {} h ⟨NS.nil, fun _ hg => by cases hg⟩
  generalize line.foldl parenStep {} = st at hst
  simp only []
  intro g hg
  rw [List.mem_reverse] at hg
  split at hg
  · exact hst.2 g hg
  · rcases List.mem_cons.mp hg with rfl | hg
    · exact hst.1.reverse
    · exact hst.2 g hg

/-! ### the three replacement loops -/

def RevNS (st : Srm) : Prop := (∀ p ∈ st.rev, NS p.2) ∧ (∀ p ∈ st.revParen, NS p.2)

theorem SMap.get_mem {m : SMap} {k v : Str} (h : m.get k = some v) : ∃ p ∈ m, p.2 = v := by
  unfold SMap.get at h
  cases hf : m.find? (·.1 == k) with
  | none => rw [hf] at h; simp at h
  | some p =>
    rw [hf] at h
    simp only [Option.map_some, Option.some.injEq] at h
    exact ⟨p, List.mem_of_find?_eq_some hf, h⟩

theorem NS.kStr : NS kStr := by unfold NS Fp.Reader.kStr; decide
theorem NS.kReal : NS kReal := by unfold NS Fp.Reader.kReal; decide
theorem NS.kExpr : NS kExpr := by unfold NS Fp.Reader.kExpr; decide

theorem NS.lastD {s : Str} (h : NS s) : NS (lastD s) := by
  unfold Fp.Reader.lastD; exact h.of_getLast?

theorem NS.inner {s : Str} (h : NS s) : NS (inner s) := by
  unfold Fp.Reader.inner; exact (h.drop 1).dropLast

theorem srmStrings_ns : ∀ (segs : List Seg) (st : Srm) (acc : Str), SegsNS segs → RevNS st → NS acc →
    RevNS (srmStrings segs st acc).1 ∧ NS (srmStrings segs st acc).2
  | [], st, acc, _, h2, h3 => by simp only [srmStrings]; exact ⟨h2, h3⟩
  | seg :: rest, st, acc, h1, h2, h3 => by
    have hrest : SegsNS rest := fun g hg => h1 g (List.mem_cons_of_mem _ hg)
    have hseg := h1 seg List.mem_cons_self
    unfold srmStrings
    cases seg with
    | plain item => exact srmStrings_ns rest st _ hrest h2 (h3.append hseg)
    | quoted item =>
      simp only []
      have hitem : NS item := hseg
      split
      · split
        · rename_i key hk
          obtain ⟨p, hp, rfl⟩ := SMap.get_mem hk
          exact srmStrings_ns rest st _ hrest h2
            (((h3.append (hitem.take 1)).append (h2.1 p hp)).append hitem.lastD)
        · have hkey : NS (kStr ++ natToStr (st.strIdx + 1) ++ ['_']) :=
            (NS.kStr.append (NS.natToStr _)).append (NS.cons (by decide) NS.nil)
          refine srmStrings_ns rest _ _ hrest ⟨?_, h2.2⟩
            (((h3.append (hitem.take 1)).append hkey).append hitem.lastD)
          intro p hp
          rcases List.mem_cons.mp hp with rfl | hp
          · exact hkey
          · exact h2.1 p hp
      · exact srmStrings_ns rest st _ hrest h2 (h3.append hitem)

theorem replaceAllAux_ns (old new : Str) (hn : NS new) : ∀ (fuel : Nat) (s : Str), NS s →
    NS (replaceAllAux old new fuel s)
  | 0, s, h => by simp only [replaceAllAux]; exact h
  | fuel + 1, [], _ => by simp only [replaceAllAux]; exact NS.nil
  | fuel + 1, c :: cs, h => by
    unfold replaceAllAux
    split
    · exact hn.append (replaceAllAux_ns old new hn fuel _ (h.drop _))
    · exact NS.cons h.head (replaceAllAux_ns old new hn fuel cs h.tail)

theorem srmConsts_ns : ∀ (fs : List Str) (st : Srm) (nl : Str), RevNS st → NS nl →
    RevNS (srmConsts fs st nl).1 ∧ NS (srmConsts fs st nl).2
  | [], st, nl, h2, h3 => by simp only [srmConsts]; exact ⟨h2, h3⟩
  | found :: rest, st, nl, h2, h3 => by
    unfold srmConsts
    split
    · rename_i key hk
      obtain ⟨p, hp, rfl⟩ := SMap.get_mem hk
      exact srmConsts_ns rest st _ h2 (replaceAllAux_ns _ _ (h2.1 p hp) _ _ h3)
    · have hkey : NS (kReal ++ natToStr (st.constIdx + 1) ++ ['_']) :=
        (NS.kReal.append (NS.natToStr _)).append (NS.cons (by decide) NS.nil)
      refine srmConsts_ns rest _ _ ⟨?_, h2.2⟩ (replaceAllAux_ns _ _ hkey _ _ h3)
      intro p hp
      rcases List.mem_cons.mp hp with rfl | hp
      · exact hkey
      · exact h2.1 p hp

theorem srmParens_ns : ∀ (segs : List PSeg) (st : Srm) (acc : Str), (∀ g ∈ segs, NS g.str) → RevNS st →
    NS acc → NS (srmParens segs st acc).2
  | [], st, acc, _, _, h3 => by simp only [srmParens]; exact h3
  | seg :: rest, st, acc, h1, h2, h3 => by
    have hrest : ∀ g ∈ rest, NS g.str := fun g hg => h1 g (List.mem_cons_of_mem _ hg)
    have hseg := h1 seg List.mem_cons_self
    unfold srmParens
    cases seg with
    | plain item => exact srmParens_ns rest st _ hrest h2 (h3.append hseg)
    | paren item =>
      simp only []
      have hitem : NS item := hseg
      split
      · split
        · rename_i key hk
          obtain ⟨p, hp, rfl⟩ := SMap.get_mem hk
          exact srmParens_ns rest st _ hrest h2
            (((h3.append (hitem.take 1)).append (h2.2 p hp)).append hitem.lastD)
        · have hkey : NS (kExpr ++ natToStr (st.parenIdx + 1)) := NS.kExpr.append (NS.natToStr _)
          refine srmParens_ns rest _ _ hrest ⟨h2.1, ?_⟩
            (((h3.append (hitem.take 1)).append hkey).append hitem.lastD)
          intro p hp
          rcases List.mem_cons.mp hp with rfl | hp
          · exact hkey
          · exact h2.2 p hp
      · exact srmParens_ns rest st _ hrest h2 (h3.append hitem)

theorem RevNS.empty : RevNS {} := ⟨fun _ hp => (by cases hp), fun _ hp => (by cases hp)⟩

/-- `string_replace_map` introduces no `;` -/
theorem stringReplaceMap_ns (line : Str) (b : Bool) (h : NS line) : NS (stringReplaceMap line b).1 := by
  unfold stringReplaceMap
  have h1 := srmStrings_ns (splitquoteL line b) {} [] (NS.splitquoteL line b h) RevNS.empty NS.nil
  generalize srmStrings (splitquoteL line b) {} [] = p1 at h1 ⊢
  obtain ⟨st1, nl1⟩ := p1
  simp only [] at h1 ⊢
  have h2 := srmConsts_ns (expConstFind nl1) st1 nl1 h1.1 h1.2
  generalize srmConsts (expConstFind nl1) st1 nl1 = p2 at h2 ⊢
  obtain ⟨st2, nl2⟩ := p2
  simp only [] at h2 ⊢
  have h3 := srmParens_ns (splitparen nl2) st2 [] (NS.splitparen nl2 h2.2) h2.1 NS.nil
  generalize srmParens (splitparen nl2) st2 [] = p3 at h3 ⊢
  obtain ⟨st3, out⟩ := p3
  exact h3

/-- an item whose `Line` text has no `;` character -/
def ItemNS (it : Item) : Prop := ∀ text l n s e, it.lineView = some (text, l, n, s, e) → NS text

/-- … is not split by `_next` -/
theorem ItemNS.noSemi {it : Item} (h : ItemNS it) : NoSemi it :=
  fun text l n s e hv => (stringReplaceMap_ns text true (h text l n s e hv)).contains

theorem ItemNS.comment (t : Str) (s e : Nat) (b : Bool) : ItemNS (.comment t s e b) :=
  fun _ _ _ _ _ h => by simp [Item.lineView] at h

end Fp.Reader
