import FparserModel.Proofs.IoStmtLayoutWrite
/-!
`*_tostr_match_tokens` for `Read_Stmt`, `Print_Stmt`, `Inquire_Stmt`, the keyword tables
(`Io_Control_Spec`, `Connect_Spec`, `Close_Spec`, `Inquire_Spec`, `Alloc_Opt`, `Dealloc_Opt`) and
`Io_Control_Spec_List`.
-/
namespace Fp.IoStmt
open Fp Fp.Splitline
open Fp.Combi (noBlank)

variable {Node : Type}

/-! ## helpers -/

theorem lstrip_idem' (s : Str) : lstrip (lstrip s) = lstrip s := by
  induction s with
  | nil => rfl
  | cons c cs ih =>
    by_cases h : isSpace c = true
    · rw [Combi.lstrip_cons_space cs h]; exact ih
    · have h' : isSpace c = false := by simpa using h
      rw [Combi.lstrip_cons_nonspace cs h', Combi.lstrip_cons_nonspace cs h']

theorem net_none (o : Oracle Node) : net ((Item.none : Item Node).text o) = 0 := by
  show net "None".toList = 0
  decide

/-- a text that starts with `c` and whose tokenised text is cut at the first `d`: the piece before
    the cut starts with `c` -/
theorem head_of_cut {c : Char} {X pre post : Str} {d : Char} (hh : X.head? = some c)
    (hX : X = pre ++ d :: post) (hcd : c ≠ d) : ∃ pre', pre = c :: pre' := by
  cases pre with
  | nil => rw [hX] at hh; simp at hh; exact absurd hh.symm hcd
  | cons x pre' => rw [hX] at hh; simp at hh; exact ⟨pre', by rw [hh]⟩

/-! ## Read_Stmt -/

/-- **Read_Stmt**, both forms (`READ(ctl) items`, `READ fmt, items`): what is matched is printed
    with the same tokens -/
theorem read_tostr_match_tokens (o : Oracle Node) (ho : OracleTok o) (s : Str)
    (items : List (Item Node)) (hm : (planRead s).bind (runSlots o) = .ok items)
    (hs : SrmOK (lstrip (s.drop 4))) :
    ∃ t, tostrRead o items = .ok t ∧ toks t = toks s ∧
      ((∀ i ∈ items, net (i.text o) = 0) → net t = 0) := by
  obtain ⟨slots, hp, hr⟩ := Res.bind_eq_ok hm
  unfold planRead at hp
  split at hp
  · cases hp
  rename_i hkw
  have hkw' : kwIs "READ".toList s = true := by simpa using hkw
  dsimp only at hp
  have hS0 : toks s = toks "READ".toList ++ toks (lstrip (s.drop 4)) := by
    rw [toks_of_kwIs hkw', toks_lstrip]; rfl
  split at hp
  · -- READ(ctl) items
    rename_i hst
    obtain ⟨line1, hline⟩ := startsC_cons (c := '(') (s := lstrip (s.drop 4)) hst
    obtain ⟨r, htok, hp⟩ := Res.bind_eq_ok hp
    have htk := tok_ok htok
    obtain ⟨hseg, hexp⟩ := seg_of_tokenise hs htk
    have hhead : r.text.head? = some '(' :=
      srm_head htk (by decide) (by decide) (by rw [hline]; rfl)
    have hS : toks s = toks "READ".toList ++ toks (applyMap r.map r.text) := by
      rw [hS0, toks_of_noBlank hexp]
    split at hp
    · cases hp
    rename_i pre post hcut
    obtain ⟨htext, _⟩ := Combi.cutFirst_spec _ _ _ hcut
    obtain ⟨pre', rfl⟩ := head_of_cut hhead htext (by decide)
    rw [htext] at hseg hS
    obtain ⟨hsegPre, hsegPost, happ⟩ := Seg.sep isWord_rparen hseg
    obtain ⟨hsegPre', happ1⟩ := Seg.drop1 isWord_lparen hsegPre
    have hA : toks (applyMap r.map (strip pre')) = toks (applyMap r.map pre') :=
      toks_of_noBlank (Seg.strip hsegPre').2
    have hB : toks (applyMap r.map (lstrip post)) = toks (applyMap r.map post) :=
      toks_of_noBlank (Seg.lstrip hsegPost).2
    have e1 : ∀ X : Str, '(' :: X = "(".toList ++ X := fun _ => rfl
    have e2 : ∀ X : Str, ')' :: X = ")".toList ++ X := fun _ => rfl
    have hS' : toks s = toks "READ".toList ++ (toks "(".toList ++ (toks (applyMap r.map pre') ++
        (toks ")".toList ++ toks (applyMap r.map post)))) := by
      rw [hS, happ, happ1, e1, e2]
      simp only [toks_append, List.append_assoc]
    have k1 : toks "READ(".toList = toks "READ".toList ++ toks "(".toList := by decide
    have k2 : toks ") ".toList = toks ")".toList := by decide
    have n1 : net "READ(".toList = 1 := by decide
    have n2 : net ")".toList = -1 := by decide
    have n3 : net ") ".toList = -1 := by decide
    simp only [List.drop_succ_cons, List.drop_zero] at hp
    split at hp
    · cases hp
    split at hp
    · rename_i hpost
      have hpost' : post = [] := by simpa using hpost
      cases hp
      obtain ⟨i, is, rfl, hi, his⟩ := runSlots_cons_ok hr
      obtain ⟨j, js, rfl, hj, hjs⟩ := runSlots_cons_ok his
      obtain ⟨k, ks, rfl, hk, hks⟩ := runSlots_cons_ok hjs
      have := runSlots_nil_ok hks; subst this
      have := runSlot_none_ok hj; subst this
      have := runSlot_none_ok hk; subst this
      have hi' := toks_item_of_child ho hi
      obtain ⟨n, rfl, _⟩ := runSlot_child_ok hi
      refine ⟨_, rfl, ?_, ?_⟩
      · rw [hS', hpost', applyMap_empty]
        simp only [toks_append, k1, hi', hA, toks_nil, List.append_assoc, List.append_nil]
      · intro hb
        have h1 := hb (.node n) (by simp)
        simp only [net_append, n1, n2, h1]; rfl
    · cases hp
      obtain ⟨i, is, rfl, hi, his⟩ := runSlots_cons_ok hr
      obtain ⟨j, js, rfl, hj, hjs⟩ := runSlots_cons_ok his
      obtain ⟨k, ks, rfl, hk, hks⟩ := runSlots_cons_ok hjs
      have := runSlots_nil_ok hks; subst this
      have := runSlot_none_ok hj; subst this
      have hi' := toks_item_of_child ho hi
      have hk' := toks_item_of_child ho hk
      obtain ⟨n, rfl, _⟩ := runSlot_child_ok hi
      obtain ⟨n2', rfl, _⟩ := runSlot_child_ok hk
      refine ⟨_, rfl, ?_, ?_⟩
      · rw [hS']
        simp only [toks_append, k1, k2, hi', hk', hA, hB, List.append_assoc]
      · intro hb
        have h1 := hb (.node n) (by simp)
        have h2 := hb (.node n2') (by simp)
        simp only [net_append, n1, n3, h1, h2]; rfl
  · -- READ fmt, items
    split at hp
    · cases hp
    rename_i c0 rest0 hline
    split at hp
    · cases hp
    rw [lstrip_idem'] at hp
    obtain ⟨r, htok, hp⟩ := Res.bind_eq_ok hp
    have htk := tok_ok htok
    obtain ⟨hseg, hexp⟩ := seg_of_tokenise hs htk
    have hS : toks s = toks "READ".toList ++ toks (applyMap r.map r.text) := by
      rw [hS0, toks_of_noBlank hexp]
    split at hp
    · cases hp
    rename_i pre post hcut
    obtain ⟨htext, _⟩ := Combi.cutFirst_spec _ _ _ hcut
    rw [htext] at hseg hS
    obtain ⟨hsegPre, hsegPost, happ⟩ := Seg.sep isWord_comma hseg
    have hA : toks (applyMap r.map (rstrip pre)) = toks (applyMap r.map pre) :=
      toks_of_noBlank (Seg.rstrip hsegPre).2
    have hB : toks (applyMap r.map (lstrip post)) = toks (applyMap r.map post) :=
      toks_of_noBlank (Seg.lstrip hsegPost).2
    have e2 : ∀ X : Str, ',' :: X = ",".toList ++ X := fun _ => rfl
    have hS' : toks s = toks "READ".toList ++ (toks (applyMap r.map pre) ++
        (toks ",".toList ++ toks (applyMap r.map post))) := by
      rw [hS, happ, e2]
      simp only [toks_append]
    have k1 : toks "READ ".toList = toks "READ".toList := by decide
    have k2 : toks ", ".toList = toks ",".toList := by decide
    have n1 : net "READ ".toList = 0 := by decide
    have n2 : net ", ".toList = 0 := by decide
    split at hp
    · cases hp
    cases hp
    obtain ⟨i, is, rfl, hi, his⟩ := runSlots_cons_ok hr
    obtain ⟨j, js, rfl, hj, hjs⟩ := runSlots_cons_ok his
    obtain ⟨k, ks, rfl, hk, hks⟩ := runSlots_cons_ok hjs
    have := runSlots_nil_ok hks; subst this
    have := runSlot_none_ok hi; subst this
    have hj' := toks_item_of_child ho hj
    have hk' := toks_item_of_child ho hk
    obtain ⟨n, rfl, _⟩ := runSlot_child_ok hj
    obtain ⟨n2', rfl, _⟩ := runSlot_child_ok hk
    refine ⟨_, rfl, ?_, ?_⟩
    · rw [hS']
      simp only [toks_append, k1, k2, hj', hk', hA, hB, List.append_assoc]
    · intro hb
      have h1 := hb (.node n) (by simp)
      have h2 := hb (.node n2') (by simp)
      simp only [net_append, n1, n2, h1, h2]; rfl

/-! ## Print_Stmt -/

/-- **Print_Stmt** (`PRINT fmt`, `PRINT fmt, items`): what is matched is printed with the same
    tokens -/
theorem print_tostr_match_tokens (o : Oracle Node) (ho : OracleTok o) (s : Str)
    (items : List (Item Node)) (hm : (planPrint s).bind (runSlots o) = .ok items)
    (hs : SrmOK (lstrip (s.drop 5))) :
    ∃ t, tostrPrint o items = .ok t ∧ toks t = toks s ∧
      ((∀ i ∈ items, net (i.text o) = 0) → net t = 0) := by
  obtain ⟨slots, hp, hr⟩ := Res.bind_eq_ok hm
  unfold planPrint at hp
  split at hp
  · cases hp
  rename_i hkw
  have hkw' : kwIs "PRINT".toList s = true := by simpa using hkw
  have hS0 : toks s = toks "PRINT".toList ++ toks (lstrip (s.drop 5)) := by
    rw [toks_of_kwIs hkw', toks_lstrip]; rfl
  split at hp
  · cases hp
  rename_i c rest hdrop
  split at hp
  · cases hp
  rw [← hdrop] at hp
  obtain ⟨r, htok, hp⟩ := Res.bind_eq_ok hp
  have htk := tok_ok htok
  obtain ⟨hseg, hexp⟩ := seg_of_tokenise hs htk
  have hS : toks s = toks "PRINT".toList ++ toks (applyMap r.map r.text) := by
    rw [hS0, toks_of_noBlank hexp]
  have k1 : toks "PRINT ".toList = toks "PRINT".toList := by decide
  have k2 : toks ", ".toList = toks ",".toList := by decide
  have n1 : net "PRINT ".toList = 0 := by decide
  have n2 : net ", ".toList = 0 := by decide
  split at hp
  · -- no comma
    cases hp
    obtain ⟨i, is, rfl, hi, his⟩ := runSlots_cons_ok hr
    obtain ⟨j, js, rfl, hj, hjs⟩ := runSlots_cons_ok his
    have := runSlots_nil_ok hjs; subst this
    have := runSlot_none_ok hj; subst this
    have hi' := toks_item_of_child ho hi
    obtain ⟨n, rfl, _⟩ := runSlot_child_ok hi
    refine ⟨_, rfl, ?_, ?_⟩
    · rw [hS]
      simp only [toks_append, k1, hi']
    · intro hb
      have h1 := hb (.node n) (by simp)
      simp only [net_append, n1, h1]; rfl
  · rename_i pre post hcut
    obtain ⟨htext, _⟩ := Combi.cutFirst_spec _ _ _ hcut
    rw [htext] at hseg hS
    obtain ⟨hsegPre, hsegPost, happ⟩ := Seg.sep isWord_comma hseg
    have hA : toks (applyMap r.map (rstrip pre)) = toks (applyMap r.map pre) :=
      toks_of_noBlank (Seg.rstrip hsegPre).2
    have hB : toks (applyMap r.map (lstrip post)) = toks (applyMap r.map post) :=
      toks_of_noBlank (Seg.lstrip hsegPost).2
    have e2 : ∀ X : Str, ',' :: X = ",".toList ++ X := fun _ => rfl
    have hS' : toks s = toks "PRINT".toList ++ (toks (applyMap r.map pre) ++
        (toks ",".toList ++ toks (applyMap r.map post))) := by
      rw [hS, happ, e2]
      simp only [toks_append]
    dsimp only at hp
    split at hp
    · cases hp
    cases hp
    obtain ⟨i, is, rfl, hi, his⟩ := runSlots_cons_ok hr
    obtain ⟨j, js, rfl, hj, hjs⟩ := runSlots_cons_ok his
    have := runSlots_nil_ok hjs; subst this
    have hi' := toks_item_of_child ho hi
    have hj' := toks_item_of_child ho hj
    obtain ⟨n, rfl, _⟩ := runSlot_child_ok hi
    obtain ⟨n2', rfl, _⟩ := runSlot_child_ok hj
    refine ⟨_, rfl, ?_, ?_⟩
    · rw [hS']
      simp only [toks_append, k1, k2, hi', hj', hA, hB, List.append_assoc]
    · intro hb
      have h1 := hb (.node n) (by simp)
      have h2 := hb (.node n2') (by simp)
      simp only [net_append, n1, n2, h1, h2]; rfl

/-! ## Inquire_Stmt -/

theorem starts_ends {line : Str} (h1 : startsC '(' line = true) (h2 : endsC ')' line = true) :
    line = '(' :: inner line ++ [')'] := by
  obtain ⟨t, rfl⟩ := startsC_cons h1
  cases t with
  | nil => simp [endsC] at h2
  | cons x t' =>
    have h3 : (x :: t').getLast? = some ')' := by
      simpa [endsC, List.getLast?_cons_cons] using h2
    have hne : x :: t' ≠ [] := by simp
    have h4 := List.dropLast_concat_getLast hne
    rw [List.getLast_of_mem_getLast? h3] at h4
    simp only [inner, List.drop_succ_cons, List.drop_zero, List.cons_append, List.cons.injEq,
      true_and]
    exact h4.symm

/-- **Inquire_Stmt**, both forms (`INQUIRE(spec-list)`, `INQUIRE(IOLENGTH=v) items`): what is
    matched is printed with the same tokens.  The hypothesis `SrmOK` is used by the second form
    only (the first does not call `string_replace_map`). -/
theorem inquire_tostr_match_tokens (o : Oracle Node) (ho : OracleTok o) (s : Str)
    (items : List (Item Node)) (hm : (planInquire s).bind (runSlots o) = .ok items)
    (hs : endsC ')' (lstrip (s.drop 7)) = false → SrmOK (lstrip (s.drop 7))) :
    ∃ t, tostrInquire o items = .ok t ∧ toks t = toks s ∧
      ((∀ i ∈ items, net (i.text o) = 0) → net t = 0) := by
  obtain ⟨slots, hp, hr⟩ := Res.bind_eq_ok hm
  unfold planInquire at hp
  split at hp
  · cases hp
  rename_i hkw
  have hkw' : kwIs "INQUIRE".toList s = true := by simpa using hkw
  dsimp only at hp
  have hS0 : toks s = toks "INQUIRE".toList ++ toks (lstrip (s.drop 7)) := by
    rw [toks_of_kwIs hkw', toks_lstrip]; rfl
  split at hp
  · cases hp
  rename_i hst
  have hst' : startsC '(' (lstrip (s.drop 7)) = true := by simpa using hst
  have e1 : ∀ X : Str, '(' :: X = "(".toList ++ X := fun _ => rfl
  have e2 : ∀ X : Str, ')' :: X = ")".toList ++ X := fun _ => rfl
  have k1 : toks "INQUIRE(".toList = toks "INQUIRE".toList ++ toks "(".toList := by decide
  split at hp
  · -- INQUIRE(spec-list)
    rename_i hen
    have hl := starts_ends hst' hen
    cases hp
    obtain ⟨i, is, rfl, hi, his⟩ := runSlots_cons_ok hr
    obtain ⟨j, js, rfl, hj, hjs⟩ := runSlots_cons_ok his
    obtain ⟨k, ks, rfl, hk, hks⟩ := runSlots_cons_ok hjs
    have := runSlots_nil_ok hks; subst this
    have := runSlot_none_ok hj; subst this
    have := runSlot_none_ok hk; subst this
    have hi' := toks_item_of_child ho hi
    obtain ⟨n, rfl, _⟩ := runSlot_child_ok hi
    have n1 : net "INQUIRE(".toList = 1 := by decide
    have n2 : net ")".toList = -1 := by decide
    refine ⟨_, rfl, ?_, ?_⟩
    · rw [hS0, hl, e1]
      simp only [toks_append, k1, hi', toks_strip, List.append_assoc]
      rfl
    · intro hb
      have h1 := hb (.node n) (by simp)
      simp only [net_append, n1, n2, h1]; rfl
  · -- INQUIRE(IOLENGTH=v) items
    rename_i hen
    have hs' := hs (by simpa using hen)
    obtain ⟨line1, hline⟩ := startsC_cons hst'
    obtain ⟨r, htok, hp⟩ := Res.bind_eq_ok hp
    have htk := tok_ok htok
    obtain ⟨hseg, hexp⟩ := seg_of_tokenise hs' htk
    have hhead : r.text.head? = some '(' :=
      srm_head htk (by decide) (by decide) (by rw [hline]; rfl)
    have hS : toks s = toks "INQUIRE".toList ++ toks (applyMap r.map r.text) := by
      rw [hS0, toks_of_noBlank hexp]
    split at hp
    · cases hp
    rename_i pre post hcut
    obtain ⟨htext, _⟩ := Combi.cutFirst_spec _ _ _ hcut
    obtain ⟨pre', rfl⟩ := head_of_cut hhead htext (by decide)
    rw [htext] at hseg hS
    obtain ⟨hsegPre, hsegPost, happ⟩ := Seg.sep isWord_rparen hseg
    obtain ⟨hsegPre', happ1⟩ := Seg.drop1 isWord_lparen hsegPre
    have hB : toks (applyMap r.map (lstrip post)) = toks (applyMap r.map post) :=
      toks_of_noBlank (Seg.lstrip hsegPost).2
    have hS' : toks s = toks "INQUIRE".toList ++ (toks "(".toList ++ (toks (applyMap r.map pre') ++
        (toks ")".toList ++ toks (applyMap r.map post)))) := by
      rw [hS, happ, happ1, e1, e2]
      simp only [toks_append, List.append_assoc]
    simp only [List.drop_succ_cons, List.drop_zero] at hp
    split at hp
    · cases hp
    rename_i hio
    have hio' : kwIs "IOLENGTH".toList (applyMap r.map pre') = true := by simpa using hio
    split at hp
    · cases hp
    rename_i heq
    obtain ⟨x, hx⟩ := startsC_cons (c := '=')
      (s := lstrip ((applyMap r.map pre').drop 8)) (by simpa using heq)
    have e3 : ∀ X : Str, '=' :: X = "=".toList ++ X := fun _ => rfl
    have hA : toks (applyMap r.map pre') = toks "IOLENGTH".toList ++ (toks "=".toList ++ toks x) := by
      rw [toks_of_kwIs hio']
      show _ ++ toks ((applyMap r.map pre').drop 8) = _
      rw [← toks_lstrip ((applyMap r.map pre').drop 8), hx, e3, toks_append]
    cases hp
    obtain ⟨i, is, rfl, hi, his⟩ := runSlots_cons_ok hr
    obtain ⟨j, js, rfl, hj, hjs⟩ := runSlots_cons_ok his
    obtain ⟨k, ks, rfl, hk, hks⟩ := runSlots_cons_ok hjs
    have := runSlots_nil_ok hks; subst this
    have := runSlot_none_ok hi; subst this
    have hj' := toks_item_of_child ho hj
    have hk' := toks_item_of_child ho hk
    obtain ⟨n, rfl, _⟩ := runSlot_child_ok hj
    obtain ⟨n2', rfl, _⟩ := runSlot_child_ok hk
    rw [hx] at hj'
    simp only [List.drop_succ_cons, List.drop_zero, toks_lstrip] at hj'
    have k2 : toks "INQUIRE(IOLENGTH=".toList =
        toks "INQUIRE".toList ++ (toks "(".toList ++ (toks "IOLENGTH".toList ++ toks "=".toList)) := by
      decide
    have k3 : toks ") ".toList = toks ")".toList := by decide
    have n1 : net "INQUIRE(IOLENGTH=".toList = 1 := by decide
    have n3 : net ") ".toList = -1 := by decide
    refine ⟨_, rfl, ?_, ?_⟩
    · rw [hS', hA]
      simp only [toks_append, k2, k3, hj', hk', hB, List.append_assoc]
    · intro hb
      have h1 := hb (.node n) (by simp)
      have h2 := hb (.node n2') (by simp)
      simp only [net_append, n1, n3, h1, h2]; rfl

/-- `Inquire_Stmt` under the plain hypothesis (both forms) -/
theorem inquire_tostr_match_tokens' (o : Oracle Node) (ho : OracleTok o) (s : Str)
    (items : List (Item Node)) (hm : (planInquire s).bind (runSlots o) = .ok items)
    (hs : SrmOK (lstrip (s.drop 7))) :
    ∃ t, tostrInquire o items = .ok t ∧ toks t = toks s ∧
      ((∀ i ∈ items, net (i.text o) = 0) → net t = 0) :=
  inquire_tostr_match_tokens o ho s items hm (fun _ => hs)

/-! ## the keyword tables -/

theorem kvSplit_kw_some {k : Str} {c : ClassId} {s : Str} {slots : List Combi.Slot}
    (h : Combi.kvSplit (.kw k) c true true s = some slots) :
    ∃ p0 p1, s = p0 ++ '=' :: p1 ∧ '=' ∉ p0 ∧ upper (strip p0) = k ∧
      slots = [.str k, if (strip p1).isEmpty then .fail else .child c (strip p1)] := by
  unfold Combi.kvSplit at h
  cases hc : Combi.cutFirst '=' s with
  | none =>
    simp [hc] at h
  | some p =>
    obtain ⟨p0, p1⟩ := p
    obtain ⟨hs, hn⟩ := Combi.cutFirst_spec s p0 p1 hc
    simp only [hc] at h
    by_cases hk : upper (strip p0) = k
    · refine ⟨p0, p1, hs, hn, hk, ?_⟩
      simp [hk] at h
      by_cases hk0 : k = []
      · simp [hk0] at h
      · simp [hk0] at h
        rw [← h.2]; simp
    · simp [hk] at h

theorem kvOne_some {k : Str} {c : ClassId} {s : Str} {slots : List Slot}
    (h : kvOne k c s = some slots) :
    ∃ p0 p1, s = p0 ++ '=' :: p1 ∧ '=' ∉ p0 ∧ upper (strip p0) = k ∧
      slots = [.str k, if (strip p1).isEmpty then .fail else .child c (strip p1)] := by
  unfold kvOne at h
  cases hk : Combi.kvSplit (.kw k) c true true s with
  | none => simp [hk] at h
  | some cs =>
    rw [hk] at h
    obtain ⟨p0, p1, hs, hn, hu, rfl⟩ := kvSplit_kw_some hk
    refine ⟨p0, p1, hs, hn, hu, ?_⟩
    simp only [Option.map_some, Option.some.injEq] at h
    rw [← h]
    by_cases he : (strip p1).isEmpty = true <;> simp [he, ofCombiSlot]

/-- **the keyword tables, generic**: a successful `for k, v in table: KeywordValueBase.match(k, v,
    string, upper_lhs=True)` loop has cut the text at its FIRST `=`, found the (case-folded,
    stripped) left part in the table, and handed the stripped right part to the class of that
    entry -/
theorem kvTable_ok (o : Oracle Node) (catchNM : Bool) :
    ∀ (tbl : List (Str × ClassId)) (s : Str) (items : List (Item Node)),
    kvTable o catchNM tbl s = some (.ok items) →
    ∃ k c p0 p1 n, (k, c) ∈ tbl ∧ s = p0 ++ '=' :: p1 ∧ '=' ∉ p0 ∧ upper (strip p0) = k ∧
      items = [.str k, .node n] ∧ o.call c (strip p1) = .ok n
  | [], s, items, h => by simp [kvTable] at h
  | (k, c) :: rest, s, items, h => by
    unfold kvTable at h
    split at h
    · obtain ⟨k', c', p0, p1, n, hm, hrest⟩ := kvTable_ok o catchNM rest s items h
      exact ⟨k', c', p0, p1, n, List.mem_cons_of_mem _ hm, hrest⟩
    · rename_i slots hone
      split at h
      · rename_i its hrun
        cases h
        obtain ⟨p0, p1, hs, hn, hu, rfl⟩ := kvOne_some hone
        obtain ⟨i, is, rfl, hi, his⟩ := runSlots_cons_ok hrun
        obtain ⟨j, js, rfl, hj, hjs⟩ := runSlots_cons_ok his
        have := runSlots_nil_ok hjs; subst this
        have := runSlot_str_ok hi; subst this
        by_cases he : (strip p1).isEmpty = true
        · rw [if_pos he] at hj; exact absurd hj (runSlot_fail o _)
        · rw [if_neg he] at hj
          obtain ⟨n, rfl, hn'⟩ := runSlot_child_ok hj
          exact ⟨k, c, p0, p1, n, by simp, hs, hn, hu, rfl, hn'⟩
      · split at h
        · obtain ⟨k', c', p0, p1, n, hm, hrest⟩ := kvTable_ok o catchNM rest s items h
          exact ⟨k', c', p0, p1, n, List.mem_cons_of_mem _ hm, hrest⟩
        · cases h
      · cases h

/-- a keyword-table match prints `KEY = value` with the tokens of the input -/
theorem kvTable_tostr_match_tokens (o : Oracle Node) (ho : OracleTok o) (catchNM : Bool)
    (tbl : List (Str × ClassId)) (s : Str) (items : List (Item Node))
    (h : kvTable o catchNM tbl s = some (.ok items)) :
    ∃ t, kvStr o items = .ok t ∧ toks t = toks s ∧
      ((∀ i ∈ items, net (i.text o) = 0) → net t = 0) := by
  obtain ⟨k, c, p0, p1, n, _, hs, _, hu, rfl, hn⟩ := kvTable_ok o catchNM tbl s items h
  have e3 : ∀ X : Str, '=' :: X = "=".toList ++ X := fun _ => rfl
  have k1 : toks " = ".toList = toks "=".toList := by decide
  have n1 : net " = ".toList = 0 := by decide
  refine ⟨k ++ " = ".toList ++ o.str n, rfl, ?_, ?_⟩
  · rw [hs, e3]
    simp only [toks_append, ho _ _ _ hn, toks_strip, ← hu, toks_upper, k1, List.append_assoc]
  · intro hb
    have h1 : net k = 0 := hb (.str k) (by simp)
    have h2 : net (o.str n) = 0 := hb (.node n) (by simp)
    simp only [net_append, h1, h2, n1]; rfl

theorem tableOr_ok {r : Option (Res (List (Item Node)))} {dflt : Res (List (Item Node))}
    {items : List (Item Node)} (h : tableOr r dflt = .ok items) :
    r = some (.ok items) ∨ (r = none ∧ dflt = .ok items) := by
  unfold tableOr at h
  split at h
  · exact .inl (by rw [h])
  · exact .inr ⟨rfl, h⟩

theorem tableOr_noMatch_ok {r : Option (Res (List (Item Node)))}
    {items : List (Item Node)} (h : tableOr r .noMatch = .ok items) : r = some (.ok items) := by
  rcases tableOr_ok h with h | ⟨_, h⟩
  · exact h
  · cases h

/-- the default branch `return "UNIT", File_Unit_Number(string)`: the printed text is
    `UNIT = x` for an input `x` — the keyword `UNIT` and the `=` are INVENTED -/
theorem unitDefault_tostr_tokens (o : Oracle Node) (ho : OracleTok o) (s : Str)
    (items : List (Item Node)) (h : unitDefault o s = .ok items) :
    ∃ t, kvStr o items = .ok t ∧ toks t = toks "UNIT=".toList ++ toks s ∧
      ((∀ i ∈ items, net (i.text o) = 0) → net t = 0) := by
  unfold unitDefault at h
  obtain ⟨i, is, rfl, hi, his⟩ := runSlots_cons_ok h
  obtain ⟨j, js, rfl, hj, hjs⟩ := runSlots_cons_ok his
  have := runSlots_nil_ok hjs; subst this
  have := runSlot_str_ok hi; subst this
  obtain ⟨n, rfl, hn⟩ := runSlot_child_ok hj
  have k1 : toks "UNIT = ".toList = toks "UNIT=".toList := by decide
  have n1 : net "UNIT = ".toList = 0 := by decide
  refine ⟨"UNIT = ".toList ++ o.str n, rfl, ?_, ?_⟩
  · simp only [toks_append, ho _ _ _ hn, k1]
  · intro hb
    have h2 : net (o.str n) = 0 := hb (.node n) (by simp)
    simp only [net_append, h2, n1]; rfl

/-- **Io_Control_Spec** -/
theorem ioControlSpec_tostr_match_tokens (o : Oracle Node) (ho : OracleTok o) (s : Str)
    (items : List (Item Node)) (hm : matchIoControlSpec o s = .ok items) :
    ∃ t, kvStr o items = .ok t ∧ toks t = toks s ∧
      ((∀ i ∈ items, net (i.text o) = 0) → net t = 0) :=
  kvTable_tostr_match_tokens o ho _ _ s items (tableOr_noMatch_ok hm)

/-- **Alloc_Opt** (F2003 and F2008 tables) -/
theorem allocOpt_tostr_match_tokens (std : Std) (o : Oracle Node) (ho : OracleTok o) (s : Str)
    (items : List (Item Node)) (hm : matchAllocOpt std o s = .ok items) :
    ∃ t, kvStr o items = .ok t ∧ toks t = toks s ∧
      ((∀ i ∈ items, net (i.text o) = 0) → net t = 0) :=
  kvTable_tostr_match_tokens o ho _ _ s items (tableOr_noMatch_ok hm)

/-- **Dealloc_Opt** -/
theorem deallocOpt_tostr_match_tokens (o : Oracle Node) (ho : OracleTok o) (s : Str)
    (items : List (Item Node)) (hm : matchDeallocOpt o s = .ok items) :
    ∃ t, kvStr o items = .ok t ∧ toks t = toks s ∧
      ((∀ i ∈ items, net (i.text o) = 0) → net t = 0) :=
  kvTable_tostr_match_tokens o ho _ _ s items (tableOr_noMatch_ok hm)

/-- **Connect_Spec** (F2003 and F2008 tables).  With an `=` in the text: the tokens of the input.
    WITHOUT an `=`: the text `x` is printed as `UNIT = x` — the exact relation is
    `toks t = toks "UNIT=" ++ toks s` (a keyword and the `=` are invented by `match`). -/
theorem connectSpec_tostr_match_tokens (std : Std) (o : Oracle Node) (ho : OracleTok o) (s : Str)
    (items : List (Item Node)) (hm : matchConnectSpec std o s = .ok items) :
    ∃ t, kvStr o items = .ok t ∧
      ('=' ∈ s → toks t = toks s) ∧ ('=' ∉ s → toks t = toks "UNIT=".toList ++ toks s) ∧
      ((∀ i ∈ items, net (i.text o) = 0) → net t = 0) := by
  unfold matchConnectSpec at hm
  split at hm
  · rename_i hc
    have hc' : '=' ∉ s := by simpa using hc
    obtain ⟨t, h1, h2, h3⟩ := unitDefault_tostr_tokens o ho s items hm
    exact ⟨t, h1, fun h => absurd h hc', fun _ => h2, h3⟩
  · rename_i hc
    have hc' : '=' ∈ s := by simpa using hc
    obtain ⟨t, h1, h2, h3⟩ := kvTable_tostr_match_tokens o ho _ _ s items (tableOr_noMatch_ok hm)
    exact ⟨t, h1, fun _ => h2, fun h => absurd hc' h, h3⟩

/-- **Inquire_Spec**: as `Connect_Spec` -/
theorem inquireSpec_tostr_match_tokens (o : Oracle Node) (ho : OracleTok o) (s : Str)
    (items : List (Item Node)) (hm : matchInquireSpec o s = .ok items) :
    ∃ t, kvStr o items = .ok t ∧
      ('=' ∈ s → toks t = toks s) ∧ ('=' ∉ s → toks t = toks "UNIT=".toList ++ toks s) ∧
      ((∀ i ∈ items, net (i.text o) = 0) → net t = 0) := by
  unfold matchInquireSpec at hm
  split at hm
  · rename_i hc
    have hc' : '=' ∉ s := by simpa using hc
    obtain ⟨t, h1, h2, h3⟩ := unitDefault_tostr_tokens o ho s items hm
    exact ⟨t, h1, fun h => absurd h hc', fun _ => h2, h3⟩
  · rename_i hc
    have hc' : '=' ∈ s := by simpa using hc
    obtain ⟨t, h1, h2, h3⟩ := kvTable_tostr_match_tokens o ho _ _ s items (tableOr_noMatch_ok hm)
    exact ⟨t, h1, fun _ => h2, fun h => absurd hc' h, h3⟩

/-- **Close_Spec**: the default `UNIT` branch is taken when the keyword loop RAN OUT (not: when
    there is no `=`).  Either a table entry matched and the tokens are those of the input, or the
    loop ended without a result (no `=`, an unknown keyword, or every candidate's value class
    refused the right-hand side) and the WHOLE text `x` was accepted by `File_Unit_Number` and is
    printed as `UNIT = x`: `toks t = toks "UNIT=" ++ toks s`. -/
theorem closeSpec_tostr_match_tokens (o : Oracle Node) (ho : OracleTok o) (s : Str)
    (items : List (Item Node)) (hm : matchCloseSpec o s = .ok items) :
    ∃ t, kvStr o items = .ok t ∧
      ((kvTable o true closeTable s = some (.ok items) ∧ toks t = toks s) ∨
       (kvTable o true closeTable s = none ∧ toks t = toks "UNIT=".toList ++ toks s)) ∧
      ((∀ i ∈ items, net (i.text o) = 0) → net t = 0) := by
  unfold matchCloseSpec at hm
  rcases tableOr_ok hm with h | ⟨h, hd⟩
  · obtain ⟨t, h1, h2, h3⟩ := kvTable_tostr_match_tokens o ho _ _ s items h
    exact ⟨t, h1, .inl ⟨h, h2⟩, h3⟩
  · obtain ⟨t, h1, h2, h3⟩ := unitDefault_tostr_tokens o ho s items hd
    exact ⟨t, h1, .inr ⟨h, h2⟩, h3⟩

/-- the echo oracle (every class accepts every text and prints it back) -/
def echoOracle : Oracle Str :=
  { call := fun _ t => .ok t, str := id, head := fun _ => none, rhsStr := id,
    heads := fun _ => [], isDataEdit := fun _ => false }

/-- witness that the `UNIT=` of the default branch is really invented: `Connect_Spec("10")`
    prints as `UNIT = 10`, whose token text is not that of the input -/
theorem connectSpec_invents_unit :
    matchConnectSpec .f2003 echoOracle "10".toList = .ok [.str "UNIT".toList, .node "10".toList] ∧
    kvStr echoOracle [.str "UNIT".toList, .node "10".toList] = .ok "UNIT = 10".toList ∧
    toks "UNIT = 10".toList ≠ toks "10".toList := by decide

/-! ## Io_Control_Spec_List -/

theorem toks_joinStr (sep : Str) : ∀ xs : List Str,
    toks (Combi.joinStr sep xs) = Combi.joinStr (toks sep) (xs.map toks)
  | [] => rfl
  | [a] => rfl
  | a :: b :: rest => by
    have ih := toks_joinStr sep (b :: rest)
    simp only [Combi.joinStr, List.map_cons, toks_append] at ih ⊢
    rw [ih]

theorem net_joinStr (sep : Str) (hsep : net sep = 0) : ∀ xs : List Str,
    (∀ x ∈ xs, net x = 0) → net (Combi.joinStr sep xs) = 0
  | [], _ => rfl
  | [a], h => h a (by simp)
  | a :: b :: rest, h => by
    have ih := net_joinStr sep hsep (b :: rest) (fun x hx => h x (List.mem_cons_of_mem _ hx))
    simp only [Combi.joinStr, net_append, hsep, ih, h a (by simp)]; rfl

theorem ioControlChecks_ok {o : Oracle Node} {a b : Bool} {lst items : List (Item Node)}
    (h : ioControlChecks o a b lst = .ok items) : items = lst := by
  unfold ioControlChecks at h
  dsimp only at h
  split at h
  · cases h
  split at h
  · cases h
  split at h
  · cases h
  cases h; rfl

theorem namedSpec_ok {o : Oracle Node} (ho : OracleTok o) {t : Str} {i : Item Node}
    (h : namedSpec o t = .ok i) : toks (i.text o) = toks t := by
  unfold namedSpec at h
  obtain ⟨n, hn, rfl⟩ := Res.map_eq_ok h
  exact ho _ _ _ hn

theorem bareSpec_ok {o : Oracle Node}
    (hb : ∀ name spec n, o.call C.Io_Control_Spec (name ++ '=' :: spec) = .ok n →
      toks (o.rhsStr n) = toks spec)
    {name spec : Str} {i : Item Node}
    (h : bareSpec o (name ++ '=' :: spec) = .ok i) : toks (i.text o) = toks spec := by
  unfold bareSpec at h
  obtain ⟨n, hn, rfl⟩ := Res.map_eq_ok h
  exact hb _ _ _ hn

theorem namedSpecs_ok (o : Oracle Node) (ho : OracleTok o) (m : Map) :
    ∀ (ps : List Str) (is : List (Item Node)), (∀ p ∈ ps, Seg m p) → namedSpecs o m ps = .ok is →
      is.map (fun i => toks (i.text o)) = ps.map (fun p => toks (applyMap m p))
  | [], is, _, h => by cases h; rfl
  | p :: ps, is, hseg, h => by
    unfold namedSpecs at h
    obtain ⟨i, hi, h⟩ := Res.bind_eq_ok h
    obtain ⟨is', his, h⟩ := Res.bind_eq_ok h
    cases h
    have h1 := namedSpec_ok ho hi
    have h2 := namedSpecs_ok o ho m ps is' (fun q hq => hseg q (List.mem_cons_of_mem _ hq)) his
    simp only [List.map_cons, h1, h2, toks_of_noBlank (Seg.strip (hseg p (by simp))).2]

theorem unnamedSecond_ok (o : Oracle Node)
    (hb : ∀ name spec n, o.call C.Io_Control_Spec (name ++ '=' :: spec) = .ok n →
      toks (o.rhsStr n) = toks spec) (spec : Str) :
    ∀ (l : List (ClassId × String)) (i : Item Node), unnamedSecond o spec l = .ok (some i) →
      toks (i.text o) = toks spec
  | [], i, h => by simp [unnamedSecond] at h
  | (c, name) :: rest, i, h => by
    unfold unnamedSecond at h
    split at h
    · cases h
    · exact unnamedSecond_ok o hb spec rest i h
    · split at h
      · cases h
      · exact unnamedSecond_ok o hb spec rest i h
      · rename_i i' hi
        cases h
        exact bareSpec_ok hb hi

/-- the inner `try` of `Io_Control_Spec_List.match` -/
theorem named_ok (o : Oracle Node) (ho : OracleTok o) (m : Map) (lst : List (Item Node))
    (spec : Str) (rest : List Str) (hu hn : Bool) (items : List (Item Node))
    (hseg : ∀ p ∈ rest, Seg m p)
    (h : ((namedSpec o spec).bind fun i =>
      (namedSpecs o m rest).bind fun is => ioControlChecks o hu hn (lst ++ i :: is)) = .ok items) :
    ∃ i is, items = lst ++ i :: is ∧ toks (i.text o) = toks spec ∧
      is.map (fun i => toks (i.text o)) = rest.map (fun p => toks (applyMap m p)) := by
  obtain ⟨i, hi, h⟩ := Res.bind_eq_ok h
  obtain ⟨is, his, h⟩ := Res.bind_eq_ok h
  exact ⟨i, is, ioControlChecks_ok h, namedSpec_ok ho hi, namedSpecs_ok o ho m rest is hseg his⟩

/-- the token texts of the entries are those of the pieces of the split -/
theorem ioList_key (o : Oracle Node) (ho : OracleTok o)
    (hb : ∀ name spec n, o.call C.Io_Control_Spec (name ++ '=' :: spec) = .ok n →
      toks (o.rhsStr n) = toks spec)
    (s : Str) (items : List (Item Node)) (hm : matchIoControlSpecList o s = .ok items) :
    ∃ r, tok s = .ok r ∧ ((∀ p ∈ splitC ',' r.text, Seg r.map p) →
      items.map (fun i => toks (i.text o)) =
        (splitC ',' r.text).map (fun p => toks (applyMap r.map p))) := by
  unfold matchIoControlSpecList at hm
  obtain ⟨r, htok, hm⟩ := Res.bind_eq_ok hm
  refine ⟨r, htok, ?_⟩
  generalize splitC ',' r.text = pieces at hm
  intro hseg
  split at hm
  · cases hm
  rename_i p0 rest
  dsimp only at hm
  have hseg0 := hseg p0 (by simp)
  have hsegR : ∀ p ∈ rest, Seg r.map p := fun p hp => hseg p (List.mem_cons_of_mem _ hp)
  have h0 : toks (applyMap r.map (strip p0)) = toks (applyMap r.map p0) :=
    toks_of_noBlank (Seg.strip hseg0).2
  -- the plain case (everything named)
  have plain : ∀ hu hn, ((namedSpec o (applyMap r.map (strip p0))).bind fun i =>
      (namedSpecs o r.map rest).bind fun is => ioControlChecks o hu hn ([] ++ i :: is)) = .ok items →
      items.map (fun i => toks (i.text o)) =
        (p0 :: rest).map (fun p => toks (applyMap r.map p)) := by
    intro hu hn h
    obtain ⟨i, is, rfl, h1, h2⟩ := named_ok o ho r.map [] _ rest hu hn items hsegR h
    simp only [List.nil_append, List.map_cons, h1, h2, h0]
  split at hm
  · cases hm
  · exact plain _ _ hm
  · split at hm
    · cases hm
    · exact plain _ _ hm
    · rename_i u hu
      have hu' : toks (u.text o) = toks (applyMap r.map p0) := by
        have e : "unit=".toList ++ applyMap r.map (strip p0) =
            "unit".toList ++ '=' :: applyMap r.map (strip p0) := rfl
        rw [e] at hu
        rw [bareSpec_ok hb hu, h0]
      split at hm
      · cases hm
        simp only [List.map_cons, List.map_nil, hu']
      · rename_i p1 rest'
        have hseg1 := hsegR p1 (by simp)
        have hsegR' : ∀ p ∈ rest', Seg r.map p := fun p hp => hsegR p (List.mem_cons_of_mem _ hp)
        have h1 : toks (applyMap r.map (strip p1)) = toks (applyMap r.map p1) :=
          toks_of_noBlank (Seg.strip hseg1).2
        split at hm
        · cases hm
        · cases hm
        · rename_i i hi
          obtain ⟨is, his, hm⟩ := Res.bind_eq_ok hm
          have := ioControlChecks_ok hm; subst this
          have hi' := unnamedSecond_ok o hb _ _ i hi
          have his' := namedSpecs_ok o ho r.map rest' is hsegR' his
          simp only [List.map_cons, hu', hi', his', h1]
        · obtain ⟨i, is, rfl, hi', his'⟩ := named_ok o ho r.map [u] _ rest' _ _ items hsegR' hm
          simp only [List.map_cons, List.cons_append, List.nil_append, hu', hi', his', h1]

/-- **Io_Control_Spec_List**: the printed list `", ".join(items)` has the tokens of the input.
    `hb` is the law of the blanked nodes: a positional entry `x` is matched as `unit=x` /
    `nml=x` / `fmt=x` and its keyword is then overwritten with `None`, so that it prints the value
    only. -/
theorem ioControlSpecList_tostr_match_tokens (o : Oracle Node) (ho : OracleTok o)
    (hb : ∀ name spec n, o.call C.Io_Control_Spec (name ++ '=' :: spec) = .ok n →
      toks (o.rhsStr n) = toks spec)
    (s : Str) (items : List (Item Node)) (hm : matchIoControlSpecList o s = .ok items)
    (hs : SrmOK s) :
    ∃ t, tostrList o items = .ok t ∧ toks t = toks s ∧
      ((∀ i ∈ items, net (i.text o) = 0) → net t = 0) := by
  obtain ⟨r, htok, hkey⟩ := ioList_key o ho hb s items hm
  have htk := tok_ok htok
  obtain ⟨hseg, hexp⟩ := seg_of_tokenise hs htk
  obtain ⟨hpieces, happ⟩ := Seg.splitC isWord_comma hseg
  have hkey' := hkey hpieces
  refine ⟨_, rfl, ?_, ?_⟩
  · have k1 : toks ", ".toList = toks [','] := by decide
    rw [← toks_of_noBlank hexp, happ, toks_joinStr, toks_joinStr, k1, List.map_map, List.map_map]
    exact congrArg _ hkey'
  · intro hbal
    apply net_joinStr _ (by decide)
    intro x hx
    obtain ⟨i, hi, rfl⟩ := List.mem_map.mp hx
    exact hbal i hi

end Fp.IoStmt

#print axioms Fp.IoStmt.read_tostr_match_tokens
#print axioms Fp.IoStmt.print_tostr_match_tokens
#print axioms Fp.IoStmt.inquire_tostr_match_tokens
#print axioms Fp.IoStmt.inquire_tostr_match_tokens'
#print axioms Fp.IoStmt.connectSpec_invents_unit
#print axioms Fp.IoStmt.kvTable_ok
#print axioms Fp.IoStmt.kvTable_tostr_match_tokens
#print axioms Fp.IoStmt.unitDefault_tostr_tokens
#print axioms Fp.IoStmt.ioControlSpec_tostr_match_tokens
#print axioms Fp.IoStmt.connectSpec_tostr_match_tokens
#print axioms Fp.IoStmt.closeSpec_tostr_match_tokens
#print axioms Fp.IoStmt.inquireSpec_tostr_match_tokens
#print axioms Fp.IoStmt.allocOpt_tostr_match_tokens
#print axioms Fp.IoStmt.deallocOpt_tostr_match_tokens
#print axioms Fp.IoStmt.ioControlSpecList_tostr_match_tokens
