"""C07 — a syntax error is reported at the offending statement's line."""
import random
import re
from fv import real, gen, layout, engine, findings
from fv.props import util

RULE = ("for generated valid free-form programs (laid out with continuations/comments), EVERY statement in turn (exhaustive per "
        "program) is replaced by garbage from a small set that matches no rule, spread over the same physical lines; oracle: "
        "FortranSyntaxError whose 'at line N' is the last physical line of the replaced statement and whose '>>>' text is that "
        "line; comments ignored and kept. non-trivial = the replaced statement is nested >= 1 deep or continued")
ASSUMPTIONS = ["garbage strings are checked (by the harness) to be rejected as a lone statement inside a program"]
TIE_MODULES = ["FparserModel.Block", "FparserModel.Reader"]

GARBAGE = ["@@ bad @@", "x = = 1", "%% 42 :: ::", "1 + + )(", "this isn't fortran", 'say "hi ) (']
_AT = re.compile(r"at line (\d+)\n>>>(.*)\n")


def run_case(case):
    p = util.program_case(case)
    std = case["std"]
    keep = case["keep"]
    res = {"key": [case["seed"], std, keep], "counts": {}, "findings": [], "nontrivial": True}
    opts = layout.FreeOpts(p_cont=0.3, comments=True, p_extra_blank=0.0, p_blank=0.15)
    # comment texts with the characters str.splitlines() treats as line breaks although they are
    # not (form feed = the page breaks of legacy sources, VT, FS/GS/RS, NEL, LS/PS): a physical
    # line ends at \n only
    ctexts = None
    if case["seed"] % 2 == 0:
        ctexts = layout.COMMENT_TEXTS + ["! page\x0cbreak", "!\x0c", "! vt\x0bx", "! fs\x1cgs\x1drs\x1e", "! nel\x85x", "! ls\u2028ps\u2029"]
    L = layout.render_free(p, case["seed"] ^ 0xC07, opts, comment_texts=ctexts)
    if case["seed"] % 2 == 0:
        # blank lines that consist of such a character (a form feed on a line of its own is the
        # page break of legacy sources): still one physical line each
        r1 = random.Random(case["seed"] ^ 0xFF)
        for i_, l_ in enumerate(L.lines):
            if not l_.strip() and r1.random() < 0.7:
                L.lines[i_] = r1.choice(["\x0c", " \x0c", "\x0b", "\x1c", "\x0c\x0c"])
                res["counts"]["pseudo-linebreak-blank-line"] = res["counts"].get("pseudo-linebreak-blank-line", 0) + 1
    base = list(L.lines)
    o = real.try_parse(L.text(), std=std, ignore_comments=not keep, free=True)
    if o.kind != "tree":
        res["nontrivial"] = False
        res["counts"]["base-rejected"] = 1
        return res
    rng = random.Random(case["seed"])
    flat = layout.flat_with_depth(p)
    n = 0
    keys = 0
    for st, depth in flat:
        first, last = L.spans[st.uid]
        if first != last and any(L.spans[u][0] == first for u in L.spans if u != st.uid):
            continue
        # do not touch lines shared with other statements (';' joins are not used here)
        g = GARBAGE[(st.uid + case["seed"]) % len(GARBAGE)]
        k = last - first + 1
        # lines of the span that are comment/blank lines (between continuation lines) stay
        stmt_lines = [i for i in range(first, last + 1)
                      if base[i - 1].strip() and not base[i - 1].lstrip().startswith("!")]
        if not stmt_lines or stmt_lines[-1] != last:
            continue
        pieces = g.split(" ")
        m = len(stmt_lines)
        lines = list(base)
        if m == 1:
            lines[first - 1] = "  " + g
        else:
            per = max(1, len(pieces) // m)
            chunks = [" ".join(pieces[i * per:(i + 1) * per]) for i in range(m - 1)] + [" ".join(pieces[(m - 1) * per:])]
            chunks = [c if c else "@" for c in chunks]
            for j, ln in enumerate(stmt_lines):
                lines[ln - 1] = "  " + chunks[j] + (" &" if j < m - 1 else "")
        src = "\n".join(lines) + "\n"
        o2 = real.try_parse(src, std=std, ignore_comments=not keep, free=True)
        n += 1
        if depth >= 1 or m > 1:
            keys += 1
            res.setdefault("keys", []).append("%d:%d:%s" % (case["seed"], st.uid, keep))
        res["counts"]["cons:%s/%s" % (st.cons or "-", st.role)] = res["counts"].get("cons:%s/%s" % (st.cons or "-", st.role), 0) + 1
        exp_text = lines[last - 1]
        if (st.uid + case["seed"]) % 9 == 0:
            fs, info = util.block_cosim(src, std=std, ignore_comments=not keep, case=case)
            res["findings"] += fs
            res["counts"]["block-cosim"] = res["counts"].get("block-cosim", 0) + 1
        bad = None
        if o2.kind != "syntax":
            bad = ("accepted" if o2.kind == "tree" else util.outcome_signature(o2),
                   "garbage statement not reported as FortranSyntaxError: %s" % o2.kind)
        else:
            mm = _AT.search(str(o2.exc))
            if not mm:
                bad = ("no-location", "error without location: %r" % str(o2.exc)[:100])
            elif int(mm.group(1)) != last or mm.group(2) != exp_text:
                bad = ("wrong-line(%+d)" % (int(mm.group(1)) - last),
                       "reported line %s %r, statement ends at line %d %r" % (mm.group(1), mm.group(2)[:60], last, exp_text[:60]))
        if bad:
            ctx = {"std": std, "ignore_comments": not keep, "cons": st.cons, "role": st.role, "first": first, "last": last}
            known = findings.classify("C07", src, ctx)
            res["findings"].append({"signature": known or ("%s:%s/%s" % (bad[0], st.cons or "-", st.role)),
                                    "what": bad[1] + " | replaced %r" % st.text()[:80],
                                    "replay": {"case": case, "source": src, "stmt": st.text(), "span": [first, last]}})
    res["evals"] = n
    res["nkeys"] = keys
    res["sample"] = {"seed": case["seed"], "statements": n, "garbage": GARBAGE[case["seed"] % len(GARBAGE)]}
    return res


def cases(tier, seed):
    n = util.tier_n(tier, 48, 400)
    out = []
    for i, s in enumerate(util.seeds(seed, n, 7)):
        out.append({"seed": s, "std": "f2008" if i % 3 else "f2003", "keep": i % 2 == 1, "size": 0.7, "_timeout": 900})
    return out


def run(tier, rep, st):
    # the garbage strings must match no rule
    for g in GARBAGE:
        o = real.try_parse("program p\n%s\nend program p\n" % g, free=True)
        if o.kind == "tree":
            rep.notes.append("garbage %r is accepted as a statement!" % g)
    results = engine.run_cases(__name__, cases(tier, rep.seed), rep)
    rep.evaluations = sum(r.get("evals", 0) for r in results)
    rep.coverage["nested_or_continued_statements"] = sum(r.get("nkeys", 0) for r in results)
